(* C05 - the Zech-logarithm macros of gfq.inl compute ring arithmetic.
   Abstract part: R is ANY commutative ring, g an element with g^N = 1 (N >= 1); the representation is
   0 -> 0, i in [1,N] -> g^i.  Under the table invariant TI (plun i + N is the logarithm of 1 + g^i, plun mo = 0,
   g^mo = -1) every macro and every scalar member function of GFqDom returns a representation in [0,N] whose value
   is the ring operation on the values of the operands.  No finiteness, no field axiom, no bound on N is used. *)
From Coq Require Import ZArith Lia Ring List Bool.
From C05 Require Import Model.
Local Open Scope Z_scope.

Section Zech.
  Variable R : Type.
  Variables (rO rI : R) (radd rmul rsub : R -> R -> R) (ropp : R -> R).
  Variable Rth : ring_theory rO rI radd rmul rsub ropp (@eq R).
  Add Ring Rring : Rth.
  Infix "+'" := radd (at level 50, left associativity).
  Infix "*'" := rmul (at level 40, left associativity).
  Infix "-'" := rsub (at level 50, left associativity).

  Variable g : R.
  Fixpoint pwn (n : nat) : R := match n with O => rI | S m => g *' pwn m end.
  Definition pw (z : Z) : R := pwn (Z.to_nat z).

  Variable N : Z.
  Hypothesis N_pos : 1 <= N.
  Hypothesis gN : pw N = rI.

  (* exponents modulo N *)
  Definition gz (z : Z) : R := pw (z mod N).
  (* the value of a representation *)
  Definition val (a : Z) : R := if a =? 0 then rO else pw a.

  Lemma pwn_add a b : pwn (a + b) = pwn a *' pwn b.
  Proof. induction a; cbn [pwn Nat.add]; [ring | rewrite IHa; ring]. Qed.

  Lemma pw_add a b : 0 <= a -> 0 <= b -> pw (a + b) = pw a *' pw b.
  Proof. intros. unfold pw. rewrite Z2Nat.inj_add by lia. apply pwn_add. Qed.

  Lemma pw_0 : pw 0 = rI.
  Proof. reflexivity. Qed.

  Lemma gz_cong a b : a mod N = b mod N -> gz a = gz b.
  Proof. unfold gz. intros ->. reflexivity. Qed.

  Lemma gz_add a b : gz (a + b) = gz a *' gz b.
  Proof.
    unfold gz. rewrite Z.add_mod by lia.
    assert (Ha : 0 <= a mod N < N) by (apply Z.mod_pos_bound; lia).
    assert (Hb : 0 <= b mod N < N) by (apply Z.mod_pos_bound; lia).
    set (x := a mod N) in *. set (y := b mod N) in *.
    destruct (Z_lt_dec (x + y) N).
    - rewrite Z.mod_small by lia. apply pw_add; lia.
    - replace ((x + y) mod N) with (x + y - N).
      + rewrite <- pw_add by lia.
        replace (x + y) with ((x + y - N) + N) at 2 by lia.
        rewrite pw_add by lia. rewrite gN. ring.
      + symmetry. rewrite <- (Z.mod_small (x + y - N) N) by lia.
        replace (x + y) with ((x + y - N) + 1 * N) at 1 by lia. rewrite Z.mod_add by lia. reflexivity.
  Qed.

  Lemma gz_0 : gz 0 = rI.
  Proof. unfold gz. rewrite Z.mod_0_l by lia. reflexivity. Qed.

  Lemma gz_plusN a : gz (a + N) = gz a.
  Proof. apply gz_cong. replace (a + N) with (a + 1 * N) by lia. apply Z.mod_add. lia. Qed.

  Lemma gz_minusN a : gz (a - N) = gz a.
  Proof. rewrite <- (gz_plusN (a - N)). f_equal. lia. Qed.

  Lemma gz_N : gz N = rI.
  Proof. unfold gz. rewrite Z.mod_same by lia. reflexivity. Qed.

  Lemma gz_pw a : 1 <= a <= N -> pw a = gz a.
  Proof.
    intros. destruct (Z.eq_dec a N) as [->|].
    - rewrite gz_N. exact gN.
    - unfold gz. rewrite Z.mod_small by lia. reflexivity.
  Qed.

  Lemma val_nz a : 1 <= a <= N -> val a = gz a.
  Proof. intros. unfold val. destruct (Z.eqb_spec a 0); [lia|]. apply gz_pw; lia. Qed.

  Lemma val_0 : val 0 = rO.
  Proof. reflexivity. Qed.

  Lemma wrapP_cases c : (0 < c /\ wrapP c N = c) \/ (c <= 0 /\ wrapP c N = c + N).
  Proof. unfold wrapP. destruct (Z.ltb_spec 0 c); [left|right]; lia. Qed.

  Lemma wrapN_cases c : (c < 0 /\ wrapN c N = c + N) \/ (0 <= c /\ wrapN c N = c).
  Proof. unfold wrapN. destruct (Z.ltb_spec c 0); [left|right]; lia. Qed.

  Lemma gz_wrapP c : gz (wrapP c N) = gz c.
  Proof. destruct (wrapP_cases c) as [[_ ->]|[_ ->]]; [reflexivity | apply gz_plusN]. Qed.

  Lemma gz_wrapN c : gz (wrapN c N) = gz c.
  Proof. destruct (wrapN_cases c) as [[_ ->]|[_ ->]]; [apply gz_plusN | reflexivity]. Qed.

  Lemma wrapP_rng c : 1 - N <= c <= N -> 1 <= wrapP c N <= N.
  Proof. intros. destruct (wrapP_cases c) as [[? ->]|[? ->]]; lia. Qed.

  (* ------------------------------------------------------------ the table invariant *)
  Variable mo : Z.
  Variable plun : Z -> Z.
  Hypothesis mo_rng : 1 <= mo <= N.
  Hypothesis g_mo : pw mo = ropp rI.
  Hypothesis TI_mo : plun mo = 0.
  Hypothesis TI : forall i, 1 <= i <= N -> i <> mo ->
      1 - N <= plun i <= -1 /\ pw (plun i + N) = rI +' pw i.

  Lemma gz_mo : gz mo = ropp rI.
  Proof. rewrite <- gz_pw by lia. exact g_mo. Qed.

  Lemma gz_negmo : gz (- mo) = ropp rI.
  Proof.
    assert (H : gz (- mo) *' gz mo = rI) by (rewrite <- gz_add, <- gz_0; f_equal; lia).
    rewrite gz_mo in H.
    transitivity (ropp (gz (- mo) *' ropp rI)); [ring | rewrite H; reflexivity].
  Qed.

  (* the look-up step common to ADD/SUB/AUTOSUB/SQADD/MULADD/MULSUB *)
  Lemma step c : 1 <= c <= N ->
    (plun c = 0 /\ gz c = ropp rI) \/ (1 - N <= plun c <= -1 /\ gz (plun c) = rI +' gz c).
  Proof.
    intros Hc. destruct (Z.eq_dec c mo) as [->|Hne].
    - left. split; [exact TI_mo | exact gz_mo].
    - right. destruct (TI c Hc Hne) as [Hr He]. split; [exact Hr|].
      rewrite <- (gz_plusN (plun c)). rewrite <- gz_pw by lia. rewrite He. rewrite gz_pw by lia. reflexivity.
  Qed.

  Notation In0N a := (0 <= a <= N).

  (* ------------------------------------------------------------ the macros *)
  Notation ADD := (gfq_add N plun).
  Notation NEG := (gfq_neg N mo).
  Notation SUB := (gfq_sub N mo plun).
  Notation AUTOSUB := (gfq_autosub N mo plun).
  Notation MUL := (gfq_mul N).
  Notation INV := (gfq_inv N).
  Notation DIV := (gfq_div N).
  Notation SQ := (gfq_sq N).
  Notation SQADD := (gfq_sqadd N plun).
  Notation MULADD := (gfq_muladd N plun).
  Notation MULSUB := (gfq_mulsub N mo plun).

  Ltac z0 x := destruct (Z.eqb_spec x 0); [subst x|].

  Lemma mul_ok a b : In0N a -> In0N b -> In0N (MUL a b) /\ val (MUL a b) = val a *' val b.
  Proof.
    intros Ha Hb. unfold gfq_mul.
    z0 a; [cbn [orb]; rewrite val_0; split; [lia|ring]|].
    z0 b; [cbn [orb]; rewrite val_0; split; [lia|ring]|]. cbn [orb].
    destruct (Z.ltb_spec N (a + b)).
    - split; [lia|]. rewrite !val_nz by lia. rewrite gz_minusN. apply gz_add.
    - split; [lia|]. rewrite !val_nz by lia. apply gz_add.
  Qed.

  Lemma neg_ok a : In0N a -> In0N (NEG a) /\ val (NEG a) = ropp (val a).
  Proof.
    intros Ha. unfold gfq_neg. z0 a; [rewrite val_0; split; [lia|ring]|].
    assert (Hr := wrapP_rng (a - mo) ltac:(lia)). split; [lia|].
    rewrite !val_nz by lia. rewrite gz_wrapP.
    replace (a - mo) with (a + - mo) by lia. rewrite gz_add, gz_negmo. ring.
  Qed.

  Lemma add_ok a b : In0N a -> In0N b -> In0N (ADD a b) /\ val (ADD a b) = val a +' val b.
  Proof.
    intros Ha Hb. unfold gfq_add.
    z0 b; [rewrite val_0; split; [lia|ring]|].
    z0 a; [rewrite val_0; split; [lia|ring]|].
    assert (Hc := wrapP_rng (a - b) ltac:(lia)).
    assert (Hg : gz (wrapP (a - b) N) = gz (a - b)) by apply gz_wrapP.
    assert (Hab : gz a = gz (a - b) *' gz b) by (rewrite <- gz_add; f_equal; lia).
    set (c := wrapP (a - b) N) in *.
    destruct (step c Hc) as [[Ht Hm]|[Ht Hm]].
    - rewrite Ht. cbn [Z.eqb]. split; [lia|]. rewrite val_0, !val_nz by lia.
      rewrite Hab, <- Hg, Hm. ring.
    - destruct (Z.eqb_spec (plun c) 0); [lia|].
      assert (Hr := wrapP_rng (plun c + b) ltac:(lia)). split; [lia|].
      rewrite !val_nz by lia. rewrite gz_wrapP, gz_add, Hm, Hab, Hg. ring.
  Qed.

  Lemma sub_ok a b : In0N a -> In0N b -> In0N (SUB a b) /\ val (SUB a b) = val a -' val b.
  Proof.
    intros Ha Hb. unfold gfq_sub.
    z0 a. { destruct (neg_ok b Hb) as [? ->]. split; [assumption|]. rewrite val_0. ring. }
    z0 b; [rewrite val_0; split; [lia|ring]|].
    set (c1 := wrapP (b - a - mo) N).
    assert (Hc1 : 1 - N <= c1 <= N) by (subst c1; destruct (wrapP_cases (b - a - mo)) as [[? ->]|[? ->]]; lia).
    assert (Hc := wrapP_rng c1 Hc1).
    assert (Hg : gz (wrapP c1 N) = ropp (gz (b - a))).
    { rewrite gz_wrapP. subst c1. rewrite gz_wrapP. replace (b - a - mo) with ((b - a) + - mo) by lia.
      rewrite gz_add, gz_negmo. ring. }
    assert (Hab : gz b = gz (b - a) *' gz a) by (rewrite <- gz_add; f_equal; lia).
    set (c := wrapP c1 N) in *.
    destruct (step c Hc) as [[Ht Hm]|[Ht Hm]].
    - rewrite Ht. cbn [Z.eqb]. split; [lia|]. rewrite val_0, !val_nz by lia.
      rewrite Hab. assert (E : gz (b - a) = rI).
      { transitivity (ropp (ropp (gz (b - a)))); [ring|]. rewrite <- Hg, Hm. ring. }
      rewrite E. ring.
    - destruct (Z.eqb_spec (plun c) 0); [lia|].
      assert (Hr := wrapP_rng (plun c + a) ltac:(lia)). split; [lia|].
      rewrite !val_nz by lia. rewrite gz_wrapP, gz_add, Hm, Hab, Hg. ring.
  Qed.

  Lemma autosub_ok c b : In0N c -> In0N b -> In0N (AUTOSUB c b) /\ val (AUTOSUB c b) = val c -' val b.
  Proof.
    intros Hc0 Hb. unfold gfq_autosub.
    z0 c. { destruct (neg_ok b Hb) as [? ->]. split; [assumption|]. rewrite val_0. ring. }
    z0 b; [cbn [negb]; rewrite val_0; split; [lia|ring]|]. cbn [negb].
    set (c1 := wrapP (c - b - mo) N).
    assert (Hc1 : 1 - N <= c1 <= N) by (subst c1; destruct (wrapP_cases (c - b - mo)) as [[? ->]|[? ->]]; lia).
    assert (Hc := wrapP_rng c1 Hc1).
    assert (Hg : gz (wrapP c1 N) = ropp (gz (c - b))).
    { rewrite gz_wrapP. subst c1. rewrite gz_wrapP. replace (c - b - mo) with ((c - b) + - mo) by lia.
      rewrite gz_add, gz_negmo. ring. }
    assert (Hab : gz c = gz (c - b) *' gz b) by (rewrite <- gz_add; f_equal; lia).
    set (c2 := wrapP c1 N) in *.
    destruct (step c2 Hc) as [[Ht Hm]|[Ht Hm]].
    - rewrite Ht. cbn [Z.eqb]. split; [lia|]. rewrite val_0, !val_nz by lia.
      rewrite Hab. assert (E : gz (c - b) = rI).
      { transitivity (ropp (ropp (gz (c - b)))); [ring|]. rewrite <- Hg, Hm. ring. }
      rewrite E. ring.
    - destruct (Z.eqb_spec (plun c2) 0); [lia|].
      set (s := plun c2 + b) in *.
      assert (Hs : gz s = (rI +' gz c2) *' gz b) by (subst s; rewrite gz_add, Hm; reflexivity).
      destruct (Z.ltb_spec 0 s).
      + assert (Hr := wrapP_rng (s - mo) ltac:(lia)). split; [lia|].
        rewrite !val_nz by lia. rewrite gz_wrapP. replace (s - mo) with (s + - mo) by lia.
        rewrite gz_add, gz_negmo, Hs, Hab, Hg. ring.
      + assert (Hr := wrapP_rng (s + mo) ltac:(lia)). split; [lia|].
        rewrite !val_nz by lia. rewrite gz_wrapP.
        rewrite gz_add, gz_mo, Hs, Hab, Hg. ring.
  Qed.

  (* inval a * a = 1 for every non-zero a;  inv 0 is the representation of 1 (unspecified case, stated for completeness) *)
  Lemma inv_ok a : 1 <= a <= N -> 1 <= INV a <= N /\ val (INV a) *' val a = rI.
  Proof.
    intros Ha. unfold gfq_inv. destruct (Z.eqb_spec (N - a) 0).
    - split; [lia|]. rewrite !val_nz by lia. rewrite <- gz_add. replace (N + a) with (N + N) by lia.
      rewrite gz_add, gz_N. ring.
    - split; [lia|]. rewrite !val_nz by lia. rewrite <- gz_add. replace (N - a + a) with N by lia. apply gz_N.
  Qed.

  (* dival a b * b = a for every non-zero b *)
  Lemma div_ok a b : In0N a -> 1 <= b <= N -> In0N (DIV a b) /\ val (DIV a b) *' val b = val a.
  Proof.
    intros Ha Hb. unfold gfq_div. z0 a; [rewrite val_0; split; [lia|ring]|].
    assert (Hr := wrapP_rng (a - b) ltac:(lia)). split; [lia|].
    rewrite !val_nz by lia. rewrite gz_wrapP, <- gz_add. f_equal. lia.
  Qed.

  Lemma sq_ok a : In0N a -> In0N (SQ a) /\ val (SQ a) = val a *' val a.
  Proof.
    intros Ha. unfold gfq_sq. z0 a; [rewrite val_0; split; [lia|ring]|].
    assert (Hr := wrapP_rng (2 * a - N) ltac:(lia)). split; [lia|].
    rewrite !val_nz by lia. rewrite gz_wrapP, gz_minusN. replace (2 * a) with (a + a) by lia. apply gz_add.
  Qed.

  (* the shared tail of SQADD / MULADD: c0 is a + a or a1 + a2, the value already reduced by N once *)
  Lemma muladd_tail e b : 2 <= e <= 2 * N -> 1 <= b <= N ->
    let c := plun (wrapP (wrapN (e - b - N) N) N) in
    let r := if c =? 0 then c else wrapP (c + b) N in
    In0N r /\ val r = gz e +' val b.
  Proof.
    intros He Hb.
    set (c1 := wrapN (e - b - N) N).
    assert (Hc1 : 1 - N <= c1 <= N) by (subst c1; destruct (wrapN_cases (e - b - N)) as [[? ->]|[? ->]]; lia).
    assert (Hc := wrapP_rng c1 Hc1).
    assert (Hg : gz (wrapP c1 N) = gz (e - b)).
    { rewrite gz_wrapP. subst c1. rewrite gz_wrapN. replace (e - b - N) with ((e - b) - N) by lia. apply gz_minusN. }
    assert (Hab : gz e = gz (e - b) *' gz b) by (rewrite <- gz_add; f_equal; lia).
    set (c2 := wrapP c1 N) in *. cbv zeta.
    destruct (step c2 Hc) as [[Ht Hm]|[Ht Hm]].
    - rewrite Ht. cbn [Z.eqb]. split; [lia|]. rewrite val_0, !val_nz by lia.
      rewrite Hab, <- Hg, Hm. ring.
    - destruct (Z.eqb_spec (plun c2) 0); [lia|].
      assert (Hr := wrapP_rng (plun c2 + b) ltac:(lia)). split; [lia|].
      rewrite !val_nz by lia. rewrite gz_wrapP, gz_add, Hm, Hab, Hg. ring.
  Qed.

  Lemma muladd_ok a1 a2 b : In0N a1 -> In0N a2 -> In0N b ->
    In0N (MULADD a1 a2 b) /\ val (MULADD a1 a2 b) = val a1 *' val a2 +' val b.
  Proof.
    intros H1 H2 Hb. unfold gfq_muladd.
    z0 a1; [cbn [orb]; rewrite val_0; split; [lia|ring]|].
    z0 a2; [cbn [orb]; rewrite val_0; split; [lia|ring]|]. cbn [orb].
    z0 b.
    - assert (Hr := wrapP_rng (a1 + a2 - N) ltac:(lia)). split; [lia|].
      rewrite val_0, !val_nz by lia. rewrite gz_wrapP, gz_minusN, gz_add. ring.
    - destruct (muladd_tail (a1 + a2) b ltac:(lia) ltac:(lia)) as [Hr Hv]. cbv zeta in Hr, Hv.
      split; [exact Hr|]. rewrite Hv. rewrite gz_add, !val_nz by lia. reflexivity.
  Qed.

  Lemma sqadd_ok a b : In0N a -> In0N b ->
    In0N (SQADD a b) /\ val (SQADD a b) = val a *' val a +' val b.
  Proof.
    intros H1 Hb. unfold gfq_sqadd.
    z0 a; [rewrite val_0; split; [lia|ring]|].
    z0 b.
    - assert (Hr := wrapP_rng (2 * a - N) ltac:(lia)). split; [lia|].
      rewrite val_0, !val_nz by lia. rewrite gz_wrapP, gz_minusN. replace (2 * a) with (a + a) by lia.
      rewrite gz_add. ring.
    - destruct (muladd_tail (2 * a) b ltac:(lia) ltac:(lia)) as [Hr Hv]. cbv zeta in Hr, Hv.
      split; [exact Hr|]. rewrite Hv. replace (2 * a) with (a + a) by lia. rewrite gz_add, !val_nz by lia. reflexivity.
  Qed.

  (* MULSUB(c,a1,a2,b) : c = b - a1*a2 *)
  Lemma mulsub_ok a1 a2 b : In0N a1 -> In0N a2 -> In0N b ->
    In0N (MULSUB a1 a2 b) /\ val (MULSUB a1 a2 b) = val b -' val a1 *' val a2.
  Proof.
    intros H1 H2 Hb. unfold gfq_mulsub.
    z0 a1; [cbn [orb]; rewrite val_0; split; [lia|ring]|].
    z0 a2; [cbn [orb]; rewrite val_0; split; [lia|ring]|]. cbn [orb].
    z0 b.
    - set (c1 := wrapP (a1 + a2 - mo - N) N).
      assert (Hc1 : 1 - N <= c1 <= N) by (subst c1; destruct (wrapP_cases (a1 + a2 - mo - N)) as [[? ->]|[? ->]]; lia).
      assert (Hr := wrapP_rng c1 Hc1). split; [lia|].
      rewrite val_0, !val_nz by lia. rewrite gz_wrapP. subst c1. rewrite gz_wrapP, gz_minusN.
      replace (a1 + a2 - mo) with (a1 + a2 + - mo) by lia. rewrite !gz_add, gz_negmo. ring.
    - set (e := a1 + a2).
      set (c0 := wrapN (e - b - N - mo) N).
      assert (Hc0 : 2 - 2 * N <= c0 <= N) by (subst c0 e; destruct (wrapN_cases (a1 + a2 - b - N - mo)) as [[? ->]|[? ->]]; lia).
      set (c1 := wrapN c0 N).
      assert (Hc1 : 1 - N <= c1 <= N) by (subst c1; destruct (wrapN_cases c0) as [[? ->]|[? ->]]; lia).
      assert (Hc := wrapP_rng c1 Hc1).
      assert (Hg : gz (wrapP c1 N) = ropp (gz (e - b))).
      { rewrite gz_wrapP. subst c1. rewrite gz_wrapN. subst c0. rewrite gz_wrapN.
        replace (e - b - N - mo) with ((e - b + - mo) - N) by lia. rewrite gz_minusN, gz_add, gz_negmo. ring. }
      assert (Hab : gz e = gz (e - b) *' gz b) by (rewrite <- gz_add; f_equal; lia).
      assert (He : gz e = gz a1 *' gz a2) by (subst e; apply gz_add).
      set (c2 := wrapP c1 N) in *.
      destruct (step c2 Hc) as [[Ht Hm]|[Ht Hm]].
      + rewrite Ht. cbn [Z.eqb]. split; [lia|]. rewrite val_0, !val_nz by lia.
        rewrite <- He, Hab. assert (E : gz (e - b) = rI).
        { transitivity (ropp (ropp (gz (e - b)))); [ring|]. rewrite <- Hg, Hm. ring. }
        rewrite E. ring.
      + destruct (Z.eqb_spec (plun c2) 0); [lia|].
        assert (Hr := wrapP_rng (plun c2 + b) ltac:(lia)). split; [lia|].
        rewrite !val_nz by lia. rewrite gz_wrapP, gz_add, Hm, <- He, Hab, Hg. ring.
  Qed.

  (* ------------------------------------------------------------ the scalar member functions of GFqDom *)
  (* v is any function that agrees with val on [0,N] (val itself; or the polynomial image of ProofsField).
     okv r e : r is a representation in [0,N] whose value is e;  okq r d e : one whose value times d is e *)
  Variable v : Z -> R.
  Hypothesis v_val : forall a, In0N a -> v a = val a.
  Definition okv (r : Z) (e : R) : Prop := 0 <= r <= N /\ v r = e.
  Definition okq (r : Z) (d e : R) : Prop := 0 <= r <= N /\ v r *' d = e.
  Lemma okv_of r e : In0N r /\ val r = e -> okv r e.
  Proof. intros [Hr He]. split; [exact Hr|]. rewrite v_val by exact Hr. exact He. Qed.
  Lemma okq_of r d e : In0N r /\ val r *' d = e -> okq r d e.
  Proof. intros [Hr He]. split; [exact Hr|]. rewrite v_val by exact Hr. exact He. Qed.

  Definition scalar_ops_spec : Prop :=
    forall a b c, In0N a -> In0N b -> In0N c ->
      okv (f_add N plun a b) (v a +' v b) /\
      okv (f_addin N plun a b) (v a +' v b) /\
      okv (f_sub N mo plun a b) (v a -' v b) /\
      okv (f_subin N mo plun a b) (v a -' v b) /\
      okv (f_mul N a b) (v a *' v b) /\
      okv (f_mulin N a b) (v a *' v b) /\
      okv (f_neg N mo a) (ropp (v a)) /\
      okv (f_negin N mo a) (ropp (v a)) /\
      (b <> 0 -> okq (f_div N a b) (v b) (v a)) /\
      (b <> 0 -> okq (f_divin N a b) (v b) (v a)) /\
      (a <> 0 -> okq (f_inv N a) (v a) rI) /\
      (a <> 0 -> okq (f_invin N a) (v a) rI) /\
      okv (f_axpy N plun a b c) (v a *' v b +' v c) /\
      okv (f_axpyin N plun a b c) (v a +' v b *' v c) /\
      okv (f_maxpyin N mo plun a b c) (v a -' v b *' v c) /\
      okv (f_axmyin N mo plun a b c) (v b *' v c -' v a) /\
      okv (f_axmy N mo plun a b c) (v a *' v b -' v c) /\
      okv (f_maxpy N mo plun a b c) (v c -' v a *' v b).

  Definition macro_ops_spec : Prop :=
    forall a b c, In0N a -> In0N b -> In0N c ->
      okv (gfq_sq N a) (v a *' v a) /\
      okv (gfq_sqadd N plun a b) (v a *' v a +' v b) /\
      okv (gfq_muladd N plun a b c) (v a *' v b +' v c) /\
      okv (gfq_mulsub N mo plun a b c) (v c -' v a *' v b).

  Lemma scalar_ops_ok : scalar_ops_spec.
  Proof.
    intros a b c Ha Hb Hc.
    unfold f_add, f_addin, f_sub, f_subin, f_mul, f_mulin, f_neg, f_negin, f_div, f_divin, f_inv, f_invin,
      f_axpy, f_axpyin, f_maxpyin, f_axmyin, f_axmy, f_maxpy, f_negin.
    unfold f_negin, f_maxpyin.
    destruct (mul_ok a b Ha Hb) as [Hm1 Hm2]. destruct (mul_ok b c Hb Hc) as [Hm3 Hm4].
    rewrite (v_val a Ha), (v_val b Hb), (v_val c Hc).
    repeat match goal with |- _ /\ _ => split end; try (intros Hnz); first [apply okv_of | apply okq_of].
    - apply add_ok; assumption.
    - apply add_ok; assumption.
    - apply sub_ok; assumption.
    - apply autosub_ok; assumption.
    - apply mul_ok; assumption.
    - apply mul_ok; assumption.
    - apply neg_ok; assumption.
    - apply neg_ok; assumption.
    - apply div_ok; [assumption|lia].
    - apply div_ok; [assumption|lia].
    - destruct (inv_ok a ltac:(lia)). split; [lia|assumption].
    - destruct (inv_ok a ltac:(lia)). split; [lia|assumption].
    - apply muladd_ok; assumption.
    - destruct (muladd_ok b c a Hb Hc Ha) as [Hr ->]. split; [exact Hr|ring].
    - destruct (autosub_ok a (gfq_mul N b c) Ha Hm3) as [Hr ->]. split; [exact Hr|]. rewrite Hm4. reflexivity.
    - destruct (autosub_ok a (gfq_mul N b c) Ha Hm3) as [Hr Hv].
      destruct (neg_ok _ Hr) as [Hr2 ->]. split; [exact Hr2|]. rewrite Hv, Hm4. ring.
    - destruct (autosub_ok (gfq_mul N a b) c Hm1 Hc) as [Hr ->]. split; [exact Hr|]. rewrite Hm2. reflexivity.
    - destruct (sub_ok c (gfq_mul N a b) Hc Hm1) as [Hr ->]. split; [exact Hr|]. rewrite Hm2. reflexivity.
  Qed.

  Lemma macro_ops_ok : macro_ops_spec.
  Proof.
    intros a b c Ha Hb Hc. rewrite (v_val a Ha), (v_val b Hb), (v_val c Hc).
    repeat match goal with |- _ /\ _ => split end; apply okv_of.
    - apply sq_ok; assumption.
    - apply sqadd_ok; assumption.
    - apply muladd_ok; assumption.
    - apply mulsub_ok; assumption.
  Qed.
End Zech.
