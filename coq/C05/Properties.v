(* C05 property theorems.  Nothing but statements closed by `exact`, each followed by Print Assumptions.
   Representation: 0 is the field zero, i in [1,N] (N = q-1) is g^i; val/phi map a representation to the ring. *)
From Coq Require Import ZArith List.
From C05 Require Import Model Checker ExtModel ProofsZech ProofsArr ProofsField ProofsIrred ProofsExt ProofsSweep ProofsProps.
Local Open Scope Z_scope.

Theorem C05_zech_macros_are_ring_operations : Zech_ops_stmt.       Proof. exact zech_ops. Qed.
Print Assumptions C05_zech_macros_are_ring_operations.
Theorem C05_checked_tables_give_polynomial_arithmetic_mod_f : Field_ops_stmt.   Proof. exact field_ops. Qed.
Print Assumptions C05_checked_tables_give_polynomial_arithmetic_mod_f.
Theorem C05_representation_bijection_and_cardinality : Repr_bijection_stmt.     Proof. exact repr_bijection. Qed.
Print Assumptions C05_representation_bijection_and_cardinality.
Theorem C05_array_forms_elementwise_all_lengths : forall mun mo plun, array_forms_spec mun mo plun.
Proof. exact array_forms_ok. Qed.
Print Assumptions C05_array_forms_elementwise_all_lengths.
Theorem C05_dotprod_is_the_loop_sum : forall mun plun a b, dotprod_spec mun plun a b.
Proof. exact dotprod_ok. Qed.
Print Assumptions C05_dotprod_is_the_loop_sum.
Theorem C05_array_forms_pre_decrement_loop_refuted : pre_decrement_loop_is_wrong.
Proof. exact pre_decrement_loop_refuted. Qed.
Print Assumptions C05_array_forms_pre_decrement_loop_refuted.
(* the reported modulus f is irreducible of degree k over F_p (p prime) and the reported generator has order exactly p^k - 1
   modulo f, whenever the verified checkers (C09 irreducible_b / brute_order, trial-division primality) accept (p,k,f,g);
   fg_ok is evaluated (extracted) on the (f,g) every field of a run reports *)
Theorem C05_modulus_irreducible_when_checked : Modulus_irreducible_stmt.     Proof. exact modulus_irreducible. Qed.
Print Assumptions C05_modulus_irreducible_when_checked.
Theorem C05_generator_primitive_when_checked : Generator_primitive_stmt.     Proof. exact generator_primitive. Qed.
Print Assumptions C05_generator_primitive_when_checked.
Theorem C05_extension_ops_are_quotient_ring_operations : Ext_ops_stmt.     Proof. exact ext_ops. Qed.
Print Assumptions C05_extension_ops_are_quotient_ring_operations.
(* bounded (complete kernel sweep): for every prime power q <= 16, every modulus and generator accepted by fg_ok, the tables
   the builder computes are accepted by tables_ok; the same statement for all fields is checked per field, not proved *)
Theorem C05_builder_tables_accepted_partial : Builder_accepted_bounded_stmt.     Proof. exact builder_accepted_bounded. Qed.
Print Assumptions C05_builder_tables_accepted_partial.
