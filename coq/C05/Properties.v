(* C05 property theorems.  Nothing but statements closed by `exact`, each followed by Print Assumptions.
   Representation: 0 is the field zero, i in [1,N] (N = q-1) is g^i; val/phi map a representation to the ring. *)
From Coq Require Import ZArith List.
From C05 Require Import Model Checker ExtModel GF2Model QadicModel ProofsZech ProofsArr ProofsField ProofsIrred ProofsExt ProofsSweep ProofsGF2 ProofsQadic ProofsProps QuotRing ProofsQuot ProofsArrRing.
Local Open Scope Z_scope.

Theorem C05_zech_macros_are_ring_operations : Zech_ops_stmt.       Proof. exact zech_ops. Qed.
Print Assumptions C05_zech_macros_are_ring_operations.
Theorem C05_checked_tables_give_polynomial_arithmetic_mod_f : Field_ops_stmt.   Proof. exact field_ops. Qed.
Print Assumptions C05_checked_tables_give_polynomial_arithmetic_mod_f.
Theorem C05_representation_bijection_and_cardinality : Repr_bijection_stmt.     Proof. exact repr_bijection. Qed.
Print Assumptions C05_representation_bijection_and_cardinality.
Theorem C05_array_forms_elementwise_all_lengths : forall mun mo plun, array_forms_spec mun mo plun.
Proof. exact array_forms_ok. Qed.
Print Assumptions C05_array_forms_elementwise_all_lengths.
Theorem C05_dotprod_model_unrolls_to_the_macro_loop : forall mun plun a b, dotprod_spec mun plun a b.
Proof. exact dotprod_ok. Qed.
Print Assumptions C05_dotprod_model_unrolls_to_the_macro_loop.
Theorem C05_array_forms_pre_decrement_loop_refuted_history : pre_decrement_loop_is_wrong.
Proof. exact pre_decrement_loop_refuted. Qed.
Print Assumptions C05_array_forms_pre_decrement_loop_refuted_history.
(* the reported modulus f is irreducible of degree k over F_p (p prime) and the reported generator has order exactly p^k - 1
   modulo f, whenever the verified checkers (C09 irreducible_b / brute_order, trial-division primality) accept (p,k,f,g);
   fg_ok is evaluated (extracted) on the (f,g) every field of a run reports *)
Theorem C05_modulus_irreducible_when_checked : Modulus_irreducible_stmt.     Proof. exact modulus_irreducible. Qed.
Print Assumptions C05_modulus_irreducible_when_checked.
Theorem C05_generator_primitive_when_checked : Generator_primitive_stmt.     Proof. exact generator_primitive. Qed.
Print Assumptions C05_generator_primitive_when_checked.
Theorem C05_extension_ops_are_quotient_ring_operations : Ext_ops_stmt.     Proof. exact ext_ops. Qed.
Print Assumptions C05_extension_ops_are_quotient_ring_operations.
Theorem C05_field_certificate : Certified_field_stmt.     Proof. exact certified_field. Qed.
Print Assumptions C05_field_certificate.
Theorem C05_extension_inv_div_partial : Ext_inv_stmt.     Proof. exact ext_inv. Qed.
Print Assumptions C05_extension_inv_div_partial.
(* bounded (complete kernel sweep): for every prime power q <= 32 (every modulus, every generator) and every prime field up to
   GF(127) (modulus X), whenever fg_ok accepts (p,k,f,g) the tables the builder computes are accepted by tables_ok; the same
   statement for all other fields is DECIDED per field by the extracted tables_ok on every run, not proved *)
Theorem C05_builder_tables_accepted_partial : Builder_accepted_bounded_stmt.     Proof. exact builder_accepted_bounded. Qed.
Print Assumptions C05_builder_tables_accepted_partial.
(* GF2 (gf2.inl): all 19 variants, both destination kinds (bool& and std::vector<bool>::reference), ALL operand triples are
   arithmetic in F_2; complete case analysis (finite domain) *)
Theorem C05_gf2_operations_are_F2_arithmetic : GF2_ops_stmt.     Proof. exact gf2_ops. Qed.
Print Assumptions C05_gf2_operations_are_F2_arithmetic.
Theorem C05_gf2_model_has_one_function_per_variant : forall code a b c, gf2_op code true a b c = gf2_op code false a b c.
Proof. exact gf2_overloads_agree. Qed.
Print Assumptions C05_gf2_model_has_one_function_per_variant.
(* q-adic transform of GFqExtFast (gfqext.h): REDQ digit extraction, decode of a packed accumulator, delayed reduction up to
   n <= (2^bits-1)/(p-1)/(p-1)/k products; the bound of the source as found (2^bits/...) is refuted *)
Theorem C05_qadic_redq_residues_are_digits_mod_p : Redq_stmt.     Proof. exact redq_ok. Qed.
Print Assumptions C05_qadic_redq_residues_are_digits_mod_p.
Theorem C05_qadic_init_decodes_packed_polynomial : Qadic_decode_stmt.     Proof. exact qadic_decode. Qed.
Print Assumptions C05_qadic_init_decodes_packed_polynomial.
Theorem C05_qadic_accumulator_digits_do_not_overflow : Qadic_dot_stmt.     Proof. exact qadic_dot. Qed.
Print Assumptions C05_qadic_accumulator_digits_do_not_overflow.
Theorem C05_qadic_maxdot_of_source_refuted_history : Maxdot_of_source_refuted_stmt.     Proof. exact maxdot_of_source_refuted. Qed.
Print Assumptions C05_qadic_maxdot_of_source_refuted_history.
(* phase 4 *)
(* arrays as locations: every array form, ANY aliasing of its array arguments (the body reads its element operands before it writes
   r[i]: fix-9) = the call on distinct arrays of the same contents; ring-level meaning of the array forms and of dotprod *)
Theorem C05_array_forms_any_aliasing : forall mun mo plun, array_forms_aliasing_spec mun mo plun.
Proof. exact array_forms_aliasing_ok. Qed.
Print Assumptions C05_array_forms_any_aliasing.
Theorem C05_array_add_aliased_operand_refuted_history : array_add_aliased_b_refuted.
Proof. exact array_add_aliased_b_is_wrong. Qed.
Print Assumptions C05_array_add_aliased_operand_refuted_history.
Theorem C05_dotprod_and_array_forms_are_ring_operations : Dotprod_ring_stmt.     Proof. exact dotprod_and_arrays_ring. Qed.
Print Assumptions C05_dotprod_and_array_forms_are_ring_operations.
(* ONE concrete admissible ring (F_p[X]/(F) on canonical lists over C09's padd/pmul/pmod): commutative ring, p = 0, X is a root of
   f, 1 <> 0, denotation injective on the coefficient lists of length k; and the ring-level theorem instantiated there: every
   scalar member function is polynomial arithmetic modulo f on the polynomials of its operands, which determine the representation *)
Theorem C05_quotient_ring_is_admissible_and_faithful : Admissible_ring_stmt.     Proof. exact admissible_ring. Qed.
Print Assumptions C05_quotient_ring_is_admissible_and_faithful.
Theorem C05_field_ops_are_polynomial_arithmetic_mod_f : Field_ops_concrete_stmt.     Proof. exact field_ops_concrete. Qed.
Print Assumptions C05_field_ops_are_polynomial_arithmetic_mod_f.
