From Coq Require Import ZArith.
From C05 Require Import Model.
