(* C05 - model of the q-adic transform of GFqExtFast (src/kernel/field/gfqext.h), written after the code.
   convert(double&, a) = _log2dbl[a] = the coefficient list of a evaluated at B = 2^_BITS (Kronecker packing).
   init(Rep&, double d): rll = (uint64)d, tll = (uint64)(d/p), then 2k-2 times { rll >>= _BITS; tll >>= _BITS; prec = rll - tll*p }
   (REDQ, Dumas ISSAC 2008); the k digits u_0..u_{k-1} index _low2log, u_{k-1}..u_{2k-2} index _high2log, the two elements are
   added.  builddoubletables fills _low2log[(u_0..u_{k-1})] with the element sum_{i<k-1} (u_i - q u_{i+1}) X^i (q = 2^_BITS in Z/p,
   `Zp.axpy(tmp, mq, cour, prec)`) and _high2log[(u_0..u_{k-1})] with (sum_{i<k-1} (u_i - q u_{i+1}) X^i + u_{k-1} X^{k-1}) * X^{k-1}.
   Here the table contents are that specification on coefficient lists (the Zech `mul`/`addin` the code uses on them are the
   subject of ProofsZech/ProofsField); the floating-point quotient d/p is the exact floor (d < 2^53 is an integer; the code's own
   fix-up branch `padl == p` covers an upward rounding of the quotient).  No proofs in this file. *)
From Coq Require Import ZArith List Bool.
From C05 Require Import Model.
Import ListNotations.
Local Open Scope Z_scope.

(* constructor: _BITS( digits/((e<<1)-1) ), _BASE(1 << _BITS), _MASK(_BASE - 1), _maxn( <num>/(P-1)/(P-1)/e ) *)
Definition q_bits (dig k : Z) : Z := dig / (2 * k - 1).
Definition q_maxn (num p k : Z) : Z := num / (p - 1) / (p - 1) / k.      (* num = _BASE in the source as found, _MASK = _BASE-1 after the repair *)

(* convert(double&) *)
Definition q_pack (B : Z) (coefs : list Z) : Z := evalp B coefs.

(* init(double): the shift loop *)
Fixpoint redq_loop (n : nat) (p B rll tll : Z) : list Z :=
  match n with
  | O => []
  | S m => let rll := rll / B in let tll := tll / B in (rll - tll * p) :: redq_loop m p B rll tll
  end.
Definition redq (p B : Z) (n : nat) (d : Z) : list Z :=
  let rll := d in
  let tll := d / p in
  let padl := rll - tll * p in
  let padl' := if padl =? p then padl - p else padl in
  let tll' := if padl =? p then tll + 1 else tll in
  padl' :: redq_loop n p B rll tll'.
(* builddoubletables: low_ui = mq*cour + prec for consecutive digits, the last digit as it is *)
Fixpoint residues (p Bp : Z) (u : list Z) : list Z :=
  match u with
  | [] => []
  | x :: u' => match u' with [] => [x mod p] | y :: _ => ((x - Bp * y) mod p) :: residues p Bp u' end
  end.
Fixpoint iter_n (n : nat) (f : list Z -> list Z) (H : list Z) : list Z :=
  match n with O => H | S m => f (iter_n m f H) end.
(* element of _low2log + element of _high2log: (mu_0..mu_{k-2}) + X^{k-1} * (mu_{k-1}..mu_{2k-2}) modulo f *)
Definition q_combine (p : Z) (red : list Z) (k : nat) (mu : list Z) : list Z :=
  let lo := firstn (pred k) mu ++ [0] in
  let hi := skipn (pred k) mu in
  map2 (fun a b => (a + b) mod p) lo (iter_n (pred k) (mulX p red) hi).
Definition q_init (p : Z) (k : nat) (f B d : Z) : list Z :=
  q_combine p (redk p k f) k (residues p (B mod p) (redq p B (2 * k - 2) d)).

(* Z-level entry point for the driver: p-adic value of init(double d) in GF(p^k) = F_p[X]/(f), B = 2^bits *)
Definition q_initZ (p k f bits d : Z) : Z := evalp p (q_init p (Z.to_nat k) f (2 ^ bits) d).
