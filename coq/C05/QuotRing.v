(* C05 - ONE concrete admissible ring: the quotient F_p[X]/(F) on canonical coefficient lists of degree < deg F, built over the
   polynomial operations of coq/C09 (padd, psub, pscale, pmul, pmod).  It is a commutative ring in which p = 0 and the class of X
   is a root of F, it is not the one-element ring, and the denotation `sem` is INJECTIVE on the coefficient lists of length
   deg F with entries in [0,p): the ring-level theorems of this development, instantiated here, are statements about polynomial
   arithmetic modulo F itself (no degenerate reading).  Proof infrastructure only (nothing here is extracted). *)
From Coq Require Import ZArith Lia List Bool Ring Ring_theory Znumtheory Eqdep_dec.
From C09 Require Import Model ProofsAlg ProofsDiv.
From C05 Require Import ProofsField.
Import ListNotations.
Local Open Scope Z_scope.

Section Quot.
  Variable p : Z.
  Hypothesis Hp : prime p.
  Variable F : poly.
  Hypothesis F_canon : canon p F.
  Hypothesis F_deg : 1 <= deg F.
  Let p_gt_1 : 1 < p. Proof. destruct Hp; assumption. Qed.
  Notation eqp := (eqp p).
  Notation canon := (canon p).

  Lemma F_nonnil : F <> [].
  Proof. intros E. rewrite E in F_deg. unfold deg in F_deg. cbn [length] in F_deg. lia. Qed.
  Lemma F_len : (2 <= length F)%nat.
  Proof. unfold deg in F_deg. lia. Qed.

  (* ---------------------------------------------------------------- congruence modulo (p, F) *)
  Definition E (a b : poly) : Prop := exists q, eqp a (paddZ b (pmulZ F q)).

  Lemma E_of_eqp a b : eqp a b -> E a b.
  Proof. intros H. exists []. eapply eqp_trans; [exact H|]. apply eqp_ev. intros x. rewrite ev_paddZ, ev_pmulZ. cbn [ev]. ring. Qed.
  Lemma E_refl a : E a a. Proof. apply E_of_eqp, eqp_refl. Qed.
  Lemma E_sym a b : E a b -> E b a.
  Proof.
    intros [q H]. exists (pscaleZ (-1) q). apply eqp_sym.
    eapply eqp_trans; [apply eqp_add; [exact H|apply eqp_refl]|].
    apply eqp_ev. intros x. rewrite !ev_paddZ, !ev_pmulZ, !ev_pscaleZ. ring.
  Qed.
  Lemma E_trans a b c : E a b -> E b c -> E a c.
  Proof.
    intros [q H] [q' H']. exists (paddZ q q'). eapply eqp_trans; [exact H|].
    eapply eqp_trans; [apply eqp_add; [exact H'|apply eqp_refl]|].
    apply eqp_ev. intros x. rewrite !ev_paddZ, !ev_pmulZ, !ev_paddZ. ring.
  Qed.
  Lemma E_add a a' b b' : E a a' -> E b b' -> E (paddZ a b) (paddZ a' b').
  Proof.
    intros [q H] [q' H']. exists (paddZ q q'). eapply eqp_trans; [apply eqp_add; [exact H|exact H']|].
    apply eqp_ev. intros x. rewrite !ev_paddZ, !ev_pmulZ, !ev_paddZ. ring.
  Qed.
  Lemma E_scale c a a' : E a a' -> E (pscaleZ c a) (pscaleZ c a').
  Proof.
    intros [q H]. exists (pscaleZ c q). eapply eqp_trans; [apply eqp_scale; exact H|].
    apply eqp_ev. intros x. rewrite !ev_pscaleZ, !ev_paddZ, !ev_pmulZ, !ev_pscaleZ. ring.
  Qed.
  Lemma E_mul a a' b b' : E a a' -> E b b' -> E (pmulZ a b) (pmulZ a' b').
  Proof.
    intros [q H] [q' H']. exists (paddZ (pmulZ q b') (paddZ (pmulZ a' q') (pmulZ F (pmulZ q q')))).
    eapply eqp_trans; [apply eqp_mul; [exact H|exact H']|].
    apply eqp_ev. intros x. rewrite !ev_pmulZ, !ev_paddZ, !ev_pmulZ, !ev_paddZ, !ev_pmulZ. ring.
  Qed.
  Lemma E_red a : E (red p a) a. Proof. apply E_of_eqp, eqp_red, Hp. Qed.
  Lemma E_pmod a : canon a -> E (pmod p a F) a.
  Proof.
    intros Ca. destruct (pdivmod_spec p Hp a F Ca F_canon F_nonnil) as [H _]. apply E_sym.
    exists (pdiv p a F). eapply eqp_trans; [exact H|]. apply eqp_ev. intros x. rewrite !ev_paddZ. ring.
  Qed.

  Definition small (a : poly) : Prop := (length a < length F)%nat.

  Lemma pmod_small a : small a -> pmod p a F = a.
  Proof.
    unfold small, pmod, pdivmod. intros H. destruct a as [|c a]; [reflexivity|].
    cbn [length divmod_loop]. replace ((S (length a) <? length F)%nat) with true; [reflexivity|].
    symmetry. apply Nat.ltb_lt. cbn [length] in H. lia.
  Qed.

  (* canonical representatives of degree < deg F are unique *)
  Lemma E_unique a b : canon a -> canon b -> small a -> small b -> E a b -> a = b.
  Proof.
    intros Ca Cb Sa Sb [q H].
    set (P := red p (paddZ a (pscaleZ (-1) b))).
    assert (CP : canon P) by (apply canon_red; exact Hp).
    assert (SP : small P).
    { unfold small, P. pose proof (length_red_le p (paddZ a (pscaleZ (-1) b))).
      rewrite length_paddZ, length_pscaleZ in *. unfold small in *. lia. }
    assert (DP : divides p F P).
    { exists q. apply eqp_sym. unfold P. eapply eqp_trans; [apply eqp_red; exact Hp|].
      eapply eqp_trans; [apply eqp_add; [exact H|apply eqp_refl]|].
      apply eqp_ev. intros x. rewrite !ev_paddZ, !ev_pmulZ, !ev_pscaleZ. ring. }
    pose proof (mod_zero_of_divides p Hp P F CP F_canon F_nonnil DP) as Z0. rewrite (pmod_small P SP) in Z0.
    apply (canon_unique p Hp); try assumption.
    assert (E0 : eqp (paddZ a (pscaleZ (-1) b)) []) by (rewrite <- Z0; apply eqp_sym, eqp_red; exact Hp).
    eapply eqp_trans with (paddZ (paddZ a (pscaleZ (-1) b)) b).
    - apply eqp_ev. intros x. rewrite !ev_paddZ, !ev_pscaleZ. ring.
    - eapply eqp_trans; [apply eqp_add; [exact E0|apply eqp_refl]|]. apply eqp_ev. intros x. rewrite ev_paddZ. cbn [ev]. ring.
  Qed.

  (* ---------------------------------------------------------------- the carrier: a boolean invariant, so that equal lists are equal elements *)
  Definition canonb (a : poly) : bool := forallb (fun c => (0 <=? c) && (c <? p)) a && negb (last a 1 =? 0).
  Lemma canonb_spec a : canonb a = true <-> canon a.
  Proof.
    unfold canonb, ProofsAlg.canon. rewrite andb_true_iff, forallb_forall, Forall_forall, negb_true_iff, Z.eqb_neq.
    split; intros [H1 H2]; (split; [|exact H2]); intros c Hc; specialize (H1 c Hc).
    - apply andb_prop in H1. destruct H1 as [A B]. apply Z.leb_le in A. apply Z.ltb_lt in B. lia.
    - apply andb_true_intro. split; [apply Z.leb_le|apply Z.ltb_lt]; lia.
  Qed.
  Definition okb (a : poly) : bool := canonb a && (length a <? length F)%nat.
  Lemma okb_spec a : okb a = true <-> canon a /\ small a.
  Proof. unfold okb, small. rewrite andb_true_iff, canonb_spec, Nat.ltb_lt. tauto. Qed.

  Record Q : Type := mkQ { qv : poly; q_ok : okb qv = true }.
  Lemma Q_eq (a b : Q) : qv a = qv b -> a = b.
  Proof.
    destruct a as [a Ha], b as [b Hb]. cbn [qv]. intros ->. f_equal. apply UIP_dec. apply bool_dec.
  Qed.
  Lemma q_canon (a : Q) : canon (qv a). Proof. apply (okb_spec (qv a)), q_ok. Qed.
  Lemma q_small (a : Q) : small (qv a). Proof. apply (okb_spec (qv a)), q_ok. Qed.

  Lemma ok_red_small a : small a -> okb (red p a) = true.
  Proof.
    intros S. apply okb_spec. split; [apply canon_red; exact Hp|]. unfold small in *. pose proof (length_red_le p a). lia.
  Qed.
  Lemma ok_pmod a : canon a -> okb (pmod p a F) = true.
  Proof.
    intros Ca. destruct (pdivmod_spec p Hp a F Ca F_canon F_nonnil) as [_ [_ [C L]]]. apply okb_spec. split; assumption.
  Qed.
  Lemma small_paddZ a b : small a -> small b -> small (paddZ a b).
  Proof. unfold small. rewrite length_paddZ. lia. Qed.
  Lemma small_pscaleZ c a : small a -> small (pscaleZ c a).
  Proof. unfold small. rewrite length_pscaleZ. lia. Qed.

  Definition q0 : Q := mkQ [] (ok_red_small [] ltac:(unfold small; pose proof F_len; cbn [length]; lia)).
  Lemma small_one : small [1]. Proof. unfold small. pose proof F_len. cbn [length]. lia. Qed.
  Definition q1 : Q := mkQ (red p [1]) (ok_red_small [1] small_one).
  Definition qadd (a b : Q) : Q := mkQ (padd p (qv a) (qv b)) (ok_red_small _ (small_paddZ _ _ (q_small a) (q_small b))).
  Definition qopp (a : Q) : Q := mkQ (pscale p (-1) (qv a)) (ok_red_small _ (small_pscaleZ _ _ (q_small a))).
  Definition qsub (a b : Q) : Q :=
    mkQ (psub p (qv a) (qv b)) (ok_red_small _ (small_paddZ _ _ (q_small a) (small_pscaleZ (-1) _ (q_small b)))).
  Definition qmul (a b : Q) : Q := mkQ (pmod p (pmul p (qv a) (qv b)) F) (ok_pmod _ (canon_red p Hp _)).
  (* the class of an arbitrary coefficient list *)
  Definition qcls (l : poly) : Q := mkQ (pmod p (red p l) F) (ok_pmod _ (canon_red p Hp _)).
  Definition qX : Q := qcls [0; 1].

  (* two elements are equal as soon as their representatives are congruent *)
  Lemma Q_eq_E (a b : Q) : E (qv a) (qv b) -> a = b.
  Proof. intros H. apply Q_eq. apply E_unique; auto using q_canon, q_small. Qed.

  Ltac e_step :=
    match goal with
    | |- E (red p _) _ => eapply E_trans; [apply E_red|]
    | |- E (pmod p (red p ?a) F) _ => eapply E_trans; [apply (E_pmod (red p a)), canon_red, Hp|]
    | |- E (padd p _ _) _ => unfold padd
    | |- E (psub p _ _) _ => unfold psub
    | |- E (pmul p _ _) _ => unfold pmul
    | |- E (pscale p _ _) _ => unfold pscale
    end.
  (* normalise the left side to raw list operations, then the right side, then finish by evaluation *)
  Ltac e_left := repeat e_step.
  Lemma E_flip a b : E b a -> E a b. Proof. apply E_sym. Qed.

  Lemma E_padd a b a' b' : E a a' -> E b b' -> E (padd p a b) (paddZ a' b').
  Proof. intros H1 H2. unfold padd. eapply E_trans; [apply E_red|]. apply E_add; assumption. Qed.
  Lemma E_psub a b a' b' : E a a' -> E b b' -> E (psub p a b) (paddZ a' (pscaleZ (-1) b')).
  Proof. intros H1 H2. unfold psub. eapply E_trans; [apply E_red|]. apply E_add; [assumption|apply E_scale; assumption]. Qed.
  Lemma E_pscale c a a' : E a a' -> E (pscale p c a) (pscaleZ c a').
  Proof. intros H. unfold pscale. eapply E_trans; [apply E_red|]. apply E_scale; assumption. Qed.
  Lemma E_qmul a b a' b' : E a a' -> E b b' -> E (pmod p (pmul p a b) F) (pmulZ a' b').
  Proof.
    intros H1 H2. eapply E_trans; [apply E_pmod; unfold pmul; apply canon_red; exact Hp|].
    unfold pmul. eapply E_trans; [apply E_red|]. apply E_mul; assumption.
  Qed.
  Lemma E_ev a b : (forall x, ev a x = ev b x) -> E a b.
  Proof. intros H. apply E_of_eqp, eqp_ev, H. Qed.

  Lemma Q_ring : ring_theory q0 q1 qadd qmul qsub qopp (@eq Q).
  Proof.
    constructor; intros; apply Q_eq_E; cbn [qv qadd qmul qsub qopp q0 q1].
    - (* 0 + x *) eapply E_trans; [apply E_padd; apply E_refl|]. apply E_ev. intros; rewrite ev_paddZ; cbn [ev]; ring.
    - (* comm *) eapply E_trans; [apply E_padd; apply E_refl|]. apply E_sym. eapply E_trans; [apply E_padd; apply E_refl|].
      apply E_ev. intros; rewrite !ev_paddZ; ring.
    - (* assoc *) eapply E_trans; [apply E_padd; [apply E_refl|apply E_padd; apply E_refl]|]. apply E_sym.
      eapply E_trans; [apply E_padd; [apply E_padd; apply E_refl|apply E_refl]|].
      apply E_ev. intros; rewrite !ev_paddZ; ring.
    - (* 1 * x *) eapply E_trans; [apply E_qmul; [apply E_red|apply E_refl]|]. apply E_ev. intros; rewrite ev_pmulZ; cbn [ev]; ring.
    - (* mul comm *) eapply E_trans; [apply E_qmul; apply E_refl|]. apply E_sym. eapply E_trans; [apply E_qmul; apply E_refl|].
      apply E_ev. intros; rewrite !ev_pmulZ; ring.
    - (* mul assoc *) eapply E_trans; [apply E_qmul; [apply E_refl|apply E_qmul; apply E_refl]|]. apply E_sym.
      eapply E_trans; [apply E_qmul; [apply E_qmul; apply E_refl|apply E_refl]|].
      apply E_ev. intros; rewrite !ev_pmulZ; ring.
    - (* distr *) eapply E_trans; [apply E_qmul; [apply E_padd; apply E_refl|apply E_refl]|]. apply E_sym.
      eapply E_trans; [apply E_padd; apply E_qmul; apply E_refl|].
      apply E_ev. intros; rewrite !ev_paddZ, !ev_pmulZ, !ev_paddZ; ring.
    - (* sub *) eapply E_trans; [apply E_psub; apply E_refl|]. apply E_sym.
      eapply E_trans; [apply E_padd; [apply E_refl|apply E_pscale; apply E_refl]|]. apply E_refl.
    - (* opp *) eapply E_trans; [apply E_padd; [apply E_refl|apply E_pscale; apply E_refl]|].
      apply E_ev. intros; rewrite !ev_paddZ, !ev_pscaleZ; cbn [ev]; ring.
  Qed.

  (* ---------------------------------------------------------------- Z -> Q, denotations, admissibility, faithfulness *)
  Notation zrQ := (zr Q q0 q1 qadd qmul qopp).
  Notation semQ := (sem Q q0 q1 qadd qmul qopp qX).

  Lemma E_qcls l : E (qv (qcls l)) l.
  Proof. cbn [qv qcls]. eapply E_trans; [apply E_pmod, canon_red, Hp|]. apply E_red. Qed.

  Lemma zrQ_cls : forall z, zrQ z = qcls [z].
  Proof.
    assert (Hpos : forall z, 0 <= z -> zrQ z = qcls [z]).
    { apply natlike_ind.
      - rewrite (zr_0 Q q0 q1 qadd qmul qsub qopp Q_ring). apply Q_eq_E. cbn [qv q0]. apply E_sym.
        eapply E_trans; [apply E_qcls|]. apply E_ev. intros; cbn [ev]; ring.
      - intros z Hz IH. unfold Z.succ. rewrite (zr_add Q q0 q1 qadd qmul qsub qopp Q_ring), IH, (zr_1 Q q0 q1 qadd qmul qsub qopp Q_ring).
        apply Q_eq_E. cbn [qv qadd q1]. eapply E_trans; [apply E_padd; [apply E_qcls|apply E_red]|]. apply E_sym.
        eapply E_trans; [apply E_qcls|]. apply E_ev. intros; rewrite ev_paddZ; cbn [ev]; ring. }
    intros z. destruct (Z_le_gt_dec 0 z) as [H|H]; [apply Hpos; exact H|].
    replace z with (- (- z)) at 1 by lia. rewrite (zr_opp Q q0 q1 qadd qmul qsub qopp Q_ring), Hpos by lia.
    apply Q_eq_E. cbn [qv qopp]. eapply E_trans; [apply E_pscale; apply E_qcls|]. apply E_sym.
    eapply E_trans; [apply E_qcls|]. apply E_ev. intros; rewrite ev_pscaleZ; cbn [ev]; ring.
  Qed.

  (* the denotation of a coefficient list is its class *)
  Lemma semQ_cls : forall l, semQ l = qcls l.
  Proof.
    induction l as [|c l IH]; cbn [ProofsField.sem].
    - apply Q_eq_E. cbn [qv q0]. apply E_sym. apply E_qcls.
    - rewrite IH, zrQ_cls. apply Q_eq_E. cbn [qv qadd qmul].
      eapply E_trans; [apply E_padd; [apply E_qcls|apply E_qmul; [apply E_qcls|apply E_qcls]]|]. apply E_sym.
      eapply E_trans; [apply E_qcls|]. apply E_ev. intros; rewrite ev_paddZ, ev_pmulZ; cbn [ev]; ring.
  Qed.

  Lemma Q_char : zrQ p = q0.
  Proof.
    rewrite zrQ_cls. apply Q_eq_E. cbn [qv q0]. eapply E_trans; [apply E_qcls|]. apply E_of_eqp.
    exists [1]. intros x. cbn [ev]. ring.
  Qed.
  Lemma Q_root : forall l, red p l = F -> semQ l = q0.
  Proof.
    intros l Hl. rewrite semQ_cls. apply Q_eq_E. cbn [qv q0]. eapply E_trans; [apply E_qcls|].
    eapply E_trans; [apply E_sym, E_red|]. rewrite Hl. exists [1]. apply eqp_ev. intros x. rewrite ev_paddZ, ev_pmulZ. cbn [ev]. ring.
  Qed.
  Lemma Q_nontrivial : q1 <> q0.
  Proof.
    intros H. apply (f_equal qv) in H. cbn [qv q1 q0] in H.
    rewrite (canon_red_id p [1]) in H; [discriminate|]. split; [repeat constructor; lia|cbn [last]; lia].
  Qed.

  Definition coeffs (k : nat) (l : list Z) : Prop := length l = k /\ Forall (fun c => 0 <= c < p) l.
  (* the representative of the class of a short coefficient list is its normal form *)
  Lemma qcls_short l : small l -> qv (qcls l) = red p l.
  Proof.
    intros S. cbn [qv qcls]. apply pmod_small. unfold small in *. pose proof (length_red_le p l). lia.
  Qed.
  (* faithfulness: lists of deg F coefficients in [0,p) with the same denotation are equal *)
  Lemma semQ_injective : forall l1 l2, coeffs (Z.to_nat (deg F)) l1 -> coeffs (Z.to_nat (deg F)) l2 -> semQ l1 = semQ l2 -> l1 = l2.
  Proof.
    intros l1 l2 [L1 R1] [L2 R2] H. rewrite !semQ_cls in H. apply (f_equal qv) in H.
    assert (S1 : small l1) by (unfold small, deg in *; lia). assert (S2 : small l2) by (unfold small, deg in *; lia).
    rewrite !qcls_short in H by assumption.
    assert (Eq : eqp l1 l2).
    { eapply eqp_trans; [apply eqp_sym, eqp_red; exact Hp|]. rewrite H. apply eqp_red; exact Hp. }
    apply (nth_ext l1 l2 0 0); [lia|]. intros n Hn.
    pose proof (eqp_coeff p Hp _ _ Eq n) as C.
    rewrite Forall_forall in R1, R2.
    rewrite !Z.mod_small in C; [exact C| |]; [apply R2, nth_In; lia|apply R1, nth_In; lia].
  Qed.

  (* the operations of the ring on representatives: what the instantiated theorems talk about *)
  Lemma qv_qmul a b : qv (qmul a b) = pmod p (pmul p (qv a) (qv b)) F. Proof. reflexivity. Qed.
  Lemma qv_qadd a b : qv (qadd a b) = padd p (qv a) (qv b). Proof. reflexivity. Qed.
  Lemma qv_qsub a b : qv (qsub a b) = psub p (qv a) (qv b). Proof. reflexivity. Qed.
End Quot.
