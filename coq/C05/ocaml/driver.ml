(* C05 driver.  Lines:
     field <p> <k> <f> <g>            -> "F <q> <one> <mone> H <h1> <h2> <h3> C <tables_ok 0/1> P <fg_ok 0/1> [T l2p | p2l | pl1]"   (tables in full when q <= 1024)
     op1 <code> a | op2 <code> a b | op3 <code> a b c      -> result
     arr <code> <pre 0/1> <sz> <scalar> | r.. | x.. | y..  -> result list or UB
     arrl <code> <sz> <s> <t> <lr> <la> <lb> | A0 | A1 | A2  -> the destination array after the call on the store [A0;A1;A2] or UB
     dot <sz> | a.. | b..                                    -> result or UB
     xop <p> <k> <f> <code> a b c   -> Extension<> operation of ExtModel.v on p-adic operands (stateless)
     xinv <p> <k> <f> <0|1> a b     -> Extension<> inv a (0) / div a b (1) of ExtModel.v (Poly1Dom::invmod); -1 = no answer
     gf2 <code> <bitref 0/1> a b c  -> GF2 operation of GF2Model.v (stateless)
     qinit <p> <k> <f> <bits> <d>   -> GFqExtFast::init(double) of QadicModel.v: p-adic value of the decoded element (stateless)
     qmaxn <num> <p> <k>            -> num/(p-1)/(p-1)/k
   All operations refer to the last field line. *)
let zs = z_of_string
let cur : Model.tables option ref = ref None
let hash (l : Model.z list) : string =
  let h1 = ref 0 and h2 = ref 0 in
  List.iter (fun v -> let v = ZA.to_int (za_of_z v) + 4294967296 in
              h1 := (!h1 * 31 + v + 7) mod 1000000007;
              h2 := (!h2 * 37 + v + 11) mod 998244353) l;
  Printf.sprintf "%d.%d" !h1 !h2
let show l = String.concat " " (List.map string_of_z l)
let rec split_bar toks cur acc = match toks with
  | [] -> List.rev (List.rev cur :: acc)
  | "|" :: t -> split_bar t [] (List.rev cur :: acc)
  | x :: t -> split_bar t (x :: cur) acc
let tab () = match !cur with Some t -> t | None -> failwith "no field"
let () = run_lines (fun toks ->
  match toks with
  | ["field"; p; k; f; g] ->
    let t = Model.mk_tables (zs p) (zs k) (zs f) (zs g) in
    cur := Some t;
    let l2p = t.Model.t_log2pol and p2l = Model.dump_pol2log t and pl1 = Model.dump_plus1 t in
    let q = ZA.to_int (za_of_z t.Model.t_q) in
    let ok = Model.tables_ok (zs p) (zs k) (zs f) (zs g) t in
    let fg = Model.fg_ok (zs p) (zs k) (zs f) (zs g) in
    Printf.sprintf "F %s %s %s H %s %s %s C %s P %s%s" (string_of_z t.Model.t_q) (string_of_z t.Model.t_one) (string_of_z t.Model.t_mone)
      (hash l2p) (hash p2l) (hash pl1) (if ok then "1" else "0") (if fg then "1" else "0")
      (if q <= 1024 then " T " ^ show l2p ^ " | " ^ show p2l ^ " | " ^ show pl1 else "")
  | ["xop"; p; k; f; c; a; b; d] -> string_of_z (Model.ext_opZ (zs p) (zs k) (zs f) (zs c) (zs a) (zs b) (zs d))
  | ["xinv"; p; k; f; dodiv; a; b] -> string_of_z (Model.ext_invZ (zs p) (zs k) (zs f) (zs dodiv) (zs a) (zs b))
  | ["gf2"; c; r; a; b; d] -> string_of_z (Model.gf2_opZ (zs c) (zs r) (zs a) (zs b) (zs d))
  | ["qinit"; p; k; f; bits; d] -> string_of_z (Model.q_initZ (zs p) (zs k) (zs f) (zs bits) (zs d))
  | ["qmaxn"; n; p; k] -> string_of_z (Model.q_maxn (zs n) (zs p) (zs k))
  | ["op1"; c; a] -> string_of_z (Model.op1 (tab ()) (zs c) (zs a))
  | ["op2"; c; a; b] -> string_of_z (Model.op2 (tab ()) (zs c) (zs a) (zs b))
  | ["op3"; c; a; b; d] -> string_of_z (Model.op3 (tab ()) (zs c) (zs a) (zs b) (zs d))
  | "arr" :: c :: pre :: sz :: s :: "|" :: rest ->
    (match split_bar rest [] [] with
     | [r; x; y] ->
       let l = List.map zs in
       (match Model.arr (tab ()) (zs c) (pre = "1") (zs sz) (l r) (l x) (l y) (zs s) with
        | Some res -> "R " ^ show res
        | None -> "UB")
     | _ -> "BAD-LINE")
  | "arrl" :: c :: sz :: s :: tt :: lr :: la :: lb :: "|" :: rest ->
    (* arrays as locations: three arrays A0 | A1 | A2, the arguments r, x, y of the call are the locations lr, la, lb *)
    (match split_bar rest [] [] with
     | [a0; a1; a2] ->
       let l = List.map zs in
       (match Model.arrl (tab ()) (zs c) (zs sz) (zs lr) (zs la) (zs lb) [l a0; l a1; l a2] (zs s) (zs tt) with
        | Some res -> "R " ^ show res
        | None -> "UB")
     | _ -> "BAD-LINE")
  | "dot" :: sz :: "|" :: rest ->
    (match split_bar rest [] [] with
     | [a; b] ->
       (match Model.dot (tab ()) (zs sz) (List.map zs a) (List.map zs b) with
        | Some r -> string_of_z r
        | None -> "UB")
     | _ -> "BAD-LINE")
  | _ -> "BAD-LINE")
