(* Extraction of the executable model for the correspondence run (ExtrOcamlBasic only). *)
From Coq Require Import ZArith.
From Coq Require Extraction.
From Coq Require Import ExtrOcamlBasic.
From C06 Require Import Model.
Extraction Language OCaml.
Cd "ocaml".
Extraction "model.ml" addZ add_wcZ add_wZ add_1Z subZ sub_wcZ cmpZ lmul_naiveZ lmul_karaZ lmulZ laddmulZ laddmul2Z mulZ addmulZ.
Cd "..".
