(* Extraction of the executable model for the correspondence run (ExtrOcamlBasic only). *)
From Coq Require Import ZArith.
From Coq Require Extraction.
From Coq Require Import ExtrOcamlBasic.
From C06 Require Import Model.
Extraction Language OCaml.
Cd "ocaml".
Extraction "model.ml" addZ add_wcZ add_wZ add_1Z subZ sub_wcZ sub_wZ sub_1Z cmpZ
  lmul_naiveZ lmul_karaZ lmulZ laddmulZ laddmul2Z mulZ addmulZ lmul_wZ lsquareZ squareZ
  lnotZ negZ lorZ lxorZ landZ lor_wZ lxor_wZ land_wZ bitsZ limbZ
  shlZ shrZ shl1Z shr1Z shl_extZ normZ
  udivZ div32Z div21Z divZ div_wZ mod_nZ gcdZ inv_modZ bezout_modZ exp_modZ exp_mod_wZ arazi_qiZ
  mpz_to_ruintZ mpz_to_rintZ rint_to_mpzZ
  sshrZ sdiv_qZ sdiv_rZ slmulZ slsquareZ scmpZ sextZ smod_nZ sinv_modZ.
Cd "..".
