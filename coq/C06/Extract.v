(* Extraction of the executable model for the correspondence run (ExtrOcamlBasic only). *)
From Coq Require Import ZArith.
From Coq Require Extraction.
From Coq Require Import ExtrOcamlBasic.
From C06 Require Import Model ModelNative ModelCount ModelAudit ModelCast.
Extraction Language OCaml.
Cd "ocaml".
Extraction "model.ml" addZ add_wcZ add_wZ add_1Z subZ sub_wcZ sub_wZ sub_1Z cmpZ
  lmul_naiveZ lmul_karaZ lmulZ laddmulZ laddmul2Z mulZ addmulZ lmul_wZ lsquareZ squareZ
  lnotZ negZ lorZ lxorZ landZ lor_wZ lxor_wZ land_wZ bitsZ limbZ
  shlZ shrZ shl1Z shr1Z shl_extZ normZ
  udivZ div32Z div21Z divZ div_wZ mod_nZ gcdZ inv_modZ bezout_modZ exp_modZ exp_mod_wZ arazi_qiZ
  mpz_to_ruintZ mpz_to_rintZ rint_to_mpzZ
  sshrZ sdiv_qZ sdiv_rZ slmulZ slsquareZ scmpZ sextZ smod_nZ sinv_modZ
  cmp_siZ cmp_wZ ctor_uZ ctor_sZ castZ op_add_siZ op_sub_siZ op_rsub_siZ op_mul_siZ op_div_siZ div_q_uZ op_mod_wZ
  op_lor_siZ op_lxor_siZ op_land_siZ mpz_to_ruint_intoZ mpz_to_rint_intoZ ruint_to_mpz_intoZ rint_to_mpz_intoZ
  scmp_wZ scmp_siZ sdiv_q_siZ smod_n1Z sizesZ exp_mod_nZ display_decZ maxconstZ
  shl_cntZ shr_cntZ addmul_wZ
  exp_mod_scanZ normalization_scanZ inv_mod_docZ sinv_mod_docZ div32_trZ scast_fltZ.
Cd "..".
