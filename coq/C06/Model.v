(* RecInt model (C06): ruint<K> as nested pairs, functions by recursion on k = K-6,
   written after the templates of src/kernel/recint/{ruadd,rusub,rucmp,rumul,ruaddmul}.h.
   No proofs in this file (it must still extract when a proof breaks). *)
From Coq Require Import ZArith Bool List.
Local Open Scope Z_scope.

Definition W : Z := 18446744073709551616.  (* 2^64: one limb *)

(* ruint<6+k>: k = 0 is a limb (invariant 0 <= . < W), k+1 is (Low, High) *)
Fixpoint ru (k : nat) : Type :=
  match k with O => Z | S k' => (ru k' * ru k')%type end.

Fixpoint B (k : nat) : Z := match k with O => W | S k' => B k' * B k' end.

Fixpoint val (k : nat) : ru k -> Z :=
  match k return ru k -> Z with
  | O => fun x => x
  | S k' => fun x => val k' (fst x) + B k' * val k' (snd x)
  end.

Fixpoint of_Z (k : nat) (z : Z) : ru k :=
  match k return ru k with
  | O => z mod W
  | S k' => (of_Z k' (z mod B k'), of_Z k' (z / B k'))
  end.

Fixpoint zero (k : nat) : ru k :=
  match k return ru k with O => 0 | S k' => (zero k', zero k') end.

Definition b2z (b : bool) : Z := if b then 1 else 0.

(* ---- limb primitives (reclonglong.h macros, plain-C variants: NO_ASM) ---- *)
(* recint_add_ssaaaa(sh,sl,ah,al,bh,bl) *)
Definition add_ssaaaa (ah al bh bl : Z) : Z * Z :=
  let x := (al + bl) mod W in
  ((ah + bh + b2z (x <? al)) mod W, x).
(* recint_sub_ddmmss *)
Definition sub_ddmmss (ah al bh bl : Z) : Z * Z :=
  let x := (al - bl) mod W in
  ((ah - bh - b2z (al <? bl)) mod W, x).
(* recint_umul_ppmm(ph,pl,a,b): double-limb product *)
Definition umul_ppmm (a b : Z) : Z * Z := ((a * b) / W, (a * b) mod W).

(* ---- rucmp.h ---- *)
Fixpoint cmp (k : nat) : ru k -> ru k -> Z :=
  match k return ru k -> ru k -> Z with
  | O => fun a b => if a <? b then -1 else if a =? b then 0 else 1
  | S k' => fun a b =>
      let ch := cmp k' (snd a) (snd b) in
      if ch =? 0 then cmp k' (fst a) (fst b) else ch
  end.
Definition lt k a b := cmp k a b <? 0.
Definition le k a b := cmp k a b <=? 0.
Definition eqb k a b := cmp k a b =? 0.

(* ---- ruadd.h ---- *)
(* add_wc(r, a, b, c, cy): a = b + c + cy, r = carry.  K=6 and K=7 specialisations kept apart. *)
Fixpoint add_wc (k : nat) : ru k -> ru k -> bool -> ru k * bool :=
  match k return ru k -> ru k -> bool -> ru k * bool with
  | O => fun b c cy =>
      let a := (b + c) mod W in
      if cy then let a' := (a + 1) mod W in (a', a' <=? b) else (a, a <? b)
  | S k' =>
      match k' return (ru k' -> ru k' -> bool -> ru k' * bool) -> ru (S k') -> ru (S k') -> bool -> ru (S k') * bool with
      | O => fun _ b c cy =>                                  (* ruint<7>: recint_add_ssaaaa *)
          let '(h, l) := add_ssaaaa (snd b) (fst b) (snd c) (fst c) in
          if cy then
            let '(h', l') := add_ssaaaa h l 0 1 in
            ((l', h') : ru 1, le 1 (l', h') b)
          else ((l, h) : ru 1, lt 1 (l, h) b)
      | S k'' => fun rec b c cy =>
          let '(lo, r1) := rec (fst b) (fst c) cy in
          let '(hi, r2) := rec (snd b) (snd c) r1 in
          ((lo, hi), r2)
      end (add_wc k')
  end.

(* add(r, a, b, c): a = b + c, r = carry *)
Fixpoint add_c (k : nat) : ru k -> ru k -> ru k * bool :=
  match k return ru k -> ru k -> ru k * bool with
  | O => fun b c => let a := (b + c) mod W in (a, a <? b)
  | S k' =>
      match k' return (ru k' -> ru k' -> ru k' * bool) -> ru (S k') -> ru (S k') -> ru (S k') * bool with
      | O => fun _ b c =>
          let '(h, l) := add_ssaaaa (snd b) (fst b) (snd c) (fst c) in
          ((l, h) : ru 1, lt 1 (l, h) b)
      | S k'' => fun rec b c =>
          let '(lo, r1) := rec (fst b) (fst c) in
          let '(hi, r2) := add_wc (S k'') (snd b) (snd c) r1 in
          ((lo, hi), r2)
      end (add_c k')
  end.

(* add(r, a, b, T c) with an arithmetic word c (also used for bool carries: add(r, a.High, rl)) *)
Fixpoint add_w (k : nat) : ru k -> Z -> ru k * bool :=
  match k return ru k -> Z -> ru k * bool with
  | O => fun b c => let a := (b + c) mod W in (a, a <? c)
  | S k' =>
      match k' return (ru k' -> Z -> ru k' * bool) -> ru (S k') -> Z -> ru (S k') * bool with
      | O => fun _ b c =>
          let '(h, l) := add_ssaaaa (snd b) (fst b) 0 c in
          (* r = (a < c) : ruint<7> against a word: High == 0 ? cmp(Low, c) : 1 *)
          ((l, h) : ru 1, if h =? 0 then l <? c else false)
      | S k'' => fun rec b c =>
          let '(lo, r1) := rec (fst b) c in
          let '(hi, r2) := rec (snd b) (b2z r1) in
          ((lo, hi), r2)
      end (add_w k')
  end.

(* add_1(r, a): a += 1 (in-place form: add_1(rl, a.Low); add(r, a.High, rl)) *)
Fixpoint add_1 (k : nat) : ru k -> ru k * bool :=
  match k return ru k -> ru k * bool with
  | O => fun b => let a := (b + 1) mod W in (a, a =? 0)
  | S k' =>
      match k' return (ru k' -> ru k' * bool) -> ru (S k') -> ru (S k') * bool with
      | O => fun _ b =>
          let '(h, l) := add_ssaaaa (snd b) (fst b) 0 1 in
          ((l, h) : ru 1, (h =? 0) && (l =? 0))
      | S k'' => fun rec b =>
          let '(lo, r1) := rec (fst b) in
          let '(hi, r2) := add_w (S k'') (snd b) (b2z r1) in
          ((lo, hi), r2)
      end (add_1 k')
  end.

(* ---- rusub.h ---- *)
(* sub_wc(r, a, b, c, cy): a = b - c - cy, r = borrow *)
Fixpoint sub_wc (k : nat) : ru k -> ru k -> bool -> ru k * bool :=
  match k return ru k -> ru k -> bool -> ru k * bool with
  | O => fun b c cy =>
      if cy then ((b - c - 1) mod W, b <=? c) else ((b - c) mod W, b <? c)
  | S k' =>
      match k' return (ru k' -> ru k' -> bool -> ru k' * bool) -> ru (S k') -> ru (S k') -> bool -> ru (S k') * bool with
      | O => fun _ b c cy =>
          let '(h, l) := sub_ddmmss (snd b) (fst b) (snd c) (fst c) in
          if cy then
            let '(h', l') := sub_ddmmss h l 0 1 in
            ((l', h') : ru 1, le 1 b c)
          else ((l, h) : ru 1, lt 1 b c)
      | S k'' => fun rec b c cy =>
          let '(lo, r1) := rec (fst b) (fst c) cy in
          let '(hi, r2) := rec (snd b) (snd c) r1 in
          ((lo, hi), r2)
      end (sub_wc k')
  end.

(* sub(r, a, b, c): a = b - c, r = borrow *)
Fixpoint sub_c (k : nat) : ru k -> ru k -> ru k * bool :=
  match k return ru k -> ru k -> ru k * bool with
  | O => fun b c => ((b - c) mod W, b <? c)
  | S k' =>
      match k' return (ru k' -> ru k' -> ru k' * bool) -> ru (S k') -> ru (S k') -> ru (S k') * bool with
      | O => fun _ b c =>
          let '(h, l) := sub_ddmmss (snd b) (fst b) (snd c) (fst c) in
          ((l, h) : ru 1, lt 1 b c)
      | S k'' => fun rec b c =>
          let '(lo, r1) := rec (fst b) (fst c) in
          let '(hi, r2) := sub_wc (S k'') (snd b) (snd c) r1 in
          ((lo, hi), r2)
      end (sub_c k')
  end.

(* ---- rumul.h / ruaddmul.h ---- *)
(* laddmul(r, ah, al, b, c, d) with d : ruint<K>:   (ah,al) = b*c + d, r = (overflow flag as the code computes it) *)
(* laddmul(r, ah, al, b, c, d) with d : ruint<K+1>: (ah,al) = b*c + d, r = carry out of 2^(2^(K+1)) *)
(* lmul_naive(ah, al, b, c) *)
(* if (r) add_1(r, a);   if (r) add_1(r, a.High);   if (r) add(rt, bc.High, x) *)
Definition add_1_if (k : nat) (r : bool) (a : ru k) : ru k * bool := if r then add_1 k a else (a, r).
Definition add_1_high_if (k : nat) (r : bool) (a : ru (S k)) : ru (S k) * bool :=
  if r then (let '(h, r') := add_1 k (snd a) in ((fst a, h), r')) else (a, r).
Definition add_high_if (k : nat) (r : bool) (a : ru (S k)) (x : ru k) : ru (S k) * bool :=
  if r then (let '(h, r') := add_c k (snd a) x in ((fst a, h), r')) else (a, false).

Section MulRec.
  Variable k' : nat.
  Variable lmul_rec : ru k' -> ru k' -> ru k' * ru k'.                        (* (al, ah) *)
  Variable laddmul_rec : ru k' -> ru k' -> ru k' -> (ru k' * ru k') * bool.   (* d : ru k' *)
  Variable laddmul2_rec : ru k' -> ru k' -> ru (S k') -> (ru k' * ru k') * bool. (* d : ru (S k') *)

  (* generic body of lmul_naive<K> *)
  Definition lmul_naive_step (b c : ru (S k')) : ru (S k') * ru (S k') :=
    let blcl := lmul_rec (fst b) (fst c) in
    let bcmid := lmul_rec (snd b) (fst c) in
    let '(bcmid, rmid) := laddmul2_rec (fst b) (snd c) bcmid in
    let '(ah, _) := laddmul_rec (snd b) (snd c) (snd bcmid) in
    let al_lo := fst blcl in
    let '(al_hi, rlow) := add_c k' (snd blcl) (fst bcmid) in
    let ah := fst (add_1_if (S k') rlow ah) in
    let ah := fst (add_1_high_if k' rmid ah) in
    ((al_lo, al_hi), ah).

  (* generic body of laddmul(r, ah, al, b, c, d : ruint<K>) *)
  Definition laddmul_step (b c d : ru (S k')) : (ru (S k') * ru (S k')) * bool :=
    let '(blcld, rlow) := laddmul2_rec (fst b) (fst c) d in
    let bcmid := lmul_rec (snd b) (fst c) in
    let '(bcmid, rmid) := laddmul2_rec (fst b) (snd c) bcmid in
    let '(ah, rhigh) := laddmul_rec (snd b) (snd c) (snd bcmid) in
    let al_lo := fst blcld in
    let '(al_hi, rlow2) := add_c k' (snd blcld) (fst bcmid) in
    let '(ah, rlow) := add_1_if (S k') rlow ah in
    let '(ah, rlow2) := add_1_if (S k') rlow2 ah in
    let '(ah, rmid) := add_1_high_if k' rmid ah in
    (((al_lo, al_hi), ah), rlow || rlow2 || rmid || rhigh).

  (* generic body of laddmul(r, ah, al, b, c, d : ruint<K+1>) *)
  Definition laddmul2_step (b c : ru (S k')) (d : ru (S (S k'))) : (ru (S k') * ru (S k')) * bool :=
    let '(blcldl, rlow) := laddmul2_rec (fst b) (fst c) (fst d) in
    let bcmid := lmul_rec (snd b) (fst c) in
    let '(bcmid, rmid) := laddmul2_rec (fst b) (snd c) bcmid in
    (* laddmul(rhigh, ah, b.High, c.High, d.High): here d.High : ruint<K>, ah : ruint<K> = (Low,High) pair *)
    let '(ah, rhigh) := laddmul2_rec (snd b) (snd c) (snd d) in
    let al_lo := fst blcldl in
    let '(al_hi, rlow2) := add_c k' (snd blcldl) (fst bcmid) in
    let '(ah_lo, rmid2) := add_c k' (fst ah) (snd bcmid) in
    let ah := (ah_lo, snd ah) in
    let '(ah, rlow) := add_1_if (S k') rlow ah in
    let '(ah, rlow2) := add_1_if (S k') rlow2 ah in
    let '(ah, rmid) := add_1_high_if k' rmid ah in
    let '(ah, rmid2) := add_1_high_if k' rmid2 ah in
    (((al_lo, al_hi), ah), rlow || rlow2 || rmid || rmid2 || rhigh).
End MulRec.

(* lmul_kara(ah, al, b, c) for K > 6, given lmul on the half size *)
Definition lmul_kara_step (k' : nat) (lmul_rec : ru k' -> ru k' -> ru k' * ru k')
           (b c : ru (S k')) : ru (S k') * ru (S k') :=
  let '(bb, rb) := add_c k' (snd b) (fst b) in
  let '(cc, rc) := add_c k' (snd c) (fst c) in
  let ah := lmul_rec (snd b) (snd c) in
  let al := lmul_rec (fst b) (fst c) in
  let bc := lmul_rec bb cc in
  let '(bc, rt1) := add_high_if k' rb bc cc in
  let '(bc, rt2) := add_high_if k' rc bc bb in
  let '(bc, rt3) := sub_c (S k') bc ah in
  let '(bc, rt4) := sub_c (S k') bc al in
  (* bool r = (rb&rc)+rt1+rt2-rt3-rt4  (int arithmetic, then converted to bool: non-zero) *)
  let r := negb ((b2z (rb && rc) + b2z rt1 + b2z rt2 - b2z rt3 - b2z rt4) =? 0) in
  let '(al_hi, rt5) := add_c k' (snd al) (fst bc) in
  let al := (fst al, al_hi) in
  let ah := fst (add_1_if (S k') rt5 ah) in
  let '(ah_lo, rt6) := add_c k' (fst ah) (snd bc) in
  let ah := (ah_lo, snd ah) in
  let ah := if rt6 || r then (fst ah, fst (add_w k' (snd ah) (b2z rt6 + b2z r))) else ah in
  (al, ah).

(* the four mutually dependent functions packed in one Fixpoint over k.  As in the code:
   lmul_naive<K> calls lmul_naive<K-1>, laddmul<K-1> (both d sizes);
   laddmul<K> (both d sizes) calls lmul<K-1> and laddmul<K-1>;
   lmul<K> is lmul_naive<K> when K < __RECINT_THRESHOLD_KARA, else lmul_kara<K>, which calls lmul<K-1>.
   thr is the value of __RECINT_THRESHOLD_KARA minus 6, read from the source by the check. *)
Record mulpack (k : nat) := {
  mp_naive : ru k -> ru k -> ru k * ru k;
  mp_lmul : ru k -> ru k -> ru k * ru k;
  mp_laddmul : ru k -> ru k -> ru k -> (ru k * ru k) * bool;
  mp_laddmul2 : ru k -> ru k -> ru (S k) -> (ru k * ru k) * bool }.
Arguments mp_naive {k}. Arguments mp_lmul {k}. Arguments mp_laddmul {k}. Arguments mp_laddmul2 {k}.

Definition lmul0 (b c : Z) : Z * Z := let '(h, l) := umul_ppmm b c in (l, h).
Definition laddmul0 (b c d : Z) : (Z * Z) * bool :=
  let '(h, l) := umul_ppmm b c in
  let '(h', l') := add_ssaaaa h l 0 d in
  ((l', h'), (h' =? 0) && (l' <? d)).
Definition laddmul20 (b c : Z) (d : Z * Z) : (Z * Z) * bool :=
  let '(h, l) := umul_ppmm b c in
  let '(h', l') := add_ssaaaa h l (snd d) (fst d) in
  ((l', h'), (h' <? snd d) || ((h' =? snd d) && (l' <? fst d))).
Definition mulpack0 : mulpack 0 := Build_mulpack 0 lmul0 lmul0 laddmul0 laddmul20.

Fixpoint mulrec (thr : nat) (k : nat) : mulpack k :=
  match k return mulpack k with
  | O => mulpack0
  | S k' =>
      let p := mulrec thr k' in
      let naive := lmul_naive_step k' (mp_naive p) (mp_laddmul p) (mp_laddmul2 p) in
      {| mp_naive := naive;
         mp_lmul := if Nat.ltb (S k') thr then naive else lmul_kara_step k' (mp_lmul p);
         mp_laddmul := laddmul_step k' (mp_lmul p) (mp_laddmul p) (mp_laddmul2 p);
         mp_laddmul2 := laddmul2_step k' (mp_lmul p) (mp_laddmul2 p) |}
  end.

Definition lmul_naive (thr k : nat) := mp_naive (mulrec thr k).
Definition lmul (thr k : nat) := mp_lmul (mulrec thr k).
Definition laddmul (thr k : nat) := mp_laddmul (mulrec thr k).
Definition laddmul2 (thr k : nat) := mp_laddmul2 (mulrec thr k).

Definition lmul_kara (thr : nat) (k : nat) : ru k -> ru k -> ru k * ru k :=
  match k return ru k -> ru k -> ru k * ru k with
  | O => lmul_naive thr 0
  | S k' => lmul_kara_step k' (lmul thr k')
  end.

(* mul(a, b, c): truncated product; addmul(a, b, c): a += b*c *)
Fixpoint mul (thr : nat) (k : nat) : ru k -> ru k -> ru k :=
  match k return ru k -> ru k -> ru k with
  | O => fun b c => (b * c) mod W
  | S k' => fun b c =>
      let bcmid := mul thr k' (fst b) (snd c) in
      let bcmid := fst (add_c k' bcmid (mul thr k' (snd b) (fst c))) in     (* addmul(bcmid, b.High, c.Low) *)
      let al := lmul thr k' (fst b) (fst c) in                              (* lmul(al, b.Low, c.Low): (al.Low, al.High) *)
      (fst al, fst (add_c k' (snd al) bcmid))
  end.

Definition addmul (thr : nat) (k : nat) (a b c : ru k) : ru k :=
  match k return ru k -> ru k -> ru k -> ru k with
  | O => fun a b c => (a + b * c) mod W
  | S k' => fun a b c => fst (add_c (S k') a (mul thr (S k') b c))
  end a b c.

(* ---- Z-level wrappers: what is extracted and run against the implementation ---- *)
Definition zb (b : bool) : Z := b2z b.
Definition addZ k b c := let '(a, r) := add_c k (of_Z k b) (of_Z k c) in (val k a, zb r).
Definition add_wcZ k b c cy := let '(a, r) := add_wc k (of_Z k b) (of_Z k c) (negb (cy =? 0)) in (val k a, zb r).
Definition add_wZ k b c := let '(a, r) := add_w k (of_Z k b) (c mod W) in (val k a, zb r).
Definition add_1Z k b := let '(a, r) := add_1 k (of_Z k b) in (val k a, zb r).
Definition subZ k b c := let '(a, r) := sub_c k (of_Z k b) (of_Z k c) in (val k a, zb r).
Definition sub_wcZ k b c cy := let '(a, r) := sub_wc k (of_Z k b) (of_Z k c) (negb (cy =? 0)) in (val k a, zb r).
Definition cmpZ k a b := cmp k (of_Z k a) (of_Z k b).
Definition lmul_naiveZ thr k b c := let '(l, h) := lmul_naive thr k (of_Z k b) (of_Z k c) in (val k l, val k h).
Definition lmul_karaZ thr k b c := let '(l, h) := lmul_kara thr k (of_Z k b) (of_Z k c) in (val k l, val k h).
Definition lmulZ thr k b c := let '(l, h) := lmul thr k (of_Z k b) (of_Z k c) in (val k l, val k h).
Definition laddmulZ thr k b c d := let '((l, h), r) := laddmul thr k (of_Z k b) (of_Z k c) (of_Z k d) in (val k l, val k h, zb r).
Definition laddmul2Z thr k b c d := let '((l, h), r) := laddmul2 thr k (of_Z k b) (of_Z k c) (of_Z (S k) d) in (val k l, val k h, zb r).
Definition mulZ thr k b c := val k (mul thr k (of_Z k b) (of_Z k c)).
Definition addmulZ thr k a b c := val k (addmul thr k (of_Z k a) (of_Z k b) (of_Z k c)).
