(* RecInt model (C06): ruint<K> as nested pairs, functions by recursion on k = K-6,
   written after the templates of src/kernel/recint/{ruadd,rusub,rucmp,rumul,ruaddmul}.h.
   No proofs in this file (it must still extract when a proof breaks). *)
From Coq Require Import ZArith Bool List.
Local Open Scope Z_scope.

Definition W : Z := 18446744073709551616.  (* 2^64: one limb *)
(* reduction of a machine word and its overflow part, written with land/shiftr so that the extracted
   code is linear in the word size (ProofsBase: modW x = x mod W, divW x = x / W) *)
Definition Wm1 : Z := 18446744073709551615.
Definition modW (x : Z) : Z := Z.land x Wm1.
Definition divW (x : Z) : Z := Z.shiftr x 64.

(* ruint<6+k>: k = 0 is a limb (invariant 0 <= . < W), k+1 is (Low, High) *)
Fixpoint ru (k : nat) : Type :=
  match k with O => Z | S k' => (ru k' * ru k')%type end.

Fixpoint B (k : nat) : Z := match k with O => W | S k' => B k' * B k' end.

Fixpoint val (k : nat) : ru k -> Z :=
  match k return ru k -> Z with
  | O => fun x => x
  | S k' => fun x => val k' (fst x) + B k' * val k' (snd x)
  end.

Fixpoint of_Z (k : nat) (z : Z) : ru k :=
  match k return ru k with
  | O => z mod W
  | S k' => (of_Z k' (z mod B k'), of_Z k' (z / B k'))
  end.

Fixpoint zero (k : nat) : ru k :=
  match k return ru k with O => 0 | S k' => (zero k', zero k') end.

Definition b2z (b : bool) : Z := if b then 1 else 0.

(* ---- limb primitives (reclonglong.h macros, plain-C variants: NO_ASM) ---- *)
(* recint_add_ssaaaa(sh,sl,ah,al,bh,bl) *)
Definition add_ssaaaa (ah al bh bl : Z) : Z * Z :=
  let x := modW (al + bl) in
  (modW (ah + bh + b2z (x <? al)), x).
(* recint_sub_ddmmss *)
Definition sub_ddmmss (ah al bh bl : Z) : Z * Z :=
  let x := modW (al - bl) in
  (modW (ah - bh - b2z (al <? bl)), x).
(* recint_umul_ppmm(ph,pl,a,b): double-limb product *)
Definition umul_ppmm (a b : Z) : Z * Z := (divW (a * b), modW (a * b)).

(* ---- rucmp.h ---- *)
Fixpoint cmp (k : nat) : ru k -> ru k -> Z :=
  match k return ru k -> ru k -> Z with
  | O => fun a b => if a <? b then -1 else if a =? b then 0 else 1
  | S k' => fun a b =>
      let ch := cmp k' (snd a) (snd b) in
      if ch =? 0 then cmp k' (fst a) (fst b) else ch
  end.
Definition lt k a b := cmp k a b <? 0.
Definition le k a b := cmp k a b <=? 0.
Definition eqb k a b := cmp k a b =? 0.

(* ---- ruadd.h ---- *)
(* add_wc(r, a, b, c, cy): a = b + c + cy, r = carry.  K=6 and K=7 specialisations kept apart. *)
Fixpoint add_wc (k : nat) : ru k -> ru k -> bool -> ru k * bool :=
  match k return ru k -> ru k -> bool -> ru k * bool with
  | O => fun b c cy =>
      let a := modW (b + c) in
      if cy then let a' := modW (a + 1) in (a', a' <=? b) else (a, a <? b)
  | S k' =>
      match k' return (ru k' -> ru k' -> bool -> ru k' * bool) -> ru (S k') -> ru (S k') -> bool -> ru (S k') * bool with
      | O => fun _ b c cy =>                                  (* ruint<7>: recint_add_ssaaaa *)
          let '(h, l) := add_ssaaaa (snd b) (fst b) (snd c) (fst c) in
          if cy then
            let '(h', l') := add_ssaaaa h l 0 1 in
            ((l', h') : ru 1, le 1 (l', h') b)
          else ((l, h) : ru 1, lt 1 (l, h) b)
      | S k'' => fun rec b c cy =>
          let '(lo, r1) := rec (fst b) (fst c) cy in
          let '(hi, r2) := rec (snd b) (snd c) r1 in
          ((lo, hi), r2)
      end (add_wc k')
  end.

(* add(r, a, b, c): a = b + c, r = carry *)
Fixpoint add_c (k : nat) : ru k -> ru k -> ru k * bool :=
  match k return ru k -> ru k -> ru k * bool with
  | O => fun b c => let a := modW (b + c) in (a, a <? b)
  | S k' =>
      match k' return (ru k' -> ru k' -> ru k' * bool) -> ru (S k') -> ru (S k') -> ru (S k') * bool with
      | O => fun _ b c =>
          let '(h, l) := add_ssaaaa (snd b) (fst b) (snd c) (fst c) in
          ((l, h) : ru 1, lt 1 (l, h) b)
      | S k'' => fun rec b c =>
          let '(lo, r1) := rec (fst b) (fst c) in
          let '(hi, r2) := add_wc (S k'') (snd b) (snd c) r1 in
          ((lo, hi), r2)
      end (add_c k')
  end.

(* add(r, a, b, T c) with an arithmetic word c (also used for bool carries: add(r, a.High, rl)) *)
Fixpoint add_w (k : nat) : ru k -> Z -> ru k * bool :=
  match k return ru k -> Z -> ru k * bool with
  | O => fun b c => let a := modW (b + c) in (a, a <? c)
  | S k' =>
      match k' return (ru k' -> Z -> ru k' * bool) -> ru (S k') -> Z -> ru (S k') * bool with
      | O => fun _ b c =>
          let '(h, l) := add_ssaaaa (snd b) (fst b) 0 c in
          (* r = (a < c) : ruint<7> against a word: High == 0 ? cmp(Low, c) : 1 *)
          ((l, h) : ru 1, if h =? 0 then l <? c else false)
      | S k'' => fun rec b c =>
          let '(lo, r1) := rec (fst b) c in
          let '(hi, r2) := rec (snd b) (b2z r1) in
          ((lo, hi), r2)
      end (add_w k')
  end.

(* add_1(r, a): a += 1 (in-place form: add_1(rl, a.Low); add(r, a.High, rl)) *)
Fixpoint add_1 (k : nat) : ru k -> ru k * bool :=
  match k return ru k -> ru k * bool with
  | O => fun b => let a := modW (b + 1) in (a, a =? 0)
  | S k' =>
      match k' return (ru k' -> ru k' * bool) -> ru (S k') -> ru (S k') * bool with
      | O => fun _ b =>
          let '(h, l) := add_ssaaaa (snd b) (fst b) 0 1 in
          ((l, h) : ru 1, (h =? 0) && (l =? 0))
      | S k'' => fun rec b =>
          let '(lo, r1) := rec (fst b) in
          let '(hi, r2) := add_w (S k'') (snd b) (b2z r1) in
          ((lo, hi), r2)
      end (add_1 k')
  end.

(* ---- rusub.h ---- *)
(* sub_wc(r, a, b, c, cy): a = b - c - cy, r = borrow *)
Fixpoint sub_wc (k : nat) : ru k -> ru k -> bool -> ru k * bool :=
  match k return ru k -> ru k -> bool -> ru k * bool with
  | O => fun b c cy =>
      if cy then (modW (b - c - 1), b <=? c) else (modW (b - c), b <? c)
  | S k' =>
      match k' return (ru k' -> ru k' -> bool -> ru k' * bool) -> ru (S k') -> ru (S k') -> bool -> ru (S k') * bool with
      | O => fun _ b c cy =>
          let '(h, l) := sub_ddmmss (snd b) (fst b) (snd c) (fst c) in
          if cy then
            let '(h', l') := sub_ddmmss h l 0 1 in
            ((l', h') : ru 1, le 1 b c)
          else ((l, h) : ru 1, lt 1 b c)
      | S k'' => fun rec b c cy =>
          let '(lo, r1) := rec (fst b) (fst c) cy in
          let '(hi, r2) := rec (snd b) (snd c) r1 in
          ((lo, hi), r2)
      end (sub_wc k')
  end.

(* sub(r, a, b, c): a = b - c, r = borrow *)
Fixpoint sub_c (k : nat) : ru k -> ru k -> ru k * bool :=
  match k return ru k -> ru k -> ru k * bool with
  | O => fun b c => (modW (b - c), b <? c)
  | S k' =>
      match k' return (ru k' -> ru k' -> ru k' * bool) -> ru (S k') -> ru (S k') -> ru (S k') * bool with
      | O => fun _ b c =>
          let '(h, l) := sub_ddmmss (snd b) (fst b) (snd c) (fst c) in
          ((l, h) : ru 1, lt 1 b c)
      | S k'' => fun rec b c =>
          let '(lo, r1) := rec (fst b) (fst c) in
          let '(hi, r2) := sub_wc (S k'') (snd b) (snd c) r1 in
          ((lo, hi), r2)
      end (sub_c k')
  end.

(* ---- rumul.h / ruaddmul.h ---- *)
(* laddmul(r, ah, al, b, c, d) with d : ruint<K>:   (ah,al) = b*c + d, r = (overflow flag as the code computes it) *)
(* laddmul(r, ah, al, b, c, d) with d : ruint<K+1>: (ah,al) = b*c + d, r = carry out of 2^(2^(K+1)) *)
(* lmul_naive(ah, al, b, c) *)
(* if (r) add_1(r, a);   if (r) add_1(r, a.High);   if (r) add(rt, bc.High, x) *)
Definition add_1_if (k : nat) (r : bool) (a : ru k) : ru k * bool := if r then add_1 k a else (a, r).
Definition add_1_high_if (k : nat) (r : bool) (a : ru (S k)) : ru (S k) * bool :=
  if r then (let '(h, r') := add_1 k (snd a) in ((fst a, h), r')) else (a, r).
Definition add_high_if (k : nat) (r : bool) (a : ru (S k)) (x : ru k) : ru (S k) * bool :=
  if r then (let '(h, r') := add_c k (snd a) x in ((fst a, h), r')) else (a, false).

Section MulRec.
  Variable k' : nat.
  Variable lmul_rec : ru k' -> ru k' -> ru k' * ru k'.                        (* (al, ah) *)
  Variable laddmul_rec : ru k' -> ru k' -> ru k' -> (ru k' * ru k') * bool.   (* d : ru k' *)
  Variable laddmul2_rec : ru k' -> ru k' -> ru (S k') -> (ru k' * ru k') * bool. (* d : ru (S k') *)

  (* generic body of lmul_naive<K> *)
  Definition lmul_naive_step (b c : ru (S k')) : ru (S k') * ru (S k') :=
    let blcl := lmul_rec (fst b) (fst c) in
    let bcmid := lmul_rec (snd b) (fst c) in
    let '(bcmid, rmid) := laddmul2_rec (fst b) (snd c) bcmid in
    let '(ah, _) := laddmul_rec (snd b) (snd c) (snd bcmid) in
    let al_lo := fst blcl in
    let '(al_hi, rlow) := add_c k' (snd blcl) (fst bcmid) in
    let ah := fst (add_1_if (S k') rlow ah) in
    let ah := fst (add_1_high_if k' rmid ah) in
    ((al_lo, al_hi), ah).

  (* generic body of laddmul(r, ah, al, b, c, d : ruint<K>) *)
  Definition laddmul_step (b c d : ru (S k')) : (ru (S k') * ru (S k')) * bool :=
    let '(blcld, rlow) := laddmul2_rec (fst b) (fst c) d in
    let bcmid := lmul_rec (snd b) (fst c) in
    let '(bcmid, rmid) := laddmul2_rec (fst b) (snd c) bcmid in
    let '(ah, rhigh) := laddmul_rec (snd b) (snd c) (snd bcmid) in
    let al_lo := fst blcld in
    let '(al_hi, rlow2) := add_c k' (snd blcld) (fst bcmid) in
    let '(ah, rlow) := add_1_if (S k') rlow ah in
    let '(ah, rlow2) := add_1_if (S k') rlow2 ah in
    let '(ah, rmid) := add_1_high_if k' rmid ah in
    (((al_lo, al_hi), ah), rlow || rlow2 || rmid || rhigh).

  (* generic body of laddmul(r, ah, al, b, c, d : ruint<K+1>) *)
  Definition laddmul2_step (b c : ru (S k')) (d : ru (S (S k'))) : (ru (S k') * ru (S k')) * bool :=
    let '(blcldl, rlow) := laddmul2_rec (fst b) (fst c) (fst d) in
    let bcmid := lmul_rec (snd b) (fst c) in
    let '(bcmid, rmid) := laddmul2_rec (fst b) (snd c) bcmid in
    (* laddmul(rhigh, ah, b.High, c.High, d.High): here d.High : ruint<K>, ah : ruint<K> = (Low,High) pair *)
    let '(ah, rhigh) := laddmul2_rec (snd b) (snd c) (snd d) in
    let al_lo := fst blcldl in
    let '(al_hi, rlow2) := add_c k' (snd blcldl) (fst bcmid) in
    let '(ah_lo, rmid2) := add_c k' (fst ah) (snd bcmid) in
    let ah := (ah_lo, snd ah) in
    let '(ah, rlow) := add_1_if (S k') rlow ah in
    let '(ah, rlow2) := add_1_if (S k') rlow2 ah in
    let '(ah, rmid) := add_1_high_if k' rmid ah in
    let '(ah, rmid2) := add_1_high_if k' rmid2 ah in
    (((al_lo, al_hi), ah), rlow || rlow2 || rmid || rmid2 || rhigh).
End MulRec.

(* lmul_kara(ah, al, b, c) for K > 6, given lmul on the half size *)
Definition lmul_kara_step (k' : nat) (lmul_rec : ru k' -> ru k' -> ru k' * ru k')
           (b c : ru (S k')) : ru (S k') * ru (S k') :=
  let '(bb, rb) := add_c k' (snd b) (fst b) in
  let '(cc, rc) := add_c k' (snd c) (fst c) in
  let ah := lmul_rec (snd b) (snd c) in
  let al := lmul_rec (fst b) (fst c) in
  let bc := lmul_rec bb cc in
  let '(bc, rt1) := add_high_if k' rb bc cc in
  let '(bc, rt2) := add_high_if k' rc bc bb in
  let '(bc, rt3) := sub_c (S k') bc ah in
  let '(bc, rt4) := sub_c (S k') bc al in
  (* bool r = (rb&rc)+rt1+rt2-rt3-rt4  (int arithmetic, then converted to bool: non-zero) *)
  let r := negb ((b2z (rb && rc) + b2z rt1 + b2z rt2 - b2z rt3 - b2z rt4) =? 0) in
  let '(al_hi, rt5) := add_c k' (snd al) (fst bc) in
  let al := (fst al, al_hi) in
  let ah := fst (add_1_if (S k') rt5 ah) in
  let '(ah_lo, rt6) := add_c k' (fst ah) (snd bc) in
  let ah := (ah_lo, snd ah) in
  let ah := if rt6 || r then (fst ah, fst (add_w k' (snd ah) (b2z rt6 + b2z r))) else ah in
  (al, ah).

(* the four mutually dependent functions packed in one Fixpoint over k.  As in the code:
   lmul_naive<K> calls lmul_naive<K-1>, laddmul<K-1> (both d sizes);
   laddmul<K> (both d sizes) calls lmul<K-1> and laddmul<K-1>;
   lmul<K> is lmul_naive<K> when K < __RECINT_THRESHOLD_KARA, else lmul_kara<K>, which calls lmul<K-1>.
   thr is the value of __RECINT_THRESHOLD_KARA minus 6, read from the source by the check. *)
Record mulpack (k : nat) := {
  mp_naive : ru k -> ru k -> ru k * ru k;
  mp_lmul : ru k -> ru k -> ru k * ru k;
  mp_laddmul : ru k -> ru k -> ru k -> (ru k * ru k) * bool;
  mp_laddmul2 : ru k -> ru k -> ru (S k) -> (ru k * ru k) * bool }.
Arguments mp_naive {k}. Arguments mp_lmul {k}. Arguments mp_laddmul {k}. Arguments mp_laddmul2 {k}.

Definition lmul0 (b c : Z) : Z * Z := let '(h, l) := umul_ppmm b c in (l, h).
Definition laddmul0 (b c d : Z) : (Z * Z) * bool :=
  let '(h, l) := umul_ppmm b c in
  let '(h', l') := add_ssaaaa h l 0 d in
  ((l', h'), (h' =? 0) && (l' <? d)).
Definition laddmul20 (b c : Z) (d : Z * Z) : (Z * Z) * bool :=
  let '(h, l) := umul_ppmm b c in
  let '(h', l') := add_ssaaaa h l (snd d) (fst d) in
  ((l', h'), (h' <? snd d) || ((h' =? snd d) && (l' <? fst d))).
Definition mulpack0 : mulpack 0 := Build_mulpack 0 lmul0 lmul0 laddmul0 laddmul20.

Fixpoint mulrec (thr : nat) (k : nat) : mulpack k :=
  match k return mulpack k with
  | O => mulpack0
  | S k' =>
      let p := mulrec thr k' in
      let naive := lmul_naive_step k' (mp_naive p) (mp_laddmul p) (mp_laddmul2 p) in
      {| mp_naive := naive;
         mp_lmul := if Nat.ltb (S k') thr then naive else lmul_kara_step k' (mp_lmul p);
         mp_laddmul := laddmul_step k' (mp_lmul p) (mp_laddmul p) (mp_laddmul2 p);
         mp_laddmul2 := laddmul2_step k' (mp_lmul p) (mp_laddmul2 p) |}
  end.

Definition lmul_naive (thr k : nat) := mp_naive (mulrec thr k).
Definition lmul (thr k : nat) := mp_lmul (mulrec thr k).
Definition laddmul (thr k : nat) := mp_laddmul (mulrec thr k).
Definition laddmul2 (thr k : nat) := mp_laddmul2 (mulrec thr k).

Definition lmul_kara (thr : nat) (k : nat) : ru k -> ru k -> ru k * ru k :=
  match k return ru k -> ru k -> ru k * ru k with
  | O => lmul_naive thr 0
  | S k' => lmul_kara_step k' (lmul thr k')
  end.

(* mul(a, b, c): truncated product; addmul(a, b, c): a += b*c *)
Fixpoint mul (thr : nat) (k : nat) : ru k -> ru k -> ru k :=
  match k return ru k -> ru k -> ru k with
  | O => fun b c => modW (b * c)
  | S k' => fun b c =>
      let bcmid := mul thr k' (fst b) (snd c) in
      let bcmid := fst (add_c k' bcmid (mul thr k' (snd b) (fst c))) in     (* addmul(bcmid, b.High, c.Low) *)
      let al := lmul thr k' (fst b) (fst c) in                              (* lmul(al, b.Low, c.Low): (al.Low, al.High) *)
      (fst al, fst (add_c k' (snd al) bcmid))
  end.

Definition addmul (thr : nat) (k : nat) (a b c : ru k) : ru k :=
  match k return ru k -> ru k -> ru k -> ru k with
  | O => fun a b c => modW (a + b * c)
  | S k' => fun a b c => fst (add_c (S k') a (mul thr (S k') b c))
  end a b c.


(* ---- rusub.h: word subtrahend, decrement ---- *)
(* sub(r, a, b, T c) *)
Fixpoint sub_w (k : nat) : ru k -> Z -> ru k * bool :=
  match k return ru k -> Z -> ru k * bool with
  | O => fun b c => (modW (b - c), b <? c)
  | S k' =>
      match k' return (ru k' -> Z -> ru k' * bool) -> ru (S k') -> Z -> ru (S k') * bool with
      | O => fun _ b c =>
          let '(h, l) := sub_ddmmss (snd b) (fst b) 0 c in
          (* r = (b < c) : ruint<7> against a word *)
          ((l, h) : ru 1, if snd b =? 0 then fst b <? c else false)
      | S k'' => fun rec b c =>
          let '(lo, r1) := rec (fst b) c in
          let '(hi, r2) := rec (snd b) (b2z r1) in
          ((lo, hi), r2)
      end (sub_w k')
  end.

(* sub_1(r, a, b) *)
Fixpoint sub_1 (k : nat) : ru k -> ru k * bool :=
  match k return ru k -> ru k * bool with
  | O => fun b => (modW (b - 1), b =? 0)
  | S k' =>
      match k' return (ru k' -> ru k' * bool) -> ru (S k') -> ru (S k') * bool with
      | O => fun _ b =>
          let '(h, l) := sub_ddmmss (snd b) (fst b) 0 1 in
          ((l, h) : ru 1, (snd b =? 0) && (fst b =? 0))
      | S k'' => fun rec b =>
          let '(lo, r1) := rec (fst b) in
          let '(hi, r2) := sub_w (S k'') (snd b) (b2z r1) in
          ((lo, hi), r2)
      end (sub_1 k')
  end.

(* ---- rumanip.h / rufiddling.h ---- *)
Fixpoint nbits (k : nat) : Z := match k with O => 64 | S k' => 2 * nbits k' end.    (* NBBITS<K> *)
Fixpoint nlimbs (k : nat) : Z := match k with O => 1 | S k' => 2 * nlimbs k' end.   (* NBLIMB<K> *)

Fixpoint ones (k : nat) : ru k :=                                   (* fill_with_1 *)
  match k return ru k with O => Wm1 | S k' => (ones k', ones k') end.
Fixpoint is_zero (k : nat) : ru k -> bool :=                        (* a == 0 *)
  match k return ru k -> bool with
  | O => fun a => a =? 0
  | S k' => fun a => is_zero k' (snd a) && is_zero k' (fst a)
  end.
Fixpoint lnot (k : nat) : ru k -> ru k :=                           (* operator~ *)
  match k return ru k -> ru k with
  | O => fun c => Z.lxor c Wm1
  | S k' => fun c => (lnot k' (fst c), lnot k' (snd c))
  end.
Definition neg (k : nat) (c : ru k) : ru k := fst (add_1 k (lnot k c)).   (* r = ~c; ++r *)
Section Bitwise.
  Variable f : Z -> Z -> Z.
  Fixpoint bitop (k : nat) : ru k -> ru k -> ru k :=
    match k return ru k -> ru k -> ru k with
    | O => fun b c => f b c
    | S k' => fun b c => (bitop k' (fst b) (fst c), bitop k' (snd b) (snd c))
    end.
  (* b op= (T)c for |= and ^= : only the lowest limb is touched *)
  Fixpoint bitop_w (k : nat) : ru k -> Z -> ru k :=
    match k return ru k -> Z -> ru k with
    | O => fun b c => f b c
    | S k' => fun b c => (bitop_w k' (fst b) c, snd b)
    end.
End Bitwise.
Definition lor_ := bitop Z.lor.
Definition lxor_ := bitop Z.lxor.
Definition land_ := bitop Z.land.
(* b &= (T)c : reset(b.High); b.Low &= c *)
Fixpoint land_w (k : nat) : ru k -> Z -> ru k :=
  match k return ru k -> Z -> ru k with
  | O => fun b c => Z.land b c
  | S k' => fun b c => (land_w k' (fst b) c, zero k')
  end.
Fixpoint highest_bit (k : nat) : ru k -> bool :=
  match k return ru k -> bool with
  | O => fun a => 9223372036854775808 <=? a
  | S k' => fun a => highest_bit k' (snd a)
  end.
Fixpoint lowest_bit (k : nat) : ru k -> bool :=
  match k return ru k -> bool with
  | O => fun a => Z.odd a
  | S k' => fun a => lowest_bit k' (fst a)
  end.
Fixpoint set_highest_bit (k : nat) : ru k -> ru k :=
  match k return ru k -> ru k with
  | O => fun a => Z.lor a 9223372036854775808
  | S k' => fun a => (fst a, set_highest_bit k' (snd a))
  end.
Fixpoint set_lowest_bit (k : nat) : ru k -> ru k :=
  match k return ru k -> ru k with
  | O => fun a => Z.lor a 1
  | S k' => fun a => (set_lowest_bit k' (fst a), snd a)
  end.
Fixpoint max_pow_two (k : nat) : ru k :=
  match k return ru k with O => 9223372036854775808 | S k' => (zero k', max_pow_two k') end.
Fixpoint set_limb (k : nat) : ru k -> Z -> Z -> ru k :=
  match k return ru k -> Z -> Z -> ru k with
  | O => fun a l idx => if idx =? 0 then l else a
  | S k' => fun a l idx =>
      if idx <? nlimbs k' then (set_limb k' (fst a) l idx, snd a)
      else (fst a, set_limb k' (snd a) l (idx - nlimbs k'))
  end.
Fixpoint get_limb (k : nat) : ru k -> Z -> Z :=
  match k return ru k -> Z -> Z with
  | O => fun a _ => a
  | S k' => fun a idx => if idx <? nlimbs k' then get_limb k' (fst a) idx else get_limb k' (snd a) (idx - nlimbs k')
  end.

(* ---- rushift.h ---- *)
(* left_shift_1(z, b, a) / right_shift_1(z, b, a): (b, lost bit) *)
Fixpoint shl1 (k : nat) : ru k -> ru k * bool :=
  match k return ru k -> ru k * bool with
  | O => fun a => (modW (2 * a), 9223372036854775808 <=? a)
  | S k' => fun a =>
      let '(h, z) := shl1 k' (snd a) in
      let '(l, zl) := shl1 k' (fst a) in
      ((l, if zl then set_lowest_bit k' h else h), z)
  end.
Fixpoint shr1 (k : nat) : ru k -> ru k * bool :=
  match k return ru k -> ru k * bool with
  | O => fun a => (Z.shiftr a 1, Z.odd a)
  | S k' => fun a =>
      let '(h, zh) := shr1 k' (snd a) in
      let '(l, z) := shr1 k' (fst a) in
      ((if zh then set_highest_bit k' l else l, h), z)
  end.

(* left_shift(b, a, d) and right_shift(b, a, d), d a non-negative count of a type wide enough for NBBITS<K>.
   Both in one Fixpoint (each calls the other on the half size): fst = left, snd = right. *)
Definition shl_limb (a d : Z) : Z := if d =? 0 then a else if d <? 64 then modW (Z.shiftl a d) else 0.
Definition shr_limb (a d : Z) : Z := if d =? 0 then a else if d <? 64 then Z.shiftr a d else 0.
Fixpoint shifts (k : nat) : (ru k -> Z -> ru k) * (ru k -> Z -> ru k) :=
  match k return (ru k -> Z -> ru k) * (ru k -> Z -> ru k) with
  | O => (shl_limb, shr_limb)
  | S k' =>
      let shl' := fst (shifts k') in
      let shr' := snd (shifts k') in
      let nb := nbits k' in
      (fun a d =>
         if d =? 0 then a
         else if d =? 1 then fst (shl1 (S k') a)
         else if 2 * nb <? d then zero (S k')
         else if d <? nb then (shl' (fst a) d, lor_ k' (shr' (fst a) (nb - d)) (shl' (snd a) d))
         else if nb <? d then (zero k', shl' (fst a) (d - nb))
         else (zero k', fst a),
       fun a d =>
         if d =? 0 then a
         else if d =? 1 then fst (shr1 (S k') a)
         else if 2 * nb <? d then zero (S k')
         else if d <? nb then (lor_ k' (shl' (snd a) (nb - d)) (shr' (fst a) d), shr' (snd a) d)
         else if nb <? d then (shr' (snd a) (d - nb), zero k')
         else (snd a, zero k'))
  end.
Definition left_shift (k : nat) := fst (shifts k).
Definition right_shift (k : nat) := snd (shifts k).
(* internal left_shift(ruint<K+1>& b, const ruint<K>& a, d) *)
Definition left_shift_ext (k : nat) (a : ru k) (d : Z) : ru (S k) :=
  let nb := nbits k in
  if d =? 0 then (a, zero k)
  else if 2 * nb <? d then zero (S k)
  else if d <? nb then (left_shift k a d, right_shift k a (nb - d))
  else if nb <? d then (zero k, left_shift k a (d - nb))
  else (zero k, a).

(* ---- rutools.h: normalization(d, b) = number of leading zero bits ---- *)
Definition clz64 (x : Z) : Z := if x =? 0 then 64 else 63 - Z.log2 x.
Fixpoint normalization (k : nat) : ru k -> Z :=
  match k return ru k -> Z with
  | O => fun b => clz64 b
  | S k' => fun b => if is_zero k' (snd b) then nbits k' + normalization k' (fst b) else normalization k' (snd b)
  end.

(* ---- reclonglong.h: __recint_udiv_qrnnd_c (NO_ASM), half-limb base 2^32 ---- *)
Definition HB : Z := 4294967296.
Definition udiv_half (r np d d1 d0 : Z) : Z * Z :=
  let q := r / d1 in
  let r1 := modW (r - q * d1) in
  let m := modW (q * d0) in
  let r1 := Z.lor (modW (r1 * HB)) np in
  let '(q, r1) :=
    if r1 <? m then
      let q' := modW (q - 1) in
      let r' := modW (r1 + d) in
      if (d <=? r') && (r' <? m) then (modW (q' - 1), modW (r' + d)) else (q', r')
    else (q, r1) in
  (q, modW (r1 - m)).
Definition udiv_qrnnd (n1 n0 d : Z) : Z * Z :=                         (* (q, r) *)
  let d1 := Z.shiftr d 32 in
  let d0 := Z.land d (HB - 1) in
  let '(q1, r1) := udiv_half n1 (Z.shiftr n0 32) d d1 d0 in
  let '(q0, r0) := udiv_half r1 (Z.land n0 (HB - 1)) d d1 d0 in
  (Z.lor (modW (q1 * HB)) q0, r0).

(* ---- rudiv.h ---- *)
(* div_3_2 for ruint<6>: (q, r1, r0) *)
Definition div32_0 (a2 a1 a0 b1 b0 : Z) : Z * Z * Z :=
  let '(q, c, ret) :=
    if a2 <? b1 then let '(q, c) := udiv_qrnnd a2 a1 b1 in (q, c, false)
    else let c := modW (a1 + b1) in (Wm1, c, c <? a1) in
  let '(d1, d0) := umul_ppmm q b0 in
  let '(r1, r0) := sub_ddmmss c a0 d1 d0 in
  if negb ret && ((c <? d1) || ((d1 =? c) && (a0 <? d0))) then
    let q := modW (q - 1) in
    let r0 := modW (r0 + b0) in
    let r1 := modW (r1 + b1) in
    let r1 := if r0 <? b0 then modW (r1 + 1) else r1 in
    if (b1 <? r1) || ((r1 =? b1) && (b0 <=? r0)) then
      let q := modW (q - 1) in
      let r0 := modW (r0 + b0) in
      let r1 := modW (r1 + b1) in
      let r1 := if r0 <? b0 then modW (r1 + 1) else r1 in
      (q, r1, r0)
    else (q, r1, r0)
  else (q, r1, r0).

Section DivRec.
  Variable k : nat.
  Variable lmul_k : ru k -> ru k -> ru k * ru k.                      (* lmul<K>: (al, ah) *)
  Variable div21_k : ru k -> ru k -> ru k -> ru k * ru k.             (* div_2_1<K>(q, r, ah, al, b): (q, r) *)
  (* generic div_3_2<K> *)
  Definition div32_step (a2 a1 a0 b1 b0 : ru k) : ru k * ru k * ru k :=
    let '(q, c, ret1) :=
      if lt k a2 b1 then let '(q, c) := div21_k a2 a1 b1 in (q, c, false)
      else let '(c, r) := add_c k a1 b1 in (ones k, c, r) in
    let '(d0, d1) := lmul_k q b0 in
    let '(r0, ret_sub) := sub_c k a0 d0 in
    let '(r1, _) := sub_wc k c d1 ret_sub in
    if negb ret1 && (lt k c d1 || (eqb k d1 c && lt k a0 d0)) then
      let q := fst (sub_1 k q) in
      let '(r0, rs) := add_c k r0 b0 in
      let '(r1, ret) := add_wc k r1 b1 rs in
      if negb ret then
        let q := fst (sub_1 k q) in
        let '(r0, rs) := add_c k r0 b0 in
        let '(r1, _) := add_wc k r1 b1 rs in
        (q, r1, r0)
      else (q, r1, r0)
    else (q, r1, r0).
End DivRec.
(* generic div_2_1<K+1> from div_3_2<K> *)
Definition div21_step (k : nat) (d32 : ru k -> ru k -> ru k -> ru k -> ru k -> ru k * ru k * ru k)
           (ah al b : ru (S k)) : ru (S k) * ru (S k) :=
  let '(qh, s1, s0) := d32 (snd ah) (fst ah) (snd al) (snd b) (fst b) in
  let '(ql, r1, r0) := d32 s1 s0 (fst al) (snd b) (fst b) in
  ((ql, qh), (r0, r1)).
Fixpoint div32 (thr : nat) (k : nat) : ru k -> ru k -> ru k -> ru k -> ru k -> ru k * ru k * ru k :=
  match k return ru k -> ru k -> ru k -> ru k -> ru k -> ru k * ru k * ru k with
  | O => div32_0
  | S k' => div32_step (S k') (lmul thr (S k')) (div21_step k' (div32 thr k'))
  end.
Definition div21 (thr : nat) (k : nat) : ru k -> ru k -> ru k -> ru k * ru k :=
  match k return ru k -> ru k -> ru k -> ru k * ru k with
  | O => udiv_qrnnd
  | S k' => div21_step k' (div32 thr k')
  end.
(* div(q, r, a, b): normalisation, div_2_1, un-normalisation.  ruint<6> is a/b, a%b. *)
Definition div (thr : nat) (k : nat) : ru k -> ru k -> ru k * ru k :=
  match k return ru k -> ru k -> ru k * ru k with
  | O => fun a b => (a / b, a mod b)
  | S k' => fun a b =>
      let d := normalization (S k') b in
      let aa := left_shift_ext (S k') a d in
      let bb := left_shift (S k') b d in
      let '(q, r) := div21 thr (S k') (snd aa) (fst aa) bb in
      (q, right_shift (S k') r d)
  end.
(* div(q, T& r, a, T b) *)
Definition div_w (thr : nat) (k : nat) (a : ru k) (b : Z) : ru k * Z :=
  if b =? 2 then let '(q, z) := shr1 k a in (q, b2z z)
  else let '(q, r) := div thr k a (of_Z k b) in (q, val k r mod W).
(* mod_n(a, b : ruint<K+1>, n) *)
Definition mod_n (thr : nat) (k : nat) (b : ru (S k)) (n : ru k) : ru k :=
  let d := normalization k n in
  let bb := left_shift_ext (S k) b d in
  let nn := left_shift k n d in
  let '(_, r) := div21 thr k (fst (snd bb)) (snd (fst bb)) nn in
  let '(_, a) := div21 thr k r (fst (fst bb)) nn in
  right_shift k a d.

(* ---- rumul.h: word multiplier, squares ---- *)
(* lmul(limb& ret, a, b, T c): (a, ret) *)
Fixpoint lmul_w (k : nat) : ru k -> Z -> ru k * Z :=
  match k return ru k -> Z -> ru k * Z with
  | O => fun b c => let '(h, l) := umul_ppmm b c in (l, h)
  | S k' => fun b c =>
      let '(al, retl) := lmul_w k' (fst b) c in
      let '(ah, ret) := lmul_w k' (snd b) c in
      let '(ah, rt) := add_w k' ah retl in
      ((al, ah), modW (ret + b2z rt))
  end.
(* lsquare(a : ruint<K+1>, b): a as (Low, High) *)
Fixpoint lsquare (thr : nat) (k : nat) : ru k -> ru k * ru k :=
  match k return ru k -> ru k * ru k with
  | O => fun b => lmul0 b b
  | S k' => fun b =>
      let bhbl : ru (S k') := lmul thr k' (snd b) (fst b) in
      let ah : ru (S k') := lsquare thr k' (snd b) in
      let al : ru (S k') := lsquare thr k' (fst b) in
      let rbb := highest_bit (S k') bhbl in
      let bhbl := fst (shl1 (S k') bhbl) in
      let '(al_hi, ralb) := add_c k' (snd al) (fst bhbl) in
      let '(ah_lo, rbah) := add_c k' (fst ah) (snd bhbl) in
      let ah : ru (S k') := (ah_lo, snd ah) in
      let ah : ru (S k') := if ralb then fst (add_1 (S k') ah) else ah in
      let ah : ru (S k') := if rbah || rbb then (fst ah, fst (add_w k' (snd ah) (b2z rbah + b2z rbb))) else ah in
      ((fst al, al_hi), ah)
  end.
Definition square (thr : nat) (k : nat) : ru k -> ru k :=
  match k return ru k -> ru k with
  | O => fun b => modW (b * b)
  | S k' => fun b =>
      let bhbll := mul thr k' (snd b) (fst b) in
      let al : ru (S k') := lsquare thr k' (fst b) in
      let bhbll := fst (shl1 k' bhbll) in
      (fst al, fst (add_c k' (snd al) bhbll))
  end.

(* ---- rugcd.h, ruinvmod.h, ruexp.h: loops on explicit fuel ---- *)
Definition ge (k : nat) (a b : ru k) : bool := 0 <=? cmp k a b.
Fixpoint gcd_loop (thr k : nat) (fuel : nat) (c d : ru k) : ru k :=
  match fuel with
  | O => c
  | S f => if is_zero k d then c else let '(_, r) := div thr k c d in gcd_loop thr k f d r
  end.
Definition euclid_fuel (k : nat) : nat := Z.to_nat (2 * nbits k + 2).
Definition gcd (thr k : nat) (a b : ru k) : ru k := gcd_loop thr k (euclid_fuel k) a b.

(* one update  x(i+1) = x(i-1) - q x(i) mod m  as the code computes it; negc is the operand of "temp = -temp" *)
Definition bezout_update (thr k : nat) (q x last m negc : ru k) : ru k :=
  let temp := mod_n thr k (lmul thr k q x) m in
  let temp := if is_zero k temp then temp else fst (sub_c k negc temp) in
  let '(temp, ret) := add_c k temp last in
  if ret || ge k temp m then fst (sub_c k temp m) else temp.
Fixpoint inv_mod_loop (thr k : nat) (fuel : nat) (a x a2 b2 c : ru k) : ru k :=
  match fuel with
  | O => a
  | S f =>
      if is_zero k b2 then a
      else let '(q, r) := div thr k a2 b2 in
           inv_mod_loop thr k f x (bezout_update thr k q x a c c) b2 r c
  end.
Definition inv_mod (thr k : nat) (b c : ru k) : ru k :=
  inv_mod_loop thr k (euclid_fuel k) (of_Z k 1) (zero k) b c c.
(* bezout_mod(lastx, lasty, c, d): (lastx, lasty) *)
Fixpoint bezout_loop (thr k : nat) (fuel : nat) (lastx x lasty y a b c d : ru k) : ru k * ru k :=
  match fuel with
  | O => (lastx, lasty)
  | S f =>
      if is_zero k b then (lastx, lasty)
      else let '(q, r) := div thr k a b in
           bezout_loop thr k f x (bezout_update thr k q x lastx d d) y (bezout_update thr k q y lasty c c) b r c d
  end.
Definition bezout_mod (thr k : nat) (c d : ru k) : ru k * ru k :=
  bezout_loop thr k (euclid_fuel k) (of_Z k 1) (zero k) (zero k) (of_Z k 1) c d c d.

(* exp_mod(a, b, c, n): all nb bits of the exponent are scanned, lowest first *)
Fixpoint exp_loop (thr k : nat) (fuel : nat) (i : Z) (cz : Z) (a x n : ru k) : ru k :=
  match fuel with
  | O => a
  | S f =>
      let a := if Z.testbit cz i then mod_n thr k (lmul thr k a x) n else a in
      let x := mod_n thr k (lsquare thr k x) n in
      exp_loop thr k f (i + 1) cz a x n
  end.
(* a = (n == 1) ? 0 : 1  (repaired start value, frag/C06.fix-8.diff: the only residue modulo 1 is 0) *)
Definition exp_start (k : nat) (n : ru k) : ru k := if eqb k n (of_Z k 1) then zero k else of_Z k 1.
Definition exp_mod (thr k : nat) (b c n : ru k) : ru k :=
  exp_loop thr k (Z.to_nat (nbits k)) 0 (val k c) (exp_start k n) b n.
(* exp_mod with an unsigned 64-bit exponent *)
Definition exp_mod_w (thr k : nat) (b : ru k) (c : Z) (n : ru k) : ru k :=
  exp_loop thr k 64%nat 0 c (exp_start k n) b n.

(* ---- rmgmodule.h: Arazi-Qi inverse modulo 2^(2^K) ---- *)
Definition arazi0 (a : Z) : Z :=
  if a =? 1 then 1
  else
    let step (s : Z * Z) := let am := modW (fst s * fst s) in (am, modW (snd s * modW (am + 1))) in
    let s := step (step (step (step (step (modW (a - 1), 1))))) in      (* i = 2, 4, 8, 16, 32 *)
    modW (snd s * modW (2 - a)).
Fixpoint arazi_qi (thr : nat) (k : nat) : ru k -> ru k :=
  match k return ru k -> ru k with
  | O => arazi0
  | S k' => fun a =>
      let ul := arazi_qi thr k' (fst a) in
      let t1 := snd (lmul thr k' ul (fst a)) in          (* lmul(t1, t2, u.Low, a.Low): t1 = high part *)
      let t2 := mul thr k' ul (snd a) in
      let t1 := fst (add_c k' t1 t2) in
      let t1 := mul thr k' t1 ul in
      (ul, neg k' t1)
  end.

(* ---- ruconvert.h / rconvert.h ---- *)
(* mpz_to_ruint: for (i = 0; i < NBLIMB; i++) { l = c.get_ui(); set_limb(a, l, i); c >>= 64; } *)
Fixpoint mpz_to_ruint_loop (k : nat) (n : nat) (i : Z) (c : Z) (a : ru k) : ru k :=
  match n with
  | O => a
  | S n' => mpz_to_ruint_loop k n' (i + 1) (Z.shiftr c 64) (set_limb k a (modW (Z.abs c)) i)
  end.
Definition mpz_to_ruint (k : nat) (b : Z) : ru k := mpz_to_ruint_loop k (Z.to_nat (nlimbs k)) 0 b (zero k).
Definition is_neg (k : nat) (a : ru k) : bool := highest_bit k a.
Definition mpz_to_rint (k : nat) (b : Z) : ru k :=
  if b <? 0 then neg k (mpz_to_ruint k (- b)) else mpz_to_ruint k b.
Definition rint_to_mpz (k : nat) (a : ru k) : Z :=
  if is_neg k a then - val k (neg k a) else val k a.

(* ---- signed rint<K> (a rint is stored as a ruint): rdiv.h, rmul.h, rcmp.h, rrint.h ---- *)
(* operator>>=(rint<K>&, count): arithmetic shift (repaired behaviour, frag/C06.fix-7.diff) *)
Definition sshr (k : nat) (a : ru k) (d : Z) : ru k :=
  if is_neg k a then lnot k (right_shift k (lnot k a) d) else right_shift k a d.
Definition sdiv_q (thr k : nat) (a b : ru k) : ru k :=
  if is_neg k a then
    if is_neg k b then fst (div thr k (neg k a) (neg k b))
    else neg k (fst (div thr k (neg k a) b))
  else
    if is_neg k b then neg k (fst (div thr k a (neg k b)))
    else fst (div thr k a b).
Definition sdiv_r (thr k : nat) (a b : ru k) : ru k :=
  if is_neg k a then neg k (snd (div thr k (neg k a) b)) else snd (div thr k a b).
Definition slmul (thr k : nat) (b c : ru k) : ru (S k) :=
  let p (x y : ru k) : ru (S k) := lmul thr k x y in
  if is_neg k b then
    if is_neg k c then p (neg k b) (neg k c) else neg (S k) (p (neg k b) c)
  else
    if is_neg k c then neg (S k) (p b (neg k c)) else p b c.
(* lsquare(rint<K+1>& a, const rint<K>& b): REPAIRED behaviour (frag/C06.fix-3.diff): the square of |b|;
   the code before the repair squares the raw bit pattern, which is wrong for b < 0 *)
Definition slsquare (thr k : nat) (b : ru k) : ru (S k) :=
  let p : ru (S k) := lsquare thr k (if is_neg k b then neg k b else b) in p.
Definition scmp (k : nat) (a b : ru k) : Z :=
  let pa := if is_neg k a then -1 else 1 in
  let pb := if is_neg k b then -1 else 1 in
  if pa =? pb then cmp k a b else pa.
(* rint(const rint<K-1>& rl): sign extension *)
Definition sext (k : nat) (rl : ru k) : ru (S k) :=
  if is_neg k rl then neg (S k) (neg k rl, zero k) else (rl, zero k).
Definition smod_n (thr k : nat) (b : ru (S k)) (c : ru k) : ru k :=
  if is_neg (S k) b then
    let a := mod_n thr k (neg (S k) b) c in
    if is_zero k a then a else fst (sub_c k c a)
  else mod_n thr k b c.
Definition sinv_mod (thr k : nat) (b c : ru k) : ru k :=
  if is_neg k b then inv_mod thr k (fst (sub_c k c (neg k b))) c else inv_mod thr k b c.

(* ---- Z-level wrappers: what is extracted and run against the implementation ---- *)
(* conversions used by the wrappers: same functions as of_Z / val (ProofsBase: of_Zb_eq, valb_eq), written with
   shifts so that the extracted code is linear in the operand size *)
Fixpoint of_Zb (k : nat) (z : Z) : ru k :=
  match k return ru k with
  | O => modW z
  | S k' => (of_Zb k' z, of_Zb k' (Z.shiftr z (nbits k')))
  end.
Fixpoint valb (k : nat) : ru k -> Z :=
  match k return ru k -> Z with
  | O => fun x => x
  | S k' => fun x => valb k' (fst x) + Z.shiftl (valb k' (snd x)) (nbits k')
  end.
Definition zb (b : bool) : Z := b2z b.
Definition IN := of_Zb.
Definition OUT := valb.
Definition o2 k (p : ru k * bool) := (OUT k (fst p), zb (snd p)).
Definition oo k (p : ru k * ru k) := (OUT k (fst p), OUT k (snd p)).
Definition cyb (cy : Z) := negb (cy =? 0).
Definition addZ k b c := o2 k (add_c k (IN k b) (IN k c)).
Definition add_wcZ k b c cy := o2 k (add_wc k (IN k b) (IN k c) (cyb cy)).
Definition add_wZ k b c := o2 k (add_w k (IN k b) (modW c)).
Definition add_1Z k b := o2 k (add_1 k (IN k b)).
Definition subZ k b c := o2 k (sub_c k (IN k b) (IN k c)).
Definition sub_wcZ k b c cy := o2 k (sub_wc k (IN k b) (IN k c) (cyb cy)).
Definition sub_wZ k b c := o2 k (sub_w k (IN k b) (modW c)).
Definition sub_1Z k b := o2 k (sub_1 k (IN k b)).
Definition cmpZ k a b := cmp k (IN k a) (IN k b).
Definition lmul_naiveZ thr k b c := oo k (lmul_naive thr k (IN k b) (IN k c)).
Definition lmul_karaZ thr k b c := oo k (lmul_kara thr k (IN k b) (IN k c)).
Definition lmulZ thr k b c := oo k (lmul thr k (IN k b) (IN k c)).
Definition laddmulZ thr k b c d := let '((l, h), r) := laddmul thr k (IN k b) (IN k c) (IN k d) in (OUT k l, OUT k h, zb r).
Definition laddmul2Z thr k b c d := let '((l, h), r) := laddmul2 thr k (IN k b) (IN k c) (IN (S k) d) in (OUT k l, OUT k h, zb r).
Definition mulZ thr k b c := OUT k (mul thr k (IN k b) (IN k c)).
Definition addmulZ thr k a b c := OUT k (addmul thr k (IN k a) (IN k b) (IN k c)).
Definition lmul_wZ k b c := let '(a, r) := lmul_w k (IN k b) (modW c) in (OUT k a, r).
Definition lsquareZ thr k b := oo k (lsquare thr k (IN k b)).
Definition squareZ thr k b := OUT k (square thr k (IN k b)).
(* bit operations *)
Definition lnotZ k a := OUT k (lnot k (IN k a)).
Definition negZ k a := OUT k (neg k (IN k a)).
Definition lorZ k a b := OUT k (lor_ k (IN k a) (IN k b)).
Definition lxorZ k a b := OUT k (lxor_ k (IN k a) (IN k b)).
Definition landZ k a b := OUT k (land_ k (IN k a) (IN k b)).
Definition lor_wZ k a c := OUT k (bitop_w Z.lor k (IN k a) (modW c)).
Definition lxor_wZ k a c := OUT k (bitop_w Z.lxor k (IN k a) (modW c)).
Definition land_wZ k a c := OUT k (land_w k (IN k a) (modW c)).
(* highest_bit, lowest_bit, set_highest_bit, set_lowest_bit, max_pow_two, fill_with_1 in one line *)
Definition bitsZ k a :=
  let x := IN k a in
  (zb (highest_bit k x), zb (lowest_bit k x), (OUT k (set_highest_bit k x), OUT k (set_lowest_bit k x)), (OUT k (max_pow_two k), OUT k (ones k))).
Definition limbZ k a l i := let x := IN k a in (OUT k (set_limb k x (modW l) i), get_limb k x i).
(* shifts *)
Definition shlZ k a d := OUT k (left_shift k (IN k a) d).
Definition shrZ k a d := OUT k (right_shift k (IN k a) d).
Definition shl1Z k a := o2 k (shl1 k (IN k a)).
Definition shr1Z k a := o2 k (shr1 k (IN k a)).
Definition shl_extZ k a d := OUT (S k) (left_shift_ext k (IN k a) d).
Definition normZ k a := normalization k (IN k a).
(* division *)
Definition udivZ n1 n0 d := udiv_qrnnd (modW n1) (modW n0) (modW d).
Definition div32Z thr k a2 a1 a0 b1 b0 :=
  let '(q, r1, r0) := div32 thr k (IN k a2) (IN k a1) (IN k a0) (IN k b1) (IN k b0) in (OUT k q, OUT k r1, OUT k r0).
Definition div21Z thr k ah al b := oo k (div21 thr k (IN k ah) (IN k al) (IN k b)).
Definition divZ thr k a b := oo k (div thr k (IN k a) (IN k b)).
Definition div_wZ thr k a b := let '(q, r) := div_w thr k (IN k a) (modW b) in (OUT k q, r).
Definition mod_nZ thr k b n := OUT k (mod_n thr k (IN (S k) b) (IN k n)).
Definition gcdZ thr k a b := OUT k (gcd thr k (IN k a) (IN k b)).
Definition inv_modZ thr k b c := OUT k (inv_mod thr k (IN k b) (IN k c)).
Definition bezout_modZ thr k c d := oo k (bezout_mod thr k (IN k c) (IN k d)).
Definition exp_modZ thr k b c n := OUT k (exp_mod thr k (IN k b) (IN k c) (IN k n)).
Definition exp_mod_wZ thr k b c n := OUT k (exp_mod_w thr k (IN k b) (modW c) (IN k n)).
Definition arazi_qiZ thr k a := OUT k (arazi_qi thr k (IN k a)).
(* conversions *)
Definition mpz_to_ruintZ k b := OUT k (mpz_to_ruint k b).
Definition mpz_to_rintZ k b := OUT k (mpz_to_rint k b).
Definition rint_to_mpzZ k a := rint_to_mpz k (IN k a).
(* signed *)
Definition sshrZ k a d := OUT k (sshr k (IN k a) d).
Definition sdiv_qZ thr k a b := OUT k (sdiv_q thr k (IN k a) (IN k b)).
Definition sdiv_rZ thr k a b := OUT k (sdiv_r thr k (IN k a) (IN k b)).
Definition slmulZ thr k b c := OUT (S k) (slmul thr k (IN k b) (IN k c)).
Definition slsquareZ thr k b := OUT (S k) (slsquare thr k (IN k b)).
Definition scmpZ k a b := scmp k (IN k a) (IN k b).
Definition sextZ k a := OUT (S k) (sext k (IN k a)).
Definition smod_nZ thr k b c := OUT k (smod_n thr k (IN (S k) b) (IN k c)).
Definition sinv_modZ thr k b c := OUT k (sinv_mod thr k (IN k b) (IN k c)).
