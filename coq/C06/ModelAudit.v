(* RecInt model (C06), fourth part (phase 4, audit response): the loops that Model.v abbreviates with a library function are
   written here as the code runs them, so that the theorems can see the loop structure:
   - exp_mod's exponent scan (ruexp.h: for every limb of the exponent, for (j = 1; j != 0; j <<= 1) if (limb & j) ..),
   - normalization's scan (rutools.h: limbs from the most significant one, a zero limb counts 64, otherwise a mask running
     from 2^63 downwards),
   - inv_mod with the FINAL gcd kept and the documented result for a non-invertible operand (ruinvmod.h:55: "a = 0"),
   - the limb div_3_2 with the number of quotient corrections it performs reported next to its result.
   No proofs in this file. *)
From Coq Require Import ZArith Bool List.
From C06 Require Import Model ModelNative.
Local Open Scope Z_scope.

(* ---- ruexp.h: the inner loop over one limb l of the exponent: j = 1, 2, 4, .. until j wraps to 0 ---- *)
Fixpoint exp_bits (thr k : nat) (fuel : nat) (j l : Z) (ax : ru k * ru k) (n : ru k) : ru k * ru k :=
  match fuel with
  | O => ax
  | S f =>
      if j =? 0 then ax
      else
        let a := if negb (Z.land l j =? 0) then mod_n thr k (lmul thr k (fst ax) (snd ax)) n else fst ax in
        let x := mod_n thr k (lsquare thr k (snd ax)) n in
        exp_bits thr k f (modW (2 * j)) l (a, x) n
  end.
(* the outer loop over pointers_list(tab, c): limbs lowest first *)
Fixpoint exp_limbs (thr k : nat) (ls : list Z) (ax : ru k * ru k) (n : ru k) : ru k * ru k :=
  match ls with
  | nil => ax
  | l :: r => exp_limbs thr k r (exp_bits thr k 65 1 l ax n) n
  end.
Definition exp_mod_scan (thr k : nat) (b c n : ru k) : ru k :=
  fst (exp_limbs thr k (limbs k c) (exp_start k n, b) n).

(* ---- rutools.h: normalization(d, b) ---- *)
Fixpoint norm_mask (fuel : nat) (mask l d : Z) : Z :=
  match fuel with
  | O => d
  | S f => if mask =? 0 then d else if negb (Z.land l mask =? 0) then d else norm_mask f (Z.shiftr mask 1) l (d + 1)
  end.
Fixpoint norm_limbs (ls : list Z) (d : Z) : Z :=
  match ls with
  | nil => d
  | l :: r => if l =? 0 then norm_limbs r (d + 64) else norm_mask 65 9223372036854775808 l d
  end.
Definition normalization_scan (k : nat) (b : ru k) : Z := norm_limbs (rev (limbs k b)) 0.

(* ---- ruinvmod.h: inv_mod keeping a2 (the gcd when the loop ends); if (a2 != 1) reset(a) [frag/C06.fix-14.diff] ---- *)
Fixpoint inv_mod_loop2 (thr k : nat) (fuel : nat) (a x a2 b2 c : ru k) : ru k * ru k :=
  match fuel with
  | O => (a, a2)
  | S f =>
      if is_zero k b2 then (a, a2)
      else let '(q, r) := div thr k a2 b2 in
           inv_mod_loop2 thr k f x (bezout_update thr k q x a c c) b2 r c
  end.
Definition inv_mod_doc (thr k : nat) (b c : ru k) : ru k :=
  let '(a, g) := inv_mod_loop2 thr k (euclid_fuel k) (of_Z k 1) (zero k) b c c in
  if cmp_si k g 1 =? 0 then a else reset k a.
Definition sinv_mod_doc (thr k : nat) (b c : ru k) : ru k :=
  if is_neg k b then inv_mod_doc thr k (fst (sub_c k c (neg k b))) c else inv_mod_doc thr k b c.

(* ---- rudiv.h: div_3_2 for ruint<6>, the same statements as Model.div32_0, plus the number of corrections taken ---- *)
Definition div32_0_tr (a2 a1 a0 b1 b0 : Z) : (Z * Z * Z) * Z :=
  let '(q, c, ret) :=
    if a2 <? b1 then let '(q, c) := udiv_qrnnd a2 a1 b1 in (q, c, false)
    else let c := modW (a1 + b1) in (Wm1, c, c <? a1) in
  let '(d1, d0) := umul_ppmm q b0 in
  let '(r1, r0) := sub_ddmmss c a0 d1 d0 in
  if negb ret && ((c <? d1) || ((d1 =? c) && (a0 <? d0))) then
    let q := modW (q - 1) in
    let r0 := modW (r0 + b0) in
    let r1 := modW (r1 + b1) in
    let r1 := if r0 <? b0 then modW (r1 + 1) else r1 in
    if (b1 <? r1) || ((r1 =? b1) && (b0 <=? r0)) then
      let q := modW (q - 1) in
      let r0 := modW (r0 + b0) in
      let r1 := modW (r1 + b1) in
      let r1 := if r0 <? b0 then modW (r1 + 1) else r1 in
      ((q, r1, r0), 2)
    else ((q, r1, r0), 1)
  else ((q, r1, r0), 0).

Definition exp_mod_scanZ thr k b c n := OUT k (exp_mod_scan thr k (IN k b) (IN k c) (IN k n)).
Definition normalization_scanZ k b := normalization_scan k (IN k b).
Definition inv_mod_docZ thr k b c := OUT k (inv_mod_doc thr k (IN k b) (IN k c)).
Definition sinv_mod_docZ thr k b c := OUT k (sinv_mod_doc thr k (IN k b) (IN k c)).
Definition div32_trZ a2 a1 a0 b1 b0 := snd (div32_0_tr (modW a2) (modW a1) (modW a0) (modW b1) (modW b0)).
