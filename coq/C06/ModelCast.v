(* RecInt model (C06): rrint.h, operator T() of rint<K> for a FLOATING T as repaired in /repo d984652:
     (is_floating_point<T> && isNegative()) ? static_cast<T>(-static_cast<T>(-Value)) : static_cast<T>(Value)
   static_cast<T>(ruint) is T(Low) .. T(Value): the lowest limb.  scast_flt is the INTEGER that is then converted to T (the
   rounding to T's mantissa is the compiler's).  For an integral T the cast is that of the bit pattern (ModelNative.cast_u/_s).
   No proofs in this file. *)
From Coq Require Import ZArith.
From C06 Require Import Model ModelNative.
Local Open Scope Z_scope.

Definition scast_flt (k : nat) (a : ru k) : Z :=
  if is_neg k a then - low_limb k (neg k a) else low_limb k a.
Definition scast_fltZ k a := scast_flt k (IN k a).
