(* RecInt model (C06), third part: the shifts with the count conversions of the code made explicit, addmul with a word.
   rushift.h:  const DItype defect((DItype)NBBITS<K-1>::value - (DItype)d);  if (d == 0) .. else if (d == 1) .. else if
   (UDItype(d) > NBBITS<K>::value) reset(b); else if (defect > 0) .. else if (defect < 0) .. else ..
   The count d is the value of a native integer (0 <= d < 2^64); (DItype)d is its reading as a signed 64-bit integer.
   No proofs in this file. *)
From Coq Require Import ZArith Bool.
From C06 Require Import Model.
Local Open Scope Z_scope.

Definition as_DI (d : Z) : Z := if d <? 9223372036854775808 then d else d - 18446744073709551616.

Fixpoint shifts_cnt (k : nat) : (ru k -> Z -> ru k) * (ru k -> Z -> ru k) :=
  match k return (ru k -> Z -> ru k) * (ru k -> Z -> ru k) with
  | O => (shl_limb, shr_limb)
  | S k' =>
      let shl' := fst (shifts_cnt k') in
      let shr' := snd (shifts_cnt k') in
      let nb := nbits k' in
      (fun a d =>
         let defect := nb - as_DI d in
         if d =? 0 then a
         else if d =? 1 then fst (shl1 (S k') a)
         else if 2 * nb <? d then zero (S k')
         else if 0 <? defect then (shl' (fst a) d, lor_ k' (shr' (fst a) defect) (shl' (snd a) d))
         else if defect <? 0 then (zero k', shl' (fst a) (- defect))
         else (zero k', fst a),
       fun a d =>
         let defect := nb - as_DI d in
         if d =? 0 then a
         else if d =? 1 then fst (shr1 (S k') a)
         else if 2 * nb <? d then zero (S k')
         else if 0 <? defect then (lor_ k' (shl' (snd a) defect) (shr' (fst a) d), shr' (snd a) d)
         else if defect <? 0 then (shr' (snd a) (- defect), zero k')
         else (snd a, zero k'))
  end.
Definition left_shift_cnt (k : nat) := fst (shifts_cnt k).
Definition right_shift_cnt (k : nat) := snd (shifts_cnt k).

(* ruaddmul.h: addmul(a, b, UDItype c): ruint<K> bc; mul(bc, b, c); add(a, bc); *)
Definition addmul_w (k : nat) (a b : ru k) (c : Z) : ru k := fst (add_c k a (fst (lmul_w k b c))).

Definition shl_cntZ k a d := OUT k (left_shift_cnt k (IN k a) d).
Definition shr_cntZ k a d := OUT k (right_shift_cnt k (IN k a) d).
Definition addmul_wZ k a b c := OUT k (addmul_w k (IN k a) (IN k b) (modW c)).
