(* RecInt model (C06), second part: the overloads that take a NATIVE operand (bool, intN_t, uintN_t, long, double
   holding an integer), the constructors and casts from/to native types, the conversions from/to GMP integers written
   with the PREVIOUS contents of the destination as an explicit argument, and the rint<K> forms with a native operand.
   Written after rucmp.h, ruadd.h, rusub.h, rumul.h, rudiv.h, ruruint.h, rrint.h, rcmp.h, rdiv.h, ruconvert.h,
   rconvert.h, rumanip.h.  No proofs in this file.
   A native operand is the mathematical integer c it holds; `limb(c)` / `(UWtype)(c)` is c mod 2^64 (sign extension). *)
From Coq Require Import ZArith Bool List.
From C06 Require Import Model.
Local Open Scope Z_scope.

(* ---- rucmp.h: cmp(ruint<K>, T) ---- *)
(* signed T:   if (b < 0) return 1; else if (a.High == 0) return cmp(a.Low, b); else return 1;
   (a.High == 0 is itself cmp(a.High, int(0)) == 0);  ruint<6>: compare a.Value with limb(b) *)
Fixpoint cmp_si (k : nat) : ru k -> Z -> Z :=
  match k return ru k -> Z -> Z with
  | O => fun a b => if b <? 0 then 1 else let lb := modW b in if a <? lb then -1 else if a =? lb then 0 else 1
  | S k' => fun a b => if b <? 0 then 1 else if cmp_si k' (snd a) 0 =? 0 then cmp_si k' (fst a) b else 1
  end.
(* unsigned T: if (a.High == 0) return cmp(a.Low, b); else return 1 *)
Fixpoint cmp_w (k : nat) : ru k -> Z -> Z :=
  match k return ru k -> Z -> Z with
  | O => fun a b => if a <? b then -1 else if a =? b then 0 else 1
  | S k' => fun a b => if cmp_si k' (snd a) 0 =? 0 then cmp_w k' (fst a) b else 1
  end.

(* ---- ruruint.h: constructors from a native value, casts to a native type ---- *)
(* unsigned T:  ruint(const T b) : Low(b) {}    (High is default-constructed: every limb 0) *)
Fixpoint ctor_u (k : nat) (c : Z) : ru k :=
  match k return ru k with O => modW c | S k' => (ctor_u k' c, zero k') end.
(* signed T (and double):  ruint(const T b) : Low((b < 0)? -b : b) { if (b < 0) *this = -*this; }   ruint<6>: Value(limb(b)) *)
Fixpoint ctor_s (k : nat) (c : Z) : ru k :=
  match k return ru k with
  | O => modW c
  | S k' => let x : ru (S k') := (ctor_s k' (Z.abs c), zero k') in if c <? 0 then neg (S k') x else x
  end.
(* operator T() const { return T(Low); } ... { return T(Value); }: the lowest limb, then the C++ integral conversion *)
Fixpoint low_limb (k : nat) : ru k -> Z :=
  match k return ru k -> Z with O => fun a => a | S k' => fun a => low_limb k' (fst a) end.
Definition wrap_u (bits x : Z) : Z := Z.land x (Z.ones bits).
Definition wrap_s (bits x : Z) : Z := let u := wrap_u bits x in if Z.testbit u (bits - 1) then u - Z.shiftl 1 bits else u.
Definition cast_u (bits : Z) (k : nat) (a : ru k) : Z := wrap_u bits (low_limb k a).
Definition cast_s (bits : Z) (k : nat) (a : ru k) : Z := wrap_s bits (low_limb k a).
(* operator bool() const { return (High != 0) || (Low != 0); } *)
Definition cast_bool (k : nat) : ru k -> bool :=
  match k return ru k -> bool with
  | O => fun a => negb (a =? 0)
  | S k' => fun a => negb (cmp_si k' (snd a) 0 =? 0) || negb (cmp_si k' (fst a) 0 =? 0)
  end.

(* ---- operator forms of ruint<K> with a SIGNED native operand (ruadd.h, rusub.h, rumul.h, rudiv.h) ---- *)
(* a + c, c + a, a += c:   if (c < 0) sub(a, b, -c); else add(a, b, c); *)
Definition op_add_si (k : nat) (b : ru k) (c : Z) : ru k :=
  if c <? 0 then fst (sub_w k b (modW (- c))) else fst (add_w k b (modW c)).
(* a - c, a -= c:          if (c < 0) add(a, b, -c); else sub(a, b, c); *)
Definition op_sub_si (k : nat) (b : ru k) (c : Z) : ru k :=
  if c <? 0 then fst (add_w k b (modW (- c))) else fst (sub_w k b (modW c)).
(* c - a:                  the same, then return -a *)
Definition op_rsub_si (k : nat) (b : ru k) (c : Z) : ru k := neg k (op_sub_si k b c).
(* a * c, c * a, a *= c:   if (c < 0) return -mul(a, b, -c); else return mul(a, b, c);   mul(a, b, T c) is lmul(ret, a, b, c) *)
Definition op_mul_si (k : nat) (b : ru k) (c : Z) : ru k :=
  if c <? 0 then neg k (fst (lmul_w k b (modW (- c)))) else fst (lmul_w k b (modW c)).
(* div_q(q, a, T b):       ruint<K> r, bb(b); div(q, r, a, bb);      (the constructor is the signed or the unsigned one) *)
Definition div_q_u (thr k : nat) (a : ru k) (c : Z) : ru k := fst (div thr k a (ctor_u k c)).
Definition div_q_s (thr k : nat) (a : ru k) (c : Z) : ru k := fst (div thr k a (ctor_s k c)).
(* a / c, a /= c (signed): if (c < 0) { div_q(a, b, -c); return (a = -a); } else return div_q(a, b, c); *)
Definition op_div_si (thr k : nat) (b : ru k) (c : Z) : ru k :=
  if c <? 0 then neg k (div_q_s thr k b (- c)) else div_q_s thr k b c.
(* a % c (c > 0): T aa; div_r(aa, b, c); return (a = aa):  div(q, T& r, a, T b) [the b == 2 path of div_w], then the remainder
   goes through T and back through the constructor *)
Definition op_mod_w (thr k : nat) (b : ru k) (c : Z) : ru k := ctor_u k (snd (div_w thr k b c)).
(* a | c, a ^ c, a & c with a signed operand: limb(c) is the sign-extended word *)
Definition op_lor_si (k : nat) (b : ru k) (c : Z) : ru k := bitop_w Z.lor k b (modW c).
Definition op_lxor_si (k : nat) (b : ru k) (c : Z) : ru k := bitop_w Z.lxor k b (modW c).
Definition op_land_si (k : nat) (b : ru k) (c : Z) : ru k := land_w k b (modW c).

(* ---- rumanip.h: reset, copy; ruconvert.h / rconvert.h with the previous destination made explicit ---- *)
Fixpoint reset (k : nat) : ru k -> ru k :=
  match k return ru k -> ru k with
  | O => fun _ => 0
  | S k' => fun a => let h := reset k' (snd a) in let l := reset k' (fst a) in (l, h)
  end.
(* mpz_to_ruint(a, b): reset(a); for (i = 0; i < NBLIMB<K>::value; i++) { set_limb(a, c.get_ui(), i); c >>= 64; } *)
Definition mpz_to_ruint_into (k : nat) (prev : ru k) (b : Z) : ru k :=
  mpz_to_ruint_loop k (Z.to_nat (nlimbs k)) 0 b (reset k prev).
(* the loop alone, started on an arbitrary destination (what is left when the reset is dropped) *)
Definition mpz_to_ruint_noreset (k : nat) (prev : ru k) (b : Z) : ru k :=
  mpz_to_ruint_loop k (Z.to_nat (nlimbs k)) 0 b prev.
(* mpz_to_rint(a, b): if (b < 0) { mpz_to_ruint(a.Value, -b); a.Value = -a.Value; } else mpz_to_ruint(a.Value, b); *)
Definition mpz_to_rint_into (k : nat) (prev : ru k) (b : Z) : ru k :=
  if b <? 0 then neg k (mpz_to_ruint_into k prev (- b)) else mpz_to_ruint_into k prev b.
(* ruint_to_mpz(a, b): mpz_import(a, NBLIMB<K>::value, -1, sizeof(limb), 0, 0, begin(b)): the limbs of b, lowest first,
   are read from memory; the previous value (and sign) of the mpz a is overwritten by mpz_import *)
Fixpoint limbs (k : nat) : ru k -> list Z :=
  match k return ru k -> list Z with
  | O => fun a => a :: nil
  | S k' => fun a => limbs k' (fst a) ++ limbs k' (snd a)
  end.
Definition mpz_import_le (l : list Z) : Z := fold_right (fun x acc => x + W * acc) 0 l.
Definition ruint_to_mpz_into (k : nat) (prev : Z) (b : ru k) : Z := mpz_import_le (limbs k b).
(* rint_to_mpz(a, b): if (b.isNegative()) { ruint_to_mpz(a, -b.Value); a = -a; } else ruint_to_mpz(a, b.Value); *)
Definition rint_to_mpz_into (k : nat) (prev : Z) (b : ru k) : Z :=
  if is_neg k b then - ruint_to_mpz_into k prev (neg k b) else ruint_to_mpz_into k prev b.

(* ---- rint<K> with a native operand (rcmp.h, radd.h, rsub.h, rmul.h, rdiv.h, rrint.h) ---- *)
(* cmp(rint, unsigned T):  if (a.isNegative()) return -1; else return cmp(a.Value, b); *)
Definition scmp_w (k : nat) (a : ru k) (c : Z) : Z := if is_neg k a then -1 else cmp_w k a c.
(* cmp(rint, signed T):    posA != posB -> posA;  both >= 0 -> cmp(a.Value, b);  both < 0 -> cmp(a, rint<K>(b)) *)
Definition scmp_si (k : nat) (a : ru k) (c : Z) : Z :=
  let pa := if is_neg k a then -1 else 1 in
  let pb := if c <? 0 then -1 else 1 in
  if negb (pa =? pb) then pa else if 0 <? pa then cmp_si k a c else scmp k a (ctor_s k c).
(* rint(const T& b) : Value(b): the ruint constructor; a += c / a -= c / a * c on rint are the ruint operator forms on the
   bit pattern (op_add_si, op_sub_si, op_mul_si) *)
(* div_q(rint& q, const rint& a, const T& b): four sign cases, the quotient of the absolute values, negated when the signs differ *)
Definition sdiv_q_si (thr k : nat) (a : ru k) (c : Z) : ru k :=
  if is_neg k a then
    if c <? 0 then div_q_s thr k (neg k a) (- c) else neg k (div_q_s thr k (neg k a) c)
  else
    if c <? 0 then neg k (div_q_s thr k a (- c)) else div_q_s thr k a c.
(* mod_n(rint& a, const rint& n): a = a mod n (same size), the result in [0, n) *)
Definition smod_n1 (thr k : nat) (a n : ru k) : ru k :=
  if is_neg k a then
    let nega := snd (div thr k (neg k a) n) in
    if is_zero k nega then reset k a else fst (sub_c k n nega)
  else snd (div thr k a n).

(* ---- ruexp.h: exp_mod(a, b, T c, n) with an unsigned native exponent: for (j = 1; j != 0; j <<= 1), j of type T ---- *)
Definition exp_mod_n (bits : Z) (thr k : nat) (b : ru k) (c : Z) (n : ru k) : ru k :=
  exp_loop thr k (Z.to_nat bits) 0 c (exp_start k n) b n.

(* ---- rudisplay.h: display_dec: repeated division by the limb 10, digits stored lowest first, printed highest first ---- *)
Fixpoint dec_loop (thr k : nat) (fuel : nat) (b : ru k) (acc : list Z) : list Z :=
  match fuel with
  | O => acc
  | S f => if is_zero k b then acc else let '(q, m) := div_w thr k b 10 in dec_loop thr k f q (m :: acc)
  end.
Definition dec_size (k : nat) : nat := Z.to_nat (nbits k / 3 + 2).        (* char result[(size_t(1) << K) / 3 + 2] *)
Definition display_dec (thr k : nat) (a : ru k) : list Z :=
  if is_zero k a then 0 :: nil else dec_loop thr k (dec_size k) a nil.
Definition dec_value (l : list Z) : Z := fold_left (fun acc d => 10 * acc + d) l 0.

(* ---- rumanip.h: maxCardinality, maxElement, maxFFLAS (c31 = __RECINT_THIRTYONEPOINTFIVE, read from the source) ---- *)
Definition max_card (k : nat) : ru k :=
  match k return ru k with
  | O => shl_limb 1 32                                   (* ruint<6> max(1); max <<= (1u << 5) *)
  | S k' => (zero k', ctor_s k' 1)                       (* ruint<K> max; max.High = 1 *)
  end.
Fixpoint max_elem (k : nat) : ru k :=
  match k return ru k with O => Wm1 | S k' => (ones k', max_elem k') end.
Definition max_fflas (c31 : Z) (k : nat) : ru k :=
  match k return ru k with
  | O => ctor_u 0 c31
  | S k' => fst (lmul_w (S k') (left_shift (S k') (ctor_s (S k') 1) (nbits k' - 32)) (modW c31))
  end.

(* ---- Z-level wrappers for the correspondence run ---- *)
Definition cmp_siZ k a c := cmp_si k (IN k a) c.
Definition cmp_wZ k a c := cmp_w k (IN k a) c.
Definition ctor_uZ k c := OUT k (ctor_u k c).
Definition ctor_sZ k c := OUT k (ctor_s k c).
Definition castZ k a := let x := IN k a in
  ((cast_u 8 k x, cast_u 16 k x), (cast_u 32 k x, cast_u 64 k x), ((cast_s 8 k x, cast_s 16 k x), (cast_s 32 k x, cast_s 64 k x)), zb (cast_bool k x)).
Definition op_add_siZ k b c := OUT k (op_add_si k (IN k b) c).
Definition op_sub_siZ k b c := OUT k (op_sub_si k (IN k b) c).
Definition op_rsub_siZ k b c := OUT k (op_rsub_si k (IN k b) c).
Definition op_mul_siZ k b c := OUT k (op_mul_si k (IN k b) c).
Definition op_div_siZ thr k b c := OUT k (op_div_si thr k (IN k b) c).
Definition div_q_uZ thr k b c := OUT k (div_q_u thr k (IN k b) c).
Definition op_mod_wZ thr k b c := OUT k (op_mod_w thr k (IN k b) c).
Definition op_lor_siZ k b c := OUT k (op_lor_si k (IN k b) c).
Definition op_lxor_siZ k b c := OUT k (op_lxor_si k (IN k b) c).
Definition op_land_siZ k b c := OUT k (op_land_si k (IN k b) c).
Definition mpz_to_ruint_intoZ k prev b := (OUT k (mpz_to_ruint_into k (IN k prev) b), OUT k (mpz_to_ruint_noreset k (IN k prev) b)).
Definition mpz_to_rint_intoZ k prev b := OUT k (mpz_to_rint_into k (IN k prev) b).
Definition ruint_to_mpz_intoZ k prev b := ruint_to_mpz_into k prev (IN k b).
Definition rint_to_mpz_intoZ k prev b := rint_to_mpz_into k prev (IN k b).
Definition scmp_wZ k a c := scmp_w k (IN k a) c.
Definition scmp_siZ k a c := scmp_si k (IN k a) c.
Definition sdiv_q_siZ thr k a c := OUT k (sdiv_q_si thr k (IN k a) c).
Definition smod_n1Z thr k a n := OUT k (smod_n1 thr k (IN k a) (IN k n)).
(* the size constants the code derives by template recursion (NBLIMB<K>, NBBITS<K>): printed by the compiled harness on
   every run and compared with these *)
Definition sizesZ k := (nlimbs k, nbits k).
Definition exp_mod_nZ bits thr k b c n := OUT k (exp_mod_n bits thr k (IN k b) c (IN k n)).
Definition display_decZ thr k a := display_dec thr k (IN k a).
Definition maxconstZ c31 k := (OUT k (max_card k), (OUT k (max_elem k), OUT k (max_fflas c31 k))).
