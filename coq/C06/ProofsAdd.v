(* add / sub families: exact carries and borrows for every K (induction on k = K-6). *)
From Coq Require Import ZArith Lia Bool.
From C06 Require Import Model ProofsBase.
Local Open Scope Z_scope.
Ltac Zify.zify_post_hook ::= Z.div_mod_to_equations.

Lemma b2z_range b : 0 <= b2z b <= 1. Proof. destruct b; cbn; lia. Qed.

Ltac limb_cases :=
  repeat match goal with
         | |- context[Z.ltb ?a ?b] => destruct (Z.ltb_spec a b)
         | |- context[Z.leb ?a ?b] => destruct (Z.leb_spec a b)
         | |- context[Z.eqb ?a ?b] => destruct (Z.eqb_spec a b)
         end.

(* the two-limb primitives *)
Lemma add_ssaaaa_spec ah al bh bl :
  0 <= ah < W -> 0 <= al < W -> 0 <= bh < W -> 0 <= bl < W ->
  let '(h, l) := add_ssaaaa ah al bh bl in
  0 <= h < W /\ 0 <= l < W /\ l + W * h = (al + W * ah + bl + W * bh) mod (W * W).
Proof.
  intros. unfold add_ssaaaa. rewrite ?modW_eq, ?divW_eq in *; rewrite W_eq in *.
  destruct (Z.ltb_spec ((al + bl) mod 18446744073709551616) al); cbn [b2z]; repeat split; lia.
Qed.

Lemma sub_ddmmss_spec ah al bh bl :
  0 <= ah < W -> 0 <= al < W -> 0 <= bh < W -> 0 <= bl < W ->
  let '(h, l) := sub_ddmmss ah al bh bl in
  0 <= h < W /\ 0 <= l < W /\ l + W * h = (al + W * ah - (bl + W * bh)) mod (W * W).
Proof.
  intros. unfold sub_ddmmss. rewrite ?modW_eq, ?divW_eq in *; rewrite W_eq in *.
  destruct (Z.ltb_spec al bl); cbn [b2z]; repeat split; lia.
Qed.

(* how a result pair is combined from the specs of its halves *)
Lemma combine_add k (lo hi bl bh cl ch : Z) (r1 r2 cy : Z) :
  lo + B k * r1 = bl + cl + cy ->
  hi + B k * r2 = bh + ch + r1 ->
  (lo + B k * hi) + B (S k) * r2 = (bl + B k * bh) + (cl + B k * ch) + cy.
Proof. intros. rewrite B_S. nia. Qed.

Lemma combine_sub k (lo hi bl bh cl ch : Z) (r1 r2 cy : Z) :
  lo - B k * r1 = bl - cl - cy ->
  hi - B k * r2 = bh - ch - r1 ->
  (lo + B k * hi) - B (S k) * r2 = (bl + B k * bh) - (cl + B k * ch) - cy.
Proof. intros. rewrite B_S. nia. Qed.

Lemma combine_add2 k (lo hi r1 r2 X Y : Z) :
  lo + B k * r1 = X -> hi + B k * r2 = Y + r1 ->
  (lo + B k * hi) + B (S k) * r2 = X + B k * Y.
Proof. intros. rewrite B_S. nia. Qed.

Lemma add_wc_spec k : forall b c cy, wf k b -> wf k c ->
  wf k (fst (add_wc k b c cy)) /\
  val k (fst (add_wc k b c cy)) + B k * b2z (snd (add_wc k b c cy)) = val k b + val k c + b2z cy.
Proof.
  induction k as [|k IH]; intros b c cy Hb Hc.
  - cbn [add_wc wf val B] in *. rewrite ?modW_eq, ?divW_eq in *; rewrite W_eq in *.
    destruct cy; cbn [fst snd b2z]; limb_cases; cbn [b2z]; lia.
  - destruct k as [|k].
    + (* ruint<7> *)
      destruct b as [bl bh], c as [cl ch]. destruct Hb as [Hb1 Hb2], Hc as [Hc1 Hc2].
      cbn [wf fst snd] in *.
      cbn [add_wc fst snd].
      pose proof (add_ssaaaa_spec bh bl ch cl Hb2 Hb1 Hc2 Hc1) as H1.
      destruct (add_ssaaaa bh bl ch cl) as [h l]. destruct H1 as (Hh & Hl & E).
      destruct cy.
      * assert (H0 : 0 <= 0 < W) by (pose proof W_pos; lia).
        assert (H01 : 0 <= 1 < W) by (rewrite W_eq; lia).
        pose proof (add_ssaaaa_spec h l 0 1 Hh Hl H0 H01) as H2.
        destruct (add_ssaaaa h l 0 1) as [h' l']. destruct H2 as (Hh' & Hl' & E').
        cbn [fst snd]. split; [cbn [wf fst snd]; auto|].
        rewrite le_spec by (cbn [wf fst snd]; auto).
        rewrite !val_S. cbn [val fst snd B b2z]. rewrite ?modW_eq, ?divW_eq in *; rewrite W_eq in *.
        destruct (Z.leb_spec (l' + 18446744073709551616 * h') (bl + 18446744073709551616 * bh)); cbn [b2z]; lia.
      * cbn [fst snd]. split; [cbn [wf fst snd]; auto|].
        rewrite lt_spec by (cbn [wf fst snd]; auto).
        rewrite !val_S. cbn [val fst snd B b2z]. rewrite ?modW_eq, ?divW_eq in *; rewrite W_eq in *.
        destruct (Z.ltb_spec (l + 18446744073709551616 * h) (bl + 18446744073709551616 * bh)); cbn [b2z]; lia.
    + (* generic recursion *)
      destruct b as [bl bh], c as [cl ch]. destruct Hb as [Hb1 Hb2], Hc as [Hc1 Hc2].
      cbn [fst snd] in *.
      change (add_wc (S (S k)) (bl, bh) (cl, ch) cy) with
        (let '(lo, r1) := add_wc (S k) bl cl cy in
         let '(hi, r2) := add_wc (S k) bh ch r1 in ((lo, hi), r2)).
      pose proof (IH bl cl cy Hb1 Hc1) as [W1 E1].
      destruct (add_wc (S k) bl cl cy) as [lo r1]. cbn [fst snd] in *.
      pose proof (IH bh ch r1 Hb2 Hc2) as [W2 E2].
      destruct (add_wc (S k) bh ch r1) as [hi r2]. cbn [fst snd] in *.
      split; [split; assumption|].
      rewrite (val_S (S k) (lo, hi)), (val_S (S k) (bl, bh)), (val_S (S k) (cl, ch)). cbn [fst snd].
      apply combine_add with (r1 := b2z r1); assumption.
Qed.

Lemma add_c_spec k : forall b c, wf k b -> wf k c ->
  wf k (fst (add_c k b c)) /\
  val k (fst (add_c k b c)) + B k * b2z (snd (add_c k b c)) = val k b + val k c.
Proof.
  induction k as [|k IH]; intros b c Hb Hc.
  - cbn [add_c wf val B fst snd] in *. rewrite ?modW_eq, ?divW_eq in *; rewrite W_eq in *. limb_cases; cbn [b2z]; lia.
  - destruct k as [|k].
    + destruct b as [bl bh], c as [cl ch]. destruct Hb as [Hb1 Hb2], Hc as [Hc1 Hc2].
      cbn [wf fst snd] in *. cbn [add_c fst snd].
      pose proof (add_ssaaaa_spec bh bl ch cl Hb2 Hb1 Hc2 Hc1) as H1.
      destruct (add_ssaaaa bh bl ch cl) as [h l]. destruct H1 as (Hh & Hl & E).
      cbn [fst snd]. split; [cbn [wf fst snd]; auto|].
      rewrite lt_spec by (cbn [wf fst snd]; auto).
      rewrite !val_S. cbn [val fst snd B b2z]. rewrite ?modW_eq, ?divW_eq in *; rewrite W_eq in *.
      destruct (Z.ltb_spec (l + 18446744073709551616 * h) (bl + 18446744073709551616 * bh)); cbn [b2z]; lia.
    + destruct b as [bl bh], c as [cl ch]. destruct Hb as [Hb1 Hb2], Hc as [Hc1 Hc2].
      cbn [fst snd] in *.
      change (add_c (S (S k)) (bl, bh) (cl, ch)) with
        (let '(lo, r1) := add_c (S k) bl cl in
         let '(hi, r2) := add_wc (S k) bh ch r1 in ((lo, hi), r2)).
      pose proof (IH bl cl Hb1 Hc1) as [W1 E1].
      destruct (add_c (S k) bl cl) as [lo r1]. cbn [fst snd] in *.
      pose proof (add_wc_spec (S k) bh ch r1 Hb2 Hc2) as [W2 E2].
      destruct (add_wc (S k) bh ch r1) as [hi r2]. cbn [fst snd] in *.
      split; [split; assumption|].
      rewrite (val_S (S k) (lo, hi)), (val_S (S k) (bl, bh)), (val_S (S k) (cl, ch)). cbn [fst snd].
      replace (val (S k) bl + B (S k) * val (S k) bh + (val (S k) cl + B (S k) * val (S k) ch))
        with (val (S k) bl + B (S k) * val (S k) bh + (val (S k) cl + B (S k) * val (S k) ch) + 0) by lia.
      apply combine_add with (r1 := b2z r1); lia.
Qed.

Lemma add_w_spec k : forall b c, wf k b -> 0 <= c < W ->
  wf k (fst (add_w k b c)) /\
  val k (fst (add_w k b c)) + B k * b2z (snd (add_w k b c)) = val k b + c.
Proof.
  induction k as [|k IH]; intros b c Hb Hc.
  - cbn [add_w wf val B fst snd] in *. rewrite ?modW_eq, ?divW_eq in *; rewrite W_eq in *. limb_cases; cbn [b2z]; lia.
  - destruct k as [|k].
    + destruct b as [bl bh]. destruct Hb as [Hb1 Hb2].
      cbn [wf fst snd] in *. cbn [add_w fst snd].
      assert (H0 : 0 <= 0 < W) by (pose proof W_pos; lia).
      pose proof (add_ssaaaa_spec bh bl 0 c Hb2 Hb1 H0 Hc) as H1.
      destruct (add_ssaaaa bh bl 0 c) as [h l]. destruct H1 as (Hh & Hl & E).
      cbn [fst snd]. split; [cbn [wf fst snd]; auto|].
      rewrite !val_S. cbn [val fst snd B b2z]. rewrite ?modW_eq, ?divW_eq in *; rewrite W_eq in *.
      limb_cases; cbn [b2z]; lia.
    + destruct b as [bl bh]. destruct Hb as [Hb1 Hb2].
      cbn [fst snd] in *.
      change (add_w (S (S k)) (bl, bh) c) with
        (let '(lo, r1) := add_w (S k) bl c in
         let '(hi, r2) := add_w (S k) bh (b2z r1) in ((lo, hi), r2)).
      pose proof (IH bl c Hb1 Hc) as [W1 E1].
      destruct (add_w (S k) bl c) as [lo r1]. cbn [fst snd] in *.
      assert (Hr : 0 <= b2z r1 < W) by (rewrite W_eq; destruct r1; cbn; lia).
      pose proof (IH bh (b2z r1) Hb2 Hr) as [W2 E2].
      destruct (add_w (S k) bh (b2z r1)) as [hi r2]. cbn [fst snd] in *.
      split; [split; assumption|].
      rewrite (val_S (S k) (lo, hi)), (val_S (S k) (bl, bh)). cbn [fst snd].
      match goal with |- _ = ?a + ?b * ?c + ?d => replace (a + b * c + d) with ((a + d) + b * c) by lia end.
      apply combine_add2 with (r1 := b2z r1); assumption.
Qed.

Lemma add_1_spec k : forall b, wf k b ->
  wf k (fst (add_1 k b)) /\
  val k (fst (add_1 k b)) + B k * b2z (snd (add_1 k b)) = val k b + 1.
Proof.
  induction k as [|k IH]; intros b Hb.
  - cbn [add_1 wf val B fst snd] in *. rewrite ?modW_eq, ?divW_eq in *; rewrite W_eq in *. limb_cases; cbn [b2z]; lia.
  - destruct k as [|k].
    + destruct b as [bl bh]. destruct Hb as [Hb1 Hb2].
      cbn [wf fst snd] in *. cbn [add_1 fst snd].
      assert (H0 : 0 <= 0 < W) by (pose proof W_pos; lia).
      assert (H01 : 0 <= 1 < W) by (rewrite W_eq; lia).
      pose proof (add_ssaaaa_spec bh bl 0 1 Hb2 Hb1 H0 H01) as H1.
      destruct (add_ssaaaa bh bl 0 1) as [h l]. destruct H1 as (Hh & Hl & E).
      cbn [fst snd]. split; [cbn [wf fst snd]; auto|].
      rewrite !val_S. cbn [val fst snd B b2z]. rewrite ?modW_eq, ?divW_eq in *; rewrite W_eq in *.
      limb_cases; cbn [b2z andb]; lia.
    + destruct b as [bl bh]. destruct Hb as [Hb1 Hb2].
      cbn [fst snd] in *.
      change (add_1 (S (S k)) (bl, bh)) with
        (let '(lo, r1) := add_1 (S k) bl in
         let '(hi, r2) := add_w (S k) bh (b2z r1) in ((lo, hi), r2)).
      pose proof (IH bl Hb1) as [W1 E1].
      destruct (add_1 (S k) bl) as [lo r1]. cbn [fst snd] in *.
      assert (Hr : 0 <= b2z r1 < W) by (rewrite W_eq; destruct r1; cbn; lia).
      pose proof (add_w_spec (S k) bh (b2z r1) Hb2 Hr) as [W2 E2].
      destruct (add_w (S k) bh (b2z r1)) as [hi r2]. cbn [fst snd] in *.
      split; [split; assumption|].
      rewrite (val_S (S k) (lo, hi)), (val_S (S k) (bl, bh)). cbn [fst snd].
      match goal with |- _ = ?a + ?b * ?c + ?d => replace (a + b * c + d) with ((a + d) + b * c) by lia end.
      apply combine_add2 with (r1 := b2z r1); assumption.
Qed.

Lemma sub_wc_spec k : forall b c cy, wf k b -> wf k c ->
  wf k (fst (sub_wc k b c cy)) /\
  val k (fst (sub_wc k b c cy)) - B k * b2z (snd (sub_wc k b c cy)) = val k b - val k c - b2z cy.
Proof.
  induction k as [|k IH]; intros b c cy Hb Hc.
  - cbn [sub_wc wf val B] in *. rewrite ?modW_eq, ?divW_eq in *; rewrite W_eq in *.
    destruct cy; cbn [fst snd b2z]; limb_cases; cbn [b2z]; lia.
  - destruct k as [|k].
    + destruct b as [bl bh], c as [cl ch]. destruct Hb as [Hb1 Hb2], Hc as [Hc1 Hc2].
      cbn [wf fst snd] in *.
      cbn [sub_wc fst snd].
      pose proof (sub_ddmmss_spec bh bl ch cl Hb2 Hb1 Hc2 Hc1) as H1.
      destruct (sub_ddmmss bh bl ch cl) as [h l]. destruct H1 as (Hh & Hl & E).
      destruct cy.
      * assert (H0 : 0 <= 0 < W) by (pose proof W_pos; lia).
        assert (H01 : 0 <= 1 < W) by (rewrite W_eq; lia).
        pose proof (sub_ddmmss_spec h l 0 1 Hh Hl H0 H01) as H2.
        destruct (sub_ddmmss h l 0 1) as [h' l']. destruct H2 as (Hh' & Hl' & E').
        cbn [fst snd]. split; [cbn [wf fst snd]; auto|].
        rewrite le_spec by (cbn [wf fst snd]; auto).
        rewrite !val_S. cbn [val fst snd B b2z]. rewrite ?modW_eq, ?divW_eq in *; rewrite W_eq in *.
        destruct (Z.leb_spec (bl + 18446744073709551616 * bh) (cl + 18446744073709551616 * ch)); cbn [b2z]; lia.
      * cbn [fst snd]. split; [cbn [wf fst snd]; auto|].
        rewrite lt_spec by (cbn [wf fst snd]; auto).
        rewrite !val_S. cbn [val fst snd B b2z]. rewrite ?modW_eq, ?divW_eq in *; rewrite W_eq in *.
        destruct (Z.ltb_spec (bl + 18446744073709551616 * bh) (cl + 18446744073709551616 * ch)); cbn [b2z]; lia.
    + destruct b as [bl bh], c as [cl ch]. destruct Hb as [Hb1 Hb2], Hc as [Hc1 Hc2].
      cbn [fst snd] in *.
      change (sub_wc (S (S k)) (bl, bh) (cl, ch) cy) with
        (let '(lo, r1) := sub_wc (S k) bl cl cy in
         let '(hi, r2) := sub_wc (S k) bh ch r1 in ((lo, hi), r2)).
      pose proof (IH bl cl cy Hb1 Hc1) as [W1 E1].
      destruct (sub_wc (S k) bl cl cy) as [lo r1]. cbn [fst snd] in *.
      pose proof (IH bh ch r1 Hb2 Hc2) as [W2 E2].
      destruct (sub_wc (S k) bh ch r1) as [hi r2]. cbn [fst snd] in *.
      split; [split; assumption|].
      rewrite (val_S (S k) (lo, hi)), (val_S (S k) (bl, bh)), (val_S (S k) (cl, ch)). cbn [fst snd].
      apply combine_sub with (r1 := b2z r1); assumption.
Qed.

Lemma sub_c_spec k : forall b c, wf k b -> wf k c ->
  wf k (fst (sub_c k b c)) /\
  val k (fst (sub_c k b c)) - B k * b2z (snd (sub_c k b c)) = val k b - val k c.
Proof.
  induction k as [|k IH]; intros b c Hb Hc.
  - cbn [sub_c wf val B fst snd] in *. rewrite ?modW_eq, ?divW_eq in *; rewrite W_eq in *. limb_cases; cbn [b2z]; lia.
  - destruct k as [|k].
    + destruct b as [bl bh], c as [cl ch]. destruct Hb as [Hb1 Hb2], Hc as [Hc1 Hc2].
      cbn [wf fst snd] in *. cbn [sub_c fst snd].
      pose proof (sub_ddmmss_spec bh bl ch cl Hb2 Hb1 Hc2 Hc1) as H1.
      destruct (sub_ddmmss bh bl ch cl) as [h l]. destruct H1 as (Hh & Hl & E).
      cbn [fst snd]. split; [cbn [wf fst snd]; auto|].
      rewrite lt_spec by (cbn [wf fst snd]; auto).
      rewrite !val_S. cbn [val fst snd B b2z]. rewrite ?modW_eq, ?divW_eq in *; rewrite W_eq in *.
      destruct (Z.ltb_spec (bl + 18446744073709551616 * bh) (cl + 18446744073709551616 * ch)); cbn [b2z]; lia.
    + destruct b as [bl bh], c as [cl ch]. destruct Hb as [Hb1 Hb2], Hc as [Hc1 Hc2].
      cbn [fst snd] in *.
      change (sub_c (S (S k)) (bl, bh) (cl, ch)) with
        (let '(lo, r1) := sub_c (S k) bl cl in
         let '(hi, r2) := sub_wc (S k) bh ch r1 in ((lo, hi), r2)).
      pose proof (IH bl cl Hb1 Hc1) as [W1 E1].
      destruct (sub_c (S k) bl cl) as [lo r1]. cbn [fst snd] in *.
      pose proof (sub_wc_spec (S k) bh ch r1 Hb2 Hc2) as [W2 E2].
      destruct (sub_wc (S k) bh ch r1) as [hi r2]. cbn [fst snd] in *.
      split; [split; assumption|].
      rewrite (val_S (S k) (lo, hi)), (val_S (S k) (bl, bh)), (val_S (S k) (cl, ch)). cbn [fst snd].
      replace (val (S k) bl + B (S k) * val (S k) bh - (val (S k) cl + B (S k) * val (S k) ch))
        with (val (S k) bl + B (S k) * val (S k) bh - (val (S k) cl + B (S k) * val (S k) ch) - 0) by lia.
      apply combine_sub with (r1 := b2z r1); lia.
Qed.
