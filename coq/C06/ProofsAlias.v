(* In-place products: a store-level model of the statement order of lmul (naive and Karatsuba) on a limb-addressed
   memory, and the theorem that it is the functional product even when the low output IS the first and/or the second
   operand (the alias pattern of mul(al, c), mul(al, b, c), operator*=, a *= a), provided the high output is disjoint
   from the operands.  This is why the "FIXME NOT safe" Karatsuba is nevertheless safe for the in-place callers:
   the operand sums bb, cc and the high product are formed before the low product overwrites b / c. *)
From Coq Require Import ZArith Lia Bool.
From C06 Require Import Model ProofsBase ProofsRepr ProofsLimbs.
Local Open Scope Z_scope.

Definition mem := Z -> Z.                                   (* limb address -> limb; ruint<6+k> at p = limbs p .. p+2^k-1, Low first *)
Fixpoint load (k : nat) (p : Z) (m : mem) : ru k :=
  match k return ru k with O => m p | S k' => (load k' p m, load k' (p + nlimbs k') m) end.
Fixpoint store (k : nat) (p : Z) : ru k -> mem -> mem :=
  match k return ru k -> mem -> mem with
  | O => fun v m q => if q =? p then v else m q
  | S k' => fun v m => store k' (p + nlimbs k') (snd v) (store k' p (fst v) m)
  end.
Definition inreg (k : nat) (p q : Z) : bool := (p <=? q) && (q <? p + nlimbs k).
Definition disj (k : nat) (p q : Z) : Prop := p + nlimbs k <= q \/ q + nlimbs k <= p.

Lemma store_at k : forall p v m q, store k p v m q = if inreg k p q then get_limb k v (q - p) else m q.
Proof.
  induction k as [|k IH]; intros p v m q; unfold inreg; cbn [store get_limb nlimbs].
  - destruct (Z.eqb_spec q p), (Z.leb_spec p q), (Z.ltb_spec q (p + 1)); cbn [andb]; try reflexivity; lia.
  - rewrite !IH. unfold inreg. pose proof (nlimbs_pos k).
    destruct (Z.leb_spec (p + nlimbs k) q), (Z.ltb_spec q (p + nlimbs k + nlimbs k)), (Z.leb_spec p q), (Z.ltb_spec q (p + nlimbs k)),
      (Z.ltb_spec q (p + 2 * nlimbs k)), (Z.ltb_spec (q - p) (nlimbs k)); cbn [andb]; try reflexivity; try lia.
    f_equal. lia.
Qed.

Lemma load_ext k : forall p m m', (forall q, inreg k p q = true -> m q = m' q) -> load k p m = load k p m'.
Proof.
  induction k as [|k IH]; intros p m m' H; cbn [load].
  - apply H. unfold inreg. cbn [nlimbs]. destruct (Z.leb_spec p p), (Z.ltb_spec p (p + 1)); cbn; lia || reflexivity.
  - pose proof (nlimbs_pos k). f_equal; apply IH; intros q Hq; apply H; unfold inreg in *; cbn [nlimbs];
      destruct (Z.leb_spec p q), (Z.ltb_spec q (p + 2 * nlimbs k)); cbn [andb]; try reflexivity;
      destruct (Z.leb_spec (p + nlimbs k) q), (Z.ltb_spec q (p + nlimbs k + nlimbs k)), (Z.ltb_spec q (p + nlimbs k)); cbn [andb] in Hq; try discriminate; lia.
Qed.

Lemma load_store_same k : forall p v m, load k p (store k p v m) = v.
Proof.
  induction k as [|k IH]; intros p v m; cbn [load store].
  - rewrite Z.eqb_refl. reflexivity.
  - destruct v as [lo hi]. cbn [fst snd]. pose proof (nlimbs_pos k). f_equal.
    + rewrite (load_ext k p _ (store k p lo m)); [apply IH|].
      intros q Hq. rewrite store_at. unfold inreg in *.
      destruct (Z.leb_spec p q), (Z.ltb_spec q (p + nlimbs k)); cbn [andb] in Hq; try discriminate.
      destruct (Z.leb_spec (p + nlimbs k) q); cbn [andb]; [lia | reflexivity].
    + apply IH.
Qed.

Lemma load_store_disj k j p q v m : (p + nlimbs k <= q \/ q + nlimbs j <= p) -> load j q (store k p v m) = load j q m.
Proof.
  intros H. apply load_ext. intros x Hx. rewrite store_at. unfold inreg in *.
  destruct (Z.leb_spec q x), (Z.ltb_spec x (q + nlimbs j)); cbn [andb] in Hx; try discriminate.
  destruct (Z.leb_spec p x), (Z.ltb_spec x (p + nlimbs k)); cbn [andb]; try reflexivity. lia.
Qed.

(* ---- the tail of lmul_kara once the three products are available ---- *)
Definition kara_finish (k' : nat) (rb rc : bool) (bb cc : ru k') (bc ah al : ru (S k')) : ru (S k') * ru (S k') :=
  let '(bc, rt1) := add_high_if k' rb bc cc in
  let '(bc, rt2) := add_high_if k' rc bc bb in
  let '(bc, rt3) := sub_c (S k') bc ah in
  let '(bc, rt4) := sub_c (S k') bc al in
  let r := negb ((b2z (rb && rc) + b2z rt1 + b2z rt2 - b2z rt3 - b2z rt4) =? 0) in
  let '(al_hi, rt5) := add_c k' (snd al) (fst bc) in
  let al := (fst al, al_hi) in
  let ah := fst (add_1_if (S k') rt5 ah) in
  let '(ah_lo, rt6) := add_c k' (fst ah) (snd bc) in
  let ah := (ah_lo, snd ah) in
  let ah := if rt6 || r then (fst ah, fst (add_w k' (snd ah) (b2z rt6 + b2z r))) else ah in
  (al, ah).

Lemma kara_step_finish k' lm (b c : ru (S k')) :
  lmul_kara_step k' lm b c =
  let '(bb, rb) := add_c k' (snd b) (fst b) in
  let '(cc, rc) := add_c k' (snd c) (fst c) in
  kara_finish k' rb rc bb cc (lm bb cc) (lm (snd b) (snd c)) (lm (fst b) (fst c)).
Proof. unfold lmul_kara_step, kara_finish. destruct (add_c k' (snd b) (fst b)), (add_c k' (snd c) (fst c)). reflexivity. Qed.

(* ---- store-level lmul(ah, al, b, c), statement order of rumul.h ---- *)
Fixpoint sl (thr k : nat) (ah al b c : Z) (m : mem) : mem :=
  match k with
  | O =>
      (* recint_umul_ppmm copies both factors before it writes the outputs *)
      let p := lmul0 (m b) (m c) in store 0 ah (snd p) (store 0 al (fst p) m)
  | S k' =>
      if Nat.ltb (S k') thr then
        (* lmul_naive: all products go to temporaries; ah is written by the last laddmul while b, c are still intact
           (ah is disjoint from them), al after that: every read of b, c precedes the first write to al *)
        let p := lmul_naive thr (S k') (load (S k') b m) (load (S k') c m) in
        store (S k') ah (snd p) (store (S k') al (fst p) m)
      else
        (* lmul_kara *)
        let vb := load (S k') b m in
        let vc := load (S k') c m in
        let '(bb, rb) := add_c k' (snd vb) (fst vb) in                          (* add(rb, bb, b.High, b.Low) *)
        let '(cc, rc) := add_c k' (snd vc) (fst vc) in                          (* add(rc, cc, c.High, c.Low) *)
        let m1 := store (S k') ah (lmul thr k' (snd vb) (snd vc)) m in          (* lmul(ah, b.High, c.High) *)
        let m2 := sl thr k' (al + nlimbs k') al b c m1 in                       (* lmul(al, b.Low, c.Low): operands read from memory now *)
        let bc := lmul thr k' bb cc in                                          (* lmul(bc, bb, cc): temporaries *)
        let res := kara_finish k' rb rc bb cc bc (load (S k') ah m2) (load (S k') al m2) in
        store (S k') ah (snd res) (store (S k') al (fst res) m2)
  end.

(* the alias pattern of the in-place callers *)
Definition alias_ok (k : nat) (ah al b c : Z) : Prop :=
  disj k ah al /\ disj k ah b /\ disj k ah c /\ (al = b \/ disj k al b) /\ (al = c \/ disj k al c).

Lemma lmul_unfold_kara thr k' : Nat.ltb (S k') thr = false ->
  lmul thr (S k') = lmul_kara_step k' (lmul thr k').
Proof. intros H. unfold lmul. cbn [mulrec mp_lmul]. rewrite H. reflexivity. Qed.
Lemma lmul_unfold_naive thr k' : Nat.ltb (S k') thr = true -> lmul thr (S k') = lmul_naive thr (S k').
Proof. intros H. unfold lmul, lmul_naive. cbn [mulrec mp_lmul mp_naive]. rewrite H. reflexivity. Qed.

Definition Lmul_in_place_safe := forall thr k ah al b c m, alias_ok k ah al b c ->
  forall q, sl thr k ah al b c m q =
            store k ah (snd (lmul thr k (load k b m) (load k c m))) (store k al (fst (lmul thr k (load k b m) (load k c m))) m) q.

Lemma lmul_in_place_safe : Lmul_in_place_safe.
Proof.
  intros thr k. induction k as [|k IH]; intros ah al b c m Hok q.
  - reflexivity.
  - cbn [sl]. destruct (Nat.ltb (S k) thr) eqn:Ethr.
    + rewrite (lmul_unfold_naive thr k Ethr). reflexivity.
    + destruct Hok as (Dal & Db & Dc & Ab & Ac). unfold disj in *. cbn [nlimbs] in *. pose proof (nlimbs_pos k) as Hn.
      rewrite (lmul_unfold_kara thr k Ethr), kara_step_finish.
      set (vb := load (S k) b m). set (vc := load (S k) c m).
      destruct (add_c k (snd vb) (fst vb)) as [bb rb]. destruct (add_c k (snd vc) (fst vc)) as [cc rc].
      set (hp := lmul thr k (snd vb) (snd vc)).
      set (m1 := store (S k) ah hp m).
      (* operands of the low product are still intact in m1 *)
      assert (Eb1 : load k b m1 = fst vb).
      { subst m1 vb. rewrite (load_store_disj (S k) k ah b) by (cbn [nlimbs]; lia). reflexivity. }
      assert (Ec1 : load k c m1 = fst vc).
      { subst m1 vc. rewrite (load_store_disj (S k) k ah c) by (cbn [nlimbs]; lia). reflexivity. }
      set (lp := lmul thr k (fst vb) (fst vc)).
      (* the recursive in-place call *)
      assert (Hsub : forall x, sl thr k (al + nlimbs k) al b c m1 x = store (S k) al lp m1 x).
      { intros x. rewrite IH.
        - rewrite Eb1, Ec1. reflexivity.
        - unfold alias_ok, disj. repeat split; try lia. }
      set (m2 := sl thr k (al + nlimbs k) al b c m1) in *.
      assert (Eah2 : load (S k) ah m2 = hp).
      { rewrite (load_ext (S k) ah m2 (store (S k) al lp m1)) by (intros; apply Hsub).
        rewrite (load_store_disj (S k) (S k) al ah) by (cbn [nlimbs]; lia). subst m1. apply load_store_same. }
      assert (Eal2 : load (S k) al m2 = lp).
      { rewrite (load_ext (S k) al m2 (store (S k) al lp m1)) by (intros; apply Hsub). apply load_store_same. }
      rewrite Eah2, Eal2.
      set (res := kara_finish k rb rc bb cc (lmul thr k bb cc) hp lp).
      (* everything m2 changed lies in the regions that are overwritten now *)
      rewrite !store_at. unfold inreg. cbn [nlimbs].
      destruct ((ah <=? q) && (q <? ah + 2 * nlimbs k)) eqn:E1; [reflexivity|].
      destruct ((al <=? q) && (q <? al + 2 * nlimbs k)) eqn:E2; [reflexivity|].
      subst m2. rewrite Hsub. subst m1. rewrite !store_at. unfold inreg. cbn [nlimbs]. rewrite E1, E2. reflexivity.
Qed.

(* the in-place callers of rumul.h: mul(al, c) computes lmul(al, al.Low, c.Low), i.e. ah = al.High, al = al.Low, b = al.Low;
   with c = al too for a *= a.  Both satisfy alias_ok. *)
Example in_place_patterns k (a c : Z) : a + 2 * nlimbs k <= c ->
  alias_ok k (a + nlimbs k) a a c /\ alias_ok k (a + nlimbs k) a a a /\ alias_ok k (a + nlimbs k) a c a.
Proof. intros H. pose proof (nlimbs_pos k). unfold alias_ok, disj. repeat split; lia. Qed.

(* The order matters: forming the operand sums AFTER the low product (which a "group each product with its operands"
   clean-up would do) reads the overwritten operand.  Same store-level code with the two loads moved: *)
Definition sl_sums_late (thr k' : nat) (ah al b c : Z) (m : mem) : mem :=
  let vb0 := load (S k') b m in
  let vc0 := load (S k') c m in
  let m1 := store (S k') ah (lmul thr k' (snd vb0) (snd vc0)) m in
  let m2 := sl thr k' (al + nlimbs k') al b c m1 in
  let vb := load (S k') b m2 in                                            (* b, c read again after al was written *)
  let vc := load (S k') c m2 in
  let '(bb, rb) := add_c k' (snd vb) (fst vb) in
  let '(cc, rc) := add_c k' (snd vc) (fst vc) in
  let res := kara_finish k' rb rc bb cc (lmul thr k' bb cc) (load (S k') ah m2) (load (S k') al m2) in
  store (S k') ah (snd res) (store (S k') al (fst res) m2).

Definition mem3 : mem := fun q => if q =? 0 then 3 else if q =? 1 then 5 else if q =? 4 then 7 else if q =? 5 then 11 else 0.
Example sums_late_refuted :
  alias_ok 1 2 0 0 4 /\
  sl_sums_late 0 0 2 0 0 4 mem3 1 <> sl 0 1 2 0 0 4 mem3 1.
Proof. split; [unfold alias_ok, disj; cbn; lia | vm_compute; discriminate]. Qed.
