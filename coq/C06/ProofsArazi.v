(* arazi_qi: the inverse of an odd a modulo 2^(2^K) (64-bit Newton product at the base, one Hensel step per level). *)
From Coq Require Import ZArith Lia Bool Nsatz Zdiv Morphisms Setoid.
From C06 Require Import Model ProofsBase ProofsRepr ProofsAdd ProofsBits ProofsShift ProofsMul ProofsMulTop.
Local Open Scope Z_scope.

Lemma modW_mul_l x y : modW (modW x * y) = modW (x * y).
Proof. rewrite !modW_eq. apply Z.mul_mod_idemp_l. pose proof W_pos; lia. Qed.
Lemma modW_mul_r x y : modW (x * modW y) = modW (x * y).
Proof. rewrite !modW_eq. apply Z.mul_mod_idemp_r. pose proof W_pos; lia. Qed.
Lemma modW_add_l x y : modW (modW x + y) = modW (x + y).
Proof. rewrite !modW_eq. apply Z.add_mod_idemp_l. pose proof W_pos; lia. Qed.

#[local] Instance eqmW_equiv : Equivalence (eqm W) := eqm_setoid W.
#[local] Instance add_eqmW : Proper (eqm W ==> eqm W ==> eqm W) Z.add := Zplus_eqm W.
#[local] Instance sub_eqmW : Proper (eqm W ==> eqm W ==> eqm W) Z.sub := Zminus_eqm W.
#[local] Instance mul_eqmW : Proper (eqm W ==> eqm W ==> eqm W) Z.mul := Zmult_eqm W.

Lemma arazi0_spec a : 0 <= a < W -> a mod 2 = 1 -> 0 <= arazi0 a < W /\ (a * arazi0 a) mod W = 1.
Proof.
  intros Ha Hodd. pose proof W_pos as HW. unfold arazi0.
  destruct (Z.eqb_spec a 1) as [->|Hne].
  - split; [rewrite W_eq; lia|]. rewrite W_eq. reflexivity.
  - cbn [fst snd]. rewrite !modW_eq.
    split; [apply Z.mod_pos_bound; lia|].
    assert (Ex : exists y, a - 1 = 2 * y) by (exists ((a - 1) / 2); pose proof (Z.div_mod a 2); lia).
    destruct Ex as [y Ey]. set (x := a - 1) in *. replace a with (1 + x) by (subst x; lia). replace (2 - (1 + x)) with (1 - x) by lia.
    apply (eq_trans (y := 1 mod W)); [|apply Z.mod_small; lia].
    match goal with |- ?l mod W = 1 mod W => change (eqm W l 1) end.
    repeat setoid_rewrite (Zmod_eqm W). unfold eqm.
    rewrite (Z.mod_small 1) by lia.
    symmetry. apply Z.mod_unique with (q := - y ^ 64); [left; lia|].
    rewrite Ey, W_eq. ring.
Qed.

Definition Arazi_exact := forall thr k a, wf k a -> val k a mod 2 = 1 ->
  wf k (arazi_qi thr k a) /\ (val k a * val k (arazi_qi thr k a)) mod B k = 1.

Lemma arazi_exact : Arazi_exact.
Proof.
  intros thr k. induction k as [|k IH]; intros a Ha Hodd.
  - cbn [arazi_qi wf val B] in *. apply arazi0_spec; assumption.
  - destruct a as [al ah]. destruct Ha as [Hal Hah]. cbn [arazi_qi fst snd].
    rewrite val_S in Hodd. cbn [fst snd] in Hodd. destruct (B_even k) as (hb & Ehb & Hhb).
    assert (Hoddl : val k al mod 2 = 1).
    { rewrite Ehb in Hodd. rewrite <- Hodd. replace (val k al + 2 * hb * val k ah) with (val k al + (hb * val k ah) * 2) by ring.
      symmetry. apply Z.mod_add. lia. }
    destruct (IH al Hal Hoddl) as [Wul Eul]. set (ul := arazi_qi thr k al) in *.
    pose proof (lmul_okk thr k ul al Wul Hal) as (Wp0 & Wp1 & Ep). destruct (lmul thr k ul al) as [p0 p1]. cbn [fst snd] in *.
    pose proof (mul_spec thr k ul ah Wul Hah) as (Wt2 & Et2).
    pose proof (add_c_spec k p1 _ Wp1 Wt2) as (Ws & Es). destruct (add_c k p1 (mul thr k ul ah)) as [s rs]. cbn [fst snd] in *.
    pose proof (mul_spec thr k s ul Ws Wul) as (Wt1 & Et1).
    destruct (neg_spec k _ Wt1) as [Wh Eh].
    split; [split; assumption|]. rewrite !val_S, B_S. cbn [fst snd].
    pose proof (B_pos k) as HB.
    pose proof (val_range _ _ Wp0) as Rp0. pose proof (val_range _ _ Wul) as Rul. pose proof (val_range _ _ Wh) as Rh.
    (* p0 = 1 *)
    assert (Ep0 : val k p0 = 1).
    { rewrite <- Eul. apply Z.mod_unique with (q := val k p1); [left; lia | rewrite (Z.mul_comm (val k al)); lia]. }
    (* quotients of the reductions *)
    pose proof (Z.div_mod (val k ul * val k ah) (B k) ltac:(lia)) as D2. rewrite <- Et2 in D2. set (q2 := val k ul * val k ah / B k) in *.
    pose proof (Z.div_mod (val k s * val k ul) (B k) ltac:(lia)) as D4. rewrite <- Et1 in D4. set (q4 := val k s * val k ul / B k) in *.
    pose proof (Z.div_mod (- val k (mul thr k s ul)) (B k) ltac:(lia)) as D5. rewrite <- Eh in D5. set (q5 := - val k (mul thr k s ul) / B k) in *.
    set (h := val k (neg k (mul thr k s ul))) in *. set (t1 := val k (mul thr k s ul)) in *. set (t2 := val k (mul thr k ul ah)) in *.
    set (Bk := B k) in *. set (vul := val k ul) in *. set (val_ := val k al) in *. set (vah := val k ah) in *.
    set (vs := val k s) in *. set (vp1 := val k p1) in *. rewrite Ep0 in Ep.
    symmetry. apply Z.mod_unique with (q := (q2 + b2z rs - vp1 * vs + val_ * q4 - val_ * q5) + vah * h); [left; lia|].
    clearbody Bk vul val_ vah vs vp1 h t1 t2 q2 q4 q5. clear - Ep D2 D4 D5 Es.
    nsatz.
Qed.
