(* Phase 4 (audit response): statements and proofs for ModelAudit.v and for the six bit-fiddling operations of Model.v that
   had no theorem. *)
From Coq Require Import ZArith Lia Bool List.
From C06 Require Import Model ModelNative ModelAudit ProofsBase ProofsRepr ProofsAdd ProofsSubW ProofsBits ProofsShift ProofsSquare
  ProofsDivTop ProofsDivFinal ProofsModn ProofsExp ProofsGcd ProofsInvMod ProofsLimbs ProofsSigned ProofsMisc2 ProofsNative ProofsNative2.
Local Open Scope Z_scope.
Ltac Zify.zify_post_hook ::= Z.div_mod_to_equations.

(* rufiddling.h: highest_bit, lowest_bit, set_highest_bit, set_lowest_bit, max_pow_two, fill_with_1 *)
Definition Bit_fiddling_exact := forall k x, wf k x ->
  highest_bit k x = (B k <=? 2 * val k x) /\
  lowest_bit k x = Z.odd (val k x) /\
  (wf k (set_highest_bit k x) /\ val k (set_highest_bit k x) = val k x + (if highest_bit k x then 0 else B k / 2)) /\
  (wf k (set_lowest_bit k x) /\ val k (set_lowest_bit k x) = val k x + (if lowest_bit k x then 0 else 1)) /\
  (wf k (max_pow_two k) /\ 2 * val k (max_pow_two k) = B k) /\
  (wf k (ones k) /\ val k (ones k) = B k - 1).

(* the exponent scan as the code runs it (limb by limb, mask j = 1, 2, .., 2^63) computes what Model.exp_mod computes *)
Definition Exp_scan_exact := forall thr k b c n, wf k b -> wf k c -> wf k n ->
  exp_mod_scan thr k b c n = exp_mod thr k b c n.

(* the normalisation scan as the code runs it (limbs from the top, mask from 2^63 down) = Model.normalization, 0 included *)
Definition Norm_scan_exact := forall k b, wf k b -> normalization_scan k b = normalization k b.

(* inv_mod with the documented result for non-units: the loop of Model.inv_mod, the final a2 is the gcd, result 0 unless gcd = 1 *)
Definition Inv_mod_doc_exact := forall thr k b c, wf k b -> wf k c ->
  let '(a, g) := inv_mod_loop2 thr k (euclid_fuel k) (of_Z k 1) (zero k) b c c in
  a = inv_mod thr k b c /\ wf k g /\ val k g = Z.gcd (val k b) (val k c) /\
  (Z.gcd (val k b) (val k c) = 1 -> inv_mod_doc thr k b c = inv_mod thr k b c) /\
  (Z.gcd (val k b) (val k c) <> 1 -> inv_mod_doc thr k b c = zero k).
Definition Sinv_mod_doc_exact := forall thr k b c, wf k b -> wf k c -> 1 < val k c -> - val k c < sval k b ->
  (Z.gcd (sval k b) (val k c) = 1 -> sinv_mod_doc thr k b c = sinv_mod thr k b c) /\
  (Z.gcd (sval k b) (val k c) <> 1 -> sinv_mod_doc thr k b c = zero k).

(* the traced limb div_3_2 returns exactly Model.div32_0 *)
Definition Div32_trace_exact := forall a2 a1 a0 b1 b0, fst (div32_0_tr a2 a1 a0 b1 b0) = div32_0 a2 a1 a0 b1 b0.

(* ================= proofs ================= *)
(* ---- the traced limb div_3_2 ---- *)
Lemma div32_trace_exact : Div32_trace_exact.
Proof.
  intros a2 a1 a0 b1 b0. unfold div32_0_tr, div32_0.
  destruct (a2 <? b1).
  - destruct (udiv_qrnnd a2 a1 b1) as [q c]. destruct (umul_ppmm q b0) as [d1 d0].
    destruct (sub_ddmmss c a0 d1 d0) as [r1 r0].
    repeat match goal with |- context [if ?c then _ else _] => destruct c end; reflexivity.
  - cbv zeta. destruct (umul_ppmm Wm1 b0) as [d1 d0].
    destruct (sub_ddmmss (modW (a1 + b1)) a0 d1 d0) as [r1 r0].
    repeat match goal with |- context [if ?c then _ else _] => destruct c end; reflexivity.
Qed.

(* ---- rufiddling.h ---- *)
Lemma B_even k : exists m, B k = 2 * m.
Proof.
  induction k as [|k [m IH]].
  - exists 9223372036854775808. cbn [B]. rewrite W_eq. reflexivity.
  - exists (m * B k). rewrite B_S. rewrite IH at 1. ring.
Qed.

Lemma lowest_bit_spec k : forall x, wf k x -> lowest_bit k x = Z.odd (val k x).
Proof.
  induction k as [|k IH]; intros x Hx.
  - reflexivity.
  - destruct Hx as [Hl Hh]. cbn [lowest_bit]. rewrite (IH _ Hl), val_S. destruct (B_even k) as [m Em]. rewrite Em.
    replace (2 * m * val k (snd x)) with (2 * (m * val k (snd x))) by ring. rewrite Z.odd_add_mul_2. reflexivity.
Qed.

Lemma lor_top_set a : 9223372036854775808 <= a < 18446744073709551616 -> Z.lor a 9223372036854775808 = a.
Proof.
  intros Ha. apply Z.bits_inj'. intros m Hm. rewrite Z.lor_spec.
  change 9223372036854775808 with (2 ^ 63) at 1. rewrite Z.pow2_bits_eqb by lia.
  destruct (Z.eqb_spec 63 m) as [<-|Hne]; [|apply orb_false_r].
  pose proof (testbit_top a 64 ltac:(lia) ltac:(change (2 ^ 64) with 18446744073709551616; lia)) as T.
  change (64 - 1) with 63 in T. rewrite T. change (2 ^ 63) with 9223372036854775808.
  destruct (Z.leb_spec 9223372036854775808 a); [reflexivity | lia].
Qed.

Lemma lor_low_set a : Z.odd a = true -> Z.lor a 1 = a.
Proof.
  intros Ha. apply Z.bits_inj'. intros m Hm. rewrite Z.lor_spec.
  change 1 with (2 ^ 0) at 1. rewrite Z.pow2_bits_eqb by lia.
  destruct (Z.eqb_spec 0 m) as [<-|Hne]; [|apply orb_false_r].
  rewrite Z.bit0_odd, Ha. reflexivity.
Qed.

Lemma set_highest_bit_idem k : forall x, wf k x -> highest_bit k x = true -> set_highest_bit k x = x.
Proof.
  induction k as [|k IH]; intros x Hx Hh.
  - cbn [set_highest_bit highest_bit wf] in *. rewrite W_eq in Hx. apply Z.leb_le in Hh. apply lor_top_set. lia.
  - destruct x as [xl xh]. destruct Hx as [Hl Hhh]. cbn [set_highest_bit highest_bit fst snd] in *.
    rewrite (IH _ Hhh Hh). reflexivity.
Qed.

Lemma set_lowest_bit_idem k : forall x, lowest_bit k x = true -> set_lowest_bit k x = x.
Proof.
  induction k as [|k IH]; intros x Hh.
  - cbn [set_lowest_bit lowest_bit] in *. apply lor_low_set. exact Hh.
  - destruct x as [xl xh]. cbn [set_lowest_bit lowest_bit fst snd] in *. rewrite (IH _ Hh). reflexivity.
Qed.

Lemma max_pow_two_spec k : wf k (max_pow_two k) /\ 2 * val k (max_pow_two k) = B k.
Proof.
  induction k as [|k [IH1 IH2]].
  - cbn [max_pow_two wf val B]. rewrite W_eq. lia.
  - cbn [max_pow_two]. split; [split; [apply wf_zero | exact IH1]|].
    rewrite val_S, B_S. cbn [fst snd]. rewrite val_zero. nia.
Qed.

Lemma bit_fiddling_exact : Bit_fiddling_exact.
Proof.
  intros k x Hx. pose proof (highest_bit_spec k x Hx) as Eh. pose proof (lowest_bit_spec k x Hx) as El.
  split; [exact Eh|]. split; [exact El|].
  split.
  { destruct (highest_bit k x) eqn:Hh.
    - rewrite set_highest_bit_idem by assumption. split; [exact Hx | lia].
    - symmetry in Eh. apply Z.leb_gt in Eh. destruct (set_highest_bit_spec k x Hx Eh) as [W1 E1].
      split; [exact W1|]. destruct (B_even k) as [m Em]. rewrite Em in *.
      replace (2 * m / 2) with m by lia. lia. }
  split.
  { destruct (lowest_bit k x) eqn:Hl.
    - rewrite set_lowest_bit_idem by assumption. split; [exact Hx | lia].
    - assert (Hev : exists h, val k x = 2 * h).
      { apply Z.even_spec. rewrite <- Z.negb_odd, <- El. reflexivity. }
      apply set_lowest_bit_spec; assumption. }
  split; [apply max_pow_two_spec | apply val_ones].
Qed.

(* ---- inv_mod with the final gcd ---- *)
Lemma inv_mod_loop2_fst thr k : forall fuel a x a2 b2 c,
  fst (inv_mod_loop2 thr k fuel a x a2 b2 c) = inv_mod_loop thr k fuel a x a2 b2 c.
Proof.
  induction fuel as [|f IH]; intros a x a2 b2 c; cbn [inv_mod_loop2 inv_mod_loop]; [reflexivity|].
  destruct (is_zero k b2); [reflexivity|]. destruct (div thr k a2 b2) as [q r]. apply IH.
Qed.
Lemma inv_mod_loop2_snd thr k : forall fuel a x a2 b2 c,
  snd (inv_mod_loop2 thr k fuel a x a2 b2 c) = gcd_loop thr k fuel a2 b2.
Proof.
  induction fuel as [|f IH]; intros a x a2 b2 c; cbn [inv_mod_loop2 gcd_loop]; [reflexivity|].
  destruct (is_zero k b2); [reflexivity|]. destruct (div thr k a2 b2) as [q r]. apply IH.
Qed.

Lemma inv_mod_doc_exact : Inv_mod_doc_exact.
Proof.
  intros thr k b c Hb Hc. unfold inv_mod_doc.
  pose proof (inv_mod_loop2_fst thr k (euclid_fuel k) (of_Z k 1) (zero k) b c c) as E1.
  pose proof (inv_mod_loop2_snd thr k (euclid_fuel k) (of_Z k 1) (zero k) b c c) as E2.
  destruct (inv_mod_loop2 thr k (euclid_fuel k) (of_Z k 1) (zero k) b c c) as [a g]. cbn [fst snd] in *.
  fold (inv_mod thr k b c) in E1. fold (gcd thr k b c) in E2.
  destruct (gcd_exact thr k b c Hb Hc) as [Wg Eg]. rewrite <- E2 in Wg, Eg.
  split; [exact E1|]. split; [exact Wg|]. split; [exact Eg|].
  rewrite (cmp_si_spec k g 1 Wg) by (rewrite p63; lia). rewrite Eg.
  split; intros Hg.
  - rewrite Hg. cbn [Z.sub Z.sgn Z.eqb Z.add Z.opp Z.pos_sub]. exact E1.
  - destruct (Z.eqb_spec (Z.sgn (Z.gcd (val k b) (val k c) - 1)) 0) as [E|E]; [lia|]. apply reset_exact.
Qed.

Lemma inv_mod_doc_cases thr k b c : wf k b -> wf k c ->
  (Z.gcd (val k b) (val k c) = 1 -> inv_mod_doc thr k b c = inv_mod thr k b c) /\
  (Z.gcd (val k b) (val k c) <> 1 -> inv_mod_doc thr k b c = zero k).
Proof.
  intros Hb Hc. pose proof (inv_mod_doc_exact thr k b c Hb Hc) as H.
  destruct (inv_mod_loop2 thr k (euclid_fuel k) (of_Z k 1) (zero k) b c c) as [a g].
  destruct H as (_ & _ & _ & H1 & H2). split; assumption.
Qed.

Lemma sinv_mod_doc_exact : Sinv_mod_doc_exact.
Proof.
  intros thr k b c Hb Hc H1 Hlo. unfold sinv_mod_doc, sinv_mod. pose proof (val_range _ _ Hc) as Rc.
  destruct (is_neg k b) eqn:Nb.
  - destruct (abs_val k b Hb Nb) as [Wn En]. pose proof (val_range _ _ Wn) as Rn.
    destruct (sub_c_spec k c _ Hc Wn) as [Ws Es]. destruct (sub_c k c (neg k b)) as [sv bo]. cbn [fst snd] in *.
    pose proof (val_range _ _ Ws).
    assert (Ev : val k sv = val k c + sval k b) by (destruct bo; cbn [b2z] in Es; lia).
    assert (Hg : Z.gcd (val k sv) (val k c) = Z.gcd (sval k b) (val k c)).
    { rewrite Ev, Z.gcd_comm. replace (val k c + sval k b) with (sval k b + 1 * val k c) by ring.
      rewrite Z.gcd_add_mult_diag_r. apply Z.gcd_comm. }
    rewrite <- Hg. apply inv_mod_doc_cases; assumption.
  - assert (Eb : val k b = sval k b) by (unfold sval; rewrite Nb; reflexivity). rewrite <- Eb.
    apply inv_mod_doc_cases; assumption.
Qed.
