(* Phase 4 (audit response), second half of the proofs: the normalisation scan and the exponent scan
   (statements in ProofsAudit.v). *)
From Coq Require Import ZArith Lia Bool List.
From C06 Require Import Model ModelNative ModelAudit ProofsBase ProofsRepr ProofsAdd ProofsSubW ProofsBits ProofsShift ProofsSquare
  ProofsDivTop ProofsDivFinal ProofsModn ProofsExp ProofsGcd ProofsInvMod ProofsLimbs ProofsSigned ProofsMisc2 ProofsNative ProofsNative2
  ProofsAudit.
Local Open Scope Z_scope.
Ltac Zify.zify_post_hook ::= Z.div_mod_to_equations.

Lemma land_pow2 l t : 0 <= t -> Z.land l (2 ^ t) = if Z.testbit l t then 2 ^ t else 0.
Proof.
  intros Ht. apply Z.bits_inj'. intros m Hm. rewrite Z.land_spec, Z.pow2_bits_eqb by lia.
  destruct (Z.testbit l t) eqn:T.
  - rewrite Z.pow2_bits_eqb by lia. destruct (Z.eqb_spec t m) as [<-|Hne]; [rewrite T; reflexivity | apply andb_false_r].
  - rewrite Z.bits_0. destruct (Z.eqb_spec t m) as [<-|Hne]; [rewrite T; reflexivity | apply andb_false_r].
Qed.
Lemma land_pow2_test l t : 0 <= t -> negb (Z.land l (2 ^ t) =? 0) = Z.testbit l t.
Proof.
  intros Ht. rewrite land_pow2 by assumption. assert (0 < 2 ^ t) by (apply Z.pow_pos_nonneg; lia).
  destruct (Z.testbit l t); [destruct (Z.eqb_spec (2 ^ t) 0); [lia | reflexivity] | reflexivity].
Qed.

(* ---- normalisation scan ---- *)
Lemma norm_mask_spec l : 0 < l -> forall (fuel : nat) i d, 0 <= i -> i + 1 <= Z.of_nat fuel -> l < 2 ^ (i + 1) ->
  norm_mask fuel (2 ^ i) l d = d + i - Z.log2 l.
Proof.
  intros Hl. induction fuel as [|f IH]; intros i d Hi Hf Hlt; [lia|].
  cbn [norm_mask]. assert (HP : 0 < 2 ^ i) by (apply Z.pow_pos_nonneg; lia).
  destruct (Z.eqb_spec (2 ^ i) 0); [lia|].
  rewrite land_pow2_test by lia.
  pose proof (testbit_top l (i + 1) ltac:(lia) ltac:(lia)) as T. replace (i + 1 - 1) with i in T by lia. rewrite T.
  destruct (Z.leb_spec (2 ^ i) l) as [Hge|Hsm].
  - rewrite (Z.log2_unique l i) by (try lia; replace (Z.succ i) with (i + 1) by lia; lia). lia.
  - assert (0 < i).
    { destruct (Z.eq_dec i 0) as [->|]; [change (2 ^ 0) with 1 in Hsm; lia | lia]. }
    rewrite Z.shiftr_div_pow2 by lia. change (2 ^ 1) with 2.
    replace (2 ^ i / 2) with (2 ^ (i - 1)).
    2:{ replace i with (Z.succ (i - 1)) at 2 by lia. rewrite Z.pow_succ_r by lia.
        rewrite Z.mul_comm, Z.div_mul by lia. reflexivity. }
    rewrite IH; [lia | lia | lia|]. replace (i - 1 + 1) with i by lia. exact Hsm.
Qed.

Lemma norm_limb_spec l d : 0 <= l < W -> norm_limbs (l :: nil) d = d + clz64 l.
Proof.
  intros Hl. cbn [norm_limbs]. unfold clz64. destruct (Z.eqb_spec l 0); [reflexivity|].
  change 9223372036854775808 with (2 ^ 63). rewrite norm_mask_spec; [lia | lia | lia | cbn; lia|].
  rewrite W_eq in Hl. change (2 ^ (63 + 1)) with 18446744073709551616. lia.
Qed.

Lemma norm_limbs_zeros ls2 : forall ls1 d, Forall (fun l => l = 0) ls1 ->
  norm_limbs (ls1 ++ ls2) d = norm_limbs ls2 (d + 64 * Z.of_nat (length ls1)).
Proof.
  induction ls1 as [|l r IH]; intros d H.
  - cbn [app length Z.of_nat]. f_equal. lia.
  - inversion H as [|? ? Hl Hr]; subst. cbn [app norm_limbs length Z.eqb]. rewrite IH by assumption.
    f_equal. rewrite Nat2Z.inj_succ. lia.
Qed.

Lemma norm_limbs_nonzero ls2 : forall ls1 d, Exists (fun l => l <> 0) ls1 ->
  norm_limbs (ls1 ++ ls2) d = norm_limbs ls1 d.
Proof.
  induction ls1 as [|l r IH]; intros d H.
  - inversion H.
  - cbn [app norm_limbs]. destruct (Z.eqb_spec l 0) as [E|E]; [|reflexivity].
    apply IH. inversion H as [? ? Hl|? ? Hr]; subst; [contradiction | assumption].
Qed.

Lemma limbs_zero k : Forall (fun l => l = 0) (limbs k (zero k)).
Proof.
  induction k as [|k IH]; cbn [limbs zero fst snd].
  - constructor; [reflexivity | constructor].
  - apply Forall_app. split; exact IH.
Qed.

Lemma limbs_nonzero k : forall b, wf k b -> val k b <> 0 -> Exists (fun l => l <> 0) (limbs k b).
Proof.
  induction k as [|k IH]; intros b Hb Hnz.
  - cbn [limbs val] in *. constructor. exact Hnz.
  - destruct Hb as [Hl Hh]. cbn [limbs]. rewrite val_S in Hnz. apply Exists_app.
    destruct (Z.eq_dec (val k (fst b)) 0) as [E|E].
    + right. apply IH; [exact Hh|]. intros E2. rewrite E, E2 in Hnz. lia.
    + left. apply IH; assumption.
Qed.

Lemma norm_scan_gen k : forall b d, wf k b -> norm_limbs (rev (limbs k b)) d = d + normalization k b.
Proof.
  induction k as [|k IH]; intros b d Hb.
  - cbn [limbs rev app normalization]. apply norm_limb_spec. exact Hb.
  - destruct Hb as [Hl Hh]. cbn [limbs normalization]. rewrite rev_app_distr.
    rewrite is_zero_spec by assumption.
    destruct (Z.eqb_spec (val k (snd b)) 0) as [E|E].
    + assert (Ez : snd b = zero k) by (apply val_inj; [assumption | apply wf_zero | rewrite val_zero; exact E]).
      rewrite norm_limbs_zeros by (apply Forall_rev; rewrite Ez; apply limbs_zero).
      rewrite rev_length, limbs_length, IH by assumption. rewrite nbits_nlimbs. lia.
    + rewrite norm_limbs_nonzero by (apply Exists_rev; apply limbs_nonzero; assumption).
      apply IH. assumption.
Qed.

Lemma norm_scan_exact : Norm_scan_exact.
Proof. intros k b Hb. unfold normalization_scan. rewrite norm_scan_gen by assumption. lia. Qed.

(* ---- exponent scan ---- *)
(* exp_loop with the pair (a, x) returned *)
Fixpoint exp_loop2 (thr k : nat) (fuel : nat) (i : Z) (cz : Z) (ax : ru k * ru k) (n : ru k) : ru k * ru k :=
  match fuel with
  | O => ax
  | S f =>
      let a := if Z.testbit cz i then mod_n thr k (lmul thr k (fst ax) (snd ax)) n else fst ax in
      let x := mod_n thr k (lsquare thr k (snd ax)) n in
      exp_loop2 thr k f (i + 1) cz (a, x) n
  end.

Lemma exp_loop2_fst thr k n cz : forall fuel i a x,
  fst (exp_loop2 thr k fuel i cz (a, x) n) = exp_loop thr k fuel i cz a x n.
Proof.
  induction fuel as [|f IH]; intros i a x; cbn [exp_loop2 exp_loop fst snd]; [reflexivity | apply IH].
Qed.

Lemma exp_loop2_app thr k n cz : forall (f1 f2 : nat) i ax,
  exp_loop2 thr k (f1 + f2) i cz ax n = exp_loop2 thr k f2 (i + Z.of_nat f1) cz (exp_loop2 thr k f1 i cz ax n) n.
Proof.
  induction f1 as [|f1 IH]; intros f2 i ax.
  - cbn [plus exp_loop2 Z.of_nat]. rewrite Z.add_0_r. reflexivity.
  - cbn [plus exp_loop2]. rewrite IH. f_equal. rewrite Nat2Z.inj_succ. lia.
Qed.

Lemma exp_loop2_ext thr k n : forall (fuel : nat) i i' cz cz' ax,
  (forall t, 0 <= t < Z.of_nat fuel -> Z.testbit cz (i + t) = Z.testbit cz' (i' + t)) ->
  exp_loop2 thr k fuel i cz ax n = exp_loop2 thr k fuel i' cz' ax n.
Proof.
  induction fuel as [|f IH]; intros i i' cz cz' ax H; [reflexivity|].
  cbn [exp_loop2]. rewrite Nat2Z.inj_succ in H.
  pose proof (H 0 ltac:(lia)) as H0. rewrite !Z.add_0_r in H0. rewrite H0.
  apply IH. intros t Ht. replace (i + 1 + t) with (i + (t + 1)) by lia. replace (i' + 1 + t) with (i' + (t + 1)) by lia.
  apply H. lia.
Qed.

(* the inner loop over one limb: mask 2^t, .., 2^63, then the mask wraps to 0 *)
Lemma exp_bits_spec thr k n l : forall (m : nat) t j (fuel : nat) ax, 0 <= t -> t + Z.of_nat m = 64 ->
  j = (if t <? 64 then 2 ^ t else 0) -> (m + 1 <= fuel)%nat ->
  exp_bits thr k fuel j l ax n = exp_loop2 thr k m t l ax n.
Proof.
  induction m as [|m IH]; intros t j fuel ax Ht Htm Ej Hf; (destruct fuel as [|f]; [lia|]); cbn [exp_bits exp_loop2].
  - cbn [Z.of_nat] in Htm. destruct (Z.ltb_spec t 64); [lia|]. subst j. reflexivity.
  - rewrite Nat2Z.inj_succ in Htm. destruct (Z.ltb_spec t 64); [|lia]. subst j.
    assert (HP : 0 < 2 ^ t) by (apply Z.pow_pos_nonneg; lia).
    destruct (Z.eqb_spec (2 ^ t) 0); [lia|]. rewrite land_pow2_test by lia.
    apply IH; [lia | lia | | lia].
    rewrite modW_eq. replace (2 * 2 ^ t) with (2 ^ (t + 1)) by (rewrite Z.pow_add_r by lia; change (2 ^ 1) with 2; ring).
    destruct (Z.ltb_spec (t + 1) 64).
    + apply Z.mod_small. split; [apply Z.pow_nonneg; lia|]. rewrite W_eq. change 18446744073709551616 with (2 ^ 64).
      apply Z.pow_lt_mono_r; lia.
    + replace (t + 1) with 64 by lia. rewrite W_eq. reflexivity.
Qed.

Lemma exp_bits_limb thr k n l ax : exp_bits thr k 65 1 l ax n = exp_loop2 thr k 64 0 l ax n.
Proof. apply exp_bits_spec; [lia | reflexivity | reflexivity | lia]. Qed.

Lemma import_cons l r : mpz_import_le (l :: r) = l + W * mpz_import_le r.
Proof. reflexivity. Qed.

(* one limb (F = 64 steps) followed by the scan of the remaining limbs *)
Lemma exp_limbs_step thr k n (F G : nat) l V ax : Z.of_nat F = 64 -> 0 <= l < 2 ^ 64 ->
  exp_loop2 thr k G 0 V (exp_loop2 thr k F 0 l ax n) n = exp_loop2 thr k (F + G) 0 (l + 2 ^ 64 * V) ax n.
Proof.
  intros EF Hl. rewrite exp_loop2_app.
  rewrite (exp_loop2_ext thr k n F 0 0 l (l + 2 ^ 64 * V)).
  2:{ intros t Ht. rewrite testbit_split by lia. destruct (Z.ltb_spec (0 + t) 64); [reflexivity | lia]. }
  apply exp_loop2_ext. intros t Ht. rewrite testbit_split by lia.
  destruct (Z.ltb_spec (0 + Z.of_nat F + t) 64); [lia|]. f_equal. lia.
Qed.

(* exp_limbs (l :: r) = exp_limbs r (exp_bits 65 1 l ..): true by computation, but the kernel's conversion test must not be
   led into comparing two evaluated copies of the 65-step symbolic term (exponential); stated through an unfolded copy of
   the fixpoint, the test only unfolds the left-hand side once *)
Definition exp_limbs' := Eval cbv delta [exp_limbs] in exp_limbs.
Lemma exp_limbs'_eq : exp_limbs' = exp_limbs. Proof. reflexivity. Qed.
Lemma exp_limbs_cons' thr k l r ax n :
  exp_limbs thr k (l :: r) ax n = exp_limbs' thr k r (exp_bits thr k 65 1 l ax n) n.
Proof. reflexivity. Qed.
Lemma exp_limbs_cons thr k l r ax n :
  exp_limbs thr k (l :: r) ax n = exp_limbs thr k r (exp_bits thr k 65 1 l ax n) n.
Proof. rewrite exp_limbs_cons', exp_limbs'_eq. reflexivity. Qed.

Lemma exp_limbs_spec thr k n : forall ls ax, Forall (fun l => 0 <= l < W) ls ->
  exp_limbs thr k ls ax n = exp_loop2 thr k (64 * length ls) 0 (mpz_import_le ls) ax n.
Proof.
  induction ls as [|l r IH]; intros ax H.
  - reflexivity.
  - inversion H as [|? ? Hl Hr]; subst.
    rewrite exp_limbs_cons, IH, exp_bits_limb, import_cons by assumption.
    assert (En : (64 * length (l :: r) = 64 + 64 * length r)%nat) by (cbn [length]; lia).
    rewrite En. rewrite W_eq in *. assert (E64 : 18446744073709551616 = 2 ^ 64) by reflexivity. rewrite E64 in *.
    apply exp_limbs_step; [reflexivity | exact Hl].
Qed.

Lemma limbs_range k : forall b, wf k b -> Forall (fun l => 0 <= l < W) (limbs k b).
Proof.
  induction k as [|k IH]; intros b Hb.
  - cbn [limbs wf] in *. constructor; [exact Hb | constructor].
  - destruct Hb as [Hl Hh]. cbn [limbs]. apply Forall_app. split; apply IH; assumption.
Qed.

Lemma exp_scan_exact : Exp_scan_exact.
Proof.
  intros thr k b c n Hb Hc Hn. unfold exp_mod_scan, exp_mod.
  rewrite exp_limbs_spec by (apply limbs_range; assumption).
  rewrite exp_loop2_fst, import_limbs. f_equal.
  apply Nat2Z.inj. pose proof (nbits_pos k). rewrite Nat2Z.inj_mul, limbs_length, Z2Nat.id by lia.
  rewrite nbits_nlimbs. reflexivity.
Qed.
