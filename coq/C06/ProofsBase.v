(* Well-formedness, value function and comparison lemmas for the RecInt model. *)
From Coq Require Import ZArith Lia Bool.
From C06 Require Import Model.
Local Open Scope Z_scope.
Ltac Zify.zify_post_hook ::= Z.div_mod_to_equations.

Fixpoint wf (k : nat) : ru k -> Prop :=
  match k return ru k -> Prop with
  | O => fun x => 0 <= x < W
  | S k' => fun x => wf k' (fst x) /\ wf k' (snd x)
  end.

Lemma W_eq : W = 18446744073709551616. Proof. reflexivity. Qed.
Lemma W_pos : 0 < W. Proof. rewrite W_eq; lia. Qed.
Lemma modW_eq x : modW x = x mod W.
Proof. unfold modW, Wm1, W. change 18446744073709551615 with (Z.ones 64). rewrite Z.land_ones by lia. reflexivity. Qed.
Lemma divW_eq x : divW x = x / W.
Proof. unfold divW, W. rewrite Z.shiftr_div_pow2 by lia. reflexivity. Qed.
Global Opaque W modW divW.

Lemma B_pos k : 0 < B k.
Proof. induction k as [|k IH]; cbn [B]; [apply W_pos | nia]. Qed.

Lemma B_S k : B (S k) = B k * B k. Proof. reflexivity. Qed.
Lemma B_0 : B 0 = W. Proof. reflexivity. Qed.

Lemma val_S k (x : ru (S k)) : val (S k) x = val k (fst x) + B k * val k (snd x).
Proof. reflexivity. Qed.

Lemma val_range k x : wf k x -> 0 <= val k x < B k.
Proof.
  induction k as [|k IH]; intros H.
  - cbn [wf val B] in *. exact H.
  - destruct H as [H1 H2]. apply IH in H1. apply IH in H2.
    rewrite val_S, B_S. pose proof (B_pos k). nia.
Qed.

Lemma wf_zero k : wf k (zero k).
Proof. induction k; cbn; [pose proof W_pos; lia | auto]. Qed.
Lemma val_zero k : val k (zero k) = 0.
Proof. induction k as [|k IH]; [reflexivity|]. rewrite val_S. cbn [zero fst snd]. rewrite IH. lia. Qed.

Lemma wf_of_Z k z : wf k (of_Z k z).
Proof.
  revert z; induction k as [|k IH]; intros z; cbn [of_Z wf fst snd].
  - pose proof W_pos. lia.
  - split; apply IH.
Qed.

Lemma val_of_Z k z : val k (of_Z k z) = z mod B k.
Proof.
  revert z; induction k as [|k IH]; intros z.
  - reflexivity.
  - rewrite val_S. cbn [of_Z fst snd]. rewrite !IH, B_S.
    pose proof (B_pos k) as HB.
    rewrite Z.mod_mod by lia.
    (* z mod (b*b) = z mod b + b * ((z/b) mod b) *)
    rewrite Z.rem_mul_r by lia. reflexivity.
Qed.

Lemma val_inj k x y : wf k x -> wf k y -> val k x = val k y -> x = y.
Proof.
  induction k as [|k IH]; intros Hx Hy E.
  - exact E.
  - destruct x as [xl xh], y as [yl yh]. destruct Hx as [Hx1 Hx2], Hy as [Hy1 Hy2].
    rewrite !val_S in E. cbn [fst snd] in *.
    pose proof (val_range k _ Hx1). pose proof (val_range k _ Hx2).
    pose proof (val_range k _ Hy1). pose proof (val_range k _ Hy2).
    assert (val k xh = val k yh) by nia.
    assert (val k xl = val k yl) by nia.
    f_equal; apply IH; auto.
Qed.

Lemma of_Z_val k x : wf k x -> of_Z k (val k x) = x.
Proof.
  intros H. apply val_inj; auto using wf_of_Z.
  rewrite val_of_Z. apply Z.mod_small. apply val_range; auto.
Qed.

(* ---- comparison ---- *)
Lemma cmp_spec k a b : wf k a -> wf k b -> cmp k a b = Z.sgn (val k a - val k b).
Proof.
  induction k as [|k IH]; intros Ha Hb.
  - cbn [cmp val]. destruct (Z.ltb_spec a b); [lia|]. destruct (Z.eqb_spec a b); lia.
  - destruct Ha as [Ha1 Ha2], Hb as [Hb1 Hb2].
    cbn [cmp]. rewrite (IH _ _ Ha2 Hb2), (IH _ _ Ha1 Hb1), !val_S.
    pose proof (val_range k _ Ha1). pose proof (val_range k _ Ha2).
    pose proof (val_range k _ Hb1). pose proof (val_range k _ Hb2).
    destruct (Z.eqb_spec (Z.sgn (val k (snd a) - val k (snd b))) 0) as [E|E].
    + assert (val k (snd a) = val k (snd b)) by lia. replace (val k (fst a) + B k * val k (snd a) - (val k (fst b) + B k * val k (snd b))) with (val k (fst a) - val k (fst b)) by nia. reflexivity.
    + assert (Hd : val k (snd a) < val k (snd b) \/ val k (snd a) > val k (snd b)) by lia.
      destruct Hd; [rewrite !Z.sgn_neg by nia | rewrite !Z.sgn_pos by nia]; reflexivity.
Qed.

Lemma lt_spec k a b : wf k a -> wf k b -> lt k a b = (val k a <? val k b).
Proof. intros. unfold lt. rewrite cmp_spec by auto. destruct (Z.ltb_spec (val k a) (val k b)); lia. Qed.
Lemma le_spec k a b : wf k a -> wf k b -> le k a b = (val k a <=? val k b).
Proof. intros. unfold le. rewrite cmp_spec by auto. destruct (Z.leb_spec (val k a) (val k b)); lia. Qed.
Lemma eqb_spec k a b : wf k a -> wf k b -> eqb k a b = (val k a =? val k b).
Proof. intros. unfold eqb. rewrite cmp_spec by auto. destruct (Z.eqb_spec (val k a) (val k b)); lia. Qed.
