(* bezout_mod (repaired): the two coefficient sequences are two inv_mod loops run in lockstep. *)
From Coq Require Import ZArith Lia Bool.
From C06 Require Import Model ProofsBase ProofsRepr ProofsInvMod.
Local Open Scope Z_scope.

Lemma bezout_as_inv thr k : forall fuel lx x ly y a b c d,
  bezout_loop thr k fuel lx x ly y a b c d =
  (inv_mod_loop thr k fuel lx x a b d, inv_mod_loop thr k fuel ly y a b c).
Proof.
  induction fuel as [|f IH]; intros; cbn [bezout_loop inv_mod_loop]; [reflexivity|].
  destruct (is_zero k b); [reflexivity|]. destruct (div thr k a b) as [q r]. apply IH.
Qed.

Definition Bezout_mod_exact := forall thr k c d, wf k c -> wf k d -> 1 < val k c -> 1 < val k d ->
  Z.gcd (val k c) (val k d) = 1 ->
  let '(x, y) := bezout_mod thr k c d in
  wf k x /\ wf k y /\ val k x < val k d /\ val k y < val k c /\
  (val k x * val k c) mod val k d = 1 /\ (val k y * val k d) mod val k c = 1.
Lemma bezout_mod_exact : Bezout_mod_exact.
Proof.
  intros thr k c d Hc Hd H1c H1d Hg. unfold bezout_mod. rewrite bezout_as_inv.
  pose proof (nbits_pos k) as Hn. pose proof (B_pos k) as HB.
  pose proof (val_range _ _ Hc) as Rc. pose proof (val_range _ _ Hd) as Rd.
  assert (E1 : val k (of_Z k 1) = 1) by (rewrite val_of_Z; apply Z.mod_small; lia).
  assert (Hfuel : (2 * Z.to_nat (nbits k) + 1 <= euclid_fuel k)%nat).
  { unfold euclid_fuel. rewrite Z2Nat.inj_add, Z2Nat.inj_mul by lia. change (Z.to_nat 2) with 2%nat. lia. }
  assert (Hlt : val k d < 2 ^ Z.of_nat (Z.to_nat (nbits k))) by (rewrite Z2Nat.id by lia; rewrite <- B_nbits; lia).
  (* x: modulus d, multiplier c *)
  assert (HIx : Inv k d (val k c) (of_Z k 1) (zero k) c d).
  { repeat split; try assumption; try apply wf_of_Z; try apply wf_zero.
    - rewrite E1. lia.
    - rewrite val_zero. lia.
    - rewrite E1. f_equal. lia.
    - rewrite val_zero. rewrite Z.mul_0_l, Z.mod_0_l, Z.mod_same by lia. reflexivity. }
  destruct (inv_loop_spec thr k d (val k c) Hd H1d _ _ _ _ _ _ Hfuel HIx Hlt) as (Wx & Lx & Ex).
  (* y: modulus c, multiplier d *)
  assert (HIy : Inv k c (val k d) (zero k) (of_Z k 1) c d).
  { repeat split; try assumption; try apply wf_of_Z; try apply wf_zero.
    - rewrite val_zero. lia.
    - rewrite E1. lia.
    - rewrite val_zero. rewrite Z.mul_0_l, Z.mod_0_l, Z.mod_same by lia. reflexivity.
    - rewrite E1. f_equal. lia. }
  destruct (inv_loop_spec thr k c (val k d) Hc H1c _ _ _ _ _ _ Hfuel HIy Hlt) as (Wy & Ly & Ey).
  repeat split; assumption.
Qed.
