(* Bit operations: |, &, ^ on limb trees are Z.lor / Z.land / Z.lxor of the values; ~ is B-1-v; neg is -v mod B. *)
From Coq Require Import ZArith Lia Bool.
From C06 Require Import Model ProofsBase ProofsRepr ProofsAdd.
Local Open Scope Z_scope.
Ltac Zify.zify_post_hook ::= Z.div_mod_to_equations.

(* bits of lo + 2^n * hi *)
Lemma testbit_split n lo hi i : 0 <= n -> 0 <= lo < 2 ^ n -> 0 <= i ->
  Z.testbit (lo + 2 ^ n * hi) i = if i <? n then Z.testbit lo i else Z.testbit hi (i - n).
Proof.
  intros Hn Hlo Hi. assert (Hp : 0 < 2 ^ n) by (apply Z.pow_pos_nonneg; lia).
  destruct (Z.ltb_spec i n).
  - rewrite <- (Z.mod_pow2_bits_low (lo + 2 ^ n * hi) n i) by lia.
    f_equal. rewrite (Z.mul_comm (2 ^ n) hi), Z.mod_add by lia. apply Z.mod_small; lia.
  - replace i with ((i - n) + n) at 1 by lia. rewrite <- Z.div_pow2_bits by lia.
    f_equal. rewrite (Z.mul_comm (2 ^ n) hi), Z.div_add by lia. rewrite Z.div_small by lia. lia.
Qed.

Lemma testbit_small n x i : 0 <= x < 2 ^ n -> n <= i -> Z.testbit x i = false.
Proof.
  intros Hx Hi. destruct (Z.eq_dec x 0) as [->|Hz]; [apply Z.bits_0|].
  apply Z.bits_above_log2; [lia|].
  assert (0 <= n) by (destruct (Z.lt_ge_cases n 0) as [Hn|]; [rewrite Z.pow_neg_r in Hx by lia; lia | lia]).
  assert (Z.log2 x < n) by (apply Z.log2_lt_pow2; lia). lia.
Qed.

Lemma small_of_bits n x : 0 <= n -> 0 <= x -> (forall i, n <= i -> Z.testbit x i = false) -> x < 2 ^ n.
Proof.
  intros Hn Hx Hb. destruct (Z.eq_dec x 0) as [->|Hz]; [apply Z.pow_pos_nonneg; lia|].
  apply Z.log2_lt_pow2; [lia|]. destruct (Z.lt_ge_cases (Z.log2 x) n) as [|Hge]; [assumption|].
  specialize (Hb (Z.log2 x) Hge). rewrite Z.bit_log2 in Hb by lia. discriminate.
Qed.

Section Bitwise.
  Variable f : Z -> Z -> Z.
  Variable fb : bool -> bool -> bool.
  Hypothesis f_spec : forall x y i, Z.testbit (f x y) i = fb (Z.testbit x i) (Z.testbit y i).
  Hypothesis fb_ff : fb false false = false.
  Hypothesis f_nonneg : forall x y, 0 <= x -> 0 <= y -> 0 <= f x y.

  Lemma f_small n x y : 0 <= n -> 0 <= x < 2 ^ n -> 0 <= y < 2 ^ n -> 0 <= f x y < 2 ^ n.
  Proof.
    intros Hn Hx Hy. split; [apply f_nonneg; lia|].
    apply small_of_bits; [lia | apply f_nonneg; lia|].
    intros i Hi. rewrite f_spec.
    rewrite (testbit_small n x i), (testbit_small n y i), fb_ff by lia. reflexivity.
  Qed.

  Lemma f_split n a b c d : 0 <= n -> 0 <= a < 2 ^ n -> 0 <= c < 2 ^ n -> 0 <= b -> 0 <= d ->
    f (a + 2 ^ n * b) (c + 2 ^ n * d) = f a c + 2 ^ n * f b d.
  Proof.
    intros Hn Ha Hc Hb Hd. apply Z.bits_inj'. intros i Hi.
    pose proof (f_small n a c Hn Ha Hc) as Hs.
    rewrite f_spec, !testbit_split by lia.
    destruct (Z.ltb_spec i n); rewrite f_spec; reflexivity.
  Qed.

  Lemma bitop_spec k : forall x y, wf k x -> wf k y ->
    wf k (bitop f k x y) /\ val k (bitop f k x y) = f (val k x) (val k y).
  Proof.
    induction k as [|k IH]; intros x y Hx Hy.
    - cbn [bitop wf val] in *. split; [|reflexivity].
      rewrite W_eq in *. change 18446744073709551616 with (2 ^ 64) in *. apply f_small; lia.
    - destruct x as [xl xh], y as [yl yh]. destruct Hx as [Hxl Hxh], Hy as [Hyl Hyh].
      cbn [bitop fst snd] in *.
      destruct (IH xl yl Hxl Hyl) as [W1 E1]. destruct (IH xh yh Hxh Hyh) as [W2 E2].
      split; [split; assumption|].
      rewrite !val_S. cbn [fst snd]. rewrite E1, E2, B_nbits.
      pose proof (val_range _ _ Hxl). pose proof (val_range _ _ Hxh).
      pose proof (val_range _ _ Hyl). pose proof (val_range _ _ Hyh). rewrite B_nbits in *.
      pose proof (nbits_pos k).
      symmetry. apply f_split; lia.
  Qed.
End Bitwise.

Lemma lor_spec k x y : wf k x -> wf k y -> wf k (lor_ k x y) /\ val k (lor_ k x y) = Z.lor (val k x) (val k y).
Proof.
  apply (bitop_spec Z.lor orb); [apply Z.lor_spec | reflexivity | intros; apply Z.lor_nonneg; lia].
Qed.
Lemma land_spec k x y : wf k x -> wf k y -> wf k (land_ k x y) /\ val k (land_ k x y) = Z.land (val k x) (val k y).
Proof.
  apply (bitop_spec Z.land andb); [apply Z.land_spec | reflexivity | intros; apply Z.land_nonneg; lia].
Qed.
Lemma lxor_spec k x y : wf k x -> wf k y -> wf k (lxor_ k x y) /\ val k (lxor_ k x y) = Z.lxor (val k x) (val k y).
Proof.
  apply (bitop_spec Z.lxor xorb); [apply Z.lxor_spec | reflexivity | intros; apply Z.lxor_nonneg; lia].
Qed.

(* disjoint bit ranges: or = plus *)
Lemma lor_disjoint_Z d u v : 0 <= d -> 0 <= u < 2 ^ d -> 0 <= v -> Z.lor u (2 ^ d * v) = u + 2 ^ d * v.
Proof.
  intros Hd Hu Hv.
  assert (Hl : Z.land u (2 ^ d * v) = 0).
  { apply Z.bits_inj'. intros i Hi. rewrite Z.land_spec, Z.bits_0.
    destruct (Z.ltb_spec i d).
    - rewrite Z.mul_comm, Z.mul_pow2_bits_low by lia. apply andb_false_r.
    - rewrite (testbit_small d u i) by lia. reflexivity. }
  rewrite <- Z.lxor_lor by exact Hl. symmetry. apply Z.add_nocarry_lxor. exact Hl.
Qed.

(* ~c and -c *)
Lemma lnot_spec k : forall c, wf k c -> wf k (lnot k c) /\ val k (lnot k c) = B k - 1 - val k c.
Proof.
  induction k as [|k IH]; intros c Hc.
  - cbn [lnot wf val B] in *. unfold Wm1.
    assert (E : Z.lxor c 18446744073709551615 = 18446744073709551615 - c).
    { change 18446744073709551615 with (Z.ones 64). rewrite W_eq in Hc.
      assert (Hl : Z.land c (Z.lxor c (Z.ones 64)) = 0).
      { apply Z.bits_inj'. intros i Hi. rewrite Z.land_spec, Z.lxor_spec, Z.bits_0.
        destruct (Z.ltb_spec i 64).
        - rewrite Z.ones_spec_low by lia. destruct (Z.testbit c i); reflexivity.
        - rewrite (testbit_small 64 c i); [reflexivity | change (2^64) with 18446744073709551616; lia | lia]. }
      pose proof (Z.add_nocarry_lxor _ _ Hl) as Hs.
      rewrite <- Z.lxor_assoc, Z.lxor_nilpotent, Z.lxor_0_l in Hs. lia. }
    rewrite E. rewrite W_eq in *. lia.
  - destruct c as [cl ch]. destruct Hc as [Hcl Hch]. cbn [lnot fst snd].
    destruct (IH cl Hcl) as [W1 E1]. destruct (IH ch Hch) as [W2 E2].
    split; [split; assumption|]. rewrite !val_S, B_S. cbn [fst snd]. rewrite E1, E2. lia.
Qed.

Lemma neg_spec k c : wf k c -> wf k (neg k c) /\ val k (neg k c) = (- val k c) mod B k.
Proof.
  intros Hc. unfold neg. destruct (lnot_spec k c Hc) as [W1 E1].
  destruct (add_1_spec k (lnot k c) W1) as [W2 E2]. split; [exact W2|].
  pose proof (val_range _ _ W2). pose proof (val_range _ _ Hc). pose proof (B_pos k).
  pose proof (b2z_range (snd (add_1 k (lnot k c)))).
  apply Z.mod_unique with (q := b2z (snd (add_1 k (lnot k c))) - 1); [left; lia|].
  rewrite E1 in E2. lia.
Qed.

Definition Bitops_exact := forall k x y, wf k x -> wf k y ->
  (wf k (lor_ k x y) /\ val k (lor_ k x y) = Z.lor (val k x) (val k y)) /\
  (wf k (land_ k x y) /\ val k (land_ k x y) = Z.land (val k x) (val k y)) /\
  (wf k (lxor_ k x y) /\ val k (lxor_ k x y) = Z.lxor (val k x) (val k y)) /\
  (wf k (lnot k x) /\ val k (lnot k x) = B k - 1 - val k x) /\
  (wf k (neg k x) /\ val k (neg k x) = (- val k x) mod B k).
Lemma bitops_exact : Bitops_exact.
Proof.
  intros k x y Hx Hy. repeat split; try apply lor_spec; try apply land_spec; try apply lxor_spec;
    try apply lnot_spec; try apply neg_spec; assumption.
Qed.
