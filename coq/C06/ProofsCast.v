(* (double)rint<K>: the sign is kept; the magnitude is reduced to its lowest limb (as for ruint<K>). *)
From Coq Require Import ZArith Lia.
From C06 Require Import Model ModelNative ModelCast ProofsBase ProofsSigned ProofsNative2.
Local Open Scope Z_scope.

Definition Scast_floating_exact := forall k a, wf k a ->
  scast_flt k a = Z.sgn (sval k a) * (Z.abs (sval k a) mod W) /\
  (Z.abs (sval k a) < W -> scast_flt k a = sval k a).
Lemma scast_floating_exact : Scast_floating_exact.
Proof.
  intros k a Ha. unfold scast_flt.
  assert (E : (if is_neg k a then - low_limb k (neg k a) else low_limb k a) = Z.sgn (sval k a) * (Z.abs (sval k a) mod W)).
  { destruct (is_neg k a) eqn:Na.
    - destruct (abs_val k a Ha Na) as [Wn En]. rewrite (low_limb_spec k _ Wn), En.
      pose proof (val_range _ _ Wn) as R. rewrite En in R.
      assert (Hs : sval k a <= 0) by lia.
      destruct (Z.eq_dec (sval k a) 0) as [Z0|NZ].
      + rewrite Z0. reflexivity.
      + rewrite (Z.sgn_neg (sval k a)) by lia. rewrite (Z.abs_neq (sval k a)) by lia. lia.
    - rewrite (low_limb_spec k _ Ha). unfold sval. rewrite Na. pose proof (val_range _ _ Ha) as R.
      destruct (Z.eq_dec (val k a) 0) as [Z0|NZ].
      + rewrite Z0. reflexivity.
      + rewrite (Z.sgn_pos (val k a)) by lia. rewrite (Z.abs_eq (val k a)) by lia. lia. }
  split; [exact E|]. intros Hlt. rewrite E. rewrite Z.mod_small by lia.
  rewrite Z.mul_comm. apply Z.abs_sgn.
Qed.

Example scast_floating_example :
  scast_flt 2 (of_Z 2 (2 ^ 256 - 5)) = -5 /\ scast_flt 2 (of_Z 2 (2 ^ 256 - 2 ^ 70 - 3)) = - 3 /\ scast_flt 2 (of_Z 2 7) = 7.
Proof. vm_compute. repeat split; congruence. Qed.
