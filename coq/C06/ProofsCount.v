(* The shifts as the code computes them (count conversions to DItype / UDItype) agree with the shifts of Model.v for every
   count a 64-bit native integer can hold; addmul with a word.  Model: ModelCount.v. *)
From Coq Require Import ZArith Lia Bool.
From C06 Require Import Model ModelCount ProofsBase ProofsRepr ProofsAdd ProofsShift ProofsMisc.
Local Open Scope Z_scope.
Ltac Zify.zify_post_hook ::= Z.div_mod_to_equations.

(* every size the templates can be instantiated at (NBBITS is a 32-bit constant) satisfies nbits k < 2^62 *)
Definition Shift_count_conversions_exact := forall k a d, nbits k < 2 ^ 62 -> 0 <= d < 2 ^ 64 ->
  left_shift_cnt k a d = left_shift k a d /\ right_shift_cnt k a d = right_shift k a d.

Definition Addmul_word_exact := forall k a b c, wf k a -> wf k b -> 0 <= c < W ->
  wf k (addmul_w k a b c) /\ val k (addmul_w k a b c) = (val k a + val k b * c) mod B k.

(* ================= proofs ================= *)
Lemma as_DI_small d : 0 <= d < 9223372036854775808 -> as_DI d = d.
Proof. intros H. unfold as_DI. destruct (Z.ltb_spec d 9223372036854775808); lia. Qed.

Lemma shifts_cnt_eq k : nbits k < 4611686018427387904 -> forall a d, 0 <= d < 18446744073709551616 ->
  fst (shifts_cnt k) a d = fst (shifts k) a d /\ snd (shifts_cnt k) a d = snd (shifts k) a d.
Proof.
  induction k as [|k IH]; intros Hnb a d Hd.
  - cbn [shifts_cnt shifts fst snd]. split; reflexivity.
  - cbn [nbits] in Hnb. pose proof (nbits_pos k) as Hp.
    assert (Hk : nbits k < 4611686018427387904) by lia. specialize (IH Hk).
    assert (IHl : forall x e, 0 <= e < 18446744073709551616 -> fst (shifts_cnt k) x e = fst (shifts k) x e)
      by (intros; apply IH; assumption).
    assert (IHr : forall x e, 0 <= e < 18446744073709551616 -> snd (shifts_cnt k) x e = snd (shifts k) x e)
      by (intros; apply IH; assumption).
    clear IH. cbn [shifts_cnt shifts fst snd].
    destruct (Z.eqb_spec d 0); [split; reflexivity|].
    destruct (Z.eqb_spec d 1); [split; reflexivity|].
    destruct (Z.ltb_spec (2 * nbits k) d); [split; reflexivity|].
    rewrite as_DI_small by lia.
    destruct (Z.ltb_spec 0 (nbits k - d)), (Z.ltb_spec d (nbits k)); try lia.
    + rewrite !IHl, !IHr by lia. split; reflexivity.
    + destruct (Z.ltb_spec (nbits k - d) 0), (Z.ltb_spec (nbits k) d); try lia; [|split; reflexivity].
      replace (- (nbits k - d)) with (d - nbits k) by lia. rewrite IHl, IHr by lia. split; reflexivity.
Qed.

Lemma shift_count_conversions_exact : Shift_count_conversions_exact.
Proof.
  intros k a d Hk Hd. unfold left_shift_cnt, right_shift_cnt, left_shift, right_shift.
  apply shifts_cnt_eq; assumption.
Qed.

Lemma addmul_word_exact : Addmul_word_exact.
Proof.
  intros k a b c Ha Hb Hc. unfold addmul_w.
  destruct (lmul_word_exact k b c Hb Hc) as (W1 & R1 & E1).
  destruct (add_c_spec k a _ Ha W1) as [W2 E2]. split; [exact W2|].
  pose proof (val_range _ _ W2). pose proof (b2z_range (snd (add_c k a (fst (lmul_w k b c))))).
  apply Z.mod_unique with (q := snd (lmul_w k b c) + b2z (snd (add_c k a (fst (lmul_w k b c))))); [left; lia | lia].
Qed.

(* non-vacuity: a count only a 64-bit unsigned type can hold (its DItype reading is negative), and the sizes the check drives *)
Example shift_count_example :
  nbits 5 < 2 ^ 62 /\ 0 <= 2 ^ 64 - 1 < 2 ^ 64 /\ as_DI (2 ^ 64 - 1) = -1 /\
  val 2 (left_shift_cnt 2 (of_Z 2 (2 ^ 200 + 3)) 64) = (2 ^ 64 * 3) /\ val 2 (right_shift_cnt 2 (of_Z 2 (2 ^ 200 + 3)) (2 ^ 64 - 1)) = 0.
Proof. vm_compute. repeat split; congruence. Qed.
