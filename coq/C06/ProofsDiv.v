(* Euclidean division: the 3-by-2 step (quotient estimate, at most two corrections) and the 2-by-1 step built from
   it are exact at every K, given exactness at the limb level; by induction on k. *)
From Coq Require Import ZArith Lia Bool.
From C06 Require Import Model ProofsBase ProofsRepr ProofsAdd ProofsSubW ProofsBits ProofsShift ProofsMul ProofsKara ProofsMulTop.
Local Open Scope Z_scope.
Ltac Zify.zify_post_hook ::= Z.div_mod_to_equations.

Definition div21_ok k (f : ru k -> ru k -> ru k -> ru k * ru k) := forall ah al b,
  wf k ah -> wf k al -> wf k b -> B k <= 2 * val k b -> val k ah < val k b ->
  wf k (fst (f ah al b)) /\ wf k (snd (f ah al b)) /\
  val k ah * B k + val k al = val k (fst (f ah al b)) * val k b + val k (snd (f ah al b)) /\
  val k (snd (f ah al b)) < val k b.

Definition div32_ok k (f : ru k -> ru k -> ru k -> ru k -> ru k -> ru k * ru k * ru k) := forall a2 a1 a0 b1 b0,
  wf k a2 -> wf k a1 -> wf k a0 -> wf k b1 -> wf k b0 ->
  B k <= 2 * val k b1 -> val k a2 * B k + val k a1 < val k b1 * B k + val k b0 ->
  let '(q, r1, r0) := f a2 a1 a0 b1 b0 in
  wf k q /\ wf k r1 /\ wf k r0 /\
  (val k a2 * B k + val k a1) * B k + val k a0 = val k q * (val k b1 * B k + val k b0) + (val k r1 * B k + val k r0) /\
  val k r1 * B k + val k r0 < val k b1 * B k + val k b0.

(* the part of div_3_2 after the quotient estimate *)
Definition div32_tail k (lm : ru k -> ru k -> ru k * ru k) (q c : ru k) (ret1 : bool) (a0 b1 b0 : ru k) : ru k * ru k * ru k :=
  let '(d0, d1) := lm q b0 in
  let '(r0, ret_sub) := sub_c k a0 d0 in
  let '(r1, _) := sub_wc k c d1 ret_sub in
  if negb ret1 && (lt k c d1 || (eqb k d1 c && lt k a0 d0)) then
    let q := fst (sub_1 k q) in
    let '(r0, rs) := add_c k r0 b0 in
    let '(r1, ret) := add_wc k r1 b1 rs in
    if negb ret then
      let q := fst (sub_1 k q) in
      let '(r0, rs) := add_c k r0 b0 in
      let '(r1, _) := add_wc k r1 b1 rs in
      (q, r1, r0)
    else (q, r1, r0)
  else (q, r1, r0).

Lemma div32_step_unfold k lm d21 a2 a1 a0 b1 b0 :
  div32_step k lm d21 a2 a1 a0 b1 b0 =
  let '(q, c, ret1) :=
    if lt k a2 b1 then let '(q, c) := d21 a2 a1 b1 in (q, c, false)
    else let '(c, r) := add_c k a1 b1 in (ones k, c, r) in
  div32_tail k lm q c ret1 a0 b1 b0.
Proof. unfold div32_step, div32_tail. destruct (lt k a2 b1); [destruct (d21 a2 a1 b1) | destruct (add_c k a1 b1)]; reflexivity. Qed.

Lemma lex_lt Bk c d1 a0 d0 : 0 <= a0 < Bk -> 0 <= d0 < Bk ->
  ((c <? d1) || ((d1 =? c) && (a0 <? d0))) = (a0 + Bk * c <? d0 + Bk * d1).
Proof.
  intros. destruct (Z.ltb_spec c d1), (Z.eqb_spec d1 c), (Z.ltb_spec a0 d0), (Z.ltb_spec (a0 + Bk * c) (d0 + Bk * d1));
    cbn [orb andb]; try reflexivity; nia.
Qed.

Lemma wrap_sub M r x T0 : 0 <= r < M -> 0 <= x <= 1 -> r - M * x = T0 -> (T0 < 0 -> x = 1) /\ (0 <= T0 -> x = 0).
Proof. intros. split; intros; nia. Qed.

(* T = C*B + a0 - q*b0 is the true remainder candidate A - q*Bv, with C = c + B*ret1 *)
Lemma div32_tail_ok k lm q c ret1 a0 b1 b0 HA :
  lmul_ok k lm -> wf k q -> wf k c -> wf k a0 -> wf k b1 -> wf k b0 -> 0 <= HA ->
  HA = val k q * val k b1 + (val k c + B k * b2z ret1) ->
  let Bv := val k b1 * B k + val k b0 in
  let T := HA * B k + val k a0 - val k q * Bv in
  - 2 * Bv < T < Bv -> (ret1 = true -> 0 <= T) ->
  let '(q', r1, r0) := div32_tail k lm q c ret1 a0 b1 b0 in
  wf k q' /\ wf k r1 /\ wf k r0 /\
  HA * B k + val k a0 = val k q' * Bv + (val k r1 * B k + val k r0) /\ val k r1 * B k + val k r0 < Bv.
Proof.
  intros Hlm Wq Wc Wa0 Wb1 Wb0 HA0 EHA Bv T HT Hret.
  unfold div32_tail.
  pose proof (Hlm q b0 Wq Wb0) as (Wd0 & Wd1 & Ed). destruct (lm q b0) as [d0 d1]. cbn [fst snd] in *.
  pose proof (sub_c_spec k a0 d0 Wa0 Wd0) as (Wr0 & Er0). destruct (sub_c k a0 d0) as [r0 rs]. cbn [fst snd] in *.
  pose proof (sub_wc_spec k c d1 rs Wc Wd1) as (Wr1 & Er1). destruct (sub_wc k c d1 rs) as [r1 x]. cbn [fst snd] in *.
  rewrite !lt_spec, eqb_spec by assumption.
  pose proof (B_pos k) as HB.
  pose proof (val_range _ _ Wq) as Rq. pose proof (val_range _ _ Wc) as Rc. pose proof (val_range _ _ Wa0) as Ra0.
  pose proof (val_range _ _ Wb1) as Rb1. pose proof (val_range _ _ Wb0) as Rb0.
  pose proof (val_range _ _ Wd0) as Rd0. pose proof (val_range _ _ Wd1) as Rd1.
  pose proof (val_range _ _ Wr0) as Rr0. pose proof (val_range _ _ Wr1) as Rr1.
  pose proof (b2z_range rs) as Rrs. pose proof (b2z_range x) as Rx. pose proof (b2z_range ret1) as Rret1.
  rewrite (lex_lt (B k)) by assumption.
  (* r - B^2 x = T0 := a0 + B c - q b0, and T = T0 + B^2 ret1 *)
  assert (ET : T = val k a0 + B k * val k c - val k q * val k b0 + B k * B k * b2z ret1) by (subst T Bv; rewrite EHA; ring).
  assert (Er : val k r0 + B k * val k r1 - B k * B k * b2z x = val k a0 + B k * val k c - val k q * val k b0).
  { clear - Ed Er0 Er1. mulhyp Er1 (B k). lia. }
  assert (Hcond : (val k a0 + B k * val k c <? val k d0 + B k * val k d1) = (val k a0 + B k * val k c - val k q * val k b0 <? 0)).
  { rewrite <- Ed. destruct (Z.ltb_spec (val k a0 + B k * val k c) (val k d0 + B k * val k d1)), (Z.ltb_spec (val k a0 + B k * val k c - (val k d0 + B k * val k d1)) 0); try reflexivity; lia. }
  rewrite Hcond. clear Hcond.
  assert (HBv : 0 < Bv < B k * B k).
  { split; [lia|]. subst Bv. rewrite (Z.mul_comm (val k b1)), Z.add_comm. apply pair_range; lia. }
  set (T0 := val k a0 + B k * val k c - val k q * val k b0) in *.
  assert (Rr : 0 <= val k r0 + B k * val k r1 < B k * B k) by (apply pair_range; lia).
  assert (EA : HA * B k + val k a0 = val k q * Bv + T) by (subst T; ring).
  assert (HTq : forall n, 0 <= n -> val k q <= n -> - n * Bv <= T).
  { intros n Hn Hq. rewrite ET in *. clear - EA HA0 Ra0 HB Hn Hq HBv. nia. }
  destruct ret1; cbn [negb andb b2z] in *.
  - (* the q = B-1 branch produced a carry: no correction *)
    specialize (Hret eq_refl).
    destruct (wrap_sub (B k * B k) _ _ _ Rr Rx Er) as [Hx _]. specialize (Hx ltac:(lia)).
    repeat split; try assumption; lia.
  - destruct (Z.ltb_spec T0 0) as [Hneg|Hpos].
    + (* first correction *)
      destruct (wrap_sub (B k * B k) _ _ _ Rr Rx Er) as [Hx _]. specialize (Hx Hneg).
      assert (Hq1 : 1 <= val k q) by (destruct (Z.le_gt_cases 1 (val k q)); [assumption | specialize (HTq 0 ltac:(lia) ltac:(lia)); lia]).
      pose proof (sub_1_spec k q Wq) as (Wq1 & Eq1). destruct (sub_1 k q) as [q1 y1]. cbn [fst snd] in *.
      pose proof (val_range _ _ Wq1) as Rq1. pose proof (b2z_range y1) as Ry1.
      destruct (wrap_sub (B k) _ _ _ Rq1 Ry1 Eq1) as [_ Hy1]. specialize (Hy1 ltac:(lia)).
      assert (Ey1 : val k q1 = val k q - 1) by (rewrite Hy1 in Eq1; lia).
      pose proof (add_c_spec k r0 b0 Wr0 Wb0) as (Wr0' & Er0'). destruct (add_c k r0 b0) as [r0' rs']. cbn [fst snd] in *.
      pose proof (add_wc_spec k r1 b1 rs' Wr1 Wb1) as (Wr1' & Er1'). destruct (add_wc k r1 b1 rs') as [r1' ret]. cbn [fst snd] in *.
      pose proof (val_range _ _ Wr0') as Rr0'. pose proof (val_range _ _ Wr1') as Rr1'. pose proof (b2z_range ret) as Rret.
      assert (Er' : val k r0' + B k * val k r1' + B k * B k * b2z ret = val k r0 + B k * val k r1 + Bv).
      { subst Bv. clear - Er0' Er1'. mulhyp Er1' (B k). lia. }
      assert (Rr' : 0 <= val k r0' + B k * val k r1' < B k * B k) by (apply pair_range; lia).
      assert (EBq1 : val k q1 * Bv = val k q * Bv - Bv) by (rewrite Ey1; ring).
      destruct ret; cbn [negb b2z] in *.
      * repeat split; try assumption; lia.
      * (* second correction *)
        assert (Hq2 : 2 <= val k q) by (destruct (Z.le_gt_cases 2 (val k q)); [assumption | specialize (HTq 1 ltac:(lia) ltac:(lia)); lia]).
        pose proof (sub_1_spec k q1 Wq1) as (Wq2 & Eq2). destruct (sub_1 k q1) as [q2 y2]. cbn [fst snd] in *.
        pose proof (val_range _ _ Wq2) as Rq2. pose proof (b2z_range y2) as Ry2.
        destruct (wrap_sub (B k) _ _ _ Rq2 Ry2 Eq2) as [_ Hy2]. specialize (Hy2 ltac:(lia)).
        assert (Ey2 : val k q2 = val k q - 2) by (rewrite Hy2 in Eq2; lia).
        pose proof (add_c_spec k r0' b0 Wr0' Wb0) as (Wr0'' & Er0''). destruct (add_c k r0' b0) as [r0'' rs'']. cbn [fst snd] in *.
        pose proof (add_wc_spec k r1' b1 rs'' Wr1' Wb1) as (Wr1'' & Er1''). destruct (add_wc k r1' b1 rs'') as [r1'' z]. cbn [fst snd] in *.
        pose proof (val_range _ _ Wr0'') as Rr0''. pose proof (val_range _ _ Wr1'') as Rr1''. pose proof (b2z_range z) as Rz.
        assert (Er'' : val k r0'' + B k * val k r1'' + B k * B k * b2z z = val k r0' + B k * val k r1' + Bv).
        { subst Bv. clear - Er0'' Er1''. mulhyp Er1'' (B k). lia. }
        assert (Rr'' : 0 <= val k r0'' + B k * val k r1'' < B k * B k) by (apply pair_range; lia).
        assert (EBq2 : val k q2 * Bv = val k q * Bv - 2 * Bv) by (rewrite Ey2; ring).
        assert (Hz : b2z z = 1) by lia.
        repeat split; try assumption; lia.
    + destruct (wrap_sub (B k * B k) _ _ _ Rr Rx Er) as [_ Hx]. specialize (Hx Hpos).
      repeat split; try assumption; lia.
Qed.

Lemma div32_step_ok k lm d21 : lmul_ok k lm -> div21_ok k d21 -> div32_ok k (div32_step k lm d21).
Proof.
  intros Hlm Hd21 a2 a1 a0 b1 b0 Wa2 Wa1 Wa0 Wb1 Wb0 Hnorm Hlt.
  rewrite div32_step_unfold. rewrite lt_spec by assumption.
  pose proof (B_pos k) as HB.
  pose proof (val_range _ _ Wa2) as Ra2. pose proof (val_range _ _ Wa1) as Ra1. pose proof (val_range _ _ Wa0) as Ra0.
  pose proof (val_range _ _ Wb1) as Rb1. pose proof (val_range _ _ Wb0) as Rb0.
  set (HA := val k a2 * B k + val k a1) in *.
  assert (HA0 : 0 <= HA) by (subst HA; nia).
  destruct (Z.ltb_spec (val k a2) (val k b1)) as [Hlt2|Hge2].
  - (* quotient estimate by the 2-by-1 division *)
    pose proof (Hd21 a2 a1 b1 Wa2 Wa1 Wb1 Hnorm Hlt2) as (Wq & Wc & Eq & Rc).
    destruct (d21 a2 a1 b1) as [q c]. cbn [fst snd] in *.
    pose proof (val_range _ _ Wq) as Rq. pose proof (val_range _ _ Wc) as Rcc.
    pose proof (div32_tail_ok k lm q c false a0 b1 b0 HA Hlm Wq Wc Wa0 Wb1 Wb0 HA0) as Ht.
    cbn [b2z] in Ht. specialize (Ht ltac:(subst HA; lia)). cbn zeta in Ht.
    apply Ht; [|discriminate].
    fold HA in Eq. clear Ht. split.
    + (* T > -2 Bv: q*b0 < B*B <= 2*b1*B *)
      assert (val k q * val k b0 < B k * B k) by (clear - Rq Rb0 HB; nia).
      assert (HA * B k + val k a0 - val k q * (val k b1 * B k + val k b0)
              = val k c * B k + val k a0 - val k q * val k b0) by (rewrite Eq; ring).
      clear - H H0 Hnorm Rcc Ra0 HB Rb1 Rb0. nia.
    + assert (HA * B k + val k a0 - val k q * (val k b1 * B k + val k b0)
              = val k c * B k + val k a0 - val k q * val k b0) by (rewrite Eq; ring).
      clear - H Rc Rcc Ra0 HB Rb1 Rb0 Rq. nia.
  - (* a2 = b1: q = B - 1 *)
    assert (E2 : val k a2 = val k b1) by (subst HA; clear - Hlt Hge2 Ra1 Rb0 HB; nia).
    assert (L1 : val k a1 < val k b0) by (subst HA; clear - Hlt E2 HB; nia).
    pose proof (add_c_spec k a1 b1 Wa1 Wb1) as (Wc & Ec). destruct (add_c k a1 b1) as [c r]. cbn [fst snd] in *.
    destruct (val_ones k) as [Wo Eo].
    pose proof (val_range _ _ Wc) as Rcc. pose proof (b2z_range r) as Rr.
    pose proof (div32_tail_ok k lm (ones k) c r a0 b1 b0 HA Hlm Wo Wc Wa0 Wb1 Wb0 HA0) as Ht.
    rewrite Eo in Ht. specialize (Ht ltac:(subst HA; rewrite E2; clear - Ec; lia)). cbn zeta in Ht.
    apply Ht; clear Ht.
    + assert (ET : HA * B k + val k a0 - (B k - 1) * (val k b1 * B k + val k b0)
                   = (val k a1 + val k b1) * B k + val k a0 - (B k - 1) * val k b0) by (subst HA; rewrite E2; ring).
      rewrite ET. clear - L1 Ra0 Ra1 Rb0 Rb1 HB Hnorm. split; nia.
    + intros Hr. subst r. cbn [b2z] in Ec.
      assert (ET : HA * B k + val k a0 - (B k - 1) * (val k b1 * B k + val k b0)
                   = (val k a1 + val k b1) * B k + val k a0 - (B k - 1) * val k b0) by (subst HA; rewrite E2; ring).
      rewrite ET. clear - Ra0 Ra1 Rb0 Rb1 HB Ec Rcc. nia.
Qed.

Lemma div21_step_ok k d32 : div32_ok k d32 -> div21_ok (S k) (div21_step k d32).
Proof.
  intros H32 [ah0 ah1] [al0 al1] [b0 b1] [Wah0 Wah1] [Wal0 Wal1] [Wb0 Wb1] Hnorm Hlt.
  cbn [fst snd] in *. unfold div21_step. cbn [fst snd].
  rewrite !val_S in *. cbn [fst snd] in *. rewrite B_S in *.
  pose proof (B_pos k) as HB. destruct (B_even k) as (hb & Ehb & Hhb).
  pose proof (val_range _ _ Wb0) as Rb0. pose proof (val_range _ _ Wb1) as Rb1.
  pose proof (val_range _ _ Wah0) as Rah0. pose proof (val_range _ _ Wah1) as Rah1.
  assert (Hn1 : B k <= 2 * val k b1).
  { destruct (Z.le_gt_cases (B k) (2 * val k b1)) as [|Hc]; [assumption|exfalso].
    assert (2 * val k b1 <= B k - 2) by lia. clear - Hnorm Rb0 Rb1 HB H. nia. }
  assert (Hl1 : val k ah1 * B k + val k ah0 < val k b1 * B k + val k b0) by lia.
  pose proof (H32 ah1 ah0 al1 b1 b0 Wah1 Wah0 Wal1 Wb1 Wb0 Hn1 Hl1) as H1.
  destruct (d32 ah1 ah0 al1 b1 b0) as [[qh s1] s0]. destruct H1 as (Wqh & Ws1 & Ws0 & E1 & L1).
  pose proof (H32 s1 s0 al0 b1 b0 Ws1 Ws0 Wal0 Wb1 Wb0 Hn1 L1) as H2.
  destruct (d32 s1 s0 al0 b1 b0) as [[ql r1] r0]. destruct H2 as (Wql & Wr1 & Wr0 & E2 & L2).
  cbn [fst snd]. split; [split; assumption|]. split; [split; assumption|].
  rewrite ?val_S; cbn [fst snd]. split; [|lia].
  clear - E1 E2. mulhyp E1 (B k). lia.
Qed.
