(* Limb level of the division: div_3_2 for ruint<6> (two's-complement bookkeeping of the two corrections),
   given the specification of the 2-by-1 limb division. *)
From Coq Require Import ZArith Lia Bool.
From C06 Require Import Model ProofsBase ProofsAdd ProofsMul ProofsDiv.
Local Open Scope Z_scope.
Ltac Zify.zify_post_hook ::= Z.div_mod_to_equations.

(* what recint_udiv_qrnnd must deliver: normalised divisor, high word below the divisor *)
Definition udiv_ok (f : Z -> Z -> Z -> Z * Z) := forall n1 n0 d,
  0 <= n1 < d -> 0 <= n0 < W -> d < W -> W <= 2 * d ->
  0 <= fst (f n1 n0 d) < W /\ 0 <= snd (f n1 n0 d) < d /\ n1 * W + n0 = fst (f n1 n0 d) * d + snd (f n1 n0 d).

Lemma modW_small x : 0 <= x < W -> modW x = x.
Proof. intros. rewrite modW_eq. apply Z.mod_small; assumption. Qed.
Lemma modW_add x : W <= x < 2 * W -> modW x = x - W.
Proof. intros. rewrite modW_eq. symmetry. apply Z.mod_unique with (q := 1); [left; lia | lia]. Qed.
Lemma modW_sub x : - W <= x < 0 -> modW x = x + W.
Proof. intros. rewrite modW_eq. symmetry. apply Z.mod_unique with (q := -1); [left; lia | lia]. Qed.

(* r := (r + Bv) mod W^2 on two limbs, as the code does it *)
Lemma add2_limbs r1 r0 b1 b0 : 0 <= r1 < W -> 0 <= r0 < W -> 0 <= b1 < W -> 0 <= b0 < W ->
  let r0' := modW (r0 + b0) in
  let r1' := modW (r1 + b1) in
  let r1'' := if r0' <? b0 then modW (r1' + 1) else r1' in
  0 <= r0' < W /\ 0 <= r1'' < W /\ r0' + W * r1'' = (r0 + W * r1 + (b0 + W * b1)) mod (W * W).
Proof.
  intros Hr1 Hr0 Hb1 Hb0. cbn zeta. rewrite !modW_eq. rewrite W_eq in *.
  destruct (Z.ltb_spec ((r0 + b0) mod 18446744073709551616) b0); lia.
Qed.

Definition div32_0_tail (q c : Z) (ret : bool) (a0 b1 b0 : Z) : Z * Z * Z :=
  let '(d1, d0) := umul_ppmm q b0 in
  let '(r1, r0) := sub_ddmmss c a0 d1 d0 in
  if negb ret && ((c <? d1) || ((d1 =? c) && (a0 <? d0))) then
    let q := modW (q - 1) in
    let r0 := modW (r0 + b0) in
    let r1 := modW (r1 + b1) in
    let r1 := if r0 <? b0 then modW (r1 + 1) else r1 in
    if (b1 <? r1) || ((r1 =? b1) && (b0 <=? r0)) then
      let q := modW (q - 1) in
      let r0 := modW (r0 + b0) in
      let r1 := modW (r1 + b1) in
      let r1 := if r0 <? b0 then modW (r1 + 1) else r1 in
      (q, r1, r0)
    else (q, r1, r0)
  else (q, r1, r0).

Lemma div32_0_unfold a2 a1 a0 b1 b0 :
  div32_0 a2 a1 a0 b1 b0 =
  let '(q, c, ret) :=
    (if a2 <? b1 then let '(q, c) := udiv_qrnnd a2 a1 b1 in (q, c, false)
     else let c := modW (a1 + b1) in (Wm1, c, c <? a1)) in
  div32_0_tail q c ret a0 b1 b0.
Proof. unfold div32_0, div32_0_tail. destruct (a2 <? b1); [destruct (udiv_qrnnd a2 a1 b1)|]; reflexivity. Qed.

Lemma div32_0_ok : udiv_ok udiv_qrnnd -> div32_ok 0 div32_0.
Proof.
  intros Hu a2 a1 a0 b1 b0 Wa2 Wa1 Wa0 Wb1 Wb0 Hnorm Hlt.
  cbn [wf val B] in *. rewrite div32_0_unfold.
  pose proof W_pos as HW.
  set (HA := a2 * W + a1) in *.
  (* the estimate: HA = q*b1 + C with C = c + W*ret *)
  assert (Hest : exists q c ret, 0 <= q < W /\ 0 <= c < W /\
            (if a2 <? b1 then let '(q, c) := udiv_qrnnd a2 a1 b1 in (q, c, false)
             else let c := modW (a1 + b1) in (Wm1, c, c <? a1)) = (q, c, ret) /\
            HA = q * b1 + (c + W * b2z ret) /\
            (let T := HA * W + a0 - q * (b1 * W + b0) in - 2 * (b1 * W + b0) < T < b1 * W + b0 /\ (ret = true -> 0 <= T))).
  { destruct (Z.ltb_spec a2 b1) as [Hlt2|Hge2].
    - pose proof (Hu a2 a1 b1 ltac:(lia) Wa1 ltac:(lia) Hnorm) as (Rq & Rc & Eq).
      destruct (udiv_qrnnd a2 a1 b1) as [q c]. cbn [fst snd] in *.
      exists q, c, false. cbn [b2z]. split; [lia|]. split; [lia|]. split; [reflexivity|]. split; [subst HA; lia|].
      cbn zeta. split; [|discriminate].
      assert (E : HA * W + a0 - q * (b1 * W + b0) = c * W + a0 - q * b0) by (subst HA; rewrite Eq; ring).
      rewrite E. assert (q * b0 < W * W) by (clear - Rq Wb0 HW; nia). assert (0 <= q * b0) by (clear - Rq Wb0; nia). clear - H H0 Hnorm Rc Wa0 HW Wb1 Wb0. split; nia.
    - assert (E2 : a2 = b1) by (subst HA; clear - Hlt Hge2 Wa1 Wb0 HW; nia).
      assert (L1 : a1 < b0) by (subst HA; clear - Hlt E2 HW; nia).
      exists Wm1, (modW (a1 + b1)), (modW (a1 + b1) <? a1). unfold Wm1. rewrite modW_eq.
      assert (Ec : (a1 + b1) mod W + W * b2z ((a1 + b1) mod W <? a1) = a1 + b1).
      { rewrite W_eq in *. destruct (Z.ltb_spec ((a1 + b1) mod 18446744073709551616) a1); cbn [b2z]; lia. }
      split; [rewrite W_eq; lia|]. split; [apply Z.mod_pos_bound; lia|]. split; [reflexivity|].
      split; [subst HA; rewrite E2, Ec; rewrite W_eq; ring|].
      cbn zeta.
      assert (E : HA * W + a0 - 18446744073709551615 * (b1 * W + b0) = (a1 + b1) * W + a0 - (W - 1) * b0)
        by (subst HA; rewrite E2; rewrite W_eq; ring).
      rewrite E. split; [clear - L1 Wa0 Wa1 Wb0 Wb1 HW Hnorm; split; nia|].
      intros Hr. rewrite Hr in Ec. cbn [b2z] in Ec.
      pose proof (Z.mod_pos_bound (a1 + b1) W HW). clear - Wa0 Wa1 Wb0 Wb1 HW Ec H. nia. }
  destruct Hest as (q & c & ret & Rq & Rc & Eest & EHA & HT & Hret).
  rewrite Eest. clear Eest. unfold div32_0_tail.
  set (Bv := b1 * W + b0) in *. set (T := HA * W + a0 - q * Bv) in *.
  pose proof (umul_ppmm_spec q b0 Rq Wb0) as Hm. destruct (umul_ppmm q b0) as [d1 d0]. destruct Hm as (Rd1 & Rd0 & Ed).
  pose proof (sub_ddmmss_spec c a0 d1 d0 Rc Wa0 Rd1 Rd0) as Hs. destruct (sub_ddmmss c a0 d1 d0) as [r1 r0].
  destruct Hs as (Rr1 & Rr0 & Er).
  rewrite (lex_lt W) by assumption.
  assert (HBv : 0 < Bv < W * W) by (split; [lia | subst Bv; clear - Wb1 Wb0 HW; nia]).
  assert (ET : T = a0 + W * c - (d0 + W * d1) + W * W * b2z ret) by (subst T Bv; rewrite EHA, Ed; ring).
  assert (HA0 : 0 <= HA) by (subst HA; clear - Wa2 Wa1 HW; nia).
  assert (HTq : forall n, 0 <= n -> q <= n -> - n * Bv <= T).
  { intros n Hn Hq. subst T. clear - HA0 Wa0 HW Hn Hq HBv. nia. }
  assert (HTW : - (W * W) < T - W * W * b2z ret) by (rewrite ET; clear - Wa0 Rc Rd0 Rd1 HW; nia).
  set (X := a0 + W * c - (d0 + W * d1)) in *.
  assert (RX : - (W * W) < X < W * W) by (subst X; clear - Wa0 Rc Rd0 Rd1 HW; nia).
  pose proof (b2z_range ret) as Rret.
  destruct ret; cbn [negb andb b2z] in *.
  - specialize (Hret eq_refl).
    assert (Er' : r0 + W * r1 = T).
    { rewrite Er. symmetry. apply Z.mod_unique with (q := -1); [left; lia | lia]. }
    repeat split; try lia.
  - destruct (Z.ltb_spec (a0 + W * c) (d0 + W * d1)) as [Hneg|Hpos].
    + assert (Er' : r0 + W * r1 = T + W * W).
      { rewrite Er. symmetry. apply Z.mod_unique with (q := -1); [left; lia | lia]. }
      assert (Hq1 : 1 <= q) by (destruct (Z.le_gt_cases 1 q); [assumption | specialize (HTq 0 ltac:(lia) ltac:(lia)); lia]).
      rewrite (modW_small (q - 1)) by lia.
      pose proof (add2_limbs r1 r0 b1 b0 Rr1 Rr0 Wb1 Wb0) as Ha. cbn zeta in Ha.
      set (r0' := modW (r0 + b0)) in *. set (r1' := if r0' <? b0 then modW (modW (r1 + b1) + 1) else modW (r1 + b1)) in *.
      destruct Ha as (Rr0' & Rr1' & Ea).
      assert (Etest : ((b1 <? r1') || ((r1' =? b1) && (b0 <=? r0'))) = (Bv <=? r0' + W * r1')).
      { subst Bv. clear - Rr0' Rr1' Wb0 Wb1 HW.
        destruct (Z.ltb_spec b1 r1'), (Z.eqb_spec r1' b1), (Z.leb_spec b0 r0'), (Z.leb_spec (b1 * W + b0) (r0' + W * r1'));
          cbn [orb andb]; try reflexivity; nia. }
      rewrite Etest. clear Etest.
      destruct (Z.le_gt_cases 0 (T + Bv)) as [Hok|Hneg2].
      * (* one correction *)
        assert (Ea' : r0' + W * r1' = T + Bv).
        { rewrite Ea. symmetry. apply Z.mod_unique with (q := 1); [left; lia | subst Bv; lia]. }
        destruct (Z.leb_spec Bv (r0' + W * r1')); [lia|].
        assert (EBq : (q - 1) * Bv = q * Bv - Bv) by ring.
        repeat split; try lia.
      * (* two corrections *)
        assert (Ea' : r0' + W * r1' = T + Bv + W * W).
        { rewrite Ea. symmetry. apply Z.mod_unique with (q := 0); [left; lia | subst Bv; lia]. }
        destruct (Z.leb_spec Bv (r0' + W * r1')); [|lia].
        assert (Hq2 : 2 <= q) by (destruct (Z.le_gt_cases 2 q); [assumption | specialize (HTq 1 ltac:(lia) ltac:(lia)); lia]).
        rewrite (modW_small (q - 1 - 1)) by lia.
        pose proof (add2_limbs r1' r0' b1 b0 Rr1' Rr0' Wb1 Wb0) as Hb. cbn zeta in Hb.
        set (r0'' := modW (r0' + b0)) in *. set (r1'' := if r0'' <? b0 then modW (modW (r1' + b1) + 1) else modW (r1' + b1)) in *.
        destruct Hb as (Rr0'' & Rr1'' & Eb).
        assert (Eb' : r0'' + W * r1'' = T + 2 * Bv).
        { rewrite Eb. symmetry. apply Z.mod_unique with (q := 1); [left; lia | subst Bv; lia]. }
        assert (EBq : (q - 1 - 1) * Bv = q * Bv - 2 * Bv) by ring.
        repeat split; try lia.
    + assert (Er' : r0 + W * r1 = T).
      { rewrite Er. symmetry. apply Z.mod_unique with (q := 0); [left; lia | lia]. }
      repeat split; try lia.
Qed.
