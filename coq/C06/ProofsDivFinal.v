(* Division: the statements for Properties.v, with the limb primitive proved (no hypothesis left). *)
From Coq Require Import ZArith Lia Bool.
From C06 Require Import Model ProofsBase ProofsRepr ProofsDiv ProofsDivBase ProofsDivTop ProofsUdiv.
Local Open Scope Z_scope.

(* recint_udiv_qrnnd (plain C version): exact for a normalised divisor and a high word below the divisor *)
Definition Udiv_exact := forall n1 n0 d, 0 <= n1 < d -> 0 <= n0 < W -> d < W -> W <= 2 * d ->
  0 <= fst (udiv_qrnnd n1 n0 d) < W /\ 0 <= snd (udiv_qrnnd n1 n0 d) < d /\
  n1 * W + n0 = fst (udiv_qrnnd n1 n0 d) * d + snd (udiv_qrnnd n1 n0 d).
Lemma udiv_exact : Udiv_exact. Proof. exact udiv_qrnnd_ok. Qed.

(* div_3_2: (a2|a1|a0) = q*(b1|b0) + (r1|r0), 0 <= (r1|r0) < (b1|b0), when b1 is normalised and (a2|a1) < (b1|b0) *)
Definition Div32_exact := forall thr k a2 a1 a0 b1 b0,
  wf k a2 -> wf k a1 -> wf k a0 -> wf k b1 -> wf k b0 ->
  B k <= 2 * val k b1 -> val k a2 * B k + val k a1 < val k b1 * B k + val k b0 ->
  let '(q, r1, r0) := div32 thr k a2 a1 a0 b1 b0 in
  wf k q /\ wf k r1 /\ wf k r0 /\
  (val k a2 * B k + val k a1) * B k + val k a0 = val k q * (val k b1 * B k + val k b0) + (val k r1 * B k + val k r0) /\
  val k r1 * B k + val k r0 < val k b1 * B k + val k b0.
Lemma div32_exact : Div32_exact. Proof. intros thr k. exact (div32_all udiv_qrnnd_ok thr k). Qed.

(* div_2_1: (ah|al) = q*b + r, 0 <= r < b, when b is normalised and ah < b *)
Definition Div21_exact := forall thr k ah al b,
  wf k ah -> wf k al -> wf k b -> B k <= 2 * val k b -> val k ah < val k b ->
  wf k (fst (div21 thr k ah al b)) /\ wf k (snd (div21 thr k ah al b)) /\
  val k ah * B k + val k al = val k (fst (div21 thr k ah al b)) * val k b + val k (snd (div21 thr k ah al b)) /\
  val k (snd (div21 thr k ah al b)) < val k b.
Lemma div21_exact : Div21_exact. Proof. intros thr k. exact (div21_all udiv_qrnnd_ok thr k). Qed.

(* normalization(d, b): the number of leading zero bits *)
Definition Norm_exact := forall k b, wf k b -> val k b <> 0 ->
  0 <= normalization k b < nbits k /\ B k <= 2 * (val k b * 2 ^ normalization k b) < 2 * B k.
Lemma norm_exact : Norm_exact. Proof. exact norm_spec. Qed.

(* div(q, r, a, b): Euclidean division for every divisor b <> 0 *)
Lemma div_exact : Div_exact. Proof. exact (div_exact_rel udiv_qrnnd_ok). Qed.

(* non-vacuity: an input that takes both quotient corrections at K = 7 (b1 = 2^63, b0 = 2^64 - 1) *)
Example div_example :
  let b := of_Z 1 (2^127 + 2^64 - 1) in let ah := of_Z 1 (2^127 - 1) in let al := of_Z 1 (2^64 - 1) in
  wf 1 b /\ B 1 <= 2 * val 1 b /\ val 1 ah < val 1 b /\
  val 1 ah * B 1 + val 1 al = val 1 (fst (div21 4 1 ah al b)) * val 1 b + val 1 (snd (div21 4 1 ah al b)).
Proof. split; [apply wf_of_Z|]. vm_compute. repeat split; congruence. Qed.
