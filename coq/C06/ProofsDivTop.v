(* Division assembled: div_3_2 / div_2_1 at every K by induction on k, normalisation, and div(q, r, a, b):
   a = q*b + r with 0 <= r < b for every b <> 0 — relative to the specification of the limb division udiv_qrnnd. *)
From Coq Require Import ZArith Lia Bool.
From C06 Require Import Model ProofsBase ProofsRepr ProofsAdd ProofsBits ProofsShift ProofsMul ProofsMulTop ProofsDiv ProofsDivBase.
Local Open Scope Z_scope.
Ltac Zify.zify_post_hook ::= Z.div_mod_to_equations.

Section WithUdiv.
  Hypothesis Hu : udiv_ok udiv_qrnnd.

  Lemma div21_0_ok : div21_ok 0 udiv_qrnnd.
  Proof.
    intros ah al b Wah Wal Wb Hn Hlt. cbn [wf val B] in *.
    destruct (Hu ah al b ltac:(lia) Wal ltac:(lia) Hn) as (Rq & Rr & E).
    split; [exact Rq|]. split; [split; [apply Rr | eapply Z.lt_trans; [apply Rr | apply Wb]]|]. split; [exact E | apply Rr].
  Qed.

  Lemma div32_all thr k : div32_ok k (div32 thr k).
  Proof.
    induction k as [|k IH].
    - exact (div32_0_ok Hu).
    - cbn [div32]. apply div32_step_ok; [apply lmul_okk | apply div21_step_ok; exact IH].
  Qed.

  Lemma div21_all thr k : div21_ok k (div21 thr k).
  Proof. destruct k as [|k]; [exact div21_0_ok | cbn [div21]; apply div21_step_ok, div32_all]. Qed.
End WithUdiv.

(* ---- normalisation ---- *)
Lemma is_zero_spec k : forall x, wf k x -> is_zero k x = (val k x =? 0).
Proof.
  induction k as [|k IH]; intros x Hx.
  - reflexivity.
  - destruct x as [xl xh]. destruct Hx as [Hl Hh]. cbn [is_zero fst snd] in *. rewrite (IH xh Hh), (IH xl Hl), val_S. cbn [fst snd].
    pose proof (val_range _ _ Hl). pose proof (val_range _ _ Hh). pose proof (B_pos k).
    destruct (Z.eqb_spec (val k xh) 0), (Z.eqb_spec (val k xl) 0), (Z.eqb_spec (val k xl + B k * val k xh) 0); cbn [andb]; try reflexivity; nia.
Qed.

Lemma norm_spec k : forall b, wf k b -> val k b <> 0 ->
  0 <= normalization k b < nbits k /\ B k <= 2 * (val k b * 2 ^ normalization k b) < 2 * B k.
Proof.
  induction k as [|k IH]; intros b Hb Hnz.
  - cbn [normalization wf val B nbits] in *. unfold clz64. destruct (Z.eqb_spec b 0); [contradiction|].
    assert (Hpos : 0 < b) by lia. pose proof (Z.log2_spec b Hpos) as [L1 L2]. pose proof (Z.log2_nonneg b).
    assert (Z.log2 b < 64).
    { apply Z.log2_lt_pow2; [lia|]. rewrite W_eq in Hb. change (2 ^ 64) with 18446744073709551616. lia. }
    split; [lia|].
    assert (E63 : 2 ^ Z.log2 b * 2 ^ (63 - Z.log2 b) = 9223372036854775808).
    { rewrite <- Z.pow_add_r by lia. replace (Z.log2 b + (63 - Z.log2 b)) with 63 by lia. reflexivity. }
    rewrite Z.pow_succ_r in L2 by lia. rewrite W_eq.
    assert (0 < 2 ^ (63 - Z.log2 b)) by (apply Z.pow_pos_nonneg; lia).
    clear - L1 L2 E63 H1. nia.
  - destruct b as [lo hi]. destruct Hb as [Hlo Hhi]. cbn [normalization fst snd nbits] in *.
    rewrite val_S in *. cbn [fst snd] in *. rewrite (is_zero_spec k hi Hhi), B_S.
    pose proof (val_range _ _ Hlo) as Rlo. pose proof (val_range _ _ Hhi) as Rhi. pose proof (B_pos k) as HB.
    pose proof (nbits_pos k) as Hnb. assert (EB : B k = 2 ^ nbits k) by apply B_nbits.
    destruct (Z.eqb_spec (val k hi) 0) as [E0|Hn0].
    + rewrite E0 in *. assert (Hl : val k lo <> 0) by lia. destruct (IH lo Hlo Hl) as [R1 R2].
      split; [lia|]. rewrite Z.pow_add_r by lia. rewrite <- EB. clear - R2 HB. nia.
    + destruct (IH hi Hhi Hn0) as [R1 R2]. split; [lia|].
      set (d := normalization k hi) in *.
      destruct (pow_split (nbits k) d ltac:(lia)) as (EP & HP & HQ). rewrite EB, EP in *.
      set (P := 2 ^ d) in *. set (Q := 2 ^ (nbits k - d)) in *.
      assert (val k hi < Q) by (clear - R2 HP HQ; nia).
      clear - R2 H Rlo Rhi HP HQ. split; nia.
Qed.

(* ---- div ---- *)
Definition Div_exact := forall thr k a b, wf k a -> wf k b -> val k b <> 0 ->
  wf k (fst (div thr k a b)) /\ wf k (snd (div thr k a b)) /\
  val k a = val k (fst (div thr k a b)) * val k b + val k (snd (div thr k a b)) /\
  0 <= val k (snd (div thr k a b)) < val k b.

Lemma div_exact_rel : udiv_ok udiv_qrnnd -> Div_exact.
Proof.
  intros Hu thr k a b Ha Hb Hnz. destruct k as [|k].
  - cbn [div wf val fst snd] in *. assert (0 < b) by lia.
    pose proof (Z.div_mod a b Hnz). pose proof (Z.mod_pos_bound a b H).
    assert (0 <= a / b) by (apply Z.div_pos; lia).
    assert (a / b <= a) by (apply Z.div_le_upper_bound; nia).
    repeat split; lia.
  - unfold div.
    pose proof (val_range _ _ Ha) as Ra. pose proof (val_range _ _ Hb) as Rb. pose proof (B_pos (S k)) as HB.
    destruct (norm_spec (S k) b Hb Hnz) as [Rd Rn]. set (d := normalization (S k) b) in *.
    destruct (shl_ext_exact (S k) a d Ha ltac:(lia)) as [Waa Eaa].
    destruct (shl_exact (S k) b d Hb ltac:(lia)) as [Wbb Ebb].
    assert (HP : 0 < 2 ^ d) by (apply Z.pow_pos_nonneg; lia).
    assert (HPB : 2 ^ d < B (S k)).
    { rewrite (B_nbits (S k)). apply Z.pow_lt_mono_r; lia. }
    set (P := 2 ^ d) in *.
    rewrite Z.mod_small in Ebb by lia.
    rewrite Z.mod_small in Eaa by (rewrite B_S; clear - Ra HP HPB HB; nia).
    destruct (left_shift_ext (S k) a d) as [aal aah]. destruct Waa as [Waal Waah]. rewrite val_S in Eaa. cbn [fst snd] in *.
    pose proof (val_range _ _ Waal) as Raal. pose proof (val_range _ _ Waah) as Raah.
    assert (Hlt : val (S k) aah < val (S k) (left_shift (S k) b d)).
    { rewrite Ebb. assert (val (S k) aah < P) by (clear - Eaa Ra Raal Raah HP HB; nia). nia. }
    pose proof (div21_all Hu thr (S k) aah aal _ Waah Waal Wbb ltac:(lia) Hlt) as (Wq & Wr & E & Rr).
    destruct (div21 thr (S k) aah aal (left_shift (S k) b d)) as [q r]. cbn [fst snd] in *.
    destruct (shr_exact (S k) r d Wr ltac:(lia)) as [Wr' Er'].
    split; [exact Wq|]. split; [exact Wr'|]. rewrite Er'. fold P.
    rewrite Ebb in *. pose proof (val_range _ _ Wr) as Rr0.
    (* a*P = q*(b*P) + r, so P | r *)
    assert (Ediv : val (S k) r = P * (val (S k) a - val (S k) q * val (S k) b)).
    { clear - E Eaa. lia. }
    rewrite Ediv. rewrite (Z.mul_comm P), Z.div_mul by lia.
    split; [ring|]. clear - Ediv Rr Rr0 HP. nia.
Qed.
