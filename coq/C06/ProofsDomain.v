(* div_r / operator% / operator%= of rint<K> on their DOCUMENTED domain: rdiv.h opens both div_r overloads of rint with
   assert(b > 1) (the check reads the assert from the source on every run and generates only such divisors); a negative, zero
   or unit divisor is outside the precondition and nothing is claimed there. *)
From Coq Require Import ZArith Lia.
From C06 Require Import Model ProofsBase ProofsSigned.
Local Open Scope Z_scope.

Definition Sdiv_r_documented_domain := forall thr k a b, wf k a -> wf k b -> 1 < sval k b ->
  wf k (sdiv_r thr k a b) /\
  val k (sdiv_r thr k a b) = (Z.rem (sval k a) (sval k b)) mod B k /\
  Z.abs (Z.rem (sval k a) (sval k b)) < sval k b.
Lemma sdiv_r_documented_domain : Sdiv_r_documented_domain.
Proof.
  intros thr k a b Ha Hb Hgt.
  destruct (sdiv_r_exact thr k a b Ha Hb ltac:(lia)) as [W1 E1].
  split; [exact W1|]. split; [exact E1|].
  pose proof (Z.rem_bound_abs (sval k a) (sval k b) ltac:(lia)) as R.
  rewrite (Z.abs_eq (sval k b)) in R by lia. exact R.
Qed.

(* non-vacuity: -50 rem 7 = -1 at 256 bits *)
Example sdiv_r_domain_example :
  let a := of_Z 2 (2 ^ 256 - 50) in let b := of_Z 2 7 in
  wf 2 a /\ wf 2 b /\ 1 < sval 2 b /\ val 2 (sdiv_r 4 2 a b) = 2 ^ 256 - 1.
Proof. split; [apply wf_of_Z|]. split; [apply wf_of_Z|]. vm_compute. split; congruence. Qed.
