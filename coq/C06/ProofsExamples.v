(* Non-vacuity examples for the conditional theorems of Properties.v that had none (audit item 1), among them an input of the limb
   div_3_2 that really takes BOTH quotient corrections (the comment at ProofsDivFinal.v:38 names an input that takes only the
   first one: see frag/C06.design.md, "Audit response"). *)
From Coq Require Import ZArith Bool List.
From C06 Require Import Model ModelNative ModelAudit ProofsBase ProofsSigned.
Local Open Scope Z_scope.

(* div_3_2<6>: b1 barely normalised, b0 close to 2^64, remainder low digit = b0: the estimate by 2-by-1 is two too large.
   The traced function (ModelAudit.div32_0_tr, proved to return div32_0's result: C06_div_3_2_trace_exact) reports 2 corrections;
   the hypotheses of C06_div_3_by_2_exact hold (B 0 <= 2*b1, (a2,a1) < (b1,b0)); the result is the exact quotient and remainder. *)
Example div32_two_corrections_example :
  let a2 := 0x66daa99986e6a51d in let a1 := 0xc7d37fdfdc6a9a2b in let a0 := 0x250099a41e4382b0 in
  let b1 := 0x80000000000000db in let b0 := 0xffffffffffffffb8 in
  wf 0 a2 /\ wf 0 a1 /\ wf 0 a0 /\ wf 0 b1 /\ wf 0 b0 /\ B 0 <= 2 * b1 /\ a2 * B 0 + a1 < b1 * B 0 + b0 /\
  snd (div32_0_tr a2 a1 a0 b1 b0) = 2 /\
  div32 4 0 a2 a1 a0 b1 b0 = (0xcdb553330dcd48d9, 0x7fffffffffffffe8, 0xffffffffffffffb8) /\
  (a2 * B 0 + a1) * B 0 + a0 = 0xcdb553330dcd48d9 * (b1 * B 0 + b0) + (0x7fffffffffffffe8 * B 0 + 0xffffffffffffffb8).
Proof. vm_compute. repeat split; congruence. Qed.

(* the generic div_3_2<7> (k = 1) on digits of the same shape: both corrections of the GENERIC body *)
Example div32_generic_example :
  let a2 := of_Z 1 0x7fffffffffffffffffffffffffffffdc in let a1 := of_Z 1 0x7fffffffffffffffffffffffffffff41 in let a0 := of_Z 1 0x49 in
  let b1 := of_Z 1 0x80000000000000000000000000000000 in let b0 := of_Z 1 0xffffffffffffffffffffffffffffffff in
  B 1 <= 2 * val 1 b1 /\ val 1 a2 * B 1 + val 1 a1 < val 1 b1 * B 1 + val 1 b0 /\
  (let '(q, r1, r0) := div32 4 1 a2 a1 a0 b1 b0 in (val 1 q, val 1 r1, val 1 r0)) =
    (0xffffffffffffffffffffffffffffffb6, 0x7fffffffffffffffffffffffffffff8b, 0xffffffffffffffffffffffffffffffff).
Proof. vm_compute. repeat split; congruence. Qed.

Example udiv_example :
  let n1 := 0x7fffffff00000000 in let n0 := 0xffffffffffffffff in let d := 0x8000000000000001 in
  0 <= n1 < d /\ 0 <= n0 < W /\ d < W /\ W <= 2 * d /\ n1 * W + n0 = fst (udiv_qrnnd n1 n0 d) * d + snd (udiv_qrnnd n1 n0 d).
Proof. vm_compute. repeat split; congruence. Qed.

Example normalization_example :
  let b := of_Z 2 (2 ^ 130 + 1) in wf 2 b /\ val 2 b <> 0 /\ normalization 2 b = 125 /\ normalization_scan 2 b = 125.
Proof. split; [apply wf_of_Z|]. vm_compute. repeat split; congruence. Qed.

Example mod_n_example :
  let b := of_Z 2 (2 ^ 200 + 12345) in let n := of_Z 1 (2 ^ 100 + 7) in
  wf 2 b /\ wf 1 n /\ val 1 n <> 0 /\ val 1 (mod_n 4 1 b n) = (2 ^ 200 + 12345) mod (2 ^ 100 + 7).
Proof. split; [apply wf_of_Z|]. split; [apply wf_of_Z|]. vm_compute. split; congruence. Qed.

Example gcd_example :
  val 1 (gcd 4 1 (of_Z 1 (2 ^ 100 * 21)) (of_Z 1 (2 ^ 90 * 35))) = 2 ^ 90 * 7.
Proof. vm_compute. reflexivity. Qed.

Example inv_mod_example :
  let b := of_Z 1 3 in let c := of_Z 1 (2 ^ 127 - 1) in
  1 < val 1 c /\ Z.gcd (val 1 b) (val 1 c) = 1 /\ (val 1 b * val 1 (inv_mod 4 1 b c)) mod val 1 c = 1 /\
  val 1 (inv_mod_doc 4 1 b c) = val 1 (inv_mod 4 1 b c) /\
  (* not invertible: the documented result is 0 *)
  Z.gcd 6 9 <> 1 /\ val 1 (inv_mod_doc 4 1 (of_Z 1 6) (of_Z 1 9)) = 0 /\ val 1 (inv_mod_doc 4 1 (of_Z 1 2) (of_Z 1 4)) = 0.
Proof. vm_compute. repeat split; congruence. Qed.

Example bezout_example :
  let c := of_Z 1 (2 ^ 70 + 1) in let d := of_Z 1 (2 ^ 69) in
  1 < val 1 c /\ 1 < val 1 d /\ Z.gcd (val 1 c) (val 1 d) = 1 /\
  (let '(x, y) := bezout_mod 4 1 c d in ((val 1 x * val 1 c) mod val 1 d, (val 1 y * val 1 d) mod val 1 c)) = (1, 1).
Proof. vm_compute. repeat split; congruence. Qed.

Example exp_mod_example :
  let n := of_Z 1 1000003 in val 1 n <> 0 /\
  val 1 (exp_mod 4 1 (of_Z 1 3) (of_Z 1 (2 ^ 64 + 5)) n) = 3 ^ 5 * 116198 * 0 + 116198 /\
  val 1 (exp_mod_scan 4 1 (of_Z 1 3) (of_Z 1 (2 ^ 64 + 5)) n) = 116198.
Proof. vm_compute. repeat split; congruence. Qed.

Example arazi_example :
  let a := of_Z 1 (2 ^ 100 + 12345) in val 1 a mod 2 = 1 /\ (val 1 a * val 1 (arazi_qi 4 1 a)) mod B 1 = 1.
Proof. vm_compute. split; reflexivity. Qed.

Example signed_modular_example :
  let b := of_Z 1 (2 ^ 128 - 5) in let c := of_Z 1 9 in                     (* b = -5 *)
  1 < val 1 c /\ - val 1 c < sval 1 b /\ (sval 1 b * val 1 (sinv_mod 4 1 b c)) mod 9 = 1 /\
  val 1 (smod_n 4 1 (of_Z 2 (2 ^ 256 - 50)) (of_Z 1 7)) = 6.
Proof. vm_compute. repeat split; congruence. Qed.
