(* exp_mod: right-to-left binary exponentiation with a reduction after every product; every bit of the exponent
   is scanned.  Result = b^c mod n for every modulus n <> 0 (with the repaired start value 1 mod n). *)
From Coq Require Import ZArith Lia Bool Zpow_facts.
From C06 Require Import Model ProofsBase ProofsRepr ProofsMul ProofsMulTop ProofsSquare ProofsModn.
Local Open Scope Z_scope.

Lemma testbit_div cz i : 0 <= i -> b2z (Z.testbit cz i) = (cz / 2 ^ i) mod 2.
Proof.
  intros Hi. rewrite Z.testbit_odd, Z.shiftr_div_pow2 by lia. rewrite Zodd_mod.
  pose proof (Z.mod_pos_bound (cz / 2 ^ i) 2 ltac:(lia)).
  destruct (Zeq_bool ((cz / 2 ^ i) mod 2) 1) eqn:E.
  - apply Zeq_bool_eq in E. cbn [b2z]. lia.
  - apply Zeq_bool_neq in E. cbn [b2z]. lia.
Qed.

Lemma exp_loop_spec thr k n (Hn : wf k n) (Hnz : val k n <> 0) cz : 0 <= cz ->
  forall fuel i a x, 0 <= i -> wf k a -> wf k x -> val k a < val k n ->
  wf k (exp_loop thr k fuel i cz a x n) /\
  val k (exp_loop thr k fuel i cz a x n) = (val k a * val k x ^ ((cz / 2 ^ i) mod 2 ^ Z.of_nat fuel)) mod val k n.
Proof.
  intros Hcz. pose proof (val_range _ _ Hn) as Rn. assert (Hnp : 0 < val k n) by lia.
  induction fuel as [|fuel IH]; intros i a x Hi Wa Wx Ha.
  - cbn [exp_loop]. split; [exact Wa|]. change (2 ^ Z.of_nat 0) with 1. rewrite Z.mod_1_r. change (val k x ^ 0) with 1.
    rewrite Z.mul_1_r. symmetry. apply Z.mod_small. pose proof (val_range _ _ Wa). lia.
  - cbn [exp_loop].
    pose proof (val_range _ _ Wa) as Ra. pose proof (val_range _ _ Wx) as Rx.
    (* a' *)
    set (a' := if Z.testbit cz i then mod_n thr k (lmul thr k a x) n else a).
    assert (Ha' : wf k a' /\ val k a' = (val k a * val k x ^ b2z (Z.testbit cz i)) mod val k n).
    { subst a'. destruct (Z.testbit cz i); cbn [b2z].
      - pose proof (lmul_okk thr k a x Wa Wx) as (W0 & W1 & E).
        destruct (mod_n_exact thr k (lmul thr k a x) n (conj W0 W1) Hn Hnz) as [Wm Em].
        split; [exact Wm|]. rewrite Em, Z.pow_1_r. f_equal. rewrite val_S. exact E.
      - split; [exact Wa|]. rewrite Z.pow_0_r, Z.mul_1_r. symmetry. apply Z.mod_small. lia. }
    destruct Ha' as [Wa' Ea'].
    (* x' *)
    pose proof (lsquare_ok thr k x Wx) as (S0 & S1 & ES).
    destruct (mod_n_exact thr k (lsquare thr k x) n (conj S0 S1) Hn Hnz) as [Wx' Ex'].
    assert (ES' : val (S k) (lsquare thr k x) = val k x * val k x) by (rewrite val_S; exact ES).
    rewrite ES' in Ex'.
    assert (Ha'n : val k a' < val k n) by (rewrite Ea'; apply Z.mod_pos_bound; lia).
    destruct (IH (i + 1) a' (mod_n thr k (lsquare thr k x) n) ltac:(lia) Wa' Wx' Ha'n) as [Wr Er].
    split; [exact Wr|]. rewrite Er, Ea', Ex'. clear Er IH.
    (* arithmetic on the exponent: e = bit + 2 * e' *)
    set (t := cz / 2 ^ i). set (bit := b2z (Z.testbit cz i)) in *.
    assert (Ebit : bit = t mod 2) by (subst bit t; apply testbit_div; lia).
    assert (Et' : cz / 2 ^ (i + 1) = t / 2).
    { subst t. rewrite Z.pow_add_r, Z.div_div by lia. reflexivity. }
    rewrite Et'. rewrite Nat2Z.inj_succ, Z.pow_succ_r by lia.
    set (F := 2 ^ Z.of_nat fuel). assert (HF : 0 < F) by (subst F; apply Z.pow_pos_nonneg; lia).
    assert (Ee : t mod (2 * F) = bit + 2 * ((t / 2) mod F)).
    { rewrite Ebit. rewrite Z.rem_mul_r by lia. lia. }
    rewrite Ee. pose proof (Z.mod_pos_bound (t / 2) F HF) as Re'. set (e' := (t / 2) mod F) in *.
    assert (Hbit : 0 <= bit) by (rewrite Ebit; apply Z.mod_pos_bound; lia).
    rewrite Z.pow_add_r by lia. rewrite Z.pow_mul_r by lia. replace (val k x ^ 2) with (val k x * val k x) by ring.
    set (X := val k x) in *. set (A := val k a) in *. set (N := val k n) in *.
    rewrite Z.mul_mod_idemp_l by lia.
    rewrite <- Z.mul_mod_idemp_r by lia. rewrite <- (Zpower_mod (X * X) e' N) by lia. rewrite Z.mul_mod_idemp_r by lia.
    f_equal. ring.
Qed.

Lemma exp_start_spec k n : wf k n -> val k n <> 0 -> wf k (exp_start k n) /\ val k (exp_start k n) = 1 mod val k n.
Proof.
  intros Hn Hnz. unfold exp_start. pose proof (val_range _ _ Hn) as Rn.
  rewrite eqb_spec by auto using wf_of_Z. rewrite val_of_Z.
  assert (HB1 : 1 < B k) by (rewrite B_nbits; apply Z.pow_gt_1; [lia | apply nbits_pos]).
  assert (H1 : 1 mod B k = 1) by (apply Z.mod_small; lia).
  rewrite H1. destruct (Z.eqb_spec (val k n) 1) as [E|E].
  - split; [apply wf_zero|]. rewrite val_zero, E. reflexivity.
  - split; [apply wf_of_Z|]. rewrite val_of_Z, H1. symmetry. apply Z.mod_small. lia.
Qed.

Definition Exp_mod_exact := forall thr k b c n, wf k b -> wf k c -> wf k n -> val k n <> 0 ->
  wf k (exp_mod thr k b c n) /\ val k (exp_mod thr k b c n) = (val k b ^ val k c) mod val k n.
Lemma exp_mod_exact : Exp_mod_exact.
Proof.
  intros thr k b c n Hb Hc Hn Hnz. unfold exp_mod.
  pose proof (val_range _ _ Hc) as Rc. pose proof (val_range _ _ Hn) as Rn.
  destruct (exp_start_spec k n Hn Hnz) as [Ws Es].
  assert (Hs : val k (exp_start k n) < val k n) by (rewrite Es; apply Z.mod_pos_bound; lia).
  destruct (exp_loop_spec thr k n Hn Hnz (val k c) ltac:(lia) (Z.to_nat (nbits k)) 0 _ b ltac:(lia) Ws Hb Hs) as [Wr Er].
  split; [exact Wr|]. rewrite Er, Es. pose proof (nbits_pos k).
  rewrite Z2Nat.id by lia. rewrite <- B_nbits. change (2 ^ 0) with 1. rewrite Z.div_1_r, (Z.mod_small (val k c)) by lia.
  rewrite Z.mul_mod_idemp_l by lia. rewrite Z.mul_1_l. reflexivity.
Qed.

(* the overload with a native unsigned exponent (64 bits scanned) *)
Definition Exp_mod_word_exact := forall thr k b c n, wf k b -> 0 <= c < W -> wf k n -> val k n <> 0 ->
  wf k (exp_mod_w thr k b c n) /\ val k (exp_mod_w thr k b c n) = (val k b ^ c) mod val k n.
Lemma exp_mod_word_exact : Exp_mod_word_exact.
Proof.
  intros thr k b c n Hb Hc Hn Hnz. unfold exp_mod_w. pose proof (val_range _ _ Hn) as Rn.
  destruct (exp_start_spec k n Hn Hnz) as [Ws Es].
  assert (Hs : val k (exp_start k n) < val k n) by (rewrite Es; apply Z.mod_pos_bound; lia).
  destruct (exp_loop_spec thr k n Hn Hnz c ltac:(lia) 64%nat 0 _ b ltac:(lia) Ws Hb Hs) as [Wr Er].
  split; [exact Wr|]. rewrite Er, Es.
  change (2 ^ Z.of_nat 64) with 18446744073709551616. rewrite W_eq in Hc.
  change (2 ^ 0) with 1. rewrite Z.div_1_r, (Z.mod_small c) by lia.
  rewrite Z.mul_mod_idemp_l by lia. rewrite Z.mul_1_l. reflexivity.
Qed.
