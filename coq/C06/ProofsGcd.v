(* gcd: the Euclidean loop on explicit fuel; 2*2^K + 2 iterations always suffice (the second operand halves every
   two steps), and the result is the gcd of the values. *)
From Coq Require Import ZArith Lia Bool.
From C06 Require Import Model ProofsBase ProofsRepr ProofsDivTop ProofsDivFinal.
Local Open Scope Z_scope.

Lemma div_is_mod thr k c d : wf k c -> wf k d -> val k d <> 0 ->
  wf k (snd (div thr k c d)) /\ val k (snd (div thr k c d)) = val k c mod val k d.
Proof.
  intros Hc Hd Hnz. destruct (div_exact thr k c d Hc Hd Hnz) as (_ & Wr & E & R). split; [exact Wr|].
  apply Z.mod_unique with (q := val k (fst (div thr k c d))); [left; lia | lia].
Qed.

Lemma gcd_loop_spec thr k : forall (m fuel : nat) c d, (2 * m + 1 <= fuel)%nat -> wf k c -> wf k d ->
  val k d < 2 ^ Z.of_nat m ->
  wf k (gcd_loop thr k fuel c d) /\ val k (gcd_loop thr k fuel c d) = Z.gcd (val k c) (val k d).
Proof.
  induction m as [|m IH]; intros fuel c d Hf Hc Hd Hlt;
    pose proof (val_range _ _ Hc) as Rc; pose proof (val_range _ _ Hd) as Rd.
  - destruct fuel as [|f]; [lia|]. cbn [gcd_loop]. rewrite is_zero_spec by assumption.
    change (2 ^ Z.of_nat 0) with 1 in Hlt. assert (E : val k d = 0) by lia. rewrite E. cbn [Z.eqb].
    split; [exact Hc|]. rewrite Z.gcd_0_r. lia.
  - destruct fuel as [|[|f]]; [lia | lia |].
    cbn [gcd_loop]. rewrite is_zero_spec by assumption.
    destruct (Z.eqb_spec (val k d) 0) as [E|Hnz].
    { split; [exact Hc|]. rewrite E, Z.gcd_0_r. lia. }
    destruct (div_is_mod thr k c d Hc Hd Hnz) as [Wr Er].
    destruct (div thr k c d) as [q r]. cbn [fst snd] in *.
    rewrite is_zero_spec by assumption.
    pose proof (Z.mod_pos_bound (val k c) (val k d) ltac:(lia)) as Rr.
    destruct (Z.eqb_spec (val k r) 0) as [E|Hnz2].
    { split; [exact Hd|]. rewrite Z.gcd_comm, <- (Z.gcd_mod (val k c) (val k d)) by lia. rewrite <- Er, E, Z.gcd_0_l. lia. }
    destruct (div_is_mod thr k d r Hd Wr Hnz2) as [Wr' Er'].
    destruct (div thr k d r) as [q' r']. cbn [fst snd] in *.
    rewrite Er in *.
    pose proof (Z.mod_pos_bound (val k d) (val k c mod val k d) ltac:(lia)) as Rr'.
    assert (Hhalf : 2 * val k r' < val k d).
    { rewrite Er'. pose proof (Z.div_mod (val k d) (val k c mod val k d) ltac:(lia)) as D.
      assert (1 <= val k d / (val k c mod val k d)) by (apply Z.div_le_lower_bound; lia).
      set (t := val k d / (val k c mod val k d)) in *. set (rr := val k c mod val k d) in *. set (r2 := val k d mod rr) in *.
      clearbody t rr r2. nia. }
    rewrite Nat2Z.inj_succ, Z.pow_succ_r in Hlt by lia.
    destruct (IH f r r' ltac:(lia) Wr Wr' ltac:(lia)) as [Wg Eg].
    split; [exact Wg|]. rewrite Eg, Er', Er.
    rewrite (Z.gcd_comm (val k c mod val k d)). rewrite Z.gcd_mod by lia.
    rewrite Z.gcd_mod by lia. apply Z.gcd_comm.
Qed.

Definition Gcd_exact := forall thr k a b, wf k a -> wf k b ->
  wf k (gcd thr k a b) /\ val k (gcd thr k a b) = Z.gcd (val k a) (val k b).
Lemma gcd_exact : Gcd_exact.
Proof.
  intros thr k a b Ha Hb. unfold gcd, euclid_fuel. pose proof (nbits_pos k) as Hn.
  apply (gcd_loop_spec thr k (Z.to_nat (nbits k))); try assumption.
  - rewrite Z2Nat.inj_add, Z2Nat.inj_mul by lia. change (Z.to_nat 2) with 2%nat. lia.
  - rewrite Z2Nat.id by lia. rewrite <- B_nbits. apply val_range; assumption.
Qed.
