(* inv_mod: extended Euclid with every update reduced modulo c.  For gcd(b, c) = 1 and c > 1 the result is the
   inverse of b modulo c, in [0, c); the loop ends within the fuel. *)
From Coq Require Import ZArith Lia Bool.
From C06 Require Import Model ProofsBase ProofsRepr ProofsAdd ProofsMul ProofsMulTop ProofsDivTop ProofsDivFinal ProofsModn ProofsGcd.
Local Open Scope Z_scope.

Lemma ge_spec k a b : wf k a -> wf k b -> ge k a b = (val k b <=? val k a).
Proof.
  intros Ha Hb. unfold ge. rewrite cmp_spec by assumption.
  destruct (Z.leb_spec (val k b) (val k a)), (Z.leb_spec 0 (Z.sgn (val k a - val k b))); try reflexivity; lia.
Qed.

(* x(i+1) = x(i-1) - q*x(i) mod c, as the code computes it *)
Lemma bezout_update_spec thr k q x last c : wf k q -> wf k x -> wf k last -> wf k c ->
  0 < val k c -> val k last < val k c ->
  wf k (bezout_update thr k q x last c c) /\
  val k (bezout_update thr k q x last c c) = (val k last - val k q * val k x) mod val k c.
Proof.
  intros Wq Wx Wl Wc Hc Hl. unfold bezout_update.
  pose proof (val_range _ _ Wc) as Rc. pose proof (val_range _ _ Wl) as Rl. pose proof (B_pos k) as HB.
  destruct (lmul_okk thr k q x Wq Wx) as (W0 & W1 & Ep).
  destruct (mod_n_exact thr k (lmul thr k q x) c (conj W0 W1) Wc ltac:(lia)) as [Wt Et].
  assert (Et' : val k (mod_n thr k (lmul thr k q x) c) = (val k q * val k x) mod val k c).
  { rewrite Et. f_equal. rewrite val_S. exact Ep. }
  clear Et. set (t := mod_n thr k (lmul thr k q x) c) in *.
  pose proof (Z.mod_pos_bound (val k q * val k x) (val k c) Hc) as Rt. rewrite <- Et' in Rt.
  (* u = -t mod c *)
  set (u := if is_zero k t then t else fst (sub_c k c t)).
  assert (Hu : wf k u /\ 0 <= val k u < val k c /\ (val k u + val k t) mod val k c = 0).
  { subst u. rewrite is_zero_spec by assumption. destruct (Z.eqb_spec (val k t) 0) as [E|E].
    - split; [exact Wt|]. split; [lia|]. rewrite E. apply Z.mod_0_l. lia.
    - destruct (sub_c_spec k c t Wc Wt) as [Ws Es]. destruct (sub_c k c t) as [sv bo]. cbn [fst snd] in *.
      pose proof (val_range _ _ Ws).
      assert (Ev : val k sv = val k c - val k t) by (destruct bo; cbn [b2z] in Es; lia).
      split; [exact Ws|]. split; [lia|]. rewrite Ev. replace (val k c - val k t + val k t) with (val k c) by lia. apply Z.mod_same. lia. }
  destruct Hu as (Wu & Ru & Eu). clearbody u.
  destruct (add_c_spec k u last Wu Wl) as [Ww Ew]. destruct (add_c k u last) as [w ret]. cbn [fst snd] in *.
  pose proof (val_range _ _ Ww) as Rw. pose proof (b2z_range ret) as Rret.
  rewrite ge_spec by assumption.
  set (S := val k u + val k last) in *.
  assert (Hres : wf k (if ret || (val k c <=? val k w) then fst (sub_c k w c) else w) /\
                 val k (if ret || (val k c <=? val k w) then fst (sub_c k w c) else w) = S mod val k c).
  { destruct (sub_c_spec k w c Ww Wc) as [Ws Es]. destruct (sub_c k w c) as [sv bo]. cbn [fst snd] in *.
    pose proof (val_range _ _ Ws).
    destruct ret; cbn [orb b2z] in *.
    - split; [exact Ws|]. assert (Ev : val k sv = S - val k c) by (destruct bo; cbn [b2z] in Es; lia).
      rewrite Ev. apply Z.mod_unique with (q := 1); [left; lia | lia].
    - destruct (Z.leb_spec (val k c) (val k w)).
      + split; [exact Ws|]. assert (Ev : val k sv = S - val k c) by (destruct bo; cbn [b2z] in Es; lia).
        rewrite Ev. apply Z.mod_unique with (q := 1); [left; lia | lia].
      + split; [exact Ww|]. rewrite Z.mod_small by lia. lia. }
  destruct Hres as [Wr Er]. split; [exact Wr|]. rewrite Er. subst S.
  (* (u + last) mod c = (last - q x) mod c since u + t = 0 mod c and t = q x mod c *)
  pose proof (Z.div_mod (val k q * val k x) (val k c) ltac:(lia)) as D1. rewrite <- Et' in D1.
  pose proof (Z.div_mod (val k u + val k t) (val k c) ltac:(lia)) as D2. rewrite Eu in D2.
  set (k1 := val k q * val k x / val k c) in *. set (k2 := (val k u + val k t) / val k c) in *.
  replace (val k last - val k q * val k x) with ((val k u + val k last) + (- (k1 + k2)) * val k c) by lia.
  symmetry. apply Z.mod_add. lia.
Qed.

Section Loop.
  Variables (thr k : nat) (c : ru k) (b0 : Z).
  Hypothesis Wc : wf k c.
  Hypothesis Hc : 1 < val k c.

  Definition Inv (a x a2 b2 : ru k) : Prop :=
    wf k a /\ wf k x /\ wf k a2 /\ wf k b2 /\ val k a < val k c /\ val k x < val k c /\
    (val k a * b0) mod val k c = val k a2 mod val k c /\ (val k x * b0) mod val k c = val k b2 mod val k c /\
    Z.gcd (val k a2) (val k b2) = 1.

  Lemma inv_done a x a2 b2 : Inv a x a2 b2 -> val k b2 = 0 ->
    wf k a /\ val k a < val k c /\ (val k a * b0) mod val k c = 1.
  Proof.
    intros (Wa & Wx & Wa2 & Wb2 & La & Lx & Ea & Ex & Eg) E0. split; [exact Wa|]. split; [exact La|].
    rewrite E0, Z.gcd_0_r in Eg. pose proof (val_range _ _ Wa2). rewrite Z.abs_eq in Eg by lia.
    rewrite Ea, Eg. apply Z.mod_small. lia.
  Qed.

  Lemma inv_step a x a2 b2 : Inv a x a2 b2 -> val k b2 <> 0 ->
    let '(q, r) := div thr k a2 b2 in
    Inv x (bezout_update thr k q x a c c) b2 r /\ val k r = val k a2 mod val k b2.
  Proof.
    intros (Wa & Wx & Wa2 & Wb2 & La & Lx & Ea & Ex & Eg) Hnz.
    destruct (div_exact thr k a2 b2 Wa2 Wb2 Hnz) as (Wq & Wr & E & R).
    destruct (div thr k a2 b2) as [q r]. cbn [fst snd] in *.
    destruct (bezout_update_spec thr k q x a c Wq Wx Wa Wc ltac:(lia) La) as [Wn En].
    assert (Er : val k r = val k a2 mod val k b2) by (apply Z.mod_unique with (q := val k q); [left; lia | lia]).
    split; [|exact Er].
    repeat split; try assumption.
    - rewrite En. apply Z.mod_pos_bound. lia.
    - (* new x * b0 = (a - q x) b0 = a2 - q b2 = r  (mod c) *)
      rewrite En. rewrite Z.mul_mod_idemp_l by lia.
      replace ((val k a - val k q * val k x) * b0) with (val k a * b0 - val k q * (val k x * b0)) by ring.
      rewrite Zminus_mod, Ea. rewrite (Z.mul_mod (val k q) (val k x * b0)), Ex by lia.
      rewrite <- Z.mul_mod by lia. rewrite <- Zminus_mod. f_equal. lia.
    - rewrite Er. rewrite Z.gcd_comm, Z.gcd_mod by lia. rewrite Z.gcd_comm. exact Eg.
  Qed.

  Lemma inv_loop_spec : forall (m fuel : nat) a x a2 b2, (2 * m + 1 <= fuel)%nat -> Inv a x a2 b2 ->
    val k b2 < 2 ^ Z.of_nat m ->
    let r := inv_mod_loop thr k fuel a x a2 b2 c in
    wf k r /\ val k r < val k c /\ (val k r * b0) mod val k c = 1.
  Proof.
    induction m as [|m IH]; intros fuel a x a2 b2 Hf HI Hlt; cbn zeta;
      pose proof HI as (Wa & Wx & Wa2 & Wb2 & _).
    - destruct fuel as [|f]; [lia|]. cbn [inv_mod_loop]. rewrite is_zero_spec by assumption.
      pose proof (val_range _ _ Wb2). change (2 ^ Z.of_nat 0) with 1 in Hlt. assert (E : val k b2 = 0) by lia.
      rewrite E. cbn [Z.eqb]. apply (inv_done a x a2 b2 HI E).
    - destruct fuel as [|[|f]]; [lia | lia |].
      cbn [inv_mod_loop]. rewrite is_zero_spec by assumption.
      destruct (Z.eqb_spec (val k b2) 0) as [E|Hnz]; [apply (inv_done a x a2 b2 HI E)|].
      pose proof (inv_step a x a2 b2 HI Hnz) as H1. destruct (div thr k a2 b2) as [q r]. destruct H1 as [HI1 Er].
      pose proof HI1 as (_ & Wn & _ & Wr & _).
      rewrite is_zero_spec by assumption.
      destruct (Z.eqb_spec (val k r) 0) as [E|Hnz2]; [apply (inv_done _ _ _ _ HI1 E)|].
      pose proof (inv_step _ _ _ _ HI1 Hnz2) as H2. destruct (div thr k b2 r) as [q' r']. destruct H2 as [HI2 Er'].
      pose proof HI2 as (_ & _ & _ & Wr' & _).
      pose proof (val_range _ _ Wb2) as Rb2. pose proof (val_range _ _ Wr) as Rr. pose proof (val_range _ _ Wr') as Rr'.
      assert (Hhalf : 2 * val k r' < val k b2).
      { pose proof (Z.mod_pos_bound (val k a2) (val k b2) ltac:(lia)) as R1. rewrite <- Er in R1.
        pose proof (Z.div_mod (val k b2) (val k r) ltac:(lia)) as D. rewrite <- Er' in D.
        pose proof (Z.mod_pos_bound (val k b2) (val k r) ltac:(lia)) as R2. rewrite <- Er' in R2.
        assert (1 <= val k b2 / val k r) by (apply Z.div_le_lower_bound; lia).
        set (t := val k b2 / val k r) in *. clearbody t. nia. }
      rewrite Nat2Z.inj_succ, Z.pow_succ_r in Hlt by lia.
      apply (IH f _ _ _ _ ltac:(lia) HI2 ltac:(lia)).
  Qed.
End Loop.

Definition Inv_mod_exact := forall thr k b c, wf k b -> wf k c -> 1 < val k c -> Z.gcd (val k b) (val k c) = 1 ->
  wf k (inv_mod thr k b c) /\ val k (inv_mod thr k b c) < val k c /\
  (val k b * val k (inv_mod thr k b c)) mod val k c = 1.
Lemma inv_mod_exact : Inv_mod_exact.
Proof.
  intros thr k b c Hb Hc H1 Hg. unfold inv_mod, euclid_fuel. pose proof (nbits_pos k) as Hn.
  pose proof (val_range _ _ Hc) as Rc. pose proof (B_pos k) as HB.
  assert (E1 : val k (of_Z k 1) = 1) by (rewrite val_of_Z; apply Z.mod_small; lia).
  assert (HI : Inv k c (val k b) (of_Z k 1) (zero k) b c).
  { repeat split; try assumption; try apply wf_of_Z; try apply wf_zero.
    - rewrite E1. lia.
    - rewrite val_zero. lia.
    - rewrite E1. f_equal. lia.
    - rewrite val_zero. rewrite Z.mul_0_l, Z.mod_0_l, Z.mod_same by lia. reflexivity. }
  destruct (inv_loop_spec thr k c (val k b) Hc H1 (Z.to_nat (nbits k)) (Z.to_nat (2 * nbits k + 2)) _ _ _ _
              ltac:(rewrite Z2Nat.inj_add, Z2Nat.inj_mul by lia; change (Z.to_nat 2) with 2%nat; lia) HI
              ltac:(rewrite Z2Nat.id by lia; rewrite <- B_nbits; lia)) as (Wr & Lr & Er).
  split; [exact Wr|]. split; [exact Lr|]. rewrite Z.mul_comm. exact Er.
Qed.
