(* Karatsuba step: if the half-size product is exact, lmul_kara is exact (all six carry flags accounted for). *)
From Coq Require Import ZArith Lia Bool.
From C06 Require Import Model ProofsBase ProofsAdd ProofsMul.
Local Open Scope Z_scope.
Ltac Zify.zify_post_hook ::= Z.div_mod_to_equations.

Lemma two_prod_bound (Bk a b c d : Z) : 0 < Bk -> 0 <= a < Bk -> 0 <= b < Bk -> 0 <= c < Bk -> 0 <= d < Bk ->
  0 <= a * b + c * d < 2 * (Bk * Bk).
Proof. intros. assert (a * b <= (Bk - 1) * (Bk - 1)) by nia. assert (c * d <= (Bk - 1) * (Bk - 1)) by nia. nia. Qed.

Lemma R01 (B2 v R M : Z) : 0 < B2 -> 0 <= v < B2 -> 0 <= M < 2 * B2 -> v + B2 * R = M -> R = 0 \/ R = 1.
Proof. intros. nia. Qed.

Lemma nonneg4 Bk a b c d : 0 < Bk -> 0 <= a -> 0 <= b -> 0 <= c -> 0 <= d -> 0 <= a + Bk * b + Bk * Bk * (c + Bk * d).
Proof. intros. assert (0 <= Bk * b) by nia. assert (0 <= c + Bk * d) by nia. nia. Qed.

Lemma kara_step_ok k lm : lmul_ok k lm -> lmul_ok (S k) (lmul_kara_step k lm).
Proof.
  intros Hlm [bl bh] [cl ch] [Hbl Hbh] [Hcl Hch].
  unfold lmul_kara_step. cbn [fst snd].
  pose proof (add_c_spec k bh bl Hbh Hbl) as (Wbb & Ebb). destruct (add_c k bh bl) as [bb rb]. cbn [fst snd] in *.
  pose proof (add_c_spec k ch cl Hch Hcl) as (Wcc & Ecc). destruct (add_c k ch cl) as [cc rc]. cbn [fst snd] in *.
  pose proof (Hlm bh ch Hbh Hch) as (Wah0 & Wah1 & Eah). destruct (lm bh ch) as [ah0 ah1]. cbn [fst snd] in *.
  pose proof (Hlm bl cl Hbl Hcl) as (Wal0 & Wal1 & Eal). destruct (lm bl cl) as [al0 al1]. cbn [fst snd] in *.
  pose proof (Hlm bb cc Wbb Wcc) as (Wbc0 & Wbc1 & Ebc). destruct (lm bb cc) as [bc0 bc1]. cbn [fst snd] in *.
  pose proof (add_high_if_spec k rb (bc0, bc1) cc (conj Wbc0 Wbc1) Wcc) as (W1 & E1).
  destruct (add_high_if k rb (bc0, bc1) cc) as [x1 rt1]. cbn [fst snd] in *.
  pose proof (add_high_if_spec k rc x1 bb W1 Wbb) as (W2 & E2).
  destruct (add_high_if k rc x1 bb) as [x2 rt2]. cbn [fst snd] in *.
  pose proof (sub_c_spec (S k) x2 (ah0, ah1) W2 (conj Wah0 Wah1)) as (W3 & E3).
  destruct (sub_c (S k) x2 (ah0, ah1)) as [x3 rt3]. cbn [fst snd] in *.
  pose proof (sub_c_spec (S k) x3 (al0, al1) W3 (conj Wal0 Wal1)) as (W4 & E4).
  destruct (sub_c (S k) x3 (al0, al1)) as [x4 rt4]. cbn [fst snd] in *.
  destruct x4 as [m0 m1]. destruct W4 as [Wm0 Wm1]. cbn [fst snd] in *.
  set (R := b2z (rb && rc) + b2z rt1 + b2z rt2 - b2z rt3 - b2z rt4) in *.
  pose proof (add_c_spec k al1 m0 Wal1 Wm0) as (W5 & E5). destruct (add_c k al1 m0) as [alhi rt5]. cbn [fst snd] in *.
  pose proof (add_1_if_spec (S k) rt5 (ah0, ah1) (conj Wah0 Wah1)) as (W6 & E6).
  destruct (add_1_if (S k) rt5 (ah0, ah1)) as [y c1]. cbn [fst snd] in *. destruct y as [y0 y1]. destruct W6 as [Wy0 Wy1]. cbn [fst snd] in *.
  pose proof (add_c_spec k y0 m1 Wy0 Wm1) as (W7 & E7). destruct (add_c k y0 m1) as [ahlo rt6]. cbn [fst snd] in *.
  (* the middle term: val x4 + B^2 * R = bh*cl + bl*ch *)
  rewrite (val_S k (bc0, bc1)) in E1. rewrite (val_S k (ah0, ah1)) in E3, E6. rewrite (val_S k (al0, al1)) in E4.
  rewrite (val_S k (m0, m1)) in E4. rewrite (val_S k (y0, y1)) in E6. cbn [fst snd] in *.
  pose proof (B_pos k) as HB.
  pose proof (val_range _ _ Hbl) as Rbl. pose proof (val_range _ _ Hbh) as Rbh.
  pose proof (val_range _ _ Hcl) as Rcl. pose proof (val_range _ _ Hch) as Rch.
  pose proof (val_range _ _ Wm0) as Rm0. pose proof (val_range _ _ Wm1) as Rm1.
  pose proof (val_range _ _ W5) as Ralhi. pose proof (val_range _ _ W7) as Rahlo.
  pose proof (val_range _ _ Wal0) as Ral0. pose proof (val_range _ _ Wy1) as Ry1.
  assert (Hmid : val k m0 + B k * val k m1 + (B k * B k) * R = val k bh * val k cl + val k bl * val k ch).
  { assert (P1 : (val k bb + B k * b2z rb) * (val k cc + B k * b2z rc) = (val k bh + val k bl) * (val k ch + val k cl))
      by (rewrite Ebb, Ecc; reflexivity).
    rewrite !B_S in *. subst R. clear - P1 Eah Eal Ebc E1 E2 E3 E4.
    destruct rb, rc; cbn [andb b2z] in *; lia. }
  assert (HR : R = 0 \/ R = 1).
  { apply (R01 (B k * B k) (val k m0 + B k * val k m1) R (val k bh * val k cl + val k bl * val k ch));
      [nia | apply pair_range; lia | apply two_prod_bound; lia | lia]. }
  set (r := negb (R =? 0)) in *.
  assert (Hr : b2z r = R) by (subst r; destruct HR as [-> | ->]; reflexivity).
  (* the last, conditional, word addition *)
  assert (Hfin : exists hi c2, wf k hi /\ 0 <= c2 <= 1 /\
            (if rt6 || r then True /\ hi = fst (add_w k y1 (b2z rt6 + b2z r)) else hi = y1) /\
            val k hi + B k * c2 = val k y1 + b2z rt6 + R).
  { destruct (rt6 || r) eqn:Eor.
    - assert (Hc : 0 <= b2z rt6 + b2z r < W) by (rewrite W_eq; destruct rt6, r; cbn; lia).
      pose proof (add_w_spec k y1 (b2z rt6 + b2z r) Wy1 Hc) as (Ww & Ew).
      exists (fst (add_w k y1 (b2z rt6 + b2z r))), (b2z (snd (add_w k y1 (b2z rt6 + b2z r)))).
      split; [exact Ww|]. split; [apply b2z_range|]. split; [split; [exact I | reflexivity]|]. rewrite Ew, Hr. lia.
    - apply orb_false_iff in Eor. destruct Eor as [-> E0]. rewrite E0 in Hr. cbn [b2z] in *.
      exists y1, 0. split; [exact Wy1|]. split; [lia|]. split; [reflexivity|]. lia. }
  destruct Hfin as (hi & c2 & Whi & Rc2 & Hhi & Ehi).
  enough (Hg : wf (S k) (al0, alhi) /\ wf (S k) (ahlo, hi) /\
               val (S k) (al0, alhi) + B (S k) * val (S k) (ahlo, hi) = val (S k) (bl, bh) * val (S k) (cl, ch)).
  { destruct (rt6 || r); [destruct Hhi as [_ Hhi]|]; rewrite <- Hhi; exact Hg. }
  clear Hhi. clearbody r. clearbody R.
  split; [split; assumption|]. split; [split; assumption|].
  rewrite (val_S k (bl, bh)), (val_S k (cl, ch)), (val_S k (al0, alhi)), (val_S k (ahlo, hi)). cbn [fst snd].
  pose proof (val_range _ _ Whi) as Rhi.
  pose proof (b2z_range c1).
  assert (Hid : val k al0 + B k * val k alhi + B k * B k * (val k ahlo + B k * val k hi)
                + (B k * B k) * (B k * B k) * (b2z c1 + c2)
                = (val k bl + B k * val k bh) * (val k cl + B k * val k ch) + 0).
  { rewrite !B_S in *. clear - Hmid Eah Eal E5 E6 E7 Ehi.
    mulhyp Hmid (B k). mulhyp Eah (B k * B k). mulhyp E5 (B k). mulhyp E6 (B k * B k). mulhyp E7 (B k * B k).
    mulhyp Ehi (B k * B k * B k). lia. }
  assert (HS : b2z c1 + c2 = 0).
  { apply (carry_0 (B k * B k) (val k al0 + B k * val k alhi + B k * B k * (val k ahlo + B k * val k hi)) _
             (val k bl + B k * val k bh) (val k cl + B k * val k ch) 0);
      [clear - HB; nia | apply pair_range; lia | apply pair_range; lia | clear - HB; nia | apply nonneg4; lia | lia | exact Hid]. }
  rewrite HS in Hid. rewrite B_S. lia.
Qed.
