(* Limb access and the conversions from GMP integers: set_limb / get_limb address the 64-bit digits of the value,
   mpz_to_ruint is reduction modulo 2^(2^K), mpz_to_rint / rint_to_mpz are inverse on the signed range. *)
From Coq Require Import ZArith Lia Bool.
From C06 Require Import Model ProofsBase ProofsRepr ProofsAdd ProofsBits ProofsSquare ProofsSigned.
Local Open Scope Z_scope.
Ltac Zify.zify_post_hook ::= Z.div_mod_to_equations.

Lemma nlimbs_pos k : 0 < nlimbs k. Proof. induction k; cbn [nlimbs]; lia. Qed.
Lemma nbits_nlimbs k : nbits k = 64 * nlimbs k. Proof. induction k; cbn [nbits nlimbs]; lia. Qed.
Lemma B_limbs k : B k = 2 ^ (64 * nlimbs k). Proof. rewrite B_nbits, nbits_nlimbs. reflexivity. Qed.
Lemma pow64_pos i : 0 <= i -> 0 < 2 ^ (64 * i). Proof. intros. apply Z.pow_pos_nonneg; lia. Qed.

(* the digit i of x *)
Lemma get_limb_spec k : forall x i, wf k x -> 0 <= i < nlimbs k ->
  0 <= get_limb k x i < W /\ get_limb k x i = (val k x / 2 ^ (64 * i)) mod W.
Proof.
  induction k as [|k IH]; intros x i Hx Hi.
  - cbn [get_limb wf val nlimbs] in *. assert (i = 0) by lia. subst i. change (2 ^ (64 * 0)) with 1.
    rewrite Z.div_1_r, Z.mod_small by lia. lia.
  - destruct x as [xl xh]. destruct Hx as [Hl Hh]. cbn [get_limb nlimbs fst snd] in *. rewrite val_S. cbn [fst snd].
    pose proof (nlimbs_pos k) as Hn. pose proof (val_range _ _ Hl) as Rl. pose proof (val_range _ _ Hh) as Rh.
    rewrite B_limbs in *. pose proof W_pos as HW.
    destruct (Z.ltb_spec i (nlimbs k)) as [Hlo|Hhi].
    + destruct (IH xl i Hl ltac:(lia)) as [R E]. split; [exact R|]. rewrite E.
      (* (xl + 2^(64 n) xh) / 2^(64 i) = xl / 2^(64 i) + 2^(64 (n - i)) xh, and 2^(64(n-i)) is a multiple of W *)
      replace (64 * nlimbs k) with (64 * i + 64 * (nlimbs k - i)) by lia. rewrite Z.pow_add_r by lia.
      pose proof (pow64_pos i ltac:(lia)) as HP.
      replace (val k xl + 2 ^ (64 * i) * 2 ^ (64 * (nlimbs k - i)) * val k xh)
        with (val k xl + (2 ^ (64 * (nlimbs k - i)) * val k xh) * 2 ^ (64 * i)) by ring.
      rewrite Z.div_add by lia.
      replace (64 * (nlimbs k - i)) with (64 + 64 * (nlimbs k - i - 1)) by lia. rewrite Z.pow_add_r by lia.
      change (2 ^ 64) with 18446744073709551616. rewrite <- W_eq.
      replace (W * 2 ^ (64 * (nlimbs k - i - 1)) * val k xh) with ((2 ^ (64 * (nlimbs k - i - 1)) * val k xh) * W) by ring.
      rewrite Z.mod_add by lia. reflexivity.
    + destruct (IH xh (i - nlimbs k) Hh ltac:(lia)) as [R E]. split; [exact R|]. rewrite E. f_equal.
      replace (64 * i) with (64 * nlimbs k + 64 * (i - nlimbs k)) by lia. rewrite Z.pow_add_r by lia.
      pose proof (pow64_pos (nlimbs k) ltac:(lia)) as HP. pose proof (pow64_pos (i - nlimbs k) ltac:(lia)) as HP2.
      rewrite <- Z.div_div by lia. f_equal.
      rewrite Z.add_comm, Z.mul_comm, Z.div_add_l by lia. rewrite (Z.div_small (val k xl)) by lia. lia.
Qed.

(* replacing the digit i *)
Lemma set_limb_spec k : forall a l i, wf k a -> 0 <= l < W -> 0 <= i < nlimbs k ->
  wf k (set_limb k a l i) /\
  val k (set_limb k a l i) = val k a + (l - get_limb k a i) * 2 ^ (64 * i).
Proof.
  induction k as [|k IH]; intros a l i Ha Hl Hi.
  - cbn [set_limb get_limb wf val nlimbs] in *. assert (i = 0) by lia. subst i. cbn [Z.eqb]. change (2 ^ (64 * 0)) with 1.
    split; [exact Hl | lia].
  - destruct a as [al ah]. destruct Ha as [Hal Hah]. cbn [set_limb get_limb nlimbs fst snd] in *.
    pose proof (nlimbs_pos k) as Hn.
    destruct (Z.ltb_spec i (nlimbs k)) as [Hlo|Hhi].
    + destruct (IH al l i Hal Hl ltac:(lia)) as [W1 E1]. split; [split; assumption|].
      rewrite !val_S. cbn [fst snd]. rewrite E1. ring.
    + destruct (IH ah l (i - nlimbs k) Hah Hl ltac:(lia)) as [W1 E1]. split; [split; assumption|].
      rewrite !val_S. cbn [fst snd]. rewrite E1, B_limbs.
      replace (64 * i) with (64 * nlimbs k + 64 * (i - nlimbs k)) by lia. rewrite Z.pow_add_r by lia. ring.
Qed.

Definition Limb_access_exact := forall k x l i, wf k x -> 0 <= l < W -> 0 <= i < nlimbs k ->
  get_limb k x i = (val k x / 2 ^ (64 * i)) mod W /\
  wf k (set_limb k x l i) /\ val k (set_limb k x l i) = val k x + (l - get_limb k x i) * 2 ^ (64 * i).
Lemma limb_access_exact : Limb_access_exact.
Proof.
  intros k x l i Hx Hl Hi. destruct (get_limb_spec k x i Hx Hi) as [_ E]. destruct (set_limb_spec k x l i Hx Hl Hi) as [W1 E1].
  repeat split; assumption.
Qed.

(* mpz_to_ruint: limb i := low limb of c, c >>= 64, for i = 0 .. NBLIMB-1 *)
Lemma mpz_loop_spec k : forall (n : nat) i c a, 0 <= i -> i + Z.of_nat n = nlimbs k -> 0 <= c -> wf k a ->
  val k a < 2 ^ (64 * i) ->
  wf k (mpz_to_ruint_loop k n i c a) /\
  val k (mpz_to_ruint_loop k n i c a) = val k a + 2 ^ (64 * i) * (c mod 2 ^ (64 * Z.of_nat n)).
Proof.
  induction n as [|n IH]; intros i c a Hi Hin Hc Ha Hlt.
  - cbn [mpz_to_ruint_loop]. split; [exact Ha|]. change (2 ^ (64 * Z.of_nat 0)) with 1. rewrite Z.mod_1_r. lia.
  - cbn [mpz_to_ruint_loop]. rewrite Nat2Z.inj_succ in *.
    pose proof W_pos as HW. pose proof (val_range _ _ Ha) as Ra. pose proof (pow64_pos i Hi) as HP.
    assert (Elv : modW (Z.abs c) = c mod W) by (rewrite Z.abs_eq, modW_eq by lia; reflexivity).
    set (lv := modW (Z.abs c)) in *. clearbody lv.
    assert (Hl : 0 <= lv < W) by (rewrite Elv; apply Z.mod_pos_bound; lia).
    destruct (set_limb_spec k a lv i Ha Hl ltac:(lia)) as [W1 E1].
    destruct (get_limb_spec k a i Ha ltac:(lia)) as [_ Eg].
    rewrite (Z.div_small (val k a)) in Eg by lia. rewrite Z.mod_0_l in Eg by lia. rewrite Eg, Z.sub_0_r in E1.
    assert (E1' : val k (set_limb k a lv i) = val k a + (c mod W) * 2 ^ (64 * i)) by (rewrite E1, Elv; reflexivity).
    clear E1. rename E1' into E1.
    assert (Hlt' : val k (set_limb k a lv i) < 2 ^ (64 * (i + 1))).
    { rewrite E1. replace (64 * (i + 1)) with (64 * i + 64) by lia. rewrite Z.pow_add_r by lia.
      change (2 ^ 64) with 18446744073709551616. rewrite <- W_eq. pose proof (Z.mod_pos_bound c W HW). nia. }
    destruct (IH (i + 1) (Z.shiftr c 64) _ ltac:(lia) ltac:(lia) ltac:(apply Z.shiftr_nonneg; lia) W1 Hlt') as [W2 E2].
    split; [exact W2|]. rewrite E2, E1. rewrite Z.shiftr_div_pow2 by lia.
    change (2 ^ 64) with 18446744073709551616. rewrite <- W_eq.
    replace (64 * (i + 1)) with (64 * i + 64) by lia. rewrite Z.pow_add_r by lia.
    change (2 ^ 64) with 18446744073709551616. rewrite <- W_eq.
    replace (64 * Z.succ (Z.of_nat n)) with (64 + 64 * Z.of_nat n) by lia. rewrite Z.pow_add_r by lia.
    change (2 ^ 64) with 18446744073709551616. rewrite <- W_eq.
    assert (HQ : 0 < 2 ^ (64 * Z.of_nat n)) by (apply Z.pow_pos_nonneg; lia).
    rewrite (Z.rem_mul_r c W (2 ^ (64 * Z.of_nat n))) by lia. ring.
Qed.

Definition Mpz_to_ruint_exact := forall k b, 0 <= b -> wf k (mpz_to_ruint k b) /\ val k (mpz_to_ruint k b) = b mod B k.
Lemma mpz_to_ruint_exact : Mpz_to_ruint_exact.
Proof.
  intros k b Hb. unfold mpz_to_ruint. pose proof (nlimbs_pos k).
  destruct (mpz_loop_spec k (Z.to_nat (nlimbs k)) 0 b (zero k) ltac:(lia) ltac:(rewrite Z2Nat.id; lia) Hb (wf_zero k)
              ltac:(rewrite val_zero; change (2 ^ (64 * 0)) with 1; lia)) as [W1 E1].
  split; [exact W1|]. rewrite E1, val_zero, Z2Nat.id by lia. rewrite <- B_limbs. change (2 ^ (64 * 0)) with 1. lia.
Qed.

(* mpz_to_rint and back: lossless on the signed range *)
Definition Rint_conversion_exact := forall k b,
  wf k (mpz_to_rint k b) /\ val k (mpz_to_rint k b) = b mod B k /\
  (- B k <= 2 * b < B k -> rint_to_mpz k (mpz_to_rint k b) = b).
Lemma rint_conversion_exact : Rint_conversion_exact.
Proof.
  intros k b. pose proof (B_pos k) as HB.
  assert (H : wf k (mpz_to_rint k b) /\ val k (mpz_to_rint k b) = b mod B k).
  { unfold mpz_to_rint. destruct (Z.ltb_spec b 0).
    - destruct (mpz_to_ruint_exact k (- b) ltac:(lia)) as [W1 E1]. destruct (neg_spec k _ W1) as [W2 E2].
      split; [exact W2|]. rewrite E2, E1.
      pose proof (Z.div_mod (- b) (B k) ltac:(lia)) as D.
      replace b with (- ((- b) mod B k) + (- ((- b) / B k)) * B k) at 2 by lia. rewrite Z.mod_add by lia. reflexivity.
    - apply mpz_to_ruint_exact. lia. }
  destruct H as [W1 E1]. split; [exact W1|]. split; [exact E1|]. intros Hr.
  rewrite rint_to_mpz_exact by assumption. unfold sval. rewrite is_neg_spec by assumption. rewrite E1.
  destruct (Z.lt_ge_cases b 0).
  - assert (Em : b mod B k = b + B k) by (symmetry; apply Z.mod_unique with (q := -1); [left; lia | lia]).
    rewrite Em. destruct (Z.leb_spec (B k) (2 * (b + B k))); lia.
  - rewrite Z.mod_small by lia. destruct (Z.leb_spec (B k) (2 * b)); lia.
Qed.
