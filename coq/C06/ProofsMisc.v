(* word multiplier, division by a native word, signed mod_n. *)
From Coq Require Import ZArith Lia Bool.
From C06 Require Import Model ProofsBase ProofsRepr ProofsAdd ProofsBits ProofsShift ProofsMul ProofsSquare ProofsDivTop ProofsDivFinal ProofsModn ProofsSigned.
Local Open Scope Z_scope.
Ltac Zify.zify_post_hook ::= Z.div_mod_to_equations.

(* lmul(limb& ret, a, b, T c): ret|a = b*c *)
Definition Lmul_word_exact := forall k b c, wf k b -> 0 <= c < W ->
  wf k (fst (lmul_w k b c)) /\ 0 <= snd (lmul_w k b c) < W /\
  val k (fst (lmul_w k b c)) + B k * snd (lmul_w k b c) = val k b * c.
Lemma lmul_word_exact : Lmul_word_exact.
Proof.
  intros k. induction k as [|k IH]; intros b c Hb Hc.
  - cbn [lmul_w wf val B] in *. pose proof (umul_ppmm_spec b c Hb Hc) as H. destruct (umul_ppmm b c) as [h l].
    cbn [fst snd]. destruct H as (Rh & Rl & E). repeat split; lia.
  - destruct b as [bl bh]. destruct Hb as [Hbl Hbh]. cbn [lmul_w fst snd].
    pose proof (IH bl c Hbl Hc) as (W1 & R1 & E1). destruct (lmul_w k bl c) as [al retl]. cbn [fst snd] in *.
    pose proof (IH bh c Hbh Hc) as (W2 & R2 & E2). destruct (lmul_w k bh c) as [ah ret]. cbn [fst snd] in *.
    pose proof (add_w_spec k ah retl W2 R1) as (W3 & E3). destruct (add_w k ah retl) as [ah' rt]. cbn [fst snd] in *.
    pose proof (B_pos k) as HB. pose proof (val_range _ _ W1). pose proof (val_range _ _ W3). pose proof (b2z_range rt).
    pose proof (val_range _ _ Hbl). pose proof (val_range _ _ Hbh). pose proof W_pos.
    assert (Etot : val k al + B k * val k ah' + B k * B k * (ret + b2z rt) = (val k bl + B k * val k bh) * c).
    { clear - E1 E2 E3. mulhyp E2 (B k). mulhyp E3 (B k). lia. }
    assert (Hsm : ret + b2z rt < W).
    { destruct (Z.lt_ge_cases (ret + b2z rt) W) as [|Hge]; [assumption|exfalso].
      assert (Rb : 0 <= val k bl + B k * val k bh < B k * B k) by (apply pair_range; lia).
      assert ((val k bl + B k * val k bh) * c < B k * B k * W) by (clear - Rb HB Hc; nia).
      assert (B k * B k * W <= B k * B k * (ret + b2z rt)) by (clear - Hge HB; nia).
      assert (0 <= val k al + B k * val k ah') by (clear - H H0 HB; nia). lia. }
    rewrite modW_eq, Z.mod_small by lia.
    split; [split; assumption|]. split; [lia|]. rewrite !val_S, B_S. cbn [fst snd]. lia.
Qed.

(* mod_n(rint<K>&, const rint<K+1>&, const rint<K>&) for a positive modulus: the non-negative remainder *)
Definition Smod_n_exact := forall thr k b c, wf (S k) b -> wf k c -> 0 < val k c ->
  wf k (smod_n thr k b c) /\ val k (smod_n thr k b c) = sval (S k) b mod val k c.
Lemma smod_n_exact : Smod_n_exact.
Proof.
  intros thr k b c Hb Hc Hpos. unfold smod_n.
  destruct (is_neg (S k) b) eqn:Nb.
  - destruct (abs_val (S k) b Hb Nb) as [Wn En].
    destruct (mod_n_exact thr k _ c Wn Hc ltac:(lia)) as [Wm Em]. rewrite En in Em.
    rewrite is_zero_spec by assumption.
    pose proof (Z.mod_pos_bound (- sval (S k) b) (val k c) Hpos) as Rm. rewrite <- Em in Rm.
    pose proof (Z.div_mod (- sval (S k) b) (val k c) ltac:(lia)) as D. rewrite <- Em in D.
    set (t := - sval (S k) b / val k c) in *.
    destruct (Z.eqb_spec (val k (mod_n thr k (neg (S k) b) c)) 0) as [E|E].
    + split; [exact Wm|]. rewrite E in *. apply Z.mod_unique with (q := - t); [left; lia | lia].
    + destruct (sub_c_spec k c _ Hc Wm) as [Ws Es]. destruct (sub_c k c (mod_n thr k (neg (S k) b) c)) as [sv bo]. cbn [fst snd] in *.
      pose proof (val_range _ _ Ws). pose proof (val_range _ _ Hc).
      assert (Ev : val k sv = val k c - val k (mod_n thr k (neg (S k) b) c)) by (destruct bo; cbn [b2z] in Es; lia).
      split; [exact Ws|]. rewrite Ev. apply Z.mod_unique with (q := - t - 1); [left; lia | lia].
  - destruct (mod_n_exact thr k b c Hb Hc ltac:(lia)) as [Wm Em]. split; [exact Wm|]. rewrite Em. unfold sval. rewrite Nb. reflexivity.
Qed.
