(* division by a native word and the signed modular inverse *)
From Coq Require Import ZArith Lia Bool.
From C06 Require Import Model ProofsBase ProofsRepr ProofsAdd ProofsBits ProofsShift ProofsDivTop ProofsDivFinal ProofsInvMod ProofsSigned.
Local Open Scope Z_scope.
Ltac Zify.zify_post_hook ::= Z.div_mod_to_equations.

Lemma W_le_B k : W <= B k.
Proof.
  rewrite B_nbits, W_eq. change 18446744073709551616 with (2 ^ 64). apply Z.pow_le_mono_r; [lia|].
  induction k; cbn [nbits]; lia.
Qed.

(* div(q, T& r, a, T b): b == 2 goes through right_shift_1, everything else through div with ruint<K>(b) *)
Definition Div_word_exact := forall thr k a b, wf k a -> 0 < b < W ->
  wf k (fst (div_w thr k a b)) /\ val k (fst (div_w thr k a b)) = val k a / b /\ snd (div_w thr k a b) = val k a mod b.
Lemma div_word_exact : Div_word_exact.
Proof.
  intros thr k a b Ha Hb. unfold div_w. pose proof (W_le_B k) as HWB. pose proof (val_range _ _ Ha) as Ra.
  destruct (Z.eqb_spec b 2) as [->|Hne].
  - destruct (shr1_spec k a Ha) as [W1 E1]. destruct (shr1 k a) as [q z]. cbn [fst snd] in *.
    pose proof (b2z_range z). split; [exact W1|]. split.
    + apply Z.div_unique with (r := b2z z); [left; lia | lia].
    + apply Z.mod_unique with (q := val k q); [left; lia | lia].
  - assert (Eb : val k (of_Z k b) = b) by (rewrite val_of_Z; apply Z.mod_small; lia).
    destruct (div_exact thr k a (of_Z k b) Ha (wf_of_Z k b) ltac:(lia)) as (Wq & Wr & E & R).
    destruct (div thr k a (of_Z k b)) as [q r]. cbn [fst snd] in *. rewrite Eb in *.
    split; [exact Wq|]. split.
    + apply Z.div_unique with (r := val k r); [left; lia | lia].
    + rewrite Z.mod_small by lia. apply Z.mod_unique with (q := val k q); [left; lia | lia].
Qed.

(* inv_mod(rint, rint, rint): a negative b is replaced by c + b (the code assumes -c < b) *)
Definition Sinv_mod_exact := forall thr k b c, wf k b -> wf k c -> 1 < val k c -> - val k c < sval k b ->
  Z.gcd (sval k b) (val k c) = 1 ->
  wf k (sinv_mod thr k b c) /\ val k (sinv_mod thr k b c) < val k c /\
  (sval k b * val k (sinv_mod thr k b c)) mod val k c = 1.
Lemma sinv_mod_exact : Sinv_mod_exact.
Proof.
  intros thr k b c Hb Hc H1 Hlo Hg. unfold sinv_mod. pose proof (val_range _ _ Hc) as Rc.
  destruct (is_neg k b) eqn:Nb.
  - destruct (abs_val k b Hb Nb) as [Wn En]. pose proof (val_range _ _ Wn) as Rn.
    destruct (sub_c_spec k c _ Hc Wn) as [Ws Es]. destruct (sub_c k c (neg k b)) as [sv bo]. cbn [fst snd] in *.
    pose proof (val_range _ _ Ws).
    assert (Ev : val k sv = val k c + sval k b) by (destruct bo; cbn [b2z] in Es; lia).
    assert (Hg' : Z.gcd (val k sv) (val k c) = 1).
    { rewrite Ev, Z.gcd_comm. replace (val k c + sval k b) with (sval k b + 1 * val k c) by ring.
      rewrite Z.gcd_add_mult_diag_r, Z.gcd_comm. exact Hg. }
    destruct (inv_mod_exact thr k sv c Ws Hc H1 Hg') as (Wr & Lr & Er). split; [exact Wr|]. split; [exact Lr|].
    rewrite <- Er, Ev. replace ((val k c + sval k b) * val k (inv_mod thr k sv c))
      with (sval k b * val k (inv_mod thr k sv c) + val k (inv_mod thr k sv c) * val k c) by ring.
    rewrite Z.mod_add by lia. reflexivity.
  - assert (Eb : val k b = sval k b) by (unfold sval; rewrite Nb; reflexivity). rewrite <- Eb in *.
    apply inv_mod_exact; assumption.
Qed.
