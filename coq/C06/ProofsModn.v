(* mod_n(a, b : ruint<K+1>, n): the remainder of a double-size value (two div_2_1 steps after normalisation). *)
From Coq Require Import ZArith Lia Bool.
From C06 Require Import Model ProofsBase ProofsRepr ProofsAdd ProofsBits ProofsShift ProofsMul ProofsDiv ProofsDivTop ProofsDivFinal.
Local Open Scope Z_scope.
Ltac Zify.zify_post_hook ::= Z.div_mod_to_equations.

Definition Mod_n_exact := forall thr k b n, wf (S k) b -> wf k n -> val k n <> 0 ->
  wf k (mod_n thr k b n) /\ val k (mod_n thr k b n) = val (S k) b mod val k n.

Lemma mod_n_exact : Mod_n_exact.
Proof.
  intros thr k b n Hb Hn Hnz. unfold mod_n.
  pose proof (val_range _ _ Hb) as Rb. pose proof (val_range _ _ Hn) as Rn. pose proof (B_pos k) as HB.
  set (vb := val (S k) b) in *.
  destruct (norm_spec k n Hn Hnz) as [Rd Rnn]. set (d := normalization k n) in *.
  assert (HP : 0 < 2 ^ d) by (apply Z.pow_pos_nonneg; lia).
  assert (HPB : 2 ^ d < B k) by (rewrite (B_nbits k); apply Z.pow_lt_mono_r; lia).
  set (P := 2 ^ d) in *.
  destruct (shl_ext_exact (S k) b d Hb ltac:(lia)) as [Wbb Ebb]. fold vb in Ebb.
  destruct (shl_exact k n d Hn ltac:(lia)) as [Wnn Enn]. fold P in Ebb, Enn.
  rewrite Z.mod_small in Enn by lia.
  rewrite B_S in Rb.
  assert (Hsm : 0 <= vb * P < B (S (S k))).
  { rewrite !B_S. set (B2 := B k * B k) in *. assert (0 < B2) by (subst B2; nia).
    assert (vb * P < B2 * B k) by (clear - Rb HP HPB H; nia).
    assert (B2 * B k <= B2 * B2) by (subst B2; clear - HB; nia). clear - Rb HP H0 H1. nia. }
  rewrite Z.mod_small in Ebb by exact Hsm.
  destruct (left_shift_ext (S k) b d) as [[l0 l1] [h0 h1]]. destruct Wbb as [[Wl0 Wl1] [Wh0 Wh1]].
  rewrite (val_S (S k)), !(val_S k), B_S in Ebb. cbn [fst snd] in *.
  pose proof (val_range _ _ Wl0) as Rl0. pose proof (val_range _ _ Wl1) as Rl1.
  pose proof (val_range _ _ Wh0) as Rh0. pose proof (val_range _ _ Wh1) as Rh1.
  set (nn := left_shift k n d) in *.
  (* the top part is below P: h1 = 0 and h0 < P <= nn *)
  assert (Htop : val k h0 + B k * val k h1 < P).
  { destruct (Z.lt_ge_cases (val k h0 + B k * val k h1) P) as [|Hge]; [assumption|exfalso].
    set (H := val k h0 + B k * val k h1) in *. set (B2 := B k * B k) in *. assert (0 < B2) by (subst B2; nia).
    assert (B2 * P <= B2 * H) by (clear - Hge H0; nia).
    assert (vb * P < B2 * P) by (clear - Rb HP; nia).
    assert (0 <= val k l0 + B k * val k l1) by (clear - Rl0 Rl1 HB; nia). clear - Ebb H1 H2 H3. lia. }
  assert (Eh1 : val k h1 = 0) by (clear - Htop Rh0 Rh1 HPB HB; nia).
  assert (Hh0 : val k h0 < val k nn) by (rewrite Enn; clear - Htop Eh1 Rn Hnz HP; nia).
  pose proof (div21_exact thr k h0 l1 nn Wh0 Wl1 Wnn ltac:(lia) Hh0) as (Wq1 & Wr & E1 & Rr).
  destruct (div21 thr k h0 l1 nn) as [q1 r]. cbn [fst snd] in *.
  pose proof (div21_exact thr k r l0 nn Wr Wl0 Wnn ltac:(lia) Rr) as (Wq0 & Wa & E0 & Ra).
  destruct (div21 thr k r l0 nn) as [q0 a]. cbn [fst snd] in *.
  destruct (shr_exact k a d Wa ltac:(lia)) as [Wres Eres]. fold P in Eres.
  split; [exact Wres|]. rewrite Eres.
  pose proof (val_range _ _ Wa) as Raa.
  set (Q := val k q1 * B k + val k q0).
  assert (EQ : vb * P = Q * (val k n * P) + val k a).
  { subst Q. rewrite Enn in *. rewrite Eh1 in Ebb. clear - Ebb E1 E0. mulhyp E1 (B k). lia. }
  assert (Ea : val k a = P * (vb - Q * val k n)) by (clear - EQ; lia).
  rewrite Ea. rewrite (Z.mul_comm P), Z.div_mul by lia.
  rewrite Enn in Ra.
  apply Z.mod_unique with (q := Q); [left; clear - Ea Ra Raa HP; nia | ring].
Qed.
