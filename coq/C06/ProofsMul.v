(* Multiplication family: lmul_naive, laddmul (both addend sizes), lmul_kara, lmul, mul, addmul
   are exact for every K and every Karatsuba threshold (induction on k = K-6 over the mulpack). *)
From Coq Require Import ZArith Lia Bool.
From C06 Require Import Model ProofsBase ProofsAdd.
Local Open Scope Z_scope.
Ltac Zify.zify_post_hook ::= Z.div_mod_to_equations.

(* ---- specifications of the members of the pack ---- *)
Definition lmul_ok k (f : ru k -> ru k -> ru k * ru k) := forall b c, wf k b -> wf k c ->
  wf k (fst (f b c)) /\ wf k (snd (f b c)) /\
  val k (fst (f b c)) + B k * val k (snd (f b c)) = val k b * val k c.

Definition laddmul_ok k (f : ru k -> ru k -> ru k -> (ru k * ru k) * bool) := forall b c d,
  wf k b -> wf k c -> wf k d ->
  wf k (fst (fst (f b c d))) /\ wf k (snd (fst (f b c d))) /\
  val k (fst (fst (f b c d))) + B k * val k (snd (fst (f b c d))) = val k b * val k c + val k d /\
  snd (f b c d) = false.

Definition laddmul2_ok k (f : ru k -> ru k -> ru (S k) -> (ru k * ru k) * bool) := forall b c d,
  wf k b -> wf k c -> wf (S k) d ->
  wf k (fst (fst (f b c d))) /\ wf k (snd (fst (f b c d))) /\
  val k (fst (fst (f b c d))) + B k * val k (snd (fst (f b c d))) + B (S k) * b2z (snd (f b c d))
    = val k b * val k c + val (S k) d.

Record pack_ok (k : nat) (p : mulpack k) : Prop := {
  ok_naive : lmul_ok k (mp_naive p);
  ok_lmul : lmul_ok k (mp_lmul p);
  ok_laddmul : laddmul_ok k (mp_laddmul p);
  ok_laddmul2 : laddmul2_ok k (mp_laddmul2 p) }.

(* ---- limb level ---- *)
Lemma umul_ppmm_spec a b : 0 <= a < W -> 0 <= b < W ->
  let '(h, l) := umul_ppmm a b in 0 <= h < W /\ 0 <= l < W /\ l + W * h = a * b.
Proof.
  intros Ha Hb. unfold umul_ppmm.
  assert (Hp : 0 <= a * b <= (W - 1) * (W - 1)) by nia.
  revert Hp. generalize (a * b). intros p Hp. rewrite ?modW_eq, ?divW_eq in *; rewrite W_eq in *. lia.
Qed.

Lemma pack0_ok : pack_ok 0 mulpack0.
Proof.
  split; cbn [mulpack0 mp_naive mp_lmul mp_laddmul mp_laddmul2].
  - intros b c Hb Hc. cbn [wf val B] in *. unfold lmul0.
    pose proof (umul_ppmm_spec b c Hb Hc) as H. destruct (umul_ppmm b c) as [h l]. cbn [fst snd]. tauto.
  - intros b c Hb Hc. cbn [wf val B] in *. unfold lmul0.
    pose proof (umul_ppmm_spec b c Hb Hc) as H. destruct (umul_ppmm b c) as [h l]. cbn [fst snd]. tauto.
  - intros b c d Hb Hc Hd. cbn [wf val B] in *. unfold laddmul0.
    pose proof (umul_ppmm_spec b c Hb Hc) as H. destruct (umul_ppmm b c) as [h l]. destruct H as (Hh & Hl & E).
    assert (H0 : 0 <= 0 < W) by (pose proof W_pos; lia).
    pose proof (add_ssaaaa_spec h l 0 d Hh Hl H0 Hd) as H. destruct (add_ssaaaa h l 0 d) as [h' l'].
    destruct H as (Hh' & Hl' & E'). cbn [fst snd].
    assert (Hp : 0 <= b * c <= (W - 1) * (W - 1)) by nia.
    revert Hp E. generalize (b * c). intros p Hp E. rewrite ?modW_eq, ?divW_eq in *; rewrite W_eq in *.
    repeat split; lia.
  - intros b c [dl dh] Hb Hc [Hdl Hdh]. cbn [wf val B fst snd] in *. unfold laddmul20. cbn [fst snd].
    pose proof (umul_ppmm_spec b c Hb Hc) as H. destruct (umul_ppmm b c) as [h l]. destruct H as (Hh & Hl & E).
    pose proof (add_ssaaaa_spec h l dh dl Hh Hl Hdh Hdl) as H. destruct (add_ssaaaa h l dh dl) as [h' l'].
    destruct H as (Hh' & Hl' & E'). cbn [fst snd].
    assert (Hp : 0 <= b * c <= (W - 1) * (W - 1)) by nia.
    revert Hp E. generalize (b * c). intros p Hp E. rewrite ?modW_eq, ?divW_eq in *; rewrite W_eq in *.
    repeat split; try lia.
    destruct (Z.ltb_spec h' dh); cbn [orb b2z]; [lia|].
    destruct (Z.eqb_spec h' dh); cbn [andb]; [|cbn [b2z]; lia].
    destruct (Z.ltb_spec l' dl); cbn [b2z]; lia.
Qed.

(* ---- conditional increments ---- *)
Lemma add_1_if_spec k r x : wf k x ->
  wf k (fst (add_1_if k r x)) /\
  val k (fst (add_1_if k r x)) + B k * b2z (snd (add_1_if k r x)) = val k x + b2z r.
Proof.
  intros H. unfold add_1_if. destruct r; [apply add_1_spec; auto|].
  cbn [fst snd b2z]. split; [auto|lia].
Qed.

Lemma add_1_high_if_spec k r (x : ru (S k)) : wf (S k) x ->
  wf (S k) (fst (add_1_high_if k r x)) /\
  val (S k) (fst (add_1_high_if k r x)) + B (S k) * b2z (snd (add_1_high_if k r x)) = val (S k) x + B k * b2z r.
Proof.
  intros [H1 H2]. unfold add_1_high_if. destruct r.
  - pose proof (add_1_spec k (snd x) H2) as [Hw E]. destruct (add_1 k (snd x)) as [h r']. cbn [fst snd] in *.
    split; [split; auto|]. rewrite !val_S, B_S. cbn [fst snd b2z]. nia.
  - cbn [fst snd b2z]. split; [split; auto|lia].
Qed.

Lemma add_high_if_spec k r (a : ru (S k)) x : wf (S k) a -> wf k x ->
  wf (S k) (fst (add_high_if k r a x)) /\
  val (S k) (fst (add_high_if k r a x)) + B (S k) * b2z (snd (add_high_if k r a x))
    = val (S k) a + B k * (b2z r * val k x).
Proof.
  intros [H1 H2] Hx. unfold add_high_if. destruct r.
  - pose proof (add_c_spec k (snd a) x H2 Hx) as [Hw E]. destruct (add_c k (snd a) x) as [h r']. cbn [fst snd] in *.
    split; [split; auto|]. rewrite !val_S, B_S. cbn [fst snd b2z]. nia.
  - cbn [fst snd b2z]. split; [split; auto|lia].
Qed.

(* abstract every `val k x` to an integer variable (keeping the range facts posed before) *)
Ltac absval := repeat match goal with
  | H : context[val ?k ?x] |- _ => let z := fresh "z" in set (z := val k x) in *; clearbody z
  | |- context[val ?k ?x] => let z := fresh "z" in set (z := val k x) in *; clearbody z end.
Ltac ranges := repeat match goal with H : wf ?k ?x |- _ => pose proof (val_range k x H); clear H end.
Ltac mulhyp E m := let H := fresh "M" in pose proof (f_equal (Z.mul m) E) as H.

Lemma b2z_or a b : b2z a + b2z b <= 1 -> b2z (a || b) = b2z a + b2z b.
Proof. destruct a, b; cbn; lia. Qed.

(* a sum that is < 2 * B^2 has carry at most one *)
Lemma carry_le_1 (B2 L S b c d : Z) : 0 < B2 -> 0 <= b < B2 -> 0 <= c < B2 -> 0 <= d < B2 * B2 -> 0 <= L -> 0 <= S ->
  L + B2 * B2 * S = b * c + d -> S <= 1.
Proof. intros. assert (b * c <= (B2 - 1) * (B2 - 1)) by nia. nia. Qed.
Lemma carry_0 (B2 L S b c d : Z) : 0 < B2 -> 0 <= b < B2 -> 0 <= c < B2 -> 0 <= d < B2 -> 0 <= L -> 0 <= S ->
  L + B2 * B2 * S = b * c + d -> S = 0.
Proof. intros. assert (b * c <= (B2 - 1) * (B2 - 1)) by nia. nia. Qed.

Lemma pair_range Bk lo hi : 0 < Bk -> 0 <= lo < Bk -> 0 <= hi < Bk -> 0 <= lo + Bk * hi < Bk * Bk.
Proof. intros. nia. Qed.
Lemma pair_nonneg3 Bk a b c : 0 < Bk -> 0 <= a -> 0 <= b -> 0 <= c -> 0 <= a + Bk * b + Bk * Bk * c.
Proof. intros. nia. Qed.

Lemma laddmul2_step_ok k lm la2 : lmul_ok k lm -> laddmul2_ok k la2 ->
  laddmul2_ok (S k) (laddmul2_step k lm la2).
Proof.
  intros Hlm Hla2 [bl bh] [cl ch] [dl dh] [Hbl Hbh] [Hcl Hch] [Hdl Hdh].
  unfold laddmul2_step. cbn [fst snd].
  pose proof (Hla2 bl cl dl Hbl Hcl Hdl) as (W1 & W2 & E1). destruct (la2 bl cl dl) as [[x0 x1] rlow]. cbn [fst snd] in *.
  pose proof (Hlm bh cl Hbh Hcl) as (W3 & W4 & E2). destruct (lm bh cl) as [m0 m1]. cbn [fst snd] in *.
  pose proof (Hla2 bl ch (m0, m1) Hbl Hch (conj W3 W4)) as (W5 & W6 & E3). destruct (la2 bl ch (m0, m1)) as [[n0 n1] rmid]. cbn [fst snd] in *.
  pose proof (Hla2 bh ch dh Hbh Hch Hdh) as (W7 & W8 & E4). destruct (la2 bh ch dh) as [[h0 h1] rhigh]. cbn [fst snd] in *.
  pose proof (add_c_spec k x1 n0 W2 W5) as (W9 & E5). destruct (add_c k x1 n0) as [alhi rlow2]. cbn [fst snd] in *.
  pose proof (add_c_spec k h0 n1 W7 W6) as (W10 & E6). destruct (add_c k h0 n1) as [ahlo rmid2]. cbn [fst snd] in *.
  pose proof (add_1_if_spec (S k) rlow (ahlo, h1) (conj W10 W8)) as (W11 & E7). destruct (add_1_if (S k) rlow (ahlo, h1)) as [a1 c1]. cbn [fst snd] in *.
  pose proof (add_1_if_spec (S k) rlow2 a1 W11) as (W12 & E8). destruct (add_1_if (S k) rlow2 a1) as [a2 c2]. cbn [fst snd] in *.
  pose proof (add_1_high_if_spec k rmid a2 W12) as (W13 & E9). destruct (add_1_high_if k rmid a2) as [a3 c3]. cbn [fst snd] in *.
  pose proof (add_1_high_if_spec k rmid2 a3 W13) as (W14 & E10). destruct (add_1_high_if k rmid2 a3) as [a4 c4]. cbn [fst snd] in *.
  split; [split; assumption|]. split; [assumption|].
  rewrite (val_S k (bl, bh)), (val_S k (cl, ch)), (val_S (S k) (dl, dh)).
  rewrite (val_S k (x0, alhi)). rewrite (val_S k (m0, m1)) in E3. rewrite (val_S k (ahlo, h1)) in E7. cbn [fst snd] in *.
  ranges. absval. rewrite !B_S in *. pose proof (B_pos k). set (Bk := B k) in *. clearbody Bk.
  assert (Hid : z5 + Bk * z13 + Bk * Bk * z18 + (Bk * Bk) * (Bk * Bk) * (b2z c1 + b2z c2 + b2z c3 + b2z c4 + b2z rhigh)
                = (z + Bk * z0) * (z1 + Bk * z2) + (z3 + Bk * Bk * z4)).
  { mulhyp E2 Bk. mulhyp E3 Bk. mulhyp E4 (Bk * Bk). mulhyp E5 Bk. mulhyp E6 (Bk * Bk).
    mulhyp E7 (Bk * Bk). mulhyp E8 (Bk * Bk). mulhyp E9 (Bk * Bk). mulhyp E10 (Bk * Bk). lia. }
  pose proof (b2z_range c1). pose proof (b2z_range c2). pose proof (b2z_range c3). pose proof (b2z_range c4).
  pose proof (b2z_range rhigh).
  assert (HS : b2z c1 + b2z c2 + b2z c3 + b2z c4 + b2z rhigh <= 1).
  { apply (carry_le_1 (Bk * Bk) (z5 + Bk * z13 + Bk * Bk * z18) _ (z + Bk * z0) (z1 + Bk * z2) (z3 + Bk * Bk * z4));
      [nia | apply pair_range; lia | apply pair_range; lia | apply pair_range; lia | apply pair_nonneg3; lia | lia | exact Hid]. }
  clear - Hid HS. destruct c1, c2, c3, c4, rhigh; cbn [orb b2z] in *; lia.
Qed.

Lemma laddmul_step_ok k lm la la2 : lmul_ok k lm -> laddmul_ok k la -> laddmul2_ok k la2 ->
  laddmul_ok (S k) (laddmul_step k lm la la2).
Proof.
  intros Hlm Hla Hla2 [bl bh] [cl ch] d [Hbl Hbh] [Hcl Hch] Hd.
  unfold laddmul_step. cbn [fst snd].
  pose proof (Hla2 bl cl d Hbl Hcl Hd) as (W1 & W2 & E1). destruct (la2 bl cl d) as [[x0 x1] rlow]. cbn [fst snd] in *.
  pose proof (Hlm bh cl Hbh Hcl) as (W3 & W4 & E2). destruct (lm bh cl) as [m0 m1]. cbn [fst snd] in *.
  pose proof (Hla2 bl ch (m0, m1) Hbl Hch (conj W3 W4)) as (W5 & W6 & E3). destruct (la2 bl ch (m0, m1)) as [[n0 n1] rmid]. cbn [fst snd] in *.
  pose proof (Hla bh ch n1 Hbh Hch W6) as (W7 & W8 & E4 & R4). destruct (la bh ch n1) as [[h0 h1] rhigh]. cbn [fst snd] in *.
  pose proof (add_c_spec k x1 n0 W2 W5) as (W9 & E5). destruct (add_c k x1 n0) as [alhi rlow2]. cbn [fst snd] in *.
  pose proof (add_1_if_spec (S k) rlow (h0, h1) (conj W7 W8)) as (W11 & E7). destruct (add_1_if (S k) rlow (h0, h1)) as [a1 c1]. cbn [fst snd] in *.
  pose proof (add_1_if_spec (S k) rlow2 a1 W11) as (W12 & E8). destruct (add_1_if (S k) rlow2 a1) as [a2 c2]. cbn [fst snd] in *.
  pose proof (add_1_high_if_spec k rmid a2 W12) as (W13 & E9). destruct (add_1_high_if k rmid a2) as [a3 c3]. cbn [fst snd] in *.
  split; [split; assumption|]. split; [assumption|]. subst rhigh.
  rewrite (val_S k (bl, bh)), (val_S k (cl, ch)), (val_S k (x0, alhi)).
  rewrite (val_S k (m0, m1)) in E3. rewrite (val_S k (h0, h1)) in E7. cbn [fst snd] in *.
  pose proof (val_range _ _ Hd) as Rd. ranges. rewrite !B_S in *. pose proof (B_pos k).
  assert (Hid : val k x0 + B k * val k alhi + B k * B k * val (S k) a3 + (B k * B k) * (B k * B k) * (b2z c1 + b2z c2 + b2z c3)
                = (val k bl + B k * val k bh) * (val k cl + B k * val k ch) + val (S k) d).
  { mulhyp E2 (B k). mulhyp E3 (B k). mulhyp E4 (B k * B k). mulhyp E5 (B k).
    mulhyp E7 (B k * B k). mulhyp E8 (B k * B k). mulhyp E9 (B k * B k). lia. }
  pose proof (b2z_range c1). pose proof (b2z_range c2). pose proof (b2z_range c3).
  assert (HS : b2z c1 + b2z c2 + b2z c3 = 0).
  { apply (carry_0 (B k * B k) (val k x0 + B k * val k alhi + B k * B k * val (S k) a3) _
             (val k bl + B k * val k bh) (val k cl + B k * val k ch) (val (S k) d));
      [nia | apply pair_range; lia | apply pair_range; lia | lia | apply pair_nonneg3; lia | lia | exact Hid]. }
  clear - Hid HS. destruct c1, c2, c3; cbn [orb b2z] in *; lia.
Qed.

Lemma naive_step_ok k nv la la2 : lmul_ok k nv -> laddmul_ok k la -> laddmul2_ok k la2 ->
  lmul_ok (S k) (lmul_naive_step k nv la la2).
Proof.
  intros Hnv Hla Hla2 [bl bh] [cl ch] [Hbl Hbh] [Hcl Hch].
  unfold lmul_naive_step. cbn [fst snd].
  pose proof (Hnv bl cl Hbl Hcl) as (W1 & W2 & E1). destruct (nv bl cl) as [x0 x1]. cbn [fst snd] in *.
  pose proof (Hnv bh cl Hbh Hcl) as (W3 & W4 & E2). destruct (nv bh cl) as [m0 m1]. cbn [fst snd] in *.
  pose proof (Hla2 bl ch (m0, m1) Hbl Hch (conj W3 W4)) as (W5 & W6 & E3). destruct (la2 bl ch (m0, m1)) as [[n0 n1] rmid]. cbn [fst snd] in *.
  pose proof (Hla bh ch n1 Hbh Hch W6) as (W7 & W8 & E4 & R4). destruct (la bh ch n1) as [[h0 h1] rhigh]. cbn [fst snd] in *.
  pose proof (add_c_spec k x1 n0 W2 W5) as (W9 & E5). destruct (add_c k x1 n0) as [alhi rlow]. cbn [fst snd] in *.
  pose proof (add_1_if_spec (S k) rlow (h0, h1) (conj W7 W8)) as (W11 & E7). destruct (add_1_if (S k) rlow (h0, h1)) as [a1 c1]. cbn [fst snd] in *.
  pose proof (add_1_high_if_spec k rmid a1 W11) as (W13 & E9). destruct (add_1_high_if k rmid a1) as [a3 c3]. cbn [fst snd] in *.
  split; [split; assumption|]. split; [assumption|].
  rewrite (val_S k (bl, bh)), (val_S k (cl, ch)), (val_S k (x0, alhi)).
  rewrite (val_S k (m0, m1)) in E3. rewrite (val_S k (h0, h1)) in E7. cbn [fst snd] in *.
  ranges. rewrite !B_S in *. pose proof (B_pos k).
  assert (Hid : val k x0 + B k * val k alhi + B k * B k * val (S k) a3 + (B k * B k) * (B k * B k) * (b2z c1 + b2z c3)
                = (val k bl + B k * val k bh) * (val k cl + B k * val k ch) + 0).
  { mulhyp E2 (B k). mulhyp E3 (B k). mulhyp E4 (B k * B k). mulhyp E5 (B k).
    mulhyp E7 (B k * B k). mulhyp E9 (B k * B k). lia. }
  pose proof (b2z_range c1). pose proof (b2z_range c3).
  assert (HS : b2z c1 + b2z c3 = 0).
  { apply (carry_0 (B k * B k) (val k x0 + B k * val k alhi + B k * B k * val (S k) a3) _
             (val k bl + B k * val k bh) (val k cl + B k * val k ch) 0);
      [nia | apply pair_range; lia | apply pair_range; lia | nia | apply pair_nonneg3; lia | lia | exact Hid]. }
  clear - Hid HS. rewrite HS in Hid. lia.
Qed.
