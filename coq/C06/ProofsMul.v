(* Multiplication family: lmul_naive, laddmul (both addend sizes), lmul_kara, lmul, mul, addmul
   are exact for every K and every Karatsuba threshold (induction on k = K-6 over the mulpack). *)
From Coq Require Import ZArith Lia Bool.
From C06 Require Import Model ProofsBase ProofsAdd.
Local Open Scope Z_scope.
Ltac Zify.zify_post_hook ::= Z.div_mod_to_equations.

(* ---- specifications of the members of the pack ---- *)
Definition lmul_ok k (f : ru k -> ru k -> ru k * ru k) := forall b c, wf k b -> wf k c ->
  wf k (fst (f b c)) /\ wf k (snd (f b c)) /\
  val k (fst (f b c)) + B k * val k (snd (f b c)) = val k b * val k c.

Definition laddmul_ok k (f : ru k -> ru k -> ru k -> (ru k * ru k) * bool) := forall b c d,
  wf k b -> wf k c -> wf k d ->
  wf k (fst (fst (f b c d))) /\ wf k (snd (fst (f b c d))) /\
  val k (fst (fst (f b c d))) + B k * val k (snd (fst (f b c d))) = val k b * val k c + val k d /\
  snd (f b c d) = false.

Definition laddmul2_ok k (f : ru k -> ru k -> ru (S k) -> (ru k * ru k) * bool) := forall b c d,
  wf k b -> wf k c -> wf (S k) d ->
  wf k (fst (fst (f b c d))) /\ wf k (snd (fst (f b c d))) /\
  val k (fst (fst (f b c d))) + B k * val k (snd (fst (f b c d))) + B (S k) * b2z (snd (f b c d))
    = val k b * val k c + val (S k) d.

Record pack_ok (k : nat) (p : mulpack k) : Prop := {
  ok_naive : lmul_ok k (mp_naive p);
  ok_lmul : lmul_ok k (mp_lmul p);
  ok_laddmul : laddmul_ok k (mp_laddmul p);
  ok_laddmul2 : laddmul2_ok k (mp_laddmul2 p) }.

(* ---- limb level ---- *)
Lemma umul_ppmm_spec a b : 0 <= a < W -> 0 <= b < W ->
  let '(h, l) := umul_ppmm a b in 0 <= h < W /\ 0 <= l < W /\ l + W * h = a * b.
Proof.
  intros Ha Hb. unfold umul_ppmm.
  assert (Hp : 0 <= a * b <= (W - 1) * (W - 1)) by nia.
  revert Hp. generalize (a * b). intros p Hp. rewrite W_eq in *. lia.
Qed.

Lemma pack0_ok : pack_ok 0 mulpack0.
Proof.
  split; cbn [mulpack0 mp_naive mp_lmul mp_laddmul mp_laddmul2].
  - intros b c Hb Hc. cbn [wf val B] in *. unfold lmul0.
    pose proof (umul_ppmm_spec b c Hb Hc) as H. destruct (umul_ppmm b c) as [h l]. cbn [fst snd]. tauto.
  - intros b c Hb Hc. cbn [wf val B] in *. unfold lmul0.
    pose proof (umul_ppmm_spec b c Hb Hc) as H. destruct (umul_ppmm b c) as [h l]. cbn [fst snd]. tauto.
  - intros b c d Hb Hc Hd. cbn [wf val B] in *. unfold laddmul0.
    pose proof (umul_ppmm_spec b c Hb Hc) as H. destruct (umul_ppmm b c) as [h l]. destruct H as (Hh & Hl & E).
    assert (H0 : 0 <= 0 < W) by (pose proof W_pos; lia).
    pose proof (add_ssaaaa_spec h l 0 d Hh Hl H0 Hd) as H. destruct (add_ssaaaa h l 0 d) as [h' l'].
    destruct H as (Hh' & Hl' & E'). cbn [fst snd].
    assert (Hp : 0 <= b * c <= (W - 1) * (W - 1)) by nia.
    revert Hp E. generalize (b * c). intros p Hp E. rewrite W_eq in *.
    repeat split; lia.
  - intros b c [dl dh] Hb Hc [Hdl Hdh]. cbn [wf val B fst snd] in *. unfold laddmul20. cbn [fst snd].
    pose proof (umul_ppmm_spec b c Hb Hc) as H. destruct (umul_ppmm b c) as [h l]. destruct H as (Hh & Hl & E).
    pose proof (add_ssaaaa_spec h l dh dl Hh Hl Hdh Hdl) as H. destruct (add_ssaaaa h l dh dl) as [h' l'].
    destruct H as (Hh' & Hl' & E'). cbn [fst snd].
    assert (Hp : 0 <= b * c <= (W - 1) * (W - 1)) by nia.
    revert Hp E. generalize (b * c). intros p Hp E. rewrite W_eq in *.
    repeat split; try lia.
    destruct (Z.ltb_spec h' dh); cbn [orb b2z]; [lia|].
    destruct (Z.eqb_spec h' dh); cbn [andb]; [|cbn [b2z]; lia].
    destruct (Z.ltb_spec l' dl); cbn [b2z]; lia.
Qed.
