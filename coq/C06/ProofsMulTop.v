(* Multiplication family, assembled: every member of the mulpack is exact for every K and every Karatsuba
   threshold; mul / addmul / square-by-mul are the product modulo B k. *)
From Coq Require Import ZArith Lia Bool.
From C06 Require Import Model ProofsBase ProofsAdd ProofsMul ProofsKara.
Local Open Scope Z_scope.
Ltac Zify.zify_post_hook ::= Z.div_mod_to_equations.

Lemma mulrec_ok thr k : pack_ok k (mulrec thr k).
Proof.
  induction k as [|k IH].
  - exact pack0_ok.
  - destruct IH as [Hn Hl Ha Ha2]. cbn [mulrec]. split; cbn [mp_naive mp_lmul mp_laddmul mp_laddmul2].
    + apply naive_step_ok; assumption.
    + destruct (Nat.ltb (S k) thr); [apply naive_step_ok | apply kara_step_ok]; assumption.
    + apply laddmul_step_ok; assumption.
    + apply laddmul2_step_ok; assumption.
Qed.

Lemma lmul_naive_ok thr k : lmul_ok k (lmul_naive thr k). Proof. apply (ok_naive _ _ (mulrec_ok thr k)). Qed.
Lemma lmul_okk thr k : lmul_ok k (lmul thr k). Proof. apply (ok_lmul _ _ (mulrec_ok thr k)). Qed.
Lemma laddmul_okk thr k : laddmul_ok k (laddmul thr k). Proof. apply (ok_laddmul _ _ (mulrec_ok thr k)). Qed.
Lemma laddmul2_okk thr k : laddmul2_ok k (laddmul2 thr k). Proof. apply (ok_laddmul2 _ _ (mulrec_ok thr k)). Qed.
Lemma lmul_kara_ok thr k : lmul_ok k (lmul_kara thr k).
Proof. destruct k as [|k]; [apply lmul_naive_ok | apply kara_step_ok, lmul_okk]. Qed.

(* Karatsuba and the naive product are the same function on well-formed operands *)
Lemma lmul_kara_eq_naive thr k b c : wf k b -> wf k c -> lmul_kara thr k b c = lmul_naive thr k b c.
Proof.
  intros Hb Hc.
  destruct (lmul_kara_ok thr k b c Hb Hc) as (W1 & W2 & E1).
  destruct (lmul_naive_ok thr k b c Hb Hc) as (W3 & W4 & E2).
  destruct (lmul_kara thr k b c) as [x0 x1], (lmul_naive thr k b c) as [y0 y1]. cbn [fst snd] in *.
  pose proof (val_range _ _ W1). pose proof (val_range _ _ W2). pose proof (val_range _ _ W3). pose proof (val_range _ _ W4).
  pose proof (B_pos k).
  assert (val k x1 = val k y1) by nia. assert (val k x0 = val k y0) by nia.
  f_equal; apply val_inj; auto.
Qed.

(* ---- truncated product ---- *)
Lemma mul_spec thr k : forall b c, wf k b -> wf k c ->
  wf k (mul thr k b c) /\ val k (mul thr k b c) = (val k b * val k c) mod B k.
Proof.
  induction k as [|k IH]; intros b c Hb Hc.
  - cbn [mul wf val B] in *. rewrite modW_eq. pose proof W_pos. split; [lia | reflexivity].
  - destruct b as [bl bh], c as [cl ch]. destruct Hb as [Hbl Hbh], Hc as [Hcl Hch].
    cbn [mul fst snd].
    pose proof (IH bl ch Hbl Hch) as (W1 & E1).
    pose proof (IH bh cl Hbh Hcl) as (W2 & E2).
    pose proof (add_c_spec k _ _ W1 W2) as (W3 & E3).
    destruct (add_c k (mul thr k bl ch) (mul thr k bh cl)) as [s r]. cbn [fst snd] in *.
    pose proof (lmul_okk thr k bl cl Hbl Hcl) as (W4 & W5 & E4).
    destruct (lmul thr k bl cl) as [al0 al1]. cbn [fst snd] in *.
    pose proof (add_c_spec k al1 s W5 W3) as (W6 & E6).
    destruct (add_c k al1 s) as [t r2]. cbn [fst snd] in *.
    split; [split; assumption|].
    rewrite (val_S k (al0, t)), (val_S k (bl, bh)), (val_S k (cl, ch)), B_S. cbn [fst snd].
    pose proof (B_pos k) as HB.
    pose proof (val_range _ _ W4). pose proof (val_range _ _ W6).
    assert (D1 := Z.div_mod (val k bl * val k ch) (B k) ltac:(lia)).
    assert (D2 := Z.div_mod (val k bh * val k cl) (B k) ltac:(lia)).
    rewrite <- E1 in D1. rewrite <- E2 in D2.
    set (q1 := val k bl * val k ch / B k) in *. set (q2 := val k bh * val k cl / B k) in *.
    apply Z.mod_unique with (q := b2z r2 + b2z r + q1 + q2 + val k bh * val k ch).
    + left. nia.
    + clear - D1 D2 E3 E4 E6. mulhyp D1 (B k). mulhyp D2 (B k). mulhyp E3 (B k). mulhyp E6 (B k). lia.
Qed.

Lemma addmul_spec thr k a b c : wf k a -> wf k b -> wf k c ->
  wf k (addmul thr k a b c) /\ val k (addmul thr k a b c) = (val k a + val k b * val k c) mod B k.
Proof.
  intros Ha Hb Hc. destruct k as [|k].
  - cbn [addmul wf val B] in *. rewrite modW_eq. pose proof W_pos. split; [lia | reflexivity].
  - unfold addmul.
    pose proof (mul_spec thr (S k) b c Hb Hc) as (W1 & E1).
    pose proof (add_c_spec (S k) a _ Ha W1) as (W2 & E2).
    split; [exact W2|].
    pose proof (val_range _ _ W2). pose proof (B_pos (S k)).
    rewrite <- Z.add_mod_idemp_r by lia. rewrite <- E1.
    apply Z.mod_unique with (q := b2z (snd (add_c (S k) a (mul thr (S k) b c)))); [left; lia | lia].
Qed.

(* ---- statements for Properties.v ---- *)
Definition Lmul_exact (f : nat -> forall k, ru k -> ru k -> ru k * ru k) := forall thr k b c, wf k b -> wf k c ->
  wf k (fst (f thr k b c)) /\ wf k (snd (f thr k b c)) /\
  val k (fst (f thr k b c)) + B k * val k (snd (f thr k b c)) = val k b * val k c.
Lemma lmul_naive_exact : Lmul_exact lmul_naive. Proof. intros thr k. apply lmul_naive_ok. Qed.
Lemma lmul_kara_exact : Lmul_exact lmul_kara. Proof. intros thr k. apply lmul_kara_ok. Qed.
Lemma lmul_exact : Lmul_exact lmul. Proof. intros thr k. apply lmul_okk. Qed.

Definition Kara_eq_naive := forall thr k b c, wf k b -> wf k c -> lmul_kara thr k b c = lmul_naive thr k b c.

(* (ah|al) = b*c + d with d of one size: never a carry; with d of double size: the carry is exact *)
Definition Laddmul_exact := forall thr k b c d, wf k b -> wf k c -> wf k d ->
  let '((l, h), r) := laddmul thr k b c d in
  wf k l /\ wf k h /\ val k l + B k * val k h = val k b * val k c + val k d /\ r = false.
Lemma laddmul_exact : Laddmul_exact.
Proof.
  intros thr k b c d Hb Hc Hd. pose proof (laddmul_okk thr k b c d Hb Hc Hd) as H.
  destruct (laddmul thr k b c d) as [[l h] r]. exact H.
Qed.
Definition Laddmul2_exact := forall thr k b c d, wf k b -> wf k c -> wf (S k) d ->
  let '((l, h), r) := laddmul2 thr k b c d in
  wf k l /\ wf k h /\ val k l + B k * val k h + B (S k) * b2z r = val k b * val k c + val (S k) d.
Lemma laddmul2_exact : Laddmul2_exact.
Proof.
  intros thr k b c d Hb Hc Hd. pose proof (laddmul2_okk thr k b c d Hb Hc Hd) as H.
  destruct (laddmul2 thr k b c d) as [[l h] r]. exact H.
Qed.

Definition Mul_exact := forall thr k b c, wf k b -> wf k c ->
  wf k (mul thr k b c) /\ val k (mul thr k b c) = (val k b * val k c) mod B k.
Definition Addmul_exact := forall thr k a b c, wf k a -> wf k b -> wf k c ->
  wf k (addmul thr k a b c) /\ val k (addmul thr k a b c) = (val k a + val k b * val k c) mod B k.

(* non-vacuity: 2^256 - 1 squared at K = 8 with the Karatsuba switch at K = 7 *)
Example kara_example :
  let b := of_Z 2 (2^256 - 1) in
  wf 2 b /\ val 2 (fst (lmul_kara 1 2 b b)) = 1 /\ val 2 (snd (lmul_kara 1 2 b b)) = 2^256 - 2.
Proof. split; [apply wf_of_Z|]. vm_compute. split; reflexivity. Qed.
