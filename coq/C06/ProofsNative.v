(* Native-operand overloads, constructors/casts, conversions with an explicit previous destination, rint<K> with a
   native operand: statements (used by Properties.v) and proofs.  Model: ModelNative.v. *)
From Coq Require Import ZArith Lia Bool List.
From C06 Require Import Model ModelNative ProofsBase ProofsRepr ProofsAdd ProofsSubW ProofsBits ProofsMisc ProofsMisc2
  ProofsDivTop ProofsDivFinal ProofsLimbs ProofsSigned.
Local Open Scope Z_scope.
Ltac Zify.zify_post_hook ::= Z.div_mod_to_equations.

(* cmp(ruint<K>, T): signed T (any value of an int64) and unsigned T (any value of a uint64) *)
Definition Cmp_native_exact := forall k a c, wf k a ->
  (- 2 ^ 63 <= c < 2 ^ 63 -> cmp_si k a c = Z.sgn (val k a - c)) /\
  (0 <= c < W -> cmp_w k a c = Z.sgn (val k a - c)).

(* ruint<K>(T): the value c itself for an unsigned source, c mod 2^(2^K) (two's complement) for a signed source *)
Definition Ctor_native_exact := forall k c,
  (0 <= c < W -> wf k (ctor_u k c) /\ val k (ctor_u k c) = c) /\
  (- 2 ^ 63 < c < W -> wf k (ctor_s k c) /\ val k (ctor_s k c) = c mod B k) /\
  (- 2 ^ 63 < c < 2 ^ 63 -> sval k (ctor_s k c) = c).

(* (T)a: the value modulo 2^bits, read as signed for a signed T; bool(a) = (a != 0) *)
Definition Cast_native_exact := forall k a bits, wf k a -> 0 < bits <= 64 ->
  cast_u bits k a = val k a mod 2 ^ bits /\
  (- 2 ^ (bits - 1) <= cast_s bits k a < 2 ^ (bits - 1) /\ (cast_s bits k a) mod 2 ^ bits = val k a mod 2 ^ bits) /\
  cast_bool k a = negb (val k a =? 0).

(* operator forms with a signed native operand c (every value except the most negative int64, whose negation overflows) *)
Definition Op_native_exact := forall thr k b c, wf k b -> - 2 ^ 63 < c < 2 ^ 63 ->
  (wf k (op_add_si k b c) /\ val k (op_add_si k b c) = (val k b + c) mod B k) /\
  (wf k (op_sub_si k b c) /\ val k (op_sub_si k b c) = (val k b - c) mod B k) /\
  (wf k (op_rsub_si k b c) /\ val k (op_rsub_si k b c) = (c - val k b) mod B k) /\
  (wf k (op_mul_si k b c) /\ val k (op_mul_si k b c) = (val k b * c) mod B k) /\
  (c <> 0 -> wf k (op_div_si thr k b c) /\ val k (op_div_si thr k b c) = (Z.quot (val k b) c) mod B k) /\
  (0 < c -> wf k (op_mod_w thr k b c) /\ val k (op_mod_w thr k b c) = val k b mod c) /\
  (0 < c -> wf k (div_q_u thr k b c) /\ val k (div_q_u thr k b c) = val k b / c).
Definition Op_native_bits_exact := forall k b c, wf k b ->
  (wf k (op_lor_si k b c) /\ val k (op_lor_si k b c) = Z.lor (val k b) (c mod W)) /\
  (wf k (op_lxor_si k b c) /\ val k (op_lxor_si k b c) = Z.lxor (val k b) (c mod W)) /\
  (wf k (op_land_si k b c) /\ val k (op_land_si k b c) = Z.land (val k b) (c mod W)).

(* conversions: the result does not depend on what the destination held before *)
Definition Reset_exact := forall k a, reset k a = zero k.
Definition Mpz_into_exact := forall k prev b, wf k prev -> 0 <= b ->
  mpz_to_ruint_into k prev b = mpz_to_ruint k b /\
  (* even without the reset: the loop writes every limb *)
  mpz_to_ruint_noreset k prev b = mpz_to_ruint k b /\
  wf k (mpz_to_ruint k b) /\ val k (mpz_to_ruint k b) = b mod B k.
Definition Mpz_rint_into_exact := forall k prev b, wf k prev ->
  mpz_to_rint_into k prev b = mpz_to_rint k b.
Definition Ruint_to_mpz_exact := forall k prev prev' b, wf k b -> wf k prev' ->
  ruint_to_mpz_into k prev b = val k b /\
  Z.of_nat (length (limbs k b)) = nlimbs k /\
  mpz_to_ruint_into k prev' (ruint_to_mpz_into k prev b) = b.
Definition Mpz_round_trip_exact := forall k prev prevm z, wf k prev -> 0 <= z < B k ->
  ruint_to_mpz_into k prevm (mpz_to_ruint_into k prev z) = z.
Definition Rint_to_mpz_into_exact := forall k prev a, wf k a ->
  rint_to_mpz_into k prev a = sval k a /\ rint_to_mpz_into k prev a = rint_to_mpz k a.

(* rint<K> with a native operand *)
Definition Scmp_native_exact := forall k a c, wf k a ->
  (- 2 ^ 63 < c < 2 ^ 63 -> scmp_si k a c = Z.sgn (sval k a - c)) /\
  (0 <= c < W -> scmp_w k a c = Z.sgn (sval k a - c)).
Definition Sop_native_exact := forall k a c, wf k a -> - 2 ^ 63 < c < 2 ^ 63 ->
  val k (op_add_si k a c) = (sval k a + c) mod B k /\
  val k (op_sub_si k a c) = (sval k a - c) mod B k /\
  val k (op_mul_si k a c) = (sval k a * c) mod B k.
Definition Sdiv_q_native_exact := forall thr k a c, wf k a -> - 2 ^ 63 < c < 2 ^ 63 -> c <> 0 ->
  wf k (sdiv_q_si thr k a c) /\ val k (sdiv_q_si thr k a c) = (Z.quot (sval k a) c) mod B k.
Definition Smod_n1_exact := forall thr k a n, wf k a -> wf k n -> 0 < sval k n ->
  wf k (smod_n1 thr k a n) /\ val k (smod_n1 thr k a n) = (sval k a) mod (val k n).

(* ================= proofs ================= *)
From C06 Require Import ProofsProps.
Lemma p63 : 2 ^ 63 = 9223372036854775808. Proof. reflexivity. Qed.
Lemma opp_mod_mod x m : 0 < m -> (- (x mod m)) mod m = (- x) mod m.
Proof.
  intros Hm. pose proof (Z.div_mod x m ltac:(lia)) as D.
  replace (- (x mod m)) with (- x + (x / m) * m) by lia. apply Z.mod_add; lia.
Qed.

(* ---- reset ---- *)
Lemma reset_exact : Reset_exact.
Proof.
  intros k. induction k as [|k IH]; intros a.
  - reflexivity.
  - cbn [reset zero]. rewrite !IH. reflexivity.
Qed.

(* ---- mpz_to_ruint with an explicit previous destination ---- *)
Lemma limb_replace_mod v P l : 0 < P -> 0 <= l < W -> 0 <= v ->
  (v + (l - (v / P) mod W) * P) mod (P * W) = v mod P + P * l.
Proof.
  intros HP Hl Hv. pose proof W_pos as HW.
  pose proof (Z.div_mod v P ltac:(lia)) as D1. pose proof (Z.mod_pos_bound v P HP) as R1.
  pose proof (Z.div_mod (v / P) W ltac:(lia)) as D2. pose proof (Z.mod_pos_bound (v / P) W HW) as R2.
  set (q1 := v / P) in *. set (r1 := v mod P) in *. set (q2 := q1 / W) in *. set (r2 := q1 mod W) in *.
  clearbody q1 r1 q2 r2. symmetry. apply Z.mod_unique with (q := q2).
  - left. split; [nia|]. assert (P * l <= P * (W - 1)) by nia. nia.
  - subst v q1. ring.
Qed.

Lemma mpz_loop_gen k : forall (n : nat) i c a, 0 <= i -> i + Z.of_nat n = nlimbs k -> 0 <= c -> wf k a ->
  wf k (mpz_to_ruint_loop k n i c a) /\
  val k (mpz_to_ruint_loop k n i c a) = val k a mod 2 ^ (64 * i) + 2 ^ (64 * i) * (c mod 2 ^ (64 * Z.of_nat n)).
Proof.
  induction n as [|n IH]; intros i c a Hi Hin Hc Ha.
  - cbn [mpz_to_ruint_loop]. split; [exact Ha|]. change (2 ^ (64 * Z.of_nat 0)) with 1. rewrite Z.mod_1_r.
    replace i with (nlimbs k) by lia. rewrite <- B_limbs. pose proof (val_range _ _ Ha).
    rewrite Z.mod_small by lia. lia.
  - cbn [mpz_to_ruint_loop]. rewrite Nat2Z.inj_succ in *.
    pose proof W_pos as HW. pose proof (val_range _ _ Ha) as Ra. pose proof (pow64_pos i Hi) as HP.
    assert (Elv : modW (Z.abs c) = c mod W) by (rewrite Z.abs_eq, modW_eq by lia; reflexivity).
    set (lv := modW (Z.abs c)) in *. clearbody lv.
    assert (Hl : 0 <= lv < W) by (rewrite Elv; apply Z.mod_pos_bound; lia).
    destruct (set_limb_spec k a lv i Ha Hl ltac:(lia)) as [W1 E1].
    destruct (get_limb_spec k a i Ha ltac:(lia)) as [_ Eg]. rewrite Eg in E1.
    destruct (IH (i + 1) (Z.shiftr c 64) _ ltac:(lia) ltac:(lia) ltac:(apply Z.shiftr_nonneg; lia) W1) as [W2 E2].
    split; [exact W2|]. rewrite E2, E1. rewrite Z.shiftr_div_pow2 by lia.
    change (2 ^ 64) with 18446744073709551616. rewrite <- W_eq.
    replace (64 * (i + 1)) with (64 * i + 64) by lia. rewrite Z.pow_add_r by lia.
    change (2 ^ 64) with 18446744073709551616. rewrite <- W_eq.
    replace (64 * Z.succ (Z.of_nat n)) with (64 + 64 * Z.of_nat n) by lia. rewrite Z.pow_add_r by lia.
    change (2 ^ 64) with 18446744073709551616. rewrite <- W_eq.
    assert (HQ : 0 < 2 ^ (64 * Z.of_nat n)) by (apply Z.pow_pos_nonneg; lia).
    rewrite (Z.rem_mul_r c W (2 ^ (64 * Z.of_nat n))) by lia.
    rewrite limb_replace_mod by lia. rewrite Elv. ring.
Qed.

Lemma mpz_into_eq k prev b : mpz_to_ruint_into k prev b = mpz_to_ruint k b.
Proof. unfold mpz_to_ruint_into, mpz_to_ruint. rewrite reset_exact. reflexivity. Qed.

Lemma mpz_into_exact : Mpz_into_exact.
Proof.
  intros k prev b Hprev Hb. destruct (mpz_to_ruint_exact k b Hb) as [W1 E1].
  split; [apply mpz_into_eq|]. split; [|split; assumption].
  unfold mpz_to_ruint_noreset. pose proof (nlimbs_pos k).
  destruct (mpz_loop_gen k (Z.to_nat (nlimbs k)) 0 b prev ltac:(lia) ltac:(rewrite Z2Nat.id; lia) Hb Hprev) as [W2 E2].
  apply val_inj; [exact W2 | exact W1 |]. rewrite E2, E1, Z2Nat.id by lia. rewrite <- B_limbs.
  change (2 ^ (64 * 0)) with 1. rewrite Z.mod_1_r. lia.
Qed.

Lemma mpz_rint_into_exact : Mpz_rint_into_exact.
Proof. intros k prev b _. unfold mpz_to_rint_into, mpz_to_rint. rewrite !mpz_into_eq. reflexivity. Qed.

(* ---- cmp with a native operand ---- *)
Lemma cmp_si_spec k : forall a c, wf k a -> - 2 ^ 63 <= c < 2 ^ 63 -> cmp_si k a c = Z.sgn (val k a - c).
Proof.
  rewrite p63. induction k as [|k IH]; intros a c Ha Hc.
  - cbn [cmp_si wf val] in *. rewrite W_eq in Ha. destruct (Z.ltb_spec c 0); [lia|].
    rewrite modW_eq, Z.mod_small by (rewrite W_eq; lia).
    destruct (Z.ltb_spec a c); [lia|]. destruct (Z.eqb_spec a c); lia.
  - destruct Ha as [Ha1 Ha2]. cbn [cmp_si]. rewrite val_S.
    pose proof (val_range _ _ Ha1) as R1. pose proof (val_range _ _ Ha2) as R2. pose proof (W_le_B k) as HWB.
    rewrite W_eq in HWB.
    destruct (Z.ltb_spec c 0).
    + symmetry. apply Z.sgn_pos. nia.
    + rewrite (IH (snd a) 0 Ha2) by lia. rewrite (IH (fst a) c Ha1 Hc).
      destruct (Z.eqb_spec (Z.sgn (val k (snd a) - 0)) 0) as [E|E].
      * assert (E0 : val k (snd a) = 0) by lia. rewrite E0. f_equal. lia.
      * symmetry. apply Z.sgn_pos. nia.
Qed.

Lemma cmp_w_spec k : forall a c, wf k a -> 0 <= c < W -> cmp_w k a c = Z.sgn (val k a - c).
Proof.
  induction k as [|k IH]; intros a c Ha Hc.
  - cbn [cmp_w wf val] in *. destruct (Z.ltb_spec a c); [lia|]. destruct (Z.eqb_spec a c); lia.
  - destruct Ha as [Ha1 Ha2]. cbn [cmp_w]. rewrite val_S.
    pose proof (val_range _ _ Ha1) as R1. pose proof (val_range _ _ Ha2) as R2. pose proof (W_le_B k) as HWB.
    rewrite (cmp_si_spec k (snd a) 0 Ha2) by (rewrite p63; lia). rewrite (IH (fst a) c Ha1 Hc).
    destruct (Z.eqb_spec (Z.sgn (val k (snd a) - 0)) 0) as [E|E].
    + assert (E0 : val k (snd a) = 0) by lia. rewrite E0. f_equal. lia.
    + symmetry. apply Z.sgn_pos. nia.
Qed.

Lemma cmp_native_exact : Cmp_native_exact.
Proof. intros k a c Ha. split; intros Hc; [apply cmp_si_spec | apply cmp_w_spec]; assumption. Qed.

(* ---- constructors ---- *)
Lemma ctor_u_spec k : forall c, 0 <= c < W -> wf k (ctor_u k c) /\ val k (ctor_u k c) = c.
Proof.
  induction k as [|k IH]; intros c Hc; cbn [ctor_u].
  - rewrite modW_eq, Z.mod_small by lia. cbn [wf val]. lia.
  - destruct (IH c Hc) as [W1 E1]. split; [split; [exact W1 | apply wf_zero]|].
    rewrite val_S. cbn [fst snd]. rewrite val_zero, E1. lia.
Qed.

Lemma ctor_s_spec k : forall c, - 2 ^ 63 < c < W -> wf k (ctor_s k c) /\ val k (ctor_s k c) = c mod B k.
Proof.
  rewrite p63. induction k as [|k IH]; intros c Hc; cbn [ctor_s].
  - rewrite modW_eq. cbn [wf val B]. pose proof (Z.mod_pos_bound c W W_pos). lia.
  - pose proof (W_le_B k) as HWB. pose proof (B_pos k) as HB. pose proof W_eq as HW.
    assert (Habs : - 9223372036854775808 < Z.abs c < W) by lia.
    destruct (IH (Z.abs c) Habs) as [W1 E1]. rewrite Z.mod_small in E1 by lia.
    assert (Wx : wf (S k) (ctor_s k (Z.abs c), zero k)) by (split; [exact W1 | apply wf_zero]).
    assert (Ex : val (S k) (ctor_s k (Z.abs c), zero k) = Z.abs c).
    { rewrite val_S. cbn [fst snd]. rewrite val_zero, E1. lia. }
    destruct (Z.ltb_spec c 0).
    + destruct (neg_spec (S k) _ Wx) as [Wn En]. split; [exact Wn|]. rewrite En, Ex. f_equal. lia.
    + split; [exact Wx|]. rewrite Ex. rewrite Z.mod_small; [lia|]. rewrite B_S. nia.
Qed.

Lemma ctor_s_sval k c : - 2 ^ 63 < c < 2 ^ 63 -> sval k (ctor_s k c) = c.
Proof.
  rewrite p63. intros Hc. pose proof (W_le_B k) as HWB. pose proof W_eq as HW.
  destruct (ctor_s_spec k c ltac:(rewrite p63; lia)) as [W1 E1].
  unfold sval. rewrite is_neg_spec by assumption. rewrite E1.
  destruct (Z.lt_ge_cases c 0).
  - assert (Em : c mod B k = c + B k) by (symmetry; apply Z.mod_unique with (q := -1); [left; lia | lia]).
    rewrite Em. destruct (Z.leb_spec (B k) (2 * (c + B k))); lia.
  - rewrite Z.mod_small by lia. destruct (Z.leb_spec (B k) (2 * c)); lia.
Qed.

Lemma ctor_native_exact : Ctor_native_exact.
Proof.
  intros k c. split; [apply ctor_u_spec|]. split; [apply ctor_s_spec | apply ctor_s_sval].
Qed.

(* ---- operator forms with a signed native operand ---- *)
Lemma quot_neg_r a c : 0 <= a -> c < 0 -> Z.quot a c = - (a / (- c)).
Proof.
  intros Ha Hc. rewrite <- (Z.opp_involutive c) at 1. rewrite Z.quot_opp_r by lia.
  rewrite Z.quot_div_nonneg by lia. reflexivity.
Qed.
Lemma quot_neg_l a c : a <= 0 -> 0 < c -> Z.quot a c = - ((- a) / c).
Proof.
  intros Ha Hc. rewrite <- (Z.opp_involutive a) at 1. rewrite Z.quot_opp_l by lia.
  rewrite Z.quot_div_nonneg by lia. reflexivity.
Qed.
Lemma quot_neg_neg a c : a <= 0 -> c < 0 -> Z.quot a c = (- a) / (- c).
Proof.
  intros Ha Hc. rewrite <- (Z.quot_opp_opp a c) by lia. apply Z.quot_div_nonneg; lia.
Qed.

Lemma lmul_w_val k b c : wf k b -> 0 <= c < W ->
  wf k (fst (lmul_w k b c)) /\ val k (fst (lmul_w k b c)) = (val k b * c) mod B k.
Proof.
  intros Hb Hc. destruct (lmul_word_exact k b c Hb Hc) as (W1 & R & E). split; [exact W1|].
  pose proof (val_range _ _ W1). apply Z.mod_unique with (q := snd (lmul_w k b c)); [left; lia | lia].
Qed.

Lemma div_q_s_pos thr k b c : wf k b -> 0 < c < 2 ^ 63 ->
  wf k (div_q_s thr k b c) /\ val k (div_q_s thr k b c) = val k b / c.
Proof.
  rewrite p63. intros Hb Hc. unfold div_q_s. pose proof (W_le_B k) as HWB. pose proof W_eq as HW.
  destruct (ctor_s_spec k c ltac:(rewrite p63; lia)) as [Wc Ec]. rewrite Z.mod_small in Ec by lia.
  destruct (div_exact thr k b _ Hb Wc ltac:(lia)) as (Wq & _ & E & R). split; [exact Wq|]. rewrite Ec in *.
  apply Z.div_unique with (r := val k (snd (div thr k b (ctor_s k c)))); [left; lia | lia].
Qed.

Lemma div_q_u_pos thr k b c : wf k b -> 0 < c < W ->
  wf k (div_q_u thr k b c) /\ val k (div_q_u thr k b c) = val k b / c.
Proof.
  intros Hb Hc. unfold div_q_u.
  destruct (ctor_u_spec k c ltac:(lia)) as [Wc Ec].
  destruct (div_exact thr k b _ Hb Wc ltac:(lia)) as (Wq & _ & E & R). split; [exact Wq|]. rewrite Ec in *.
  apply Z.div_unique with (r := val k (snd (div thr k b (ctor_u k c)))); [left; lia | lia].
Qed.

Lemma op_add_si_spec k b c : wf k b -> - 2 ^ 63 < c < 2 ^ 63 ->
  wf k (op_add_si k b c) /\ val k (op_add_si k b c) = (val k b + c) mod B k.
Proof.
  rewrite p63. intros Hb Hc. unfold op_add_si. pose proof W_eq as HW.
  destruct (Z.ltb_spec c 0).
  - rewrite modW_eq, Z.mod_small by lia.
    destruct (sub_word_exact k b (- c) Hb ltac:(lia)) as (W1 & E1 & _). split; [exact W1|]. rewrite E1. f_equal. lia.
  - rewrite modW_eq, Z.mod_small by lia.
    destruct (add_word_exact k b c Hb ltac:(lia)) as (W1 & E1 & _). split; [exact W1 | exact E1].
Qed.

Lemma op_sub_si_spec k b c : wf k b -> - 2 ^ 63 < c < 2 ^ 63 ->
  wf k (op_sub_si k b c) /\ val k (op_sub_si k b c) = (val k b - c) mod B k.
Proof.
  rewrite p63. intros Hb Hc. unfold op_sub_si. pose proof W_eq as HW.
  destruct (Z.ltb_spec c 0).
  - rewrite modW_eq, Z.mod_small by lia.
    destruct (add_word_exact k b (- c) Hb ltac:(lia)) as (W1 & E1 & _). split; [exact W1|]. rewrite E1. f_equal; lia.
  - rewrite modW_eq, Z.mod_small by lia.
    destruct (sub_word_exact k b c Hb ltac:(lia)) as (W1 & E1 & _). split; [exact W1 | exact E1].
Qed.

Lemma op_mul_si_spec k b c : wf k b -> - 2 ^ 63 < c < 2 ^ 63 ->
  wf k (op_mul_si k b c) /\ val k (op_mul_si k b c) = (val k b * c) mod B k.
Proof.
  rewrite p63. intros Hb Hc. unfold op_mul_si. pose proof W_eq as HW. pose proof (B_pos k) as HB.
  destruct (Z.ltb_spec c 0).
  - rewrite modW_eq, Z.mod_small by lia.
    destruct (lmul_w_val k b (- c) Hb ltac:(lia)) as (W1 & E1).
    destruct (neg_spec k _ W1) as [Wn En]. split; [exact Wn|]. rewrite En, E1, opp_mod_mod by lia. f_equal. ring.
  - rewrite modW_eq, Z.mod_small by lia. apply lmul_w_val; [assumption | lia].
Qed.

Lemma op_div_si_spec thr k b c : wf k b -> - 2 ^ 63 < c < 2 ^ 63 -> c <> 0 ->
  wf k (op_div_si thr k b c) /\ val k (op_div_si thr k b c) = (Z.quot (val k b) c) mod B k.
Proof.
  intros Hb Hc Hnz. unfold op_div_si. pose proof (B_pos k) as HB. pose proof (val_range _ _ Hb) as Rb.
  destruct (Z.ltb_spec c 0).
  - destruct (div_q_s_pos thr k b (- c) Hb ltac:(rewrite p63 in *; lia)) as [Wq Eq].
    destruct (neg_spec k _ Wq) as [Wn En]. split; [exact Wn|]. rewrite En, Eq, quot_neg_r by lia. reflexivity.
  - destruct (div_q_s_pos thr k b c Hb ltac:(rewrite p63 in *; lia)) as [Wq Eq]. split; [exact Wq|].
    rewrite Z.quot_div_nonneg by lia. rewrite <- Eq. symmetry. apply Z.mod_small. apply val_range; assumption.
Qed.

Lemma op_native_exact : Op_native_exact.
Proof.
  intros thr k b c Hb Hc. pose proof (B_pos k) as HB.
  split; [apply op_add_si_spec; assumption|]. split; [apply op_sub_si_spec; assumption|].
  split.
  { unfold op_rsub_si. destruct (op_sub_si_spec k b c Hb Hc) as [W1 E1]. destruct (neg_spec k _ W1) as [Wn En].
    split; [exact Wn|]. rewrite En, E1, opp_mod_mod by lia. f_equal. ring. }
  split; [apply op_mul_si_spec; assumption|].
  split; [intros Hnz; apply op_div_si_spec; assumption|].
  split.
  { intros Hpos. unfold op_mod_w. rewrite p63 in Hc. pose proof W_eq as HW.
    destruct (div_word_exact thr k b c Hb ltac:(lia)) as (_ & _ & Er). rewrite Er.
    apply ctor_u_spec. pose proof (Z.mod_pos_bound (val k b) c Hpos). lia. }
  intros Hpos. apply div_q_u_pos; [assumption|]. rewrite p63 in Hc. rewrite W_eq. lia.
Qed.
