(* Native-operand overloads, second half of the proofs (statements in ProofsNative.v). *)
From Coq Require Import ZArith Lia Bool List.
From C06 Require Import Model ModelNative ProofsBase ProofsRepr ProofsAdd ProofsSubW ProofsBits ProofsMisc ProofsMisc2
  ProofsDivTop ProofsDivFinal ProofsLimbs ProofsSigned ProofsProps ProofsNative.
Local Open Scope Z_scope.
Ltac Zify.zify_post_hook ::= Z.div_mod_to_equations.

(* ---- rint<K> with a native operand: comparison ---- *)
Lemma sval_nonneg k a : is_neg k a = false -> sval k a = val k a.
Proof. intros N. unfold sval. rewrite N. reflexivity. Qed.
Lemma sval_neg_lt k a : wf k a -> is_neg k a = true -> sval k a < 0.
Proof. intros Ha N. unfold sval. rewrite N. pose proof (val_range _ _ Ha). lia. Qed.

Lemma scmp_native_exact : Scmp_native_exact.
Proof.
  intros k a c Ha. pose proof (val_range _ _ Ha) as Ra. split; intros Hc.
  - unfold scmp_si. destruct (is_neg k a) eqn:Na; destruct (Z.ltb_spec c 0); cbn [negb Z.eqb Pos.eqb Z.ltb Z.compare].
    + rewrite scmp_exact by (try assumption; apply ctor_s_spec; rewrite p63 in *; rewrite W_eq; lia).
      rewrite ctor_s_sval by assumption. reflexivity.
    + pose proof (sval_neg_lt k a Ha Na). symmetry. apply Z.sgn_neg. lia.
    + rewrite (sval_nonneg k a Na). symmetry. apply Z.sgn_pos. lia.
    + rewrite (sval_nonneg k a Na). apply cmp_si_spec; [assumption|]. rewrite p63 in *. lia.
  - unfold scmp_w. destruct (is_neg k a) eqn:Na.
    + pose proof (sval_neg_lt k a Ha Na). symmetry. apply Z.sgn_neg. lia.
    + rewrite (sval_nonneg k a Na). apply cmp_w_spec; assumption.
Qed.

(* ---- rint<K> op native: the ruint operator forms on the bit pattern ---- *)
Lemma sop_native_exact : Sop_native_exact.
Proof.
  intros k a c Ha Hc. pose proof (B_pos k) as HB. destruct (sval_range k a Ha) as [_ Ea].
  destruct (op_add_si_spec k a c Ha Hc) as [_ E1]. destruct (op_sub_si_spec k a c Ha Hc) as [_ E2].
  destruct (op_mul_si_spec k a c Ha Hc) as [_ E3]. rewrite E1, E2, E3, <- Ea.
  split; [|split].
  - apply Z.add_mod_idemp_l. lia.
  - apply Zminus_mod_idemp_l.
  - apply Z.mul_mod_idemp_l. lia.
Qed.

(* ---- ruint_to_mpz ---- *)
Lemma import_app l1 l2 : mpz_import_le (l1 ++ l2) = mpz_import_le l1 + W ^ Z.of_nat (length l1) * mpz_import_le l2.
Proof.
  unfold mpz_import_le. induction l1 as [|x l1 IH].
  - cbn [app fold_right length Z.of_nat]. rewrite Z.pow_0_r. lia.
  - cbn [app fold_right length]. rewrite IH, Nat2Z.inj_succ, Z.pow_succ_r by lia. ring.
Qed.

Lemma B_W_pow k : B k = W ^ nlimbs k.
Proof.
  induction k as [|k IH].
  - cbn [B nlimbs]. rewrite Z.pow_1_r. reflexivity.
  - rewrite B_S, IH. cbn [nlimbs]. pose proof (nlimbs_pos k).
    replace (2 * nlimbs k) with (nlimbs k + nlimbs k) by lia. rewrite Z.pow_add_r by lia. reflexivity.
Qed.

Lemma limbs_length k : forall a, Z.of_nat (length (limbs k a)) = nlimbs k.
Proof.
  induction k as [|k IH]; intros a.
  - reflexivity.
  - cbn [limbs nlimbs]. rewrite app_length, Nat2Z.inj_add, !IH. lia.
Qed.

Lemma import_limbs k : forall a, mpz_import_le (limbs k a) = val k a.
Proof.
  induction k as [|k IH]; intros a.
  - cbn [limbs val]. unfold mpz_import_le. cbn [fold_right]. lia.
  - cbn [limbs]. rewrite import_app, limbs_length, !IH, val_S, <- B_W_pow. reflexivity.
Qed.

Lemma ruint_to_mpz_exact : Ruint_to_mpz_exact.
Proof.
  intros k prev prev' b Hb Hp. unfold ruint_to_mpz_into. rewrite import_limbs.
  split; [reflexivity|]. split; [apply limbs_length|].
  pose proof (val_range _ _ Hb) as Rb.
  destruct (mpz_into_exact k prev' (val k b) Hp ltac:(lia)) as (E & _ & W1 & E1). rewrite E.
  apply val_inj; [exact W1 | exact Hb |]. rewrite E1. apply Z.mod_small. lia.
Qed.

Lemma mpz_round_trip_exact : Mpz_round_trip_exact.
Proof.
  intros k prev prevm z Hp Hz. unfold ruint_to_mpz_into. rewrite import_limbs.
  destruct (mpz_into_exact k prev z Hp ltac:(lia)) as (E & _ & W1 & E1). rewrite E, E1. apply Z.mod_small. lia.
Qed.

Lemma rint_to_mpz_into_exact : Rint_to_mpz_into_exact.
Proof.
  intros k prev a Ha.
  assert (E : rint_to_mpz_into k prev a = rint_to_mpz k a).
  { unfold rint_to_mpz_into, rint_to_mpz, ruint_to_mpz_into. rewrite !import_limbs. reflexivity. }
  split; [|exact E]. rewrite E. apply rint_to_mpz_exact. assumption.
Qed.

(* ---- div_q(rint, rint, T) ---- *)
Lemma sdiv_q_native_exact : Sdiv_q_native_exact.
Proof.
  intros thr k a c Ha Hc Hnz. unfold sdiv_q_si. pose proof (B_pos k) as HB.
  destruct (sval_range k a Ha) as [Ra _].
  assert (Hsmall : forall q, wf k q -> val k q = val k q mod B k).
  { intros q Hq. symmetry. apply Z.mod_small. apply val_range. assumption. }
  destruct (is_neg k a) eqn:Na; destruct (Z.ltb_spec c 0).
  - destruct (abs_val k a Ha Na) as [Wa Ea]. pose proof (sval_neg_lt k a Ha Na).
    destruct (div_q_s_pos thr k _ (- c) Wa ltac:(rewrite p63 in *; lia)) as [Wq Eq]. split; [exact Wq|].
    rewrite quot_neg_neg by lia. rewrite <- Ea, <- Eq. apply Hsmall. assumption.
  - destruct (abs_val k a Ha Na) as [Wa Ea]. pose proof (sval_neg_lt k a Ha Na).
    destruct (div_q_s_pos thr k _ c Wa ltac:(rewrite p63 in *; lia)) as [Wq Eq].
    destruct (neg_spec k _ Wq) as [Wn En]. split; [exact Wn|]. rewrite En, Eq, Ea.
    rewrite quot_neg_l by lia. reflexivity.
  - pose proof (sval_nonneg k a Na) as Ea. pose proof (val_range _ _ Ha).
    destruct (div_q_s_pos thr k _ (- c) Ha ltac:(rewrite p63 in *; lia)) as [Wq Eq].
    destruct (neg_spec k _ Wq) as [Wn En]. split; [exact Wn|]. rewrite En, Eq, Ea.
    rewrite quot_neg_r by lia. reflexivity.
  - pose proof (sval_nonneg k a Na) as Ea. pose proof (val_range _ _ Ha).
    destruct (div_q_s_pos thr k _ c Ha ltac:(rewrite p63 in *; lia)) as [Wq Eq]. split; [exact Wq|].
    rewrite Z.quot_div_nonneg by lia. rewrite Ea, <- Eq. apply Hsmall. assumption.
Qed.

(* ---- | ^ & with a native word ---- *)
Section BitopW.
  Variable f : Z -> Z -> Z.
  Variable fb : bool -> bool -> bool.
  Hypothesis f_spec : forall x y i, Z.testbit (f x y) i = fb (Z.testbit x i) (Z.testbit y i).
  Hypothesis fb_ff : fb false false = false.
  Hypothesis f_nonneg : forall x y, 0 <= x -> 0 <= y -> 0 <= f x y.
  Hypothesis f_0_r : forall x, f x 0 = x.

  Lemma bitop_w_spec k : forall b c, wf k b -> 0 <= c < W ->
    wf k (bitop_w f k b c) /\ val k (bitop_w f k b c) = f (val k b) c.
  Proof.
    induction k as [|k IH]; intros b c Hb Hc.
    - cbn [bitop_w wf val] in *. split; [|reflexivity].
      rewrite W_eq in *. change 18446744073709551616 with (2 ^ 64) in *.
      apply (f_small f fb f_spec fb_ff f_nonneg); lia.
    - destruct b as [bl bh]. destruct Hb as [Hl Hh]. cbn [bitop_w fst snd] in *.
      destruct (IH bl c Hl Hc) as [W1 E1]. split; [split; assumption|].
      rewrite !val_S. cbn [fst snd]. rewrite E1.
      pose proof (val_range _ _ Hl) as Rl. pose proof (val_range _ _ Hh) as Rh. pose proof (W_le_B k) as HWB.
      rewrite B_nbits in *. pose proof (nbits_pos k).
      replace c with (c + 2 ^ nbits k * 0) at 2 by lia.
      rewrite (f_split f fb f_spec fb_ff f_nonneg) by lia. rewrite f_0_r. reflexivity.
  Qed.
End BitopW.

Lemma land_w_spec k : forall b c, wf k b -> 0 <= c < W ->
  wf k (land_w k b c) /\ val k (land_w k b c) = Z.land (val k b) c.
Proof.
  induction k as [|k IH]; intros b c Hb Hc.
  - cbn [land_w wf val] in *. split; [|reflexivity].
    rewrite W_eq in *. change 18446744073709551616 with (2 ^ 64) in *.
    apply (f_small Z.land andb); [apply Z.land_spec | reflexivity | intros; apply Z.land_nonneg; lia | lia | lia | lia].
  - destruct b as [bl bh]. destruct Hb as [Hl Hh]. cbn [land_w fst snd] in *.
    destruct (IH bl c Hl Hc) as [W1 E1]. split; [split; [assumption | apply wf_zero]|].
    rewrite !val_S. cbn [fst snd]. rewrite E1, val_zero.
    pose proof (val_range _ _ Hl) as Rl. pose proof (val_range _ _ Hh) as Rh. pose proof (W_le_B k) as HWB.
    rewrite B_nbits in *. pose proof (nbits_pos k).
    replace c with (c + 2 ^ nbits k * 0) at 2 by lia.
    rewrite (f_split Z.land andb) by
      first [apply Z.land_spec | reflexivity | (intros; apply Z.land_nonneg; lia) | lia].
    rewrite Z.land_0_r. lia.
Qed.

Lemma op_native_bits_exact : Op_native_bits_exact.
Proof.
  intros k b c Hb. unfold op_lor_si, op_lxor_si, op_land_si. rewrite modW_eq.
  pose proof (Z.mod_pos_bound c W W_pos) as Hc.
  split; [|split].
  - apply (bitop_w_spec Z.lor orb); [apply Z.lor_spec | reflexivity | intros; apply Z.lor_nonneg; lia | apply Z.lor_0_r | assumption | assumption].
  - apply (bitop_w_spec Z.lxor xorb); [apply Z.lxor_spec | reflexivity | intros; apply Z.lxor_nonneg; lia | apply Z.lxor_0_r | assumption | assumption].
  - apply land_w_spec; assumption.
Qed.

(* ---- casts to a native type ---- *)
Lemma B_mult_W k : exists m, B k = m * W.
Proof.
  induction k as [|k [m IH]].
  - exists 1. cbn [B]. lia.
  - exists (B k * m). rewrite B_S. rewrite IH at 2. ring.
Qed.

Lemma low_limb_spec k : forall a, wf k a -> low_limb k a = val k a mod W.
Proof.
  induction k as [|k IH]; intros a Ha.
  - cbn [low_limb wf val] in *. symmetry. apply Z.mod_small. exact Ha.
  - destruct Ha as [Hl Hh]. cbn [low_limb]. rewrite (IH _ Hl), val_S. destruct (B_mult_W k) as [m Em].
    rewrite Em. replace (val k (fst a) + m * W * val k (snd a)) with (val k (fst a) + (m * val k (snd a)) * W) by ring.
    rewrite Z.mod_add by (pose proof W_pos; lia). reflexivity.
Qed.

Lemma mod_W_mod_pow x bits : 0 < bits <= 64 -> (x mod W) mod 2 ^ bits = x mod 2 ^ bits.
Proof.
  intros Hb. assert (HP : 0 < 2 ^ bits) by (apply Z.pow_pos_nonneg; lia).
  assert (HQ : 0 < 2 ^ (64 - bits)) by (apply Z.pow_pos_nonneg; lia).
  assert (EW : W = 2 ^ bits * 2 ^ (64 - bits)).
  { rewrite <- Z.pow_add_r by lia. replace (bits + (64 - bits)) with 64 by lia. reflexivity. }
  rewrite EW, Z.rem_mul_r by lia. rewrite Z.mul_comm, Z.mod_add by lia. apply Z.mod_mod. lia.
Qed.

Lemma testbit_top u bits : 0 < bits -> 0 <= u < 2 ^ bits -> Z.testbit u (bits - 1) = (2 ^ (bits - 1) <=? u).
Proof.
  intros Hb Hu. assert (HP : 0 < 2 ^ (bits - 1)) by (apply Z.pow_pos_nonneg; lia).
  assert (E2 : 2 ^ bits = 2 * 2 ^ (bits - 1)).
  { replace bits with (Z.succ (bits - 1)) at 1 by lia. apply Z.pow_succ_r. lia. }
  rewrite E2 in Hu. pose proof (Z.testbit_spec' u (bits - 1) ltac:(lia)) as T.
  set (p := 2 ^ (bits - 1)) in *. clearbody p.
  destruct (Z.leb_spec p u) as [Hge|Hlt].
  - assert (E : u / p = 1) by (symmetry; apply Z.div_unique with (r := u - p); [left; lia | lia]).
    rewrite E in T. destruct (Z.testbit u (bits - 1)); [reflexivity | discriminate T].
  - rewrite Z.div_small in T by lia. destruct (Z.testbit u (bits - 1)); [discriminate T | reflexivity].
Qed.

Lemma cast_bool_spec k : forall a, wf k a -> cast_bool k a = negb (val k a =? 0).
Proof.
  destruct k as [|k]; intros a Ha.
  - reflexivity.
  - destruct Ha as [Hl Hh]. cbn [cast_bool]. rewrite val_S.
    rewrite !cmp_si_spec by (try assumption; rewrite p63; lia).
    pose proof (val_range _ _ Hl). pose proof (val_range _ _ Hh). pose proof (B_pos k).
    destruct (Z.eqb_spec (Z.sgn (val k (snd a) - 0)) 0), (Z.eqb_spec (Z.sgn (val k (fst a) - 0)) 0),
      (Z.eqb_spec (val k (fst a) + B k * val k (snd a)) 0); cbn [negb orb]; try reflexivity; exfalso; nia.
Qed.

Lemma cast_native_exact : Cast_native_exact.
Proof.
  intros k a bits Ha Hb. assert (HP : 0 < 2 ^ (bits - 1)) by (apply Z.pow_pos_nonneg; lia).
  assert (E2 : 2 ^ bits = 2 * 2 ^ (bits - 1)).
  { replace bits with (Z.succ (bits - 1)) at 1 by lia. apply Z.pow_succ_r. lia. }
  assert (Eu : cast_u bits k a = val k a mod 2 ^ bits).
  { unfold cast_u, wrap_u. rewrite Z.land_ones by lia. rewrite low_limb_spec by assumption.
    apply mod_W_mod_pow. assumption. }
  split; [exact Eu|]. split; [|apply cast_bool_spec; assumption].
  unfold cast_s, wrap_s. fold (cast_u bits k a). rewrite Eu, Z.shiftl_1_l.
  pose proof (Z.mod_pos_bound (val k a) (2 ^ bits) ltac:(lia)) as Ru.
  set (u := val k a mod 2 ^ bits) in *. clearbody u.
  rewrite testbit_top by lia.
  destruct (Z.leb_spec (2 ^ (bits - 1)) u).
  - split; [lia|]. symmetry. apply Z.mod_unique with (q := -1); [left; lia | lia].
  - split; [lia|]. apply Z.mod_small. lia.
Qed.

(* ---- mod_n(rint, rint) ---- *)
Lemma smod_n1_exact : Smod_n1_exact.
Proof.
  intros thr k a n Ha Hn Hpos. unfold smod_n1.
  assert (Nn : is_neg k n = false).
  { destruct (is_neg k n) eqn:E; [|reflexivity]. pose proof (sval_neg_lt k n Hn E). lia. }
  pose proof (sval_nonneg k n Nn) as En. rewrite En in Hpos. pose proof (val_range _ _ Hn) as Rn.
  destruct (is_neg k a) eqn:Na.
  - destruct (abs_val k a Ha Na) as [Wa Ea].
    destruct (div_exact thr k _ n Wa Hn ltac:(lia)) as (_ & Wr & E & R). rewrite Ea in E.
    rewrite is_zero_spec by assumption.
    set (r := snd (div thr k (neg k a) n)) in *. set (q := val k (fst (div thr k (neg k a) n))) in *. clearbody r q.
    destruct (Z.eqb_spec (val k r) 0) as [E0|E0].
    + rewrite reset_exact. split; [apply wf_zero|]. rewrite val_zero.
      apply Z.mod_unique with (q := - q); [left; lia | lia].
    + destruct (sub_c_spec k n r Hn Wr) as [Ws Es]. destruct (sub_c k n r) as [sv bo]. cbn [fst snd] in *.
      pose proof (val_range _ _ Ws).
      assert (Ev : val k sv = val k n - val k r) by (destruct bo; cbn [b2z] in Es; lia).
      split; [exact Ws|]. rewrite Ev. apply Z.mod_unique with (q := - q - 1); [left; lia | lia].
  - rewrite (sval_nonneg k a Na).
    destruct (div_exact thr k a n Ha Hn ltac:(lia)) as (_ & Wr & E & R). split; [exact Wr|].
    apply Z.mod_unique with (q := val k (fst (div thr k a n))); [left; lia | lia].
Qed.
