(* exp_mod with a native exponent type, decimal output, the class constants: statements and proofs.  Model: ModelNative.v. *)
From Coq Require Import ZArith Lia Bool List.
From C06 Require Import Model ModelNative ProofsBase ProofsRepr ProofsAdd ProofsSubW ProofsBits ProofsShift ProofsMisc ProofsMisc2
  ProofsDivTop ProofsDivFinal ProofsExp ProofsLimbs ProofsSigned ProofsNative ProofsNative2.
Local Open Scope Z_scope.
Ltac Zify.zify_post_hook ::= Z.div_mod_to_equations.

(* exp_mod(a, b, T c, n): the loop runs over the `bits` bits of the exponent type T *)
Definition Exp_mod_native_exact := forall bits thr k b c n, 0 < bits -> wf k b -> 0 <= c < 2 ^ bits -> wf k n -> val k n <> 0 ->
  wf k (exp_mod_n bits thr k b c n) /\ val k (exp_mod_n bits thr k b c n) = (val k b ^ c) mod val k n.

(* operator<< in decimal: the digits printed (most significant first) are the decimal expansion of the value: the buffer of
   2^K / 3 + 2 characters is large enough, every digit is 0..9, no leading zero *)
Definition Display_dec_exact := forall thr k a, wf k a ->
  dec_value (display_dec thr k a) = val k a /\
  Forall (fun d => 0 <= d <= 9) (display_dec thr k a) /\
  (val k a <> 0 -> hd 0 (display_dec thr k a) <> 0) /\
  (Z.of_nat (length (display_dec thr k a)) <= nbits k / 3 + 2).

(* maxCardinality = 2^(2^(K-1)), maxElement = 2^(2^K) - 1, maxFFLAS = 2^(2^(K-1) - 32) * c31, and 2 * maxFFLAS^2 fits *)
Definition Max_constants_exact := forall c31 k, 0 <= c31 < 2 ^ 32 ->
  (wf k (max_card k) /\ val k (max_card k) = 2 ^ (nbits k / 2)) /\
  (wf k (max_elem k) /\ val k (max_elem k) = B k - 1) /\
  (wf k (max_fflas c31 k) /\ val k (max_fflas c31 k) = 2 ^ (nbits k / 2 - 32) * c31) /\
  (2 * c31 * c31 < 2 ^ 64 -> 2 * (val k (max_fflas c31 k) * val k (max_fflas c31 k)) < B k).

(* ================= proofs ================= *)
(* ---- exp_mod with a native exponent ---- *)
Lemma exp_mod_native_exact : Exp_mod_native_exact.
Proof.
  intros bits thr k b c n Hbits Hb Hc Hn Hnz. unfold exp_mod_n. pose proof (val_range _ _ Hn) as Rn.
  destruct (exp_start_spec k n Hn Hnz) as [Ws Es].
  assert (Hs : val k (exp_start k n) < val k n) by (rewrite Es; apply Z.mod_pos_bound; lia).
  destruct (exp_loop_spec thr k n Hn Hnz c ltac:(lia) (Z.to_nat bits) 0 _ b ltac:(lia) Ws Hb Hs) as [Wr Er].
  split; [exact Wr|]. rewrite Er, Es. rewrite Z2Nat.id by lia.
  change (2 ^ 0) with 1. rewrite Z.div_1_r, (Z.mod_small c) by lia.
  rewrite Z.mul_mod_idemp_l by lia. rewrite Z.mul_1_l. reflexivity.
Qed.

(* ---- maxCardinality, maxElement, maxFFLAS ---- *)
Lemma nbits_ge64 k : 64 <= nbits k.
Proof. induction k as [|k IH]; cbn [nbits]; lia. Qed.
Lemma nbits_even k : nbits k = 2 * (nbits k / 2) /\ 32 <= nbits k / 2.
Proof. destruct k as [|k]; cbn [nbits]; [change (64 / 2) with 32; lia|]. pose proof (nbits_ge64 k). lia. Qed.

Lemma max_card_spec k : wf k (max_card k) /\ val k (max_card k) = 2 ^ (nbits k / 2).
Proof.
  destruct k as [|k].
  - cbn [max_card nbits wf val]. change (64 / 2) with 32. rewrite W_eq. vm_compute. repeat split; discriminate.
  - cbn [max_card]. destruct (ctor_s_spec k 1 ltac:(rewrite p63, W_eq; lia)) as [W1 E1].
    pose proof (W_le_B k). pose proof W_eq. rewrite Z.mod_small in E1 by lia.
    split; [split; [apply wf_zero | exact W1]|]. rewrite val_S. cbn [fst snd]. rewrite val_zero, E1.
    cbn [nbits]. replace (2 * nbits k / 2) with (nbits k) by lia. rewrite <- B_nbits. lia.
Qed.

Lemma max_elem_spec k : wf k (max_elem k) /\ val k (max_elem k) = B k - 1.
Proof.
  induction k as [|k [IH1 IH2]].
  - cbn [max_elem wf val B]. unfold Wm1. rewrite W_eq. lia.
  - cbn [max_elem]. destruct (val_ones k) as [W1 E1]. split; [split; assumption|].
    rewrite val_S, B_S. cbn [fst snd]. rewrite IH2, E1. lia.
Qed.

Lemma max_fflas_spec c31 k : 0 <= c31 < 2 ^ 32 ->
  wf k (max_fflas c31 k) /\ val k (max_fflas c31 k) = 2 ^ (nbits k / 2 - 32) * c31.
Proof.
  change (2 ^ 32) with 4294967296. intros Hc. pose proof W_eq as HW.
  destruct k as [|k].
  - cbn [max_fflas nbits]. change (2 ^ (64 / 2 - 32)) with 1.
    destruct (ctor_u_spec 0 c31 ltac:(lia)) as [W1 E1]. split; [exact W1|]. rewrite E1. lia.
  - cbn [max_fflas]. cbn [nbits]. replace (2 * nbits k / 2) with (nbits k) by lia.
    pose proof (nbits_ge64 k) as H64. set (d := nbits k - 32) in *.
    assert (HP : 0 < 2 ^ d) by (apply Z.pow_pos_nonneg; lia).
    assert (EB : B (S k) = 2 ^ d * 4294967296 * 2 ^ nbits k).
    { rewrite B_S, B_nbits. f_equal. change 4294967296 with (2 ^ 32). rewrite <- Z.pow_add_r by lia.
      f_equal. lia. }
    assert (HN : 0 < 2 ^ nbits k) by (apply Z.pow_pos_nonneg; lia).
    assert (Hlt : 2 ^ d * 4294967296 <= B (S k)) by (rewrite EB; nia).
    destruct (ctor_s_spec (S k) 1 ltac:(rewrite p63, W_eq; lia)) as [W1 E1].
    rewrite Z.mod_small in E1 by lia.
    destruct (shl_exact (S k) _ d W1 ltac:(lia)) as [W2 E2]. rewrite E1, Z.mul_1_l in E2.
    rewrite Z.mod_small in E2 by lia.
    rewrite modW_eq, Z.mod_small by lia.
    destruct (lmul_w_val (S k) _ c31 W2 ltac:(lia)) as [W3 E3]. split; [exact W3|]. rewrite E3, E2.
    apply Z.mod_small. nia.
Qed.

Lemma max_constants_exact : Max_constants_exact.
Proof.
  intros c31 k Hc. split; [apply max_card_spec|]. split; [apply max_elem_spec|].
  destruct (max_fflas_spec c31 k Hc) as [W1 E1]. split; [split; assumption|].
  intros H2. rewrite E1. destruct (nbits_even k) as [Ev Hh].
  set (h := nbits k / 2) in *. clearbody h. rewrite B_nbits, Ev.
  assert (HP : 0 < 2 ^ (h - 32)) by (apply Z.pow_pos_nonneg; lia).
  assert (EB : 2 ^ (2 * h) = 2 ^ (h - 32) * 2 ^ (h - 32) * 2 ^ 64).
  { rewrite <- !Z.pow_add_r by lia. f_equal. lia. }
  rewrite EB. set (P := 2 ^ (h - 32)) in *. clearbody P.
  replace (2 * (P * c31 * (P * c31))) with (P * P * (2 * c31 * c31)) by ring.
  apply Zmult_lt_compat_l; [nia | exact H2].
Qed.

(* ---- display_dec ---- *)
Definition dv (x : Z) (l : list Z) : Z := fold_left (fun acc d => 10 * acc + d) l x.
Lemma dec_value_dv l : dec_value l = dv 0 l. Proof. reflexivity. Qed.
Lemma W_gt_10 : 0 < 10 < W. Proof. rewrite W_eq. lia. Qed.

Lemma pow10_S f : 10 ^ Z.of_nat (S f) = 10 * 10 ^ Z.of_nat f.
Proof. rewrite Nat2Z.inj_succ, Z.pow_succ_r by lia. reflexivity. Qed.

(* one step of the loop *)
Lemma dec_loop_S thr k f b acc :
  dec_loop thr k (S f) b acc =
  if is_zero k b then acc else dec_loop thr k f (fst (div_w thr k b 10)) (snd (div_w thr k b 10) :: acc).
Proof. cbn [dec_loop]. destruct (div_w thr k b 10) as [q m]. reflexivity. Qed.

Lemma dec_loop_value thr k : forall f b acc, wf k b -> val k b < 10 ^ Z.of_nat f ->
  dv 0 (dec_loop thr k f b acc) = dv (val k b) acc.
Proof.
  induction f as [|f IH]; intros b acc Hb Hlt; pose proof (val_range _ _ Hb) as Rb.
  - cbn [dec_loop]. change (10 ^ Z.of_nat 0) with 1 in Hlt. replace (val k b) with 0 by lia. reflexivity.
  - rewrite dec_loop_S, is_zero_spec by assumption. rewrite pow10_S in Hlt.
    destruct (Z.eqb_spec (val k b) 0) as [E|E]; [rewrite E; reflexivity|].
    destruct (div_word_exact thr k b 10 Hb W_gt_10) as (Wq & Eq & Em).
    rewrite IH by (try assumption; rewrite Eq; lia). rewrite Eq, Em. unfold dv. cbn [fold_left]. f_equal. lia.
Qed.

Lemma dec_loop_digits thr k : forall f b acc, wf k b -> Forall (fun d => 0 <= d <= 9) acc ->
  Forall (fun d => 0 <= d <= 9) (dec_loop thr k f b acc).
Proof.
  induction f as [|f IH]; intros b acc Hb Hacc.
  - exact Hacc.
  - rewrite dec_loop_S. destruct (is_zero k b); [exact Hacc|].
    destruct (div_word_exact thr k b 10 Hb W_gt_10) as (Wq & Eq & Em).
    apply IH; [exact Wq|]. constructor; [rewrite Em; lia | exact Hacc].
Qed.

Lemma dec_loop_length thr k : forall f b acc,
  Z.of_nat (length (dec_loop thr k f b acc)) <= Z.of_nat f + Z.of_nat (length acc).
Proof.
  induction f as [|f IH]; intros b acc.
  - cbn [dec_loop]. lia.
  - rewrite dec_loop_S. destruct (is_zero k b); [lia|].
    specialize (IH (fst (div_w thr k b 10)) (snd (div_w thr k b 10) :: acc)). cbn [length] in IH. lia.
Qed.

Lemma dec_loop_hd thr k : forall f b acc, wf k b -> val k b < 10 ^ Z.of_nat f -> val k b <> 0 ->
  hd 0 (dec_loop thr k f b acc) <> 0.
Proof.
  induction f as [|f IH]; intros b acc Hb Hlt Hnz; pose proof (val_range _ _ Hb) as Rb.
  - change (10 ^ Z.of_nat 0) with 1 in Hlt. lia.
  - rewrite dec_loop_S, is_zero_spec by assumption. rewrite pow10_S in Hlt.
    destruct (Z.eqb_spec (val k b) 0) as [E|E]; [contradiction|].
    destruct (div_word_exact thr k b 10 Hb W_gt_10) as (Wq & Eq & Em).
    destruct (Z.eq_dec (val k (fst (div_w thr k b 10))) 0) as [Z0|NZ].
    + (* last digit: the loop stops on the next turn whatever the fuel *)
      assert (Es : forall l, dec_loop thr k f (fst (div_w thr k b 10)) l = l).
      { intros l. destruct f as [|f']; [reflexivity|]. rewrite dec_loop_S, is_zero_spec by assumption. rewrite Z0. reflexivity. }
      rewrite Es. cbn [hd]. rewrite Em. rewrite Eq in Z0. lia.
    + apply IH; [exact Wq | rewrite Eq; lia | exact NZ].
Qed.

(* the buffer size: 2^n <= 10^(n/3 + 2) *)
Lemma pow2_le_pow10 n : 0 <= n -> 2 ^ n <= 10 ^ (n / 3 + 2).
Proof.
  intros Hn. set (q := n / 3). assert (Hq : 0 <= q) by (subst q; apply Z.div_pos; lia).
  assert (Hle : n <= 3 * (q + 1)) by (subst q; lia).
  apply Z.le_trans with (2 ^ (3 * (q + 1))); [apply Z.pow_le_mono_r; lia|].
  rewrite Z.pow_mul_r by lia. change (2 ^ 3) with 8.
  apply Z.le_trans with (10 ^ (q + 1)); [apply Z.pow_le_mono_l; lia | apply Z.pow_le_mono_r; lia].
Qed.

Lemma display_dec_exact : Display_dec_exact.
Proof.
  intros thr k a Ha. unfold display_dec. rewrite is_zero_spec by assumption.
  pose proof (val_range _ _ Ha) as Ra. pose proof (nbits_pos k) as Hnb.
  assert (Hsz : 0 <= nbits k / 3 + 2) by (assert (0 <= nbits k / 3) by (apply Z.div_pos; lia); lia).
  destruct (Z.eqb_spec (val k a) 0) as [E|E].
  - rewrite E. split; [reflexivity|]. split; [constructor; [lia | constructor]|]. split; [intros C; contradiction C; reflexivity|].
    cbn [length Z.of_nat Pos.of_succ_nat]. lia.
  - assert (Hlt : val k a < 10 ^ Z.of_nat (dec_size k)).
    { unfold dec_size. rewrite Z2Nat.id by lia. pose proof (pow2_le_pow10 (nbits k) ltac:(lia)). rewrite B_nbits in Ra. lia. }
    split; [rewrite dec_value_dv, dec_loop_value by assumption; reflexivity|].
    split; [apply dec_loop_digits; [assumption | constructor]|].
    split; [intros _; apply dec_loop_hd; assumption|].
    pose proof (dec_loop_length thr k (dec_size k) a nil) as L. cbn [length Z.of_nat] in L.
    unfold dec_size in L at 2. rewrite Z2Nat.id in L by lia. lia.
Qed.
