(* Non-vacuity examples for the native-operand / conversion theorems: concrete operands satisfying the hypotheses, among
   them the inputs on which the seeded changes C06-m5 and C06-m6 fail. *)
From Coq Require Import ZArith Bool List.
From C06 Require Import Model ModelNative ProofsBase ProofsSigned ProofsNative ProofsNative2 ProofsNative3.
Local Open Scope Z_scope.

(* ruint<8> x = 2^64 - 1; x += 1 (seeded change C06-m5 returned 2^128 + 2^64) *)
Example native_add_example :
  let b := of_Z 2 (2 ^ 64 - 1) in
  wf 2 b /\ - 2 ^ 63 < 1 < 2 ^ 63 /\ val 2 (op_add_si 2 b 1) = 2 ^ 64 /\ val 2 (op_add_si 2 b (-1)) = 2 ^ 64 - 2.
Proof. split; [apply wf_of_Z|]. vm_compute. repeat split; congruence. Qed.

(* ruint<9>: limbs 0..2 all ones, limb 3 = 5; ++x reaches the 128-bit leaf with T = bool *)
Example native_carry_chain_example :
  let b := of_Z 3 (5 * 2 ^ 192 + (2 ^ 192 - 1)) in
  wf 3 b /\ val 3 (fst (add_w 3 b 1)) = 6 * 2 ^ 192 /\ snd (add_w 3 b 1) = false.
Proof. split; [apply wf_of_Z|]. vm_compute. split; reflexivity. Qed.

(* ruint<8> x = 2^256 - 1; mpz_to_ruint(x, 5) (seeded change C06-m6 returned 2^256 - 2^64 + 5) *)
Example mpz_into_example :
  let prev := of_Z 2 (2 ^ 256 - 1) in
  wf 2 prev /\ 0 <= 5 /\ val 2 (mpz_to_ruint_into 2 prev 5) = 5 /\ val 2 (mpz_to_ruint_noreset 2 prev 5) = 5 /\
  val 2 (mpz_to_ruint_into 2 prev 0) = 0 /\ val 2 (mpz_to_rint_into 2 prev (-5)) = 2 ^ 256 - 5.
Proof. split; [apply wf_of_Z|]. vm_compute. repeat split; congruence. Qed.

Example cmp_native_example :
  let a := of_Z 2 (2 ^ 64 + 7) in
  wf 2 a /\ cmp_w 2 a 7 = 1 /\ cmp_si 2 a (-7) = 1 /\ cmp_si 2 (of_Z 2 7) 7 = 0 /\
  scmp_si 2 (of_Z 2 (2 ^ 256 - 7)) (-7) = 0 /\ scmp_si 2 (of_Z 2 (2 ^ 256 - 7)) (-6) = -1 /\ scmp_w 2 (of_Z 2 (2 ^ 256 - 7)) 0 = -1.
Proof. split; [apply wf_of_Z|]. vm_compute. repeat split; reflexivity. Qed.

Example ctor_native_example :
  val 2 (ctor_s 2 (-5)) = 2 ^ 256 - 5 /\ sval 2 (ctor_s 2 (-5)) = -5 /\ val 2 (ctor_u 2 (2 ^ 64 - 1)) = 2 ^ 64 - 1 /\
  cast_s 8 2 (ctor_s 2 (-5)) = -5 /\ cast_u 16 2 (of_Z 2 (2 ^ 100 + 65537)) = 1.
Proof. vm_compute. repeat split; congruence. Qed.

Example sdiv_native_example :
  let a := of_Z 2 (2 ^ 256 - 100) in                        (* -100 *)
  wf 2 a /\ sval 2 a = -100 /\ sval 2 (sdiv_q_si 4 2 a (-7)) = 14 /\ sval 2 (sdiv_q_si 4 2 a 7) = -14 /\
  val 2 (smod_n1 4 2 a (of_Z 2 7)) = 5.
Proof. split; [apply wf_of_Z|]. vm_compute. repeat split; congruence. Qed.

Example ruint_to_mpz_example :
  let b := of_Z 2 (3 * 2 ^ 192 + 2 ^ 64 + 9) in
  wf 2 b /\ limbs 2 b = 9 :: 1 :: 0 :: 3 :: nil /\ ruint_to_mpz_into 2 (-12345) b = 3 * 2 ^ 192 + 2 ^ 64 + 9.
Proof. split; [apply wf_of_Z|]. vm_compute. split; congruence. Qed.

Example display_dec_example :
  display_dec 4 1 (of_Z 1 (2 ^ 64 + 5)) = 1 :: 8 :: 4 :: 4 :: 6 :: 7 :: 4 :: 4 :: 0 :: 7 :: 3 :: 7 :: 0 :: 9 :: 5 :: 5 :: 1 :: 6 :: 2 :: 1 :: nil /\
  display_dec 4 1 (zero 1) = 0 :: nil.
Proof. vm_compute. split; reflexivity. Qed.

Example max_constants_example :
  0 <= 3037000499 < 2 ^ 32 /\ 2 * 3037000499 * 3037000499 < 2 ^ 64 /\
  val 1 (max_fflas 3037000499 1) = 2 ^ 32 * 3037000499 /\ val 0 (max_card 0) = 2 ^ 32 /\ val 1 (max_card 1) = 2 ^ 64.
Proof. vm_compute. repeat split; congruence. Qed.

Example exp_native_example :
  val 1 (exp_mod_n 8 4 1 (of_Z 1 3) 200 (of_Z 1 1000003)) = 3 ^ 200 mod 1000003.
Proof. vm_compute. reflexivity. Qed.
