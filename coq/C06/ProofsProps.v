(* Statements in the form used by Properties.v: value = exact result mod 2^(2^K), carry = exact quotient. *)
From Coq Require Import ZArith Lia Bool.
From C06 Require Import Model ProofsBase ProofsAdd.
Local Open Scope Z_scope.
Ltac Zify.zify_post_hook ::= Z.div_mod_to_equations.

Lemma split_carry (Bk v r s : Z) : 0 < Bk -> 0 <= v < Bk -> 0 <= r <= 1 -> v + Bk * r = s ->
  v = s mod Bk /\ r = s / Bk.
Proof.
  intros HB Hv Hr E. subst s. split.
  - apply Z.mod_unique with r; lia.
  - apply Z.div_unique with v; lia.
Qed.

Lemma split_borrow (Bk v r s : Z) : 0 < Bk -> 0 <= v < Bk -> 0 <= r <= 1 -> v - Bk * r = s ->
  v = s mod Bk /\ (r = 1 <-> s < 0).
Proof.
  intros HB Hv Hr E. subst s. split.
  - apply Z.mod_unique with (- r); lia.
  - assert (Hc : r = 0 \/ r = 1) by lia. destruct Hc; subst r; lia.
Qed.

Definition Add_exact := forall k b c, wf k b -> wf k c ->
  wf k (fst (add_c k b c)) /\
  val k (fst (add_c k b c)) = (val k b + val k c) mod B k /\
  b2z (snd (add_c k b c)) = (val k b + val k c) / B k.
Lemma add_exact : Add_exact.
Proof.
  intros k b c Hb Hc. destruct (add_c_spec k b c Hb Hc) as [Hw E]. split; [exact Hw|].
  apply split_carry; auto using B_pos, val_range, b2z_range.
Qed.

Definition Add_wc_exact := forall k b c cy, wf k b -> wf k c ->
  wf k (fst (add_wc k b c cy)) /\
  val k (fst (add_wc k b c cy)) = (val k b + val k c + b2z cy) mod B k /\
  b2z (snd (add_wc k b c cy)) = (val k b + val k c + b2z cy) / B k.
Lemma add_wc_exact : Add_wc_exact.
Proof.
  intros k b c cy Hb Hc. destruct (add_wc_spec k b c cy Hb Hc) as [Hw E]. split; [exact Hw|].
  apply split_carry; auto using B_pos, val_range, b2z_range.
Qed.

Definition Add_word_exact := forall k b c, wf k b -> 0 <= c < W ->
  wf k (fst (add_w k b c)) /\
  val k (fst (add_w k b c)) = (val k b + c) mod B k /\
  b2z (snd (add_w k b c)) = (val k b + c) / B k.
Lemma add_word_exact : Add_word_exact.
Proof.
  intros k b c Hb Hc. destruct (add_w_spec k b c Hb Hc) as [Hw E]. split; [exact Hw|].
  apply split_carry; auto using B_pos, val_range, b2z_range.
Qed.

Definition Add_1_exact := forall k b, wf k b ->
  wf k (fst (add_1 k b)) /\
  val k (fst (add_1 k b)) = (val k b + 1) mod B k /\
  b2z (snd (add_1 k b)) = (val k b + 1) / B k.
Lemma add_1_exact : Add_1_exact.
Proof.
  intros k b Hb. destruct (add_1_spec k b Hb) as [Hw E]. split; [exact Hw|].
  apply split_carry; auto using B_pos, val_range, b2z_range.
Qed.

Definition Sub_exact := forall k b c, wf k b -> wf k c ->
  wf k (fst (sub_c k b c)) /\
  val k (fst (sub_c k b c)) = (val k b - val k c) mod B k /\
  (snd (sub_c k b c) = true <-> val k b < val k c).
Lemma sub_exact : Sub_exact.
Proof.
  intros k b c Hb Hc. destruct (sub_c_spec k b c Hb Hc) as [Hw E]. split; [exact Hw|].
  pose proof (split_borrow (B k) _ _ _ (B_pos k) (val_range k _ Hw) (b2z_range (snd (sub_c k b c))) E) as [H1 H2].
  split; [exact H1|]. destruct (snd (sub_c k b c)); cbn [b2z] in H2; intuition lia.
Qed.

Definition Sub_wc_exact := forall k b c cy, wf k b -> wf k c ->
  wf k (fst (sub_wc k b c cy)) /\
  val k (fst (sub_wc k b c cy)) = (val k b - val k c - b2z cy) mod B k /\
  (snd (sub_wc k b c cy) = true <-> val k b - val k c - b2z cy < 0).
Lemma sub_wc_exact : Sub_wc_exact.
Proof.
  intros k b c cy Hb Hc. destruct (sub_wc_spec k b c cy Hb Hc) as [Hw E]. split; [exact Hw|].
  pose proof (split_borrow (B k) _ _ _ (B_pos k) (val_range k _ Hw) (b2z_range (snd (sub_wc k b c cy))) E) as [H1 H2].
  split; [exact H1|]. destruct (snd (sub_wc k b c cy)); cbn [b2z] in H2; intuition lia.
Qed.

Definition Cmp_exact := forall k a b, wf k a -> wf k b ->
  cmp k a b = Z.sgn (val k a - val k b).

(* representation: of_Z / val are mutually inverse on the range, B k = 2^(64 * 2^k) *)
Lemma B_pow k : B k = 2 ^ (64 * 2 ^ Z.of_nat k).
Proof.
  induction k as [|k IH].
  - reflexivity.
  - rewrite B_S, IH, <- Z.pow_add_r by lia. f_equal.
    rewrite Nat2Z.inj_succ, Z.pow_succ_r by lia. lia.
Qed.

Definition Repr_exact := forall k,
  B k = 2 ^ (64 * 2 ^ Z.of_nat k) /\
  (forall z, wf k (of_Z k z) /\ val k (of_Z k z) = z mod B k) /\
  (forall x, wf k x -> 0 <= val k x < B k /\ of_Z k (val k x) = x).
Lemma repr_exact : Repr_exact.
Proof.
  intros k. split; [apply B_pow|]. split.
  - intros z. split; [apply wf_of_Z | apply val_of_Z].
  - intros x Hx. split; [apply val_range; auto | apply of_Z_val; auto].
Qed.

(* non-vacuity: a concrete 256-bit operand pair with a long carry chain satisfies the hypotheses *)
Example add_example :
  let b := of_Z 2 (2^256 - 1) in let c := of_Z 2 1 in
  wf 2 b /\ wf 2 c /\ val 2 (fst (add_c 2 b c)) = 0 /\ snd (add_c 2 b c) = true.
Proof. split; [apply wf_of_Z|]. split; [apply wf_of_Z|]. vm_compute. split; reflexivity. Qed.
