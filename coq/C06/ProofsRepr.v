(* The conversions used by the extracted wrappers (of_Zb, valb: shifts and masks) are the functions of_Z, val
   the theorems speak about.  nbits k = 2^K, B k = 2^(nbits k). *)
From Coq Require Import ZArith Lia Bool.
From C06 Require Import Model ProofsBase.
Local Open Scope Z_scope.

Lemma nbits_pos k : 0 < nbits k.
Proof. induction k as [|k IH]; cbn [nbits]; lia. Qed.
Lemma B_nbits k : B k = 2 ^ nbits k.
Proof.
  induction k as [|k IH].
  - reflexivity.
  - rewrite B_S, IH. cbn [nbits]. pose proof (nbits_pos k).
    replace (2 * nbits k) with (nbits k + nbits k) by lia. rewrite Z.pow_add_r by lia. reflexivity.
Qed.
Lemma nbits_eq k : nbits k = 64 * 2 ^ Z.of_nat k.
Proof.
  induction k as [|k IH]; [reflexivity|].
  cbn [nbits]. rewrite IH, Nat2Z.inj_succ, Z.pow_succ_r by lia. lia.
Qed.

Lemma of_Z_mod k z : of_Z k (z mod B k) = of_Z k z.
Proof.
  apply val_inj; auto using wf_of_Z. rewrite !val_of_Z. apply Z.mod_mod. pose proof (B_pos k). lia.
Qed.

Lemma of_Zb_eq k : forall z, of_Zb k z = of_Z k z.
Proof.
  induction k as [|k IH]; intros z.
  - cbn [of_Zb of_Z]. apply modW_eq.
  - cbn [of_Zb of_Z]. rewrite !IH. pose proof (nbits_pos k).
    rewrite Z.shiftr_div_pow2 by lia. rewrite <- B_nbits. rewrite of_Z_mod. reflexivity.
Qed.

Lemma valb_eq k : forall x, valb k x = val k x.
Proof.
  induction k as [|k IH]; intros x.
  - reflexivity.
  - cbn [valb]. rewrite val_S, !IH. pose proof (nbits_pos k).
    rewrite Z.shiftl_mul_pow2 by lia. rewrite <- B_nbits. lia.
Qed.

(* what the wrappers compute, e.g. for a binary operation returning a value: *)
Definition Wrappers_faithful := forall k,
  (forall z, IN k z = of_Z k z) /\ (forall x, OUT k x = val k x).
Lemma wrappers_faithful : Wrappers_faithful.
Proof. intros k. split; [apply of_Zb_eq | apply valb_eq]. Qed.
