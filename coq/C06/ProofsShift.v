(* Shifts: left_shift = multiplication by 2^d modulo B k, right_shift = quotient by 2^d, for every count d >= 0
   (including d = 2^K and beyond); the one-bit shifts report the lost bit. *)
From Coq Require Import ZArith Lia Bool.
From C06 Require Import Model ProofsBase ProofsRepr ProofsAdd ProofsBits.
Local Open Scope Z_scope.
Ltac Zify.zify_post_hook ::= Z.div_mod_to_equations.

(* ---- arithmetic of the three "defect" cases, over Z ---- *)
Lemma euclid (x Q : Z) : 0 < Q -> exists q r, x = Q * q + r /\ 0 <= r < Q /\ q = x / Q /\ r = x mod Q.
Proof. intros. exists (x / Q), (x mod Q). pose proof (Z.div_mod x Q). pose proof (Z.mod_pos_bound x Q). lia. Qed.

Lemma shl_small_Z P Q lo hi : 0 < P -> 0 < Q -> 0 <= lo < P * Q -> 0 <= hi < P * Q ->
  exists h0, 0 <= h0 /\ (hi * P) mod (P * Q) = P * h0 /\ 0 <= lo / Q < P /\
    (lo * P) mod (P * Q) + (P * Q) * (lo / Q + (hi * P) mod (P * Q)) = ((lo + (P * Q) * hi) * P) mod ((P * Q) * (P * Q)).
Proof.
  intros HP HQ Hlo Hhi.
  destruct (euclid lo Q HQ) as (S & l0 & El & Rl & ES & _). destruct (euclid hi Q HQ) as (h1 & h0 & Eh & Rh & _ & _).
  rewrite <- ES.
  assert (HS : 0 <= S < P) by nia.
  assert (EL : (lo * P) mod (P * Q) = l0 * P).
  { symmetry. apply Z.mod_unique with (q := S); [left; nia | subst lo; ring]. }
  assert (EH : (hi * P) mod (P * Q) = h0 * P).
  { symmetry. apply Z.mod_unique with (q := h1); [left; nia | subst hi; ring]. }
  exists h0. rewrite EL, EH. split; [lia|]. split; [ring|]. split; [lia|].
  apply Z.mod_unique with (q := h1); [left; nia | subst lo hi; ring].
Qed.

Lemma shl_big_Z Bp T lo hi : 0 < Bp -> 0 < T -> 0 <= lo < Bp -> 0 <= hi ->
  Bp * ((lo * T) mod Bp) = ((lo + Bp * hi) * (Bp * T)) mod (Bp * Bp).
Proof.
  intros HB HT Hlo Hhi.
  destruct (euclid (lo * T) Bp HB) as (q & r & E & R & _ & Er). rewrite <- Er.
  apply Z.mod_unique with (q := q + hi * T); [left; nia|].
  replace ((lo + Bp * hi) * (Bp * T)) with (Bp * (lo * T) + Bp * Bp * (hi * T)) by ring. rewrite E. ring.
Qed.

Lemma shr_small_Z P Q lo hi : 0 < P -> 0 < Q -> 0 <= lo < P * Q -> 0 <= hi < P * Q ->
  exists h0, 0 <= h0 /\ (hi * Q) mod (P * Q) = Q * h0 /\ 0 <= lo / P < Q /\
    (lo / P + (hi * Q) mod (P * Q)) + (P * Q) * (hi / P) = (lo + (P * Q) * hi) / P.
Proof.
  intros HP HQ Hlo Hhi.
  destruct (euclid lo P HP) as (S & l0 & El & Rl & ES & _). destruct (euclid hi P HP) as (h1 & h0 & Eh & Rh & Eh1 & _).
  rewrite <- ES, <- Eh1.
  assert (HS : 0 <= S < Q) by nia.
  assert (EH : (hi * Q) mod (P * Q) = h0 * Q).
  { symmetry. apply Z.mod_unique with (q := h1); [left; nia | subst hi; ring]. }
  exists h0. rewrite EH. split; [lia|]. split; [ring|]. split; [lia|].
  apply Z.div_unique with (r := l0); [left; lia | subst lo hi; ring].
Qed.

Lemma shr_big_Z Bp T lo hi : 0 < Bp -> 0 < T -> 0 <= lo < Bp -> 0 <= hi ->
  hi / T = (lo + Bp * hi) / (Bp * T).
Proof.
  intros. rewrite <- Z.div_div by lia. f_equal.
  apply Z.div_unique with (r := lo); [left; lia | ring].
Qed.

(* ---- one-bit helpers ---- *)
Lemma B_even k : exists h, B k = 2 * h /\ 0 < h.
Proof. rewrite B_nbits. pose proof (nbits_pos k). exists (2 ^ (nbits k - 1)).
  split; [rewrite <- Z.pow_succ_r by lia; f_equal; lia | apply Z.pow_pos_nonneg; lia]. Qed.

Lemma set_lowest_bit_spec k : forall x, wf k x -> (exists h, val k x = 2 * h) ->
  wf k (set_lowest_bit k x) /\ val k (set_lowest_bit k x) = val k x + 1.
Proof.
  induction k as [|k IH]; intros x Hx [h Eh].
  - cbn [set_lowest_bit wf val] in *. subst x.
    assert (E : Z.lor (2 ^ 1 * h) 1 = 1 + 2 ^ 1 * h) by (rewrite Z.lor_comm; apply lor_disjoint_Z; lia).
    change (2 ^ 1) with 2 in E.
    rewrite E. rewrite W_eq in *. lia.
  - destruct x as [xl xh]. destruct Hx as [Hxl Hxh]. cbn [set_lowest_bit fst snd] in *.
    rewrite val_S in Eh. cbn [fst snd] in Eh. destruct (B_even k) as (hb & Ehb & _).
    destruct (IH xl Hxl) as [W1 E1]; [exists (h - hb * val k xh); nia|].
    split; [split; assumption|]. rewrite !val_S. cbn [fst snd]. lia.
Qed.

Lemma set_highest_bit_spec k : forall x, wf k x -> 2 * val k x < B k ->
  wf k (set_highest_bit k x) /\ 2 * val k (set_highest_bit k x) = 2 * val k x + B k.
Proof.
  induction k as [|k IH]; intros x Hx Hlt.
  - cbn [set_highest_bit wf val B] in *. rewrite W_eq in *.
    assert (E : Z.lor x (2 ^ 63 * 1) = x + 2 ^ 63 * 1) by (apply lor_disjoint_Z; change (2 ^ 63) with 9223372036854775808; lia).
    change (2 ^ 63 * 1) with 9223372036854775808 in E. rewrite E. lia.
  - destruct x as [xl xh]. destruct Hx as [Hxl Hxh]. cbn [set_highest_bit fst snd] in *.
    rewrite val_S, B_S in Hlt. cbn [fst snd] in Hlt.
    pose proof (val_range _ _ Hxl). pose proof (val_range _ _ Hxh). pose proof (B_pos k).
    destruct (IH xh Hxh) as [W1 E1]; [nia|].
    split; [split; assumption|]. rewrite !val_S, B_S. cbn [fst snd]. nia.
Qed.

Lemma shl1_spec k : forall a, wf k a ->
  wf k (fst (shl1 k a)) /\ val k (fst (shl1 k a)) + B k * b2z (snd (shl1 k a)) = 2 * val k a.
Proof.
  induction k as [|k IH]; intros a Ha.
  - cbn [shl1 wf val B fst snd] in *. rewrite modW_eq. rewrite W_eq in *.
    destruct (Z.leb_spec 9223372036854775808 a); cbn [b2z]; lia.
  - destruct a as [al ah]. destruct Ha as [Hal Hah]. cbn [shl1 fst snd].
    destruct (IH ah Hah) as [W1 E1]. destruct (IH al Hal) as [W2 E2].
    destruct (shl1 k ah) as [h z]. destruct (shl1 k al) as [l zl]. cbn [fst snd] in *.
    destruct (B_even k) as (hb & Ehb & _).
    assert (Hev : exists h', val k h = 2 * h') by (exists (val k ah - hb * b2z z); nia).
    destruct (set_lowest_bit_spec k h W1 Hev) as [W3 E3].
    rewrite !val_S, B_S. cbn [fst snd].
    destruct zl; cbn [b2z] in *; (split; [split; assumption|]); nia.
Qed.

Lemma shr1_spec k : forall a, wf k a ->
  wf k (fst (shr1 k a)) /\ 2 * val k (fst (shr1 k a)) + b2z (snd (shr1 k a)) = val k a.
Proof.
  induction k as [|k IH]; intros a Ha.
  - cbn [shr1 wf val fst snd] in *. rewrite Z.shiftr_div_pow2 by lia. change (2 ^ 1) with 2.
    rewrite Zodd_mod. rewrite W_eq in *. destruct (Zeq_bool (a mod 2) 1) eqn:E.
    + apply Zeq_bool_eq in E. cbn [b2z]. lia.
    + apply Zeq_bool_neq in E. cbn [b2z]. lia.
  - destruct a as [al ah]. destruct Ha as [Hal Hah]. cbn [shr1 fst snd].
    destruct (IH ah Hah) as [W1 E1]. destruct (IH al Hal) as [W2 E2].
    destruct (shr1 k ah) as [h zh]. destruct (shr1 k al) as [l z]. cbn [fst snd] in *.
    pose proof (val_range _ _ Hal). pose proof (b2z_range z).
    assert (Hlt : 2 * val k l < B k) by lia.
    destruct (set_highest_bit_spec k l W2 Hlt) as [W3 E3].
    rewrite !val_S. cbn [fst snd].
    destruct zh; cbn [b2z] in *; (split; [split; assumption|]); nia.
Qed.

(* ---- limbs ---- *)
Lemma shl_limb_spec a d : 0 <= a < W -> 0 <= d -> 0 <= shl_limb a d < W /\ shl_limb a d = (a * 2 ^ d) mod W.
Proof.
  intros Ha Hd. unfold shl_limb. pose proof W_pos.
  destruct (Z.eqb_spec d 0) as [->|]; [change (2 ^ 0) with 1; rewrite Z.mul_1_r, Z.mod_small by lia; lia|].
  destruct (Z.ltb_spec d 64).
  - rewrite modW_eq, Z.shiftl_mul_pow2 by lia. split; [apply Z.mod_pos_bound; lia | reflexivity].
  - split; [lia|]. symmetry. replace d with (64 + (d - 64)) by lia. rewrite Z.pow_add_r by lia.
    change (2 ^ 64) with 18446744073709551616. rewrite <- W_eq.
    replace (a * (W * 2 ^ (d - 64))) with ((a * 2 ^ (d - 64)) * W) by ring. apply Z.mod_mul. lia.
Qed.

Lemma shr_limb_spec a d : 0 <= a < W -> 0 <= d -> 0 <= shr_limb a d < W /\ shr_limb a d = a / 2 ^ d.
Proof.
  intros Ha Hd. unfold shr_limb.
  destruct (Z.eqb_spec d 0) as [->|]; [change (2 ^ 0) with 1; rewrite Z.div_1_r; lia|].
  assert (Hp : 0 < 2 ^ d) by (apply Z.pow_pos_nonneg; lia).
  destruct (Z.ltb_spec d 64).
  - rewrite Z.shiftr_div_pow2 by lia. split; [|reflexivity].
    split; [apply Z.div_pos; lia|]. apply Z.div_lt_upper_bound; nia.
  - split; [lia|]. symmetry. apply Z.div_small. split; [lia|].
    assert (2 ^ 64 <= 2 ^ d) by (apply Z.pow_le_mono_r; lia). rewrite W_eq in Ha. change (2 ^ 64) with 18446744073709551616 in *. lia.
Qed.

(* ---- the general shifts ---- *)
Definition shl_ok k := forall a d, wf k a -> 0 <= d ->
  wf k (left_shift k a d) /\ val k (left_shift k a d) = (val k a * 2 ^ d) mod B k.
Definition shr_ok k := forall a d, wf k a -> 0 <= d ->
  wf k (right_shift k a d) /\ val k (right_shift k a d) = val k a / 2 ^ d.

Lemma pow_split nb d : 0 <= d < nb -> 2 ^ nb = 2 ^ d * 2 ^ (nb - d) /\ 0 < 2 ^ d /\ 0 < 2 ^ (nb - d).
Proof.
  intros. rewrite <- Z.pow_add_r by lia. replace (d + (nb - d)) with nb by lia.
  split; [reflexivity|]. split; apply Z.pow_pos_nonneg; lia.
Qed.

Lemma shifts_ok k : shl_ok k /\ shr_ok k.
Proof.
  induction k as [|k [IHl IHr]].
  - split; intros a d Ha Hd; cbn [wf val B] in *; unfold left_shift, right_shift; cbn [shifts fst snd].
    + destruct (shl_limb_spec a d Ha Hd) as [R E]. split; [exact R | exact E].
    + destruct (shr_limb_spec a d Ha Hd) as [R E]. split; [exact R | exact E].
  - pose proof (nbits_pos k) as Hnb. pose proof (B_pos k) as HB.
    assert (EB : B k = 2 ^ nbits k) by apply B_nbits.
    split; intros [lo hi] d [Hlo Hhi] Hd; unfold left_shift, right_shift; cbn [shifts fst snd];
      fold (left_shift k) (right_shift k);
      cbn [fst snd] in Hlo, Hhi; pose proof (val_range _ _ Hlo) as Rlo; pose proof (val_range _ _ Hhi) as Rhi;
      cbn [fst snd] in *; rewrite (val_S k (lo, hi)), ?B_S; cbn [fst snd] in *.
    + (* left *)
      destruct (Z.eqb_spec d 0) as [->|Hd0].
      { split; [split; assumption|]. change (2 ^ 0) with 1. rewrite Z.mul_1_r, Z.mod_small by nia. apply val_S. }
      destruct (Z.eqb_spec d 1) as [->|Hd1].
      { destruct (shl1_spec (S k) (lo, hi) (conj Hlo Hhi)) as [W1 E1]. split; [exact W1|].
        rewrite (val_S k (lo, hi)), B_S in E1. cbn [fst snd] in E1. change (2 ^ 1) with 2.
        pose proof (val_range _ _ W1) as R1. rewrite B_S in R1. pose proof (b2z_range (snd (shl1 (S k) (lo, hi)))).
        apply Z.mod_unique with (q := b2z (snd (shl1 (S k) (lo, hi)))); [left; lia | lia]. }
      destruct (Z.ltb_spec (2 * nbits k) d) as [Hbig|Hle].
      { split; [apply wf_zero|]. rewrite val_zero. symmetry.
        replace d with (2 * nbits k + (d - 2 * nbits k)) by lia. rewrite Z.pow_add_r by lia.
        replace (2 ^ (2 * nbits k)) with (B k * B k) by (rewrite EB, <- Z.pow_add_r by lia; f_equal; lia).
        rewrite Z.mul_assoc, (Z.mul_comm _ (B k * B k)), <- Z.mul_assoc, Z.mul_comm. apply Z.mod_mul. nia. }
      destruct (Z.ltb_spec d (nbits k)) as [Hsmall|Hge].
      { destruct (IHl lo d Hlo Hd) as [W1 E1]. destruct (IHr lo (nbits k - d) Hlo ltac:(lia)) as [W2 E2].
        destruct (IHl hi d Hhi Hd) as [W3 E3].
        destruct (pow_split (nbits k) d ltac:(lia)) as (EP & HP & HQ).
        rewrite EB, EP in *.
        destruct (shl_small_Z (2 ^ d) (2 ^ (nbits k - d)) (val k lo) (val k hi) HP HQ Rlo Rhi) as (h0 & Hh0 & EH & RS & Efin).
        destruct (lor_spec k _ _ W2 W3) as [W4 E4].
        split; [split; assumption|]. rewrite val_S. cbn [fst snd]. rewrite E4, E1, E2, E3, EH.
        rewrite lor_disjoint_Z by lia. rewrite EB, <- EH. exact Efin. }
      destruct (Z.ltb_spec (nbits k) d) as [Hgt|Heq].
      { destruct (IHl lo (d - nbits k) Hlo ltac:(lia)) as [W1 E1].
        split; [split; [apply wf_zero | exact W1]|]. rewrite val_S. cbn [fst snd]. rewrite val_zero, E1.
        replace d with (nbits k + (d - nbits k)) at 2 by lia. rewrite Z.pow_add_r by lia. rewrite <- EB.
        rewrite Z.add_0_l. apply shl_big_Z; try lia; apply Z.pow_pos_nonneg; lia. }
      { assert (d = nbits k) by lia. subst d.
        split; [split; [apply wf_zero | exact Hlo]|]. rewrite val_S. cbn [fst snd]. rewrite val_zero, <- EB.
        apply Z.mod_unique with (q := val k hi); [left; nia | ring]. }
    + (* right *)
      destruct (Z.eqb_spec d 0) as [->|Hd0].
      { split; [split; assumption|]. change (2 ^ 0) with 1. rewrite Z.div_1_r. apply val_S. }
      destruct (Z.eqb_spec d 1) as [->|Hd1].
      { destruct (shr1_spec (S k) (lo, hi) (conj Hlo Hhi)) as [W1 E1]. split; [exact W1|].
        rewrite (val_S k (lo, hi)) in E1. cbn [fst snd] in E1. change (2 ^ 1) with 2.
        pose proof (b2z_range (snd (shr1 (S k) (lo, hi)))).
        apply Z.div_unique with (r := b2z (snd (shr1 (S k) (lo, hi)))); [left; lia | lia]. }
      destruct (Z.ltb_spec (2 * nbits k) d) as [Hbig|Hle].
      { split; [apply wf_zero|]. rewrite val_zero. symmetry. apply Z.div_small. split; [nia|].
        assert (B k * B k <= 2 ^ d).
        { replace (B k * B k) with (2 ^ (2 * nbits k)) by (rewrite EB, <- Z.pow_add_r by lia; f_equal; lia).
          apply Z.pow_le_mono_r; lia. }
        nia. }
      destruct (Z.ltb_spec d (nbits k)) as [Hsmall|Hge].
      { destruct (IHr lo d Hlo Hd) as [W1 E1]. destruct (IHl hi (nbits k - d) Hhi ltac:(lia)) as [W2 E2].
        destruct (IHr hi d Hhi Hd) as [W3 E3].
        destruct (pow_split (nbits k) d ltac:(lia)) as (EP & HP & HQ).
        rewrite EB, EP in *.
        destruct (shr_small_Z (2 ^ d) (2 ^ (nbits k - d)) (val k lo) (val k hi) HP HQ Rlo Rhi) as (h0 & Hh0 & EH & RS & Efin).
        destruct (lor_spec k _ _ W2 W1) as [W4 E4].
        split; [split; assumption|]. rewrite val_S. cbn [fst snd]. rewrite E4, E1, E2, E3, EH.
        rewrite Z.lor_comm, lor_disjoint_Z by lia. rewrite EB, <- EH. exact Efin. }
      destruct (Z.ltb_spec (nbits k) d) as [Hgt|Heq].
      { destruct (IHr hi (d - nbits k) Hhi ltac:(lia)) as [W1 E1].
        split; [split; [exact W1 | apply wf_zero]|]. rewrite val_S. cbn [fst snd]. rewrite val_zero, E1.
        replace d with (nbits k + (d - nbits k)) at 2 by lia. rewrite Z.pow_add_r by lia. rewrite <- EB.
        rewrite Z.mul_0_r, Z.add_0_r. apply shr_big_Z; try lia; apply Z.pow_pos_nonneg; lia. }
      { assert (d = nbits k) by lia. subst d.
        split; [split; [exact Hhi | apply wf_zero]|]. rewrite val_S. cbn [fst snd]. rewrite val_zero, <- EB.
        rewrite Z.mul_0_r, Z.add_0_r. apply Z.div_unique with (r := val k lo); [left; lia | ring]. }
Qed.

Definition Shl_exact := forall k a d, wf k a -> 0 <= d ->
  wf k (left_shift k a d) /\ val k (left_shift k a d) = (val k a * 2 ^ d) mod B k.
Definition Shr_exact := forall k a d, wf k a -> 0 <= d ->
  wf k (right_shift k a d) /\ val k (right_shift k a d) = val k a / 2 ^ d.
Lemma shl_exact : Shl_exact. Proof. intros k. apply (proj1 (shifts_ok k)). Qed.
Lemma shr_exact : Shr_exact. Proof. intros k. apply (proj2 (shifts_ok k)). Qed.

Definition Shift1_exact := forall k a, wf k a ->
  (wf k (fst (shl1 k a)) /\ val k (fst (shl1 k a)) = (2 * val k a) mod B k /\ b2z (snd (shl1 k a)) = (2 * val k a) / B k) /\
  (wf k (fst (shr1 k a)) /\ val k (fst (shr1 k a)) = val k a / 2 /\ b2z (snd (shr1 k a)) = val k a mod 2).
Lemma shift1_exact : Shift1_exact.
Proof.
  intros k a Ha. destruct (shl1_spec k a Ha) as [W1 E1]. destruct (shr1_spec k a Ha) as [W2 E2].
  pose proof (val_range _ _ W1). pose proof (val_range _ _ W2). pose proof (B_pos k).
  pose proof (b2z_range (snd (shl1 k a))). pose proof (b2z_range (snd (shr1 k a))).
  split; (split; [assumption|]).
  - split; [apply Z.mod_unique with (q := b2z (snd (shl1 k a))); [left; lia | lia]
           | apply Z.div_unique with (r := val k (fst (shl1 k a))); [left; lia | lia]].
  - split; [apply Z.div_unique with (r := b2z (snd (shr1 k a))); [left; lia | lia]
           | apply Z.mod_unique with (q := val k (fst (shr1 k a))); [left; lia | lia]].
Qed.

(* the internal widening shift used by div and mod_n *)
Definition Shl_ext_exact := forall k a d, wf k a -> 0 <= d ->
  wf (S k) (left_shift_ext k a d) /\ val (S k) (left_shift_ext k a d) = (val k a * 2 ^ d) mod B (S k).
Lemma shl_ext_exact : Shl_ext_exact.
Proof.
  intros k a d Ha Hd. unfold left_shift_ext.
  pose proof (nbits_pos k) as Hnb. pose proof (B_pos k) as HB. pose proof (val_range _ _ Ha) as Ra.
  assert (EB : B k = 2 ^ nbits k) by apply B_nbits. rewrite B_S.
  destruct (Z.eqb_spec d 0) as [->|Hd0].
  { split; [split; [exact Ha | apply wf_zero]|]. rewrite val_S. cbn [fst snd]. rewrite val_zero.
    change (2 ^ 0) with 1. rewrite Z.mul_1_r, Z.mod_small by nia. lia. }
  destruct (Z.ltb_spec (2 * nbits k) d) as [Hbig|Hle].
  { split; [apply wf_zero|]. rewrite val_zero. symmetry.
    replace d with (2 * nbits k + (d - 2 * nbits k)) by lia. rewrite Z.pow_add_r by lia.
    replace (2 ^ (2 * nbits k)) with (B k * B k) by (rewrite EB, <- Z.pow_add_r by lia; f_equal; lia).
    rewrite Z.mul_assoc, (Z.mul_comm _ (B k * B k)), <- Z.mul_assoc, Z.mul_comm. apply Z.mod_mul. nia. }
  destruct (Z.ltb_spec d (nbits k)) as [Hsmall|Hge].
  { destruct (shl_exact k a d Ha Hd) as [W1 E1]. destruct (shr_exact k a (nbits k - d) Ha ltac:(lia)) as [W2 E2].
    split; [split; assumption|]. rewrite val_S. cbn [fst snd]. rewrite E1, E2.
    destruct (pow_split (nbits k) d ltac:(lia)) as (EP & HP & HQ). rewrite EB, EP in *.
    set (P := 2 ^ d) in *. set (Q := 2 ^ (nbits k - d)) in *.
    destruct (euclid (val k a) Q HQ) as (S & l0 & El & Rl & ES & _). rewrite <- ES.
    assert (EL : (val k a * P) mod (P * Q) = l0 * P).
    { symmetry. apply Z.mod_unique with (q := S); [left; nia | rewrite El; ring]. }
    rewrite EL. rewrite Z.mod_small; [rewrite El; ring|]. rewrite El. split; [nia|].
    assert (S < P) by nia. nia. }
  destruct (Z.ltb_spec (nbits k) d) as [Hgt|Heq].
  { destruct (shl_exact k a (d - nbits k) Ha ltac:(lia)) as [W1 E1].
    split; [split; [apply wf_zero | exact W1]|]. rewrite val_S. cbn [fst snd]. rewrite val_zero, E1.
    replace d with (nbits k + (d - nbits k)) at 2 by lia. rewrite Z.pow_add_r by lia. rewrite <- EB.
    rewrite Z.add_0_l. replace (val k a) with (val k a + B k * 0) at 2 by lia.
    apply shl_big_Z; try lia; apply Z.pow_pos_nonneg; lia. }
  { assert (d = nbits k) by lia. subst d.
    split; [split; [apply wf_zero | exact Ha]|]. rewrite val_S. cbn [fst snd]. rewrite val_zero, <- EB.
    rewrite Z.mod_small; [ring | nia]. }
Qed.
