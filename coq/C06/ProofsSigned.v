(* Signed rint<K> (stored as a ruint<K>): two's-complement reading sval, and the operations that are not the same
   function as on ruint<K>: comparison, division (truncated), full product, sign extension, arithmetic right shift. *)
From Coq Require Import ZArith Lia Bool.
From C06 Require Import Model ProofsBase ProofsRepr ProofsAdd ProofsBits ProofsShift ProofsMul ProofsMulTop ProofsSquare ProofsDivTop ProofsDivFinal.
Local Open Scope Z_scope.
Ltac Zify.zify_post_hook ::= Z.div_mod_to_equations.

(* the integer a rint<K> denotes *)
Definition sval (k : nat) (x : ru k) : Z := if is_neg k x then val k x - B k else val k x.

Lemma is_neg_spec k x : wf k x -> is_neg k x = (B k <=? 2 * val k x).
Proof. apply highest_bit_spec. Qed.

Lemma sval_range k x : wf k x -> - B k <= 2 * sval k x < B k /\ sval k x mod B k = val k x.
Proof.
  intros Hx. unfold sval. rewrite is_neg_spec by assumption. pose proof (val_range _ _ Hx). pose proof (B_pos k).
  destruct (Z.leb_spec (B k) (2 * val k x)).
  - split; [lia|]. symmetry. apply Z.mod_unique with (q := -1); [left; lia | lia].
  - split; [lia|]. apply Z.mod_small; lia.
Qed.

(* |x| as computed by the code: (-x).Value when x is negative *)
Lemma abs_val k x : wf k x -> is_neg k x = true -> wf k (neg k x) /\ val k (neg k x) = - sval k x.
Proof.
  intros Hx Hn. destruct (neg_spec k x Hx) as [Wn En]. split; [exact Wn|]. rewrite En. unfold sval. rewrite Hn.
  pose proof (val_range _ _ Hx). rewrite is_neg_spec in Hn by assumption. pose proof (B_pos k).
  apply Z.leb_le in Hn. symmetry. apply Z.mod_unique with (q := -1); [left; lia | lia].
Qed.

(* cmp(rint, rint) *)
Definition Scmp_exact := forall k a b, wf k a -> wf k b -> scmp k a b = Z.sgn (sval k a - sval k b).
Lemma scmp_exact : Scmp_exact.
Proof.
  intros k a b Ha Hb. unfold scmp, sval. rewrite cmp_spec by assumption.
  rewrite !is_neg_spec by assumption. pose proof (val_range _ _ Ha). pose proof (val_range _ _ Hb). pose proof (B_pos k).
  destruct (Z.leb_spec (B k) (2 * val k a)), (Z.leb_spec (B k) (2 * val k b)); cbn [Z.eqb Pos.eqb].
  - f_equal. lia.
  - symmetry. apply Z.sgn_neg. lia.
  - symmetry. apply Z.sgn_pos. lia.
  - reflexivity.
Qed.

(* div_q(rint): quotient rounded towards zero, reduced to 2^K bits (only -2^(2^K-1) / -1 does not fit) *)
Definition Sdiv_q_exact := forall thr k a b, wf k a -> wf k b -> sval k b <> 0 ->
  wf k (sdiv_q thr k a b) /\ val k (sdiv_q thr k a b) = (Z.quot (sval k a) (sval k b)) mod B k.
Lemma sdiv_q_exact : Sdiv_q_exact.
Proof.
  intros thr k a b Ha Hb Hnz. unfold sdiv_q. pose proof (B_pos k) as HB.
  destruct (sval_range k a Ha) as [Ra _]. destruct (sval_range k b Hb) as [Rb _].
  destruct (is_neg k a) eqn:Na; destruct (is_neg k b) eqn:Nb.
  - destruct (abs_val k a Ha Na) as [Wa Ea]. destruct (abs_val k b Hb Nb) as [Wb Eb].
    destruct (div_exact thr k _ _ Wa Wb ltac:(lia)) as (Wq & _ & E & R). split; [exact Wq|].
    rewrite Ea, Eb in *. pose proof (val_range _ _ Wq).
    assert (Eq : Z.quot (sval k a) (sval k b) = val k (fst (div thr k (neg k a) (neg k b)))).
    { rewrite <- (Z.quot_opp_opp (sval k a) (sval k b)) by lia. rewrite Z.quot_div_nonneg by lia.
      symmetry. apply Z.div_unique with (r := val k (snd (div thr k (neg k a) (neg k b)))); [left; lia | lia]. }
    rewrite Eq. symmetry. apply Z.mod_small. lia.
  - destruct (abs_val k a Ha Na) as [Wa Ea].
    assert (Eb : val k b = sval k b) by (unfold sval; rewrite Nb; reflexivity).
    destruct (div_exact thr k _ _ Wa Hb ltac:(lia)) as (Wq & _ & E & R).
    destruct (neg_spec k _ Wq) as [Wn En]. split; [exact Wn|]. rewrite En. f_equal.
    pose proof (val_range _ _ Wa). rewrite Ea, Eb in *. pose proof (val_range _ _ Hb).
    rewrite <- (Z.opp_involutive (sval k a)) at 1. rewrite Z.quot_opp_l by lia. f_equal.
    rewrite Z.quot_div_nonneg by lia.
    apply Z.div_unique with (r := val k (snd (div thr k (neg k a) b))); [left; lia | lia].
  - destruct (abs_val k b Hb Nb) as [Wb Eb].
    assert (Ea : val k a = sval k a) by (unfold sval; rewrite Na; reflexivity).
    destruct (div_exact thr k _ _ Ha Wb ltac:(lia)) as (Wq & _ & E & R).
    destruct (neg_spec k _ Wq) as [Wn En]. split; [exact Wn|]. rewrite En. f_equal.
    pose proof (val_range _ _ Wb). rewrite Ea, Eb in *. pose proof (val_range _ _ Ha).
    rewrite <- (Z.opp_involutive (sval k b)) at 1. rewrite Z.quot_opp_r by lia. f_equal.
    rewrite Z.quot_div_nonneg by lia.
    apply Z.div_unique with (r := val k (snd (div thr k a (neg k b)))); [left; lia | lia].
  - assert (Ea : val k a = sval k a) by (unfold sval; rewrite Na; reflexivity).
    assert (Eb : val k b = sval k b) by (unfold sval; rewrite Nb; reflexivity).
    destruct (div_exact thr k _ _ Ha Hb ltac:(lia)) as (Wq & _ & E & R). split; [exact Wq|].
    rewrite Ea, Eb in *. pose proof (val_range _ _ Ha). pose proof (val_range _ _ Hb). pose proof (val_range _ _ Wq).
    rewrite Z.quot_div_nonneg by lia.
    assert (Eq : sval k a / sval k b = val k (fst (div thr k a b))).
    { symmetry. apply Z.div_unique with (r := val k (snd (div thr k a b))); [left; lia | lia]. }
    rewrite Eq. symmetry. apply Z.mod_small. lia.
Qed.

(* div_r(rint) for a positive divisor (the code asserts b > 1): remainder with the sign of the dividend *)
Definition Sdiv_r_exact := forall thr k a b, wf k a -> wf k b -> 0 < sval k b ->
  wf k (sdiv_r thr k a b) /\ val k (sdiv_r thr k a b) = (Z.rem (sval k a) (sval k b)) mod B k.
Lemma sdiv_r_exact : Sdiv_r_exact.
Proof.
  intros thr k a b Ha Hb Hpos. unfold sdiv_r. pose proof (B_pos k) as HB.
  destruct (sval_range k a Ha) as [Ra _]. destruct (sval_range k b Hb) as [Rb _].
  assert (Nb : is_neg k b = false).
  { destruct (is_neg k b) eqn:E; [|reflexivity]. unfold sval in Hpos. rewrite E in Hpos. pose proof (val_range _ _ Hb). lia. }
  assert (Eb : val k b = sval k b) by (unfold sval; rewrite Nb; reflexivity).
  destruct (is_neg k a) eqn:Na.
  - destruct (abs_val k a Ha Na) as [Wa Ea].
    destruct (div_exact thr k _ _ Wa Hb ltac:(lia)) as (_ & Wr & E & R).
    destruct (neg_spec k _ Wr) as [Wn En]. split; [exact Wn|]. rewrite En. f_equal.
    pose proof (val_range _ _ Wa). rewrite Ea, Eb in *.
    rewrite <- (Z.opp_involutive (sval k a)) at 1. rewrite Z.rem_opp_l by lia. f_equal.
    rewrite Z.rem_mod_nonneg by lia.
    apply Z.mod_unique with (q := val k (fst (div thr k (neg k a) b))); [left; lia | lia].
  - assert (Ea : val k a = sval k a) by (unfold sval; rewrite Na; reflexivity).
    destruct (div_exact thr k _ _ Ha Hb ltac:(lia)) as (_ & Wr & E & R). split; [exact Wr|].
    rewrite Ea, Eb in *. pose proof (val_range _ _ Ha). pose proof (val_range _ _ Wr).
    rewrite Z.rem_mod_nonneg by lia.
    assert (Er : sval k a mod sval k b = val k (snd (div thr k a b))).
    { symmetry. apply Z.mod_unique with (q := val k (fst (div thr k a b))); [left; lia | lia]. }
    rewrite Er. symmetry. apply Z.mod_small. lia.
Qed.

(* lmul(rint<K+1>, rint<K>, rint<K>): the full signed product *)
Lemma lmul_val thr k x y : wf k x -> wf k y ->
  wf (S k) (lmul thr k x y) /\ val (S k) (lmul thr k x y) = val k x * val k y.
Proof.
  intros Hx Hy. destruct (lmul_okk thr k x y Hx Hy) as (W0 & W1 & E). split; [split; assumption|]. rewrite val_S. exact E.
Qed.

Definition Slmul_exact := forall thr k a b, wf k a -> wf k b ->
  wf (S k) (slmul thr k a b) /\ val (S k) (slmul thr k a b) = (sval k a * sval k b) mod B (S k).
Lemma slmul_exact : Slmul_exact.
Proof.
  intros thr k a b Ha Hb. unfold slmul. pose proof (B_pos k) as HB. rewrite B_S.
  destruct (sval_range k a Ha) as [Ra _]. destruct (sval_range k b Hb) as [Rb _].
  destruct (is_neg k a) eqn:Na; destruct (is_neg k b) eqn:Nb.
  - destruct (abs_val k a Ha Na) as [Wa Ea]. destruct (abs_val k b Hb Nb) as [Wb Eb].
    destruct (lmul_val thr k _ _ Wa Wb) as [Wp Ep]. split; [exact Wp|]. rewrite Ep, Ea, Eb.
    pose proof (val_range _ _ Wa). pose proof (val_range _ _ Wb). rewrite Ea, Eb in *.
    replace (- sval k a * - sval k b) with (sval k a * sval k b) by ring. symmetry. apply Z.mod_small. nia.
  - destruct (abs_val k a Ha Na) as [Wa Ea].
    assert (Eb : val k b = sval k b) by (unfold sval; rewrite Nb; reflexivity).
    destruct (lmul_val thr k _ _ Wa Hb) as [Wp Ep]. destruct (neg_spec (S k) _ Wp) as [Wn En].
    split; [exact Wn|]. rewrite En, Ep, Ea, Eb, B_S. f_equal. ring.
  - destruct (abs_val k b Hb Nb) as [Wb Eb].
    assert (Ea : val k a = sval k a) by (unfold sval; rewrite Na; reflexivity).
    destruct (lmul_val thr k _ _ Ha Wb) as [Wp Ep]. destruct (neg_spec (S k) _ Wp) as [Wn En].
    split; [exact Wn|]. rewrite En, Ep, Ea, Eb, B_S. f_equal. ring.
  - assert (Ea : val k a = sval k a) by (unfold sval; rewrite Na; reflexivity).
    assert (Eb : val k b = sval k b) by (unfold sval; rewrite Nb; reflexivity).
    destruct (lmul_val thr k _ _ Ha Hb) as [Wp Ep]. split; [exact Wp|]. rewrite Ep, Ea, Eb.
    pose proof (val_range _ _ Ha). pose proof (val_range _ _ Hb). rewrite Ea, Eb in *.
    symmetry. apply Z.mod_small. nia.
Qed.

(* lsquare(rint<K+1>, rint<K>) (repaired): b^2 *)
Definition Slsquare_exact := forall thr k b, wf k b ->
  wf (S k) (slsquare thr k b) /\ val (S k) (slsquare thr k b) = sval k b * sval k b.
Lemma slsquare_exact : Slsquare_exact.
Proof.
  intros thr k b Hb. unfold slsquare.
  assert (H : forall x, wf k x -> wf (S k) (lsquare thr k x) /\ val (S k) (lsquare thr k x) = val k x * val k x).
  { intros x Hx. destruct (lsquare_ok thr k x Hx) as (W0 & W1 & E). split; [split; assumption|]. rewrite val_S. exact E. }
  destruct (is_neg k b) eqn:Nb.
  - destruct (abs_val k b Hb Nb) as [Wb Eb]. destruct (H _ Wb) as [Wp Ep]. split; [exact Wp|]. rewrite Ep, Eb. ring.
  - assert (Eb : val k b = sval k b) by (unfold sval; rewrite Nb; reflexivity).
    destruct (H _ Hb) as [Wp Ep]. split; [exact Wp|]. rewrite Ep, Eb. reflexivity.
Qed.

(* rint<K+1>(const rint<K>&): sign extension *)
Definition Sext_exact := forall k a, wf k a ->
  wf (S k) (sext k a) /\ val (S k) (sext k a) = sval k a mod B (S k) /\ sval (S k) (sext k a) = sval k a.
Lemma sext_exact : Sext_exact.
Proof.
  intros k a Ha. unfold sext. pose proof (B_pos k) as HB. destruct (sval_range k a Ha) as [Ra _].
  assert (Hval : forall x : ru (S k), wf (S k) x -> val (S k) x = sval k a mod B (S k) -> sval (S k) x = sval k a).
  { intros x Hx Ex. unfold sval at 1. rewrite is_neg_spec by assumption. rewrite Ex, B_S in *.
    pose proof (Z.mod_pos_bound (sval k a) (B k * B k) ltac:(nia)).
    destruct (Z.leb_spec (B k * B k) (2 * (sval k a mod (B k * B k)))).
    - assert (sval k a < 0).
      { destruct (Z.lt_ge_cases (sval k a) 0); [assumption|exfalso]. rewrite Z.mod_small in H0 by nia. nia. }
      assert (sval k a mod (B k * B k) = sval k a + B k * B k) by (symmetry; apply Z.mod_unique with (q := -1); [left; nia | ring]).
      lia.
    - destruct (Z.lt_ge_cases (sval k a) 0).
      + assert (sval k a mod (B k * B k) = sval k a + B k * B k) by (symmetry; apply Z.mod_unique with (q := -1); [left; nia | ring]).
        exfalso. nia.
      + apply Z.mod_small. nia. }
  destruct (is_neg k a) eqn:Na.
  - destruct (abs_val k a Ha Na) as [Wa Ea].
    assert (Wp : wf (S k) (neg k a, zero k)) by (split; [exact Wa | apply wf_zero]).
    destruct (neg_spec (S k) _ Wp) as [Wn En]. rewrite (val_S k (neg k a, zero k)) in En. cbn [fst snd] in En. rewrite val_zero, Ea in En.
    assert (E : val (S k) (neg (S k) (neg k a, zero k)) = sval k a mod B (S k)) by (rewrite En; f_equal; ring).
    split; [exact Wn|]. split; [exact E | apply Hval; assumption].
  - assert (Ea : val k a = sval k a) by (unfold sval; rewrite Na; reflexivity).
    assert (Wp : wf (S k) (a, zero k)) by (split; [exact Ha | apply wf_zero]).
    assert (E : val (S k) (a, zero k) = sval k a mod B (S k)).
    { rewrite val_S. cbn [fst snd]. rewrite val_zero, Ea, B_S. pose proof (val_range _ _ Ha). rewrite Ea in *.
      symmetry. rewrite Z.mod_small by nia. ring. }
    split; [exact Wp|]. split; [exact E | apply Hval; assumption].
Qed.

(* operator>>=(rint, count) (repaired): arithmetic shift = floor(a / 2^d) *)
Lemma floor_neg s p : 0 < p -> s / p = - ((- s - 1) / p) - 1.
Proof.
  intros Hp. pose proof (Z.div_mod (- s - 1) p ltac:(lia)) as E. pose proof (Z.mod_pos_bound (- s - 1) p Hp) as R.
  symmetry. apply Z.div_unique with (r := p - 1 - (- s - 1) mod p); [left; lia|].
  set (t := (- s - 1) / p) in *. set (r := (- s - 1) mod p) in *. clearbody t r. nia.
Qed.

Definition Sshr_exact := forall k a d, wf k a -> 0 <= d ->
  wf k (sshr k a d) /\ val k (sshr k a d) = (sval k a / 2 ^ d) mod B k.
Lemma sshr_exact : Sshr_exact.
Proof.
  intros k a d Ha Hd. unfold sshr. pose proof (B_pos k) as HB. pose proof (val_range _ _ Ha) as Rv.
  assert (HP : 0 < 2 ^ d) by (apply Z.pow_pos_nonneg; lia).
  destruct (is_neg k a) eqn:Na.
  - destruct (lnot_spec k a Ha) as [W1 E1]. destruct (shr_exact k _ d W1 Hd) as [W2 E2].
    destruct (lnot_spec k _ W2) as [W3 E3]. split; [exact W3|]. rewrite E3, E2, E1.
    unfold sval. rewrite Na. set (s := val k a - B k). replace (B k - 1 - val k a) with (- s - 1) by (subst s; lia).
    rewrite (floor_neg s (2 ^ d) HP).
    assert (0 <= (- s - 1) / 2 ^ d < B k).
    { subst s. split; [apply Z.div_pos; lia|]. apply Z.div_lt_upper_bound; nia. }
    apply Z.mod_unique with (q := -1); [left; lia | lia].
  - destruct (shr_exact k a d Ha Hd) as [W2 E2]. split; [exact W2|]. rewrite E2. unfold sval. rewrite Na.
    symmetry. apply Z.mod_small. split; [apply Z.div_pos; lia|]. apply Z.div_lt_upper_bound; nia.
Qed.

(* rint_to_mpz: the two's-complement reading; two's-complement arithmetic agrees with the unsigned operations *)
Definition Rint_to_mpz_exact := forall k a, wf k a -> rint_to_mpz k a = sval k a.
Lemma rint_to_mpz_exact : Rint_to_mpz_exact.
Proof.
  intros k a Ha. unfold rint_to_mpz. destruct (is_neg k a) eqn:Na.
  - destruct (abs_val k a Ha Na) as [_ Ea]. rewrite Ea. lia.
  - unfold sval. rewrite Na. reflexivity.
Qed.

Definition Signed_ring_ops_exact := forall thr k a b, wf k a -> wf k b ->
  val k (fst (add_c k a b)) = (sval k a + sval k b) mod B k /\
  val k (fst (sub_c k a b)) = (sval k a - sval k b) mod B k /\
  val k (mul thr k a b) = (sval k a * sval k b) mod B k /\
  val k (neg k a) = (- sval k a) mod B k.
Lemma signed_ring_ops_exact : Signed_ring_ops_exact.
Proof.
  intros thr k a b Ha Hb. pose proof (B_pos k) as HB.
  destruct (sval_range k a Ha) as [_ Ea]. destruct (sval_range k b Hb) as [_ Eb].
  destruct (add_c_spec k a b Ha Hb) as [W1 E1]. destruct (sub_c_spec k a b Ha Hb) as [W2 E2].
  destruct (mul_spec thr k a b Ha Hb) as [_ E3]. destruct (neg_spec k a Ha) as [_ E4].
  pose proof (val_range _ _ W1). pose proof (val_range _ _ W2).
  repeat split.
  - rewrite Z.add_mod, Ea, Eb by lia.
    apply Z.mod_unique with (q := b2z (snd (add_c k a b))); [left; lia | lia].
  - rewrite Zminus_mod, Ea, Eb.
    apply Z.mod_unique with (q := - b2z (snd (sub_c k a b))); [left; lia | lia].
  - rewrite E3. rewrite (Z.mul_mod (sval k a)), Ea, Eb by lia. reflexivity.
  - rewrite E4, <- Ea.
    pose proof (Z.div_mod (sval k a) (B k) ltac:(lia)) as D.
    replace (- sval k a) with (- (sval k a mod B k) + (- (sval k a / B k)) * B k) by lia.
    rewrite Z.mod_add by lia. reflexivity.
Qed.
