(* lsquare / square: b^2 exactly (double size) and modulo B k. *)
From Coq Require Import ZArith Lia Bool.
From C06 Require Import Model ProofsBase ProofsRepr ProofsAdd ProofsBits ProofsShift ProofsMul ProofsKara ProofsMulTop.
Local Open Scope Z_scope.
Ltac Zify.zify_post_hook ::= Z.div_mod_to_equations.

Lemma highest_bit_spec k : forall x, wf k x -> highest_bit k x = (B k <=? 2 * val k x).
Proof.
  induction k as [|k IH]; intros x Hx.
  - cbn [highest_bit wf val B] in *. rewrite W_eq in *.
    destruct (Z.leb_spec 9223372036854775808 x), (Z.leb_spec 18446744073709551616 (2 * x)); try reflexivity; lia.
  - destruct x as [xl xh]. destruct Hx as [Hl Hh]. cbn [highest_bit fst snd] in *. rewrite (IH xh Hh), val_S, B_S. cbn [fst snd].
    pose proof (val_range _ _ Hl). pose proof (val_range _ _ Hh). pose proof (B_pos k). destruct (B_even k) as (hb & Ehb & Hhb).
    destruct (Z.leb_spec (B k) (2 * val k xh)), (Z.leb_spec (B k * B k) (2 * (val k xl + B k * val k xh))); try reflexivity; exfalso.
    + nia.
    + assert (2 * val k xh <= B k - 2) by lia. nia.
Qed.

Definition lsq_ok k (f : ru k -> ru k * ru k) := forall b, wf k b ->
  wf k (fst (f b)) /\ wf k (snd (f b)) /\ val k (fst (f b)) + B k * val k (snd (f b)) = val k b * val k b.

Lemma lsquare_ok thr k : lsq_ok k (lsquare thr k).
Proof.
  induction k as [|k IH]; intros b Hb.
  - cbn [lsquare]. apply (lmul_naive_ok thr 0 b b Hb Hb).
  - destruct b as [bl bh]. destruct Hb as [Hbl Hbh]. cbn [lsquare fst snd].
    pose proof (lmul_okk thr k bh bl Hbh Hbl) as (Wm0 & Wm1 & Em). destruct (lmul thr k bh bl) as [m0 m1]. cbn [fst snd] in *.
    pose proof (IH bh Hbh) as (Wh0 & Wh1 & Eh). destruct (lsquare thr k bh) as [h0 h1]. cbn [fst snd] in *.
    pose proof (IH bl Hbl) as (Wl0 & Wl1 & El). destruct (lsquare thr k bl) as [l0 l1]. cbn [fst snd] in *.
    pose proof (highest_bit_spec (S k) (m0, m1) (conj Wm0 Wm1)) as Ehb. cbn [fst snd] in Ehb.
    pose proof (shl1_spec (S k) (m0, m1) (conj Wm0 Wm1)) as (Wn & En).
    destruct (shl1 (S k) (m0, m1)) as [[n0 n1] z]. destruct Wn as [Wn0 Wn1]. cbn [fst snd] in *.
    set (rbb := highest_bit (S k) (m0, m1)) in *.
    pose proof (add_c_spec k l1 n0 Wl1 Wn0) as (Walhi & E1). destruct (add_c k l1 n0) as [alhi ralb]. cbn [fst snd] in *.
    pose proof (add_c_spec k h0 n1 Wh0 Wn1) as (Wahlo & E2). destruct (add_c k h0 n1) as [ahlo rbah]. cbn [fst snd] in *.
    rewrite !(val_S k) in *. cbn [fst snd] in *. rewrite B_S in *.
    pose proof (B_pos k) as HB.
    pose proof (val_range _ _ Wm0) as Rm0. pose proof (val_range _ _ Wm1) as Rm1.
    pose proof (val_range _ _ Wn0) as Rn0. pose proof (val_range _ _ Wn1) as Rn1.
    pose proof (b2z_range z) as Rz.
    (* the bit lost by the doubling is the bit tested before it *)
    assert (Ez : b2z rbb = b2z z).
    { subst rbb. rewrite Ehb. destruct (Z.leb_spec (B k * B k) (2 * (val k m0 + B k * val k m1))); cbn [b2z]; clear - En Rn0 Rn1 Rz HB H; nia. }
    (* if (ralb) add_1(a.High) *)
    match goal with |- context [?t] => match t with (if ralb then _ else _) => set (Y := t) in * end end.
    assert (HY : wf (S k) Y /\ exists c1, 0 <= c1 <= 1 /\
               val k (fst Y) + B k * val k (snd Y) + B k * B k * c1 = val k ahlo + B k * val k h1 + b2z ralb).
    { subst Y. destruct ralb; cbn [b2z].
      - pose proof (add_1_spec (S k) (ahlo, h1) (conj Wahlo Wh1)) as (Wa & Ea). split; [exact Wa|].
        exists (b2z (snd (add_1 (S k) (ahlo, h1)))). split; [apply b2z_range|].
        rewrite !val_S, B_S in Ea. cbn [fst snd] in Ea. exact Ea.
      - split; [split; assumption|]. exists 0. cbn [fst snd]. lia. }
    clearbody Y. destruct HY as ([Wy0 Wy1] & c1 & Rc1 & E3). destruct Y as [y0 y1]. cbn [fst snd] in *.
    pose proof (val_range _ _ Wy1) as Ry1.
    (* if (rbah || rbb) add(a.High.High, rbah + rbb) *)
    match goal with |- context [?t] => match t with (if rbah || rbb then _ else _) => set (Y := t) in * end end.
    assert (HY : exists hi c2, Y = (y0, hi) /\ wf k hi /\ 0 <= c2 <= 1 /\
               val k hi + B k * c2 = val k y1 + b2z rbah + b2z rbb).
    { subst Y. destruct (rbah || rbb) eqn:Eor.
      - assert (Hc : 0 <= b2z rbah + b2z rbb < W) by (rewrite W_eq; destruct rbah, rbb; cbn; lia).
        pose proof (add_w_spec k y1 (b2z rbah + b2z rbb) Wy1 Hc) as (Ww & Ew).
        exists (fst (add_w k y1 (b2z rbah + b2z rbb))), (b2z (snd (add_w k y1 (b2z rbah + b2z rbb)))).
        split; [reflexivity|]. split; [exact Ww|]. split; [apply b2z_range|]. lia.
      - apply orb_false_iff in Eor. destruct Eor as [E1' E2']. rewrite E1', E2'. cbn [b2z].
        exists y1, 0. split; [reflexivity|]. split; [exact Wy1|]. split; [lia|]. lia. }
    clearbody Y. destruct HY as (hi & c2 & -> & Whi & Rc2 & Evhi). cbn [fst snd].
    split; [split; assumption|]. split; [split; assumption|].
    rewrite ?(val_S k); cbn [fst snd].
    pose proof (val_range _ _ Whi) as Rhi. pose proof (val_range _ _ Wl0) as Rl0. pose proof (val_range _ _ Walhi) as Ralhi.
    pose proof (val_range _ _ Wy0) as Ry0.
    pose proof (val_range _ _ Hbl) as Rbl. pose proof (val_range _ _ Hbh) as Rbh.
    assert (Hid : val k l0 + B k * val k alhi + B k * B k * (val k y0 + B k * val k hi)
                  + (B k * B k) * (B k * B k) * (c1 + c2)
                  = (val k bl + B k * val k bh) * (val k bl + B k * val k bh) + 0).
    { rewrite Ez in Evhi. clear - Em Eh El En E1 E2 E3 Evhi.
      mulhyp Em (2 * B k). mulhyp Eh (B k * B k). mulhyp En (B k). mulhyp E1 (B k). mulhyp E2 (B k * B k).
      mulhyp E3 (B k * B k). mulhyp Evhi (B k * B k * B k). lia. }
    assert (HS : c1 + c2 = 0).
    { apply (carry_0 (B k * B k) (val k l0 + B k * val k alhi + B k * B k * (val k y0 + B k * val k hi)) _
               (val k bl + B k * val k bh) (val k bl + B k * val k bh) 0);
        [clear - HB; nia | apply pair_range; lia | apply pair_range; lia | clear - HB; nia | apply nonneg4; lia | lia | exact Hid]. }
    rewrite HS in Hid. lia.
Qed.

Lemma square_spec thr k b : wf k b -> wf k (square thr k b) /\ val k (square thr k b) = (val k b * val k b) mod B k.
Proof.
  intros Hb. destruct k as [|k].
  - cbn [square wf val B] in *. rewrite modW_eq. pose proof W_pos. split; [lia | reflexivity].
  - destruct b as [bl bh]. destruct Hb as [Hbl Hbh]. cbn [square fst snd].
    pose proof (mul_spec thr k bh bl Hbh Hbl) as (Wm & Em).
    pose proof (lsquare_ok thr k bl Hbl) as (Wl0 & Wl1 & El). destruct (lsquare thr k bl) as [l0 l1]. cbn [fst snd] in *.
    pose proof (shl1_spec k _ Wm) as (Wn & En). destruct (shl1 k (mul thr k bh bl)) as [n z]. cbn [fst snd] in *.
    pose proof (add_c_spec k l1 n Wl1 Wn) as (Wt & Et). destruct (add_c k l1 n) as [t r]. cbn [fst snd] in *.
    split; [split; assumption|]. rewrite !val_S, B_S. cbn [fst snd].
    pose proof (B_pos k) as HB. pose proof (val_range _ _ Wl0). pose proof (val_range _ _ Wt).
    assert (D1 := Z.div_mod (val k bh * val k bl) (B k) ltac:(lia)). rewrite <- Em in D1.
    set (q1 := val k bh * val k bl / B k) in *.
    apply Z.mod_unique with (q := b2z r + b2z z + 2 * q1 + val k bh * val k bh); [left; nia|].
    clear - D1 El En Et. mulhyp D1 (2 * B k). mulhyp En (B k). mulhyp Et (B k). lia.
Qed.

Definition Lsquare_exact := forall thr k b, wf k b ->
  wf k (fst (lsquare thr k b)) /\ wf k (snd (lsquare thr k b)) /\
  val k (fst (lsquare thr k b)) + B k * val k (snd (lsquare thr k b)) = val k b * val k b.
Definition Square_exact := forall thr k b, wf k b ->
  wf k (square thr k b) /\ val k (square thr k b) = (val k b * val k b) mod B k.
Lemma lsquare_exact : Lsquare_exact. Proof. intros thr k. apply lsquare_ok. Qed.
