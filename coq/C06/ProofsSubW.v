(* sub with a word subtrahend and decrement: exact borrows for every K. *)
From Coq Require Import ZArith Lia Bool.
From C06 Require Import Model ProofsBase ProofsAdd.
Local Open Scope Z_scope.
Ltac Zify.zify_post_hook ::= Z.div_mod_to_equations.

Lemma combine_sub2 k (lo hi r1 r2 X Y : Z) :
  lo - B k * r1 = X -> hi - B k * r2 = Y - r1 ->
  (lo + B k * hi) - B (S k) * r2 = X + B k * Y.
Proof. intros. rewrite B_S. nia. Qed.

Lemma sub_w_spec k : forall b c, wf k b -> 0 <= c < W ->
  wf k (fst (sub_w k b c)) /\
  val k (fst (sub_w k b c)) - B k * b2z (snd (sub_w k b c)) = val k b - c.
Proof.
  induction k as [|k IH]; intros b c Hb Hc.
  - cbn [sub_w wf val B fst snd] in *. rewrite ?modW_eq in *; rewrite W_eq in *. limb_cases; cbn [b2z]; lia.
  - destruct k as [|k].
    + destruct b as [bl bh]. destruct Hb as [Hb1 Hb2].
      cbn [wf fst snd] in *. cbn [sub_w fst snd].
      assert (H0 : 0 <= 0 < W) by (pose proof W_pos; lia).
      pose proof (sub_ddmmss_spec bh bl 0 c Hb2 Hb1 H0 Hc) as H1.
      destruct (sub_ddmmss bh bl 0 c) as [h l]. destruct H1 as (Hh & Hl & E).
      cbn [fst snd]. split; [cbn [wf fst snd]; auto|].
      rewrite !val_S. cbn [val fst snd B b2z]. rewrite W_eq in *.
      limb_cases; cbn [b2z]; lia.
    + destruct b as [bl bh]. destruct Hb as [Hb1 Hb2].
      cbn [fst snd] in *.
      change (sub_w (S (S k)) (bl, bh) c) with
        (let '(lo, r1) := sub_w (S k) bl c in
         let '(hi, r2) := sub_w (S k) bh (b2z r1) in ((lo, hi), r2)).
      pose proof (IH bl c Hb1 Hc) as [W1 E1].
      destruct (sub_w (S k) bl c) as [lo r1]. cbn [fst snd] in *.
      assert (Hr : 0 <= b2z r1 < W) by (rewrite W_eq; destruct r1; cbn; lia).
      pose proof (IH bh (b2z r1) Hb2 Hr) as [W2 E2].
      destruct (sub_w (S k) bh (b2z r1)) as [hi r2]. cbn [fst snd] in *.
      split; [split; assumption|].
      rewrite (val_S (S k) (lo, hi)), (val_S (S k) (bl, bh)). cbn [fst snd].
      match goal with |- _ = ?a + ?b * ?c - ?d => replace (a + b * c - d) with ((a - d) + b * c) by lia end.
      apply combine_sub2 with (r1 := b2z r1); assumption.
Qed.

Lemma sub_1_spec k : forall b, wf k b ->
  wf k (fst (sub_1 k b)) /\
  val k (fst (sub_1 k b)) - B k * b2z (snd (sub_1 k b)) = val k b - 1.
Proof.
  induction k as [|k IH]; intros b Hb.
  - cbn [sub_1 wf val B fst snd] in *. rewrite ?modW_eq in *; rewrite W_eq in *. limb_cases; cbn [b2z]; lia.
  - destruct k as [|k].
    + destruct b as [bl bh]. destruct Hb as [Hb1 Hb2].
      cbn [wf fst snd] in *. cbn [sub_1 fst snd].
      assert (H0 : 0 <= 0 < W) by (pose proof W_pos; lia).
      assert (H01 : 0 <= 1 < W) by (rewrite W_eq; lia).
      pose proof (sub_ddmmss_spec bh bl 0 1 Hb2 Hb1 H0 H01) as H1.
      destruct (sub_ddmmss bh bl 0 1) as [h l]. destruct H1 as (Hh & Hl & E).
      cbn [fst snd]. split; [cbn [wf fst snd]; auto|].
      rewrite !val_S. cbn [val fst snd B b2z]. rewrite W_eq in *.
      limb_cases; cbn [b2z andb]; lia.
    + destruct b as [bl bh]. destruct Hb as [Hb1 Hb2].
      cbn [fst snd] in *.
      change (sub_1 (S (S k)) (bl, bh)) with
        (let '(lo, r1) := sub_1 (S k) bl in
         let '(hi, r2) := sub_w (S k) bh (b2z r1) in ((lo, hi), r2)).
      pose proof (IH bl Hb1) as [W1 E1].
      destruct (sub_1 (S k) bl) as [lo r1]. cbn [fst snd] in *.
      assert (Hr : 0 <= b2z r1 < W) by (rewrite W_eq; destruct r1; cbn; lia).
      pose proof (sub_w_spec (S k) bh (b2z r1) Hb2 Hr) as [W2 E2].
      destruct (sub_w (S k) bh (b2z r1)) as [hi r2]. cbn [fst snd] in *.
      split; [split; assumption|].
      rewrite (val_S (S k) (lo, hi)), (val_S (S k) (bl, bh)). cbn [fst snd].
      match goal with |- _ = ?a + ?b * ?c - ?d => replace (a + b * c - d) with ((a - d) + b * c) by lia end.
      apply combine_sub2 with (r1 := b2z r1); assumption.
Qed.

Lemma val_ones k : wf k (ones k) /\ val k (ones k) = B k - 1.
Proof.
  induction k as [|k [IH1 IH2]].
  - cbn [ones wf val B]. unfold Wm1. rewrite W_eq. lia.
  - cbn [ones]. split; [split; assumption|]. rewrite val_S, B_S. cbn [fst snd]. rewrite IH2. lia.
Qed.

Definition Sub_word_exact := forall k b c, wf k b -> 0 <= c < W ->
  wf k (fst (sub_w k b c)) /\
  val k (fst (sub_w k b c)) = (val k b - c) mod B k /\
  (snd (sub_w k b c) = true <-> val k b < c).
Definition Sub_1_exact := forall k b, wf k b ->
  wf k (fst (sub_1 k b)) /\
  val k (fst (sub_1 k b)) = (val k b - 1) mod B k /\
  (snd (sub_1 k b) = true <-> val k b = 0).
Lemma sub_word_exact : Sub_word_exact.
Proof.
  intros k b c Hb Hc. destruct (sub_w_spec k b c Hb Hc) as [Hw E]. split; [exact Hw|].
  pose proof (val_range _ _ Hw). pose proof (val_range _ _ Hb). pose proof (B_pos k).
  destruct (snd (sub_w k b c)); cbn [b2z] in E.
  - split; [apply Z.mod_unique with (q := -1); [left; lia | lia] | split; [lia | reflexivity]].
  - split; [apply Z.mod_unique with (q := 0); [left; lia | lia] | split; [discriminate | lia]].
Qed.
Lemma sub_1_exact : Sub_1_exact.
Proof.
  intros k b Hb. destruct (sub_1_spec k b Hb) as [Hw E]. split; [exact Hw|].
  pose proof (val_range _ _ Hw). pose proof (val_range _ _ Hb). pose proof (B_pos k).
  destruct (snd (sub_1 k b)); cbn [b2z] in E.
  - split; [apply Z.mod_unique with (q := -1); [left; lia | lia] | split; [lia | reflexivity]].
  - split; [apply Z.mod_unique with (q := 0); [left; lia | lia] | split; [discriminate | lia]].
Qed.
