(* reclonglong.h, __recint_udiv_qrnnd_c (the NO_ASM 2-by-1 limb division on 32-bit half limbs):
   for a normalised divisor d and n1 < d it returns the exact quotient and remainder of n1*2^64 + n0 by d. *)
From Coq Require Import ZArith Lia Bool.
From C06 Require Import Model ProofsBase ProofsBits ProofsDivBase.
Local Open Scope Z_scope.
Ltac Zify.zify_post_hook ::= Z.div_mod_to_equations.

Lemma HB_eq : HB = 4294967296. Proof. reflexivity. Qed.
Lemma W_HB : W = HB * HB. Proof. rewrite W_eq, HB_eq. reflexivity. Qed.

Lemma lor_half hi lo : 0 <= hi < HB -> 0 <= lo < HB -> Z.lor (modW (hi * HB)) lo = hi * HB + lo.
Proof.
  intros Hhi Hlo. rewrite modW_small by (rewrite W_HB; nia).
  rewrite Z.lor_comm, (Z.mul_comm hi HB). change HB with (2 ^ 32) at 1 2.
  rewrite lor_disjoint_Z; [lia | lia | change (2 ^ 32) with HB; lia | lia].
Qed.

Lemma udiv_half_ok r np d d1 d0 :
  d = d1 * HB + d0 -> HB <= 2 * d1 -> d1 < HB -> 0 <= d0 < HB -> 0 <= r < d -> 0 <= np < HB ->
  let '(q, r') := udiv_half r np d d1 d0 in
  0 <= q < HB /\ 0 <= r' < d /\ r * HB + np = q * d + r'.
Proof.
  intros Ed Hn Hd1 Hd0 Hr Hnp. unfold udiv_half.
  assert (Hd1p : 0 < d1) by (rewrite HB_eq in *; lia).
  pose proof (Z.div_mod r d1 ltac:(lia)) as Er. pose proof (Z.mod_pos_bound r d1 Hd1p) as Rr1.
  set (q := r / d1) in *. set (r1 := r mod d1) in *.
  assert (Hq0 : 0 <= q) by (apply Z.div_pos; lia).
  assert (Hq : q <= HB + 1).
  { destruct (Z.le_gt_cases q (HB + 1)); [assumption|exfalso]. rewrite HB_eq in *. clear - Er Rr1 Hr Ed Hn Hd0 H Hd1p. nia. }
  assert (Er1 : r - q * d1 = r1) by lia.
  rewrite Er1.
  set (M := q * d0) in *.
  assert (RM : 0 <= M < W) by (subst M; rewrite W_eq; rewrite HB_eq in *; clear - Hq0 Hq Hd0; nia).
  assert (Eqd : q * d = (r - r1) * HB + M) by (subst M; rewrite Ed; lia).
  assert (Hqf : forall qf rf, r * HB + np = qf * d + rf -> 0 <= rf < d -> 0 <= qf < HB).
  { intros qf rf E R. rewrite HB_eq in *. clear - E R Hr Hnp. split; nia. }
  assert (Hq1 : r1 * HB + np < M -> 1 <= q).
  { intros Hneg. destruct (Z.le_gt_cases 1 q); [assumption|exfalso]. assert (E0 : q = 0) by lia. subst M. rewrite E0 in *. rewrite HB_eq in *. lia. }
  assert (Hq2 : r1 * HB + np + d < M -> 2 <= q).
  { intros Hneg. destruct (Z.le_gt_cases 2 q); [assumption|exfalso]. specialize (Hq1 ltac:(lia)). assert (E1 : q = 1) by lia. rewrite E1 in *. rewrite HB_eq in *. lia. }
  rewrite (modW_small r1) by (rewrite W_eq; rewrite HB_eq in *; lia).
  rewrite lor_half by (rewrite HB_eq in *; lia).
  rewrite (modW_small M) by assumption.
  (* from here on everything is linear: M, q*d are atoms *)
  set (QD := q * d) in *.
  assert (Hlin : forall j, (q - j) * d = QD - j * d) by (intros; subst QD; ring).
  rewrite W_eq in *. rewrite HB_eq in *.
  destruct (Z.ltb_spec (r1 * 4294967296 + np) M) as [Hneg|Hpos].
  - specialize (Hq1 Hneg).
    rewrite (modW_small (q - 1)) by (rewrite W_eq; lia).
    set (V1 := r1 * 4294967296 + np + d) in *.
    destruct (Z.le_gt_cases 18446744073709551616 V1) as [Hwrap|Hnowrap].
    + rewrite (modW_add V1) by (rewrite W_eq; subst V1; lia).
      rewrite W_eq. destruct (Z.leb_spec d (V1 - 18446744073709551616)) as [Hc|Hc]; [subst V1; lia|]. cbn [andb].
      rewrite (modW_sub (V1 - 18446744073709551616 - M)) by (rewrite W_eq; subst V1; lia). rewrite W_eq.
      assert (Efin : r * 4294967296 + np = (q - 1) * d + (V1 - 18446744073709551616 - M + 18446744073709551616)) by (rewrite Hlin; subst V1; lia).
      pose proof (Hqf _ _ Efin ltac:(subst V1; lia)). split; [lia|]. split; [subst V1; lia | exact Efin].
    + rewrite (modW_small V1) by (rewrite W_eq; subst V1; lia).
      destruct (Z.leb_spec d V1) as [Hc|Hc]; [|subst V1; lia]. cbn [andb].
      destruct (Z.ltb_spec V1 M) as [Hneg2|Hpos2].
      * specialize (Hq2 Hneg2).
        rewrite (modW_small (q - 1 - 1)) by (rewrite W_eq; lia).
        set (V2 := V1 + d) in *.
        assert (Efin : r * 4294967296 + np = (q - 1 - 1) * d + (V2 - M)) by (replace (q - 1 - 1) with (q - 2) by lia; rewrite Hlin; subst V2 V1; lia).
        assert (RV2 : 0 <= V2 - M < d) by (subst V2 V1; lia).
        pose proof (Hqf _ _ Efin RV2).
        destruct (Z.le_gt_cases 18446744073709551616 V2) as [Hw2|Hw2].
        -- rewrite (modW_add V2) by (rewrite W_eq; subst V2 V1; lia). rewrite W_eq.
           rewrite (modW_sub (V2 - 18446744073709551616 - M)) by (rewrite W_eq; lia). rewrite W_eq.
           replace (V2 - 18446744073709551616 - M + 18446744073709551616) with (V2 - M) by lia. split; [lia|]. split; [lia | exact Efin].
        -- rewrite (modW_small V2) by (rewrite W_eq; subst V2 V1; lia). rewrite (modW_small (V2 - M)) by (rewrite W_eq; lia).
           split; [lia|]. split; [lia | exact Efin].
      * rewrite (modW_small (V1 - M)) by (rewrite W_eq; subst V1; lia).
        assert (Efin : r * 4294967296 + np = (q - 1) * d + (V1 - M)) by (rewrite Hlin; subst V1; lia).
        pose proof (Hqf _ _ Efin ltac:(subst V1; lia)). split; [lia|]. split; [subst V1; lia | exact Efin].
  - rewrite (modW_small (r1 * 4294967296 + np - M)) by (rewrite W_eq; lia).
    assert (EX : r * 4294967296 + np = q * d + (r1 * 4294967296 + np - M)) by (fold QD; lia).
    pose proof (Hqf _ _ EX ltac:(lia)). split; [lia|]. split; [lia | exact EX].
Qed.

Lemma udiv_qrnnd_ok : udiv_ok udiv_qrnnd.
Proof.
  intros n1 n0 d Hn1 Hn0 HdW Hnorm. unfold udiv_qrnnd.
  assert (HHB : 0 < HB) by (rewrite HB_eq; lia).
  assert (E1 : Z.shiftr d 32 = d / HB) by (rewrite Z.shiftr_div_pow2 by lia; reflexivity).
  assert (E0 : Z.land d (HB - 1) = d mod HB) by (change (HB - 1) with (Z.ones 32); rewrite Z.land_ones by lia; reflexivity).
  assert (F1 : Z.shiftr n0 32 = n0 / HB) by (rewrite Z.shiftr_div_pow2 by lia; reflexivity).
  assert (F0 : Z.land n0 (HB - 1) = n0 mod HB) by (change (HB - 1) with (Z.ones 32); rewrite Z.land_ones by lia; reflexivity).
  rewrite E1, E0, F1, F0.
  pose proof (Z.div_mod d HB ltac:(lia)) as Ed. pose proof (Z.mod_pos_bound d HB HHB) as Rd0.
  pose proof (Z.div_mod n0 HB ltac:(lia)) as En. pose proof (Z.mod_pos_bound n0 HB HHB) as Rn0.
  set (d1 := d / HB) in *. set (d0 := d mod HB) in *. set (nh := n0 / HB) in *. set (nl := n0 mod HB) in *.
  assert (Hd1 : HB <= 2 * d1 /\ d1 < HB) by (rewrite W_eq, HB_eq in *; clear - Ed Rd0 HdW Hnorm; lia).
  assert (Rnh : 0 <= nh < HB) by (rewrite W_eq, HB_eq in *; clear - En Rn0 Hn0; lia).
  assert (Ed' : d = d1 * HB + d0) by lia.
  pose proof (udiv_half_ok n1 nh d d1 d0 Ed' (proj1 Hd1) (proj2 Hd1) Rd0 Hn1 Rnh) as H1.
  destruct (udiv_half n1 nh d d1 d0) as [q1 r1]. destruct H1 as (Rq1 & Rr1 & Eq1).
  pose proof (udiv_half_ok r1 nl d d1 d0 Ed' (proj1 Hd1) (proj2 Hd1) Rd0 Rr1 Rn0) as H0.
  destruct (udiv_half r1 nl d d1 d0) as [q0 r0]. destruct H0 as (Rq0 & Rr0 & Eq0).
  cbn [fst snd]. rewrite lor_half by lia.
  rewrite W_eq, HB_eq in *.
  split; [lia|]. split; [lia|].
  rewrite En. clear - Eq1 Eq0. lia.
Qed.
