(* reclonglong.h, __recint_udiv_qrnnd_c (the NO_ASM 2-by-1 limb division on 32-bit half limbs):
   for a normalised divisor d and n1 < d it returns the exact quotient and remainder of n1*2^64 + n0 by d. *)
From Coq Require Import ZArith Lia Bool.
From C06 Require Import Model ProofsBase ProofsBits ProofsDivBase.
Local Open Scope Z_scope.
Ltac Zify.zify_post_hook ::= Z.div_mod_to_equations.

Lemma HB_eq : HB = 4294967296. Proof. reflexivity. Qed.
Lemma W_HB : W = HB * HB. Proof. rewrite W_eq, HB_eq. reflexivity. Qed.

Lemma lor_half hi lo : 0 <= hi < HB -> 0 <= lo < HB -> Z.lor (modW (hi * HB)) lo = hi * HB + lo.
Proof.
  intros Hhi Hlo. rewrite modW_small by (rewrite W_HB; nia).
  rewrite Z.lor_comm, (Z.mul_comm hi HB). change HB with (2 ^ 32) at 1 2.
  rewrite lor_disjoint_Z; [lia | lia | change (2 ^ 32) with HB; lia | lia].
Qed.

Lemma udiv_half_ok r np d d1 d0 :
  d = d1 * HB + d0 -> HB <= 2 * d1 -> d1 < HB -> 0 <= d0 < HB -> 0 <= r < d -> 0 <= np < HB ->
  let '(q, r') := udiv_half r np d d1 d0 in
  0 <= q < HB /\ 0 <= r' < d /\ r * HB + np = q * d + r'.
Proof.
  intros Ed Hn Hd1 Hd0 Hr Hnp. unfold udiv_half.
  assert (HHB : 0 < HB) by (rewrite HB_eq; lia).
  assert (Hd1p : 0 < d1) by lia.
  pose proof (Z.div_mod r d1 ltac:(lia)) as Er. pose proof (Z.mod_pos_bound r d1 Hd1p) as Rr1.
  set (q := r / d1) in *. set (r1 := r mod d1) in *.
  assert (Hq0 : 0 <= q) by (apply Z.div_pos; lia).
  assert (Hq : q <= HB + 1).
  { destruct (Z.le_gt_cases q (HB + 1)); [assumption|exfalso]. clear - Er Rr1 Hr Ed Hn Hd0 H Hd1p HHB. nia. }
  assert (Er1 : r - q * d1 = r1) by lia.
  rewrite Er1. rewrite (modW_small r1) by (rewrite W_HB; nia).
  set (M := q * d0) in *.
  assert (RM : 0 <= M < W) by (subst M; rewrite W_HB; clear - Hq0 Hq Hd0 HHB; nia).
  rewrite (modW_small M) by assumption.
  rewrite lor_half by lia.
  assert (Eqd : q * d = (r - r1) * HB + M) by (subst M; rewrite Ed; lia).
  set (X := r1 * HB + np - M) in *.
  assert (HW2 : W <= 2 * d) by (rewrite W_HB, Ed; nia).
  assert (HdW : d < W) by (rewrite W_HB, Ed; nia).
  assert (RX : - (2 * d) < X < d) by (subst X; rewrite Ed; nia).
  assert (EX : r * HB + np = q * d + X) by (subst X; lia).
  assert (Hqf : forall qf rf, r * HB + np = qf * d + rf -> 0 <= rf < d -> 0 <= qf < HB).
  { intros qf rf E R. clear - E R Hr Hnp HHB. split; nia. }
  assert (Rlo : 0 <= r1 * HB + np < W) by (rewrite W_HB; nia).
  destruct (Z.ltb_spec (r1 * HB + np) M) as [Hneg|Hpos].
  - (* X < 0: first correction *)
    assert (Hq1 : 1 <= q).
    { destruct (Z.le_gt_cases 1 q); [assumption|exfalso]. assert (q = 0) by lia. subst M. rewrite H0 in *. lia. }
    rewrite (modW_small (q - 1)) by (rewrite W_HB; nia).
    set (V1 := r1 * HB + np + d) in *.
    destruct (Z.le_gt_cases W V1) as [Hwrap|Hnowrap].
    + (* the addition wrapped: the remainder is already non-negative *)
      rewrite (modW_add V1) by lia.
      destruct (Z.leb_spec d (V1 - W)) as [Hc|Hc]; [lia|]. cbn [andb].
      rewrite (modW_sub (V1 - W - M)) by lia.
      assert (Efin : r * HB + np = (q - 1) * d + (V1 - W - M + W)) by (subst V1 X; lia).
      pose proof (Hqf _ _ Efin ltac:(subst V1 X; lia)). split; [lia|]. split; [subst V1 X; lia | exact Efin].
    + rewrite (modW_small V1) by (subst V1; lia).
      destruct (Z.leb_spec d V1) as [Hc|Hc]; [|subst V1; lia]. cbn [andb].
      destruct (Z.ltb_spec V1 M) as [Hneg2|Hpos2].
      * (* second correction *)
        assert (Hq2 : 2 <= q).
        { destruct (Z.le_gt_cases 2 q); [assumption|exfalso]. assert (q = 1) by lia. rewrite H0 in *. subst V1 X. lia. }
        rewrite (modW_small (q - 1 - 1)) by (rewrite W_HB; nia).
        set (V2 := V1 + d) in *.
        assert (Efin : r * HB + np = (q - 1 - 1) * d + (V2 - M)) by (subst V2 V1 X; lia).
        assert (RV2 : 0 <= V2 - M < d) by (subst V2 V1 X; lia).
        pose proof (Hqf _ _ Efin RV2).
        destruct (Z.le_gt_cases W V2) as [Hw2|Hw2].
        -- rewrite (modW_add V2) by (subst V2 V1; lia). rewrite (modW_sub (V2 - W - M)) by lia.
           replace (V2 - W - M + W) with (V2 - M) by lia. split; [lia|]. split; [lia | exact Efin].
        -- rewrite (modW_small V2) by (subst V2 V1; lia). rewrite (modW_small (V2 - M)) by lia.
           split; [lia|]. split; [lia | exact Efin].
      * rewrite (modW_small (V1 - M)) by lia.
        assert (Efin : r * HB + np = (q - 1) * d + (V1 - M)) by (subst V1 X; lia).
        pose proof (Hqf _ _ Efin ltac:(subst V1 X; lia)). split; [lia|]. split; [subst V1 X; lia | exact Efin].
  - rewrite (modW_small (r1 * HB + np - M)) by lia.
    pose proof (Hqf _ _ EX ltac:(subst X; lia)). split; [lia|]. split; [subst X; lia | exact EX].
Qed.

Lemma udiv_qrnnd_ok : udiv_ok udiv_qrnnd.
Proof.
  intros n1 n0 d Hn1 Hn0 HdW Hnorm. unfold udiv_qrnnd.
  assert (HHB : 0 < HB) by (rewrite HB_eq; lia).
  assert (E1 : Z.shiftr d 32 = d / HB) by (rewrite Z.shiftr_div_pow2 by lia; reflexivity).
  assert (E0 : Z.land d (HB - 1) = d mod HB) by (change (HB - 1) with (Z.ones 32); rewrite Z.land_ones by lia; reflexivity).
  assert (F1 : Z.shiftr n0 32 = n0 / HB) by (rewrite Z.shiftr_div_pow2 by lia; reflexivity).
  assert (F0 : Z.land n0 (HB - 1) = n0 mod HB) by (change (HB - 1) with (Z.ones 32); rewrite Z.land_ones by lia; reflexivity).
  rewrite E1, E0, F1, F0.
  pose proof (Z.div_mod d HB ltac:(lia)) as Ed. pose proof (Z.mod_pos_bound d HB HHB) as Rd0.
  pose proof (Z.div_mod n0 HB ltac:(lia)) as En. pose proof (Z.mod_pos_bound n0 HB HHB) as Rn0.
  set (d1 := d / HB) in *. set (d0 := d mod HB) in *. set (nh := n0 / HB) in *. set (nl := n0 mod HB) in *.
  rewrite W_HB in *.
  assert (Hd1 : HB <= 2 * d1 /\ d1 < HB) by (clear - Ed Rd0 HdW Hnorm HHB; nia).
  assert (Rnh : 0 <= nh < HB) by (clear - En Rn0 Hn0 HHB; nia).
  assert (Ed' : d = d1 * HB + d0) by lia.
  pose proof (udiv_half_ok n1 nh d d1 d0 Ed' (proj1 Hd1) (proj2 Hd1) Rd0 Hn1 Rnh) as H1.
  destruct (udiv_half n1 nh d d1 d0) as [q1 r1]. destruct H1 as (Rq1 & Rr1 & Eq1).
  pose proof (udiv_half_ok r1 nl d d1 d0 Ed' (proj1 Hd1) (proj2 Hd1) Rd0 Rr1 Rn0) as H0.
  destruct (udiv_half r1 nl d d1 d0) as [q0 r0]. destruct H0 as (Rq0 & Rr0 & Eq0).
  cbn [fst snd]. rewrite lor_half by lia.
  split; [clear - Rq1 Rq0 HHB; nia|]. split; [lia|].
  rewrite En. clear - Eq1 Eq0. mulhyp Eq1 HB. lia.
Qed.
