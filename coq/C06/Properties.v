(* C06 property theorems.  Nothing but statements closed by `exact`, each followed by Print Assumptions.
   k = K - 6; B k = 2^(2^K); val is the integer a limb tree denotes; wf = every limb in [0, 2^64);
   thr = __RECINT_THRESHOLD_KARA - 6 (every theorem holds for every threshold). *)
From Coq Require Import ZArith.
From C06 Require Import Model ProofsBase ProofsRepr ProofsAdd ProofsBits ProofsShift ProofsMul ProofsKara ProofsMulTop ProofsSubW ProofsDiv ProofsDivTop ProofsDivFinal ProofsModn ProofsSquare ProofsExp ProofsArazi ProofsGcd ProofsInvMod ProofsBezout ProofsSigned ProofsMisc ProofsLimbs ProofsMisc2 ProofsAlias ProofsProps.
Local Open Scope Z_scope.

Theorem C06_representation : Repr_exact.            Proof. exact repr_exact. Qed.
Print Assumptions C06_representation.
Theorem C06_wrappers_faithful : Wrappers_faithful.  Proof. exact wrappers_faithful. Qed.
Print Assumptions C06_wrappers_faithful.
Theorem C06_add_carry_exact : Add_exact.            Proof. exact add_exact. Qed.
Print Assumptions C06_add_carry_exact.
Theorem C06_add_with_carry_in_exact : Add_wc_exact. Proof. exact add_wc_exact. Qed.
Print Assumptions C06_add_with_carry_in_exact.
Theorem C06_add_word_exact : Add_word_exact.        Proof. exact add_word_exact. Qed.
Print Assumptions C06_add_word_exact.
Theorem C06_increment_exact : Add_1_exact.          Proof. exact add_1_exact. Qed.
Print Assumptions C06_increment_exact.
Theorem C06_sub_borrow_exact : Sub_exact.           Proof. exact sub_exact. Qed.
Print Assumptions C06_sub_borrow_exact.
Theorem C06_sub_with_borrow_in_exact : Sub_wc_exact. Proof. exact sub_wc_exact. Qed.
Print Assumptions C06_sub_with_borrow_in_exact.
Theorem C06_compare_exact : Cmp_exact.              Proof. exact cmp_spec. Qed.
Print Assumptions C06_compare_exact.
Theorem C06_lmul_naive_exact : Lmul_exact lmul_naive. Proof. exact lmul_naive_exact. Qed.
Print Assumptions C06_lmul_naive_exact.
Theorem C06_lmul_karatsuba_exact : Lmul_exact lmul_kara. Proof. exact lmul_kara_exact. Qed.
Print Assumptions C06_lmul_karatsuba_exact.
Theorem C06_lmul_exact : Lmul_exact lmul.           Proof. exact lmul_exact. Qed.
Print Assumptions C06_lmul_exact.
Theorem C06_karatsuba_equals_naive : Kara_eq_naive. Proof. exact lmul_kara_eq_naive. Qed.
Print Assumptions C06_karatsuba_equals_naive.
Theorem C06_laddmul_exact : Laddmul_exact.          Proof. exact laddmul_exact. Qed.
Print Assumptions C06_laddmul_exact.
Theorem C06_laddmul_wide_addend_exact : Laddmul2_exact. Proof. exact laddmul2_exact. Qed.
Print Assumptions C06_laddmul_wide_addend_exact.
Theorem C06_mul_truncated_exact : Mul_exact.        Proof. exact mul_spec. Qed.
Print Assumptions C06_mul_truncated_exact.
Theorem C06_addmul_exact : Addmul_exact.            Proof. exact addmul_spec. Qed.
Print Assumptions C06_addmul_exact.
Theorem C06_bit_operations_exact : Bitops_exact.    Proof. exact bitops_exact. Qed.
Print Assumptions C06_bit_operations_exact.
Theorem C06_shift_left_exact : Shl_exact.           Proof. exact shl_exact. Qed.
Print Assumptions C06_shift_left_exact.
Theorem C06_shift_right_exact : Shr_exact.          Proof. exact shr_exact. Qed.
Print Assumptions C06_shift_right_exact.
Theorem C06_shift_by_one_exact : Shift1_exact.      Proof. exact shift1_exact. Qed.
Print Assumptions C06_shift_by_one_exact.
Theorem C06_shift_left_widening_exact : Shl_ext_exact. Proof. exact shl_ext_exact. Qed.
Print Assumptions C06_shift_left_widening_exact.
Theorem C06_sub_word_exact : Sub_word_exact.        Proof. exact sub_word_exact. Qed.
Print Assumptions C06_sub_word_exact.
Theorem C06_decrement_exact : Sub_1_exact.          Proof. exact sub_1_exact. Qed.
Print Assumptions C06_decrement_exact.
Theorem C06_limb_division_exact : Udiv_exact.       Proof. exact udiv_exact. Qed.
Print Assumptions C06_limb_division_exact.
Theorem C06_div_3_by_2_exact : Div32_exact.         Proof. exact div32_exact. Qed.
Print Assumptions C06_div_3_by_2_exact.
Theorem C06_div_2_by_1_exact : Div21_exact.         Proof. exact div21_exact. Qed.
Print Assumptions C06_div_2_by_1_exact.
Theorem C06_normalization_exact : Norm_exact.       Proof. exact norm_exact. Qed.
Print Assumptions C06_normalization_exact.
Theorem C06_euclidean_division_exact : Div_exact.   Proof. exact div_exact. Qed.
Print Assumptions C06_euclidean_division_exact.
Theorem C06_mod_double_size_exact : Mod_n_exact.    Proof. exact mod_n_exact. Qed.
Print Assumptions C06_mod_double_size_exact.
Theorem C06_lsquare_exact : Lsquare_exact.          Proof. exact lsquare_exact. Qed.
Print Assumptions C06_lsquare_exact.
Theorem C06_square_truncated_exact : Square_exact.  Proof. exact square_spec. Qed.
Print Assumptions C06_square_truncated_exact.
Theorem C06_exp_mod_exact : Exp_mod_exact.          Proof. exact exp_mod_exact. Qed.
Print Assumptions C06_exp_mod_exact.
Theorem C06_exp_mod_word_exponent_exact : Exp_mod_word_exact. Proof. exact exp_mod_word_exact. Qed.
Print Assumptions C06_exp_mod_word_exponent_exact.
Theorem C06_inverse_mod_power_of_two_exact : Arazi_exact. Proof. exact arazi_exact. Qed.
Print Assumptions C06_inverse_mod_power_of_two_exact.
Theorem C06_gcd_exact : Gcd_exact.                  Proof. exact gcd_exact. Qed.
Print Assumptions C06_gcd_exact.
Theorem C06_inverse_modulo_exact : Inv_mod_exact.   Proof. exact inv_mod_exact. Qed.
Print Assumptions C06_inverse_modulo_exact.
Theorem C06_signed_compare_exact : Scmp_exact.      Proof. exact scmp_exact. Qed.
Print Assumptions C06_signed_compare_exact.
Theorem C06_signed_div_q_exact : Sdiv_q_exact.      Proof. exact sdiv_q_exact. Qed.
Print Assumptions C06_signed_div_q_exact.
Theorem C06_signed_div_r_exact : Sdiv_r_exact.      Proof. exact sdiv_r_exact. Qed.
Print Assumptions C06_signed_div_r_exact.
Theorem C06_signed_lmul_exact : Slmul_exact.        Proof. exact slmul_exact. Qed.
Print Assumptions C06_signed_lmul_exact.
Theorem C06_signed_lsquare_exact : Slsquare_exact.  Proof. exact slsquare_exact. Qed.
Print Assumptions C06_signed_lsquare_exact.
Theorem C06_sign_extension_exact : Sext_exact.      Proof. exact sext_exact. Qed.
Print Assumptions C06_sign_extension_exact.
Theorem C06_signed_shift_right_exact : Sshr_exact.  Proof. exact sshr_exact. Qed.
Print Assumptions C06_signed_shift_right_exact.
Theorem C06_rint_to_mpz_exact : Rint_to_mpz_exact.  Proof. exact rint_to_mpz_exact. Qed.
Print Assumptions C06_rint_to_mpz_exact.
Theorem C06_signed_ring_ops_exact : Signed_ring_ops_exact. Proof. exact signed_ring_ops_exact. Qed.
Print Assumptions C06_signed_ring_ops_exact.
Theorem C06_bezout_mod_exact : Bezout_mod_exact.    Proof. exact bezout_mod_exact. Qed.
Print Assumptions C06_bezout_mod_exact.
Theorem C06_lmul_word_exact : Lmul_word_exact.      Proof. exact lmul_word_exact. Qed.
Print Assumptions C06_lmul_word_exact.
Theorem C06_signed_mod_n_exact : Smod_n_exact.      Proof. exact smod_n_exact. Qed.
Print Assumptions C06_signed_mod_n_exact.
Theorem C06_limb_access_exact : Limb_access_exact.  Proof. exact limb_access_exact. Qed.
Print Assumptions C06_limb_access_exact.
Theorem C06_mpz_to_ruint_exact : Mpz_to_ruint_exact. Proof. exact mpz_to_ruint_exact. Qed.
Print Assumptions C06_mpz_to_ruint_exact.
Theorem C06_rint_conversion_lossless : Rint_conversion_exact. Proof. exact rint_conversion_exact. Qed.
Print Assumptions C06_rint_conversion_lossless.
Theorem C06_div_native_word_exact : Div_word_exact. Proof. exact div_word_exact. Qed.
Print Assumptions C06_div_native_word_exact.
Theorem C06_signed_inverse_modulo_exact : Sinv_mod_exact. Proof. exact sinv_mod_exact. Qed.
Print Assumptions C06_signed_inverse_modulo_exact.
Theorem C06_lmul_in_place_alias_safe : Lmul_in_place_safe. Proof. exact lmul_in_place_safe. Qed.
Print Assumptions C06_lmul_in_place_alias_safe.
