(* C06 property theorems.  Nothing but statements closed by `exact`, each followed by Print Assumptions.
   k = K - 6; B k = 2^(2^K); val is the integer a limb tree denotes; wf = every limb in [0, 2^64). *)
From Coq Require Import ZArith.
From C06 Require Import Model ProofsBase ProofsAdd ProofsProps.
Local Open Scope Z_scope.

Theorem C06_representation : Repr_exact.            Proof. exact repr_exact. Qed.
Print Assumptions C06_representation.
Theorem C06_add_carry_exact : Add_exact.            Proof. exact add_exact. Qed.
Print Assumptions C06_add_carry_exact.
Theorem C06_add_with_carry_in_exact : Add_wc_exact. Proof. exact add_wc_exact. Qed.
Print Assumptions C06_add_with_carry_in_exact.
Theorem C06_add_word_exact : Add_word_exact.        Proof. exact add_word_exact. Qed.
Print Assumptions C06_add_word_exact.
Theorem C06_increment_exact : Add_1_exact.          Proof. exact add_1_exact. Qed.
Print Assumptions C06_increment_exact.
Theorem C06_sub_borrow_exact : Sub_exact.           Proof. exact sub_exact. Qed.
Print Assumptions C06_sub_borrow_exact.
Theorem C06_sub_with_borrow_in_exact : Sub_wc_exact. Proof. exact sub_wc_exact. Qed.
Print Assumptions C06_sub_with_borrow_in_exact.
Theorem C06_compare_exact : Cmp_exact.              Proof. exact cmp_spec. Qed.
Print Assumptions C06_compare_exact.
