(* C06 property theorems, second file: native operands, constructors and casts, conversions on a used destination,
   rint<K> with a native operand, native exponent types, decimal output, class constants (model: ModelNative.v).
   Same house style as Properties.v (nothing but statements closed by `exact`, each followed by Print Assumptions); kept in a
   file of its own so that coq/C07, which imports C06.Properties read-only, is not rebuilt, and so that the two files'
   Print Assumptions runs proceed in parallel. *)
From Coq Require Import ZArith.
From C06 Require Import Model ModelNative ProofsBase ProofsSigned ProofsNative ProofsNative2 ProofsNative3 ProofsNativeEx ModelCount ProofsCount ProofsDomain ModelAudit ProofsAudit ProofsAudit2 ProofsExamples ModelCast ProofsCast.
Local Open Scope Z_scope.

Theorem C06_compare_native_exact : Cmp_native_exact. Proof. exact cmp_native_exact. Qed.
Print Assumptions C06_compare_native_exact.
Theorem C06_constructor_native_exact : Ctor_native_exact. Proof. exact ctor_native_exact. Qed.
Print Assumptions C06_constructor_native_exact.
Theorem C06_cast_native_exact : Cast_native_exact.  Proof. exact cast_native_exact. Qed.
Print Assumptions C06_cast_native_exact.
Theorem C06_operators_native_exact : Op_native_exact. Proof. exact op_native_exact. Qed.
Print Assumptions C06_operators_native_exact.
Theorem C06_bit_operators_native_exact : Op_native_bits_exact. Proof. exact op_native_bits_exact. Qed.
Print Assumptions C06_bit_operators_native_exact.
Theorem C06_reset_exact : Reset_exact.              Proof. exact reset_exact. Qed.
Print Assumptions C06_reset_exact.
Theorem C06_mpz_to_ruint_independent_of_destination : Mpz_into_exact. Proof. exact mpz_into_exact. Qed.
Print Assumptions C06_mpz_to_ruint_independent_of_destination.
Theorem C06_mpz_to_rint_independent_of_destination : Mpz_rint_into_exact. Proof. exact mpz_rint_into_exact. Qed.
Print Assumptions C06_mpz_to_rint_independent_of_destination.
Theorem C06_ruint_to_mpz_exact : Ruint_to_mpz_exact. Proof. exact ruint_to_mpz_exact. Qed.
Print Assumptions C06_ruint_to_mpz_exact.
Theorem C06_mpz_round_trip_lossless : Mpz_round_trip_exact. Proof. exact mpz_round_trip_exact. Qed.
Print Assumptions C06_mpz_round_trip_lossless.
Theorem C06_rint_to_mpz_independent_of_destination : Rint_to_mpz_into_exact. Proof. exact rint_to_mpz_into_exact. Qed.
Print Assumptions C06_rint_to_mpz_independent_of_destination.
Theorem C06_signed_compare_native_exact : Scmp_native_exact. Proof. exact scmp_native_exact. Qed.
Print Assumptions C06_signed_compare_native_exact.
Theorem C06_signed_operators_native_exact : Sop_native_exact. Proof. exact sop_native_exact. Qed.
Print Assumptions C06_signed_operators_native_exact.
Theorem C06_signed_div_q_native_exact : Sdiv_q_native_exact. Proof. exact sdiv_q_native_exact. Qed.
Print Assumptions C06_signed_div_q_native_exact.
Theorem C06_signed_mod_n_same_size_exact : Smod_n1_exact. Proof. exact smod_n1_exact. Qed.
Print Assumptions C06_signed_mod_n_same_size_exact.
Theorem C06_exp_mod_native_exponent_exact : Exp_mod_native_exact. Proof. exact exp_mod_native_exact. Qed.
Print Assumptions C06_exp_mod_native_exponent_exact.
Theorem C06_decimal_output_exact : Display_dec_exact. Proof. exact display_dec_exact. Qed.
Print Assumptions C06_decimal_output_exact.
Theorem C06_max_constants_exact : Max_constants_exact. Proof. exact max_constants_exact. Qed.
Print Assumptions C06_max_constants_exact.
Theorem C06_shift_count_conversions_exact : Shift_count_conversions_exact. Proof. exact shift_count_conversions_exact. Qed.
Print Assumptions C06_shift_count_conversions_exact.
Theorem C06_addmul_word_exact : Addmul_word_exact.  Proof. exact addmul_word_exact. Qed.
Print Assumptions C06_addmul_word_exact.
Theorem C06_signed_div_r_documented_domain : Sdiv_r_documented_domain. Proof. exact sdiv_r_documented_domain. Qed.
Print Assumptions C06_signed_div_r_documented_domain.
(* ---- phase 4 (audit response): ModelAudit.v ---- *)
Theorem C06_bit_fiddling_exact : Bit_fiddling_exact. Proof. exact bit_fiddling_exact. Qed.
Print Assumptions C06_bit_fiddling_exact.
Theorem C06_exp_scan_exact : Exp_scan_exact.        Proof. exact exp_scan_exact. Qed.
Print Assumptions C06_exp_scan_exact.
Theorem C06_normalization_scan_exact : Norm_scan_exact. Proof. exact norm_scan_exact. Qed.
Print Assumptions C06_normalization_scan_exact.
Theorem C06_inverse_modulo_documented_exact : Inv_mod_doc_exact. Proof. exact inv_mod_doc_exact. Qed.
Print Assumptions C06_inverse_modulo_documented_exact.
Theorem C06_signed_inverse_modulo_documented_exact : Sinv_mod_doc_exact. Proof. exact sinv_mod_doc_exact. Qed.
Print Assumptions C06_signed_inverse_modulo_documented_exact.
Theorem C06_div_3_2_trace_exact : Div32_trace_exact. Proof. exact div32_trace_exact. Qed.
Print Assumptions C06_div_3_2_trace_exact.
Theorem C06_signed_cast_floating_exact : Scast_floating_exact. Proof. exact scast_floating_exact. Qed.
Print Assumptions C06_signed_cast_floating_exact.
