(* C06 driver: one case per line  "<op> <K> <thr> <hex args...>"  ->  results in hex *)
let zs = z_of_string
let p2 (a, b) = hex_of_z a ^ " " ^ hex_of_z b
let p3 ((a, b), c) = hex_of_z a ^ " " ^ hex_of_z b ^ " " ^ hex_of_z c
let () = run_lines (fun toks ->
  match toks with
  | op :: ks :: thrs :: args ->
    let k = nat_of_int (int_of_string ks - 6) in
    let thr = nat_of_int (int_of_string thrs - 6) in
    let a = Array.of_list (List.map zs args) in
    (match op with
     | "add" -> p2 (Model.addZ k a.(0) a.(1))
     | "add_wc" -> p2 (Model.add_wcZ k a.(0) a.(1) a.(2))
     | "add_w" -> p2 (Model.add_wZ k a.(0) a.(1))
     | "add_1" -> p2 (Model.add_1Z k a.(0))
     | "sub" -> p2 (Model.subZ k a.(0) a.(1))
     | "sub_wc" -> p2 (Model.sub_wcZ k a.(0) a.(1) a.(2))
     | "cmp" -> string_of_z (Model.cmpZ k a.(0) a.(1))
     | "lmul_naive" -> p2 (Model.lmul_naiveZ thr k a.(0) a.(1))
     | "lmul_kara" -> p2 (Model.lmul_karaZ thr k a.(0) a.(1))
     | "lmul" -> p2 (Model.lmulZ thr k a.(0) a.(1))
     | "laddmul" -> p3 (Model.laddmulZ thr k a.(0) a.(1) a.(2))
     | "laddmul2" -> p3 (Model.laddmul2Z thr k a.(0) a.(1) a.(2))
     | "mul" -> hex_of_z (Model.mulZ thr k a.(0) a.(1))
     | "addmul" -> hex_of_z (Model.addmulZ thr k a.(0) a.(1) a.(2))
     | _ -> "UNKNOWN-OP")
  | _ -> "BAD-LINE")
