(* C06 driver: one case per line  "<op> <K> <thr> <hex args...>"  ->  results in hex *)
let zs = z_of_string
let h = hex_of_z
let sz = string_of_z
let p2 (a, b) = h a ^ " " ^ h b
let p3 ((a, b), c) = h a ^ " " ^ h b ^ " " ^ h c
let () = run_lines (fun toks ->
  match toks with
  | op :: ks :: thrs :: args ->
    let k = nat_of_int (int_of_string ks - 6) in
    let thr = nat_of_int (int_of_string thrs - 6) in
    let a = Array.of_list (List.map zs args) in
    (match op with
     | "add" -> p2 (Model.addZ k a.(0) a.(1))
     | "add_wc" -> p2 (Model.add_wcZ k a.(0) a.(1) a.(2))
     | "add_w" -> p2 (Model.add_wZ k a.(0) a.(1))
     | "add_1" -> p2 (Model.add_1Z k a.(0))
     | "sub" -> p2 (Model.subZ k a.(0) a.(1))
     | "sub_wc" -> p2 (Model.sub_wcZ k a.(0) a.(1) a.(2))
     | "sub_w" -> p2 (Model.sub_wZ k a.(0) a.(1))
     | "sub_1" -> p2 (Model.sub_1Z k a.(0))
     | "cmp" -> sz (Model.cmpZ k a.(0) a.(1))
     | "lmul_naive" -> p2 (Model.lmul_naiveZ thr k a.(0) a.(1))
     | "lmul_kara" -> p2 (Model.lmul_karaZ thr k a.(0) a.(1))
     | "lmul" -> p2 (Model.lmulZ thr k a.(0) a.(1))
     | "laddmul" -> p3 (Model.laddmulZ thr k a.(0) a.(1) a.(2))
     | "laddmul2" -> p3 (Model.laddmul2Z thr k a.(0) a.(1) a.(2))
     | "mul" -> h (Model.mulZ thr k a.(0) a.(1))
     | "addmul" -> h (Model.addmulZ thr k a.(0) a.(1) a.(2))
     | "lmul_w" -> p2 (Model.lmul_wZ k a.(0) a.(1))
     | "lsquare" -> p2 (Model.lsquareZ thr k a.(0))
     | "square" -> h (Model.squareZ thr k a.(0))
     | "lnot" -> h (Model.lnotZ k a.(0))
     | "neg" -> h (Model.negZ k a.(0))
     | "lor" -> h (Model.lorZ k a.(0) a.(1))
     | "lxor" -> h (Model.lxorZ k a.(0) a.(1))
     | "land" -> h (Model.landZ k a.(0) a.(1))
     | "lor_w" -> h (Model.lor_wZ k a.(0) a.(1))
     | "lxor_w" -> h (Model.lxor_wZ k a.(0) a.(1))
     | "land_w" -> h (Model.land_wZ k a.(0) a.(1))
     | "bits" -> let (((hb, lb), (sh, sl)), (mp, on)) = Model.bitsZ k a.(0) in
                 String.concat " " [h hb; h lb; h sh; h sl; h mp; h on]
     | "limb" -> p2 (Model.limbZ k a.(0) a.(1) a.(2))
     | "shl" -> h (Model.shlZ k a.(0) a.(1))
     | "shr" -> h (Model.shrZ k a.(0) a.(1))
     | "shl1" -> p2 (Model.shl1Z k a.(0))
     | "shr1" -> p2 (Model.shr1Z k a.(0))
     | "shl_ext" -> h (Model.shl_extZ k a.(0) a.(1))
     | "norm" -> h (Model.normZ k a.(0))
     | "udiv" -> p2 (Model.udivZ a.(0) a.(1) a.(2))
     | "div32" -> let ((q, r1), r0) = Model.div32Z thr k a.(0) a.(1) a.(2) a.(3) a.(4) in String.concat " " [h q; h r1; h r0]
     | "div21" -> p2 (Model.div21Z thr k a.(0) a.(1) a.(2))
     | "div" -> p2 (Model.divZ thr k a.(0) a.(1))
     | "div_w" -> p2 (Model.div_wZ thr k a.(0) a.(1))
     | "mod_n" -> h (Model.mod_nZ thr k a.(0) a.(1))
     | "gcd" -> h (Model.gcdZ thr k a.(0) a.(1))
     | "inv_mod" -> h (Model.inv_modZ thr k a.(0) a.(1))
     | "bezout_mod" -> p2 (Model.bezout_modZ thr k a.(0) a.(1))
     | "exp_mod" -> h (Model.exp_modZ thr k a.(0) a.(1) a.(2))
     | "exp_mod_w" -> h (Model.exp_mod_wZ thr k a.(0) a.(1) a.(2))
     | "arazi_qi" -> h (Model.arazi_qiZ thr k a.(0))
     | "mpz_to_ruint" -> h (Model.mpz_to_ruintZ k a.(0))
     | "mpz_to_rint" -> h (Model.mpz_to_rintZ k a.(0))
     | "rint_to_mpz" -> sz (Model.rint_to_mpzZ k a.(0))
     | "sshr" -> h (Model.sshrZ k a.(0) a.(1))
     | "sdiv_q" -> h (Model.sdiv_qZ thr k a.(0) a.(1))
     | "sdiv_r" -> h (Model.sdiv_rZ thr k a.(0) a.(1))
     | "slmul" -> h (Model.slmulZ thr k a.(0) a.(1))
     | "slsquare" -> h (Model.slsquareZ thr k a.(0))
     | "scmp" -> sz (Model.scmpZ k a.(0) a.(1))
     | "sext" -> h (Model.sextZ k a.(0))
     | "smod_n" -> h (Model.smod_nZ thr k a.(0) a.(1))
     | "sinv_mod" -> h (Model.sinv_modZ thr k a.(0) a.(1))
     (* native operands, conversions with an explicit previous destination (ModelNative.v) *)
     | "op_add_si" -> h (Model.op_add_siZ k a.(0) a.(1))
     | "op_sub2" -> h (Model.op_sub_siZ k a.(0) a.(1)) ^ " " ^ h (Model.op_rsub_siZ k a.(0) a.(1))
     | "op_addsub_si" -> h (Model.op_add_siZ k a.(0) a.(1)) ^ " " ^ h (Model.op_sub_siZ k a.(0) a.(1))
     | "op_mul_si" -> h (Model.op_mul_siZ k a.(0) a.(1))
     | "op_div_si" -> h (Model.op_div_siZ thr k a.(0) a.(1))
     | "op_mod_w" -> h (Model.op_mod_wZ thr k a.(0) a.(1))
     | "sdiv_q_si" -> h (Model.sdiv_q_siZ thr k a.(0) a.(1))
     | "cmp_n" -> (* signed flag, x, c *)
         if sz a.(0) = "0" then sz (Model.cmp_wZ k a.(1) a.(2)) ^ " " ^ sz (Model.scmp_wZ k a.(1) a.(2))
         else sz (Model.cmp_siZ k a.(1) a.(2)) ^ " " ^ sz (Model.scmp_siZ k a.(1) a.(2))
     | "bit_n" -> String.concat " " [h (Model.op_lor_siZ k a.(0) a.(1)); h (Model.op_lxor_siZ k a.(0) a.(1)); h (Model.op_land_siZ k a.(0) a.(1))]
     | "ctor_n" -> if sz a.(0) = "0" then h (Model.ctor_uZ k a.(2)) else h (Model.ctor_sZ k a.(2))
     | "shr2" -> h (Model.shrZ k a.(0) a.(1)) ^ " " ^ h (Model.sshrZ k a.(0) a.(1))
     | "exp_mod_n" -> h (Model.exp_mod_nZ a.(0) thr k a.(1) a.(2) a.(3))
     | "cast" -> let ((((u8, u16), (u32, u64)), ((s8, s16), (s32, s64))), b) = Model.castZ k a.(0) in
         let w x = h (Model.wrap_u (zs "64") x) in
         (* (double)rint: the integer the repaired cast hands to the conversion; "big" when a double cannot hold it exactly *)
         let f = za_of_z (Model.scast_fltZ k a.(0)) in
         let ft = if ZA.lt (ZA.abs f) (ZA.shift_left ZA.one 53) then ZA.format "%x" (ZA.logand f (ZA.pred (ZA.shift_left ZA.one 64))) else "big" in
         String.concat " " [h u8; h u16; h u32; h u64; w s8; w s16; w s32; w s64; h b; ft]
     | "maxconst" -> let (c, (e, f)) = Model.maxconstZ a.(0) k in String.concat " " [h c; h e; h f]
     | "mpz_to_ruint_into" -> p2 (Model.mpz_to_ruint_intoZ k a.(0) a.(1))
     | "mpz_to_rint_into" -> h (Model.mpz_to_rint_intoZ k a.(0) a.(1))
     | "ruint_to_mpz_into" -> sz (Model.ruint_to_mpz_intoZ k a.(0) a.(1))
     | "rint_to_mpz_into" -> sz (Model.rint_to_mpz_intoZ k a.(0) a.(1))
     | "smod_n1" -> h (Model.smod_n1Z thr k a.(0) a.(1))
     | "shl_cnt" -> h (Model.shl_cntZ k a.(0) a.(1))
     | "shr2_cnt" -> h (Model.shr_cntZ k a.(0) a.(1)) ^ " " ^ h (Model.sshrZ k a.(0) a.(1))
     | "addmul_w" -> h (Model.addmul_wZ k a.(0) a.(1) a.(2))
     | "op_div_n" -> if sz a.(0) = "0" then h (Model.div_q_uZ thr k a.(1) a.(2)) else h (Model.op_div_siZ thr k a.(1) a.(2))
     | "exp_mod_scan" -> h (Model.exp_mod_scanZ thr k a.(0) a.(1) a.(2))
     | "norm_scan" -> h (Model.normalization_scanZ k a.(0))
     | "inv_mod_doc" -> h (Model.inv_mod_docZ thr k a.(0) a.(1))
     | "sinv_mod_doc" -> h (Model.sinv_mod_docZ thr k a.(0) a.(1))
     | "div32_tr" -> h (Model.div32_trZ a.(0) a.(1) a.(2) a.(3) a.(4))
     | "sizes" -> p2 (Model.sizesZ k)
     | "display_dec" -> String.concat "" (List.map sz (Model.display_decZ thr k a.(0)))
     | _ -> "UNKNOWN-OP")
  | _ -> "BAD-LINE")
