(* Extraction of the executable model for the correspondence run (ExtrOcamlBasic only). *)
From Coq Require Import ZArith.
From Coq Require Extraction.
From Coq Require Import ExtrOcamlBasic.
From C07 Require Import Param Model.
Extraction Language OCaml.
Cd "ocaml".
Extraction "model.ml"
  maxCardinality32 B32 MASK32 HALF_BITS32
  mk32 redc redcal redcsal redcs redcin redcsin mul32 mulin sub32 subin add32 addin axpy axpyin neg negin
  inv isUnit div32 divin invin axmy maxpy maxpyin axmyin
  init0 init_double init_int64 init_uint64 init_integer init_int32 init_uint32 init_longlong init_ulonglong
  convert write_value isZero isOne isMOne areEqual
  Bk arazi_qi arazi_qi_64 inv_mod reduction rm_add rm_sub rm_subin rm_neg
  mga_init_module mga_to_mg mga_reduction mga_get_ruint mga_of_ruint mga_of_unsigned mga_of_signed mga_of_rint mga_of_mgi
  mga_mul mga_square mga_mul_T mga_add mga_sub mga_subin mga_neg mga_add_T mga_sub_T mga_T_sub mga_inv mga_inv_T mga_inv_Ti mga_mul_Ti mga_div
  mga_addmul mga_exp_u mga_exp_ru mga_eq mga_eq_ruint
  mgi_of_ruint mgi_of_signed mgi_of_rint mgi_get_ruint mgi_mul mgi_add mgi_sub mgi_subin mgi_neg mgi_add_T mgi_sub_T mgi_T_sub
  mgi_inv mgi_inv_T mgi_inv_Ti mgi_mul_T mgi_mul_Ti mgi_div mgi_addmul mgi_exp mgi_of_mga
  mr_mk mr_reduc mr_mul mr_to_mg mr_add mr_sub mr_subin mr_neg mr_inv mr_div mr_divin mr_axpy mr_axpyin
  mr_maxpy mr_maxpyin mr_axmy mr_axmyin mr_init mr_convert mr_isUnit
  opt_z opt_b b2z.
Cd "..".
