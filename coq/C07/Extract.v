(* Extraction of the executable model for the correspondence run (ExtrOcamlBasic only). *)
From Coq Require Import ZArith.
From Coq Require Extraction.
From Coq Require Import ExtrOcamlBasic.
From C07 Require Import Param Model.
Extraction Language OCaml.
Cd "ocaml".
Extraction "model.ml"
  maxCardinality32 B32 MASK32 HALF_BITS32
  mk32 redc redcal redcsal redcs redcin redcsin mul32 mulin sub32 subin add32 addin axpy axpyin neg negin
  inv isUnit div32 divin invin axmy maxpy maxpyin axmyin
  init0 init_double init_int64 init_uint64 init_integer init_int32 init_uint32 init_longlong init_ulonglong
  convert write_value isZero isOne isMOne areEqual
  zprims reduction mga_init_module mga_to_mg mga_reduction mga_get_ruint mga_of_ruint mga_mul mga_square
  mga_add mga_sub mga_subin mga_neg mga_inv mga_div mga_exp_u mga_exp_ru
  mgi_of_ruint mgi_get_ruint mgi_mul mgi_add mgi_sub mgi_subin mgi_neg mgi_inv mgi_div mgi_exp_loop
  mr_mk mr_reduc mr_mul mr_to_mg mr_add mr_sub mr_subin mr_neg mr_inv mr_div mr_divin mr_axpy mr_axpyin
  mr_maxpy mr_maxpyin mr_axmy mr_axmyin mr_init mr_convert
  opt_z opt_b b2z.
Cd "..".
