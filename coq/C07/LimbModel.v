(* C07 — the RecInt Montgomery code written over C06's limb model (no proofs in this file).
   C06 (coq/C06, imported read-only) models ruint<K> as the nested pair type `ru k` and the RecInt primitives
   add / sub / cmp / mul / lmul / lsquare / laddmul / mod_n / div / neg / arazi_qi / inv_mod limb by limb, and proves
   each of them exact.  Here the Montgomery functions of rmgreduc.h, rmmul.h, rmadd.h, rmsub.h, rmneg.h,
   rmgmodule.h, rmginv.h, rmbmul.h and the constructor of montgomery-ruint.h are the same compositions of those
   primitives as in the C++; ProofsLimb.v shows that they compute the integer-level functions of Model.v, so the
   theorems of ProofsRec.v hold for them with C06's theorems in place of an assumption about the primitives. *)
From Coq Require Import ZArith Bool.
From C06 Require Model.
Module L := C06.Model.
Local Open Scope Z_scope.

Section Limb.
  Variable thr : nat.                  (* __RECINT_THRESHOLD_KARA, a parameter of C06's multiplication *)
  Variable k : nat.
  Notation elt := (L.ru k).

  (* a >= b on ruint<K> *)
  Definition l_ge (a b : elt) : bool := 0 <=? L.cmp k a b.

  (* reduction(t, const ruint<K+1>& a): mul(a0, a.Low, p1); laddmul(r, t, a0, a0, p, a); if (r || t >= p) sub(t, p) *)
  Definition l_reduction2 (p p1 : elt) (a : L.ru (S k)) : elt :=
    let a0 := L.mul thr k (fst a) p1 in
    let '((_, t), r) := L.laddmul2 thr k a0 p a in
    if r || l_ge t p then fst (L.sub_c k t p) else t.
  (* reduction(t, const ruint<K>& a) *)
  Definition l_reduction1 (p p1 a : elt) : elt :=
    let a0 := L.mul thr k a p1 in
    let '((_, t), r) := L.laddmul thr k a0 p a in
    if r || l_ge t p then fst (L.sub_c k t p) else t.

  (* rmmul.h: lmul(resmul, b, c); reduction(a, resmul)   (resmul = (Low, High)) *)
  Definition l_mga_mul (p p1 b c : elt) : elt := l_reduction2 p p1 (L.lmul thr k b c).
  Definition l_mga_square (p p1 b : elt) : elt := l_reduction2 p p1 (L.lsquare thr k b).
  (* rmbmul.h / rmbreduc.h: lmul; mod_n *)
  Definition l_mgi_mul (p b c : elt) : elt := L.mod_n thr k (L.lmul thr k b c) p.

  (* rmadd.h, rmsub.h, rmneg.h *)
  Definition l_add (p b c : elt) : elt :=
    let '(a, r) := L.add_c k b c in if r || l_ge a p then fst (L.sub_c k a p) else a.
  Definition l_sub (p b c : elt) : elt :=
    if L.lt k b c then fst (L.add_c k (fst (L.sub_c k b c)) p) else fst (L.sub_c k b c).   (* rmsub.h as repaired by fix-6 *)
  Definition l_subin (p a b : elt) : elt :=
    if L.lt k a b then fst (L.add_c k a (fst (L.sub_c k p b))) else fst (L.sub_c k a b).
  Definition l_neg (p b : elt) : elt := if L.eqb k b (L.zero k) then L.zero k else fst (L.sub_c k p b).

  (* rmgreduc.h to_mg: res.High = b, res.Low = 0; mod_n(a, res, p) *)
  Definition l_to_mg (p b : elt) : elt := L.mod_n thr k (L.zero k, b) p.

  (* rmgmodule.h init_module: arazi_qi(p1, -_p); div_r(r, -_p, _p) *)
  Definition l_p1 (p : elt) : elt := L.arazi_qi thr k (L.neg k p).
  Definition l_r (p : elt) : elt := snd (L.div thr k (L.neg k p) p).
  (* montgomery-ruint.h: _r2 = r*r mod p, _r3 = r2*r mod p (lmul; mod_n) *)
  Definition l_r2 (p : elt) : elt := L.mod_n thr k (L.lmul thr k (l_r p) (l_r p)) p.
  Definition l_r3 (p : elt) : elt := L.mod_n thr k (L.lmul thr k (l_r2 p) (l_r p)) p.

  (* rmginv.h: reduction(a, b); inv_mod(a, a, p); to_mg(a)   and   rmbinv.h *)
  Definition l_mga_inv (p p1 b : elt) : elt := l_to_mg p (L.inv_mod thr k (l_reduction1 p p1 b) p).
  Definition l_mgi_inv (p b : elt) : elt := L.inv_mod thr k b p.
  (* montgomery-ruint.inl inv: inv_mod(r, a, _p); mulin(r, _r3) *)
  Definition l_mr_inv (p p1 a : elt) : elt := l_mga_mul p p1 (L.inv_mod thr k a p) (l_r3 p).

  (* ---- phase 3: the composite operations, again the same compositions as the C++ *)
  (* rmgaddmul.h: mul(res, b, c); add(a, res) *)
  Definition l_mga_addmul (p p1 a b c : elt) : elt := l_add p a (l_mga_mul p p1 b c).
  (* rmdiv.h: inv(ci, c); if (ci == 0) reset(a) else mul(a, b, ci) *)
  Definition l_mga_div (p p1 b c : elt) : elt :=
    let ci := l_mga_inv p p1 c in if L.eqb k ci (L.zero k) then L.zero k else l_mga_mul p p1 b ci.
  Definition l_mgi_div (p b c : elt) : elt :=
    let ci := l_mgi_inv p c in if L.eqb k ci (L.zero k) then L.zero k else l_mgi_mul p b ci.
  (* montgomery-ruint.inl sub: lt = (a < b); sub(r, a, b); if (lt) add(r, _p) *)
  Definition l_mr_sub (p a b : elt) : elt :=
    let lt := L.lt k a b in let r := fst (L.sub_c k a b) in if lt then fst (L.add_c k r p) else r.
  (* montgomery-ruint.inl fused operations and division *)
  Definition l_mr_axpy (p p1 a b c : elt) : elt := l_add p (l_mga_mul p p1 a b) c.
  Definition l_mr_axpyin (p p1 r a b : elt) : elt := l_add p r (l_mga_mul p p1 a b).
  Definition l_mr_maxpy (p p1 a b c : elt) : elt := l_mr_sub p c (l_mga_mul p p1 a b).
  Definition l_mr_maxpyin (p p1 r a b : elt) : elt := l_subin p r (l_mga_mul p p1 a b).
  Definition l_mr_axmy (p p1 a b c : elt) : elt := l_mr_sub p (l_mga_mul p p1 a b) c.
  Definition l_mr_axmyin (p p1 r a b : elt) : elt := l_mr_sub p (l_mga_mul p p1 a b) r.
  Definition l_mr_div (p p1 a b : elt) : elt := l_mga_mul p p1 a (l_mr_inv p p1 b).
  Definition l_mr_divin (p p1 r a : elt) : elt := l_mga_mul p p1 r (l_mr_inv p p1 a).
End Limb.
