(* C07 — executable models, written after the code (no proofs in this file).

   Part 1: Givaro::Montgomery<int32_t>  (src/kernel/ring/montgomery-int32.{h,inl},
           extended_euclid/invext of src/kernel/ring/modular-general.inl).
           Element = Residu_t = uint32_t: every intermediate is a uint32_t, modelled over Z with an
           explicit wrap u32 after each C operation.  The radix B32 = 2^HALF_BITS32, MASK32 and
           maxCardinality() are NOT written here: they come from Param.v, which the check generates
           from the compiled implementation.
   Part 2: RecInt Montgomery (rmint<K,MGA>, rmint<K,MGI>, Givaro::Montgomery<ruint<K>>) at the Z level,
           over a record of RecInt primitives (add, sub, mul, lmul, laddmul, cmp, arazi_qi, mod_n,
           inv_mod) whose Z-level specifications are what C06 proves of the limb model. *)
From Coq Require Import ZArith Bool List.
From C07 Require Import Param.
Local Open Scope Z_scope.
Arguments Z.mul : simpl never.
Arguments Z.add : simpl never.
Arguments Z.sub : simpl never.
Arguments Z.pow : simpl never.
Arguments Z.modulo : simpl never.
Arguments Z.div : simpl never.
Arguments Z.quot : simpl never.
Arguments Z.rem : simpl never.

(* ------------------------------------------------------------------ C integer types *)
Definition W32 : Z := 4294967296.              (* 2^32 *)
Definition W64 : Z := 18446744073709551616.    (* 2^64 *)
Definition u32 (z : Z) : Z := z mod W32.                         (* conversion to / arithmetic in uint32_t *)
Definition s32 (z : Z) : Z := (z + 2147483648) mod W32 - 2147483648.   (* int32_t, two's complement wrap *)
Definition u64 (z : Z) : Z := z mod W64.
Definition s64 (z : Z) : Z := (z + 9223372036854775808) mod W64 - 9223372036854775808.

(* ------------------------------------------------------------------ modular-general.inl *)
(* extended_euclid<Storage_t> (integral version); w is the wrap of Storage_t (u32 for the
   constructor's invext(_p, B32), s32 for inv/isUnit).  The while loop is a Fixpoint on fuel;
   None = fuel exhausted.  State (u0,u1,r1,d,neg); C `/` is Z.quot. *)
Fixpoint ee_loop (w : Z -> Z) (fuel : nat) (u0 u1 r1 d : Z) (neg : bool) : option (Z * Z * bool) :=
  if r1 =? 0 then Some (u0, d, neg) else
  match fuel with
  | O => None
  | S f =>
      let q := Z.quot d r1 in
      let t := u1 in
      let u1' := w (w (q * u1) + u0) in
      let u0' := t in
      let t' := r1 in
      let r1' := w (d - w (q * r1)) in
      let d' := t' in
      ee_loop w f u0' u1' r1' d' (negb neg)
  end.

(* returns (x, d) *)
Definition extended_euclid (w : Z -> Z) (a b : Z) : option (Z * Z) :=
  match ee_loop w (S (Z.to_nat (Z.abs a))) 0 1 a b true with
  | None => None
  | Some (u0, d, neg) => Some ((if neg && (0 <? u0) then w (b - u0) else u0), d)
  end.

(* invext(x,a,b) / invext(a,b): extended_euclid, d dropped (the __GIVARO_DEBUG throw is compiled out) *)
Definition invext (w : Z -> Z) (a b : Z) : option Z :=
  match extended_euclid w a b with None => None | Some (x, _) => Some x end.

(* ------------------------------------------------------------------ Montgomery<int32_t> *)
Record mg32 : Type := Mk32 { m_p : Z; m_Bp : Z; m_B2p : Z; m_B3p : Z; m_nim : Z; m_one : Z; m_mOne : Z }.

(* Montgomery(Residu_t p, int = 1): member initialisers in declaration order, then the body *)
Definition mk32 (p : Z) : option mg32 :=
  let _p := u32 p in
  let _Bp := u32 (B32 mod _p) in
  let _B2p := u32 ((u32 (Z.shiftl _Bp HALF_BITS32)) mod _p) in
  let _B3p := u32 ((u32 (Z.shiftl _B2p HALF_BITS32)) mod _p) in
  match invext u32 _p B32 with
  | None => None
  | Some i =>
      let _nim := u32 (B32 - i) in
      let one := _Bp in
      let mOne := u32 (_p - one) in
      Some (Mk32 _p _Bp _B2p _B3p _nim one mOne)
  end.

Section Ring32.
  Variable F : mg32.
  Let p := m_p F.
  Let nim := m_nim F.

  (* (r>=_p ? r-=_p : r) *)
  Definition csub (r : Z) : Z := if p <=? r then u32 (r - p) else r.

  Definition redcal (c : Z) : Z :=
    let c0 := u32 (Z.land c MASK32) in
    let c0 := u32 (Z.land (u32 (c0 * nim)) MASK32) in
    let c0 := u32 (c + u32 (c0 * p)) in
    let c0 := Z.shiftr c0 HALF_BITS32 in
    csub c0.

  Definition redcsal (c : Z) : Z :=
    let c0 := u32 (Z.land (u32 (c * nim)) MASK32) in
    let c0 := u32 (c + u32 (c0 * p)) in
    let c0 := Z.shiftr c0 HALF_BITS32 in
    csub c0.

  Definition redc (c : Z) : Z :=
    let r := u32 (Z.land c MASK32) in
    let r := u32 (r * nim) in
    let r := Z.land r MASK32 in
    let r := u32 (r * p) in
    let r := u32 (r + c) in
    let r := Z.shiftr r HALF_BITS32 in
    csub r.

  Definition redcs (c : Z) : Z :=
    let r := u32 (Z.land (u32 (c * nim)) MASK32) in
    let r := u32 (c + u32 (r * p)) in
    let r := Z.shiftr r HALF_BITS32 in
    csub r.

  Definition redcin (r : Z) : Z :=
    let c0 := u32 (Z.land r MASK32) in
    let c0 := u32 (Z.land (u32 (c0 * nim)) MASK32) in
    let r := u32 (r + u32 (c0 * p)) in
    let r := Z.shiftr r HALF_BITS32 in
    csub r.

  Definition redcsin (r : Z) : Z :=
    let c0 := u32 (Z.land (u32 (r * nim)) MASK32) in
    let r := u32 (r + u32 (c0 * p)) in
    let r := Z.shiftr r HALF_BITS32 in
    csub r.

  (* the __GIVARO_MONTG32_* macros, expanded *)
  Definition mul32 (a b : Z) : Z := redc (u32 (a * b)).                       (* MUL   *)
  Definition mulin (r a : Z) : Z := redcin (u32 (r * a)).                   (* MULIN: redcin(r*=a) *)
  Definition sub32 (a b : Z) : Z := if b <=? a then u32 (a - b) else u32 (u32 (p - b) + a).   (* SUB *)
  Definition subin (r a : Z) : Z := if r <? a then u32 (r + u32 (p - a)) else u32 (r - a).  (* SUBIN *)
  Definition add32 (a b : Z) : Z := let r := u32 (a + b) in if r <? p then r else u32 (r - p).
  Definition addin (r a : Z) : Z := let r := u32 (r + a) in if r <? p then r else u32 (r - p).
  Definition axpy (a b c : Z) : Z :=                                        (* MULADD *)
    let r := u32 (redcal (u32 (a * b)) + c) in if r <? p then r else u32 (r - p).
  Definition axpyin (r a b : Z) : Z :=                                      (* MULADDIN *)
    let r := u32 (r + redcal (u32 (a * b))) in if r <? p then r else u32 (r - p).
  Definition neg (a : Z) : Z := if a =? 0 then 0 else u32 (p - a).
  Definition negin (r : Z) : Z := if r =? 0 then 0 else u32 (p - r).

  (* inv: int32_t t; invext(t, int32_t(a), int32_t(_p)); if (t < 0) t += _p; redc(r, uint32_t(t)*_B3p) *)
  Definition inv (a : Z) : option Z :=
    match invext s32 (s32 a) (s32 p) with
    | None => None
    | Some t =>
        let t := if t <? 0 then s32 (u32 (u32 t + p)) else t in
        Some (redc (u32 (u32 t * m_B3p F)))
    end.
  Definition isUnit (a : Z) : option bool :=
    match extended_euclid s32 (s32 a) (s32 p) with
    | None => None
    | Some (_, d) => Some ((d =? 1) || (d =? -1))
    end.
  Definition div32 (a b : Z) : option Z :=          (* Element ib; return mul(r, a, inv(ib, b)); *)
    match inv b with None => None | Some ib => Some (mul32 a ib) end.
  Definition divin (r a : Z) : option Z :=        (* inv(ia,a); mulin(r,ia) *)
    match inv a with None => None | Some ia => Some (mulin r ia) end.
  Definition invin (r : Z) : option Z := inv r.
  Definition axmy (a b c : Z) : Z := subin (mul32 a b) c.
  Definition maxpy (a b c : Z) : Z := sub32 c (mul32 a b).
  Definition maxpyin (r a b : Z) : Z := subin r (mul32 a b).
  Definition axmyin (r a b : Z) : Z := negin (maxpyin r a b).

  (* initialisation *)
  Definition init0 : Z := 0.
  Definition init_tail (a_neg : bool) (r : Z) : Z :=
    let r := if a_neg then negin r else r in redc (u32 (r * m_B2p F)).
  (* init(Element&, double): integer-valued a (std::fmod of an integer-valued double by an integer-valued
     double is exact); |a| mod p, cast to uint32_t *)
  Definition init_double (a : Z) : Z := init_tail (a <? 0) (u32 (Z.rem (Z.abs a) p)).
  (* init(Element&, int64_t): r = std::abs(a % int64_t(_p)) *)
  Definition init_int64 (a : Z) : Z :=
    init_tail (a <? 0) (u32 (Z.abs (Z.rem a (s64 p)))).
  Definition init_uint64 (a : Z) : Z := init_tail false (u32 (a mod (u64 p))).
  (* init(Element&, const Integer&): ((a<0)?-a:a) % _p on Integer is exact *)
  Definition init_integer (a : Z) : Z := init_tail (a <? 0) (u32 (Z.abs a mod p)).
  (* template init (every other arithmetic T): init(r, Caster<Wide>(a)) with Wide = double for floating-point T,
     uint64_t for unsigned T, int64_t for signed T (montgomery-int32.h, std::conditional on is_floating_point / is_unsigned) *)
  Definition init_int32 (a : Z) : Z := init_int64 (s64 a).
  Definition init_uint32 (a : Z) : Z := init_uint64 (u64 a).
  Definition init_longlong (a : Z) : Z := init_int64 (s64 a).
  Definition init_ulonglong (a : Z) : Z := init_uint64 (u64 a).

  (* convert: r = Caster<T>(redc(c, a)) *)
  Definition convert (a : Z) : Z := redc a.
  (* write(ostream&, a) prints redcs(tmp, a) *)
  Definition write_value (a : Z) : Z := redcs a.

  Definition isZero (a : Z) : bool := a =? 0.
  Definition isOne (a : Z) : bool := a =? m_one F.
  Definition isMOne (a : Z) : bool := a =? m_mOne F.
  Definition areEqual (a b : Z) : bool := a =? b.
End Ring32.

(* ==================================================================== Part 2: RecInt Montgomery *)
(* rmint<K,MG_ACTIVE>, rmint<K,MG_INACTIVE> (src/kernel/recint/rm*.h) and Givaro::Montgomery<ruint<K>>
   (src/kernel/ring/montgomery-ruint.{h,inl}), K = k + 6.  A ruint<K> is the integer in [0, B) it denotes,
   B = Bk k = 2^(2^K); a ruint<K+1> is an integer in [0, B*B).  The RecInt primitives the Montgomery code calls
   (add with carry, sub, mul, lmul, lsquare, laddmul, mod_n, div, comparisons: property C06) are written as the
   integer operations they implement, with the wrap modulo B made explicit wherever the C++ stores into a
   ruint<K>; arazi_qi (rmgmodule.h) and inv_mod (ruinvmod.h) are modelled loop by loop. *)
Definition Bk (k : nat) : Z := 2 ^ (64 * 2 ^ Z.of_nat k).

(* ---- rmgmodule.h: arazi_qi.  Base case ruint<6>: the Newton product on one limb (UDItype arithmetic wraps) *)
Fixpoint aq_loop (fuel : nat) (i amone u : Z) : Z * Z :=
  match fuel with
  | O => (amone, u)
  | S f =>
      if i <? 64 then                                   (* for (i = 2; i < __RECINT_LIMB_BITS; i <<= 1) *)
        let amone := u64 (amone * amone) in             (* amone *= amone *)
        let amone1 := u64 (amone + 1) in                (* ++amone *)
        let u := u64 (u * amone1) in                    (* u.Value *= ++amone *)
        let amone := u64 (amone1 - 1) in                (* --amone *)
        aq_loop f (Z.shiftl i 1) amone u
      else (amone, u)
  end.
Definition arazi_qi_64 (a : Z) : Z :=
  if a =? 1 then 1 else
  let u := snd (aq_loop 64 2 (u64 (a - 1)) 1) in
  u64 (u * u64 (2 - a)).                                (* u.Value *= (2 - a.Value) *)
(* recursive step: u.Low = arazi_qi(a.Low); lmul(t1,t2,u.Low,a.Low) [t1 = high half]; mul(t2,u.Low,a.High);
   add(t1,t2); mul(t1,u.Low); u.High = -t1 *)
Fixpoint arazi_qi (k : nat) (a : Z) : Z :=
  match k with
  | O => arazi_qi_64 a
  | S k' =>
      let b := Bk k' in
      let aL := a mod b in
      let aH := (a / b) mod b in
      let uL := arazi_qi k' aL in
      let t1 := (uL * aL) / b in
      let t2 := (uL * aH) mod b in
      let t1 := (t1 + t2) mod b in
      let t1 := (t1 * uL) mod b in
      uL + b * ((- t1) mod b)
  end.

(* ---- ruinvmod.h: inv_mod(a, b, c), state (a, x, a2, b2); the while loop runs through inv_iter, which performs
   up to 2^n steps and stops as soon as b2 = 0 *)
Record ist : Type := MkIst { i_a : Z; i_x : Z; i_a2 : Z; i_b2 : Z }.
Definition inv_step (B c : Z) (s : ist) : ist :=
  if i_b2 s =? 0 then s else
  let q := i_a2 s / i_b2 s in                           (* div(q, r, a2, b2) *)
  let r := i_a2 s mod i_b2 s in
  let temp := (q * i_x s) mod c in                      (* lmul(resmul, q, x); mod_n(temp, resmul, c) *)
  let temp := if temp =? 0 then temp else (c - temp) mod B in   (* if (temp != 0) sub(temp, c, temp) *)
  let sm := temp + i_a s in                             (* add(ret, temp, a) *)
  let t2 := sm mod B in
  let temp := if (B <=? sm) || (c <=? t2) then (t2 - c) mod B else t2 in   (* if (ret || temp >= c) sub(temp, c) *)
  MkIst (i_x s) temp (i_b2 s) r.                        (* copy(a, x); copy(x, temp); a2 = b2; b2 = r *)
Fixpoint inv_iter (n : nat) (B c : Z) (s : ist) : ist :=
  if i_b2 s =? 0 then s else
  match n with
  | O => inv_step B c s
  | S m => inv_iter m B c (inv_iter m B c s)
  end.
(* after the loop (as repaired by C06-14, /repo 4753202): if (a2 != 1) reset(a)  -- "if b is not invertible, a = 0" *)
Definition inv_mod (B b c : Z) : Z :=
  let s := inv_iter (Z.to_nat (Z.log2_up B)) B c (MkIst 1 0 b c) in if i_a2 s =? 1 then i_a s else 0.
(* HISTORY, not extracted: the body before C06-14 returned the last coefficient whatever the final gcd *)
Definition inv_mod_old (B b c : Z) : Z := i_a (inv_iter (Z.to_nat (Z.log2_up B)) B c (MkIst 1 0 b c)).

(* module data of rmint<K,MGA> (static p, p1, r) and of Montgomery<ruint<K>> (_p,_p1,_r,_r2,_r3, one, mOne) *)
Record mgmod : Type := MkMod { g_p : Z; g_p1 : Z; g_r : Z; g_r2 : Z; g_r3 : Z; g_one : Z; g_mOne : Z }.

Section RecIntMG.
  Variable k : nat.
  Let B := Bk k.

  (* ---- rmgreduc.h reduction(t, a) / montgomery-ruint.inl mg_reduc(a, b), for a ruint<K> or a ruint<K+1>:
     mul(a0, a.Low, p1); laddmul(r, t, a0, a0, p, a); if (r || t >= p) sub(t, p) *)
  Definition reduction (p p1 : Z) (a : Z) : Z :=
    let a0 := ((a mod B) * p1) mod B in
    let s := a0 * p + a in                       (* laddmul: (r, t, a0) = a0 * p + a *)
    let r := B * B <=? s in
    let t := (s / B) mod B in
    if r || (p <=? t) then (t - p) mod B else t.

  (* ---- rmadd.h / rmsub.h / rmneg.h (common to both variants) and the same bodies in montgomery-ruint.inl *)
  Definition rm_add (p : Z) (b c : Z) : Z :=              (* add(r, a, b, c); if (r || a >= p) sub(a, p) *)
    let s := b + c in let a := s mod B in
    if (B <=? s) || (p <=? a) then (a - p) mod B else a.
  (* rmsub.h sub(a, b, c) as repaired by frag/C07.fix-6: if (b < c) { sub(a, b, c); add(a, p) } else sub(a, b, c).
     No operand is read after the destination is first written, so the destination may be b or c. *)
  Definition rm_sub (p : Z) (b c : Z) : Z :=
    if b <? c then (((b - c) mod B) + p) mod B else (b - c) mod B.
  (* the body BEFORE fix-6, { sub(a, p, c); add(a, b) }, executed with the destination being the same object as b:
     the second statement reads b after it was overwritten.  Not extracted; kept for the refutation in ProofsRec.v *)
  Definition rm_sub_old_dst_is_b (p : Z) (b c : Z) : Z :=
    if b <? c then let a := (p - c) mod B in (a + a) mod B else (b - c) mod B.
  Definition rm_subin (p : Z) (a b : Z) : Z :=            (* if (a < b) add(a, p - b) else sub(a, b) *)
    if a <? b then (a + ((p - b) mod B)) mod B else (a - b) mod B.
  Definition rm_neg (p : Z) (b : Z) : Z := if b =? 0 then 0 else (p - b) mod B.

  (* |b| of a native signed b taken on the ruint (rmgrmint.h / rmbrmint.h as repaired by fix-7): ruint<K>(b) is the two's complement
     b mod B, `Value = -Value` for b < 0 is the negation modulo B *)
  Definition abs_ru (b : Z) : Z := let v := b mod B in if b <? 0 then (- v) mod B else v.
  (* HISTORY, not extracted: the body before fix-7 negated in the native type T of width wbits, Value((b<0)? -b : b): for the most
     negative value -b wraps to b itself and the ruint constructor takes B - |b| *)
  Definition abs_in_type_old (wbits b : Z) : Z :=
    let nb := if b <? 0 then ((- b + 2 ^ (wbits - 1)) mod 2 ^ wbits) - 2 ^ (wbits - 1) else b in nb mod B.

  (* LSB-first square and multiply, n loop turns (ruexp.h exp_mod; rmgexp.h UDItype version stops at exp = 0) *)
  Fixpoint pow_lsb (mul : Z -> Z -> Z) (n : nat) (a x e : Z) : Z :=
    match n with
    | O => a
    | S m => let a := if Z.odd e then mul a x else a in pow_lsb mul m a (mul x x) (Z.shiftr e 1)
    end.
  Fixpoint pow_lsb_stop (mul : Z -> Z -> Z) (n : nat) (a x e : Z) : Z :=
    match n with
    | O => a
    | S m => if e =? 0 then a else
             let a := if Z.odd e then mul a x else a in pow_lsb_stop mul m a (mul x x) (Z.shiftr e 1)
    end.

  (* ================= rmint<K, MG_ACTIVE> *)
  (* init_module: copy(p,_p); arazi_qi(p1, -_p); div_r(r, -_p, _p) *)
  Definition mga_init_module (p : Z) : mgmod :=
    let np := (- p) mod B in
    let p1 := arazi_qi k np in
    let r := np mod p in
    MkMod p p1 r 0 0 r 0.
  Section MGA.
    Variable M : mgmod.
    Let p := g_p M.
    (* to_mg(a, b): res.High = b (res.Low = 0); mod_n(a, res, p) *)
    Definition mga_to_mg (b : Z) : Z := (b * B) mod p.
    Definition mga_reduction (a : Z) : Z := reduction p (g_p1 M) a.
    Definition mga_get_ruint (a : Z) : Z := mga_reduction a.            (* get_ruint, cast operators, rmint_to_mpz *)
    (* constructors (rmgrmint.h) *)
    Definition mga_of_ruint (c : Z) : Z := mga_to_mg c.                   (* rmint(const ruint<K>&), mpz_to_rmint *)
    Definition mga_of_unsigned (b : Z) : Z := mga_to_mg b.                (* rmint(T b), T unsigned *)
    Definition mga_of_signed (b : Z) : Z :=          (* as repaired by fix-7: Value(b); if (b<0) Value = -Value; mod_n; if (b<0) sub(Value,p,Value); to_mg *)
      let v := (abs_ru b) mod p in
      let v := if b <? 0 then (p - v) mod B else v in
      mga_to_mg v.
    Definition mga_of_rint (c : Z) : Z :=                                 (* Value(|c|); to_mg; if (c<0) neg(this) *)
      let v := mga_to_mg (Z.abs c) in
      if c <? 0 then rm_neg p v else v.
    Definition mga_of_mgi (c : Z) : Z := mga_to_mg c.                     (* rmint(const rmint<K,MGI>&) *)
    (* rmmul.h: lmul(resmul, b, c); reduction(a, resmul) -- square: lsquare *)
    Definition mga_mul (b c : Z) : Z := mga_reduction (b * c).
    Definition mga_square (b : Z) : Z := mga_reduction (b * b).
    Definition mga_mul_T (b c : Z) : Z := mga_mul b (mga_of_unsigned c).  (* rmgmul.h: rmint cr(c); mul(a,b,cr) *)
    (* mixed forms with a signed native operand: rmint cr(c) first (rmgmul.h, rmadd.h, rmsub.h, rmdiv.h, rmgaddmul.h);
       inv(a, T b): rmint br(b); inv(a, br)   [as repaired by frag/C07.fix-5] *)
    Definition mga_mul_Ti (b c : Z) : Z := mga_mul b (mga_of_signed c).
    Definition mga_add := rm_add p.
    Definition mga_sub := rm_sub p.
    Definition mga_subin := rm_subin p.
    Definition mga_neg := rm_neg p.
    Definition mga_add_T (b c : Z) : Z := rm_add p b (mga_of_unsigned c).
    Definition mga_sub_T (b c : Z) : Z := rm_sub p b (mga_of_unsigned c).
    Definition mga_T_sub (c b : Z) : Z := rm_neg p (rm_sub p b (mga_of_unsigned c)).   (* operator-(T, rmint) *)
    (* rmginv.h: reduction(a, b); inv_mod(a, a, p); to_mg(a) *)
    Definition mga_inv (b : Z) : Z := mga_to_mg (inv_mod B (mga_reduction b) p).
    Definition mga_inv_T (b : Z) : Z := mga_inv (mga_of_unsigned b).       (* inv(a, T b), T unsigned: rmint br(b); inv(a, br) *)
    Definition mga_inv_Ti (b : Z) : Z := mga_inv (mga_of_signed b).        (* T signed *)
    (* rmdiv.h: inv(ci, c); if (ci == 0) reset(a) else mul(a, b, ci) *)
    Definition mga_div (b c : Z) : Z :=
      let ci := mga_inv c in if ci =? 0 then 0 else mga_mul b ci.
    (* rmgaddmul.h: mul(res, b, c); add(a, res) *)
    Definition mga_addmul (a b c : Z) : Z := rm_add p a (mga_mul b c).
    (* rmgexp.h, UDItype exponent *)
    Definition mga_exp_u (b e : Z) : Z := pow_lsb_stop mga_mul 64 (g_r M) b e.
    (* rmgexp.h, ruint<K> exponent: 4-bit windows from the top; 16 * NBLIMB windows.
       g[0] = r, g[i] = g[i-1]*b; per window: a = a*g[w], then four squarings, except after the last window *)
    Fixpoint mga_table (n : nat) (b : Z) : list Z :=          (* g[n] :: ... :: g[0] *)
      match n with O => g_r M :: nil | S m => let t := mga_table m b in mga_mul (hd 0 t) b :: t end.
    Definition mga_g (tab : list Z) (i : Z) : Z := nth (15 - Z.to_nat i) tab 0.
    Fixpoint mga_win_loop (tab : list Z) (n : nat) (a c : Z) : Z :=
      match n with
      | O => a
      | S m =>
          let w := Z.land (Z.shiftr c (4 * Z.of_nat m)) 15 in
          let a := mga_mul a (mga_g tab w) in
          match m with
          | O => a
          | S _ => mga_win_loop tab m (mga_square (mga_square (mga_square (mga_square a)))) c
          end
      end.
    Definition mga_exp_ru (b c : Z) : Z := mga_win_loop (mga_table 15 b) (16 * 2 ^ k)%nat (g_r M) c.
    (* rmcmp.h: a == b on the representations; a == ruint: the ruint is montgomerized first *)
    Definition mga_eq (a b : Z) : bool := a =? b.
    Definition mga_eq_ruint (a c : Z) : bool := a =? mga_of_ruint c.
  End MGA.

  (* ================= rmint<K, MG_INACTIVE> *)
  Section MGI.
    Variable p : Z.
    Definition mgi_of_ruint (c : Z) : Z := c mod p.
    (* rmint(T b), T signed: Value(|b|); mod_n(Value, p); if (b < 0) neg(this)   [as repaired by frag/C07.fix-3] *)
    Definition mgi_of_signed (b : Z) : Z :=          (* Value(b); if (b<0) Value = -Value; mod_n; if (b<0) neg   [fix-3, fix-7] *)
      let v := (abs_ru b) mod p in if b <? 0 then rm_neg p v else v.
    Definition mgi_of_rint (c : Z) : Z :=
      let v := (Z.abs c) mod p in if c <? 0 then rm_neg p v else v.
    Definition mgi_get_ruint (a : Z) : Z := a.
    Definition mgi_mul (b c : Z) : Z := (b * c) mod p.           (* lmul; mod_n *)
    Definition mgi_mul_T (b c : Z) : Z := mgi_mul b (mgi_of_ruint c).      (* rmbmul.h as repaired by frag/C07.fix-4: rmint cr(c); mul(a,b,cr) *)
    Definition mgi_mul_Ti (b c : Z) : Z := mgi_mul b (mgi_of_signed c).
    Definition mgi_add := rm_add p.
    Definition mgi_sub := rm_sub p.
    Definition mgi_subin := rm_subin p.
    Definition mgi_neg := rm_neg p.
    Definition mgi_add_T (b c : Z) : Z := rm_add p b (mgi_of_ruint c).
    Definition mgi_sub_T (b c : Z) : Z := rm_sub p b (mgi_of_ruint c).
    Definition mgi_T_sub (c b : Z) : Z := rm_neg p (rm_sub p b (mgi_of_ruint c)).
    Definition mgi_inv (b : Z) : Z := inv_mod B b p.
    Definition mgi_inv_T (b : Z) : Z := mgi_inv (mgi_of_ruint b).
    Definition mgi_inv_Ti (b : Z) : Z := mgi_inv (mgi_of_signed b).
    Definition mgi_div (b c : Z) : Z :=
      let ci := mgi_inv c in if ci =? 0 then 0 else mgi_mul b ci.
    Definition mgi_addmul (a b c : Z) : Z := (b * c + a) mod p.   (* laddmul(res, b, c, a); reduction *)
    (* rmbexp.h -> ruexp.h exp_mod: a = 1; every bit of the exponent type, LSB first *)
    Definition mgi_exp (nbits : nat) (b e : Z) : Z := pow_lsb mgi_mul nbits (if p =? 1 then 0 else 1) b e.   (* a = (n == 1u) ? 0u : 1u *)
  End MGI.
  (* rmint<K,MGI>(const rmint<K,MGA>&): leaves Montgomery form (as repaired by frag/C07.fix-2), then reduction *)
  Definition mgi_of_mga (M : mgmod) (c : Z) : Z := (mga_get_ruint M c) mod (g_p M).

  (* ================= Givaro::Montgomery<ruint<K>> *)
  Definition mr_mk (p : Z) : mgmod :=
    let np := (- p) mod B in
    let p1 := arazi_qi k np in                    (* arazi_qi(_p1, -_p) *)
    let r := np mod p in                          (* mod_n(_r, -_p, _p) *)
    let r2 := (r * r) mod p in
    let r3 := (r2 * r) mod p in
    let one := r in
    let mOne := reduction p p1 (((p - 1) mod B) * r2) in     (* to_mg(mOne, _p - 1u) = mul(mOne, _p - 1, _r2) *)
    MkMod p p1 r r2 r3 one mOne.
  Section MR.
    Variable M : mgmod.
    Let p := g_p M.
    Definition mr_reduc (b : Z) : Z := reduction p (g_p1 M) b.
    Definition mr_mul (a b : Z) : Z := mr_reduc (a * b).
    Definition mr_to_mg (b : Z) : Z := mr_mul b (g_r2 M).
    Definition mr_add := rm_add p.
    (* montgomery-ruint.inl sub: lt = (a < b); sub(r, a, b); if (lt) add(r, _p) *)
    Definition mr_sub (a b : Z) : Z :=
      let lt := a <? b in let r := (a - b) mod B in if lt then (r + p) mod B else r.
    Definition mr_subin := rm_subin p.
    Definition mr_neg := rm_neg p.
    Definition mr_inv (a : Z) : Z := mr_mul (inv_mod B a p) (g_r3 M).          (* inv_mod; mulin(r, _r3) *)
    Definition mr_div (a b : Z) : Z := mr_mul a (mr_inv b).                     (* Element ib; mul(r, a, inv(ib, b)) *)
    Definition mr_divin (r a : Z) : Z := mr_mul r (mr_inv a).
    Definition mr_axpy (a b c : Z) : Z := mr_add (mr_mul a b) c.
    Definition mr_axpyin (r a b : Z) : Z := mr_add r (mr_mul a b).
    Definition mr_maxpy (a b c : Z) : Z := mr_sub c (mr_mul a b).
    Definition mr_maxpyin (r a b : Z) : Z := mr_subin r (mr_mul a b).
    Definition mr_axmy (a b c : Z) : Z := mr_sub (mr_mul a b) c.                (* Element ab; mul(ab, a, b); sub(r, ab, c) *)
    Definition mr_axmyin (r a b : Z) : Z := mr_sub (mr_mul a b) r.
    (* init<T> / init(Integer): reduce(r, Caster<Element>(|a|)); if (a<0) negin(r); to_mg(r) *)
    Definition mr_init (a : Z) : Z :=
      let r := ((Z.abs a) mod B) mod p in
      let r := if a <? 0 then mr_neg r else r in
      mr_to_mg r.
    Definition mr_convert (a : Z) : Z := mr_reduc a.
    Definition mr_isUnit (a : Z) : bool := Z.gcd a p =? 1.
  End MR.
End RecIntMG.

(* ------------------------------------------------------------------ wrappers for the correspondence run *)
Definition opt_z (o : option Z) : Z := match o with Some z => z | None => -1 end.
Definition opt_b (o : option bool) : Z := match o with Some true => 1 | Some false => 0 | None => -1 end.
Definition b2z (b : bool) : Z := if b then 1 else 0.
