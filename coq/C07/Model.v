(* C07 — executable models, written after the code (no proofs in this file).

   Part 1: Givaro::Montgomery<int32_t>  (src/kernel/ring/montgomery-int32.{h,inl},
           extended_euclid/invext of src/kernel/ring/modular-general.inl).
           Element = Residu_t = uint32_t: every intermediate is a uint32_t, modelled over Z with an
           explicit wrap u32 after each C operation.  The radix B32 = 2^HALF_BITS32, MASK32 and
           maxCardinality() are NOT written here: they come from Param.v, which the check generates
           from the compiled implementation.
   Part 2: RecInt Montgomery (rmint<K,MGA>, rmint<K,MGI>, Givaro::Montgomery<ruint<K>>) at the Z level,
           over a record of RecInt primitives (add, sub, mul, lmul, laddmul, cmp, arazi_qi, mod_n,
           inv_mod) whose Z-level specifications are what C06 proves of the limb model. *)
From Coq Require Import ZArith Bool List.
From C07 Require Import Param.
Local Open Scope Z_scope.
Arguments Z.mul : simpl never.
Arguments Z.add : simpl never.
Arguments Z.sub : simpl never.
Arguments Z.pow : simpl never.
Arguments Z.modulo : simpl never.
Arguments Z.div : simpl never.
Arguments Z.quot : simpl never.
Arguments Z.rem : simpl never.

(* ------------------------------------------------------------------ C integer types *)
Definition W32 : Z := 4294967296.              (* 2^32 *)
Definition W64 : Z := 18446744073709551616.    (* 2^64 *)
Definition u32 (z : Z) : Z := z mod W32.                         (* conversion to / arithmetic in uint32_t *)
Definition s32 (z : Z) : Z := (z + 2147483648) mod W32 - 2147483648.   (* int32_t, two's complement wrap *)
Definition u64 (z : Z) : Z := z mod W64.
Definition s64 (z : Z) : Z := (z + 9223372036854775808) mod W64 - 9223372036854775808.

(* ------------------------------------------------------------------ modular-general.inl *)
(* extended_euclid<Storage_t> (integral version); w is the wrap of Storage_t (u32 for the
   constructor's invext(_p, B32), s32 for inv/isUnit).  The while loop is a Fixpoint on fuel;
   None = fuel exhausted.  State (u0,u1,r1,d,neg); C `/` is Z.quot. *)
Fixpoint ee_loop (w : Z -> Z) (fuel : nat) (u0 u1 r1 d : Z) (neg : bool) : option (Z * Z * bool) :=
  if r1 =? 0 then Some (u0, d, neg) else
  match fuel with
  | O => None
  | S f =>
      let q := Z.quot d r1 in
      let t := u1 in
      let u1' := w (w (q * u1) + u0) in
      let u0' := t in
      let t' := r1 in
      let r1' := w (d - w (q * r1)) in
      let d' := t' in
      ee_loop w f u0' u1' r1' d' (negb neg)
  end.

(* returns (x, d) *)
Definition extended_euclid (w : Z -> Z) (a b : Z) : option (Z * Z) :=
  match ee_loop w (S (Z.to_nat (Z.abs a))) 0 1 a b true with
  | None => None
  | Some (u0, d, neg) => Some ((if neg && (0 <? u0) then w (b - u0) else u0), d)
  end.

(* invext(x,a,b) / invext(a,b): extended_euclid, d dropped (the __GIVARO_DEBUG throw is compiled out) *)
Definition invext (w : Z -> Z) (a b : Z) : option Z :=
  match extended_euclid w a b with None => None | Some (x, _) => Some x end.

(* ------------------------------------------------------------------ Montgomery<int32_t> *)
Record mg32 : Type := Mk32 { m_p : Z; m_Bp : Z; m_B2p : Z; m_B3p : Z; m_nim : Z; m_one : Z; m_mOne : Z }.

(* Montgomery(Residu_t p, int = 1): member initialisers in declaration order, then the body *)
Definition mk32 (p : Z) : option mg32 :=
  let _p := u32 p in
  let _Bp := u32 (B32 mod _p) in
  let _B2p := u32 ((u32 (Z.shiftl _Bp HALF_BITS32)) mod _p) in
  let _B3p := u32 ((u32 (Z.shiftl _B2p HALF_BITS32)) mod _p) in
  match invext u32 _p B32 with
  | None => None
  | Some i =>
      let _nim := u32 (B32 - i) in
      let one := _Bp in
      let mOne := u32 (_p - one) in
      Some (Mk32 _p _Bp _B2p _B3p _nim one mOne)
  end.

Section Ring32.
  Variable F : mg32.
  Let p := m_p F.
  Let nim := m_nim F.

  (* (r>=_p ? r-=_p : r) *)
  Definition csub (r : Z) : Z := if p <=? r then u32 (r - p) else r.

  Definition redcal (c : Z) : Z :=
    let c0 := u32 (Z.land c MASK32) in
    let c0 := u32 (Z.land (u32 (c0 * nim)) MASK32) in
    let c0 := u32 (c + u32 (c0 * p)) in
    let c0 := Z.shiftr c0 HALF_BITS32 in
    csub c0.

  Definition redcsal (c : Z) : Z :=
    let c0 := u32 (Z.land (u32 (c * nim)) MASK32) in
    let c0 := u32 (c + u32 (c0 * p)) in
    let c0 := Z.shiftr c0 HALF_BITS32 in
    csub c0.

  Definition redc (c : Z) : Z :=
    let r := u32 (Z.land c MASK32) in
    let r := u32 (r * nim) in
    let r := Z.land r MASK32 in
    let r := u32 (r * p) in
    let r := u32 (r + c) in
    let r := Z.shiftr r HALF_BITS32 in
    csub r.

  Definition redcs (c : Z) : Z :=
    let r := u32 (Z.land (u32 (c * nim)) MASK32) in
    let r := u32 (c + u32 (r * p)) in
    let r := Z.shiftr r HALF_BITS32 in
    csub r.

  Definition redcin (r : Z) : Z :=
    let c0 := u32 (Z.land r MASK32) in
    let c0 := u32 (Z.land (u32 (c0 * nim)) MASK32) in
    let r := u32 (r + u32 (c0 * p)) in
    let r := Z.shiftr r HALF_BITS32 in
    csub r.

  Definition redcsin (r : Z) : Z :=
    let c0 := u32 (Z.land (u32 (r * nim)) MASK32) in
    let r := u32 (r + u32 (c0 * p)) in
    let r := Z.shiftr r HALF_BITS32 in
    csub r.

  (* the __GIVARO_MONTG32_* macros, expanded *)
  Definition mul32 (a b : Z) : Z := redc (u32 (a * b)).                       (* MUL   *)
  Definition mulin (r a : Z) : Z := redcin (u32 (r * a)).                   (* MULIN: redcin(r*=a) *)
  Definition sub32 (a b : Z) : Z := if b <=? a then u32 (a - b) else u32 (u32 (p - b) + a).   (* SUB *)
  Definition subin (r a : Z) : Z := if r <? a then u32 (r + u32 (p - a)) else u32 (r - a).  (* SUBIN *)
  Definition add32 (a b : Z) : Z := let r := u32 (a + b) in if r <? p then r else u32 (r - p).
  Definition addin (r a : Z) : Z := let r := u32 (r + a) in if r <? p then r else u32 (r - p).
  Definition axpy (a b c : Z) : Z :=                                        (* MULADD *)
    let r := u32 (redcal (u32 (a * b)) + c) in if r <? p then r else u32 (r - p).
  Definition axpyin (r a b : Z) : Z :=                                      (* MULADDIN *)
    let r := u32 (r + redcal (u32 (a * b))) in if r <? p then r else u32 (r - p).
  Definition neg (a : Z) : Z := if a =? 0 then 0 else u32 (p - a).
  Definition negin (r : Z) : Z := if r =? 0 then 0 else u32 (p - r).

  (* inv: int32_t t; invext(t, int32_t(a), int32_t(_p)); if (t < 0) t += _p; redc(r, uint32_t(t)*_B3p) *)
  Definition inv (a : Z) : option Z :=
    match invext s32 (s32 a) (s32 p) with
    | None => None
    | Some t =>
        let t := if t <? 0 then s32 (u32 (u32 t + p)) else t in
        Some (redc (u32 (u32 t * m_B3p F)))
    end.
  Definition isUnit (a : Z) : option bool :=
    match extended_euclid s32 (s32 a) (s32 p) with
    | None => None
    | Some (_, d) => Some ((d =? 1) || (d =? -1))
    end.
  Definition div32 (a b : Z) : option Z :=          (* mulin(inv(r,b), a) *)
    match inv b with None => None | Some r => Some (mulin r a) end.
  Definition divin (r a : Z) : option Z :=        (* inv(ia,a); mulin(r,ia) *)
    match inv a with None => None | Some ia => Some (mulin r ia) end.
  Definition invin (r : Z) : option Z := inv r.
  Definition axmy (a b c : Z) : Z := subin (mul32 a b) c.
  Definition maxpy (a b c : Z) : Z := sub32 c (mul32 a b).
  Definition maxpyin (r a b : Z) : Z := subin r (mul32 a b).
  Definition axmyin (r a b : Z) : Z := negin (maxpyin r a b).

  (* initialisation *)
  Definition init0 : Z := 0.
  Definition init_tail (a_neg : bool) (r : Z) : Z :=
    let r := if a_neg then negin r else r in redc (u32 (r * m_B2p F)).
  (* init(Element&, double): integer-valued a (std::fmod of an integer-valued double by an integer-valued
     double is exact); |a| mod p, cast to uint32_t *)
  Definition init_double (a : Z) : Z := init_tail (a <? 0) (u32 (Z.rem (Z.abs a) p)).
  (* init(Element&, int64_t): std::abs wraps at INT64_MIN (undefined behaviour in C++; modelled as wrap) *)
  Definition init_int64 (a : Z) : Z :=
    let ab := if a <? 0 then s64 (- a) else a in
    init_tail (a <? 0) (u32 (Z.rem ab (s64 p))).
  Definition init_uint64 (a : Z) : Z := init_tail false (u32 (a mod (u64 p))).
  (* init(Element&, const Integer&): ((a<0)?-a:a) % _p on Integer is exact *)
  Definition init_integer (a : Z) : Z := init_tail (a <? 0) (u32 (Z.abs a mod p)).
  (* template init, T = int (also short/char after promotion): Caster<Element>(r, a<0 ? -a : a) %= _p *)
  Definition init_int32 (a : Z) : Z :=
    let ab := if a <? 0 then s32 (- a) else a in
    init_tail (a <? 0) (u32 (u32 ab mod p)).
  Definition init_uint32 (a : Z) : Z := init_tail false (u32 (u32 a mod p)).
  (* template init, T = long long / unsigned long long: the Caster truncates to uint32_t BEFORE %= *)
  Definition init_longlong (a : Z) : Z :=
    let ab := if a <? 0 then s64 (- a) else a in
    init_tail (a <? 0) (u32 (u32 ab mod p)).
  Definition init_ulonglong (a : Z) : Z := init_tail false (u32 (u32 a mod p)).

  (* convert: r = Caster<T>(redc(c, a)) *)
  Definition convert (a : Z) : Z := redc a.
  (* write(ostream&, a) prints redcs(tmp, a) *)
  Definition write_value (a : Z) : Z := redcs a.

  Definition isZero (a : Z) : bool := a =? 0.
  Definition isOne (a : Z) : bool := a =? m_one F.
  Definition isMOne (a : Z) : bool := a =? m_mOne F.
  Definition areEqual (a b : Z) : bool := a =? b.
End Ring32.

(* ==================================================================== Part 2: RecInt Montgomery *)
(* RecInt primitives on ruint<K> values seen as integers in [0, B).  The C06 theorems state that the
   limb-level code computes exactly these functions. *)
Record prims : Type := MkPrims {
  pB : Z;                                    (* B = 2^(2^K) *)
  p_add : Z -> Z -> Z * bool;                (* add(r, a, b, c): (a, carry) *)
  p_sub : Z -> Z -> Z;                       (* sub(a, b, c): b - c mod B *)
  p_mul : Z -> Z -> Z;                       (* mul(a, b, c): low part *)
  p_lmul : Z -> Z -> Z;                      (* lmul(ruint<K+1>&, b, c): the double-size product *)
  p_laddmul : Z -> Z -> Z -> bool * Z * Z;   (* laddmul(r, ah, al, b, c, d), d of size K or K+1: (r, ah, al) *)
  p_ltb : Z -> Z -> bool;                    (* operator< *)
  p_leb : Z -> Z -> bool;                    (* operator>= swapped *)
  p_eqb : Z -> Z -> bool;
  p_neg : Z -> Z;                            (* unary minus on ruint<K> *)
  p_arazi_qi : Z -> Z;                       (* arazi_qi(u, a) *)
  p_mod_n : Z -> Z -> Z;                     (* mod_n(a, b, n), b of size K or K+1 *)
  p_inv_mod : Z -> Z -> Z                    (* inv_mod(a, b, c) *)
}.

(* the Z-level instance: each primitive IS its specification *)
Definition inv_mod_z (b c : Z) : Z :=
  match extended_euclid (fun z => z) b c with Some (x, _) => x mod c | None => 0 end.
Definition zprims (Bk : Z) : prims :=
  MkPrims Bk
    (fun a b => ((a + b) mod Bk, Bk <=? a + b))
    (fun a b => (a - b) mod Bk)
    (fun a b => (a * b) mod Bk)
    (fun a b => a * b)
    (fun b c d => let s := b * c + d in (Bk * Bk <=? s, (s / Bk) mod Bk, s mod Bk))
    Z.ltb Z.leb Z.eqb
    (fun a => (- a) mod Bk)
    (fun a => match invext (fun z => z) (a mod Bk) Bk with Some x => x | None => 0 end)
    (fun b n => b mod n)
    inv_mod_z.

(* module data of rmint<K,MGA> (static members p, p1, r) and of Montgomery<ruint<K>> (_p,_p1,_r,_r2,_r3) *)
Record mgmod : Type := MkMod { g_p : Z; g_p1 : Z; g_r : Z; g_r2 : Z; g_r3 : Z; g_one : Z; g_mOne : Z }.

Section RecIntMG.
  Variable P : prims.
  Let B := pB P.

  (* ---- rmgreduc.h / montgomery-ruint.inl: the Montgomery reduction, for a ruint<K> or ruint<K+1> input.
     mul(a0, a.Low, p1); laddmul(r, t, a0, a0, p, a); if (r || t >= p) sub(t, p) *)
  Definition reduction (p p1 : Z) (a : Z) : Z :=
    let a0 := p_mul P (a mod B) p1 in            (* a.Low (a itself when a is a ruint<K>) *)
    let '(r, t, _) := p_laddmul P a0 p a in
    if r || p_leb P p t then p_sub P t p else t.

  (* ---- rmint<K,MGA> *)
  (* init_module: copy(p,_p); arazi_qi(p1, -_p); div_r(r, -_p, _p)   [div_r = remainder, as mod_n] *)
  Definition mga_init_module (p : Z) : mgmod :=
    let p1 := p_arazi_qi P (p_neg P p) in
    let r := p_mod_n P (p_neg P p) p in
    MkMod p p1 r 0 0 r 0.
  Section MGA.
    Variable M : mgmod.
    Let p := g_p M.
    (* to_mg(a, b): res.High = b, res.Low = 0; mod_n(a, res, p) *)
    Definition mga_to_mg (b : Z) : Z := p_mod_n P (b * B) p.
    Definition mga_reduction (a : Z) : Z := reduction p (g_p1 M) a.
    Definition mga_get_ruint (a : Z) : Z := mga_reduction a.           (* cast to an integer type *)
    Definition mga_of_ruint (c : Z) : Z := mga_to_mg c.                  (* rmint(const ruint<K>&) *)
    Definition mga_mul (b c : Z) : Z := mga_reduction (p_lmul P b c).    (* rmmul.h mul / operator* *)
    Definition mga_square (b : Z) : Z := mga_reduction (p_lmul P b b).   (* lsquare *)
    (* rmadd.h: add(r, a, b, c); if (r || a >= p) sub(a, p) *)
    Definition rm_add (p : Z) (b c : Z) : Z :=
      let '(a, r) := p_add P b c in if r || p_leb P p a then p_sub P a p else a.
    (* rmsub.h (three-address): if (b < c) { sub(a, p, c); add(a, b) } else sub(a, b, c) *)
    Definition rm_sub (p : Z) (b c : Z) : Z :=
      if p_ltb P b c then fst (p_add P (p_sub P p c) b) else p_sub P b c.
    (* rmsub.h (in place): if (a < b) add(a, p - b) else sub(a, b) *)
    Definition rm_subin (p : Z) (a b : Z) : Z :=
      if p_ltb P a b then fst (p_add P a (p_sub P p b)) else p_sub P a b.
    (* rmneg.h: if (b != 0) sub(a, p, b) else reset *)
    Definition rm_neg (p : Z) (b : Z) : Z := if p_eqb P b 0 then 0 else p_sub P p b.
    Definition mga_add := rm_add p.
    Definition mga_sub := rm_sub p.
    Definition mga_subin := rm_subin p.
    Definition mga_neg := rm_neg p.
    (* rmginv.h: reduction(a, b); inv_mod(a, a, p); to_mg(a) *)
    Definition mga_inv (b : Z) : Z := mga_to_mg (p_inv_mod P (mga_reduction b) p).
    (* rmdiv.h: inv(ci, c); if (ci == 0) reset(a) else mul(a, b, ci) *)
    Definition mga_div (b c : Z) : Z :=
      let ci := mga_inv c in if p_eqb P ci 0 then 0 else mga_mul b ci.
    (* rmgexp.h, UDItype exponent: binary square and multiply, exp consumed from the low bit *)
    Fixpoint mga_exp_loop (fuel : nat) (a x e : Z) : Z :=
      match fuel with
      | O => a
      | S f => if e =? 0 then a else
          let a := if Z.odd e then mga_mul a x else a in
          let x := mga_mul x x in
          mga_exp_loop f a x (Z.shiftr e 1)
      end.
    Definition mga_exp_u (b e : Z) : Z := mga_exp_loop 64 (g_r M) b e.
    (* rmgexp.h, ruint<K> exponent: 4-bit windows from the top; nw = 16 * NBLIMB windows.
       g[0] = r, g[i] = g[i-1]*b; per window: a = a*g[w]; then four squarings, except after the last *)
    Fixpoint mga_table (n : nat) (b : Z) : list Z :=
      match n with O => g_r M :: nil | S m => let t := mga_table m b in mga_mul (hd 0 t) b :: t end.
    Definition mga_g (tab : list Z) (i : Z) : Z := nth (15 - Z.to_nat i) tab 0.   (* tab is g[15] :: ... :: g[0] *)
    Fixpoint mga_win_loop (tab : list Z) (n : nat) (a c : Z) : Z :=
      match n with
      | O => a
      | S m =>
          let w := Z.land (Z.shiftr c (4 * Z.of_nat m)) 15 in
          let a := mga_mul a (mga_g tab w) in
          match m with
          | O => a
          | S _ => mga_win_loop tab m (mga_square (mga_square (mga_square (mga_square a)))) c
          end
      end.
    Definition mga_exp_ru (nw : nat) (b c : Z) : Z := mga_win_loop (mga_table 15 b) nw (g_r M) c.
  End MGA.

  (* ---- rmint<K,MGI> (no Montgomery form): rmbreduc.h, rmbmul.h/rmmul.h, rmbinv.h, rmbexp.h *)
  Section MGI.
    Variable p : Z.
    Definition mgi_of_ruint (c : Z) : Z := p_mod_n P c p.
    Definition mgi_get_ruint (a : Z) : Z := a.
    Definition mgi_mul (b c : Z) : Z := p_mod_n P (p_lmul P b c) p.
    Definition mgi_add := rm_add p.
    Definition mgi_sub := rm_sub p.
    Definition mgi_subin := rm_subin p.
    Definition mgi_neg := rm_neg p.
    Definition mgi_inv (b : Z) : Z := p_inv_mod P b p.
    Definition mgi_div (b c : Z) : Z :=
      let ci := mgi_inv c in if p_eqb P ci 0 then 0 else mgi_mul b ci.
    Fixpoint mgi_exp_loop (fuel : nat) (a x e : Z) : Z :=
      match fuel with
      | O => a
      | S f => if e =? 0 then a else
          let a := if Z.odd e then mgi_mul a x else a in
          let x := mgi_mul x x in
          mgi_exp_loop f a x (Z.shiftr e 1)
      end.
  End MGI.

  (* ---- Givaro::Montgomery<ruint<K>> (montgomery-ruint.h/.inl) *)
  Definition mr_mul_raw (p p1 : Z) (a b : Z) : Z := reduction p p1 (p_lmul P a b).
  Definition mr_mk (p : Z) : mgmod :=
    let p1 := p_arazi_qi P (p_neg P p) in
    let r := p_mod_n P (p_neg P p) p in
    let r2 := p_mod_n P (p_lmul P r r) p in
    let r3 := p_mod_n P (p_lmul P r2 r) p in
    let one := r in
    let mOne := mr_mul_raw p p1 (p_sub P p 1) r2 in     (* to_mg(mOne, _p - 1u) = mul(mOne, _p-1, _r2) *)
    MkMod p p1 r r2 r3 one mOne.
  Section MR.
    Variable M : mgmod.
    Let p := g_p M.
    Definition mr_reduc (b : Z) : Z := reduction p (g_p1 M) b.
    Definition mr_mul (a b : Z) : Z := mr_reduc (p_lmul P a b).
    Definition mr_to_mg (b : Z) : Z := mr_mul b (g_r2 M).
    Definition mr_add := rm_add p.
    Definition mr_sub := rm_sub p.
    Definition mr_subin := rm_subin p.
    Definition mr_neg := rm_neg p.
    Definition mr_inv (a : Z) : Z := mr_mul (p_inv_mod P a p) (g_r3 M).      (* inv_mod; mulin(r, _r3) *)
    Definition mr_div (a b : Z) : Z := mr_mul (mr_inv b) a.                   (* mulin(inv(r,b), a) *)
    Definition mr_divin (r a : Z) : Z := mr_mul r (mr_inv a).
    Definition mr_axpy (a b c : Z) : Z := mr_add (mr_mul a b) c.
    Definition mr_axpyin (r a b : Z) : Z := mr_add r (mr_mul a b).
    Definition mr_maxpy (a b c : Z) : Z := mr_sub c (mr_mul a b).
    Definition mr_maxpyin (r a b : Z) : Z := mr_subin r (mr_mul a b).
    Definition mr_axmy (a b c : Z) : Z := mr_subin (mr_mul a b) c.
    Definition mr_axmyin (r a b : Z) : Z := mr_sub (mr_mul a b) r.
    (* init<T>: reduce(r, |a|) (x = y % _p); if (a<0) negin(r); to_mg(r) *)
    Definition mr_init (a : Z) : Z :=
      let r := p_mod_n P (Z.abs a) p in
      let r := if a <? 0 then mr_neg r else r in
      mr_to_mg r.
    Definition mr_convert (a : Z) : Z := mr_reduc a.
  End MR.
End RecIntMG.

(* ------------------------------------------------------------------ wrappers for the correspondence run *)
Definition opt_z (o : option Z) : Z := match o with Some z => z | None => -1 end.
Definition opt_b (o : option bool) : Z := match o with Some true => 1 | Some false => 0 | None => -1 end.
Definition b2z (b : bool) : Z := if b then 1 else 0.
