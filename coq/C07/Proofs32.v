(* C07 part 1 — proofs about the model of Givaro::Montgomery<int32_t> (Model.v, Section Ring32). *)
From Coq Require Import ZArith Lia Bool Setoid Morphisms Znumtheory Zpow_facts.
From C07 Require Import Param Model Redc.
Local Open Scope Z_scope.
Ltac Zify.zify_post_hook ::= Z.div_mod_to_equations.

(* ------------------------------------------------------------------ the generated parameters *)
Lemma W32_eq : W32 = 4294967296. Proof. reflexivity. Qed.
Lemma param_halfbits : 0 < HALF_BITS32. Proof. reflexivity. Qed.
Lemma param_B : B32 = 2 ^ HALF_BITS32. Proof. reflexivity. Qed.
Lemma param_mask : MASK32 = Z.ones HALF_BITS32. Proof. reflexivity. Qed.
Lemma param_B_pos : 0 < B32. Proof. reflexivity. Qed.
Lemma param_B_word : B32 * B32 <= W32. Proof. discriminate. Qed.
Lemma param_max_lt_B : maxCardinality32 < B32. Proof. reflexivity. Qed.
(* the header's bound: (p-1)^2 + p(B-1) < 2^32 at the advertised maximum (false from 40505 on) *)
Lemma param_bound : (maxCardinality32 - 1) * (maxCardinality32 - 1) + (B32 - 1) * maxCardinality32 < W32.
Proof. reflexivity. Qed.
Lemma param_max_pos : 0 < maxCardinality32. Proof. reflexivity. Qed.

Definition admissible (p : Z) : Prop := 3 <= p <= maxCardinality32 /\ Z.odd p = true.
Definition canon (p a : Z) : Prop := 0 <= a < p.

Lemma u32_small z : 0 <= z < W32 -> u32 z = z.
Proof. intros H. unfold u32. apply Z.mod_small. exact H. Qed.
Lemma s32_small z : 0 <= z <= 2147483647 -> s32 z = z.
Proof. intros H. unfold s32. rewrite W32_eq. rewrite Z.mod_small by lia. lia. Qed.

(* ------------------------------------------------------------------ extended_euclid *)
Section Euclid.
  Variable w : Z -> Z.
  Variable M : Z.
  Hypothesis Hw : forall z, 0 <= z <= M -> w z = z.
  Variables a b : Z.
  Hypothesis Hb : 0 < b <= M.

  (* the comment in the code, made exact: cofactor identity, gcd preserved, and the two sign-dependent congruences *)
  Definition ee_inv (g u0 u1 r1 d : Z) (neg : bool) : Prop :=
    0 <= u0 <= b /\ 0 <= u1 /\ 0 <= r1 <= M /\ 0 < d <= M /\ u0 * r1 + u1 * d = b /\ Z.gcd d r1 = g /\
    (if neg then eqm b (u0 * a) (- d) /\ eqm b (u1 * a) r1 else eqm b (u0 * a) d /\ eqm b (u1 * a) (- r1)).

  Lemma ee_loop_spec g fuel : forall u0 u1 r1 d neg,
    ee_inv g u0 u1 r1 d neg -> (Z.to_nat r1 < fuel)%nat ->
    exists u0' neg', ee_loop w fuel u0 u1 r1 d neg = Some (u0', g, neg') /\ 0 <= u0' <= b /\
      (if neg' then eqm b (u0' * a) (- g) else eqm b (u0' * a) g).
  Proof.
    induction fuel as [|f IH]; intros u0 u1 r1 d neg Hinv Hf; [lia|].
    destruct Hinv as (Hu0 & Hu1 & Hr1 & Hd & Hid & Hg & Hc).
    cbn [ee_loop]. destruct (Z.eqb_spec r1 0) as [E|E].
    - subst r1. exists u0, neg. rewrite Z.gcd_0_r in Hg. rewrite Z.abs_eq in Hg by lia. rewrite <- Hg.
      split; [reflexivity|]. split; [exact Hu0|]. destruct neg; tauto.
    - assert (Hq : Z.quot d r1 = d / r1) by (apply Z.quot_div_nonneg; lia).
      rewrite Hq. set (q := d / r1).
      assert (Hq0 : 0 <= q) by (apply Z.div_pos; lia).
      assert (Hqr : q * r1 <= d) by (unfold q; rewrite Z.mul_comm; apply Z.mul_div_le; lia).
      assert (Hrem : d - q * r1 = d mod r1) by (unfold q; rewrite Z.mod_eq by lia; ring).
      assert (Hrr : 0 <= d - q * r1 < r1) by (rewrite Hrem; apply Z.mod_pos_bound; lia).
      assert (Hid' : u1 * (d - q * r1) + (q * u1 + u0) * r1 = b) by (rewrite <- Hid; ring).
      assert (Hu1' : q * u1 + u0 <= b) by nia.
      assert (Hqu : 0 <= q * u1 <= b) by nia.
      assert (HM : b <= M) by lia.
      rewrite (Hw (q * u1)) by lia. rewrite (Hw (q * u1 + u0)) by lia.
      rewrite (Hw (q * r1)) by nia. rewrite (Hw (d - q * r1)) by lia.
      apply IH.
      + unfold ee_inv. split; [nia|]. split; [nia|]. split; [lia|]. split; [lia|]. split; [exact Hid'|].
        split.
        * rewrite Hrem. rewrite Z.gcd_comm. rewrite Z.gcd_mod by lia. rewrite Z.gcd_comm. exact Hg.
        * destruct neg; cbn [negb]; destruct Hc as [C0 C1].
          -- split; [exact C1|].
             replace ((q * u1 + u0) * a) with (q * (u1 * a) + u0 * a) by ring. rewrite C0, C1.
             replace (q * r1 + - d) with (- (d - q * r1)) by ring. reflexivity.
          -- split; [exact C1|].
             replace ((q * u1 + u0) * a) with (q * (u1 * a) + u0 * a) by ring. rewrite C0, C1.
             replace (q * - r1 + d) with (d - q * r1) by ring. reflexivity.
      + lia.
  Qed.

  Lemma ee_inv_init g : 0 <= a <= M -> Z.gcd b a = g -> ee_inv g 0 1 a b true.
  Proof.
    intros Ha Hg. unfold ee_inv.
    split; [lia|]. split; [lia|]. split; [lia|]. split; [lia|]. split; [lia|]. split; [exact Hg|].
    split.
    - rewrite Z.mul_0_l. replace (- b) with (b * -1) by ring. rewrite (eqm_mul_n_l b (-1)). reflexivity.
    - rewrite Z.mul_1_l. reflexivity.
  Qed.

  (* extended_euclid returns (x, gcd) with 0 <= x <= b and x * a = gcd (mod b) *)
  Lemma extended_euclid_spec g : 0 <= a <= M -> Z.gcd b a = g ->
    exists x, extended_euclid w a b = Some (x, g) /\ 0 <= x <= b /\ eqm b (x * a) g.
  Proof.
    intros Ha Hg. unfold extended_euclid.
    destruct (ee_loop_spec g (S (Z.to_nat (Z.abs a))) 0 1 a b true (ee_inv_init g Ha Hg)) as (u0 & neg & E & Hu & Hc).
    { rewrite Z.abs_eq by lia. lia. }
    rewrite E. destruct neg; cbn [andb].
    - destruct (Z.ltb_spec 0 u0).
      + exists (w (b - u0)). rewrite (Hw (b - u0)) by lia. split; [reflexivity|]. split; [lia|].
        replace ((b - u0) * a) with (b * a - u0 * a) by ring. rewrite Hc. rewrite (eqm_mul_n_l b a).
        replace (0 - - g) with g by ring. reflexivity.
      + exists u0. split; [reflexivity|]. split; [lia|]. assert (u0 = 0) by lia. subst u0.
        rewrite Z.mul_0_l in *. symmetry. rewrite <- (Z.opp_involutive g). rewrite <- Hc. reflexivity.
    - exists u0. split; [reflexivity|]. split; [lia|]. exact Hc.
  Qed.
End Euclid.

Lemma invext_spec w M a b : (forall z, 0 <= z <= M -> w z = z) -> 1 < b <= M -> 0 <= a <= M -> Z.gcd b a = 1 ->
  exists x, invext w a b = Some x /\ 0 <= x < b /\ eqm b (x * a) 1.
Proof.
  intros Hw Hb Ha Hg.
  destruct (extended_euclid_spec w M Hw a b ltac:(lia) 1 Ha Hg) as (x & E & Hx & Hc).
  exists x. unfold invext. rewrite E. split; [reflexivity|]. split; [|exact Hc].
  destruct (Z.eq_dec x b) as [->|]; [|lia].
  exfalso. rewrite (eqm_mul_n_l b a) in Hc. unfold eqm in Hc. rewrite Z.mod_0_l, Z.mod_1_l in Hc by lia. discriminate.
Qed.

(* ------------------------------------------------------------------ odd p is coprime to the radix *)
Lemma gcd_odd_pow2 p n : 0 <= n -> Z.odd p = true -> Z.gcd (2 ^ n) p = 1.
Proof.
  intros Hn Ho. apply Zgcd_1_rel_prime. apply rel_prime_sym. apply rel_prime_Zpower_r; [exact Hn|].
  apply Zgcd_1_rel_prime.
  pose proof (Z.gcd_divide_l p 2) as Hl. pose proof (Z.gcd_divide_r p 2) as Hr. pose proof (Z.gcd_nonneg p 2) as H0.
  assert (Hle : Z.gcd p 2 <= 2) by (apply Z.divide_pos_le; [lia | exact Hr]).
  assert (Hne : Z.gcd p 2 <> 0) by (intros E; apply Z.gcd_eq_0_r in E; lia).
  destruct (Z.eq_dec (Z.gcd p 2) 2) as [E|E]; [|lia].
  rewrite E in Hl. destruct Hl as [k Hk]. subst p. rewrite Z.mul_comm in Ho. rewrite Z.odd_mul in Ho. discriminate.
Qed.

(* ------------------------------------------------------------------ the ring record and its invariant *)
Record wf32 (F : mg32) : Prop := Wf32 {
  wf_adm : admissible (m_p F);
  wf_nim : 0 <= m_nim F < B32;
  wf_nim_eq : (m_p F * m_nim F + 1) mod B32 = 0;             (* _nim = -1/p mod B *)
  wf_Bp : m_Bp F = B32 mod m_p F;
  wf_B2p : m_B2p F = (B32 * B32) mod m_p F;
  wf_B3p : m_B3p F = (B32 * B32 * B32) mod m_p F;
  wf_one : m_one F = B32 mod m_p F;
  wf_mOne : m_mOne F = m_p F - B32 mod m_p F
}.

Lemma adm_bounds p : admissible p -> 3 <= p /\ p < B32 /\ p * B32 < W32 /\ p < W32.
Proof.
  intros [[H3 Hm] _]. pose proof param_max_lt_B. pose proof param_B_word. pose proof param_B_pos.
  repeat split; try lia; nia.
Qed.

Lemma u32_s32_small_facts : (forall z, 0 <= z <= W32 - 1 -> u32 z = z) /\ (forall z, 0 <= z <= 2147483647 -> s32 z = z).
Proof. split; intros z Hz; [apply u32_small; lia | apply s32_small; lia]. Qed.

(* constructor: Montgomery(Residu_t p, int = 1) *)
Theorem mk32_wf p : admissible p -> exists F, mk32 p = Some F /\ m_p F = p /\ wf32 F.
Proof.
  intros Hadm. destruct (adm_bounds p Hadm) as (H3 & HpB & HpBW & HpW).
  pose proof param_B_pos as HB0. pose proof param_B_word as HBW. pose proof param_halfbits as Hh.
  unfold mk32.
  rewrite (u32_small p) by lia.
  assert (HBp : 0 <= B32 mod p < p) by (apply Z.mod_pos_bound; lia).
  rewrite (u32_small (B32 mod p)) by lia.
  assert (Hsh : forall x, Z.shiftl x HALF_BITS32 = x * B32).
  { intros x. rewrite Z.shiftl_mul_pow2 by lia. rewrite <- param_B. reflexivity. }
  rewrite !Hsh.
  rewrite (u32_small (B32 mod p * B32)) by nia.
  assert (E2 : (B32 mod p * B32) mod p = (B32 * B32) mod p) by (apply Z.mul_mod_idemp_l; lia).
  rewrite E2.
  assert (HB2 : 0 <= (B32 * B32) mod p < p) by (apply Z.mod_pos_bound; lia).
  rewrite (u32_small ((B32 * B32) mod p)) by lia.
  rewrite (u32_small ((B32 * B32) mod p * B32)) by nia.
  assert (E3 : ((B32 * B32) mod p * B32) mod p = (B32 * B32 * B32) mod p) by (apply Z.mul_mod_idemp_l; lia).
  rewrite E3.
  assert (HB3 : 0 <= (B32 * B32 * B32) mod p < p) by (apply Z.mod_pos_bound; lia).
  rewrite (u32_small ((B32 * B32 * B32) mod p)) by lia.
  assert (Hg : Z.gcd B32 p = 1) by (rewrite param_B; apply gcd_odd_pow2; [lia | apply Hadm]).
  destruct (invext_spec u32 (W32 - 1) p B32 (proj1 u32_s32_small_facts) ltac:(rewrite W32_eq in *; unfold B32 in *; lia) ltac:(lia) Hg)
    as (x & Ex & Hx & Hc).
  rewrite Ex.
  assert (Hx0 : x <> 0).
  { intros ->. unfold eqm in Hc. rewrite Z.mul_0_l in Hc. rewrite Z.mod_0_l, Z.mod_1_l in Hc by (unfold B32; lia). discriminate. }
  rewrite (u32_small (B32 - x)) by lia.
  rewrite (u32_small (p - B32 mod p)) by lia.
  eexists. split; [reflexivity|]. split; [reflexivity|].
  constructor; cbn [m_p m_Bp m_B2p m_B3p m_nim m_one m_mOne]; try reflexivity; try exact Hadm; try lia.
  change (eqm B32 (p * (B32 - x) + 1) 0).
  replace (p * (B32 - x) + 1) with (B32 * p - x * p + 1) by ring.
  rewrite (eqm_mul_n_l B32 p). rewrite Hc. reflexivity.
Qed.
