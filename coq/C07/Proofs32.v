(* C07 part 1 — proofs about the model of Givaro::Montgomery<int32_t> (Model.v, Section Ring32). *)
From Coq Require Import ZArith Lia Bool Setoid Morphisms Znumtheory Zpow_facts.
From C07 Require Import Param Model Redc.
Local Open Scope Z_scope.
Ltac Zify.zify_post_hook ::= Z.div_mod_to_equations.

(* ------------------------------------------------------------------ the generated parameters *)
Lemma W32_eq : W32 = 4294967296. Proof. reflexivity. Qed.
Lemma param_halfbits : 0 < HALF_BITS32. Proof. reflexivity. Qed.
Lemma param_B : B32 = 2 ^ HALF_BITS32. Proof. reflexivity. Qed.
Lemma param_mask : MASK32 = Z.ones HALF_BITS32. Proof. reflexivity. Qed.
Lemma param_B_pos : 0 < B32. Proof. reflexivity. Qed.
Lemma param_B_word : B32 * B32 <= W32. Proof. discriminate. Qed.
Lemma param_max_lt_B : maxCardinality32 < B32. Proof. reflexivity. Qed.
(* the header's bound: (p-1)^2 + p(B-1) < 2^32 at the advertised maximum (false from 40505 on) *)
Lemma param_bound : (maxCardinality32 - 1) * (maxCardinality32 - 1) + (B32 - 1) * maxCardinality32 < W32.
Proof. reflexivity. Qed.
Lemma param_max_pos : 0 < maxCardinality32. Proof. reflexivity. Qed.

Definition admissible (p : Z) : Prop := 3 <= p <= maxCardinality32 /\ Z.odd p = true.
Definition canon (p a : Z) : Prop := 0 <= a < p.

Lemma u32_small z : 0 <= z < W32 -> u32 z = z.
Proof. intros H. unfold u32. apply Z.mod_small. exact H. Qed.
Lemma s32_small z : 0 <= z <= 2147483647 -> s32 z = z.
Proof. intros H. unfold s32. rewrite W32_eq. rewrite Z.mod_small by lia. lia. Qed.

(* ------------------------------------------------------------------ extended_euclid *)
Section Euclid.
  Variable w : Z -> Z.
  Variable M : Z.
  Hypothesis Hw : forall z, 0 <= z <= M -> w z = z.
  Variables a b g : Z.
  Hypothesis Hb : 0 < b <= M.

  Definition ee_inv (u0 u1 r1 d : Z) (neg : bool) : Prop :=
    0 <= u0 <= b /\ 0 <= u1 /\ 0 <= r1 <= M /\ 0 < d <= M /\ u0 * r1 + u1 * d = b /\ Z.gcd d r1 = g /\
    (if neg then eqm b (u0 * a) (- d) /\ eqm b (u1 * a) r1 else eqm b (u0 * a) d /\ eqm b (u1 * a) (- r1)).

  Lemma ee_loop_spec fuel : forall u0 u1 r1 d neg,
    ee_inv u0 u1 r1 d neg -> (Z.to_nat r1 < fuel)%nat ->
    exists u0' neg', ee_loop w fuel u0 u1 r1 d neg = Some (u0', g, neg') /\ 0 <= u0' <= b /\
      (if neg' then eqm b (u0' * a) (- g) else eqm b (u0' * a) g).
  Proof.
    induction fuel as [|f IH]; intros u0 u1 r1 d neg Hinv Hf; [lia|].
    destruct Hinv as (Hu0 & Hu1 & Hr1 & Hd & Hid & Hg & Hc).
    cbn [ee_loop]. destruct (Z.eqb_spec r1 0) as [E|E].
    - subst r1. exists u0, neg. rewrite Z.gcd_0_r in Hg. rewrite Z.abs_eq in Hg by lia. subst g.
      split; [reflexivity|]. split; [exact Hu0|]. destruct neg; tauto.
    - assert (Hq : Z.quot d r1 = d / r1) by (apply Z.quot_div_nonneg; lia).
      rewrite Hq. set (q := d / r1).
      assert (Hq0 : 0 <= q) by (apply Z.div_pos; lia).
      assert (Hqr : q * r1 <= d) by (unfold q; rewrite Z.mul_comm; apply Z.mul_div_le; lia).
      assert (Hrem : d - q * r1 = d mod r1) by (unfold q; rewrite Z.mod_eq by lia; ring).
      assert (Hrr : 0 <= d - q * r1 < r1) by (rewrite Hrem; apply Z.mod_pos_bound; lia).
      assert (Hid' : u1 * (d - q * r1) + (q * u1 + u0) * r1 = b) by (rewrite <- Hid; ring).
      assert (Hu1' : q * u1 + u0 <= b) by nia.
      assert (Hqu : 0 <= q * u1 <= b) by nia.
      assert (HM : b <= M) by lia.
      rewrite (Hw (q * u1)) by lia. rewrite (Hw (q * u1 + u0)) by lia.
      rewrite (Hw (q * r1)) by nia. rewrite (Hw (d - q * r1)) by lia.
      apply IH.
      + unfold ee_inv. split; [nia|]. split; [nia|]. split; [lia|]. split; [lia|]. split; [exact Hid'|].
        split.
        * rewrite Hrem. rewrite Z.gcd_comm. rewrite Z.gcd_mod by lia. exact Hg.
        * destruct neg; cbn [negb]; destruct Hc as [C0 C1].
          -- split; [exact C1|].
             replace ((q * u1 + u0) * a) with (q * (u1 * a) + u0 * a) by ring. rewrite C0, C1.
             replace (q * r1 + - d) with (- (d - q * r1)) by ring. reflexivity.
          -- split; [exact C1|].
             replace ((q * u1 + u0) * a) with (q * (u1 * a) + u0 * a) by ring. rewrite C0, C1.
             replace (q * - r1 + d) with (d - q * r1) by ring. reflexivity.
      + lia.
  Qed.

  Hypothesis Ha : 0 <= a <= M.
  Hypothesis Hgcd : Z.gcd b a = g.

  Lemma ee_inv_init : ee_inv 0 1 a b true.
  Proof.
    unfold ee_inv. repeat split; try lia.
    - exact Hgcd.
    - rewrite Z.mul_0_l. replace (- b) with (b * -1) by ring. rewrite (eqm_mul_n_l b (-1)). reflexivity.
    - rewrite Z.mul_1_l. reflexivity.
  Qed.

  (* extended_euclid returns (x, gcd) with x canonical and x * a = gcd (mod b) *)
  Lemma extended_euclid_spec : 1 < b ->
    exists x, extended_euclid w a b = Some (x, g) /\ 0 <= x <= b /\ eqm b (x * a) g.
  Proof.
    intros Hb1. unfold extended_euclid.
    destruct (ee_loop_spec (S (Z.to_nat (Z.abs a))) 0 1 a b true ee_inv_init) as (u0 & neg & E & Hu & Hc).
    { rewrite Z.abs_eq by lia. lia. }
    rewrite E. destruct neg; cbn [andb].
    - destruct (Z.ltb_spec 0 u0).
      + exists (w (b - u0)). rewrite (Hw (b - u0)) by lia. split; [reflexivity|]. split; [lia|].
        replace ((b - u0) * a) with (b * a - u0 * a) by ring. rewrite Hc. rewrite (eqm_mul_n_l b a).
        replace (0 - - g) with g by ring. reflexivity.
      + exists u0. split; [reflexivity|]. split; [lia|]. assert (u0 = 0) by lia. subst u0.
        rewrite Z.mul_0_l in *. symmetry. rewrite <- (Z.opp_involutive g). rewrite <- Hc. reflexivity.
    - exists u0. split; [reflexivity|]. split; [lia|]. exact Hc.
  Qed.
End Euclid.

Lemma invext_spec w M a b : (forall z, 0 <= z <= M -> w z = z) -> 1 < b <= M -> 0 <= a <= M -> Z.gcd b a = 1 ->
  exists x, invext w a b = Some x /\ 0 <= x < b /\ eqm b (x * a) 1.
Proof.
  intros Hw Hb Ha Hg.
  destruct (extended_euclid_spec w M Hw a b 1 ltac:(lia) Ha Hg ltac:(lia)) as (x & E & Hx & Hc).
  exists x. unfold invext. rewrite E. split; [reflexivity|]. split; [|exact Hc].
  destruct (Z.eq_dec x b) as [->|]; [|lia].
  exfalso. rewrite (eqm_mul_n_l b a) in Hc. unfold eqm in Hc. rewrite Z.mod_0_l, Z.mod_1_l in Hc by lia. discriminate.
Qed.

(* ------------------------------------------------------------------ odd p is coprime to the radix *)
Lemma gcd_odd_pow2 p n : 0 <= n -> Z.odd p = true -> Z.gcd (2 ^ n) p = 1.
Proof.
  intros Hn Ho. apply Zgcd_1_rel_prime. apply rel_prime_sym. apply rel_prime_Zpower_r; [exact Hn|].
  apply Zgcd_1_rel_prime.
  pose proof (Z.gcd_divide_l p 2) as Hl. pose proof (Z.gcd_divide_r p 2) as Hr. pose proof (Z.gcd_nonneg p 2) as H0.
  assert (Hle : Z.gcd p 2 <= 2) by (apply Z.divide_pos_le; [lia | exact Hr]).
  assert (Hne : Z.gcd p 2 <> 0) by (intros E; apply Z.gcd_eq_0_r in E; lia).
  destruct (Z.eq_dec (Z.gcd p 2) 2) as [E|E]; [|lia].
  rewrite E in Hl. destruct Hl as [k Hk]. subst p. rewrite Z.mul_comm in Ho. rewrite Z.odd_mul in Ho. discriminate.
Qed.
