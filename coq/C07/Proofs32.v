(* C07 part 1 — proofs about the model of Givaro::Montgomery<int32_t> (Model.v, Section Ring32). *)
From Coq Require Import ZArith Lia Bool List Setoid Morphisms Znumtheory Zpow_facts.
From C07 Require Import Param Model Redc.
Local Open Scope Z_scope.
Ltac Zify.zify_post_hook ::= Z.div_mod_to_equations.

(* ------------------------------------------------------------------ the generated parameters *)
Lemma W32_eq : W32 = 4294967296. Proof. reflexivity. Qed.
Lemma param_halfbits : 0 < HALF_BITS32. Proof. reflexivity. Qed.
Lemma param_B : B32 = 2 ^ HALF_BITS32. Proof. reflexivity. Qed.
Lemma param_mask : MASK32 = Z.ones HALF_BITS32. Proof. reflexivity. Qed.
Lemma param_B_pos : 0 < B32. Proof. reflexivity. Qed.
Lemma param_B_word : B32 * B32 <= W32. Proof. discriminate. Qed.
Lemma param_max_lt_B : maxCardinality32 < B32. Proof. reflexivity. Qed.
(* the header's bound: (p-1)^2 + p(B-1) < 2^32 at the advertised maximum (false from 40505 on) *)
Lemma param_bound : (maxCardinality32 - 1) * (maxCardinality32 - 1) + (B32 - 1) * maxCardinality32 < W32.
Proof. reflexivity. Qed.
Lemma param_max_pos : 0 < maxCardinality32. Proof. reflexivity. Qed.
Lemma param_B_lt_W : B32 < W32. Proof. reflexivity. Qed.
Lemma param_B_gt_1 : 1 < B32. Proof. reflexivity. Qed.

Definition admissible (p : Z) : Prop := 3 <= p <= maxCardinality32 /\ Z.odd p = true.
Definition canon (p a : Z) : Prop := 0 <= a < p.

Lemma u32_small z : 0 <= z < W32 -> u32 z = z.
Proof. intros H. unfold u32. apply Z.mod_small. exact H. Qed.
Lemma s32_small z : 0 <= z <= 2147483647 -> s32 z = z.
Proof. intros H. unfold s32. rewrite W32_eq. rewrite Z.mod_small by lia. lia. Qed.

(* ------------------------------------------------------------------ extended_euclid *)
Section Euclid.
  Variable w : Z -> Z.
  Variable M : Z.
  Hypothesis Hw : forall z, 0 <= z <= M -> w z = z.
  Variables a b : Z.
  Hypothesis Hb : 0 < b <= M.

  (* the comment in the code, made exact: cofactor identity, gcd preserved, and the two sign-dependent congruences *)
  Definition ee_inv (g u0 u1 r1 d : Z) (neg : bool) : Prop :=
    0 <= u0 <= b /\ 0 <= u1 /\ 0 <= r1 <= M /\ 0 < d <= M /\ u0 * r1 + u1 * d = b /\ Z.gcd d r1 = g /\
    (if neg then eqm b (u0 * a) (- d) /\ eqm b (u1 * a) r1 else eqm b (u0 * a) d /\ eqm b (u1 * a) (- r1)).

  Lemma ee_loop_spec g fuel : forall u0 u1 r1 d neg,
    ee_inv g u0 u1 r1 d neg -> (Z.to_nat r1 < fuel)%nat ->
    exists u0' neg', ee_loop w fuel u0 u1 r1 d neg = Some (u0', g, neg') /\ 0 <= u0' <= b /\
      (if neg' then eqm b (u0' * a) (- g) else eqm b (u0' * a) g).
  Proof.
    induction fuel as [|f IH]; intros u0 u1 r1 d neg Hinv Hf; [lia|].
    destruct Hinv as (Hu0 & Hu1 & Hr1 & Hd & Hid & Hg & Hc).
    cbn [ee_loop]. destruct (Z.eqb_spec r1 0) as [E|E].
    - subst r1. exists u0, neg. rewrite Z.gcd_0_r in Hg. rewrite Z.abs_eq in Hg by lia. rewrite <- Hg.
      split; [reflexivity|]. split; [exact Hu0|]. destruct neg; tauto.
    - assert (Hq : Z.quot d r1 = d / r1) by (apply Z.quot_div_nonneg; lia).
      rewrite Hq. set (q := d / r1).
      assert (Hq0 : 0 <= q) by (apply Z.div_pos; lia).
      assert (Hqr : q * r1 <= d) by (unfold q; rewrite Z.mul_comm; apply Z.mul_div_le; lia).
      assert (Hrem : d - q * r1 = d mod r1) by (unfold q; rewrite Z.mod_eq by lia; ring).
      assert (Hrr : 0 <= d - q * r1 < r1) by (rewrite Hrem; apply Z.mod_pos_bound; lia).
      assert (Hid' : u1 * (d - q * r1) + (q * u1 + u0) * r1 = b) by (rewrite <- Hid; ring).
      assert (Hu1' : q * u1 + u0 <= b) by nia.
      assert (Hqu : 0 <= q * u1 <= b) by nia.
      assert (HM : b <= M) by lia.
      rewrite (Hw (q * u1)) by lia. rewrite (Hw (q * u1 + u0)) by lia.
      rewrite (Hw (q * r1)) by nia. rewrite (Hw (d - q * r1)) by lia.
      apply IH.
      + unfold ee_inv. split; [nia|]. split; [nia|]. split; [lia|]. split; [lia|]. split; [exact Hid'|].
        split.
        * rewrite Hrem. rewrite Z.gcd_comm. rewrite Z.gcd_mod by lia. rewrite Z.gcd_comm. exact Hg.
        * destruct neg; cbn [negb]; destruct Hc as [C0 C1].
          -- split; [exact C1|].
             replace ((q * u1 + u0) * a) with (q * (u1 * a) + u0 * a) by ring. rewrite C0, C1.
             replace (q * r1 + - d) with (- (d - q * r1)) by ring. reflexivity.
          -- split; [exact C1|].
             replace ((q * u1 + u0) * a) with (q * (u1 * a) + u0 * a) by ring. rewrite C0, C1.
             replace (q * - r1 + d) with (d - q * r1) by ring. reflexivity.
      + lia.
  Qed.

  Lemma ee_inv_init g : 0 <= a <= M -> Z.gcd b a = g -> ee_inv g 0 1 a b true.
  Proof.
    intros Ha Hg. unfold ee_inv.
    split; [lia|]. split; [lia|]. split; [lia|]. split; [lia|]. split; [lia|]. split; [exact Hg|].
    split.
    - rewrite Z.mul_0_l. replace (- b) with (b * -1) by ring. rewrite (eqm_mul_n_l b (-1)). reflexivity.
    - rewrite Z.mul_1_l. reflexivity.
  Qed.

  (* extended_euclid returns (x, gcd) with 0 <= x <= b and x * a = gcd (mod b) *)
  Lemma extended_euclid_spec g : 0 <= a <= M -> Z.gcd b a = g ->
    exists x, extended_euclid w a b = Some (x, g) /\ 0 <= x <= b /\ eqm b (x * a) g.
  Proof.
    intros Ha Hg. unfold extended_euclid.
    destruct (ee_loop_spec g (S (Z.to_nat (Z.abs a))) 0 1 a b true (ee_inv_init g Ha Hg)) as (u0 & neg & E & Hu & Hc).
    { rewrite Z.abs_eq by lia. lia. }
    rewrite E. destruct neg; cbn [andb].
    - destruct (Z.ltb_spec 0 u0).
      + exists (w (b - u0)). rewrite (Hw (b - u0)) by lia. split; [reflexivity|]. split; [lia|].
        replace ((b - u0) * a) with (b * a - u0 * a) by ring. rewrite Hc. rewrite (eqm_mul_n_l b a).
        replace (0 - - g) with g by ring. reflexivity.
      + exists u0. split; [reflexivity|]. split; [lia|]. assert (u0 = 0) by lia. subst u0.
        rewrite Z.mul_0_l in *. symmetry. rewrite <- (Z.opp_involutive g). rewrite <- Hc. reflexivity.
    - exists u0. split; [reflexivity|]. split; [lia|]. exact Hc.
  Qed.
End Euclid.

Lemma invext_spec w M a b : (forall z, 0 <= z <= M -> w z = z) -> 1 < b <= M -> 0 <= a <= M -> Z.gcd b a = 1 ->
  exists x, invext w a b = Some x /\ 0 <= x < b /\ eqm b (x * a) 1.
Proof.
  intros Hw Hb Ha Hg.
  destruct (extended_euclid_spec w M Hw a b ltac:(lia) 1 Ha Hg) as (x & E & Hx & Hc).
  exists x. unfold invext. rewrite E. split; [reflexivity|]. split; [|exact Hc].
  destruct (Z.eq_dec x b) as [->|]; [|lia].
  exfalso. rewrite (eqm_mul_n_l b a) in Hc. unfold eqm in Hc. rewrite Z.mod_0_l, Z.mod_1_l in Hc by lia. discriminate.
Qed.

(* ------------------------------------------------------------------ odd p is coprime to the radix *)
Lemma gcd_odd_pow2 p n : 0 <= n -> Z.odd p = true -> Z.gcd (2 ^ n) p = 1.
Proof.
  intros Hn Ho. apply Zgcd_1_rel_prime. apply rel_prime_sym. apply rel_prime_Zpower_r; [exact Hn|].
  apply Zgcd_1_rel_prime.
  pose proof (Z.gcd_divide_l p 2) as Hl. pose proof (Z.gcd_divide_r p 2) as Hr. pose proof (Z.gcd_nonneg p 2) as H0.
  assert (Hle : Z.gcd p 2 <= 2) by (apply Z.divide_pos_le; [lia | exact Hr]).
  assert (Hne : Z.gcd p 2 <> 0) by (intros E; apply Z.gcd_eq_0_r in E; lia).
  destruct (Z.eq_dec (Z.gcd p 2) 2) as [E|E]; [|lia].
  rewrite E in Hl. destruct Hl as [k Hk]. subst p. rewrite Z.mul_comm in Ho. rewrite Z.odd_mul in Ho. discriminate.
Qed.

(* ------------------------------------------------------------------ the ring record and its invariant *)
Record wf32 (F : mg32) : Prop := Wf32 {
  wf_adm : admissible (m_p F);
  wf_nim : 0 <= m_nim F < B32;
  wf_nim_eq : (m_p F * m_nim F + 1) mod B32 = 0;             (* _nim = -1/p mod B *)
  wf_Bp : m_Bp F = B32 mod m_p F;
  wf_B2p : m_B2p F = (B32 * B32) mod m_p F;
  wf_B3p : m_B3p F = (B32 * B32 * B32) mod m_p F;
  wf_one : m_one F = B32 mod m_p F;
  wf_mOne : m_mOne F = m_p F - B32 mod m_p F
}.

Lemma adm_bounds p : admissible p -> 3 <= p /\ p < B32 /\ p * B32 < W32 /\ p < W32.
Proof.
  intros [[H3 Hm] _]. pose proof param_max_lt_B. pose proof param_B_word. pose proof param_B_pos.
  repeat split; try lia; nia.
Qed.

Lemma u32_s32_small_facts : (forall z, 0 <= z <= W32 - 1 -> u32 z = z) /\ (forall z, 0 <= z <= 2147483647 -> s32 z = z).
Proof. split; intros z Hz; [apply u32_small; lia | apply s32_small; lia]. Qed.

Lemma mulB_small x p : 0 <= x < p -> p * B32 < W32 -> 0 <= x * B32 < W32.
Proof. intros Hx Hp. pose proof param_B_pos. nia. Qed.

(* constructor: Montgomery(Residu_t p, int = 1) *)
Theorem mk32_wf p : admissible p -> exists F, mk32 p = Some F /\ m_p F = p /\ wf32 F.
Proof.
  intros Hadm. destruct (adm_bounds p Hadm) as (H3 & HpB & HpBW & HpW).
  pose proof param_B_pos as HB0. pose proof param_B_word as HBW. pose proof param_halfbits as Hh.
  pose proof param_B_lt_W as HBltW. pose proof param_B_gt_1 as HB1.
  unfold mk32.
  rewrite (u32_small p) by lia.
  assert (HBp : 0 <= B32 mod p < p) by (apply Z.mod_pos_bound; lia).
  rewrite (u32_small (B32 mod p)) by lia.
  assert (Hsh : forall x, Z.shiftl x HALF_BITS32 = x * B32).
  { intros x. rewrite Z.shiftl_mul_pow2 by lia. rewrite <- param_B. reflexivity. }
  rewrite !Hsh.
  rewrite (u32_small (B32 mod p * B32)) by (apply (mulB_small _ p); assumption).
  assert (E2 : (B32 mod p * B32) mod p = (B32 * B32) mod p) by (apply Z.mul_mod_idemp_l; lia).
  rewrite E2. clear E2.
  assert (HB2 : 0 <= (B32 * B32) mod p < p) by (apply Z.mod_pos_bound; lia).
  rewrite (u32_small ((B32 * B32) mod p)) by lia.
  rewrite (u32_small ((B32 * B32) mod p * B32)) by (apply (mulB_small _ p); assumption).
  assert (E3 : ((B32 * B32) mod p * B32) mod p = (B32 * B32 * B32) mod p) by (apply Z.mul_mod_idemp_l; lia).
  rewrite E3. clear E3.
  assert (HB3 : 0 <= (B32 * B32 * B32) mod p < p) by (apply Z.mod_pos_bound; lia).
  rewrite (u32_small ((B32 * B32 * B32) mod p)) by lia.
  assert (Hg : Z.gcd B32 p = 1) by (rewrite param_B; apply gcd_odd_pow2; [lia | apply Hadm]).
  destruct (invext_spec u32 (W32 - 1) p B32 (proj1 u32_s32_small_facts) ltac:(lia) ltac:(lia) Hg)
    as (x & Ex & Hx & Hc).
  rewrite Ex.
  assert (Hx0 : x <> 0).
  { intros ->. unfold eqm in Hc. rewrite Z.mul_0_l in Hc. rewrite Z.mod_0_l, Z.mod_1_l in Hc by lia. discriminate. }
  rewrite (u32_small (p - B32 mod p)) by lia.
  clear HB2 HB3.
  rewrite (u32_small (B32 - x)) by lia.
  eexists. split; [reflexivity|]. split; [reflexivity|].
  constructor; cbn [m_p m_Bp m_B2p m_B3p m_nim m_one m_mOne]; try reflexivity; try exact Hadm; try lia.
  change (eqm B32 (p * (B32 - x) + 1) 0).
  replace (p * (B32 - x) + 1) with (B32 * p - x * p + 1) by ring.
  rewrite (eqm_mul_n_l B32 p). rewrite Hc. reflexivity.
Qed.

(* ------------------------------------------------------------------ the six reductions are REDC over Z *)
Lemma land_mask z : Z.land z MASK32 = z mod B32.
Proof. rewrite param_mask, param_B. apply Z.land_ones. pose proof param_halfbits. lia. Qed.
Lemma shiftr_B z : Z.shiftr z HALF_BITS32 = z / B32.
Proof. rewrite param_B. apply Z.shiftr_div_pow2. pose proof param_halfbits. lia. Qed.
Lemma B_divides_W : (B32 | W32).
Proof. exists B32. reflexivity. Qed.
Lemma u32_mod_B z : (u32 z) mod B32 = z mod B32.
Proof. unfold u32. symmetry. apply Zmod_div_mod; [apply param_B_pos | reflexivity | apply B_divides_W]. Qed.

Section Ring32Proofs.
  Variable F : mg32.
  Hypothesis HF : wf32 F.
  Let p := m_p F.
  Let nim := m_nim F.

  Local Notation Bi := (Binv B32 p nim).
  Local Notation fm := (from_mg B32 p nim).

  Lemma Hadm : admissible p. Proof. apply HF. Qed.
  Lemma Hp3 : 3 <= p. Proof. apply (adm_bounds p Hadm). Qed.
  Lemma Hp0 : 0 < p. Proof. pose proof Hp3. lia. Qed.
  Lemma HpB : p < B32. Proof. apply (adm_bounds p Hadm). Qed.
  Lemma HB : 0 < B32. Proof. apply param_B_pos. Qed.
  Lemma Hp1 : (p * nim + 1) mod B32 = 0. Proof. apply HF. Qed.
  Lemma Hnim : 0 <= nim < B32. Proof. apply HF. Qed.

  (* the header's bound, from p <= maxCardinality() *)
  Lemma bound32 c : 0 <= c <= (p - 1) * (p - 1) -> c + (B32 - 1) * p < W32 /\ c < p * B32.
  Proof.
    intros Hc. pose proof Hp3. pose proof HpB. pose proof param_bound as Hb. pose proof HB.
    destruct Hadm as [[_ Hm] _]. fold p in Hm.
    assert ((p - 1) * (p - 1) <= (maxCardinality32 - 1) * (maxCardinality32 - 1)) by (apply Z.mul_le_mono_nonneg; lia).
    assert ((B32 - 1) * p <= (B32 - 1) * maxCardinality32) by (apply Z.mul_le_mono_nonneg_l; lia).
    split; [lia|]. nia.
  Qed.

  Lemma canon_sq a b : 0 <= a < p -> 0 <= b < p -> 0 <= a * b <= (p - 1) * (p - 1).
  Proof. intros Ha Hb. split; [nia|]. apply Z.mul_le_mono_nonneg; lia. Qed.
  Lemma canon_le_sq a : 0 <= a < p -> 0 <= a <= (p - 1) * (p - 1).
  Proof. intros Ha. pose proof Hp3. nia. Qed.

  (* the multiplier, in the two ways the code computes it *)
  Lemma mfac_masked c : 0 <= c < W32 ->
    Z.land (u32 (u32 (Z.land c MASK32) * nim)) MASK32 = mfac B32 nim c.
  Proof.
    intros Hc. rewrite !land_mask. rewrite u32_mod_B. unfold mfac.
    rewrite (u32_small (c mod B32)); [reflexivity|].
    pose proof (Z.mod_pos_bound c B32 HB). pose proof param_B_lt_W. lia.
  Qed.
  Lemma mfac_unmasked c : Z.land (u32 (c * nim)) MASK32 = mfac B32 nim c.
  Proof.
    rewrite land_mask. rewrite u32_mod_B. unfold mfac. symmetry. apply Z.mul_mod_idemp_l. pose proof HB. lia.
  Qed.
  Lemma mfac_small c : 0 <= mfac B32 nim c < B32.
  Proof. unfold mfac. apply Z.mod_pos_bound. apply HB. Qed.

  Lemma core c : 0 <= c -> c + (B32 - 1) * p < W32 ->
    Z.shiftr (u32 (c + u32 (mfac B32 nim c * p))) HALF_BITS32 = redc_t B32 p nim c.
  Proof.
    intros Hc Hb. pose proof (mfac_small c) as Hm. pose proof Hp0.
    assert (0 <= mfac B32 nim c * p <= (B32 - 1) * p) by (split; [nia | apply Z.mul_le_mono_nonneg_r; lia]).
    rewrite (u32_small (mfac B32 nim c * p)) by lia.
    rewrite u32_small by lia. rewrite shiftr_B. reflexivity.
  Qed.

  Lemma csub_redc_z c : 0 <= c < p * B32 -> csub F (redc_t B32 p nim c) = redc_z B32 p nim c.
  Proof.
    intros Hc. pose proof (redc_t_range B32 p nim HB Hp0 Hp1 c Hc) as Ht.
    unfold csub, redc_z. fold p. cbv zeta. destruct (Z.leb_spec p (redc_t B32 p nim c)); [|reflexivity].
    apply u32_small. pose proof HpB. pose proof param_B_lt_W. lia.
  Qed.

  Definition in_range (c : Z) : Prop := 0 <= c <= (p - 1) * (p - 1).

  Lemma range_W c : in_range c -> 0 <= c < W32.
  Proof.
    intros Hc. destruct (bound32 c Hc). unfold in_range in Hc. pose proof HB. pose proof Hp0.
    assert (0 <= (B32 - 1) * p) by (apply Z.mul_nonneg_nonneg; lia). lia.
  Qed.

  Theorem redc_fm c : in_range c -> redc F c = fm c.
  Proof.
    intros Hc. destruct (bound32 c Hc) as [Hb1 Hb2]. pose proof (range_W c Hc) as HcW.
    unfold redc. fold p nim. cbv zeta.
    rewrite (mfac_masked c HcW).
    replace (u32 (mfac B32 nim c * p) + c) with (c + u32 (mfac B32 nim c * p)) by ring.
    rewrite core by lia. rewrite csub_redc_z by lia. apply redc_z_spec; [apply HB | apply Hp0 | apply Hp1 | lia].
  Qed.

  Theorem redcal_fm c : in_range c -> redcal F c = fm c.
  Proof.
    intros Hc. destruct (bound32 c Hc) as [Hb1 Hb2]. pose proof (range_W c Hc) as HcW.
    unfold redcal. fold p nim. cbv zeta.
    rewrite (mfac_masked c HcW). rewrite (u32_small (mfac B32 nim c)) by (pose proof (mfac_small c); pose proof param_B_lt_W; lia).
    rewrite core by lia. rewrite csub_redc_z by lia. apply redc_z_spec; [apply HB | apply Hp0 | apply Hp1 | lia].
  Qed.

  Theorem redcin_fm c : in_range c -> redcin F c = fm c.
  Proof.
    intros Hc. destruct (bound32 c Hc) as [Hb1 Hb2]. pose proof (range_W c Hc) as HcW.
    unfold redcin. fold p nim. cbv zeta.
    rewrite (mfac_masked c HcW). rewrite (u32_small (mfac B32 nim c)) by (pose proof (mfac_small c); pose proof param_B_lt_W; lia).
    rewrite core by lia. rewrite csub_redc_z by lia. apply redc_z_spec; [apply HB | apply Hp0 | apply Hp1 | lia].
  Qed.

  Theorem redcsal_fm c : in_range c -> redcsal F c = fm c.
  Proof.
    intros Hc. destruct (bound32 c Hc) as [Hb1 Hb2]. pose proof (range_W c Hc) as HcW.
    unfold redcsal. fold p nim. cbv zeta.
    rewrite (mfac_unmasked c). rewrite (u32_small (mfac B32 nim c)) by (pose proof (mfac_small c); pose proof param_B_lt_W; lia).
    rewrite core by lia. rewrite csub_redc_z by lia. apply redc_z_spec; [apply HB | apply Hp0 | apply Hp1 | lia].
  Qed.

  Theorem redcs_fm c : in_range c -> redcs F c = fm c.
  Proof.
    intros Hc. destruct (bound32 c Hc) as [Hb1 Hb2]. pose proof (range_W c Hc) as HcW.
    unfold redcs. fold p nim. cbv zeta.
    rewrite (mfac_unmasked c). rewrite (u32_small (mfac B32 nim c)) by (pose proof (mfac_small c); pose proof param_B_lt_W; lia).
    rewrite core by lia. rewrite csub_redc_z by lia. apply redc_z_spec; [apply HB | apply Hp0 | apply Hp1 | lia].
  Qed.

  Theorem redcsin_fm c : in_range c -> redcsin F c = fm c.
  Proof.
    intros Hc. destruct (bound32 c Hc) as [Hb1 Hb2]. pose proof (range_W c Hc) as HcW.
    unfold redcsin. fold p nim. cbv zeta.
    rewrite (mfac_unmasked c). rewrite (u32_small (mfac B32 nim c)) by (pose proof (mfac_small c); pose proof param_B_lt_W; lia).
    rewrite core by lia. rewrite csub_redc_z by lia. apply redc_z_spec; [apply HB | apply Hp0 | apply Hp1 | lia].
  Qed.
End Ring32Proofs.

(* ------------------------------------------------------------------ every operation, on the representation *)
Section Ring32Ops.
  Variable F : mg32.
  Hypothesis HF : wf32 F.
  Local Notation p := (m_p F).
  Local Notation nim := (m_nim F).
  Local Notation Bi := (Binv B32 p nim).
  Local Notation fm := (from_mg B32 p nim).
  Local Notation V := (convert F).
  Local Notation can := (canon p).

  Let hB := HB.
  Let hp0 := Hp0 F HF.
  Let hp1 := Hp1 F HF.
  Let hp3 := Hp3 F HF.
  Let hpB := HpB F HF.

  Lemma p_lt_W : 2 * p < W32.
  Proof. pose proof hpB. pose proof param_B_word. pose proof hp3.  nia. Qed.

  Lemma fm_can c : can (fm c).
  Proof. apply from_mg_range. apply hp0. Qed.
  Lemma mod_can z : can (z mod p).
  Proof. apply Z.mod_pos_bound. apply hp0. Qed.

  Lemma convert_fm a : can a -> V a = fm a.
  Proof. intros Ha. unfold convert. apply (redc_fm F HF). apply (canon_le_sq F HF). exact Ha. Qed.

  Lemma sq_W a b : can a -> can b -> u32 (a * b) = a * b /\ in_range F (a * b).
  Proof.
    intros Ha Hb. pose proof (canon_sq F a b Ha Hb) as Hs. split; [|exact Hs].
    apply u32_small. apply (range_W F HF). exact Hs.
  Qed.

  Lemma mul_raw a b : can a -> can b -> mul32 F a b = fm (a * b).
  Proof. intros Ha Hb. destruct (sq_W a b Ha Hb) as [E R]. unfold mul32. rewrite E. apply (redc_fm F HF _ R). Qed.
  Lemma mulin_raw a b : can a -> can b -> mulin F a b = fm (a * b).
  Proof. intros Ha Hb. destruct (sq_W a b Ha Hb) as [E R]. unfold mulin. rewrite E. apply (redcin_fm F HF _ R). Qed.

  Lemma csub_mod r : 0 <= r < 2 * p -> (if r <? p then r else u32 (r - p)) = r mod p.
  Proof.
    intros Hr. pose proof p_lt_W. destruct (Z.ltb_spec r p).
    - symmetry. apply Z.mod_small. lia.
    - rewrite u32_small by lia. apply eqm_to_mod; [|lia].
      replace (r - p) with (r - p * 1) by ring. rewrite (eqm_mul_n_l p 1). rewrite Z.sub_0_r. reflexivity.
  Qed.

  Lemma add_raw a b : can a -> can b -> add32 F a b = (a + b) mod p.
  Proof.
    intros Ha Hb. pose proof p_lt_W. unfold add32.  cbv zeta. unfold canon in *.
    rewrite (u32_small (a + b)) by lia. apply csub_mod. lia.
  Qed.
  Lemma addin_raw a b : can a -> can b -> addin F a b = (a + b) mod p.
  Proof. exact (add_raw a b). Qed.

  Lemma sub_raw a b : can a -> can b -> sub32 F a b = (a - b) mod p.
  Proof.
    intros Ha Hb. pose proof p_lt_W. unfold sub32.  unfold canon in *.
    rewrite (sub_mod_cases p a b Ha Hb). destruct (Z.leb_spec b a).
    - apply u32_small. lia.
    - rewrite (u32_small (p - b)) by lia. apply u32_small. lia.
  Qed.
  Lemma subin_raw a b : can a -> can b -> subin F a b = (a - b) mod p.
  Proof.
    intros Ha Hb. pose proof p_lt_W. unfold subin.  unfold canon in *.
    rewrite (sub_mod_cases p a b Ha Hb). destruct (Z.ltb_spec a b); destruct (Z.leb_spec b a); try lia.
    - rewrite (u32_small (p - b)) by lia. rewrite u32_small by lia. ring.
    - apply u32_small. lia.
  Qed.

  Lemma neg_raw a : can a -> neg F a = (- a) mod p.
  Proof.
    intros Ha. pose proof p_lt_W. unfold neg.  unfold canon in *.
    rewrite (opp_mod_cases p a Ha). destruct (Z.eqb_spec a 0); [reflexivity|]. apply u32_small. lia.
  Qed.
  Lemma negin_raw a : can a -> negin F a = (- a) mod p.
  Proof. exact (neg_raw a). Qed.

  Lemma axpy_raw a b c : can a -> can b -> can c -> axpy F a b c = (fm (a * b) + c) mod p.
  Proof.
    intros Ha Hb Hc. destruct (sq_W a b Ha Hb) as [E R]. pose proof p_lt_W. pose proof (fm_can (a * b)) as Hm.
    unfold axpy.  cbv zeta. rewrite E. rewrite (redcal_fm F HF _ R). unfold canon in *.
    rewrite (u32_small (fm (a * b) + c)) by lia. apply csub_mod. lia.
  Qed.
  Lemma axpyin_raw r a b : can r -> can a -> can b -> axpyin F r a b = (r + fm (a * b)) mod p.
  Proof.
    intros Hr Ha Hb. destruct (sq_W a b Ha Hb) as [E R]. pose proof p_lt_W. pose proof (fm_can (a * b)) as Hm.
    unfold axpyin.  cbv zeta. rewrite E. rewrite (redcal_fm F HF _ R). unfold canon in *.
    rewrite (u32_small (r + fm (a * b))) by lia. apply csub_mod. lia.
  Qed.
  Lemma axmy_raw a b c : can a -> can b -> can c -> axmy F a b c = (fm (a * b) - c) mod p.
  Proof. intros Ha Hb Hc. unfold axmy. rewrite mul_raw by assumption. apply subin_raw; [apply fm_can | exact Hc]. Qed.
  Lemma maxpy_raw a b c : can a -> can b -> can c -> maxpy F a b c = (c - fm (a * b)) mod p.
  Proof. intros Ha Hb Hc. unfold maxpy. rewrite mul_raw by assumption. apply sub_raw; [exact Hc | apply fm_can]. Qed.
  Lemma maxpyin_raw r a b : can r -> can a -> can b -> maxpyin F r a b = (r - fm (a * b)) mod p.
  Proof. intros Hr Ha Hb. unfold maxpyin. rewrite mul_raw by assumption. apply subin_raw; [exact Hr | apply fm_can]. Qed.
  Lemma axmyin_raw r a b : can r -> can a -> can b -> axmyin F r a b = (- ((r - fm (a * b)) mod p)) mod p.
  Proof. intros Hr Ha Hb. unfold axmyin. rewrite maxpyin_raw by assumption. apply negin_raw. apply mod_can. Qed.

  (* ---- the converted-out value V = convert commutes with every operation *)
  Lemma V_mod_add a b : V ((a + b) mod p) = (fm a + fm b) mod p.
  Proof. rewrite convert_fm by apply mod_can. apply from_mg_add. Qed.
  Lemma V_mod_sub a b : V ((a - b) mod p) = (fm a - fm b) mod p.
  Proof. rewrite convert_fm by apply mod_can. apply from_mg_sub. Qed.
  Lemma V_mod_opp a : V ((- a) mod p) = (- fm a) mod p.
  Proof. rewrite convert_fm by apply mod_can. apply from_mg_opp. Qed.
  Lemma fm_fm_mul a b : fm (fm (a * b)) = (fm a * fm b) mod p.
  Proof. exact (from_mg_mul B32 p nim a b). Qed.

  Theorem mul_ok a b : can a -> can b -> can (mul32 F a b) /\ V (mul32 F a b) = (V a * V b) mod p.
  Proof.
    intros Ha Hb. rewrite mul_raw by assumption. split; [apply fm_can|].
    rewrite (convert_fm (fm (a * b))) by apply fm_can. rewrite !convert_fm by assumption. apply fm_fm_mul.
  Qed.
  Theorem mulin_ok a b : can a -> can b -> can (mulin F a b) /\ V (mulin F a b) = (V a * V b) mod p.
  Proof. intros Ha Hb. rewrite mulin_raw, <- mul_raw by assumption. apply mul_ok; assumption. Qed.
  Theorem add_ok a b : can a -> can b -> can (add32 F a b) /\ V (add32 F a b) = (V a + V b) mod p.
  Proof. intros Ha Hb. rewrite add_raw by assumption. split; [apply mod_can|]. rewrite (convert_fm a), (convert_fm b) by assumption. apply V_mod_add. Qed.
  Theorem addin_ok a b : can a -> can b -> can (addin F a b) /\ V (addin F a b) = (V a + V b) mod p.
  Proof. exact (add_ok a b). Qed.
  Theorem sub_ok a b : can a -> can b -> can (sub32 F a b) /\ V (sub32 F a b) = (V a - V b) mod p.
  Proof. intros Ha Hb. rewrite sub_raw by assumption. split; [apply mod_can|]. rewrite (convert_fm a), (convert_fm b) by assumption. apply V_mod_sub. Qed.
  Theorem subin_ok a b : can a -> can b -> can (subin F a b) /\ V (subin F a b) = (V a - V b) mod p.
  Proof. intros Ha Hb. rewrite subin_raw by assumption. split; [apply mod_can|]. rewrite (convert_fm a), (convert_fm b) by assumption. apply V_mod_sub. Qed.
  Theorem neg_ok a : can a -> can (neg F a) /\ V (neg F a) = (- V a) mod p.
  Proof. intros Ha. rewrite neg_raw by assumption. split; [apply mod_can|]. rewrite (convert_fm a) by assumption. apply V_mod_opp. Qed.
  Theorem negin_ok a : can a -> can (negin F a) /\ V (negin F a) = (- V a) mod p.
  Proof. exact (neg_ok a). Qed.

  Theorem axpy_ok a b c : can a -> can b -> can c -> can (axpy F a b c) /\ V (axpy F a b c) = (V a * V b + V c) mod p.
  Proof.
    intros Ha Hb Hc. rewrite axpy_raw by assumption. split; [apply mod_can|]. rewrite V_mod_add, fm_fm_mul.
    rewrite !convert_fm by assumption. apply Z.add_mod_idemp_l. pose proof hp0.  lia.
  Qed.
  Theorem axpyin_ok r a b : can r -> can a -> can b -> can (axpyin F r a b) /\ V (axpyin F r a b) = (V r + V a * V b) mod p.
  Proof.
    intros Hr Ha Hb. rewrite axpyin_raw by assumption. split; [apply mod_can|]. rewrite V_mod_add, fm_fm_mul.
    rewrite !convert_fm by assumption. apply Z.add_mod_idemp_r. pose proof hp0.  lia.
  Qed.
  Theorem axmy_ok a b c : can a -> can b -> can c -> can (axmy F a b c) /\ V (axmy F a b c) = (V a * V b - V c) mod p.
  Proof.
    intros Ha Hb Hc. rewrite axmy_raw by assumption. split; [apply mod_can|]. rewrite V_mod_sub, fm_fm_mul.
    rewrite !convert_fm by assumption. apply Zminus_mod_idemp_l.
  Qed.
  Theorem maxpy_ok a b c : can a -> can b -> can c -> can (maxpy F a b c) /\ V (maxpy F a b c) = (V c - V a * V b) mod p.
  Proof.
    intros Ha Hb Hc. rewrite maxpy_raw by assumption. split; [apply mod_can|]. rewrite V_mod_sub, fm_fm_mul.
    rewrite !convert_fm by assumption. apply Zminus_mod_idemp_r.
  Qed.
  Theorem maxpyin_ok r a b : can r -> can a -> can b -> can (maxpyin F r a b) /\ V (maxpyin F r a b) = (V r - V a * V b) mod p.
  Proof.
    intros Hr Ha Hb. rewrite maxpyin_raw by assumption. split; [apply mod_can|]. rewrite V_mod_sub, fm_fm_mul.
    rewrite !convert_fm by assumption. apply Zminus_mod_idemp_r.
  Qed.
  Theorem axmyin_ok r a b : can r -> can a -> can b -> can (axmyin F r a b) /\ V (axmyin F r a b) = (V a * V b - V r) mod p.
  Proof.
    intros Hr Ha Hb. rewrite axmyin_raw by assumption. split; [apply mod_can|]. rewrite V_mod_opp.
    rewrite <- (convert_fm ((r - fm (a * b)) mod p)) by apply mod_can. rewrite V_mod_sub, fm_fm_mul.
    rewrite !convert_fm by assumption.
    change (eqm p (- ((fm r - (fm a * fm b) mod p) mod p)) (fm a * fm b - fm r)).
    rewrite !mod_eqm. replace (- (fm r - fm a * fm b)) with (fm a * fm b - fm r) by ring. reflexivity.
  Qed.
End Ring32Ops.

(* ------------------------------------------------------------------ inverse, division, init / convert, constants *)
Section Ring32Inv.
  Variable F : mg32.
  Hypothesis HF : wf32 F.
  Local Notation p := (m_p F).
  Local Notation nim := (m_nim F).
  Local Notation Bi := (Binv B32 p nim).
  Local Notation fm := (from_mg B32 p nim).
  Local Notation V := (convert F).
  Local Notation can := (canon p).
  Let hB := HB.
  Let hp0 := Hp0 F HF.
  Let hp1 := Hp1 F HF.
  Let hp3 := Hp3 F HF.
  Let hpB := HpB F HF.

  Lemma BBi : eqm p (B32 * Bi) 1.
  Proof. apply B_Binv_eqm; [apply hB | apply hp1]. Qed.

  Lemma p_small_s32 : p <= 2147483647.
  Proof. pose proof hpB. pose proof param_B_lt_W. rewrite W32_eq in *. unfold B32 in *. lia. Qed.

  Theorem inv_ok a : can a -> Z.gcd a p = 1 ->
    exists r, inv F a = Some r /\ can r /\ (V r * V a) mod p = 1.
  Proof.
    intros Ha Hg. pose proof p_small_s32 as Hs. pose proof hp3. unfold canon in Ha.
    unfold inv. rewrite (s32_small a) by lia. rewrite (s32_small p) by lia.
    destruct (invext_spec s32 2147483647 a p (proj2 u32_s32_small_facts) ltac:(lia) ltac:(lia) ltac:(rewrite Z.gcd_comm; exact Hg))
      as (t & Et & Ht & Hc).
    rewrite Et. destruct (Z.ltb_spec t 0); [lia|].
    assert (Hb3 : can (m_B3p F)) by (rewrite (wf_B3p F HF); apply Z.mod_pos_bound; lia).
    pose proof (p_lt_W F HF) as HpW.
    rewrite (u32_small t) by lia.
    destruct (sq_W F HF t (m_B3p F) Ht Hb3) as [E R]. rewrite E. rewrite (redc_fm F HF _ R).
    eexists. split; [reflexivity|]. split; [apply (fm_can F HF)|].
    rewrite (convert_fm F HF (fm (t * m_B3p F))) by apply (fm_can F HF). rewrite (convert_fm F HF a) by exact Ha.
    transitivity (1 mod p); [|apply Z.mod_1_l; lia].
    change (eqm p (fm (fm (t * m_B3p F)) * fm a) 1).
    rewrite !from_mg_eqm. rewrite (wf_B3p F HF). rewrite (mod_eqm p (B32 * B32 * B32)).
    replace (t * (B32 * B32 * B32) * Bi * Bi * (a * Bi)) with ((t * a) * ((B32 * Bi) * (B32 * Bi) * (B32 * Bi))) by ring.
    rewrite BBi, Hc. reflexivity.
  Qed.

  Theorem div_ok a b : can a -> can b -> Z.gcd b p = 1 ->
    exists q, div32 F a b = Some q /\ can q /\ (V q * V b) mod p = V a.
  Proof.
    intros Ha Hb Hg. destruct (inv_ok b Hb Hg) as (r & Er & Hr & Hi). pose proof hp3.
    unfold div32. rewrite Er. eexists. split; [reflexivity|].
    destruct (mul_ok F HF a r Ha Hr) as [Hc Hv]. split; [exact Hc|]. rewrite Hv.
    rewrite Z.mul_mod_idemp_l by lia. replace (V a * V r * V b) with (V a * (V r * V b)) by ring.
    rewrite <- Z.mul_mod_idemp_r by lia. rewrite Hi. rewrite Z.mul_1_r.
    rewrite (convert_fm F HF a Ha). apply Z.mod_small. apply (fm_can F HF).
  Qed.
  Theorem divin_ok a b : can a -> can b -> Z.gcd b p = 1 ->
    exists q, divin F a b = Some q /\ can q /\ (V q * V b) mod p = V a.
  Proof.
    intros Ha Hb Hg. destruct (inv_ok b Hb Hg) as (r & Er & Hr & Hi). pose proof hp3.
    unfold divin. rewrite Er. eexists. split; [reflexivity|].
    destruct (mulin_ok F HF a r Ha Hr) as [Hc Hv]. split; [exact Hc|]. rewrite Hv.
    rewrite Z.mul_mod_idemp_l by lia. replace (V a * V r * V b) with (V a * (V r * V b)) by ring.
    rewrite <- Z.mul_mod_idemp_r by lia. rewrite Hi. rewrite Z.mul_1_r.
    rewrite (convert_fm F HF a Ha). apply Z.mod_small. apply (fm_can F HF).
  Qed.

  (* inv / div / divin WITHOUT the unit hypothesis (composite moduli: zero divisors, and 0): the extended-Euclid loop always
     terminates within its fuel, the cofactor is a residue, and the result satisfies the Bezout relation *)
  Theorem inv_any a : can a ->
    exists r, inv F a = Some r /\ can r /\ eqm p (V r * V a) (Z.gcd a p) /\ (a = 0 -> r = 0).
  Proof.
    intros Ha. pose proof p_small_s32 as Hs. pose proof hp3. unfold canon in Ha. pose proof (p_lt_W F HF) as HpW.
    assert (Hb3 : can (m_B3p F)) by (rewrite (wf_B3p F HF); apply Z.mod_pos_bound; lia).
    unfold inv. rewrite (s32_small a) by lia. rewrite (s32_small p) by lia. unfold invext.
    destruct (extended_euclid_spec s32 2147483647 (proj2 u32_s32_small_facts) a p ltac:(lia) (Z.gcd p a) ltac:(lia) eq_refl)
      as (t & Et & Ht & Hc).
    rewrite Et.
    assert (Htp : t < p \/ a = 0).
    { destruct (Z.eq_dec a 0) as [E0|N0]; [right; exact E0|]. left. destruct (Z.eq_dec t p) as [->|]; [|lia]. exfalso.
      rewrite (eqm_mul_n_l p a) in Hc. unfold eqm in Hc. rewrite Z.mod_0_l in Hc by lia. symmetry in Hc. apply Z.mod_divide in Hc; [|lia].
      pose proof (Z.gcd_divide_r p a) as Hd. pose proof (Z.gcd_nonneg p a) as Hn.
      assert (Hpos : 0 < Z.gcd p a) by (destruct (Z.eq_dec (Z.gcd p a) 0) as [E|]; [apply Z.gcd_eq_0_l in E; lia | lia]).
      assert (Ha0 : 0 < a) by lia.
      pose proof (Z.divide_pos_le _ _ Hpos Hc). pose proof (Z.divide_pos_le _ _ Ha0 Hd). lia. }
    destruct (Z.eq_dec a 0) as [E0|N0].
    - (* a = 0: the loop returns at once with the cofactor 0 *)
      subst a. unfold extended_euclid in Et. cbn [ee_loop Z.eqb Z.abs Z.to_nat] in Et. cbn [andb Z.ltb Z.compare] in Et.
      injection Et as Et _. subst t. cbn [Z.ltb Z.compare]. rewrite (u32_small 0) by lia. rewrite Z.mul_0_l. rewrite (u32_small 0) by lia.
      rewrite (redc_fm F HF 0) by (unfold in_range; nia). rewrite from_mg_0.
      exists 0. split; [reflexivity|]. split; [unfold canon; lia|]. split; [|reflexivity].
      rewrite (convert_fm F HF 0) by (unfold canon; lia). rewrite from_mg_0.
      rewrite Z.mul_0_r. rewrite Z.gcd_0_l. rewrite Z.abs_eq by lia. symmetry. apply eqm_n.
    - destruct Htp as [Htp|]; [|contradiction]. destruct (Z.ltb_spec t 0); [lia|].
      assert (Ct : can t) by (unfold canon; lia).
      rewrite (u32_small t) by lia.
      destruct (sq_W F HF t (m_B3p F) Ct Hb3) as [E R]. rewrite E. rewrite (redc_fm F HF _ R).
      eexists. split; [reflexivity|]. split; [apply (fm_can F HF)|]. split; [|intros; contradiction].
      rewrite (convert_fm F HF (fm (t * m_B3p F))) by apply (fm_can F HF). rewrite (convert_fm F HF a) by (unfold canon; lia).
      rewrite !from_mg_eqm. rewrite (wf_B3p F HF). rewrite (mod_eqm p (B32 * B32 * B32)).
      replace (t * (B32 * B32 * B32) * Bi * Bi * (a * Bi)) with ((t * a) * ((B32 * Bi) * (B32 * Bi) * (B32 * Bi))) by ring.
      rewrite BBi, Hc. rewrite !Z.mul_1_r. rewrite Z.gcd_comm. reflexivity.
  Qed.

  Theorem div_any a b : can a -> can b ->
    (exists q, div32 F a b = Some q /\ can q /\ eqm p (V q * V b) (V a * Z.gcd b p)) /\
    (exists q, divin F a b = Some q /\ can q /\ eqm p (V q * V b) (V a * Z.gcd b p)).
  Proof.
    intros Ha Hb. destruct (inv_any b Hb) as (r & Er & Hr & Hi & _). pose proof hp3.
    unfold div32, divin. rewrite Er.
    destruct (mul_ok F HF a r Ha Hr) as [Hc Hv]. destruct (mulin_ok F HF a r Ha Hr) as [Hc' Hv'].
    split; eexists; (split; [reflexivity|]); (split; [assumption|]).
    - rewrite Hv. rewrite (mod_eqm p). replace (V a * V r * V b) with (V a * (V r * V b)) by ring. rewrite Hi. reflexivity.
    - rewrite Hv'. rewrite (mod_eqm p). replace (V a * V r * V b) with (V a * (V r * V b)) by ring. rewrite Hi. reflexivity.
  Qed.

  (* isUnit on the stored element; gcd(stored, p) = gcd(value, p) because B is invertible modulo p *)
  Theorem isUnit_ok a : can a -> isUnit F a = Some (Z.gcd a p =? 1).
  Proof.
    intros Ha. pose proof p_small_s32 as Hs. pose proof hp3. unfold canon in Ha.
    unfold isUnit. rewrite (s32_small a) by lia. rewrite (s32_small p) by lia.
    destruct (extended_euclid_spec s32 2147483647 (proj2 u32_s32_small_facts) a p ltac:(lia) (Z.gcd p a) ltac:(lia) eq_refl)
      as (x & E & _ & _).
    rewrite E. f_equal. rewrite (Z.gcd_comm a p). pose proof (Z.gcd_nonneg p a).
    destruct (Z.eqb_spec (Z.gcd p a) 1); destruct (Z.eqb_spec (Z.gcd p a) (-1)); try reflexivity; lia.
  Qed.

  (* ---- init (on [0,p), the range C07 speaks about) and convert *)
  Lemma init_tail_ok x : can x -> can (init_tail F false x) /\ V (init_tail F false x) = x.
  Proof.
    intros Hx. pose proof hp3.
    assert (Hb2 : can (m_B2p F)) by (rewrite (wf_B2p F HF); apply Z.mod_pos_bound; lia).
    unfold init_tail. destruct (sq_W F HF x (m_B2p F) Hx Hb2) as [E R]. rewrite E. rewrite (redc_fm F HF _ R).
    split; [apply (fm_can F HF)|].
    rewrite (convert_fm F HF (fm (x * m_B2p F))) by apply (fm_can F HF).
    apply (eqm_small p); [|apply (fm_can F HF)|exact Hx].
    rewrite !from_mg_eqm. rewrite (wf_B2p F HF). rewrite (mod_eqm p (B32 * B32)).
    replace (x * (B32 * B32) * Bi * Bi) with (x * ((B32 * Bi) * (B32 * Bi))) by ring.
    rewrite BBi. rewrite !Z.mul_1_r. reflexivity.
  Qed.

  Definition Init_identity (f : mg32 -> Z -> Z) : Prop := forall x, can x -> can (f F x) /\ V (f F x) = x.

  Lemma ltb_neg x : can x -> (x <? 0) = false.
  Proof. intros Hx. unfold canon in Hx. apply Z.ltb_ge. lia. Qed.

  Theorem init_double_id : Init_identity init_double.
  Proof.
    intros x Hx. unfold init_double. rewrite (ltb_neg x Hx). unfold canon in Hx. rewrite Z.abs_eq by lia.
    rewrite Z.rem_small by lia. rewrite u32_small by (pose proof (p_lt_W F HF); lia). apply init_tail_ok. exact Hx.
  Qed.
  Theorem init_int64_id : Init_identity init_int64.
  Proof.
    intros x Hx. unfold init_int64. rewrite (ltb_neg x Hx). unfold canon in Hx. pose proof p_small_s32.
    assert (Es : s64 p = p) by (unfold s64, W64; rewrite Z.mod_small by lia; lia).
    rewrite Es. rewrite Z.rem_small by lia. rewrite Z.abs_eq by lia.
    rewrite u32_small by (pose proof (p_lt_W F HF); lia). apply init_tail_ok. exact Hx.
  Qed.
  Theorem init_uint64_id : Init_identity init_uint64.
  Proof.
    intros x Hx. unfold init_uint64. unfold canon in Hx. pose proof p_small_s32.
    assert (Es : u64 p = p) by (unfold u64, W64; apply Z.mod_small; lia).
    rewrite Es. rewrite Z.mod_small by lia. rewrite u32_small by (pose proof (p_lt_W F HF); lia). apply init_tail_ok. exact Hx.
  Qed.
  Theorem init_integer_id : Init_identity init_integer.
  Proof.
    intros x Hx. unfold init_integer. rewrite (ltb_neg x Hx). unfold canon in Hx. rewrite Z.abs_eq by lia.
    rewrite Z.mod_small by lia. rewrite u32_small by (pose proof (p_lt_W F HF); lia). apply init_tail_ok. exact Hx.
  Qed.
  Lemma s64_can x : can x -> s64 x = x.
  Proof. intros Hx. unfold canon in Hx. pose proof p_small_s32. unfold s64, W64. rewrite Z.mod_small by lia. lia. Qed.
  Theorem init_int32_id : Init_identity init_int32.
  Proof. intros x Hx. unfold init_int32. rewrite (s64_can x Hx). apply init_int64_id. exact Hx. Qed.
  Lemma u64_can x : can x -> u64 x = x.
  Proof. intros Hx. unfold canon in Hx. pose proof p_small_s32. unfold u64, W64. apply Z.mod_small. lia. Qed.
  Theorem init_uint32_id : Init_identity init_uint32.
  Proof. intros x Hx. unfold init_uint32. rewrite (u64_can x Hx). apply init_uint64_id. exact Hx. Qed.
  Theorem init_longlong_id : Init_identity init_longlong.
  Proof. intros x Hx. unfold init_longlong. rewrite (s64_can x Hx). apply init_int64_id. exact Hx. Qed.
  Theorem init_ulonglong_id : Init_identity init_ulonglong.
  Proof. intros x Hx. unfold init_ulonglong. rewrite (u64_can x Hx). apply init_uint64_id. exact Hx. Qed.

  (* convert is a bijection of [0,p): init after convert gives the element back *)
  Theorem convert_init a : can a -> can (V a) /\ init_uint32 F (V a) = a.
  Proof.
    intros Ha. rewrite (convert_fm F HF a Ha). pose proof (fm_can F HF a) as Hc. split; [exact Hc|].
    destruct (init_uint32_id (fm a) Hc) as [H1 H2].
    apply (from_mg_inj B32 p nim hB hp1); [exact H1 | exact Ha |].
    rewrite <- (convert_fm F HF (init_uint32 F (fm a)) H1). exact H2.
  Qed.

  Theorem write_is_convert a : can a -> write_value F a = V a.
  Proof.
    intros Ha. unfold write_value, convert. rewrite (redcs_fm F HF), (redc_fm F HF) by (apply (canon_le_sq F HF); exact Ha). reflexivity.
  Qed.

  (* ---- the constants zero, one, mOne and the predicates *)
  Lemma Bp_nonzero : B32 mod p <> 0.
  Proof.
    intros E. pose proof BBi as H. pose proof hp3.
    assert (E' : eqm p B32 0) by (unfold eqm; rewrite E; symmetry; apply Z.mod_0_l; lia).
    assert (H2 : eqm p (0 * Bi) 1).
    { transitivity (B32 * Bi); [apply mul_eqm; [symmetry; exact E' | reflexivity] | exact H]. }
    rewrite Z.mul_0_l in H2. unfold eqm in H2. rewrite Z.mod_0_l, Z.mod_1_l in H2 by lia. discriminate.
  Qed.

  Theorem constants_ok :
    can (m_one F) /\ V (m_one F) = 1 /\ can (m_mOne F) /\ V (m_mOne F) = p - 1 /\ V 0 = 0 /\ init0 = 0.
  Proof.
    pose proof hp3. pose proof Bp_nonzero as Hnz. pose proof (Z.mod_pos_bound B32 p ltac:(lia)) as Hr.
    assert (C1 : can (m_one F)) by (rewrite (wf_one F HF); exact Hr).
    assert (Cm : can (m_mOne F)) by (rewrite (wf_mOne F HF); unfold canon; lia).
    assert (V1 : V (m_one F) = 1).
    { rewrite (convert_fm F HF _ C1). rewrite (wf_one F HF). rewrite (from_mg_B B32 p nim hB hp1). apply Z.mod_1_l. lia. }
    split; [exact C1|]. split; [exact V1|]. split; [exact Cm|]. split.
    - rewrite (convert_fm F HF _ Cm). rewrite (wf_mOne F HF).
      apply (eqm_small p); [|apply (fm_can F HF)|lia].
      rewrite from_mg_eqm. replace ((p - B32 mod p) * Bi) with (p * Bi - (B32 mod p) * Bi) by ring.
      rewrite (eqm_mul_n_l p Bi). rewrite (mod_eqm p B32). rewrite BBi.
      replace (p - 1) with (p * 1 + (0 - 1)) by ring. rewrite (eqm_mul_n_l p 1). reflexivity.
    - split; [|reflexivity]. rewrite (convert_fm F HF 0) by (unfold canon; lia). apply from_mg_0.
  Qed.

  Lemma V_inj a b : can a -> can b -> V a = V b -> a = b.
  Proof.
    intros Ha Hb E. rewrite !(convert_fm F HF) in E by assumption.
    apply (from_mg_inj B32 p nim hB hp1 a b Ha Hb E).
  Qed.

  Theorem predicates_ok a b : can a -> can b ->
    isZero a = (V a =? 0) /\ isOne F a = (V a =? 1) /\ isMOne F a = (V a =? p - 1) /\ areEqual a b = (V a =? V b).
  Proof.
    intros Ha Hb. destruct constants_ok as (C1 & V1 & Cm & Vm & V0 & _).
    assert (C0 : can 0) by (pose proof hp3; unfold canon; lia).
    unfold isZero, isOne, isMOne, areEqual. repeat split.
    - destruct (Z.eqb_spec a 0) as [Ea|N]; destruct (Z.eqb_spec (V a) 0) as [E|E]; try reflexivity.
      + exfalso. apply E. rewrite Ea. exact V0.
      + exfalso. apply N. apply V_inj; [exact Ha | exact C0 | congruence].
    - destruct (Z.eqb_spec a (m_one F)) as [Ea|N]; destruct (Z.eqb_spec (V a) 1) as [E|E]; try reflexivity.
      + exfalso. apply E. rewrite Ea. exact V1.
      + exfalso. apply N. apply V_inj; [exact Ha | exact C1 | congruence].
    - destruct (Z.eqb_spec a (m_mOne F)) as [Ea|N]; destruct (Z.eqb_spec (V a) (p - 1)) as [E|E]; try reflexivity.
      + exfalso. apply E. rewrite Ea. exact Vm.
      + exfalso. apply N. apply V_inj; [exact Ha | exact Cm | congruence].
    - destruct (Z.eqb_spec a b) as [Ea|N]; destruct (Z.eqb_spec (V a) (V b)) as [E|E]; try reflexivity.
      + exfalso. apply E. rewrite Ea. reflexivity.
      + exfalso. apply N. apply V_inj; assumption.
  Qed.
End Ring32Inv.

(* ================================================================== the statements exported to Properties.v *)
(* A ring object: what the constructor returns for an admissible modulus (odd, 3 <= p <= maxCardinality()). *)
Definition Ring32 (p : Z) (F : mg32) : Prop := admissible p /\ mk32 p = Some F.

Lemma Ring32_wf p F : Ring32 p F -> m_p F = p /\ wf32 F.
Proof.
  intros [Ha E]. destruct (mk32_wf p Ha) as (F' & E' & Hp & Hw). rewrite E in E'. injection E' as ->. split; assumption.
Qed.

Example Ring32_satisfiable : exists F, Ring32 maxCardinality32 F.
Proof.
  assert (Ha : admissible maxCardinality32) by (split; [split; [discriminate | apply Z.le_refl] | reflexivity]).
  destruct (mk32_wf _ Ha) as (F & E & _ & _). exists F. split; assumption.
Qed.

Definition M32_constructor_stmt : Prop := forall p, admissible p ->
  exists F, mk32 p = Some F /\ m_p F = p /\
    0 <= m_nim F < B32 /\ (p * m_nim F + 1) mod B32 = 0 /\
    m_Bp F = B32 mod p /\ m_B2p F = (B32 * B32) mod p /\ m_B3p F = (B32 * B32 * B32) mod p /\
    m_one F = B32 mod p /\ m_mOne F = p - B32 mod p /\ B32 mod p <> 0.
Lemma M32_constructor : M32_constructor_stmt.
Proof.
  intros p Ha. destruct (mk32_wf p Ha) as (F & E & Hp & Hw). exists F. pose proof (Bp_nonzero F Hw) as Hnz.
  destruct Hw as [_ H1 H2 H3 H4 H5 H6 H7]. rewrite Hp in *. repeat split; try assumption; lia.
Qed.

(* REDC: for every c the code can feed to a reduction (c <= (p-1)^2), all six variants return the one r in [0,p)
   with r * B = c (mod p); no 32-bit intermediate wraps (that is inside the proof: bound32). *)
Definition M32_reductions_stmt : Prop := forall p F, Ring32 p F -> forall c, 0 <= c <= (p - 1) * (p - 1) ->
  let r := redc F c in
  0 <= r < p /\ (r * B32) mod p = c mod p /\
  redcal F c = r /\ redcsal F c = r /\ redcs F c = r /\ redcin F c = r /\ redcsin F c = r.
Lemma M32_reductions : M32_reductions_stmt.
Proof.
  intros p F HR c Hc. destruct (Ring32_wf p F HR) as [<- HF]. cbv zeta.
  rewrite (redc_fm F HF c Hc), (redcal_fm F HF c Hc), (redcsal_fm F HF c Hc), (redcs_fm F HF c Hc),
    (redcin_fm F HF c Hc), (redcsin_fm F HF c Hc).
  split; [apply (fm_can F HF)|]. split; [|repeat split; reflexivity].
  apply (from_mg_eqm_B B32 (m_p F) (m_nim F) HB (Hp1 F HF)).
Qed.

Definition M32_ring_ops_stmt : Prop := forall p F, Ring32 p F ->
  let V := convert F in forall a b, canon p a -> canon p b ->
  (canon p (mul32 F a b) /\ V (mul32 F a b) = (V a * V b) mod p) /\
  (canon p (mulin F a b) /\ V (mulin F a b) = (V a * V b) mod p) /\
  (canon p (add32 F a b) /\ V (add32 F a b) = (V a + V b) mod p) /\
  (canon p (addin F a b) /\ V (addin F a b) = (V a + V b) mod p) /\
  (canon p (sub32 F a b) /\ V (sub32 F a b) = (V a - V b) mod p) /\
  (canon p (subin F a b) /\ V (subin F a b) = (V a - V b) mod p) /\
  (canon p (neg F a) /\ V (neg F a) = (- V a) mod p) /\
  (canon p (negin F a) /\ V (negin F a) = (- V a) mod p).
Lemma M32_ring_ops : M32_ring_ops_stmt.
Proof.
  intros p F HR V a b Ha Hb. destruct (Ring32_wf p F HR) as [<- HF]. subst V.
  split; [apply (mul_ok F HF); assumption|]. split; [apply (mulin_ok F HF); assumption|].
  split; [apply (add_ok F HF); assumption|]. split; [apply (addin_ok F HF); assumption|].
  split; [apply (sub_ok F HF); assumption|]. split; [apply (subin_ok F HF); assumption|].
  split; [apply (neg_ok F HF); assumption | apply (negin_ok F HF); assumption].
Qed.

Definition M32_fused_ops_stmt : Prop := forall p F, Ring32 p F ->
  let V := convert F in forall a b c, canon p a -> canon p b -> canon p c ->
  (canon p (axpy F a b c) /\ V (axpy F a b c) = (V a * V b + V c) mod p) /\
  (canon p (axpyin F c a b) /\ V (axpyin F c a b) = (V c + V a * V b) mod p) /\
  (canon p (axmy F a b c) /\ V (axmy F a b c) = (V a * V b - V c) mod p) /\
  (canon p (axmyin F c a b) /\ V (axmyin F c a b) = (V a * V b - V c) mod p) /\
  (canon p (maxpy F a b c) /\ V (maxpy F a b c) = (V c - V a * V b) mod p) /\
  (canon p (maxpyin F c a b) /\ V (maxpyin F c a b) = (V c - V a * V b) mod p).
Lemma M32_fused_ops : M32_fused_ops_stmt.
Proof.
  intros p F HR V a b c Ha Hb Hc. destruct (Ring32_wf p F HR) as [<- HF]. subst V.
  split; [apply (axpy_ok F HF); assumption|]. split; [apply (axpyin_ok F HF); assumption|].
  split; [apply (axmy_ok F HF); assumption|]. split; [apply (axmyin_ok F HF); assumption|].
  split; [apply (maxpy_ok F HF); assumption | apply (maxpyin_ok F HF); assumption].
Qed.

Definition M32_inv_div_stmt : Prop := forall p F, Ring32 p F ->
  let V := convert F in forall a b, canon p a -> canon p b -> Z.gcd b p = 1 ->
  (exists r, inv F b = Some r /\ invin F b = Some r /\ canon p r /\ (V r * V b) mod p = 1) /\
  (exists q, div32 F a b = Some q /\ canon p q /\ (V q * V b) mod p = V a) /\
  (exists q, divin F a b = Some q /\ canon p q /\ (V q * V b) mod p = V a) /\
  isUnit F b = Some true.
(* the same WITHOUT the unit hypothesis: every stored b in [0,p), zero divisors of composite p and 0 included *)
Definition M32_inv_div_any_stmt : Prop := forall p F, Ring32 p F ->
  let V := convert F in forall a b, canon p a -> canon p b ->
  (exists r, inv F b = Some r /\ invin F b = Some r /\ canon p r /\ (V r * V b) mod p = Z.gcd b p mod p /\ (b = 0 -> r = 0)) /\
  (exists q, div32 F a b = Some q /\ canon p q /\ (V q * V b) mod p = (V a * Z.gcd b p) mod p) /\
  (exists q, divin F a b = Some q /\ canon p q /\ (V q * V b) mod p = (V a * Z.gcd b p) mod p) /\
  isUnit F b = Some (Z.gcd b p =? 1).
Lemma M32_inv_div_any : M32_inv_div_any_stmt.
Proof.
  intros p F HR V a b Ha Hb. destruct (Ring32_wf p F HR) as [<- HF]. subst V.
  destruct (inv_any F HF b Hb) as (r & E & Hr & Hi & Hz). destruct (div_any F HF a b Ha Hb) as [D1 D2].
  split; [exists r; unfold invin; split; [exact E|]; split; [exact E|]; split; [exact Hr|]; split; [exact Hi | exact Hz]|].
  split; [exact D1|]. split; [exact D2|]. apply (isUnit_ok F HF b Hb).
Qed.

Lemma M32_inv_div : M32_inv_div_stmt.
Proof.
  intros p F HR V a b Ha Hb Hg. destruct (Ring32_wf p F HR) as [<- HF]. subst V.
  split.
  { destruct (inv_ok F HF b Hb Hg) as (r & E & Hr & Hi). exists r. unfold invin. repeat split; assumption || apply Hr. }
  split; [apply (div_ok F HF); assumption|]. split; [apply (divin_ok F HF); assumption|].
  rewrite (isUnit_ok F HF b Hb). rewrite Hg. reflexivity.
Qed.

Definition M32_isUnit_stmt : Prop := forall p F, Ring32 p F -> forall a, canon p a ->
  isUnit F a = Some (Z.gcd a p =? 1).
Lemma M32_isUnit : M32_isUnit_stmt.
Proof. intros p F HR a Ha. destruct (Ring32_wf p F HR) as [<- HF]. apply (isUnit_ok F HF a Ha). Qed.

(* "initialising and converting back is the identity on [0, p)", for every init overload, and the other way round *)
Definition M32_init_convert_stmt : Prop := forall p F, Ring32 p F ->
  let V := convert F in
  (forall f, In f (init_double :: init_int64 :: init_uint64 :: init_integer :: init_int32 :: init_uint32 ::
                   init_longlong :: init_ulonglong :: nil) ->
     forall x, canon p x -> canon p (f F x) /\ V (f F x) = x) /\
  (forall a, canon p a -> canon p (V a) /\ init_uint32 F (V a) = a /\ write_value F a = V a).
Lemma M32_init_convert : M32_init_convert_stmt.
Proof.
  intros p F HR V. destruct (Ring32_wf p F HR) as [<- HF]. subst V. split.
  - intros f Hf. cbn [In] in Hf.
    destruct Hf as [<-|[<-|[<-|[<-|[<-|[<-|[<-|[<-|[]]]]]]]]].
    + apply (init_double_id F HF). + apply (init_int64_id F HF). + apply (init_uint64_id F HF).
    + apply (init_integer_id F HF). + apply (init_int32_id F HF). + apply (init_uint32_id F HF).
    + apply (init_longlong_id F HF). + apply (init_ulonglong_id F HF).
  - intros a Ha. destruct (convert_init F HF a Ha) as [H1 H2]. split; [exact H1|]. split; [exact H2|].
    apply (write_is_convert F HF a Ha).
Qed.

Definition M32_constants_predicates_stmt : Prop := forall p F, Ring32 p F ->
  let V := convert F in
  (canon p (m_one F) /\ V (m_one F) = 1 /\ canon p (m_mOne F) /\ V (m_mOne F) = p - 1 /\ V 0 = 0 /\ init0 = 0) /\
  (forall a b, canon p a -> canon p b ->
     isZero a = (V a =? 0) /\ isOne F a = (V a =? 1) /\ isMOne F a = (V a =? p - 1) /\ areEqual a b = (V a =? V b)).
Lemma M32_constants_predicates : M32_constants_predicates_stmt.
Proof.
  intros p F HR V. destruct (Ring32_wf p F HR) as [<- HF]. subst V. split.
  - apply (constants_ok F HF).
  - intros a b Ha Hb. apply (predicates_ok F HF a b Ha Hb).
Qed.
