(* C07 part 2, phase 3 — statements WITHOUT side conditions on the operands:
   * inv_mod (ruinvmod.h) on every input, unit or not: the result is a residue and result * b = gcd(b, c) (mod c);
     it is 0 exactly for b = 0 (so the `if (ci == 0)` branch of rmdiv.h is the division-by-zero branch only);
   * the stored-form invariant Value < p for EVERY operation of rmint<K,MGA>, rmint<K,MGI>, Montgomery<ruint<K>> and every
     odd modulus (prime or composite), every operand in [0,p), every exponent, every native operand;
   * rmint<K,MGA> and rmint<K,MGI> agree after conversion out on EVERY input of every operation (inv and div of non-units
     and of 0 included, both exponentiation loops, the fused and the mixed native-operand forms). *)
From Coq Require Import ZArith Lia Bool List Setoid Morphisms Znumtheory.
From C07 Require Import Param Model Redc ProofsRec.
Local Open Scope Z_scope.

(* ------------------------------------------------------------------ inv_mod on every input *)
Section InvAny.
  Variables B c : Z.
  Hypothesis Hc : 1 < c < B.

  Lemma inv_iter_done n s : i_b2 s = 0 -> inv_iter n B c s = s.
  Proof. intros E. destruct n; cbn [inv_iter]; rewrite E; reflexivity. Qed.

  Lemma inv_iter_one n : forall s, i_b2 s <> 0 -> i_b2 (inv_step B c s) = 0 -> inv_iter n B c s = inv_step B c s.
  Proof.
    induction n as [|n IH]; intros s N E; cbn [inv_iter]; destruct (Z.eqb_spec (i_b2 s) 0) as [E0|_]; try contradiction.
    - reflexivity.
    - rewrite (IH s N E). apply inv_iter_done. exact E.
  Qed.

  (* the state the loop ends in, for every b0 >= 0: coefficients are residues, a * b0 = a2 (mod c), a2 = gcd(b0, c) *)
  Lemma inv_loop_final b0 : 0 <= b0 ->
    let s := inv_iter (Z.to_nat (Z.log2_up B)) B c (MkIst 1 0 b0 c) in
    0 <= i_a s < c /\ eqm c (i_a s * b0) (i_a2 s) /\ i_a2 s = Z.gcd b0 c.
  Proof.
    intros Hb0 s. subst s.
    assert (H0 : iinv c b0 (MkIst 1 0 b0 c)).
    { unfold iinv. cbn [i_a i_x i_a2 i_b2]. repeat split; try lia.
      - rewrite Z.mul_1_l. reflexivity.
      - rewrite Z.mul_0_l. symmetry. apply eqm_n. }
    destruct (inv_iter_spec B c b0 Hc (Z.to_nat (Z.log2_up B)) _ H0) as [H1 D].
    set (s := inv_iter (Z.to_nat (Z.log2_up B)) B c (MkIst 1 0 b0 c)) in *.
    assert (Hdone : i_b2 s = 0).
    { destruct D as [D|D]; [exact D|]. cbn [i_b2] in D. exfalso.
      rewrite Z2Nat.id in D by apply Z.log2_up_nonneg.
      pose proof (Z.log2_up_spec B ltac:(lia)) as [_ Hl]. destruct H1 as (_ & _ & Hnn & _). lia. }
    destruct H1 as (Ha & _ & _ & Ha2 & Ea & _ & Eg).
    rewrite Hdone in Eg. rewrite Z.gcd_0_r in Eg. rewrite Z.abs_eq in Eg by lia.
    split; [exact Ha|]. split; [exact Ea | exact Eg].
  Qed.

  (* inv_mod as it is in /repo now (C06-14): the inverse for units, 0 for every non-invertible operand (0 included) *)
  Theorem inv_mod_any b0 : 0 <= b0 ->
    0 <= inv_mod B b0 c < c /\ (Z.gcd b0 c = 1 -> eqm c (inv_mod B b0 c * b0) 1) /\ (Z.gcd b0 c <> 1 -> inv_mod B b0 c = 0).
  Proof.
    intros Hb0. destruct (inv_loop_final b0 Hb0) as (Ha & Ea & Eg). unfold inv_mod. cbv zeta.
    set (s := inv_iter (Z.to_nat (Z.log2_up B)) B c (MkIst 1 0 b0 c)) in *. rewrite Eg.
    destruct (Z.eqb_spec (Z.gcd b0 c) 1) as [E|N].
    - split; [exact Ha|]. split; [intros _; rewrite Ea, Eg, E; reflexivity | intros H; contradiction].
    - split; [lia|]. split; [intros H; contradiction | intros _; reflexivity].
  Qed.

  Theorem inv_mod_eq0_iff b0 : 0 <= b0 -> (inv_mod B b0 c = 0 <-> Z.gcd b0 c <> 1).
  Proof.
    intros Hb. destruct (inv_mod_any b0 Hb) as (_ & Hu & Hn). split.
    - intros E Hg. specialize (Hu Hg). rewrite E in Hu. rewrite Z.mul_0_l in Hu. unfold eqm in Hu.
      rewrite Z.mod_0_l, Z.mod_1_l in Hu by lia. discriminate.
    - exact Hn.
  Qed.

  (* HISTORY: the body before C06-14 returned a Bezout coefficient for non-units: a * b0 = gcd(b0, c) (mod c) *)
  Theorem inv_mod_old_any b0 : 0 <= b0 ->
    0 <= inv_mod_old B b0 c < c /\ eqm c (inv_mod_old B b0 c * b0) (Z.gcd b0 c).
  Proof.
    intros Hb0. destruct (inv_loop_final b0 Hb0) as (Ha & Ea & Eg). unfold inv_mod_old. split; [exact Ha|]. rewrite Ea, Eg. reflexivity.
  Qed.
End InvAny.

(* the documentation of ruinvmod.h ("if b is not invertible, a = 0"): true of the body in /repo now, false of the body before C06-14 *)
Definition inv_mod_nonunit_is_zero_stmt : Prop :=
  forall k c b, 1 < c < Bk k -> 0 <= b < c -> Z.gcd b c <> 1 -> inv_mod (Bk k) b c = 0.
Lemma inv_mod_nonunit_is_zero : inv_mod_nonunit_is_zero_stmt.
Proof. intros k c b Hc Hb Hg. apply (inv_mod_any (Bk k) c Hc b ltac:(lia)). exact Hg. Qed.
Lemma inv_mod_old_nonunit_is_zero_refuted :
  ~ (forall k c b, 1 < c < Bk k -> 0 <= b < c -> Z.gcd b c <> 1 -> inv_mod_old (Bk k) b c = 0).
Proof.
  intros H. specialize (H 0%nat 9 3 ltac:(split; [lia | reflexivity]) ltac:(lia) ltac:(vm_compute; discriminate)).
  vm_compute in H. discriminate.
Qed.

(* the body of rmsub.h sub(a, b, c) before fix-6, run with the destination being b, is not the subtraction *)
Lemma rm_sub_old_dst_is_b_refuted :
  exists k p b c, RecMod k p /\ canon p b /\ canon p c /\ rm_sub_old_dst_is_b k p b c <> (b - c) mod p /\ ~ canon p (rm_sub_old_dst_is_b k p b c).
Proof.
  exists 1%nat, 101, 5, 7. split; [split; [reflexivity | split; [lia | reflexivity]]|].
  split; [unfold canon; lia|]. split; [unfold canon; lia|]. split; [vm_compute; discriminate|].
  unfold canon. vm_compute. intros [_ H]. discriminate.
Qed.

(* ------------------------------------------------------------------ rmint<K,MGA> on every input *)
Section MGAAny.
  Variable k : nat.
  Variable p : Z.
  Hypothesis HM : RecMod k p.
  Local Notation B := (Bk k).
  Local Notation M := (mga_init_module k p).
  Local Notation p1 := (arazi_qi k ((- p) mod B)).
  Local Notation fm := (from_mg B p p1).
  Local Notation V := (mga_get_ruint k M).
  Local Notation can := (canon p).

  Let Hp : 1 < p < B. Proof. apply HM. Qed.
  Let Hp1 : (p * p1 + 1) mod B = 0. Proof. apply (p1_spec k p HM). Qed.

  Lemma can0 : can 0. Proof. unfold canon. lia. Qed.
  Lemma mga_V0 : V 0 = 0.
  Proof. rewrite (mga_V_fm k p HM 0 can0). apply from_mg_0. Qed.
  Lemma mga_V_eq0 a : can a -> (V a = 0 <-> a = 0).
  Proof.
    intros Ha. split; [|intros ->; apply mga_V0]. intros E. apply (fm_inj k p p1 Hp1 a 0 Ha can0).
    rewrite <- (mga_V_fm k p HM a Ha), <- (mga_V_fm k p HM 0 can0). rewrite E, mga_V0. reflexivity.
  Qed.
  Lemma mga_to_mg_eq0 x : can x -> (mga_to_mg k M x = 0 <-> x = 0).
  Proof.
    intros Hx. destruct (mga_to_mg_ok k p HM x) as [C1 V1]. rewrite (Z.mod_small x p Hx) in V1. split.
    - intros E. rewrite E in V1. rewrite mga_V0 in V1. congruence.
    - intros ->. unfold mga_to_mg. rewrite Z.mul_0_l. apply Z.mod_0_l. cbn [g_p mga_init_module]. lia.
  Qed.

  Lemma mga_inv_unfold b : mga_inv k M b = mga_to_mg k M (inv_mod B (V b) p).
  Proof. reflexivity. Qed.

  Theorem mga_inv_any b : can b ->
    can (mga_inv k M b) /\ V (mga_inv k M b) = inv_mod B (V b) p /\
    (Z.gcd (V b) p = 1 -> (V (mga_inv k M b) * V b) mod p = 1) /\ (mga_inv k M b = 0 <-> Z.gcd (V b) p <> 1).
  Proof.
    intros Hb. rewrite mga_inv_unfold. pose proof (V_can k p HM b Hb) as Cv.
    destruct (inv_mod_any B p Hp (V b) ltac:(unfold canon in Cv; lia)) as (Ci & Eu & En).
    destruct (mga_to_mg_ok k p HM (inv_mod B (V b) p)) as [C1 V1]. rewrite (Z.mod_small _ p Ci) in V1.
    split; [exact C1|]. split; [exact V1|]. split.
    - intros Hg. rewrite V1. rewrite <- (Z.mod_1_l p) by lia. exact (Eu Hg).
    - rewrite (mga_to_mg_eq0 _ Ci). apply (inv_mod_eq0_iff B p Hp (V b)). unfold canon in Cv. lia.
  Qed.

  Theorem mga_div_any a b : can a -> can b ->
    can (mga_div k M a b) /\
    V (mga_div k M a b) = (if inv_mod B (V b) p =? 0 then 0 else (V a * inv_mod B (V b) p) mod p) /\
    (Z.gcd (V b) p = 1 -> (V (mga_div k M a b) * V b) mod p = V a) /\ (Z.gcd (V b) p <> 1 -> mga_div k M a b = 0).
  Proof.
    intros Ha Hb. destruct (mga_inv_any b Hb) as (Ci & Vi & Ei & Zi). unfold mga_div. cbv zeta.
    pose proof (V_can k p HM b Hb) as Cv. pose proof (V_can k p HM a Ha) as Cva.
    assert (Ez : (mga_inv k M b =? 0) = (inv_mod B (V b) p =? 0)).
    { pose proof (inv_mod_eq0_iff B p Hp (V b) ltac:(unfold canon in Cv; lia)) as Hi.
      destruct (Z.eqb_spec (mga_inv k M b) 0) as [E|N]; destruct (Z.eqb_spec (inv_mod B (V b) p) 0) as [E'|N']; try reflexivity; exfalso.
      - apply N'. apply Hi. apply Zi. exact E.
      - apply N. apply Zi. apply Hi. exact E'. }
    rewrite Ez. destruct (Z.eqb_spec (inv_mod B (V b) p) 0) as [E0|N0].
    - split; [exact can0|]. split; [apply mga_V0|]. split; [|intros _; reflexivity].
      intros Hg. exfalso. apply (proj1 (inv_mod_eq0_iff B p Hp (V b) ltac:(unfold canon in Cv; lia)) E0). exact Hg.
    - destruct (mga_mul_ok k p HM a (mga_inv k M b) Ha Ci) as [Cm Vm]. split; [exact Cm|]. split; [rewrite Vm, Vi; reflexivity|].
      split.
      + intros Hg. rewrite Vm. rewrite Z.mul_mod_idemp_l by lia.
        replace (V a * V (mga_inv k M b) * V b) with (V a * (V (mga_inv k M b) * V b)) by ring.
        rewrite <- Z.mul_mod_idemp_r by lia. rewrite (Ei Hg). rewrite Z.mul_1_r. apply Z.mod_small. exact Cva.
      + intros Hg. exfalso. apply N0. apply (inv_mod_eq0_iff B p Hp (V b) ltac:(unfold canon in Cv; lia)). exact Hg.
  Qed.
End MGAAny.

(* ------------------------------------------------------------------ rmint<K,MGI> on every input *)
Section MGIAny.
  Variable k : nat.
  Variable p : Z.
  Hypothesis Hp : 1 < p < Bk k.
  Local Notation B := (Bk k).
  Local Notation can := (canon p).

  Theorem mgi_inv_any b : can b ->
    can (mgi_inv k p b) /\ (Z.gcd b p = 1 -> (mgi_inv k p b * b) mod p = 1) /\ (mgi_inv k p b = 0 <-> Z.gcd b p <> 1).
  Proof.
    intros Hb. unfold mgi_inv. destruct (inv_mod_any B p Hp b ltac:(unfold canon in Hb; lia)) as (Ci & Eu & _).
    split; [exact Ci|]. split; [intros Hg; rewrite <- (Z.mod_1_l p) by lia; exact (Eu Hg)|].
    apply (inv_mod_eq0_iff B p Hp b). unfold canon in Hb. lia.
  Qed.
  Theorem mgi_div_any a b : can a -> can b ->
    can (mgi_div k p a b) /\ (Z.gcd b p = 1 -> (mgi_div k p a b * b) mod p = a) /\ (Z.gcd b p <> 1 -> mgi_div k p a b = 0).
  Proof.
    intros Ha Hb. destruct (mgi_inv_any b Hb) as (Ci & Ei & Zi). unfold mgi_div. cbv zeta.
    destruct (Z.eqb_spec (mgi_inv k p b) 0) as [E0|N0].
    - split; [unfold canon; lia|]. split; [|intros _; reflexivity]. intros Hg. exfalso. apply (proj1 Zi E0). exact Hg.
    - unfold mgi_mul. split; [apply (mod_can k p Hp)|]. split.
      + intros Hg. rewrite Z.mul_mod_idemp_l by lia. replace (a * mgi_inv k p b * b) with (a * (mgi_inv k p b * b)) by ring.
        rewrite <- Z.mul_mod_idemp_r by lia. rewrite (Ei Hg). rewrite Z.mul_1_r. apply Z.mod_small. exact Ha.
      + intros Hg. exfalso. apply N0. apply Zi. exact Hg.
  Qed.
End MGIAny.

(* ------------------------------------------------------------------ Givaro::Montgomery<ruint<K>> on every input *)
Section MRAny.
  Variable k : nat.
  Variable p : Z.
  Hypothesis HM : RecMod k p.
  Local Notation B := (Bk k).
  Local Notation M := (mr_mk k p).
  Local Notation p1 := (arazi_qi k ((- p) mod B)).
  Local Notation fm := (from_mg B p p1).
  Local Notation V := (mr_convert k M).
  Local Notation can := (canon p).

  Let Hp : 1 < p < B. Proof. apply HM. Qed.
  Let Hp1 : (p * p1 + 1) mod B = 0. Proof. apply (p1_spec k p HM). Qed.

  Theorem mr_inv_any a : can a ->
    can (mr_inv k M a) /\ (Z.gcd a p = 1 -> (V (mr_inv k M a) * V a) mod p = 1) /\ (Z.gcd a p <> 1 -> mr_inv k M a = 0).
  Proof.
    intros Ha. destruct (mr_fields k p HM) as (_ & _ & _ & _ & E3 & _).
    destruct (inv_mod_any B p Hp a ltac:(unfold canon in Ha; lia)) as (Ci & _ & En).
    assert (C3 : can (g_r3 M)) by (rewrite E3; apply (mod_can k p Hp)).
    split; [|split].
    - unfold mr_inv. cbn [g_p mr_mk]. apply (mr_mul_ok k p HM _ _ Ci C3).
    - intros Hg. apply (mr_inv_ok k p HM a Ha Hg).
    - intros Hg. unfold mr_inv. cbn [g_p mr_mk]. rewrite (En Hg). unfold mr_mul, mr_reduc. rewrite Z.mul_0_l. cbn [g_p g_p1 mr_mk].
      rewrite (reduction_fm k p p1 Hp Hp1 0) by (pose proof (Bk_pos k); nia). apply from_mg_0.
  Qed.
  Theorem mr_div_any a b : can a -> can b -> can (mr_div k M a b) /\ can (mr_divin k M a b).
  Proof.
    intros Ha Hb. destruct (mr_inv_any b Hb) as [Ci _]. unfold mr_div, mr_divin.
    split; [apply (mr_mul_ok k p HM _ _ Ha Ci) | apply (mr_mul_ok k p HM _ _ Ha Ci)].
  Qed.
  (* init from any integer the element type can hold (|x| < B), not only from [0,p) *)
  Theorem mr_init_any x : - B < x < B -> can (mr_init k M x) /\ V (mr_init k M x) = x mod p.
  Proof.
    intros Hx. unfold mr_init. cbv zeta. rewrite (Z.mod_small (Z.abs x) B) by lia.
    pose proof (mod_can k p Hp (Z.abs x)) as Cr.
    assert (Hword : forall r, can r -> 0 <= r < B) by (intros r Hr; unfold canon in Hr; lia).
    destruct (Z.ltb_spec x 0).
    - destruct (mr_neg_ok k p HM _ Cr) as [Cn Vn].
      assert (En : mr_neg k M (Z.abs x mod g_p M) = (- (Z.abs x mod p)) mod p).
      { unfold mr_neg. cbn [g_p mr_mk]. apply (rm_neg_raw k p Hp _ Cr). }
      cbn [g_p mr_mk] in *.
      destruct (mr_to_mg_ok k p HM _ (Hword _ Cn)) as [C1 V1]. split; [exact C1|]. rewrite V1.
      unfold mr_neg in *. cbn [g_p mr_mk] in *. rewrite (rm_neg_raw k p Hp _ Cr). rewrite Z.mod_mod by lia.
      rewrite Z.abs_neq by lia. change (eqm p (- ((- x) mod p)) x). rewrite (mod_eqm p (- x)). rewrite Z.opp_involutive. reflexivity.
    - cbn [g_p mr_mk]. destruct (mr_to_mg_ok k p HM _ (Hword _ Cr)) as [C1 V1]. split; [exact C1|]. rewrite V1.
      rewrite Z.mod_mod by lia. rewrite Z.abs_eq by lia. reflexivity.
  Qed.
End MRAny.

(* ================================================================== statements exported to Properties.v *)
Definition Inv_mod_any_stmt : Prop := forall k c b, 1 < c < Bk k -> 0 <= b ->
  0 <= inv_mod (Bk k) b c < c /\ (Z.gcd b c = 1 -> (inv_mod (Bk k) b c * b) mod c = 1) /\
  (inv_mod (Bk k) b c = 0 <-> Z.gcd b c <> 1).
Lemma Inv_mod_any : Inv_mod_any_stmt.
Proof.
  intros k c b Hc Hb. destruct (inv_mod_any (Bk k) c Hc b Hb) as (C & U & _). split; [exact C|].
  split; [intros Hg; rewrite <- (Z.mod_1_l c) by lia; exact (U Hg)|]. apply (inv_mod_eq0_iff (Bk k) c Hc b Hb).
Qed.

Lemma nbits_Bk k : 2 ^ Z.of_nat (64 * 2 ^ k) = Bk k.
Proof. unfold Bk. f_equal. rewrite Nat2Z.inj_mul, Nat2Z.inj_pow. reflexivity. Qed.

(* inverse and division without the unit hypothesis: residues, Bezout relation, zero exactly on zero *)
Definition Inv_div_any_stmt : Prop := forall k p, RecMod k p ->
  let M := mga_init_module k p in let V := mga_get_ruint k M in
  let R := mr_mk k p in let W := mr_convert k R in
  forall a b, canon p a -> canon p b ->
  (canon p (mga_inv k M b) /\ (Z.gcd (V b) p = 1 -> (V (mga_inv k M b) * V b) mod p = 1) /\ (mga_inv k M b = 0 <-> Z.gcd (V b) p <> 1)) /\
  (canon p (mga_div k M a b) /\ (Z.gcd (V b) p = 1 -> (V (mga_div k M a b) * V b) mod p = V a) /\ (Z.gcd (V b) p <> 1 -> mga_div k M a b = 0)) /\
  (canon p (mgi_inv k p b) /\ (Z.gcd b p = 1 -> (mgi_inv k p b * b) mod p = 1) /\ (mgi_inv k p b = 0 <-> Z.gcd b p <> 1)) /\
  (canon p (mgi_div k p a b) /\ (Z.gcd b p = 1 -> (mgi_div k p a b * b) mod p = a) /\ (Z.gcd b p <> 1 -> mgi_div k p a b = 0)) /\
  (canon p (mr_inv k R b) /\ (Z.gcd b p = 1 -> (W (mr_inv k R b) * W b) mod p = 1) /\ (Z.gcd b p <> 1 -> mr_inv k R b = 0)) /\
  canon p (mr_div k R a b) /\ canon p (mr_divin k R a b) /\ (Z.gcd b p <> 1 -> mr_div k R a b = 0 /\ mr_divin k R a b = 0).
Lemma Inv_div_any : Inv_div_any_stmt.
Proof.
  intros k p HM M V R W a b Ha Hb. subst M V R W. pose proof (proj2 HM) as Hp.
  destruct (mga_inv_any k p HM b Hb) as (C1 & _ & E1 & Z1). destruct (mga_div_any k p HM a b Ha Hb) as (C2 & _ & E2 & Z2).
  destruct (mgi_inv_any k p Hp b Hb) as (C3 & E3 & Z3). destruct (mgi_div_any k p Hp a b Ha Hb) as (C4 & E4 & Z4).
  destruct (mr_inv_any k p HM b Hb) as (C5 & E5 & Z5). destruct (mr_div_any k p HM a b Ha Hb) as (C6 & C7).
  split; [split; [exact C1 | split; [exact E1 | exact Z1]]|].
  split; [split; [exact C2 | split; [exact E2 | exact Z2]]|].
  split; [split; [exact C3 | split; [exact E3 | exact Z3]]|].
  split; [split; [exact C4 | split; [exact E4 | exact Z4]]|].
  split; [split; [exact C5 | split; [exact E5 | exact Z5]]|]. split; [exact C6|]. split; [exact C7|].
  intros Hg. unfold mr_div, mr_divin. rewrite (Z5 Hg). destruct (mr_fields k p HM) as (_ & E1' & _).
  destruct (p1_spec k p HM) as [_ Hp1].
  unfold mr_mul, mr_reduc. rewrite Z.mul_0_r. cbn [g_p g_p1 mr_mk].
  rewrite (reduction_fm k p _ Hp Hp1 0) by (pose proof (Bk_pos k); nia). split; apply from_mg_0.
Qed.

(* the two variants agree after conversion out, on EVERY stored element of every operation *)
Definition Agree_all_stmt : Prop := forall k p, RecMod k p ->
  let M := mga_init_module k p in let V := mga_get_ruint k M in
  (forall x, canon p (mga_of_ruint k M x) /\ V (mga_of_ruint k M x) = mgi_of_ruint p x) /\
  (forall t, V (mga_of_signed k M t) = mgi_of_signed k p t) /\
  (forall t, V (mga_of_rint k M t) = mgi_of_rint k p t) /\
  (forall a, canon p a -> mgi_of_mga k M a = V a /\ V (mga_of_mgi k M (V a)) = V a) /\
  forall a b c, canon p a -> canon p b -> canon p c ->
    V (mga_mul k M a b) = mgi_mul p (V a) (V b) /\
    V (mga_square k M a) = mgi_mul p (V a) (V a) /\
    V (mga_add k M a b) = mgi_add k p (V a) (V b) /\
    V (mga_sub k M a b) = mgi_sub k p (V a) (V b) /\
    V (mga_subin k M a b) = mgi_subin k p (V a) (V b) /\
    V (mga_neg k M a) = mgi_neg k p (V a) /\
    V (mga_addmul k M c a b) = mgi_addmul p (V c) (V a) (V b) /\
    V (mga_inv k M a) = mgi_inv k p (V a) /\
    V (mga_div k M a b) = mgi_div k p (V a) (V b) /\
    (forall e, 0 <= e < 2 ^ 64 -> V (mga_exp_u k M a e) = mgi_exp p 64 (V a) e) /\
    (forall e, 0 <= e < Bk k -> V (mga_exp_ru k M a e) = mgi_exp p (64 * 2 ^ k) (V a) e) /\
    (forall w, V (mga_mul_T k M a w) = mgi_mul_T p (V a) w /\ V (mga_add_T k M a w) = mgi_add_T k p (V a) w /\
               V (mga_sub_T k M a w) = mgi_sub_T k p (V a) w /\ V (mga_T_sub k M w a) = mgi_T_sub k p w (V a) /\
               V (mga_inv_T k M w) = mgi_inv_T k p w) /\
    (forall t, V (mga_mul_Ti k M a t) = mgi_mul_Ti k p (V a) t /\ V (mga_inv_Ti k M t) = mgi_inv_Ti k p t).

Section AgreeProof.
  Variable k : nat.
  Variable p : Z.
  Hypothesis HM : RecMod k p.
  Local Notation B := (Bk k).
  Local Notation M := (mga_init_module k p).
  Local Notation V := (mga_get_ruint k M).
  Local Notation can := (canon p).
  Let Hp : 1 < p < B. Proof. apply HM. Qed.

  Lemma ag_mul a b : can a -> can b -> V (mga_mul k M a b) = mgi_mul p (V a) (V b).
  Proof. intros Ha Hb. apply (mga_mul_ok k p HM a b Ha Hb). Qed.
  Lemma ag_add a b : can a -> can b -> V (mga_add k M a b) = mgi_add k p (V a) (V b).
  Proof.
    intros Ha Hb. destruct (mgi_ops_ok k p Hp (V a) (V b) (V_can k p HM a Ha) (V_can k p HM b Hb)) as (_ & E & _).
    rewrite E. apply (mga_add_ok k p HM a b Ha Hb).
  Qed.
  Lemma ag_sub a b : can a -> can b -> V (mga_sub k M a b) = mgi_sub k p (V a) (V b).
  Proof.
    intros Ha Hb. destruct (mgi_ops_ok k p Hp (V a) (V b) (V_can k p HM a Ha) (V_can k p HM b Hb)) as (_ & _ & E & _).
    rewrite E. apply (mga_sub_ok k p HM a b Ha Hb).
  Qed.
  Lemma ag_subin a b : can a -> can b -> V (mga_subin k M a b) = mgi_subin k p (V a) (V b).
  Proof.
    intros Ha Hb. destruct (mgi_ops_ok k p Hp (V a) (V b) (V_can k p HM a Ha) (V_can k p HM b Hb)) as (_ & _ & _ & E & _).
    rewrite E. apply (mga_subin_ok k p HM a b Ha Hb).
  Qed.
  Lemma ag_neg a : can a -> V (mga_neg k M a) = mgi_neg k p (V a).
  Proof.
    intros Ha. destruct (mgi_ops_ok k p Hp (V a) (V a) (V_can k p HM a Ha) (V_can k p HM a Ha)) as (_ & _ & _ & _ & E).
    rewrite E. apply (mga_neg_ok k p HM a Ha).
  Qed.
  Lemma ag_inv a : can a -> V (mga_inv k M a) = mgi_inv k p (V a).
  Proof. intros Ha. apply (mga_inv_any k p HM a Ha). Qed.
  Lemma ag_div a b : can a -> can b -> V (mga_div k M a b) = mgi_div k p (V a) (V b).
  Proof. intros Ha Hb. destruct (mga_div_any k p HM a b Ha Hb) as (_ & E & _). rewrite E. reflexivity. Qed.
  Lemma ag_unsigned w : can (mga_of_unsigned k M w) /\ V (mga_of_unsigned k M w) = mgi_of_ruint p w.
  Proof. apply (mga_to_mg_ok k p HM w). Qed.
  Lemma ag_signed t : can (mga_of_signed k M t) /\ V (mga_of_signed k M t) = mgi_of_signed k p t.
  Proof.
    destruct (mga_ctor_ok k p HM) as (_ & _ & _ & H & _). destruct (H t) as [C1 _]. split; [exact C1|].
    unfold mga_of_signed, mgi_of_signed. cbv zeta. cbn [g_p mga_init_module].
    match goal with |- context [mga_to_mg k _ ?v] => destruct (mga_to_mg_ok k p HM v) as [_ V1]; rewrite V1 end.
    pose proof (mod_can k p Hp (abs_ru k t)) as Hr. unfold canon in Hr. set (v := abs_ru k t mod p) in *.
    destruct (t <? 0).
    - unfold rm_neg. destruct (Z.eqb_spec v 0) as [->|N].
      + rewrite Z.sub_0_r. rewrite (Z.mod_small p B) by lia. apply Z.mod_same. lia.
      + rewrite (Z.mod_small (p - v) B) by lia. apply Z.mod_small. lia.
    - apply Z.mod_small. exact Hr.
  Qed.
End AgreeProof.

Lemma Agree_all : Agree_all_stmt.
Proof.
  intros k p HM M V. subst M V. pose proof (proj2 HM) as Hp.
  split; [intros x; apply (mga_to_mg_ok k p HM x)|].
  split; [intros t; apply (ag_signed k p HM t)|].
  split.
  { intros t. destruct (mga_ctor_ok k p HM) as (_ & _ & _ & _ & H). destruct (H t) as [_ V1]. rewrite V1.
    destruct (mgi_ctor_ok k p Hp) as (_ & _ & H2). symmetry. apply H2. }
  split.
  { intros a Ha. pose proof (V_can k p HM a Ha) as Cv. split.
    - unfold mgi_of_mga. cbn [g_p mga_init_module]. apply Z.mod_small. exact Cv.
    - destruct (mga_to_mg_ok k p HM (mga_get_ruint k (mga_init_module k p) a)) as [_ V1]. unfold mga_of_mgi. rewrite V1. apply Z.mod_small. exact Cv. }
  intros a b c Ha Hb Hc.
  split; [apply (ag_mul k p HM); assumption|]. split; [apply (ag_mul k p HM); assumption|].
  split; [apply (ag_add k p HM); assumption|]. split; [apply (ag_sub k p HM); assumption|].
  split; [apply (ag_subin k p HM); assumption|]. split; [apply (ag_neg k p HM); assumption|].
  split.
  { destruct (mga_addmul_ok k p HM c a b Hc Ha Hb) as [_ E]. rewrite E. unfold mgi_addmul. f_equal. ring. }
  split; [apply (ag_inv k p HM); assumption|]. split; [apply (ag_div k p HM); assumption|].
  split.
  { intros e He. destruct (mga_exp_u_ok k p HM a e Ha He) as [_ E]. rewrite E.
    destruct (mgi_exp_ok k p Hp 64 _ e (V_can k p HM a Ha) He) as [_ E2]. rewrite E2. reflexivity. }
  split.
  { intros e He. destruct (mga_exp_ru_ok k p HM a e Ha He) as [_ E]. rewrite E.
    destruct (mgi_exp_ok k p Hp (64 * 2 ^ k) _ e (V_can k p HM a Ha) ltac:(rewrite nbits_Bk; exact He)) as [_ E2]. rewrite E2. reflexivity. }
  split.
  { intros w. destruct (ag_unsigned k p HM w) as [Cw Vw].
    split; [unfold mga_mul_T, mgi_mul_T; rewrite (ag_mul k p HM a _ Ha Cw), Vw; reflexivity|].
    split; [unfold mga_add_T, mgi_add_T; fold (mga_add k (mga_init_module k p)); rewrite (ag_add k p HM a _ Ha Cw), Vw; reflexivity|].
    split; [unfold mga_sub_T, mgi_sub_T; fold (mga_sub k (mga_init_module k p)); rewrite (ag_sub k p HM a _ Ha Cw), Vw; reflexivity|].
    split.
    - unfold mga_T_sub, mgi_T_sub. fold (mga_sub k (mga_init_module k p)). fold (mga_neg k (mga_init_module k p)).
      destruct (mga_sub_ok k p HM a _ Ha Cw) as [Cs _].
      rewrite (ag_neg k p HM _ Cs). rewrite (ag_sub k p HM a _ Ha Cw), Vw. reflexivity.
    - unfold mga_inv_T, mgi_inv_T. rewrite (ag_inv k p HM _ Cw), Vw. reflexivity. }
  intros t. destruct (ag_signed k p HM t) as [Ct Vt].
  split; [unfold mga_mul_Ti, mgi_mul_Ti; rewrite (ag_mul k p HM a _ Ha Ct), Vt; reflexivity|].
  unfold mga_inv_Ti, mgi_inv_Ti. rewrite (ag_inv k p HM _ Ct), Vt. reflexivity.
Qed.

(* the stored-form invariant: every operation of the three types returns a stored value in [0,p), for every odd modulus
   1 < p < 2^(2^K) (prime or composite), every operand in [0,p) (units or not), every exponent, every native operand *)
Definition Stored_form_stmt : Prop := forall k p, RecMod k p ->
  let M := mga_init_module k p in let R := mr_mk k p in
  forall a b c, canon p a -> canon p b -> canon p c ->
  forall (w t e : Z) (n : nat), 0 <= e ->
  (* rmint<K,MGA> *)
  (canon p (mga_get_ruint k M a) /\
   canon p (mga_mul k M a b) /\ canon p (mga_square k M a) /\ canon p (mga_add k M a b) /\ canon p (mga_sub k M a b) /\
   canon p (mga_subin k M a b) /\ canon p (mga_neg k M a) /\ canon p (mga_addmul k M c a b) /\
   canon p (mga_inv k M a) /\ canon p (mga_div k M a b) /\
   (e < 2 ^ 64 -> canon p (mga_exp_u k M a e)) /\ (e < Bk k -> canon p (mga_exp_ru k M a e)) /\
   canon p (mga_of_ruint k M w) /\ canon p (mga_of_unsigned k M w) /\ canon p (mga_of_signed k M t) /\ canon p (mga_of_rint k M t) /\
   canon p (mga_of_mgi k M w) /\
   canon p (mga_mul_T k M a w) /\ canon p (mga_mul_Ti k M a t) /\ canon p (mga_add_T k M a w) /\ canon p (mga_sub_T k M a w) /\
   canon p (mga_T_sub k M w a) /\ canon p (mga_inv_T k M w) /\ canon p (mga_inv_Ti k M t)) /\
  (* rmint<K,MGI> *)
  (canon p (mgi_mul p a b) /\ canon p (mgi_add k p a b) /\ canon p (mgi_sub k p a b) /\ canon p (mgi_subin k p a b) /\
   canon p (mgi_neg k p a) /\ canon p (mgi_addmul p c a b) /\ canon p (mgi_inv k p a) /\ canon p (mgi_div k p a b) /\
   (e < 2 ^ Z.of_nat n -> canon p (mgi_exp p n a e)) /\
   canon p (mgi_of_ruint p w) /\ canon p (mgi_of_signed k p t) /\ canon p (mgi_of_rint k p t) /\ canon p (mgi_of_mga k M a) /\
   canon p (mgi_mul_T p a w) /\ canon p (mgi_mul_Ti k p a t) /\ canon p (mgi_add_T k p a w) /\ canon p (mgi_sub_T k p a w) /\
   canon p (mgi_T_sub k p w a) /\ canon p (mgi_inv_T k p w) /\ canon p (mgi_inv_Ti k p t)) /\
  (* Givaro::Montgomery<ruint<K>> *)
  (canon p (mr_convert k R a) /\
   canon p (mr_mul k R a b) /\ canon p (mr_add k R a b) /\ canon p (mr_sub k R a b) /\ canon p (mr_subin k R a b) /\
   canon p (mr_neg k R a) /\ canon p (mr_inv k R a) /\ canon p (mr_div k R a b) /\ canon p (mr_divin k R a b) /\
   canon p (mr_axpy k R a b c) /\ canon p (mr_axpyin k R c a b) /\ canon p (mr_axmy k R a b c) /\ canon p (mr_axmyin k R c a b) /\
   canon p (mr_maxpy k R a b c) /\ canon p (mr_maxpyin k R c a b) /\
   (0 <= w < Bk k -> canon p (mr_to_mg k R w)) /\ (- Bk k < t < Bk k -> canon p (mr_init k R t) /\ mr_convert k R (mr_init k R t) = t mod p) /\
   canon p (g_one R) /\ canon p (g_mOne R) /\ canon p 0).

Lemma Stored_form : Stored_form_stmt.
Proof.
  intros k p HM M R a b c Ha Hb Hc w t e n He. subst M R. pose proof (proj2 HM) as Hp.
  destruct (mga_ctor_ok k p HM) as (K1 & K2 & K3 & K4 & K5).
  destruct (mgi_ctor_ok k p Hp) as (J1 & J2 & J3).
  pose proof (proj1 (K2 w)) as Cw. pose proof (proj1 (K4 t)) as Ct.
  pose proof (proj1 (J1 w)) as Dw. pose proof (proj1 (J2 t)) as Dt.
  split; [|split].
  - split; [apply (V_can k p HM a Ha)|]. split; [apply (mga_mul_ok k p HM a b Ha Hb)|]. split; [apply (mga_square_ok k p HM a Ha)|].
    split; [apply (mga_add_ok k p HM a b Ha Hb)|]. split; [apply (mga_sub_ok k p HM a b Ha Hb)|].
    split; [apply (mga_subin_ok k p HM a b Ha Hb)|]. split; [apply (mga_neg_ok k p HM a Ha)|].
    split; [apply (mga_addmul_ok k p HM c a b Hc Ha Hb)|]. split; [apply (mga_inv_any k p HM a Ha)|].
    split; [apply (mga_div_any k p HM a b Ha Hb)|].
    split; [intros H; apply (mga_exp_u_ok k p HM a e Ha (conj He H))|].
    split; [intros H; apply (mga_exp_ru_ok k p HM a e Ha (conj He H))|].
    split; [apply K1|]. split; [exact Cw|]. split; [exact Ct|]. split; [apply K5|]. split; [apply K3|].
    split; [apply (mga_mul_ok k p HM a _ Ha Cw)|]. split; [apply (mga_mul_ok k p HM a _ Ha Ct)|].
    split; [apply (mga_add_ok k p HM a _ Ha Cw)|]. split; [apply (mga_sub_ok k p HM a _ Ha Cw)|].
    split; [apply (mga_neg_ok k p HM _ (proj1 (mga_sub_ok k p HM a _ Ha Cw)))|].
    split; [apply (mga_inv_any k p HM _ Cw) | apply (mga_inv_any k p HM _ Ct)].
  - assert (Cadd : forall x y, canon p x -> canon p y -> canon p (mgi_add k p x y)).
    { intros x y Hx Hy. destruct (mgi_ops_ok k p Hp x y Hx Hy) as (_ & E & _). rewrite E. apply (mod_can k p Hp). }
    assert (Csub : forall x y, canon p x -> canon p y -> canon p (mgi_sub k p x y)).
    { intros x y Hx Hy. destruct (mgi_ops_ok k p Hp x y Hx Hy) as (_ & _ & E & _). rewrite E. apply (mod_can k p Hp). }
    assert (Cneg : forall x, canon p x -> canon p (mgi_neg k p x)).
    { intros x Hx. destruct (mgi_ops_ok k p Hp x x Hx Hx) as (_ & _ & _ & _ & E). rewrite E. apply (mod_can k p Hp). }
    split; [apply (mod_can k p Hp)|]. split; [apply Cadd; assumption|]. split; [apply Csub; assumption|].
    split. { destruct (mgi_ops_ok k p Hp a b Ha Hb) as (_ & _ & _ & E & _). rewrite E. apply (mod_can k p Hp). }
    split; [apply Cneg; assumption|]. split; [apply (mod_can k p Hp)|].
    split; [apply (mgi_inv_any k p Hp a Ha)|]. split; [apply (mgi_div_any k p Hp a b Ha Hb)|].
    split; [intros H; apply (mgi_exp_ok k p Hp n a e Ha (conj He H))|].
    split; [exact Dw|]. split; [exact Dt|]. split; [apply J3|].
    split. { unfold mgi_of_mga. cbn [g_p mga_init_module]. apply (mod_can k p Hp). }
    split; [apply (mod_can k p Hp)|]. split; [apply (mod_can k p Hp)|].
    split; [apply (Cadd a _ Ha Dw)|]. split; [apply (Csub a _ Ha Dw)|].
    split; [apply Cneg; apply (Csub a _ Ha Dw)|].
    split; [apply (mgi_inv_any k p Hp _ Dw) | apply (mgi_inv_any k p Hp _ Dt)].
  - destruct (mr_fused_ok k p HM a b c Ha Hb Hc) as (F1 & F2 & F3 & F4 & F5 & F6).
    destruct (mr_constants_ok k p HM) as (O1 & _ & O2 & _).
    split; [apply (mr_V_can k p HM a Ha)|]. split; [apply (mr_mul_ok k p HM a b Ha Hb)|]. split; [apply (mr_add_ok k p HM a b Ha Hb)|].
    split; [apply (mr_sub_ok k p HM a b Ha Hb)|]. split; [apply (mr_subin_ok k p HM a b Ha Hb)|]. split; [apply (mr_neg_ok k p HM a Ha)|].
    split; [apply (mr_inv_any k p HM a Ha)|]. split; [apply (mr_div_any k p HM a b Ha Hb)|]. split; [apply (mr_div_any k p HM a b Ha Hb)|].
    split; [apply F1|]. split; [apply F2|]. split; [apply F3|]. split; [apply F4|]. split; [apply F5|]. split; [apply F6|].
    split; [intros H; apply (mr_to_mg_ok k p HM w H)|]. split; [intros H; apply (mr_init_any k p HM t H)|].
    split; [exact O1|]. split; [exact O2|]. unfold canon. lia.
Qed.

Example Stored_form_composite_modulus : RecMod 0 (3 * 3 * 5 * 7).       (* the hypotheses do not ask for a prime *)
Proof. split; [reflexivity | split; [lia | reflexivity]]. Qed.

(* HISTORY: the signed native constructors before fix-7 negated in the native type; for the most negative value of a 64-bit type
   the element was 672319 instead of (-2^63) mod 1000003 = 324658 (what /repo returned before the repair) *)
Lemma signed_ctor_before_fix7_refuted :
  let p := 1000003 in let b := - 2 ^ 63 in
  (p - abs_in_type_old 1 64 b mod p) mod p = 672319 /\ b mod p = 324658 /\ abs_ru 1 b = 2 ^ 63.
Proof. vm_compute. repeat split. Qed.

(* the unit hypothesis of the conditional inverse / division statements is satisfiable, and so is its negation for a composite modulus *)
Example unit_hyps_satisfiable : canon 101 5 /\ Z.gcd 5 101 = 1 /\ RecMod 0 101.
Proof. split; [unfold canon; lia|]. split; [reflexivity|]. split; [reflexivity | split; [lia | reflexivity]]. Qed.
Example nonunit_hyps_satisfiable : canon 9 3 /\ Z.gcd 3 9 <> 1 /\ RecMod 0 9.
Proof. split; [unfold canon; lia|]. split; [vm_compute; discriminate|]. split; [reflexivity | split; [lia | reflexivity]]. Qed.

