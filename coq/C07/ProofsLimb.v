(* C07 — refinement: the limb-level Montgomery functions of LimbModel.v (compositions of C06's primitives) compute the
   integer-level functions of Model.v.  Every fact about a RecInt primitive used here is a THEOREM of coq/C06/Properties.v. *)
From Coq Require Import ZArith Lia Bool Setoid Morphisms Znumtheory.
From C06 Require Model ProofsBase ProofsBits Properties.
From C07 Require Import Param Model Redc ProofsRec LimbModel.
Local Open Scope Z_scope.

Module P6 := C06.Properties.
Module B6 := C06.ProofsBase.
Notation wf := B6.wf.
Notation val := L.val.

Lemma B_eq k : L.B k = Bk k.
Proof. unfold Bk. apply (proj1 (P6.C06_representation k)). Qed.

Lemma val_rng k x : wf k x -> 0 <= val k x < Bk k.
Proof. intros H. rewrite <- B_eq. apply B6.val_range. exact H. Qed.

(* comparisons *)
Lemma l_ge_spec k a b : wf k a -> wf k b -> l_ge k a b = (val k b <=? val k a).
Proof.
  intros Ha Hb. unfold l_ge. rewrite (P6.C06_compare_exact k a b Ha Hb).
  destruct (Z.leb_spec (val k b) (val k a)); [apply Z.leb_le | apply Z.leb_gt]; lia.
Qed.
Lemma l_lt_spec k a b : wf k a -> wf k b -> L.lt k a b = (val k a <? val k b).
Proof.
  intros Ha Hb. unfold L.lt. rewrite (P6.C06_compare_exact k a b Ha Hb).
  destruct (Z.ltb_spec (val k a) (val k b)); [apply Z.ltb_lt | apply Z.ltb_ge]; lia.
Qed.
Lemma l_eqb_zero_spec k b : wf k b -> L.eqb k b (L.zero k) = (val k b =? 0).
Proof.
  intros Hb. unfold L.eqb. rewrite (P6.C06_compare_exact k b _ Hb (B6.wf_zero k)). rewrite B6.val_zero.
  destruct (Z.eqb_spec (val k b) 0); [apply Z.eqb_eq | apply Z.eqb_neq]; lia.
Qed.
Lemma l_sub_spec k a b : wf k a -> wf k b ->
  wf k (fst (L.sub_c k a b)) /\ val k (fst (L.sub_c k a b)) = (val k a - val k b) mod Bk k.
Proof. intros Ha Hb. destruct (P6.C06_sub_borrow_exact k a b Ha Hb) as (W & E & _). rewrite <- B_eq. split; assumption. Qed.
Lemma l_add_spec k a b : wf k a -> wf k b ->
  wf k (fst (L.add_c k a b)) /\ val k (fst (L.add_c k a b)) = (val k a + val k b) mod Bk k /\
  snd (L.add_c k a b) = (Bk k <=? val k a + val k b).
Proof.
  intros Ha Hb. destruct (P6.C06_add_carry_exact k a b Ha Hb) as (W & E & C). rewrite B_eq in *.
  split; [exact W|]. split; [exact E|].
  pose proof (val_rng k a Ha). pose proof (val_rng k b Hb).
  destruct (Z.leb_spec (Bk k) (val k a + val k b)).
  - assert ((val k a + val k b) / Bk k = 1) by (symmetry; apply (Z.div_unique _ _ 1 (val k a + val k b - Bk k)); lia).
    destruct (snd (L.add_c k a b)); cbn [L.b2z] in C; [reflexivity | lia].
  - rewrite Z.div_small in C by lia. destruct (snd (L.add_c k a b)); cbn [L.b2z] in C; [lia | reflexivity].
Qed.

(* splitting l + B t + B^2 r *)
Lemma split3 B l t r s : 0 < B -> 0 <= l < B -> 0 <= t < B -> 0 <= r <= 1 -> l + B * t + B * B * r = s ->
  (s / B) mod B = t /\ (B * B <=? s) = (r =? 1).
Proof.
  intros HB Hl Ht Hr E.
  assert (Ed : s / B = t + B * r) by (symmetry; apply (Z.div_unique s B (t + B * r) l); [lia | rewrite <- E; ring]).
  split.
  - rewrite Ed. rewrite Z.mul_comm. rewrite Z.mod_add by lia. apply Z.mod_small. exact Ht.
  - destruct (Z.eqb_spec r 1) as [->|N]; [apply Z.leb_le; nia | apply Z.leb_gt; assert (r = 0) by lia; subst r; nia].
Qed.

Section Refine.
  Variable thr : nat.
  Variable k : nat.
  Local Notation B := (Bk k).

  Theorem l_reduction2_refines p p1 a : wf k p -> wf k p1 -> wf (S k) a ->
    wf k (l_reduction2 thr k p p1 a) /\
    val k (l_reduction2 thr k p p1 a) = reduction k (val k p) (val k p1) (val (S k) a).
  Proof.
    intros Hp Hp1 [Hal Hah]. unfold l_reduction2, reduction. cbv zeta.
    destruct (P6.C06_mul_truncated_exact thr k (fst a) p1 Hal Hp1) as [W0 E0]. rewrite B_eq in E0.
    pose proof (P6.C06_laddmul_wide_addend_exact thr k (L.mul thr k (fst a) p1) p a W0 Hp (conj Hal Hah)) as H.
    destruct (L.laddmul2 thr k (L.mul thr k (fst a) p1) p a) as [[l t] r]. destruct H as (Wl & Wt & E).
    rewrite B6.B_S in E. rewrite !B_eq in E.
    pose proof (val_rng k l Wl) as Rl. pose proof (val_rng k t Wt) as Rt. pose proof (val_rng k p Hp) as Rp.
    pose proof (val_rng k (fst a) Hal) as Ra.
    assert (HB : 0 < B) by (pose proof (Bk_pos k); lia).
    assert (Elow : val (S k) a mod B = val k (fst a)).
    { rewrite B6.val_S. rewrite B_eq. rewrite Z.mul_comm. rewrite Z.mod_add by lia. apply Z.mod_small. exact Ra. }
    rewrite Elow. rewrite <- E0.
    destruct (split3 B (val k l) (val k t) (L.b2z r) _ HB Rl Rt ltac:(destruct r; cbn; lia) E) as [Et Er].
    rewrite Et, Er. rewrite (l_ge_spec k t p Wt Hp).
    assert (Erb : (L.b2z r =? 1) = r) by (destruct r; reflexivity). rewrite Erb.
    destruct (r || (val k p <=? val k t)); [apply (l_sub_spec k t p Wt Hp) | split; [exact Wt | reflexivity]].
  Qed.

  Theorem l_reduction1_refines p p1 a : wf k p -> wf k p1 -> wf k a ->
    wf k (l_reduction1 thr k p p1 a) /\
    val k (l_reduction1 thr k p p1 a) = reduction k (val k p) (val k p1) (val k a).
  Proof.
    intros Hp Hp1 Ha. unfold l_reduction1, reduction. cbv zeta.
    destruct (P6.C06_mul_truncated_exact thr k a p1 Ha Hp1) as [W0 E0]. rewrite B_eq in E0.
    pose proof (P6.C06_laddmul_exact thr k (L.mul thr k a p1) p a W0 Hp Ha) as H.
    destruct (L.laddmul thr k (L.mul thr k a p1) p a) as [[l t] r]. destruct H as (Wl & Wt & E & Er0). subst r.
    rewrite !B_eq in E.
    pose proof (val_rng k l Wl) as Rl. pose proof (val_rng k t Wt) as Rt. pose proof (val_rng k a Ha) as Ra.
    assert (HB : 0 < B) by (pose proof (Bk_pos k); lia).
    rewrite (Z.mod_small (val k a) B) by exact Ra. rewrite <- E0.
    destruct (split3 B (val k l) (val k t) 0 _ HB Rl Rt ltac:(lia) ltac:(rewrite Z.mul_0_r, Z.add_0_r; exact E)) as [Et Er].
    rewrite Et, Er. cbn [Z.eqb orb]. rewrite (l_ge_spec k t p Wt Hp).
    destruct (val k p <=? val k t); [apply (l_sub_spec k t p Wt Hp) | split; [exact Wt | reflexivity]].
  Qed.

  Lemma wide_val (x : L.ru k * L.ru k) : val (S k) x = val k (fst x) + B * val k (snd x).
  Proof. rewrite B6.val_S. rewrite B_eq. reflexivity. Qed.

  Theorem l_mga_mul_refines p p1 b c : wf k p -> wf k p1 -> wf k b -> wf k c ->
    wf k (l_mga_mul thr k p p1 b c) /\
    val k (l_mga_mul thr k p p1 b c) = reduction k (val k p) (val k p1) (val k b * val k c).
  Proof.
    intros Hp Hp1 Hb Hc. unfold l_mga_mul. destruct (P6.C06_lmul_exact thr k b c Hb Hc) as (W1 & W2 & E). rewrite B_eq in E.
    destruct (l_reduction2_refines p p1 (L.lmul thr k b c) Hp Hp1 (conj W1 W2)) as [W V]. split; [exact W|].
    rewrite V. rewrite wide_val. rewrite E. reflexivity.
  Qed.
  Theorem l_mga_square_refines p p1 b : wf k p -> wf k p1 -> wf k b ->
    wf k (l_mga_square thr k p p1 b) /\
    val k (l_mga_square thr k p p1 b) = reduction k (val k p) (val k p1) (val k b * val k b).
  Proof.
    intros Hp Hp1 Hb. unfold l_mga_square. destruct (P6.C06_lsquare_exact thr k b Hb) as (W1 & W2 & E). rewrite B_eq in E.
    destruct (l_reduction2_refines p p1 (L.lsquare thr k b) Hp Hp1 (conj W1 W2)) as [W V]. split; [exact W|].
    rewrite V. rewrite wide_val. rewrite E. reflexivity.
  Qed.
  Theorem l_mgi_mul_refines p b c : wf k p -> wf k b -> wf k c -> val k p <> 0 ->
    wf k (l_mgi_mul thr k p b c) /\ val k (l_mgi_mul thr k p b c) = mgi_mul (val k p) (val k b) (val k c).
  Proof.
    intros Hp Hb Hc Hnz. unfold l_mgi_mul, mgi_mul. destruct (P6.C06_lmul_exact thr k b c Hb Hc) as (W1 & W2 & E). rewrite B_eq in E.
    destruct (P6.C06_mod_double_size_exact thr k (L.lmul thr k b c) p (conj W1 W2) Hp Hnz) as [W V]. split; [exact W|].
    rewrite V. rewrite wide_val. rewrite E. reflexivity.
  Qed.

  Theorem l_add_refines p b c : wf k p -> wf k b -> wf k c ->
    wf k (l_add k p b c) /\ val k (l_add k p b c) = rm_add k (val k p) (val k b) (val k c).
  Proof.
    intros Hp Hb Hc. unfold l_add, rm_add. cbv zeta. destruct (l_add_spec k b c Hb Hc) as (W & E & C).
    destruct (L.add_c k b c) as [a r]. cbn [fst snd] in *. subst r. rewrite <- E. rewrite (l_ge_spec k a p W Hp).
    destruct ((B <=? val k b + val k c) || (val k p <=? val k a)); [apply (l_sub_spec k a p W Hp) | split; [exact W | reflexivity]].
  Qed.
  Theorem l_sub_refines p b c : wf k p -> wf k b -> wf k c ->
    wf k (l_sub k p b c) /\ val k (l_sub k p b c) = rm_sub k (val k p) (val k b) (val k c).
  Proof.
    intros Hp Hb Hc. unfold l_sub, rm_sub. rewrite (l_lt_spec k b c Hb Hc). destruct (val k b <? val k c).
    - destruct (l_sub_spec k b c Hb Hc) as [W1 E1]. destruct (l_add_spec k _ p W1 Hp) as (W2 & E2 & _).
      split; [exact W2|]. rewrite E2, E1. reflexivity.
    - apply (l_sub_spec k b c Hb Hc).
  Qed.
  Theorem l_subin_refines p a b : wf k p -> wf k a -> wf k b ->
    wf k (l_subin k p a b) /\ val k (l_subin k p a b) = rm_subin k (val k p) (val k a) (val k b).
  Proof.
    intros Hp Ha Hb. unfold l_subin, rm_subin. rewrite (l_lt_spec k a b Ha Hb). destruct (val k a <? val k b).
    - destruct (l_sub_spec k p b Hp Hb) as [W1 E1]. destruct (l_add_spec k a _ Ha W1) as (W2 & E2 & _).
      split; [exact W2|]. rewrite E2, E1. reflexivity.
    - apply (l_sub_spec k a b Ha Hb).
  Qed.
  Theorem l_neg_refines p b : wf k p -> wf k b ->
    wf k (l_neg k p b) /\ val k (l_neg k p b) = rm_neg k (val k p) (val k b).
  Proof.
    intros Hp Hb. unfold l_neg, rm_neg. rewrite (l_eqb_zero_spec k b Hb). destruct (val k b =? 0).
    - split; [apply B6.wf_zero | apply B6.val_zero].
    - apply (l_sub_spec k p b Hp Hb).
  Qed.

  Theorem l_to_mg_refines p b : wf k p -> wf k b -> val k p <> 0 ->
    wf k (l_to_mg thr k p b) /\ val k (l_to_mg thr k p b) = (val k b * B) mod val k p.
  Proof.
    intros Hp Hb Hnz. unfold l_to_mg.
    destruct (P6.C06_mod_double_size_exact thr k (L.zero k, b) p (conj (B6.wf_zero k) Hb) Hp Hnz) as [W V]. split; [exact W|].
    rewrite V. rewrite wide_val. cbn [fst snd]. rewrite B6.val_zero. f_equal. ring.
  Qed.
End Refine.

(* ------------------------------------------------------------------ module constants and inverses *)
Lemma l_neg_val k x : wf k x -> wf k (L.neg k x) /\ val k (L.neg k x) = (- val k x) mod Bk k.
Proof.
  intros Hx. destruct (P6.C06_bit_operations_exact k x x Hx Hx) as (_ & _ & _ & _ & W & E). rewrite B_eq in E. split; assumption.
Qed.

Lemma odd_mod2 a : Z.odd a = true -> a mod 2 = 1.
Proof. intros H. destruct (odd_succ_double a H) as [y ->]. rewrite Z.add_comm, Z.mul_comm. rewrite Z.mod_add by lia. reflexivity. Qed.

Section Constants.
  Variable thr : nat.
  Variable k : nat.
  Local Notation B := (Bk k).
  Variable p : L.ru k.
  Hypothesis Wp : wf k p.
  Hypothesis HM : RecMod k (val k p).

  Let Hp : 1 < val k p < B. Proof. apply HM. Qed.

  (* p1: C06's limb-level arazi_qi and the integer-level one of Model.v are the same number (the inverse is unique) *)
  Theorem l_p1_refines : wf k (l_p1 thr k p) /\ val k (l_p1 thr k p) = arazi_qi k ((- val k p) mod B).
  Proof.
    unfold l_p1. destruct (l_neg_val k p Wp) as [Wn En].
    assert (Hodd : Z.odd ((- val k p) mod B) = true).
    { rewrite (neg_mod_B k _ Hp). destruct (Bk_even k) as [h Hh]. rewrite Z.odd_sub. rewrite Hh. rewrite Z.odd_mul.
      rewrite (proj1 HM). reflexivity. }
    assert (Rn : 0 <= (- val k p) mod B < B) by (apply Z.mod_pos_bound; lia).
    destruct (P6.C06_inverse_mod_power_of_two_exact thr k (L.neg k p) Wn ltac:(rewrite En; apply odd_mod2; exact Hodd)) as [Wu Eu].
    rewrite B_eq in Eu. rewrite En in Eu. split; [exact Wu|].
    destruct (arazi_qi_spec k _ Rn Hodd) as [Ru Ev].
    apply (inverse_unique B ((- val k p) mod B)); [lia | apply (val_rng k _ Wu) | exact Ru | | ].
    - rewrite Z.mul_comm. exact Eu.
    - rewrite Z.mul_comm. exact Ev.
  Qed.

  Theorem l_r_refines : wf k (l_r thr k p) /\ val k (l_r thr k p) = ((- val k p) mod B) mod val k p.
  Proof.
    unfold l_r. destruct (l_neg_val k p Wp) as [Wn En].
    destruct (P6.C06_euclidean_division_exact thr k (L.neg k p) p Wn Wp ltac:(lia)) as (_ & Wr & E & R).
    split; [exact Wr|]. rewrite <- En.
    apply (Z.mod_unique _ _ (val k (fst (L.div thr k (L.neg k p) p)))); [left; exact R | rewrite E; ring].
  Qed.

  (* the constants of rmint<K,MGA>::init_module and of the Montgomery<ruint<K>> constructor, at limb level *)
  Theorem l_constants :
    val k (l_p1 thr k p) = g_p1 (mga_init_module k (val k p)) /\
    val k (l_r thr k p) = g_r (mga_init_module k (val k p)) /\
    val k (l_r2 thr k p) = g_r2 (mr_mk k (val k p)) /\
    val k (l_r3 thr k p) = g_r3 (mr_mk k (val k p)) /\
    (val k p * val k (l_p1 thr k p) + 1) mod B = 0 /\
    val k (l_r thr k p) = B mod val k p /\ val k (l_r2 thr k p) = (B * B) mod val k p /\ val k (l_r3 thr k p) = (B * B * B) mod val k p.
  Proof.
    destruct l_p1_refines as [W1 E1]. destruct l_r_refines as [Wr Er].
    assert (Hnz : val k p <> 0) by lia.
    assert (E2 : wf k (l_r2 thr k p) /\ val k (l_r2 thr k p) = (val k (l_r thr k p) * val k (l_r thr k p)) mod val k p).
    { unfold l_r2. destruct (P6.C06_lmul_exact thr k _ _ Wr Wr) as (Wa & Wb & E). rewrite B_eq in E.
      destruct (P6.C06_mod_double_size_exact thr k _ p (conj Wa Wb) Wp Hnz) as [W V]. split; [exact W|].
      rewrite V. rewrite wide_val. rewrite E. reflexivity. }
    destruct E2 as [W2 E2].
    assert (E3 : val k (l_r3 thr k p) = (val k (l_r2 thr k p) * val k (l_r thr k p)) mod val k p).
    { unfold l_r3. destruct (P6.C06_lmul_exact thr k _ _ W2 Wr) as (Wa & Wb & E). rewrite B_eq in E.
      destruct (P6.C06_mod_double_size_exact thr k _ p (conj Wa Wb) Wp Hnz) as [W V].
      rewrite V. rewrite wide_val. rewrite E. reflexivity. }
    destruct (Module_constants k (val k p) HM) as [(_ & _ & Hc1 & Hc2) (_ & Hd1 & Hd2 & Hd3 & Hd4 & _)].
    cbv zeta in *. cbn [g_p1 g_r mga_init_module] in Hc1, Hc2.
    assert (G2 : g_r2 (mr_mk k (val k p)) = (val k (l_r thr k p) * val k (l_r thr k p)) mod val k p) by (cbn [g_r2 mr_mk]; rewrite Er; reflexivity).
    assert (G3 : g_r3 (mr_mk k (val k p)) = (val k (l_r2 thr k p) * val k (l_r thr k p)) mod val k p) by (cbn [g_r3 mr_mk]; rewrite E2, Er; reflexivity).
    split; [exact E1|]. split; [exact Er|]. split; [rewrite G2; exact E2|]. split; [rewrite G3; exact E3|].
    split; [rewrite E1; exact Hc1|]. split; [rewrite Er; exact Hc2|].
    split; [rewrite E2, <- G2; exact Hd3 | rewrite E3, <- G3; exact Hd4].
  Qed.

  (* inv_mod: C06's limb-level loop and the integer-level loop of Model.v return the same inverse on units *)
  Theorem l_inv_mod_refines b : wf k b -> val k b < val k p -> Z.gcd (val k b) (val k p) = 1 ->
    wf k (L.inv_mod thr k b p) /\ val k (L.inv_mod thr k b p) = inv_mod B (val k b) (val k p).
  Proof.
    intros Wb Hb Hg. destruct (P6.C06_inverse_modulo_exact thr k b p Wb Wp ltac:(lia) Hg) as (Wi & Ri & Ei).
    split; [exact Wi|]. pose proof (val_rng k b Wb) as Rb. pose proof (val_rng k _ Wi) as Rv.
    destruct (inv_mod_spec B (val k p) (val k b) Hp ltac:(lia) Hg) as [Rz Ez].
    apply (inverse_unique (val k p) (val k b)); [lia | lia | exact Rz | rewrite Z.mul_comm; exact Ei | exact Ez].
  Qed.
End Constants.

(* ------------------------------------------------------------------ end to end: the limb-level Montgomery arithmetic is plain
   residue arithmetic.  Hypotheses: the operands are well-formed limb trees below p, p odd, 1 < p.  Nothing about the RecInt
   primitives is assumed: their exactness is C06's theorems. *)
Section EndToEnd.
  Variable thr : nat.
  Variable k : nat.
  Variable p : L.ru k.
  Hypothesis Wp : wf k p.
  Hypothesis HM : RecMod k (val k p).
  Local Notation B := (Bk k).
  Local Notation P := (val k p).
  Local Notation M := (mga_init_module k P).
  Local Notation p1 := (l_p1 thr k p).
  Local Notation VZ := (mga_get_ruint k M).
  Definition l_value (x : L.ru k) : Z := val k (l_reduction1 thr k p (l_p1 thr k p) x).   (* get_ruint: the residue x stands for *)
  Local Notation V := l_value.

  Let W1 : wf k p1. Proof. apply (l_p1_refines thr k p Wp HM). Qed.
  Let E1 : val k p1 = g_p1 M. Proof. apply (l_p1_refines thr k p Wp HM). Qed.
  Let Hp : 1 < P < B. Proof. apply HM. Qed.

  Lemma l_value_eq x : wf k x -> V x = VZ (val k x).
  Proof.
    intros Wx. unfold l_value. rewrite (proj2 (l_reduction1_refines thr k p p1 x Wp W1 Wx)). rewrite E1. reflexivity.
  Qed.
  Lemma l_mga_mul_eq a b : wf k a -> wf k b ->
    wf k (l_mga_mul thr k p p1 a b) /\ val k (l_mga_mul thr k p p1 a b) = mga_mul k M (val k a) (val k b).
  Proof.
    intros Wa Wb. destruct (l_mga_mul_refines thr k p p1 a b Wp W1 Wa Wb) as [W E]. split; [exact W|]. rewrite E, E1. reflexivity.
  Qed.

  Theorem limb_mga_ops a b : wf k a -> wf k b -> val k a < P -> val k b < P ->
    (wf k (l_mga_mul thr k p p1 a b) /\ val k (l_mga_mul thr k p p1 a b) < P /\ V (l_mga_mul thr k p p1 a b) = (V a * V b) mod P) /\
    (wf k (l_mga_square thr k p p1 a) /\ val k (l_mga_square thr k p p1 a) < P /\ V (l_mga_square thr k p p1 a) = (V a * V a) mod P) /\
    (wf k (l_add k p a b) /\ val k (l_add k p a b) < P /\ V (l_add k p a b) = (V a + V b) mod P) /\
    (wf k (l_sub k p a b) /\ val k (l_sub k p a b) < P /\ V (l_sub k p a b) = (V a - V b) mod P) /\
    (wf k (l_subin k p a b) /\ val k (l_subin k p a b) < P /\ V (l_subin k p a b) = (V a - V b) mod P) /\
    (wf k (l_neg k p a) /\ val k (l_neg k p a) < P /\ V (l_neg k p a) = (- V a) mod P) /\
    (wf k (l_to_mg thr k p a) /\ val k (l_to_mg thr k p a) < P /\ V (l_to_mg thr k p a) = val k a) /\
    (* the Montgomery and the plain variant agree: enter, multiply, leave  =  multiply and reduce *)
    V (l_mga_mul thr k p p1 (l_to_mg thr k p a) (l_to_mg thr k p b)) = val k (l_mgi_mul thr k p a b).
  Proof.
    intros Wa Wb La Lb.
    pose proof (val_rng k a Wa) as Ra. pose proof (val_rng k b Wb) as Rb.
    assert (Ca : canon P (val k a)) by (unfold canon; lia). assert (Cb : canon P (val k b)) by (unfold canon; lia).
    assert (Hnz : P <> 0) by lia.
    rewrite !(l_value_eq a Wa), !(l_value_eq b Wb).
    split.
    { destruct (l_mga_mul_eq a b Wa Wb) as [W E]. destruct (mga_mul_ok k P HM _ _ Ca Cb) as [C Vm].
      split; [exact W|]. split; [rewrite E; apply C|]. rewrite (l_value_eq _ W), E. exact Vm. }
    split.
    { destruct (l_mga_square_refines thr k p p1 a Wp W1 Wa) as [W E]. rewrite E1 in E.
      destruct (mga_square_ok k P HM _ Ca) as [C Vm]. change (reduction k P (g_p1 M) (val k a * val k a)) with (mga_square k M (val k a)) in E.
      split; [exact W|]. split; [rewrite E; apply C|]. rewrite (l_value_eq _ W), E. exact Vm. }
    split.
    { destruct (l_add_refines k p a b Wp Wa Wb) as [W E]. destruct (mga_add_ok k P HM _ _ Ca Cb) as [C Vm].
      change (rm_add k P (val k a) (val k b)) with (mga_add k M (val k a) (val k b)) in E.
      split; [exact W|]. split; [rewrite E; apply C|]. rewrite (l_value_eq _ W), E. exact Vm. }
    split.
    { destruct (l_sub_refines k p a b Wp Wa Wb) as [W E]. destruct (mga_sub_ok k P HM _ _ Ca Cb) as [C Vm].
      change (rm_sub k P (val k a) (val k b)) with (mga_sub k M (val k a) (val k b)) in E.
      split; [exact W|]. split; [rewrite E; apply C|]. rewrite (l_value_eq _ W), E. exact Vm. }
    split.
    { destruct (l_subin_refines k p a b Wp Wa Wb) as [W E]. destruct (mga_subin_ok k P HM _ _ Ca Cb) as [C Vm].
      change (rm_subin k P (val k a) (val k b)) with (mga_subin k M (val k a) (val k b)) in E.
      split; [exact W|]. split; [rewrite E; apply C|]. rewrite (l_value_eq _ W), E. exact Vm. }
    split.
    { destruct (l_neg_refines k p a Wp Wa) as [W E]. destruct (mga_neg_ok k P HM _ Ca) as [C Vm].
      change (rm_neg k P (val k a)) with (mga_neg k M (val k a)) in E.
      split; [exact W|]. split; [rewrite E; apply C|]. rewrite (l_value_eq _ W), E. exact Vm. }
    assert (Tm : forall x, wf k x -> val k x < P ->
                 wf k (l_to_mg thr k p x) /\ val k (l_to_mg thr k p x) = mga_to_mg k M (val k x)).
    { intros x Wx Lx. destruct (l_to_mg_refines thr k p x Wp Wx Hnz) as [W E]. split; [exact W|]. rewrite E. reflexivity. }
    destruct (Tm a Wa La) as [Wta Eta]. destruct (Tm b Wb Lb) as [Wtb Etb].
    destruct (mga_to_mg_ok k P HM (val k a)) as [Cta Vta]. destruct (mga_to_mg_ok k P HM (val k b)) as [Ctb Vtb].
    split.
    { split; [exact Wta|]. split; [rewrite Eta; apply Cta|]. rewrite (l_value_eq _ Wta), Eta, Vta. apply Z.mod_small. lia. }
    destruct (l_mga_mul_eq _ _ Wta Wtb) as [W E]. rewrite (l_value_eq _ W), E, Eta, Etb.
    rewrite (proj2 (mga_mul_ok k P HM _ _ Cta Ctb)), Vta, Vtb.
    rewrite (proj2 (l_mgi_mul_refines thr k p a b Wp Wa Wb Hnz)). unfold mgi_mul.
    rewrite (Z.mod_small (val k a) P), (Z.mod_small (val k b) P) by lia. reflexivity.
  Qed.

  (* inversion: both variants, on units *)
  Theorem limb_inverses a : wf k a -> val k a < P -> Z.gcd (val k a) P = 1 ->
    (wf k (l_mga_inv thr k p p1 a) /\ val k (l_mga_inv thr k p p1 a) < P /\ (V (l_mga_inv thr k p p1 a) * V a) mod P = 1) /\
    (wf k (l_mgi_inv thr k p a) /\ val k (l_mgi_inv thr k p a) < P /\ (val k (l_mgi_inv thr k p a) * val k a) mod P = 1).
  Proof.
    intros Wa La Hg. pose proof (val_rng k a Wa) as Ra. assert (Ca : canon P (val k a)) by (unfold canon; lia).
    assert (Hnz : P <> 0) by lia.
    split.
    - unfold l_mga_inv. destruct (l_reduction1_refines thr k p p1 a Wp W1 Wa) as [Wr Er]. rewrite E1 in Er.
      change (reduction k P (g_p1 M) (val k a)) with (VZ (val k a)) in Er.
      pose proof (V_can k P HM _ Ca) as Cv. unfold canon in Cv.
      destruct (p1_spec k P HM) as [_ Hp1].
      assert (Gv : Z.gcd (VZ (val k a)) P = 1).
      { rewrite (mga_V_fm k P HM _ Ca). apply gcd_fm; [lia | apply (BBi k P _ Hp1) | exact Hg]. }
      destruct (l_inv_mod_refines thr k p Wp HM _ Wr ltac:(rewrite Er; lia) ltac:(rewrite Er; exact Gv)) as [Wi Ei].
      destruct (l_to_mg_refines thr k p _ Wp Wi Hnz) as [Wt Et].
      destruct (mga_inv_ok k P HM _ Ca Hg) as [Ci Vi].
      assert (Eq : val k (l_to_mg thr k p (L.inv_mod thr k (l_reduction1 thr k p p1 a) p)) = mga_inv k M (val k a)).
      { rewrite Et, Ei, Er. reflexivity. }
      split; [exact Wt|]. split; [rewrite Eq; apply Ci|]. rewrite (l_value_eq _ Wt), Eq, (l_value_eq a Wa). exact Vi.
    - unfold l_mgi_inv. destruct (l_inv_mod_refines thr k p Wp HM a Wa La Hg) as [Wi Ei].
      destruct (inv_mod_spec B P (val k a) Hp ltac:(lia) Hg) as [Rz Ez].
      split; [exact Wi|]. split; [rewrite Ei; lia|]. rewrite Ei. exact Ez.
  Qed.
End EndToEnd.

(* ================================================================== statements exported to Properties.v *)
Definition Limb_refinement_stmt : Prop := forall thr k (p p1 a b : L.ru k) (w : L.ru (S k)),
  wf k p -> wf k p1 -> wf k a -> wf k b -> wf (S k) w ->
  val k (l_reduction2 thr k p p1 w) = reduction k (val k p) (val k p1) (val (S k) w) /\
  val k (l_reduction1 thr k p p1 a) = reduction k (val k p) (val k p1) (val k a) /\
  val k (l_mga_mul thr k p p1 a b) = reduction k (val k p) (val k p1) (val k a * val k b) /\
  val k (l_add k p a b) = rm_add k (val k p) (val k a) (val k b) /\
  val k (l_sub k p a b) = rm_sub k (val k p) (val k a) (val k b) /\
  val k (l_subin k p a b) = rm_subin k (val k p) (val k a) (val k b) /\
  val k (l_neg k p a) = rm_neg k (val k p) (val k a) /\
  (val k p <> 0 -> val k (l_to_mg thr k p a) = (val k a * Bk k) mod val k p /\
                   val k (l_mgi_mul thr k p a b) = mgi_mul (val k p) (val k a) (val k b)).
Lemma Limb_refinement : Limb_refinement_stmt.
Proof.
  intros thr k p p1 a b w Wp W1 Wa Wb Ww.
  split; [apply (l_reduction2_refines thr k p p1 w Wp W1 Ww)|]. split; [apply (l_reduction1_refines thr k p p1 a Wp W1 Wa)|].
  split; [apply (l_mga_mul_refines thr k p p1 a b Wp W1 Wa Wb)|]. split; [apply (l_add_refines k p a b Wp Wa Wb)|].
  split; [apply (l_sub_refines k p a b Wp Wa Wb)|]. split; [apply (l_subin_refines k p a b Wp Wa Wb)|].
  split; [apply (l_neg_refines k p a Wp Wa)|]. intros Hnz.
  split; [apply (l_to_mg_refines thr k p a Wp Wa Hnz) | apply (l_mgi_mul_refines thr k p a b Wp Wa Wb Hnz)].
Qed.

Definition Limb_constants_stmt : Prop := forall thr k (p : L.ru k), wf k p -> RecMod k (val k p) ->
  let B := Bk k in let P := val k p in
  (P * val k (l_p1 thr k p) + 1) mod B = 0 /\ val k (l_r thr k p) = B mod P /\
  val k (l_r2 thr k p) = (B * B) mod P /\ val k (l_r3 thr k p) = (B * B * B) mod P /\
  val k (l_p1 thr k p) = g_p1 (mga_init_module k P) /\ val k (l_r thr k p) = g_r (mga_init_module k P) /\
  val k (l_r2 thr k p) = g_r2 (mr_mk k P) /\ val k (l_r3 thr k p) = g_r3 (mr_mk k P).
Lemma Limb_constants : Limb_constants_stmt.
Proof.
  intros thr k p Wp HM B P. destruct (l_constants thr k p Wp HM) as (A1 & A2 & A3 & A4 & A5 & A6 & A7 & A8).
  repeat split; assumption.
Qed.

Definition Limb_mga_ops_stmt : Prop := forall thr k (p a b : L.ru k), wf k p -> RecMod k (val k p) ->
  wf k a -> wf k b -> val k a < val k p -> val k b < val k p ->
  let p1 := l_p1 thr k p in let P := val k p in let V := l_value thr k p in
  (wf k (l_mga_mul thr k p p1 a b) /\ val k (l_mga_mul thr k p p1 a b) < P /\ V (l_mga_mul thr k p p1 a b) = (V a * V b) mod P) /\
  (wf k (l_mga_square thr k p p1 a) /\ val k (l_mga_square thr k p p1 a) < P /\ V (l_mga_square thr k p p1 a) = (V a * V a) mod P) /\
  (wf k (l_add k p a b) /\ val k (l_add k p a b) < P /\ V (l_add k p a b) = (V a + V b) mod P) /\
  (wf k (l_sub k p a b) /\ val k (l_sub k p a b) < P /\ V (l_sub k p a b) = (V a - V b) mod P) /\
  (wf k (l_subin k p a b) /\ val k (l_subin k p a b) < P /\ V (l_subin k p a b) = (V a - V b) mod P) /\
  (wf k (l_neg k p a) /\ val k (l_neg k p a) < P /\ V (l_neg k p a) = (- V a) mod P) /\
  (wf k (l_to_mg thr k p a) /\ val k (l_to_mg thr k p a) < P /\ V (l_to_mg thr k p a) = val k a) /\
  V (l_mga_mul thr k p p1 (l_to_mg thr k p a) (l_to_mg thr k p b)) = val k (l_mgi_mul thr k p a b).
Lemma Limb_mga_ops : Limb_mga_ops_stmt.
Proof. intros thr k p a b Wp HM Wa Wb La Lb p1 P V. subst p1 P V. apply (limb_mga_ops thr k p Wp HM a b Wa Wb La Lb). Qed.

Definition Limb_inverses_stmt : Prop := forall thr k (p a : L.ru k), wf k p -> RecMod k (val k p) ->
  wf k a -> val k a < val k p -> Z.gcd (val k a) (val k p) = 1 ->
  let p1 := l_p1 thr k p in let P := val k p in let V := l_value thr k p in
  (wf k (l_mga_inv thr k p p1 a) /\ val k (l_mga_inv thr k p p1 a) < P /\ (V (l_mga_inv thr k p p1 a) * V a) mod P = 1) /\
  (wf k (l_mgi_inv thr k p a) /\ val k (l_mgi_inv thr k p a) < P /\ (val k (l_mgi_inv thr k p a) * val k a) mod P = 1).
Lemma Limb_inverses : Limb_inverses_stmt.
Proof. intros thr k p a Wp HM Wa La Hg p1 P V. subst p1 P V. apply (limb_inverses thr k p Wp HM a Wa La Hg). Qed.

(* ------------------------------------------------------------------ phase 3: the composite operations over limbs
   rmint addmul / div and the fused operations, sub and div of Montgomery<ruint<K>> are compositions of functions refined above;
   they compute the integer-level functions of Model.v (hence every theorem of ProofsRec.v / ProofsAll.v about those applies). *)
Section Composite.
  Variable thr : nat.
  Variable k : nat.
  Variable p : L.ru k.
  Hypothesis Wp : wf k p.
  Hypothesis HM : RecMod k (val k p).
  Local Notation B := (Bk k).
  Local Notation P := (val k p).
  Local Notation M := (mga_init_module k P).
  Local Notation R := (mr_mk k P).
  Local Notation p1 := (l_p1 thr k p).

  Let W1 : wf k p1. Proof. apply (l_p1_refines thr k p Wp HM). Qed.
  Let E1 : val k p1 = g_p1 M. Proof. apply (l_p1_refines thr k p Wp HM). Qed.
  Let Hp : 1 < P < B. Proof. apply HM. Qed.
  Let Hnz : P <> 0. Proof. lia. Qed.

  Lemma c_mul a b : wf k a -> wf k b ->
    wf k (l_mga_mul thr k p p1 a b) /\ val k (l_mga_mul thr k p p1 a b) = mga_mul k M (val k a) (val k b) /\
    val k (l_mga_mul thr k p p1 a b) = mr_mul k R (val k a) (val k b).
  Proof.
    intros Wa Wb. destruct (l_mga_mul_refines thr k p p1 a b Wp W1 Wa Wb) as [W E]. split; [exact W|]. rewrite E, E1. split; reflexivity.
  Qed.
  Lemma c_add a b : wf k a -> wf k b -> wf k (l_add k p a b) /\ val k (l_add k p a b) = rm_add k P (val k a) (val k b).
  Proof. intros Wa Wb. apply (l_add_refines k p a b Wp Wa Wb). Qed.
  Lemma c_mr_sub a b : wf k a -> wf k b -> wf k (l_mr_sub k p a b) /\ val k (l_mr_sub k p a b) = mr_sub k R (val k a) (val k b).
  Proof.
    intros Wa Wb. unfold l_mr_sub, mr_sub. cbv zeta. cbn [g_p mr_mk]. rewrite (l_lt_spec k a b Wa Wb).
    destruct (l_sub_spec k a b Wa Wb) as [Ws Es]. destruct (val k a <? val k b).
    - destruct (l_add_spec k _ p Ws Wp) as (W2 & E2 & _). split; [exact W2|]. rewrite E2, Es. reflexivity.
    - split; [exact Ws | exact Es].
  Qed.

  Lemma c_mga_inv c : wf k c -> val k c < P -> Z.gcd (val k c) P = 1 ->
    wf k (l_mga_inv thr k p p1 c) /\ val k (l_mga_inv thr k p p1 c) = mga_inv k M (val k c).
  Proof.
    intros Wc Lc Hg. pose proof (val_rng k c Wc) as Rc. assert (Cc : canon P (val k c)) by (unfold canon; lia).
    unfold l_mga_inv. destruct (l_reduction1_refines thr k p p1 c Wp W1 Wc) as [Wr Er]. rewrite E1 in Er.
    change (reduction k P (g_p1 M) (val k c)) with (mga_get_ruint k M (val k c)) in Er.
    pose proof (V_can k P HM _ Cc) as Cv. unfold canon in Cv.
    destruct (p1_spec k P HM) as [_ Hp1].
    assert (Gv : Z.gcd (mga_get_ruint k M (val k c)) P = 1).
    { rewrite (mga_V_fm k P HM _ Cc). apply gcd_fm; [lia | apply (BBi k P _ Hp1) | exact Hg]. }
    destruct (l_inv_mod_refines thr k p Wp HM _ Wr ltac:(rewrite Er; lia) ltac:(rewrite Er; exact Gv)) as [Wi Ei].
    destruct (l_to_mg_refines thr k p _ Wp Wi Hnz) as [Wt Et]. split; [exact Wt|]. rewrite Et, Ei, Er. reflexivity.
  Qed.
  Lemma c_mr_inv c : wf k c -> val k c < P -> Z.gcd (val k c) P = 1 ->
    wf k (l_mr_inv thr k p p1 c) /\ val k (l_mr_inv thr k p p1 c) = mr_inv k R (val k c).
  Proof.
    intros Wc Lc Hg. unfold l_mr_inv.
    destruct (l_inv_mod_refines thr k p Wp HM c Wc Lc Hg) as [Wi Ei].
    destruct (l_constants thr k p Wp HM) as (_ & _ & _ & E3 & _).
    assert (W3 : wf k (l_r3 thr k p)).
    { unfold l_r3. destruct (l_r_refines thr k p Wp HM) as [Wr _].
      assert (W2 : wf k (l_r2 thr k p)).
      { unfold l_r2. destruct (P6.C06_lmul_exact thr k _ _ Wr Wr) as (Wa & Wb & _).
        apply (P6.C06_mod_double_size_exact thr k _ p (conj Wa Wb) Wp Hnz). }
      destruct (P6.C06_lmul_exact thr k _ _ W2 Wr) as (Wa & Wb & _).
      apply (P6.C06_mod_double_size_exact thr k _ p (conj Wa Wb) Wp Hnz). }
    destruct (c_mul _ _ Wi W3) as (W & _ & E). split; [exact W|]. rewrite E, Ei, E3. reflexivity.
  Qed.

  Theorem limb_composite a b c : wf k a -> wf k b -> wf k c ->
    val k (l_mga_addmul thr k p p1 c a b) = mga_addmul k M (val k c) (val k a) (val k b) /\
    val k (l_mr_sub k p a b) = mr_sub k R (val k a) (val k b) /\
    val k (l_mr_axpy thr k p p1 a b c) = mr_axpy k R (val k a) (val k b) (val k c) /\
    val k (l_mr_axpyin thr k p p1 c a b) = mr_axpyin k R (val k c) (val k a) (val k b) /\
    val k (l_mr_maxpy thr k p p1 a b c) = mr_maxpy k R (val k a) (val k b) (val k c) /\
    val k (l_mr_maxpyin thr k p p1 c a b) = mr_maxpyin k R (val k c) (val k a) (val k b) /\
    val k (l_mr_axmy thr k p p1 a b c) = mr_axmy k R (val k a) (val k b) (val k c) /\
    val k (l_mr_axmyin thr k p p1 c a b) = mr_axmyin k R (val k c) (val k a) (val k b) /\
    (val k b < P -> Z.gcd (val k b) P = 1 ->
       val k (l_mga_div thr k p p1 a b) = mga_div k M (val k a) (val k b) /\
       val k (l_mgi_div thr k p a b) = mgi_div k P (val k a) (val k b) /\
       val k (l_mr_div thr k p p1 a b) = mr_div k R (val k a) (val k b) /\
       val k (l_mr_divin thr k p p1 a b) = mr_divin k R (val k a) (val k b)).
  Proof.
    intros Wa Wb Wc. destruct (c_mul a b Wa Wb) as (Wm & Em & Emr).
    split.
    { unfold l_mga_addmul, mga_addmul. destruct (c_add c _ Wc Wm) as [_ E]. rewrite E, Em. reflexivity. }
    split; [apply (c_mr_sub a b Wa Wb)|].
    split. { unfold l_mr_axpy, mr_axpy, mr_add. destruct (c_add _ c Wm Wc) as [_ E]. rewrite E, Emr. reflexivity. }
    split. { unfold l_mr_axpyin, mr_axpyin, mr_add. destruct (c_add c _ Wc Wm) as [_ E]. rewrite E, Emr. reflexivity. }
    split. { unfold l_mr_maxpy, mr_maxpy. destruct (c_mr_sub c _ Wc Wm) as [_ E]. rewrite E, Emr. reflexivity. }
    split. { unfold l_mr_maxpyin, mr_maxpyin, mr_subin. destruct (l_subin_refines k p c _ Wp Wc Wm) as [_ E]. rewrite E, Emr. reflexivity. }
    split. { unfold l_mr_axmy, mr_axmy. destruct (c_mr_sub _ c Wm Wc) as [_ E]. rewrite E, Emr. reflexivity. }
    split. { unfold l_mr_axmyin, mr_axmyin. destruct (c_mr_sub _ c Wm Wc) as [_ E]. rewrite E, Emr. reflexivity. }
    intros Lb Hg.
    destruct (c_mga_inv b Wb Lb Hg) as [Wi Ei]. destruct (c_mr_inv b Wb Lb Hg) as [Wri Eri].
    destruct (l_inv_mod_refines thr k p Wp HM b Wb Lb Hg) as [Wii Eii].
    split.
    { unfold l_mga_div, mga_div. cbv zeta. rewrite (l_eqb_zero_spec k _ Wi). rewrite Ei.
      destruct (mga_inv k M (val k b) =? 0); [apply B6.val_zero|]. destruct (c_mul a _ Wa Wi) as (_ & E & _). rewrite E, Ei. reflexivity. }
    split.
    { unfold l_mgi_div, mgi_div, l_mgi_inv, mgi_inv. cbv zeta. rewrite (l_eqb_zero_spec k _ Wii). rewrite Eii.
      destruct (inv_mod B (val k b) P =? 0); [apply B6.val_zero|].
      destruct (l_mgi_mul_refines thr k p a _ Wp Wa Wii Hnz) as [_ E]. rewrite E, Eii. reflexivity. }
    split.
    { unfold l_mr_div, mr_div. destruct (c_mul a _ Wa Wri) as (_ & _ & E). rewrite E, Eri. reflexivity. }
    unfold l_mr_divin, mr_divin. destruct (c_mul a _ Wa Wri) as (_ & _ & E). rewrite E, Eri. reflexivity.
  Qed.
End Composite.

Definition Limb_composite_stmt : Prop := forall thr k (p a b c : L.ru k), wf k p -> RecMod k (val k p) ->
  wf k a -> wf k b -> wf k c ->
  let p1 := l_p1 thr k p in let P := val k p in let M := mga_init_module k P in let R := mr_mk k P in
  val k (l_mga_addmul thr k p p1 c a b) = mga_addmul k M (val k c) (val k a) (val k b) /\
  val k (l_mr_sub k p a b) = mr_sub k R (val k a) (val k b) /\
  val k (l_mr_axpy thr k p p1 a b c) = mr_axpy k R (val k a) (val k b) (val k c) /\
  val k (l_mr_axpyin thr k p p1 c a b) = mr_axpyin k R (val k c) (val k a) (val k b) /\
  val k (l_mr_maxpy thr k p p1 a b c) = mr_maxpy k R (val k a) (val k b) (val k c) /\
  val k (l_mr_maxpyin thr k p p1 c a b) = mr_maxpyin k R (val k c) (val k a) (val k b) /\
  val k (l_mr_axmy thr k p p1 a b c) = mr_axmy k R (val k a) (val k b) (val k c) /\
  val k (l_mr_axmyin thr k p p1 c a b) = mr_axmyin k R (val k c) (val k a) (val k b) /\
  (val k b < P -> Z.gcd (val k b) P = 1 ->
     val k (l_mga_div thr k p p1 a b) = mga_div k M (val k a) (val k b) /\
     val k (l_mgi_div thr k p a b) = mgi_div k P (val k a) (val k b) /\
     val k (l_mr_div thr k p p1 a b) = mr_div k R (val k a) (val k b) /\
     val k (l_mr_divin thr k p p1 a b) = mr_divin k R (val k a) (val k b)).
Lemma Limb_composite : Limb_composite_stmt.
Proof. intros thr k p a b c Wp HM Wa Wb Wc p1 P M R. subst p1 P M R. apply (limb_composite thr k p Wp HM a b c Wa Wb Wc). Qed.

(* the hypotheses of the conditional limb statements are satisfiable (one-limb modulus 101, operand 5; a two-limb instance) *)
Example limb_hyps_satisfiable :
  wf 0 (101 : L.ru 0) /\ RecMod 0 (val 0 (101 : L.ru 0)) /\ wf 0 (5 : L.ru 0) /\ val 0 (5 : L.ru 0) < val 0 (101 : L.ru 0) /\
  Z.gcd (val 0 (5 : L.ru 0)) (val 0 (101 : L.ru 0)) = 1.
Proof. vm_compute. repeat split; try discriminate; try reflexivity. Qed.
Example limb_hyps_satisfiable_two_limbs :
  wf 1 ((101, 7) : L.ru 1) /\ RecMod 1 (val 1 ((101, 7) : L.ru 1)) /\ wf 1 ((5, 0) : L.ru 1) /\ val 1 ((5, 0) : L.ru 1) < val 1 ((101, 7) : L.ru 1).
Proof. vm_compute. repeat split; try discriminate; try reflexivity. Qed.

