(* C07 part 2 — proofs about the model of the RecInt Montgomery types (Model.v, part 2):
   arazi_qi, inv_mod, the Montgomery reduction, rmint<K,MGA>, rmint<K,MGI>, Givaro::Montgomery<ruint<K>>,
   for every K = k + 6 (B = Bk k = 2^(2^K)) and every odd modulus 1 < p < B. *)
From Coq Require Import ZArith Lia Bool List Setoid Morphisms Znumtheory Zpow_facts.
From C07 Require Import Param Model Redc.
Local Open Scope Z_scope.

(* ------------------------------------------------------------------ the radix *)
Lemma Bk_0 : Bk 0 = W64. Proof. reflexivity. Qed.
Lemma Bk_S k : Bk (S k) = Bk k * Bk k.
Proof.
  unfold Bk. rewrite <- Z.pow_add_r by (apply Z.mul_nonneg_nonneg; [lia | apply Z.pow_nonneg; lia]).
  f_equal. rewrite Nat2Z.inj_succ. rewrite Z.pow_succ_r by lia. ring.
Qed.
Lemma Bk_pos k : 1 < Bk k.
Proof. induction k as [|k IH]; [reflexivity|]. rewrite Bk_S. nia. Qed.
Lemma Bk_even k : exists h, Bk k = 2 * h.
Proof.
  induction k as [|k [h IH]]; [exists 9223372036854775808; reflexivity|].
  exists (h * Bk k). rewrite Bk_S. rewrite IH at 1. ring.
Qed.
Lemma Bk_log2 k : Z.log2_up (Bk k) = 64 * 2 ^ Z.of_nat k.
Proof. unfold Bk. apply Z.log2_up_pow2. apply Z.mul_nonneg_nonneg; [lia | apply Z.pow_nonneg; lia]. Qed.

Lemma u64_eqm z : eqm W64 (u64 z) z.
Proof. unfold u64. apply mod_eqm. Qed.

Lemma odd_succ_double a : Z.odd a = true -> exists y, a = 2 * y + 1.
Proof. intros H. exists (a / 2). rewrite (Zdiv2_odd_eqn a) at 1. rewrite H. rewrite Z.div2_div. reflexivity. Qed.

(* ------------------------------------------------------------------ arazi_qi, base case (one limb) *)
Lemma aq_step f i am u : (i <? 64) = true ->
  aq_loop (S f) i am u = aq_loop f (Z.shiftl i 1) (u64 (u64 (u64 (am * am) + 1) - 1)) (u64 (u * u64 (u64 (am * am) + 1))).
Proof. intros H. cbn [aq_loop]. rewrite H. reflexivity. Qed.
Lemma aq_stop f i am u : (i <? 64) = false -> aq_loop (S f) i am u = (am, u).
Proof. intros H. cbn [aq_loop]. rewrite H. reflexivity. Qed.

Lemma pow64_even y : eqm W64 ((2 * y) ^ 64) 0.
Proof.
  rewrite Z.pow_mul_l. change (2 ^ 64) with W64. apply eqm_mul_n_l.
Qed.

Lemma arazi_qi_64_spec a : 0 <= a < W64 -> Z.odd a = true ->
  0 <= arazi_qi_64 a < W64 /\ (a * arazi_qi_64 a) mod W64 = 1.
Proof.
  intros Ha Ho. unfold arazi_qi_64. destruct (Z.eqb_spec a 1) as [->|N].
  - split; [unfold W64; lia | reflexivity].
  - split; [unfold u64; apply Z.mod_pos_bound; reflexivity|].
    rewrite aq_step by reflexivity. rewrite aq_step by reflexivity. rewrite aq_step by reflexivity.
    rewrite aq_step by reflexivity. rewrite aq_step by reflexivity. rewrite aq_stop by reflexivity.
    cbn [snd]. transitivity (1 mod W64); [|reflexivity].
    match goal with |- ?L mod W64 = 1 mod W64 => change (eqm W64 L 1) end.
    rewrite !u64_eqm.
    destruct (odd_succ_double a Ho) as [y ->].
    replace (2 * y + 1 - 1) with (2 * y) by ring.
    set (x := 2 * y).
    assert (Hx : eqm W64 (x ^ 64) 0) by (unfold x; apply pow64_even).
    clearbody x.
    remember (x * x) as A1 eqn:E1.
    replace (A1 + 1 - 1) with A1 by ring. remember (A1 * A1) as A2 eqn:E2.
    replace (A2 + 1 - 1) with A2 by ring. remember (A2 * A2) as A3 eqn:E3.
    replace (A3 + 1 - 1) with A3 by ring. remember (A3 * A3) as A4 eqn:E4.
    replace (A4 + 1 - 1) with A4 by ring. remember (A4 * A4) as A5 eqn:E5.
    assert (T0 : (x + 1) * (1 - x) = 1 - A1) by (subst A1; ring).
    assert (T1 : (1 - A1) * (A1 + 1) = 1 - A2) by (subst A2; ring).
    assert (T2 : (1 - A2) * (A2 + 1) = 1 - A3) by (subst A3; ring).
    assert (T3 : (1 - A3) * (A3 + 1) = 1 - A4) by (subst A4; ring).
    assert (T4 : (1 - A4) * (A4 + 1) = 1 - A5) by (subst A5; ring).
    assert (T5 : (1 - A5) * (A5 + 1) = 1 - x ^ 64).
    { replace (x ^ 64) with (A5 * A5); [ring|]. subst A5 A4 A3 A2 A1. ring. }
    replace (2 - (x + 1)) with (1 - x) by ring.
    match goal with |- eqm _ ?L _ =>
      replace L with ((x + 1) * (1 - x) * (A1 + 1) * (A2 + 1) * (A3 + 1) * (A4 + 1) * (A5 + 1)) by ring end.
    rewrite T0, T1, T2, T3, T4, T5. rewrite Hx. reflexivity.
Qed.
