(* C07 part 2 — proofs about the model of the RecInt Montgomery types (Model.v, part 2):
   arazi_qi, inv_mod, the Montgomery reduction, rmint<K,MGA>, rmint<K,MGI>, Givaro::Montgomery<ruint<K>>,
   for every K = k + 6 (B = Bk k = 2^(2^K)) and every odd modulus 1 < p < B. *)
From Coq Require Import ZArith Lia Bool List Setoid Morphisms Znumtheory Zpow_facts.
From C07 Require Import Param Model Redc.
Local Open Scope Z_scope.

(* ------------------------------------------------------------------ the radix *)
Lemma Bk_0 : Bk 0 = W64. Proof. reflexivity. Qed.
Lemma Bk_S k : Bk (S k) = Bk k * Bk k.
Proof.
  unfold Bk. rewrite <- Z.pow_add_r by (apply Z.mul_nonneg_nonneg; [lia | apply Z.pow_nonneg; lia]).
  f_equal. rewrite Nat2Z.inj_succ. rewrite Z.pow_succ_r by lia. ring.
Qed.
Lemma Bk_pos k : 1 < Bk k.
Proof. induction k as [|k IH]; [reflexivity|]. rewrite Bk_S. nia. Qed.
Lemma Bk_even k : exists h, Bk k = 2 * h.
Proof.
  induction k as [|k [h IH]]; [exists 9223372036854775808; reflexivity|].
  exists (h * Bk k). rewrite Bk_S. rewrite IH at 1. ring.
Qed.
Lemma Bk_log2 k : Z.log2_up (Bk k) = 64 * 2 ^ Z.of_nat k.
Proof. unfold Bk. apply Z.log2_up_pow2. apply Z.mul_nonneg_nonneg; [lia | apply Z.pow_nonneg; lia]. Qed.

Lemma u64_eqm z : eqm W64 (u64 z) z.
Proof. unfold u64. apply mod_eqm. Qed.

Lemma odd_succ_double a : Z.odd a = true -> exists y, a = 2 * y + 1.
Proof. intros H. exists (a / 2). rewrite (Zdiv2_odd_eqn a) at 1. rewrite H. rewrite Z.div2_div. reflexivity. Qed.

(* ------------------------------------------------------------------ arazi_qi, base case (one limb) *)
Lemma aq_step f i am u : (i <? 64) = true ->
  aq_loop (S f) i am u = aq_loop f (Z.shiftl i 1) (u64 (u64 (u64 (am * am) + 1) - 1)) (u64 (u * u64 (u64 (am * am) + 1))).
Proof. intros H. cbn [aq_loop]. rewrite H. reflexivity. Qed.
Lemma aq_stop f i am u : (i <? 64) = false -> aq_loop (S f) i am u = (am, u).
Proof. intros H. cbn [aq_loop]. rewrite H. reflexivity. Qed.

(* one turn of the loop: am <- am^2, u <- u (am^2 + 1), as congruences modulo 2^64 *)
Lemma aq_upd x am u e z : 0 <= e ->
  eqm W64 am (2 ^ e * z) -> eqm W64 ((1 - x * x) * u) (1 - am * am) ->
  eqm W64 (u64 (u64 (u64 (am * am) + 1) - 1)) (2 ^ (2 * e) * (z * z)) /\
  eqm W64 ((1 - x * x) * u64 (u * u64 (u64 (am * am) + 1)))
          (1 - u64 (u64 (u64 (am * am) + 1) - 1) * u64 (u64 (u64 (am * am) + 1) - 1)).
Proof.
  intros He Ham Hu.
  assert (E1 : eqm W64 (u64 (u64 (u64 (am * am) + 1) - 1)) (am * am)).
  { rewrite u64_eqm. rewrite u64_eqm. rewrite u64_eqm. replace (am * am + 1 - 1) with (am * am) by ring. reflexivity. }
  split.
  - rewrite E1. rewrite Ham. replace (2 * e) with (e + e) by ring. rewrite Z.pow_add_r by lia.
    replace (2 ^ e * z * (2 ^ e * z)) with (2 ^ e * 2 ^ e * (z * z)) by ring. reflexivity.
  - rewrite E1. rewrite u64_eqm. rewrite u64_eqm. rewrite u64_eqm.
    replace ((1 - x * x) * (u * (am * am + 1))) with ((1 - x * x) * u * (am * am + 1)) by ring.
    rewrite Hu. replace ((1 - am * am) * (am * am + 1)) with (1 - am * am * (am * am)) by ring. reflexivity.
Qed.

Lemma arazi_qi_64_spec a : 0 <= a < W64 -> Z.odd a = true ->
  0 <= arazi_qi_64 a < W64 /\ (a * arazi_qi_64 a) mod W64 = 1.
Proof.
  intros Ha Ho. unfold arazi_qi_64. destruct (Z.eqb_spec a 1) as [->|N].
  - split; [unfold W64; lia | reflexivity].
  - split; [unfold u64; apply Z.mod_pos_bound; reflexivity|].
    destruct (odd_succ_double a Ho) as [y Ey].
    pose (x := a - 1).
    assert (H0 : eqm W64 (u64 (a - 1)) (2 ^ 1 * y)).
    { rewrite u64_eqm. rewrite Ey. replace (2 * y + 1 - 1) with (2 ^ 1 * y) by ring. reflexivity. }
    assert (U0 : eqm W64 ((1 - x * x) * 1) (1 - u64 (a - 1) * u64 (a - 1))).
    { rewrite u64_eqm. unfold x. rewrite Z.mul_1_r. reflexivity. }
    generalize dependent (u64 (a - 1)). intros am0 H0 U0.
    rewrite aq_step by reflexivity.
    destruct (aq_upd x am0 1 1 y ltac:(lia) H0 U0) as [H1 U1].
    generalize dependent (u64 (u64 (u64 (am0 * am0) + 1) - 1)). generalize (u64 (1 * u64 (u64 (am0 * am0) + 1))).
    intros u1 am1 H1 U1. clear H0 U0.
    rewrite aq_step by reflexivity.
    match type of H1 with eqm _ _ (2 ^ ?e * ?z) => destruct (aq_upd x am1 u1 e z ltac:(lia) H1 U1) as [H2 U2] end.
    generalize dependent (u64 (u64 (u64 (am1 * am1) + 1) - 1)). generalize (u64 (u1 * u64 (u64 (am1 * am1) + 1))).
    intros u2 am2 H2 U2. clear H1 U1.
    rewrite aq_step by reflexivity.
    match type of H2 with eqm _ _ (2 ^ ?e * ?z) => destruct (aq_upd x am2 u2 e z ltac:(lia) H2 U2) as [H3 U3] end.
    generalize dependent (u64 (u64 (u64 (am2 * am2) + 1) - 1)). generalize (u64 (u2 * u64 (u64 (am2 * am2) + 1))).
    intros u3 am3 H3 U3. clear H2 U2.
    rewrite aq_step by reflexivity.
    match type of H3 with eqm _ _ (2 ^ ?e * ?z) => destruct (aq_upd x am3 u3 e z ltac:(lia) H3 U3) as [H4 U4] end.
    generalize dependent (u64 (u64 (u64 (am3 * am3) + 1) - 1)). generalize (u64 (u3 * u64 (u64 (am3 * am3) + 1))).
    intros u4 am4 H4 U4. clear H3 U3.
    rewrite aq_step by reflexivity.
    match type of H4 with eqm _ _ (2 ^ ?e * ?z) => destruct (aq_upd x am4 u4 e z ltac:(lia) H4 U4) as [H5 U5] end.
    generalize dependent (u64 (u64 (u64 (am4 * am4) + 1) - 1)). generalize (u64 (u4 * u64 (u64 (am4 * am4) + 1))).
    intros u5 am5 H5 U5. clear H4 U4.
    rewrite aq_stop by reflexivity. cbn [snd].
    transitivity (1 mod W64); [|reflexivity].
    match goal with |- ?L mod W64 = 1 mod W64 => change (eqm W64 L 1) end.
    rewrite u64_eqm. rewrite u64_eqm.
    replace (a * (u5 * (2 - a))) with ((1 - x * x) * u5) by (unfold x; ring).
    rewrite U5. rewrite H5.
    replace (2 ^ (2 * (2 * (2 * (2 * (2 * 1))))) * (y * y * (y * y) * (y * y * (y * y)) * (y * y * (y * y) * (y * y * (y * y)))
                * (y * y * (y * y) * (y * y * (y * y)) * (y * y * (y * y) * (y * y * (y * y))))))
      with (2 ^ 32 * (y ^ 32)) by (change (2 * (2 * (2 * (2 * (2 * 1))))) with 32; ring).
    replace (2 ^ 32 * y ^ 32 * (2 ^ 32 * y ^ 32)) with (W64 * (y ^ 32 * y ^ 32)) by (unfold W64; ring).
    rewrite (eqm_mul_n_l W64). reflexivity.
Qed.


(* ------------------------------------------------------------------ arazi_qi, every K (Hensel step on halves) *)
Lemma odd_mod_even a b h : b = 2 * h -> 0 < b -> Z.odd (a mod b) = Z.odd a.
Proof.
  intros Hb Hpos. rewrite (Z.div_mod a b) at 2 by lia.
  rewrite Z.odd_add. rewrite Hb at 2. rewrite <- Z.mul_assoc. rewrite Z.odd_mul. cbn [Z.odd andb xorb].
  destruct (Z.odd (a mod b)); reflexivity.
Qed.

Theorem arazi_qi_spec k : forall a, 0 <= a < Bk k -> Z.odd a = true ->
  0 <= arazi_qi k a < Bk k /\ (a * arazi_qi k a) mod Bk k = 1.
Proof.
  induction k as [|k IH]; intros a Ha Ho.
  - rewrite Bk_0 in *. apply arazi_qi_64_spec; assumption.
  - cbn [arazi_qi]. cbv zeta. rewrite Bk_S in *.
    set (b := Bk k) in *. pose proof (Bk_pos k) as Hb1. fold b in Hb1.
    destruct (Bk_even k) as [h Hh]. fold b in Hh.
    set (aL := a mod b). set (aH := (a / b) mod b).
    assert (HaL : 0 <= aL < b) by (apply Z.mod_pos_bound; lia).
    assert (HaHq : 0 <= a / b < b) by (split; [apply Z.div_pos; lia | apply Z.div_lt_upper_bound; lia]).
    assert (EaH : aH = a / b) by (apply Z.mod_small; exact HaHq).
    assert (Ea : a = aL + b * aH) by (rewrite EaH; unfold aL; rewrite (Z.div_mod a b) at 1 by lia; ring).
    assert (HoL : Z.odd aL = true) by (unfold aL; rewrite (odd_mod_even a b h Hh) by lia; exact Ho).
    destruct (IH aL HaL HoL) as [HuL EuL].
    set (uL := arazi_qi k aL) in *.
    set (t1 := (uL * aL) / b).
    assert (E1 : uL * aL = b * t1 + 1).
    { unfold t1. rewrite (Z.div_mod (uL * aL) b) at 1 by lia. rewrite (Z.mul_comm uL aL). rewrite EuL. reflexivity. }
    set (T := ((t1 + (uL * aH) mod b) mod b * uL) mod b).
    set (uH := (- T) mod b).
    assert (HuH : 0 <= uH < b) by (apply Z.mod_pos_bound; lia).
    split; [nia|].
    (* S = t1 + aH uL + aL uH is a multiple of b *)
    assert (HS : eqm b (t1 + aH * uL + aL * uH) 0).
    { unfold uH, T. rewrite (mod_eqm b (- _)). rewrite (mod_eqm b (_ * uL)). rewrite (mod_eqm b (t1 + _)).
      rewrite (mod_eqm b (uL * aH)).
      replace (t1 + aH * uL + aL * - ((t1 + uL * aH) * uL)) with ((t1 + aH * uL) * (1 - uL * aL)) by ring.
      rewrite E1. replace (1 - (b * t1 + 1)) with (b * (- t1)) by ring. rewrite (eqm_mul_n_l b (- t1)).
      rewrite Z.mul_0_r. reflexivity. }
    unfold eqm in HS. rewrite Z.mod_0_l in HS by lia.
    apply Z.mod_divide in HS; [|lia]. destruct HS as [q Hq].
    rewrite Ea at 1.
    replace ((aL + b * aH) * (uL + b * uH)) with (uL * aL + b * (t1 + aH * uL + aL * uH) - b * t1 + b * b * (aH * uH)) by ring.
    rewrite E1, Hq.
    replace (b * t1 + 1 + b * (q * b) - b * t1 + b * b * (aH * uH)) with (1 + (q + aH * uH) * (b * b)) by ring.
    rewrite Z.mod_add by nia. apply Z.mod_small. nia.
Qed.

(* ------------------------------------------------------------------ wrap-around facts for a radix B *)
Section Wrap.
  Variable B : Z.
  Hypothesis HB : 0 < B.
  Lemma modB_small z : 0 <= z < B -> z mod B = z.
  Proof. apply Z.mod_small. Qed.
  Lemma modB_neg z : - B <= z < 0 -> z mod B = z + B.
  Proof. intros H. symmetry. apply (Z.mod_unique z B (-1)); [left; lia | ring]. Qed.
  Lemma modB_big z : B <= z < 2 * B -> z mod B = z - B.
  Proof. intros H. symmetry. apply (Z.mod_unique z B 1); [left; lia | ring]. Qed.
End Wrap.

(* |b| taken on the ruint (signed native constructors as repaired by fix-7): exact for every b a native type can hold *)
Lemma abs_ru_abs k b : - Bk k < b < Bk k -> abs_ru k b = Z.abs b.
Proof.
  intros H. pose proof (Bk_pos k) as HB. unfold abs_ru. cbv zeta. destruct (Z.ltb_spec b 0).
  - rewrite (modB_neg (Bk k) b) by lia. rewrite Z.abs_neq by lia. rewrite (modB_neg (Bk k)) by lia. ring.
  - rewrite Z.abs_eq by lia. apply modB_small. lia.
Qed.
Lemma abs_ru_range k b : 0 <= abs_ru k b < Bk k.
Proof. pose proof (Bk_pos k). unfold abs_ru. cbv zeta. destruct (b <? 0); apply Z.mod_pos_bound; lia. Qed.

(* ------------------------------------------------------------------ inv_mod (ruinvmod.h) *)
Section InvMod.
  Variables B c b0 : Z.
  Hypothesis HB : 0 < B.
  Hypothesis Hc : 1 < c < B.

  Definition iinv (s : ist) : Prop :=
    0 <= i_a s < c /\ 0 <= i_x s < c /\ 0 <= i_b2 s /\ 0 <= i_a2 s /\
    eqm c (i_a s * b0) (i_a2 s) /\ eqm c (i_x s * b0) (i_b2 s) /\ Z.gcd (i_a2 s) (i_b2 s) = Z.gcd b0 c.

  Lemma inv_step_done s : i_b2 s = 0 -> inv_step B c s = s.
  Proof. intros E. unfold inv_step. rewrite E. reflexivity. Qed.

  Lemma inv_step_inv s : iinv s -> i_b2 s <> 0 ->
    iinv (inv_step B c s) /\ i_b2 (inv_step B c s) < i_b2 s.
  Proof.
    intros (Ha & Hx & Hb2 & Ha2 & Ea & Ex & Eg) Hnz. unfold inv_step.
    destruct (Z.eqb_spec (i_b2 s) 0) as [E|_]; [contradiction|]. cbv zeta.
    set (q := i_a2 s / i_b2 s). set (r := i_a2 s mod i_b2 s).
    assert (Hr : 0 <= r < i_b2 s) by (apply Z.mod_pos_bound; lia).
    assert (Edm : i_a2 s = i_b2 s * q + r) by (apply Z.div_mod; lia).
    set (t0 := (q * i_x s) mod c).
    assert (Ht0 : 0 <= t0 < c) by (apply Z.mod_pos_bound; lia).
    set (t1 := if t0 =? 0 then t0 else (c - t0) mod B).
    assert (Ht1 : 0 <= t1 < c /\ eqm c t1 (- (q * i_x s))).
    { unfold t1. destruct (Z.eqb_spec t0 0) as [E0|N0].
      - split; [lia|]. rewrite E0. unfold t0 in E0. symmetry.
        unfold eqm. rewrite Z.mod_0_l by lia. rewrite <- Z.sub_0_l. rewrite Zminus_mod. rewrite E0. reflexivity.
      - rewrite (modB_small B) by lia. split; [lia|]. unfold t0. rewrite (mod_eqm c (q * i_x s)).
        replace (c - q * i_x s) with (c * 1 + - (q * i_x s)) by ring. rewrite (eqm_mul_n_l c 1). reflexivity. }
    destruct Ht1 as [Ht1 Et1].
    set (sm := t1 + i_a s).
    set (t2 := sm mod B).
    set (t3 := if (B <=? sm) || (c <=? t2) then (t2 - c) mod B else t2).
    assert (Ht3 : 0 <= t3 < c /\ eqm c t3 (t1 + i_a s)).
    { unfold t3, t2. destruct (Z.leb_spec B sm) as [H1|H1]; cbn [orb].
      - rewrite (modB_big B sm) by (unfold sm in *; lia).
        rewrite (modB_neg B) by (unfold sm in *; lia).
        split; [unfold sm in *; lia|]. fold sm. replace (sm - B - c + B) with (sm - c * 1) by ring.
        rewrite (eqm_mul_n_l c 1). rewrite Z.sub_0_r. reflexivity.
      - rewrite (modB_small B sm) by (unfold sm in *; lia). destruct (Z.leb_spec c sm) as [H2|H2].
        + rewrite (modB_small B) by (unfold sm in *; lia). split; [unfold sm in *; lia|]. fold sm.
          replace (sm - c) with (sm - c * 1) by ring. rewrite (eqm_mul_n_l c 1). rewrite Z.sub_0_r. reflexivity.
        + split; [unfold sm in *; lia | reflexivity]. }
    destruct Ht3 as [Ht3 Et3].
    cbn [i_a i_x i_a2 i_b2]. split; [|lia].
    unfold iinv. cbn [i_a i_x i_a2 i_b2].
    split; [exact Hx|]. split; [exact Ht3|]. split; [lia|]. split; [exact Hb2|]. split; [exact Ex|]. split.
    - rewrite Et3, Et1. replace ((- (q * i_x s) + i_a s) * b0) with (i_a s * b0 - q * (i_x s * b0)) by ring.
      rewrite Ea, Ex. replace (i_a2 s - q * i_b2 s) with r by lia. reflexivity.
    - rewrite <- Eg. unfold r. rewrite Z.gcd_comm. rewrite Z.gcd_mod by lia. apply Z.gcd_comm.
  Qed.

  (* inv_iter n performs the loop: if it does not finish, b2 went down by at least 2^n *)
  Lemma inv_iter_spec n : forall s, iinv s ->
    iinv (inv_iter n B c s) /\
    (i_b2 (inv_iter n B c s) = 0 \/ i_b2 (inv_iter n B c s) + 2 ^ Z.of_nat n <= i_b2 s).
  Proof.
    induction n as [|n IH]; intros s Hs.
    - cbn [inv_iter]. destruct (Z.eqb_spec (i_b2 s) 0) as [E|N]; [split; [exact Hs | left; exact E]|].
      destruct (inv_step_inv s Hs N) as [H1 H2]. split; [exact H1|]. right. change (2 ^ Z.of_nat 0) with 1. lia.
    - cbn [inv_iter]. destruct (Z.eqb_spec (i_b2 s) 0) as [E|N]; [split; [exact Hs | left; exact E]|].
      destruct (IH s Hs) as [H1 D1]. destruct (IH _ H1) as [H2 D2]. split; [exact H2|].
      rewrite Nat2Z.inj_succ. rewrite Z.pow_succ_r by lia.
      destruct D2 as [D2|D2]; [left; exact D2|]. destruct D1 as [D1|D1].
      + left. destruct H2 as (_ & _ & Hnn & _). destruct H1 as (_ & _ & Hnn1 & _).
        assert (0 < 2 ^ Z.of_nat n) by (apply Z.pow_pos_nonneg; lia). lia.
      + right. lia.
  Qed.

  Hypothesis Hb0 : 0 <= b0 < c.
  Hypothesis Hg : Z.gcd b0 c = 1.

  Theorem inv_mod_spec : 0 <= inv_mod B b0 c < c /\ (inv_mod B b0 c * b0) mod c = 1.
  Proof.
    unfold inv_mod. cbv zeta.
    assert (H0 : iinv (MkIst 1 0 b0 c)).
    { unfold iinv. cbn [i_a i_x i_a2 i_b2]. repeat split; try lia.
      - rewrite Z.mul_1_l. reflexivity.
      - rewrite Z.mul_0_l. symmetry. apply eqm_n. }
    destruct (inv_iter_spec (Z.to_nat (Z.log2_up B)) _ H0) as [H1 D].
    set (s := inv_iter (Z.to_nat (Z.log2_up B)) B c (MkIst 1 0 b0 c)) in *.
    assert (Hdone : i_b2 s = 0).
    { destruct D as [D|D]; [exact D|]. cbn [i_b2] in D. exfalso.
      rewrite Z2Nat.id in D by apply Z.log2_up_nonneg.
      pose proof (Z.log2_up_spec B ltac:(lia)) as [_ Hl]. destruct H1 as (_ & _ & Hnn & _). lia. }
    destruct H1 as (Ha & _ & _ & Ha2 & Ea & _ & Eg).
    rewrite Hdone in Eg. rewrite Z.gcd_0_r in Eg. rewrite Hg in Eg. rewrite Z.abs_eq in Eg by lia.
    rewrite Eg. cbn [Z.eqb Pos.eqb].
    split; [exact Ha|]. rewrite <- (Z.mod_1_l c) by lia. change (eqm c (i_a s * b0) 1). rewrite Ea, Eg. reflexivity.
  Qed.
End InvMod.

(* ------------------------------------------------------------------ reduction and the shared add/sub/neg bodies *)
Definition canon (p a : Z) : Prop := 0 <= a < p.

Section MontRec.
  Variable k : nat.
  Variables p p1 : Z.
  Local Notation B := (Bk k).
  Hypothesis Hp : 1 < p < B.
  Hypothesis Hp1 : (p * p1 + 1) mod B = 0.
  Local Notation fm := (from_mg B p p1).
  Local Notation red := (reduction k p p1).
  Local Notation can := (canon p).

  Let HB : 0 < B. Proof. pose proof (Bk_pos k). lia. Qed.
  Let Hp0 : 0 < p. Proof. lia. Qed.

  Theorem reduction_fm a : 0 <= a < p * B -> red a = fm a.
  Proof.
    intros Ha. transitivity (redc_z B p p1 a); [|exact (redc_z_spec B p p1 HB Hp0 Hp1 a Ha)].
    pose proof (redc_t_range B p p1 HB Hp0 Hp1 a Ha) as HT.
    pose proof (redc_t_B B p p1 HB Hp1 a) as ET.
    unfold reduction, redc_z. cbv zeta. fold (mfac B p1 a).
    set (T := redc_t B p p1 a) in *.
    replace (mfac B p1 a * p + a) with (T * B) by (rewrite ET; ring).
    rewrite Z.div_mul by lia.
    destruct (Z.leb_spec B T) as [H1|H1].
    - assert (E : (B * B <=? T * B) = true) by (apply Z.leb_le; nia). rewrite E. cbn [orb].
      rewrite (modB_big B T) by lia. rewrite (modB_neg B) by lia.
      destruct (Z.leb_spec p T); lia.
    - assert (E : (B * B <=? T * B) = false) by (apply Z.leb_gt; nia). rewrite E. cbn [orb].
      rewrite (modB_small B T) by lia.
      destruct (Z.leb_spec p T); [apply modB_small; lia | reflexivity].
  Qed.

  Lemma fm_can c : can (fm c). Proof. apply from_mg_range. exact Hp0. Qed.
  Lemma mod_can z : can (z mod p). Proof. apply Z.mod_pos_bound. exact Hp0. Qed.

  Lemma red_can_fm a : can a -> red a = fm a.
  Proof. intros Ha. apply reduction_fm. unfold canon in Ha. nia. Qed.
  Lemma red_mul_fm a b : can a -> can b -> red (a * b) = fm (a * b).
  Proof. intros Ha Hb. apply reduction_fm. unfold canon in *. nia. Qed.
  Lemma red_word_fm a : 0 <= a < B -> red a = fm a.
  Proof. intros Ha. apply reduction_fm. nia. Qed.

  Lemma rm_add_raw b c : can b -> can c -> rm_add k p b c = (b + c) mod p.
  Proof.
    intros Hb Hc. unfold canon in *. unfold rm_add. cbv zeta. rewrite (add_mod_cases p b c Hb Hc).
    destruct (Z.leb_spec B (b + c)) as [H1|H1]; cbn [orb].
    - rewrite (modB_big B (b + c)) by lia. rewrite (modB_neg B) by lia. destruct (Z.ltb_spec (b + c) p); lia.
    - rewrite (modB_small B (b + c)) by lia. destruct (Z.leb_spec p (b + c)); destruct (Z.ltb_spec (b + c) p); try lia.
      apply modB_small. lia.
  Qed.
  Lemma rm_sub_raw b c : can b -> can c -> rm_sub k p b c = (b - c) mod p.
  Proof.
    intros Hb Hc. unfold canon in *. unfold rm_sub. rewrite (sub_mod_cases p b c Hb Hc).
    destruct (Z.ltb_spec b c); destruct (Z.leb_spec c b); try lia.
    - rewrite (modB_neg B (b - c)) by lia. rewrite (modB_big B) by lia. ring.
    - apply modB_small. lia.
  Qed.
  Lemma rm_subin_raw b c : can b -> can c -> rm_subin k p b c = (b - c) mod p.
  Proof.
    intros Hb Hc. unfold canon in *. unfold rm_subin. rewrite (sub_mod_cases p b c Hb Hc).
    destruct (Z.ltb_spec b c); destruct (Z.leb_spec c b); try lia.
    - rewrite (modB_small B (p - c)) by lia. rewrite modB_small by lia. ring.
    - apply modB_small. lia.
  Qed.
  Lemma rm_neg_raw b : can b -> rm_neg k p b = (- b) mod p.
  Proof.
    intros Hb. unfold canon in *. unfold rm_neg. rewrite (opp_mod_cases p b Hb).
    destruct (Z.eqb_spec b 0); [reflexivity|]. apply modB_small. lia.
  Qed.

  (* the value of a stored element, and the operations on values *)
  Lemma fm_fm_mul a b : fm (fm (a * b)) = (fm a * fm b) mod p.
  Proof. exact (from_mg_mul B p p1 a b). Qed.
  Lemma fm_add a b : fm ((a + b) mod p) = (fm a + fm b) mod p. Proof. apply from_mg_add. Qed.
  Lemma fm_sub a b : fm ((a - b) mod p) = (fm a - fm b) mod p. Proof. apply from_mg_sub. Qed.
  Lemma fm_opp a : fm ((- a) mod p) = (- fm a) mod p. Proof. apply from_mg_opp. Qed.
  Lemma fm_to_mg x : fm ((x * B) mod p) = x mod p.
  Proof. exact (from_to B p p1 HB Hp1 x). Qed.
  Lemma BBi : eqm p (B * Binv B p p1) 1. Proof. apply B_Binv_eqm; assumption. Qed.
  Lemma fm_inj a b : can a -> can b -> fm a = fm b -> a = b.
  Proof. apply (from_mg_inj B p p1 HB Hp1). Qed.
  Lemma fm_small_mod x : fm x mod p = fm x.
  Proof. apply Z.mod_small. apply fm_can. Qed.
End MontRec.

(* ------------------------------------------------------------------ the module constants: p1 = -1/p mod B, r = B mod p *)
Definition RecMod (k : nat) (p : Z) : Prop := Z.odd p = true /\ 1 < p < Bk k.

Example RecMod_satisfiable : RecMod 3 (Bk 3 - 1).
Proof. split; [vm_compute; reflexivity | split; [vm_compute; reflexivity | lia]]. Qed.

Lemma neg_mod_B k p : 1 < p < Bk k -> (- p) mod Bk k = Bk k - p.
Proof. intros H. rewrite modB_neg by lia. ring. Qed.

Lemma p1_spec k p : RecMod k p ->
  0 <= arazi_qi k ((- p) mod Bk k) < Bk k /\ (p * arazi_qi k ((- p) mod Bk k) + 1) mod Bk k = 0.
Proof.
  intros [Ho Hp]. rewrite (neg_mod_B k p Hp). destruct (Bk_even k) as [h Hh].
  assert (Hodd : Z.odd (Bk k - p) = true).
  { rewrite Z.odd_sub. rewrite Hh. rewrite Z.odd_mul. rewrite Ho. reflexivity. }
  destruct (arazi_qi_spec k (Bk k - p) ltac:(lia) Hodd) as [Hr E]. split; [exact Hr|].
  set (u := arazi_qi k (Bk k - p)) in *.
  transitivity (0 mod Bk k); [|apply Z.mod_0_l; lia].
  change (eqm (Bk k) (p * u + 1) 0).
  replace (p * u + 1) with (Bk k * u - (Bk k - p) * u + 1) by ring.
  rewrite (eqm_mul_n_l (Bk k) u).
  assert (E' : eqm (Bk k) ((Bk k - p) * u) 1) by (unfold eqm; rewrite E; symmetry; apply Z.mod_1_l; lia).
  rewrite E'. reflexivity.
Qed.

Lemma r_spec k p : 1 < p < Bk k -> ((- p) mod Bk k) mod p = Bk k mod p.
Proof.
  intros Hp. rewrite (neg_mod_B k p Hp). change (eqm p (Bk k - p) (Bk k)).
  replace (Bk k - p) with (Bk k - p * 1) by ring. rewrite (eqm_mul_n_l p 1). rewrite Z.sub_0_r. reflexivity.
Qed.

Definition Module_constants_stmt : Prop := forall k p, RecMod k p ->
  let B := Bk k in
  let M := mga_init_module k p in
  let R := mr_mk k p in
  (g_p M = p /\ 0 <= g_p1 M < B /\ (p * g_p1 M + 1) mod B = 0 /\ g_r M = B mod p) /\
  (g_p R = p /\ g_p1 R = g_p1 M /\ g_r R = B mod p /\ g_r2 R = (B * B) mod p /\ g_r3 R = (B * B * B) mod p /\
   g_one R = B mod p /\ g_mOne R = p - B mod p /\ B mod p <> 0).

Lemma gcd_fm B p p1 b : 1 < p -> eqm p (B * Binv B p p1) 1 -> Z.gcd b p = 1 -> Z.gcd (from_mg B p p1 b) p = 1.
Proof.
  intros Hp H Hg. unfold from_mg. rewrite Z.gcd_mod by lia. apply Zgcd_1_rel_prime. apply rel_prime_mult.
  - apply rel_prime_sym. apply Zgcd_1_rel_prime. exact Hg.
  - apply bezout_rel_prime. unfold eqm in H. rewrite Z.mod_1_l in H by lia.
    pose proof (Z.div_mod (B * Binv B p p1) p ltac:(lia)) as D. rewrite H in D.
    apply (Bezout_intro _ _ _ (- ((B * Binv B p p1) / p)) B). rewrite D at 2. ring.
Qed.

(* ------------------------------------------------------------------ square-and-multiply loops *)
Section PowLoop.
  Variables (p : Z) (mul : Z -> Z -> Z) (V : Z -> Z) (can : Z -> Prop).
  Hypothesis Hp : 1 < p.
  Hypothesis HV : forall a, can a -> 0 <= V a < p.
  Hypothesis Hmul : forall a b, can a -> can b -> can (mul a b) /\ V (mul a b) = (V a * V b) mod p.

  Lemma shiftr1_odd e : 0 <= e -> e = 2 * Z.shiftr e 1 + (if Z.odd e then 1 else 0) /\ 0 <= Z.shiftr e 1.
  Proof.
    intros He. rewrite <- Z.div2_spec. split; [apply Zdiv2_odd_eqn|]. rewrite Z.div2_div. apply Z.div_pos; lia.
  Qed.

  Lemma pow_lsb_spec n : forall a x e, can a -> can x -> 0 <= e < 2 ^ Z.of_nat n ->
    can (pow_lsb mul n a x e) /\ V (pow_lsb mul n a x e) = (V a * V x ^ e) mod p.
  Proof.
    induction n as [|n IH]; intros a x e Ha Hx He.
    - change (2 ^ Z.of_nat 0) with 1 in He. assert (e = 0) by lia. subst e. cbn [pow_lsb]. split; [exact Ha|].
      rewrite Z.pow_0_r, Z.mul_1_r. symmetry. apply Z.mod_small. apply HV. exact Ha.
    - cbn [pow_lsb]. destruct (shiftr1_odd e ltac:(lia)) as [Ee Hh]. set (h := Z.shiftr e 1) in *.
      rewrite Nat2Z.inj_succ in He. rewrite Z.pow_succ_r in He by lia.
      destruct (Hmul x x Hx Hx) as [Cxx Vxx].
      assert (Hh2 : 0 <= h < 2 ^ Z.of_nat n) by (destruct (Z.odd e); lia).
      destruct (Z.odd e).
      + destruct (Hmul a x Ha Hx) as [Cax Vax].
        destruct (IH (mul a x) (mul x x) h Cax Cxx Hh2) as [C1 V1]. split; [exact C1|]. rewrite V1, Vax, Vxx.
        change (eqm p ((V a * V x) mod p * ((V x * V x) mod p) ^ h) (V a * V x ^ e)).
        rewrite !mod_eqm. rewrite Ee. rewrite Z.pow_add_r, Z.pow_1_r by lia. rewrite Z.pow_mul_r by lia.
        rewrite Z.pow_2_r. replace (V a * V x * (V x * V x) ^ h) with (V a * ((V x * V x) ^ h * V x)) by ring. reflexivity.
      + destruct (IH a (mul x x) h Ha Cxx Hh2) as [C1 V1]. split; [exact C1|]. rewrite V1, Vxx.
        change (eqm p (V a * ((V x * V x) mod p) ^ h) (V a * V x ^ e)).
        rewrite !mod_eqm. rewrite Ee. rewrite Z.add_0_r. rewrite Z.pow_mul_r by lia. rewrite Z.pow_2_r. reflexivity.
  Qed.

  Lemma pow_lsb_zero n : forall a x, pow_lsb mul n a x 0 = a.
  Proof. induction n as [|n IH]; intros a x; cbn [pow_lsb]; [reflexivity|]. cbn [Z.odd Z.shiftr Z.shiftl]. apply IH. Qed.
  Lemma pow_lsb_stop_eq n : forall a x e, pow_lsb_stop mul n a x e = pow_lsb mul n a x e.
  Proof.
    induction n as [|n IH]; intros a x e; cbn [pow_lsb pow_lsb_stop]; [reflexivity|].
    destruct (Z.eqb_spec e 0) as [->|N]; [|apply IH]. cbn [Z.odd Z.shiftr Z.shiftl]. symmetry. apply pow_lsb_zero.
  Qed.
End PowLoop.

(* ------------------------------------------------------------------ rmint<K, MG_ACTIVE> *)
Section MGAProofs.
  Variable k : nat.
  Variable p : Z.
  Hypothesis HM : RecMod k p.
  Local Notation B := (Bk k).
  Local Notation M := (mga_init_module k p).
  Local Notation p1 := (arazi_qi k ((- p) mod B)).
  Local Notation fm := (from_mg B p p1).
  Local Notation V := (mga_get_ruint k M).
  Local Notation can := (canon p).

  Let Hp : 1 < p < B. Proof. apply HM. Qed.
  Let Hp1 : (p * p1 + 1) mod B = 0. Proof. apply (p1_spec k p HM). Qed.

  Lemma Bp_nonzero : B mod p <> 0.
  Proof.
    intros E. pose proof (BBi k p p1 Hp1) as H.
    assert (E' : eqm p B 0) by (unfold eqm; rewrite E; symmetry; apply Z.mod_0_l; lia).
    assert (H2 : eqm p (0 * Binv B p p1) 1).
    { transitivity (B * Binv B p p1); [apply mul_eqm; [symmetry; exact E' | reflexivity] | exact H]. }
    rewrite Z.mul_0_l in H2. unfold eqm in H2. rewrite Z.mod_0_l, Z.mod_1_l in H2 by lia. discriminate.
  Qed.

  Lemma mga_V_fm a : can a -> V a = fm a.
  Proof. intros Ha. unfold mga_get_ruint, mga_reduction. cbn [g_p g_p1 mga_init_module]. apply (red_can_fm k p p1 Hp Hp1 a Ha). Qed.

  Lemma mga_to_mg_ok x : can (mga_to_mg k M x) /\ V (mga_to_mg k M x) = x mod p.
  Proof.
    unfold mga_to_mg. cbn [g_p mga_init_module]. split; [apply (mod_can k p Hp)|].
    rewrite mga_V_fm by (apply (mod_can k p Hp)). apply (fm_to_mg k p p1 Hp1).
  Qed.

  Lemma mga_mul_ok b c : can b -> can c -> can (mga_mul k M b c) /\ V (mga_mul k M b c) = (V b * V c) mod p.
  Proof.
    intros Hb Hc. unfold mga_mul, mga_reduction. cbn [g_p g_p1 mga_init_module].
    rewrite (red_mul_fm k p p1 Hp Hp1 b c Hb Hc). split; [apply (fm_can k p p1 Hp)|].
    rewrite (mga_V_fm (fm (b * c))) by (apply (fm_can k p p1 Hp)). rewrite (mga_V_fm b Hb), (mga_V_fm c Hc). apply fm_fm_mul.
  Qed.
  Lemma mga_square_ok b : can b -> can (mga_square k M b) /\ V (mga_square k M b) = (V b * V b) mod p.
  Proof. intros Hb. exact (mga_mul_ok b b Hb Hb). Qed.

  Lemma mga_add_ok b c : can b -> can c -> can (mga_add k M b c) /\ V (mga_add k M b c) = (V b + V c) mod p.
  Proof.
    intros Hb Hc. unfold mga_add. cbn [g_p mga_init_module]. rewrite (rm_add_raw k p Hp b c Hb Hc).
    split; [apply (mod_can k p Hp)|]. rewrite (mga_V_fm ((b + c) mod p)) by (apply (mod_can k p Hp)).
    rewrite (mga_V_fm b Hb), (mga_V_fm c Hc). apply fm_add.
  Qed.
  Lemma mga_sub_ok b c : can b -> can c -> can (mga_sub k M b c) /\ V (mga_sub k M b c) = (V b - V c) mod p.
  Proof.
    intros Hb Hc. unfold mga_sub. cbn [g_p mga_init_module]. rewrite (rm_sub_raw k p Hp b c Hb Hc).
    split; [apply (mod_can k p Hp)|]. rewrite (mga_V_fm ((b - c) mod p)) by (apply (mod_can k p Hp)).
    rewrite (mga_V_fm b Hb), (mga_V_fm c Hc). apply fm_sub.
  Qed.
  Lemma mga_subin_ok b c : can b -> can c -> can (mga_subin k M b c) /\ V (mga_subin k M b c) = (V b - V c) mod p.
  Proof.
    intros Hb Hc. unfold mga_subin. cbn [g_p mga_init_module]. rewrite (rm_subin_raw k p Hp b c Hb Hc).
    split; [apply (mod_can k p Hp)|]. rewrite (mga_V_fm ((b - c) mod p)) by (apply (mod_can k p Hp)).
    rewrite (mga_V_fm b Hb), (mga_V_fm c Hc). apply fm_sub.
  Qed.
  Lemma mga_neg_ok b : can b -> can (mga_neg k M b) /\ V (mga_neg k M b) = (- V b) mod p.
  Proof.
    intros Hb. unfold mga_neg. cbn [g_p mga_init_module]. rewrite (rm_neg_raw k p Hp b Hb).
    split; [apply (mod_can k p Hp)|]. rewrite (mga_V_fm ((- b) mod p)) by (apply (mod_can k p Hp)).
    rewrite (mga_V_fm b Hb). apply fm_opp.
  Qed.
  Lemma mga_addmul_ok a b c : can a -> can b -> can c ->
    can (mga_addmul k M a b c) /\ V (mga_addmul k M a b c) = (V a + V b * V c) mod p.
  Proof.
    intros Ha Hb Hc. destruct (mga_mul_ok b c Hb Hc) as [Cm Vm]. unfold mga_addmul. cbn [g_p mga_init_module].
    destruct (mga_add_ok a (mga_mul k M b c) Ha Cm) as [C2 V2]. unfold mga_add in *. cbn [g_p mga_init_module] in *.
    split; [exact C2|]. rewrite V2, Vm. apply Z.add_mod_idemp_r. lia.
  Qed.

  Lemma V_can a : can a -> can (V a).
  Proof. intros Ha. rewrite (mga_V_fm a Ha). apply fm_can. lia. Qed.

  (* inverse and division *)
  Lemma mga_inv_ok b : can b -> Z.gcd b p = 1 ->
    can (mga_inv k M b) /\ (V (mga_inv k M b) * V b) mod p = 1.
  Proof.
    intros Hb Hg. unfold mga_inv. destruct (mga_to_mg_ok (inv_mod B (mga_reduction k M b) (g_p M))) as [C1 V1].
    split; [exact C1|]. rewrite V1. cbn [g_p mga_init_module].
    change (mga_reduction k M b) with (V b).
    assert (Cv : can (V b)) by (apply V_can; exact Hb).
    assert (Gv : Z.gcd (V b) p = 1) by (rewrite (mga_V_fm b Hb); apply gcd_fm; [lia | apply (BBi k p p1 Hp1) | exact Hg]).
    destruct (inv_mod_spec B p (V b) Hp Cv Gv) as [Ci Ei].
    rewrite Z.mul_mod_idemp_l by lia. exact Ei.
  Qed.

  Lemma mga_div_ok b c : can b -> can c -> Z.gcd c p = 1 ->
    can (mga_div k M b c) /\ (V (mga_div k M b c) * V c) mod p = V b.
  Proof.
    intros Hb Hc Hg. destruct (mga_inv_ok c Hc Hg) as [Ci Ei]. unfold mga_div. cbv zeta.
    destruct (Z.eqb_spec (mga_inv k M c) 0) as [E0|N0].
    - exfalso. rewrite E0 in Ei. rewrite (mga_V_fm 0) in Ei by (unfold canon; lia). rewrite from_mg_0 in Ei.
      rewrite Z.mul_0_l in Ei. rewrite Z.mod_0_l in Ei by lia. discriminate.
    - destruct (mga_mul_ok b (mga_inv k M c) Hb Ci) as [Cm Vm]. split; [exact Cm|]. rewrite Vm.
      rewrite Z.mul_mod_idemp_l by lia. replace (V b * V (mga_inv k M c) * V c) with (V b * (V (mga_inv k M c) * V c)) by ring.
      rewrite <- Z.mul_mod_idemp_r by lia. rewrite Ei. rewrite Z.mul_1_r. apply Z.mod_small. apply V_can. exact Hb.
  Qed.

  (* constructors: every way in gives the residue of the source value *)
  Lemma mga_ctor_ok :
    (forall c, can (mga_of_ruint k M c) /\ V (mga_of_ruint k M c) = c mod p) /\
    (forall c, can (mga_of_unsigned k M c) /\ V (mga_of_unsigned k M c) = c mod p) /\
    (forall c, can (mga_of_mgi k M c) /\ V (mga_of_mgi k M c) = c mod p) /\
    (forall b, can (mga_of_signed k M b) /\ (- B < b < B -> V (mga_of_signed k M b) = b mod p)) /\
    (forall c, can (mga_of_rint k M c) /\ V (mga_of_rint k M c) = c mod p).
  Proof.
    split; [intros c; apply mga_to_mg_ok|]. split; [intros c; apply mga_to_mg_ok|]. split; [intros c; apply mga_to_mg_ok|].
    split.
    - intros b. unfold mga_of_signed. cbv zeta. cbn [g_p mga_init_module].
      match goal with |- context [mga_to_mg k M ?v] => destruct (mga_to_mg_ok v) as [C1 V1]; split; [exact C1|]; intros Hrng; rewrite V1 end.
      rewrite (abs_ru_abs k b Hrng).
      pose proof (Z.mod_pos_bound (Z.abs b) p ltac:(lia)) as Hr.
      destruct (Z.ltb_spec b 0).
      + rewrite (modB_small B) by lia. rewrite Z.abs_neq by lia.
        change (eqm p (p - (- b) mod p) b). rewrite (mod_eqm p (- b)). replace (p - - b) with (p * 1 + b) by ring.
        rewrite (eqm_mul_n_l p 1). reflexivity.
      + rewrite Z.abs_eq by lia. apply Z.mod_mod. lia.
    - intros c. unfold mga_of_rint. destruct (mga_to_mg_ok (Z.abs c)) as [C1 V1].
      destruct (Z.ltb_spec c 0).
      + destruct (mga_neg_ok _ C1) as [C2 V2]. unfold mga_neg in *. cbn [g_p mga_init_module] in *. split; [exact C2|].
        rewrite V2, V1. rewrite Z.abs_neq by lia. change (eqm p (- ((- c) mod p)) c). rewrite (mod_eqm p (- c)).
        rewrite Z.opp_involutive. reflexivity.
      + split; [exact C1|]. rewrite V1. rewrite Z.abs_eq by lia. reflexivity.
  Qed.

  (* exponentiation by a machine word (rmgexp.h, UDItype) *)
  Lemma mga_r_ok : can (g_r M) /\ V (g_r M) = 1.
  Proof.
    cbn [g_r mga_init_module]. rewrite (r_spec k p Hp). split; [apply (mod_can k p Hp)|].
    rewrite mga_V_fm by apply (mod_can k p Hp). rewrite (from_mg_B B p p1) by (assumption || (pose proof (Bk_pos k); lia)).
    apply Z.mod_1_l. lia.
  Qed.
  Lemma mga_exp_u_ok b e : can b -> 0 <= e < 2 ^ 64 ->
    can (mga_exp_u k M b e) /\ V (mga_exp_u k M b e) = (V b ^ e) mod p.
  Proof.
    intros Hb He. unfold mga_exp_u. rewrite pow_lsb_stop_eq. destruct mga_r_ok as [Cr Vr].
    destruct (pow_lsb_spec p (mga_mul k M) V can (fun a Ha => V_can a Ha) mga_mul_ok 64 (g_r M) b e Cr Hb He) as [C1 V1].
    split; [exact C1|]. rewrite V1, Vr. rewrite Z.mul_1_l. reflexivity.
  Qed.

  (* ---- exponentiation by a ruint<K> (rmgexp.h): 16-entry table, 4-bit windows from the top, four squarings between windows *)
  Lemma hd_nth0 (t : list Z) : hd 0 t = nth 0 t 0.
  Proof. destruct t; reflexivity. Qed.

  Lemma mga_table_ok b : can b -> forall n i, (i <= n)%nat ->
    can (nth (n - i) (mga_table k M n b) 0) /\ V (nth (n - i) (mga_table k M n b) 0) = (V b ^ Z.of_nat i) mod p.
  Proof.
    intros Hb. induction n as [|n IH]; intros i Hi.
    - assert (i = 0%nat) by lia. subst i. cbn [mga_table Nat.sub nth]. destruct mga_r_ok as [Cr Vr]. split; [exact Cr|].
      rewrite Vr. change (Z.of_nat 0) with 0. rewrite Z.pow_0_r. symmetry. apply Z.mod_1_l. lia.
    - cbn [mga_table]. cbv zeta. destruct (Nat.eq_dec i (S n)) as [->|Ne].
      + rewrite Nat.sub_diag. cbn [nth]. rewrite hd_nth0. destruct (IH n (le_n n)) as [C1 V1]. rewrite Nat.sub_diag in C1, V1.
        destruct (mga_mul_ok _ b C1 Hb) as [C2 V2]. split; [exact C2|]. rewrite V2, V1.
        rewrite Nat2Z.inj_succ. rewrite Z.pow_succ_r by lia. rewrite Z.mul_mod_idemp_l by lia. f_equal. ring.
      + replace (S n - i)%nat with (S (n - i)) by lia. cbn [nth]. apply IH. lia.
  Qed.

  Lemma mga_g_ok b w : can b -> 0 <= w < 16 ->
    can (mga_g (mga_table k M 15 b) w) /\ V (mga_g (mga_table k M 15 b) w) = (V b ^ w) mod p.
  Proof.
    intros Hb Hw. unfold mga_g. destruct (mga_table_ok b Hb 15 (Z.to_nat w) ltac:(lia)) as [C1 V1].
    rewrite Z2Nat.id in V1 by lia. split; assumption.
  Qed.

  Lemma digit_eq m c : Z.land (Z.shiftr c (4 * Z.of_nat m)) 15 = (c / 16 ^ Z.of_nat m) mod 16.
  Proof.
    rewrite Z.shiftr_div_pow2 by lia. rewrite Z.pow_mul_r by lia. change (2 ^ 4) with 16.
    change 15 with (Z.ones 4). rewrite Z.land_ones by lia. reflexivity.
  Qed.

  Lemma sq4_ok a : can a ->
    can (mga_square k M (mga_square k M (mga_square k M (mga_square k M a)))) /\
    eqm p (V (mga_square k M (mga_square k M (mga_square k M (mga_square k M a))))) (V a ^ 16).
  Proof.
    intros Ha. destruct (mga_square_ok a Ha) as [C1 V1]. destruct (mga_square_ok _ C1) as [C2 V2].
    destruct (mga_square_ok _ C2) as [C3 V3]. destruct (mga_square_ok _ C3) as [C4 V4]. split; [exact C4|].
    assert (E1 : eqm p (V (mga_square k M a)) (V a ^ 2)).
    { rewrite V1, mod_eqm. replace (V a * V a) with (V a ^ 2) by ring. reflexivity. }
    assert (E2 : eqm p (V (mga_square k M (mga_square k M a))) (V a ^ 4)).
    { rewrite V2, mod_eqm, E1. replace (V a ^ 2 * V a ^ 2) with (V a ^ 4) by ring. reflexivity. }
    assert (E3 : eqm p (V (mga_square k M (mga_square k M (mga_square k M a)))) (V a ^ 8)).
    { rewrite V3, mod_eqm, E2. replace (V a ^ 4 * V a ^ 4) with (V a ^ 8) by ring. reflexivity. }
    rewrite V4, mod_eqm, E3. replace (V a ^ 8 * V a ^ 8) with (V a ^ 16) by ring. reflexivity.
  Qed.

  Lemma win_algebra y x c m w : 0 <= c -> w = (c / 16 ^ Z.of_nat (S m)) mod 16 ->
    ((y * x ^ w) ^ 16) ^ (16 ^ Z.of_nat m) * x ^ (c mod 16 ^ Z.of_nat (S m)) =
    y ^ (16 ^ Z.of_nat (S m)) * x ^ (c mod 16 ^ Z.of_nat (S (S m))).
  Proof.
    intros Hc Hw. set (E := 16 ^ Z.of_nat (S m)).
    assert (HE : 0 < E) by (apply Z.pow_pos_nonneg; lia).
    assert (Hm : 0 <= 16 ^ Z.of_nat m) by (apply Z.pow_nonneg; lia).
    assert (EE : E = 16 * 16 ^ Z.of_nat m) by (unfold E; rewrite Nat2Z.inj_succ; apply Z.pow_succ_r; lia).
    assert (E2 : 16 ^ Z.of_nat (S (S m)) = E * 16) by (rewrite (Nat2Z.inj_succ (S m)); rewrite Z.pow_succ_r by lia; fold E; ring).
    rewrite E2. rewrite Z.rem_mul_r by lia. fold E in Hw. rewrite <- Hw.
    assert (Hw0 : 0 <= w < 16) by (subst w; apply Z.mod_pos_bound; lia).
    pose proof (Z.mod_pos_bound c E HE) as Hr.
    rewrite <- (Z.pow_mul_r (y * x ^ w) 16 (16 ^ Z.of_nat m)) by lia. rewrite <- EE.
    rewrite Z.pow_mul_l. rewrite <- (Z.pow_mul_r x w E) by lia.
    rewrite (Z.pow_add_r x (c mod E) (E * w)) by nia.
    replace (w * E) with (E * w) by ring. ring.
  Qed.

  Lemma mga_win_loop_ok b c : can b -> 0 <= c -> forall m a, can a ->
    can (mga_win_loop k M (mga_table k M 15 b) (S m) a c) /\
    eqm p (V (mga_win_loop k M (mga_table k M 15 b) (S m) a c))
          (V a ^ (16 ^ Z.of_nat m) * V b ^ (c mod 16 ^ Z.of_nat (S m))).
  Proof.
    intros Hb Hc. induction m as [|m IH]; intros a Ha.
    - cbn [mga_win_loop]. cbv zeta. rewrite digit_eq.
      change (Z.of_nat 0) with 0. change (Z.of_nat 1) with 1. rewrite Z.pow_0_r, Z.div_1_r. rewrite !Z.pow_1_r.
      destruct (mga_g_ok b (c mod 16) Hb ltac:(apply Z.mod_pos_bound; lia)) as [Cg Vg].
      destruct (mga_mul_ok a _ Ha Cg) as [C1 V1]. split; [exact C1|]. rewrite V1, Vg. rewrite mod_eqm.
      rewrite (mod_eqm p (V b ^ (c mod 16))). reflexivity.
    - cbn [mga_win_loop]. cbv zeta. rewrite digit_eq.
      assert (Hw : 0 <= (c / 16 ^ Z.of_nat (S m)) mod 16 < 16) by (apply Z.mod_pos_bound; lia).
      set (w := (c / 16 ^ Z.of_nat (S m)) mod 16) in *.
      destruct (mga_g_ok b w Hb Hw) as [Cg Vg]. destruct (mga_mul_ok a _ Ha Cg) as [C1 V1].
      destruct (sq4_ok _ C1) as [C2 V2]. destruct (IH _ C2) as [C3 V3]. split; [exact C3|].
      rewrite V3. rewrite V2. rewrite V1. rewrite Vg. rewrite (mod_eqm p (V a * _)). rewrite (mod_eqm p (V b ^ w)).
      rewrite (win_algebra (V a) (V b) c m w Hc eq_refl). reflexivity.
  Qed.

  Theorem mga_exp_ru_ok b c : can b -> 0 <= c < B ->
    can (mga_exp_ru k M b c) /\ V (mga_exp_ru k M b c) = (V b ^ c) mod p.
  Proof.
    intros Hb Hc. unfold mga_exp_ru. destruct mga_r_ok as [Cr Vr].
    assert (En : exists m, (16 * 2 ^ k)%nat = S m).
    { exists (16 * 2 ^ k - 1)%nat. pose proof (Nat.pow_nonzero 2 k ltac:(lia)). lia. }
    destruct En as [m Em].
    assert (EB : B = 16 ^ Z.of_nat (S m)).
    { rewrite <- Em. unfold Bk. rewrite Nat2Z.inj_mul, Nat2Z.inj_pow. change (Z.of_nat 16) with 16. change (Z.of_nat 2) with 2.
      transitivity (2 ^ (4 * (16 * 2 ^ Z.of_nat k))); [f_equal; ring|].
      rewrite Z.pow_mul_r; [reflexivity | lia | apply Z.mul_nonneg_nonneg; [lia | apply Z.pow_nonneg; lia]]. }
    rewrite Em. destruct (mga_win_loop_ok b c Hb (proj1 Hc) m (g_r M) Cr) as [C1 V1]. split; [exact C1|].
    apply eqm_to_mod; [|apply V_can; exact C1]. rewrite V1. rewrite Vr.
    rewrite Z.pow_1_l by (apply Z.pow_nonneg; lia). rewrite Z.mul_1_l.
    rewrite <- EB. rewrite (Z.mod_small c B) by lia. reflexivity.
  Qed.
End MGAProofs.

(* ------------------------------------------------------------------ rmint<K, MG_INACTIVE>: plain residues *)
Section MGIProofs.
  Variable k : nat.
  Variable p : Z.
  Hypothesis Hp : 1 < p < Bk k.
  Local Notation B := (Bk k).
  Local Notation can := (canon p).

  Lemma mgi_ops_ok b c : can b -> can c ->
    mgi_mul p b c = (b * c) mod p /\ mgi_add k p b c = (b + c) mod p /\ mgi_sub k p b c = (b - c) mod p /\
    mgi_subin k p b c = (b - c) mod p /\ mgi_neg k p b = (- b) mod p.
  Proof.
    intros Hb Hc. split; [reflexivity|]. split; [apply (rm_add_raw k p Hp); assumption|].
    split; [apply (rm_sub_raw k p Hp); assumption|]. split; [apply (rm_subin_raw k p Hp); assumption|].
    apply (rm_neg_raw k p Hp); assumption.
  Qed.
  Lemma mgi_mul_ok b c : can b -> can c -> can (mgi_mul p b c) /\ mgi_mul p b c = (b * c) mod p.
  Proof. intros _ _. split; [apply (mod_can k p Hp) | reflexivity]. Qed.
  Lemma mgi_inv_ok b : can b -> Z.gcd b p = 1 -> can (mgi_inv k p b) /\ (mgi_inv k p b * b) mod p = 1.
  Proof. intros Hb Hg. apply (inv_mod_spec B p b Hp Hb Hg). Qed.
  Lemma mgi_div_ok b c : can b -> can c -> Z.gcd c p = 1 -> can (mgi_div k p b c) /\ (mgi_div k p b c * c) mod p = b.
  Proof.
    intros Hb Hc Hg. destruct (mgi_inv_ok c Hc Hg) as [Ci Ei]. unfold mgi_div. cbv zeta.
    destruct (Z.eqb_spec (mgi_inv k p c) 0) as [E0|N0].
    - exfalso. rewrite E0 in Ei. rewrite Z.mul_0_l, Z.mod_0_l in Ei by lia. discriminate.
    - unfold mgi_mul. split; [apply (mod_can k p Hp)|]. rewrite Z.mul_mod_idemp_l by lia.
      replace (b * mgi_inv k p c * c) with (b * (mgi_inv k p c * c)) by ring. rewrite <- Z.mul_mod_idemp_r by lia.
      rewrite Ei, Z.mul_1_r. apply Z.mod_small. exact Hb.
  Qed.
  Lemma mgi_exp_ok n b e : can b -> 0 <= e < 2 ^ Z.of_nat n ->
    can (mgi_exp p n b e) /\ mgi_exp p n b e = (b ^ e) mod p.
  Proof.
    intros Hb He. unfold mgi_exp. destruct (Z.eqb_spec p 1) as [E1|_]; [lia|].
    destruct (pow_lsb_spec p (mgi_mul p) (fun z => z) can (fun a Ha => Ha) mgi_mul_ok n 1 b e ltac:(unfold canon; lia) Hb He) as [C1 V1].
    split; [exact C1|]. rewrite V1. rewrite Z.mul_1_l. reflexivity.
  Qed.
  Lemma mgi_ctor_ok :
    (forall c, can (mgi_of_ruint p c) /\ mgi_of_ruint p c = c mod p) /\
    (forall b, can (mgi_of_signed k p b) /\ (- B < b < B -> mgi_of_signed k p b = b mod p)) /\
    (forall c, can (mgi_of_rint k p c) /\ mgi_of_rint k p c = c mod p).
  Proof.
    split; [intros c; split; [apply (mod_can k p Hp) | reflexivity]|].
    assert (Hs : forall b, can (if b <? 0 then rm_neg k p (Z.abs b mod p) else Z.abs b mod p) /\
                           (if b <? 0 then rm_neg k p (Z.abs b mod p) else Z.abs b mod p) = b mod p).
    { intros b. pose proof (mod_can k p Hp (Z.abs b)) as Hr. destruct (Z.ltb_spec b 0).
      - rewrite (rm_neg_raw k p Hp _ Hr). split; [apply (mod_can k p Hp)|]. rewrite Z.abs_neq by lia.
        change (eqm p (- ((- b) mod p)) b). rewrite (mod_eqm p (- b)). rewrite Z.opp_involutive. reflexivity.
      - split; [exact Hr|]. rewrite Z.abs_eq by lia. reflexivity. }
    split; [|intros b; apply Hs].
    intros b. split.
    - unfold mgi_of_signed. cbv zeta. pose proof (mod_can k p Hp (abs_ru k b)) as Hr.
      destruct (b <? 0); [rewrite (rm_neg_raw k p Hp _ Hr); apply (mod_can k p Hp) | exact Hr].
    - intros Hrng. unfold mgi_of_signed. cbv zeta. rewrite (abs_ru_abs k b Hrng). apply Hs.
  Qed.
End MGIProofs.

(* ------------------------------------------------------------------ Givaro::Montgomery<ruint<K>> *)
Section MRProofs.
  Variable k : nat.
  Variable p : Z.
  Hypothesis HM : RecMod k p.
  Local Notation B := (Bk k).
  Local Notation M := (mr_mk k p).
  Local Notation p1 := (arazi_qi k ((- p) mod B)).
  Local Notation fm := (from_mg B p p1).
  Local Notation V := (mr_convert k M).
  Local Notation can := (canon p).

  Let Hp : 1 < p < B. Proof. apply HM. Qed.
  Let Hp1 : (p * p1 + 1) mod B = 0. Proof. apply (p1_spec k p HM). Qed.
  Let Hr : ((- p) mod B) mod p = B mod p. Proof. apply (r_spec k p Hp). Qed.

  Lemma mr_fields : g_p M = p /\ g_p1 M = p1 /\ g_r M = B mod p /\ g_r2 M = (B * B) mod p /\ g_r3 M = (B * B * B) mod p /\
    g_one M = B mod p.
  Proof.
    cbn [g_p g_p1 g_r g_r2 g_r3 g_one mr_mk]. rewrite !Hr. repeat split.
    - change (eqm p (B mod p * (B mod p)) (B * B)). rewrite !mod_eqm. reflexivity.
    - change (eqm p ((B mod p * (B mod p)) mod p * (B mod p)) (B * B * B)). rewrite !mod_eqm. reflexivity.
  Qed.

  Lemma mr_V_fm a : can a -> V a = fm a.
  Proof. intros Ha. unfold mr_convert, mr_reduc. cbn [g_p g_p1 mr_mk]. apply (red_can_fm k p p1 Hp Hp1 a Ha). Qed.
  Lemma mr_V_can a : can a -> can (V a).
  Proof. intros Ha. rewrite (mr_V_fm a Ha). apply (fm_can k p p1 Hp). Qed.

  Lemma mr_mul_ok a b : can a -> can b -> can (mr_mul k M a b) /\ V (mr_mul k M a b) = (V a * V b) mod p.
  Proof.
    intros Ha Hb. unfold mr_mul, mr_reduc. cbn [g_p g_p1 mr_mk].
    rewrite (red_mul_fm k p p1 Hp Hp1 a b Ha Hb). split; [apply (fm_can k p p1 Hp)|].
    rewrite (mr_V_fm (fm (a * b))) by apply (fm_can k p p1 Hp). rewrite (mr_V_fm a Ha), (mr_V_fm b Hb). apply fm_fm_mul.
  Qed.
  Lemma mr_add_ok a b : can a -> can b -> can (mr_add k M a b) /\ V (mr_add k M a b) = (V a + V b) mod p.
  Proof.
    intros Ha Hb. unfold mr_add. cbn [g_p mr_mk]. rewrite (rm_add_raw k p Hp a b Ha Hb).
    split; [apply (mod_can k p Hp)|]. rewrite (mr_V_fm ((a + b) mod p)) by apply (mod_can k p Hp).
    rewrite (mr_V_fm a Ha), (mr_V_fm b Hb). apply fm_add.
  Qed.
  Lemma mr_sub_ok a b : can a -> can b -> can (mr_sub k M a b) /\ V (mr_sub k M a b) = (V a - V b) mod p.
  Proof.
    intros Ha Hb. change (mr_sub k M a b) with (rm_sub k (g_p M) a b). cbn [g_p mr_mk]. rewrite (rm_sub_raw k p Hp a b Ha Hb).
    split; [apply (mod_can k p Hp)|]. rewrite (mr_V_fm ((a - b) mod p)) by apply (mod_can k p Hp).
    rewrite (mr_V_fm a Ha), (mr_V_fm b Hb). apply fm_sub.
  Qed.
  Lemma mr_subin_ok a b : can a -> can b -> can (mr_subin k M a b) /\ V (mr_subin k M a b) = (V a - V b) mod p.
  Proof.
    intros Ha Hb. unfold mr_subin. cbn [g_p mr_mk]. rewrite (rm_subin_raw k p Hp a b Ha Hb).
    split; [apply (mod_can k p Hp)|]. rewrite (mr_V_fm ((a - b) mod p)) by apply (mod_can k p Hp).
    rewrite (mr_V_fm a Ha), (mr_V_fm b Hb). apply fm_sub.
  Qed.
  Lemma mr_neg_ok a : can a -> can (mr_neg k M a) /\ V (mr_neg k M a) = (- V a) mod p.
  Proof.
    intros Ha. unfold mr_neg. cbn [g_p mr_mk]. rewrite (rm_neg_raw k p Hp a Ha).
    split; [apply (mod_can k p Hp)|]. rewrite (mr_V_fm ((- a) mod p)) by apply (mod_can k p Hp).
    rewrite (mr_V_fm a Ha). apply fm_opp.
  Qed.

  (* to_mg(a, b) = mul(a, b, _r2), for any word b (not only b < p) *)
  Lemma mr_to_mg_ok x : 0 <= x < B -> can (mr_to_mg k M x) /\ V (mr_to_mg k M x) = x mod p.
  Proof.
    intros Hx. destruct mr_fields as (_ & _ & _ & E2 & _). unfold mr_to_mg, mr_mul, mr_reduc. rewrite E2. cbn [g_p g_p1 mr_mk].
    pose proof (mod_can k p Hp (B * B)) as H2. unfold canon in H2.
    rewrite (reduction_fm k p p1 Hp Hp1) by nia. split; [apply (fm_can k p p1 Hp)|].
    rewrite mr_V_fm by apply (fm_can k p p1 Hp).
    pose proof (BBi k p p1 Hp1) as HBB.
    apply eqm_to_mod; [|apply (fm_can k p p1 Hp)]. rewrite !from_mg_eqm. rewrite (mod_eqm p (B * B)).
    replace (x * (B * B) * Binv B p p1 * Binv B p p1) with (x * ((B * Binv B p p1) * (B * Binv B p p1))) by ring.
    rewrite HBB. rewrite !Z.mul_1_r. reflexivity.
  Qed.

  (* init on [0,p) followed by convert is the identity; convert followed by init gives the element back *)
  Lemma mr_init_ok x : can x -> can (mr_init k M x) /\ V (mr_init k M x) = x.
  Proof.
    intros Hx. unfold canon in Hx. unfold mr_init. cbv zeta. cbn [g_p mr_mk].
    destruct (Z.ltb_spec x 0); [lia|]. rewrite Z.abs_eq by lia. rewrite (Z.mod_small x B) by lia. rewrite (Z.mod_small x p) by lia.
    destruct (mr_to_mg_ok x ltac:(lia)) as [C1 V1]. split; [exact C1|]. rewrite V1. apply Z.mod_small. exact Hx.
  Qed.
  Lemma mr_convert_init a : can a -> mr_init k M (V a) = a.
  Proof.
    intros Ha. pose proof (mr_V_can a Ha) as Cv. destruct (mr_init_ok (V a) Cv) as [C1 V1].
    apply (fm_inj k p p1 Hp1 _ _ C1 Ha). rewrite <- (mr_V_fm _ C1). rewrite V1. apply (mr_V_fm a Ha).
  Qed.

  Lemma mr_inv_ok a : can a -> Z.gcd a p = 1 -> can (mr_inv k M a) /\ (V (mr_inv k M a) * V a) mod p = 1.
  Proof.
    intros Ha Hg. destruct mr_fields as (_ & _ & _ & _ & E3 & _). unfold mr_inv. cbn [g_p mr_mk].
    destruct (inv_mod_spec B p a Hp Ha Hg) as [Ci Ei]. set (i := inv_mod B a p) in *.
    assert (C3 : can (g_r3 M)) by (rewrite E3; apply (mod_can k p Hp)).
    destruct (mr_mul_ok i (g_r3 M) Ci C3) as [Cm Vm]. split; [exact Cm|].
    rewrite Vm. rewrite (mr_V_fm i Ci), (mr_V_fm _ C3), (mr_V_fm a Ha). rewrite E3.
    pose proof (BBi k p p1 Hp1) as HBB.
    transitivity (1 mod p); [|apply Z.mod_1_l; lia].
    change (eqm p ((fm i * fm ((B * B * B) mod p)) mod p * fm a) 1). rewrite (mod_eqm p (fm i * _)). rewrite !from_mg_eqm.
    rewrite (mod_eqm p (B * B * B)).
    replace (i * Binv B p p1 * (B * B * B * Binv B p p1) * (a * Binv B p p1))
      with ((i * a) * B * ((B * Binv B p p1) * (B * Binv B p p1)) * Binv B p p1) by ring.
    rewrite HBB. rewrite !Z.mul_1_r. replace (i * a * B * Binv B p p1) with (i * a * (B * Binv B p p1)) by ring.
    rewrite HBB. rewrite Z.mul_1_r. unfold eqm. rewrite Ei. symmetry. apply Z.mod_1_l. lia.
  Qed.
  Lemma mr_div_ok a b : can a -> can b -> Z.gcd b p = 1 ->
    (can (mr_div k M a b) /\ (V (mr_div k M a b) * V b) mod p = V a) /\
    (can (mr_divin k M a b) /\ (V (mr_divin k M a b) * V b) mod p = V a).
  Proof.
    intros Ha Hb Hg. destruct (mr_inv_ok b Hb Hg) as [Ci Ei]. unfold mr_div, mr_divin.
    destruct (mr_mul_ok (mr_inv k M b) a Ci Ha) as [C1 V1]. destruct (mr_mul_ok a (mr_inv k M b) Ha Ci) as [C2 V2].
    pose proof (mr_V_can a Ha) as Cva. unfold canon in Cva.
    split; (split; [assumption|]).
    - rewrite V2. rewrite Z.mul_mod_idemp_l by lia. replace (V a * V (mr_inv k M b) * V b) with (V a * (V (mr_inv k M b) * V b)) by ring.
      rewrite <- Z.mul_mod_idemp_r by lia. rewrite Ei, Z.mul_1_r. apply Z.mod_small. exact Cva.
    - rewrite V2. rewrite Z.mul_mod_idemp_l by lia. replace (V a * V (mr_inv k M b) * V b) with (V a * (V (mr_inv k M b) * V b)) by ring.
      rewrite <- Z.mul_mod_idemp_r by lia. rewrite Ei, Z.mul_1_r. apply Z.mod_small. exact Cva.
  Qed.

  Lemma mr_fused_ok a b c : can a -> can b -> can c ->
    (can (mr_axpy k M a b c) /\ V (mr_axpy k M a b c) = (V a * V b + V c) mod p) /\
    (can (mr_axpyin k M c a b) /\ V (mr_axpyin k M c a b) = (V c + V a * V b) mod p) /\
    (can (mr_axmy k M a b c) /\ V (mr_axmy k M a b c) = (V a * V b - V c) mod p) /\
    (can (mr_axmyin k M c a b) /\ V (mr_axmyin k M c a b) = (V a * V b - V c) mod p) /\
    (can (mr_maxpy k M a b c) /\ V (mr_maxpy k M a b c) = (V c - V a * V b) mod p) /\
    (can (mr_maxpyin k M c a b) /\ V (mr_maxpyin k M c a b) = (V c - V a * V b) mod p).
  Proof.
    intros Ha Hb Hc. destruct (mr_mul_ok a b Ha Hb) as [Cm Vm].
    unfold mr_axpy, mr_axpyin, mr_axmy, mr_axmyin, mr_maxpy, mr_maxpyin.
    destruct (mr_add_ok _ _ Cm Hc) as [C1 V1]. destruct (mr_add_ok _ _ Hc Cm) as [C2 V2].
    destruct (mr_subin_ok _ _ Cm Hc) as [C3 V3]. destruct (mr_sub_ok _ _ Cm Hc) as [C4 V4].
    destruct (mr_sub_ok _ _ Hc Cm) as [C5 V5]. destruct (mr_subin_ok _ _ Hc Cm) as [C6 V6].
    split. { split; [exact C1|]. rewrite V1, Vm. apply Z.add_mod_idemp_l. lia. }
    split. { split; [exact C2|]. rewrite V2, Vm. apply Z.add_mod_idemp_r. lia. }
    split. { split; [exact C4|]. rewrite V4, Vm. apply Zminus_mod_idemp_l. }
    split. { split; [exact C4|]. rewrite V4, Vm. apply Zminus_mod_idemp_l. }
    split. { split; [exact C5|]. rewrite V5, Vm. apply Zminus_mod_idemp_r. }
    split; [exact C6|]. rewrite V6, Vm. apply Zminus_mod_idemp_r.
  Qed.

  Lemma mr_constants_ok : can (g_one M) /\ V (g_one M) = 1 /\ can (g_mOne M) /\ V (g_mOne M) = p - 1 /\ g_mOne M = p - B mod p.
  Proof.
    destruct mr_fields as (_ & _ & _ & E2 & _ & E1). pose proof (Bp_nonzero k p HM) as Hnz.
    pose proof (mod_can k p Hp B) as CB. assert (HB0 : 0 < B) by lia.
    split; [rewrite E1; exact CB|]. split.
    { rewrite E1. rewrite (mr_V_fm _ CB). rewrite (from_mg_B B p p1 HB0 Hp1). apply Z.mod_1_l. lia. }
    (* mOne = to_mg(p - 1) *)
    assert (Em : g_mOne M = mr_to_mg k M (p - 1)).
    { cbn [g_mOne mr_mk]. unfold mr_to_mg, mr_mul, mr_reduc. cbn [g_p g_p1 g_r2 mr_mk]. rewrite (Z.mod_small (p - 1) B) by lia. reflexivity. }
    destruct (mr_to_mg_ok (p - 1) ltac:(lia)) as [C1 V1]. rewrite <- Em in *.
    rewrite (Z.mod_small (p - 1) p) in V1 by lia.
    split; [exact C1|]. split; [exact V1|].
    (* the stored value: the canonical element whose value is p - 1 *)
    assert (C2 : can (p - B mod p)) by (unfold canon in *; lia).
    apply (fm_inj k p p1 Hp1 _ _ C1 C2). rewrite <- (mr_V_fm _ C1). rewrite V1.
    symmetry. apply (eqm_small p); [|apply (fm_can k p p1 Hp) | lia].
    rewrite from_mg_eqm. replace ((p - B mod p) * Binv B p p1) with (p * Binv B p p1 - (B mod p) * Binv B p p1) by ring.
    rewrite (eqm_mul_n_l p). rewrite (mod_eqm p B). rewrite (BBi k p p1 Hp1).
    replace (p - 1) with (p * 1 + (0 - 1)) by ring. rewrite (eqm_mul_n_l p 1). reflexivity.
  Qed.
End MRProofs.

(* ================================================================== the statements exported to Properties.v *)
(* RecMod k p: p odd, 1 < p < B = Bk k = 2^(2^(k+6)).  canon p a: 0 <= a < p.  Elements are the stored values. *)

Lemma Module_constants : Module_constants_stmt.
Proof.
  intros k p HM B M R. destruct (p1_spec k p HM) as [H1 H2]. destruct HM as [Ho Hp].
  split.
  - cbn [g_p g_p1 g_r mga_init_module]. repeat split; try assumption; try apply H1. apply (r_spec k p Hp).
  - destruct (mr_fields k p (conj Ho Hp)) as (E0 & E1 & E2 & E3 & E4 & E5).
    destruct (mr_constants_ok k p (conj Ho Hp)) as (_ & _ & _ & _ & Em).
    split; [exact E0|]. split; [exact E1|]. split; [exact E2|]. split; [exact E3|]. split; [exact E4|]. split; [exact E5|].
    split; [exact Em|]. apply (Bp_nonzero k p (conj Ho Hp)).
Qed.

Definition Arazi_qi_stmt : Prop := forall k a, 0 <= a < Bk k -> Z.odd a = true ->
  0 <= arazi_qi k a < Bk k /\ (a * arazi_qi k a) mod Bk k = 1.

Definition Inv_mod_stmt : Prop := forall k c b, 1 < c < Bk k -> 0 <= b < c -> Z.gcd b c = 1 ->
  0 <= inv_mod (Bk k) b c < c /\ (inv_mod (Bk k) b c * b) mod c = 1.
Lemma Inv_mod : Inv_mod_stmt.
Proof. intros k c b Hc Hb Hg. apply (inv_mod_spec (Bk k) c b Hc Hb Hg). Qed.

(* the Montgomery reduction of rmgreduc.h / montgomery-ruint.inl, for every input the code feeds it (a < p B, which
   contains every ruint<K> and every product of two residues): the r in [0,p) with r * B = a (mod p) *)
Definition Reduction_stmt : Prop := forall k p, RecMod k p ->
  let p1 := g_p1 (mga_init_module k p) in
  forall a, 0 <= a < p * Bk k ->
  let r := reduction k p p1 a in 0 <= r < p /\ (r * Bk k) mod p = a mod p.
Lemma Reduction : Reduction_stmt.
Proof.
  intros k p HM p1 a Ha r. subst r p1. cbn [g_p1 mga_init_module]. destruct (p1_spec k p HM) as [_ H2].
  rewrite (reduction_fm k p _ (proj2 HM) H2 a Ha). split; [apply (fm_can k p _ (proj2 HM))|].
  apply (from_mg_eqm_B (Bk k) p _ ltac:(pose proof (Bk_pos k); lia) H2).
Qed.

Definition MGA_ops_stmt : Prop := forall k p, RecMod k p ->
  let M := mga_init_module k p in let V := mga_get_ruint k M in
  forall a b c, canon p a -> canon p b -> canon p c ->
  canon p (V a) /\
  (canon p (mga_mul k M a b) /\ V (mga_mul k M a b) = (V a * V b) mod p) /\
  (canon p (mga_square k M a) /\ V (mga_square k M a) = (V a * V a) mod p) /\
  (canon p (mga_add k M a b) /\ V (mga_add k M a b) = (V a + V b) mod p) /\
  (canon p (mga_sub k M a b) /\ V (mga_sub k M a b) = (V a - V b) mod p) /\
  (canon p (mga_subin k M a b) /\ V (mga_subin k M a b) = (V a - V b) mod p) /\
  (canon p (mga_neg k M a) /\ V (mga_neg k M a) = (- V a) mod p) /\
  (canon p (mga_addmul k M c a b) /\ V (mga_addmul k M c a b) = (V c + V a * V b) mod p).
Lemma MGA_ops : MGA_ops_stmt.
Proof.
  intros k p HM M V a b c Ha Hb Hc. subst M V.
  split; [apply (V_can k p HM a Ha)|]. split; [apply (mga_mul_ok k p HM); assumption|].
  split; [apply (mga_square_ok k p HM); assumption|]. split; [apply (mga_add_ok k p HM); assumption|].
  split; [apply (mga_sub_ok k p HM); assumption|]. split; [apply (mga_subin_ok k p HM); assumption|].
  split; [apply (mga_neg_ok k p HM); assumption|]. apply (mga_addmul_ok k p HM); assumption.
Qed.

Definition MGA_inv_div_exp_stmt : Prop := forall k p, RecMod k p ->
  let M := mga_init_module k p in let V := mga_get_ruint k M in
  forall a b e, canon p a -> canon p b ->
  (Z.gcd b p = 1 -> canon p (mga_inv k M b) /\ (V (mga_inv k M b) * V b) mod p = 1) /\
  (Z.gcd b p = 1 -> canon p (mga_div k M a b) /\ (V (mga_div k M a b) * V b) mod p = V a) /\
  (0 <= e < 2 ^ 64 -> canon p (mga_exp_u k M a e) /\ V (mga_exp_u k M a e) = (V a ^ e) mod p).
Lemma MGA_inv_div_exp : MGA_inv_div_exp_stmt.
Proof.
  intros k p HM M V a b e Ha Hb. subst M V.
  split; [intros Hg; apply (mga_inv_ok k p HM b Hb Hg)|]. split; [intros Hg; apply (mga_div_ok k p HM a b Ha Hb Hg)|].
  intros He. apply (mga_exp_u_ok k p HM a e Ha He).
Qed.

(* construction and conversion out: whatever the source, the element stands for the source value modulo p *)
Definition MGA_ctor_stmt : Prop := forall k p, RecMod k p ->
  let M := mga_init_module k p in let V := mga_get_ruint k M in
  (forall c, canon p (mga_of_ruint k M c) /\ V (mga_of_ruint k M c) = c mod p) /\
  (forall c, canon p (mga_of_unsigned k M c) /\ V (mga_of_unsigned k M c) = c mod p) /\
  (forall c, canon p (mga_of_mgi k M c) /\ V (mga_of_mgi k M c) = c mod p) /\
  (forall b, canon p (mga_of_signed k M b) /\ (- Bk k < b < Bk k -> V (mga_of_signed k M b) = b mod p)) /\
  (forall c, canon p (mga_of_rint k M c) /\ V (mga_of_rint k M c) = c mod p).
Lemma MGA_ctor : MGA_ctor_stmt.
Proof. intros k p HM M V. subst M V. apply (mga_ctor_ok k p HM). Qed.

Definition MGI_ops_stmt : Prop := forall k p, 1 < p < Bk k -> forall a b e n, canon p a -> canon p b ->
  (mgi_mul p a b = (a * b) mod p /\ mgi_add k p a b = (a + b) mod p /\ mgi_sub k p a b = (a - b) mod p /\
   mgi_subin k p a b = (a - b) mod p /\ mgi_neg k p a = (- a) mod p) /\
  (Z.gcd b p = 1 -> canon p (mgi_inv k p b) /\ (mgi_inv k p b * b) mod p = 1) /\
  (Z.gcd b p = 1 -> canon p (mgi_div k p a b) /\ (mgi_div k p a b * b) mod p = a) /\
  (0 <= e < 2 ^ Z.of_nat n -> canon p (mgi_exp p n a e) /\ mgi_exp p n a e = (a ^ e) mod p) /\
  (forall c, mgi_of_ruint p c = c mod p) /\ (forall c, - Bk k < c < Bk k -> mgi_of_signed k p c = c mod p) /\ (forall c, mgi_of_rint k p c = c mod p).
Lemma MGI_ops : MGI_ops_stmt.
Proof.
  intros k p Hp a b e n Ha Hb.
  split; [apply (mgi_ops_ok k p Hp a b Ha Hb)|]. split; [intros Hg; apply (mgi_inv_ok k p Hp b Hb Hg)|].
  split; [intros Hg; apply (mgi_div_ok k p Hp a b Ha Hb Hg)|]. split; [intros He; apply (mgi_exp_ok k p Hp n a e Ha He)|].
  destruct (mgi_ctor_ok k p Hp) as (H1 & H2 & H3). split; [intros c; apply H1|]. split; [intros c Hc; apply (proj2 (H2 c) Hc) | intros c; apply H3].
Qed.

(* the two variants agree: same inputs in, same residues out *)
Definition MGA_MGI_agree_stmt : Prop := forall k p, RecMod k p ->
  let M := mga_init_module k p in let V := mga_get_ruint k M in
  let inA := mga_of_ruint k M in let inI := mgi_of_ruint p in
  forall x y e, 0 <= e < 2 ^ 64 ->
  V (inA x) = inI x /\
  V (mga_mul k M (inA x) (inA y)) = mgi_mul p (inI x) (inI y) /\
  V (mga_add k M (inA x) (inA y)) = mgi_add k p (inI x) (inI y) /\
  V (mga_sub k M (inA x) (inA y)) = mgi_sub k p (inI x) (inI y) /\
  V (mga_neg k M (inA x)) = mgi_neg k p (inI x) /\
  V (mga_exp_u k M (inA x) e) = mgi_exp p 64 (inI x) e /\
  (Z.gcd x p = 1 -> V (mga_inv k M (inA x)) = mgi_inv k p (inI x)).

Lemma gcd_to_mg B p p1 x : 1 < p -> eqm p (B * Binv B p p1) 1 -> Z.gcd x p = 1 -> Z.gcd ((x * B) mod p) p = 1.
Proof.
  intros Hp H Hg. rewrite Z.gcd_mod by lia. apply Zgcd_1_rel_prime. apply rel_prime_mult.
  - apply rel_prime_sym. apply Zgcd_1_rel_prime. exact Hg.
  - apply bezout_rel_prime. unfold eqm in H. rewrite Z.mod_1_l in H by lia.
    pose proof (Z.div_mod (B * Binv B p p1) p ltac:(lia)) as D. rewrite H in D.
    apply (Bezout_intro _ _ _ (- ((B * Binv B p p1) / p)) (Binv B p p1)). rewrite (Z.mul_comm (Binv B p p1) B). rewrite D at 2. ring.
Qed.

Lemma inverse_unique p c i j : 1 < p -> 0 <= i < p -> 0 <= j < p -> (i * c) mod p = 1 -> (j * c) mod p = 1 -> i = j.
Proof.
  intros Hp Hi Hj Ei Ej. apply (eqm_small p); [|exact Hi|exact Hj].
  assert (Ei' : eqm p (i * c) 1) by (unfold eqm; rewrite Ei; symmetry; apply Z.mod_1_l; lia).
  assert (Ej' : eqm p (j * c) 1) by (unfold eqm; rewrite Ej; symmetry; apply Z.mod_1_l; lia).
  transitivity (i * (j * c)); [rewrite Ej'; rewrite Z.mul_1_r; reflexivity|].
  replace (i * (j * c)) with (j * (i * c)) by ring. rewrite Ei'. rewrite Z.mul_1_r. reflexivity.
Qed.

Lemma MGA_MGI_agree : MGA_MGI_agree_stmt.
Proof.
  intros k p HM M V inA inI x y e He. subst M V inA inI.
  pose proof (proj2 HM) as Hp. destruct (p1_spec k p HM) as [_ Hp1].
  destruct (mga_to_mg_ok k p HM x) as [Cx Vx]. destruct (mga_to_mg_ok k p HM y) as [Cy Vy].
  pose proof (mod_can k p Hp x) as Mx. pose proof (mod_can k p Hp y) as My.
  unfold mga_of_ruint, mgi_of_ruint.
  destruct (mgi_ops_ok k p Hp (x mod p) (y mod p) Mx My) as (_ & Ea & Es & _ & En).
  split; [exact Vx|].
  split; [rewrite (proj2 (mga_mul_ok k p HM _ _ Cx Cy)), Vx, Vy; reflexivity|].
  split; [rewrite (proj2 (mga_add_ok k p HM _ _ Cx Cy)), Vx, Vy, Ea; reflexivity|].
  split; [rewrite (proj2 (mga_sub_ok k p HM _ _ Cx Cy)), Vx, Vy, Es; reflexivity|].
  split; [rewrite (proj2 (mga_neg_ok k p HM _ Cx)), Vx, En; reflexivity|].
  split.
  - rewrite (proj2 (mga_exp_u_ok k p HM _ e Cx He)), Vx.
    rewrite (proj2 (mgi_exp_ok k p Hp 64 (x mod p) e Mx He)). reflexivity.
  - intros Hg.
    assert (Gr : Z.gcd (mga_to_mg k (mga_init_module k p) x) p = 1).
    { unfold mga_to_mg. cbn [g_p mga_init_module]. apply (gcd_to_mg (Bk k) p _ x ltac:(lia) (BBi k p _ Hp1) Hg). }
    assert (Gm : Z.gcd (x mod p) p = 1) by (rewrite Z.gcd_mod by lia; rewrite Z.gcd_comm; exact Hg).
    destruct (mga_inv_ok k p HM _ Cx Gr) as [Ci Ei]. rewrite Vx in Ei.
    destruct (mgi_inv_ok k p Hp (x mod p) Mx Gm) as [Cj Ej].
    apply (inverse_unique p (x mod p)); [lia | apply (V_can k p HM _ Ci) | exact Cj | exact Ei | exact Ej].
Qed.

(* Givaro::Montgomery<ruint<K>> *)
Definition MR_ops_stmt : Prop := forall k p, RecMod k p ->
  let M := mr_mk k p in let V := mr_convert k M in
  forall a b c, canon p a -> canon p b -> canon p c ->
  canon p (V a) /\
  (canon p (mr_mul k M a b) /\ V (mr_mul k M a b) = (V a * V b) mod p) /\
  (canon p (mr_add k M a b) /\ V (mr_add k M a b) = (V a + V b) mod p) /\
  (canon p (mr_sub k M a b) /\ V (mr_sub k M a b) = (V a - V b) mod p) /\
  (canon p (mr_subin k M a b) /\ V (mr_subin k M a b) = (V a - V b) mod p) /\
  (canon p (mr_neg k M a) /\ V (mr_neg k M a) = (- V a) mod p) /\
  ((canon p (mr_axpy k M a b c) /\ V (mr_axpy k M a b c) = (V a * V b + V c) mod p) /\
   (canon p (mr_axpyin k M c a b) /\ V (mr_axpyin k M c a b) = (V c + V a * V b) mod p) /\
   (canon p (mr_axmy k M a b c) /\ V (mr_axmy k M a b c) = (V a * V b - V c) mod p) /\
   (canon p (mr_axmyin k M c a b) /\ V (mr_axmyin k M c a b) = (V a * V b - V c) mod p) /\
   (canon p (mr_maxpy k M a b c) /\ V (mr_maxpy k M a b c) = (V c - V a * V b) mod p) /\
   (canon p (mr_maxpyin k M c a b) /\ V (mr_maxpyin k M c a b) = (V c - V a * V b) mod p)).
Lemma MR_ops : MR_ops_stmt.
Proof.
  intros k p HM M V a b c Ha Hb Hc. subst M V.
  split; [apply (mr_V_can k p HM a Ha)|]. split; [apply (mr_mul_ok k p HM); assumption|].
  split; [apply (mr_add_ok k p HM); assumption|]. split; [apply (mr_sub_ok k p HM); assumption|].
  split; [apply (mr_subin_ok k p HM); assumption|]. split; [apply (mr_neg_ok k p HM); assumption|].
  apply (mr_fused_ok k p HM); assumption.
Qed.

Definition MR_inv_div_init_stmt : Prop := forall k p, RecMod k p ->
  let M := mr_mk k p in let V := mr_convert k M in
  (forall a b, canon p a -> canon p b -> Z.gcd b p = 1 ->
     (canon p (mr_inv k M b) /\ (V (mr_inv k M b) * V b) mod p = 1) /\
     (canon p (mr_div k M a b) /\ (V (mr_div k M a b) * V b) mod p = V a) /\
     (canon p (mr_divin k M a b) /\ (V (mr_divin k M a b) * V b) mod p = V a) /\
     mr_isUnit M b = true) /\
  (forall x, canon p x -> canon p (mr_init k M x) /\ V (mr_init k M x) = x) /\
  (forall a, canon p a -> mr_init k M (V a) = a) /\
  (forall x, 0 <= x < Bk k -> canon p (mr_to_mg k M x) /\ V (mr_to_mg k M x) = x mod p) /\
  (canon p (g_one M) /\ V (g_one M) = 1 /\ canon p (g_mOne M) /\ V (g_mOne M) = p - 1 /\ V 0 = 0).
Lemma MR_inv_div_init : MR_inv_div_init_stmt.
Proof.
  intros k p HM M V. subst M V. split.
  - intros a b Ha Hb Hg. split; [apply (mr_inv_ok k p HM b Hb Hg)|].
    destruct (mr_div_ok k p HM a b Ha Hb Hg) as [H1 H2]. split; [exact H1|]. split; [exact H2|].
    unfold mr_isUnit. cbn [g_p mr_mk]. rewrite Hg. reflexivity.
  - split; [intros x Hx; apply (mr_init_ok k p HM x Hx)|]. split; [intros a Ha; apply (mr_convert_init k p HM a Ha)|].
    split; [intros x Hx; apply (mr_to_mg_ok k p HM x Hx)|].
    destruct (mr_constants_ok k p HM) as (C1 & V1 & Cm & Vm & _). split; [exact C1|]. split; [exact V1|]. split; [exact Cm|].
    split; [exact Vm|]. rewrite (mr_V_fm k p HM 0) by (destruct HM as [_ Hp]; unfold canon; lia). apply from_mg_0.
Qed.

(* the windowed exponentiation exp(rmint<K,MGA>&, const rmint<K,MGA>&, const ruint<K>&) of rmgexp.h: every exponent word *)
Definition MGA_exp_ruint_stmt : Prop := forall k p, RecMod k p ->
  let M := mga_init_module k p in let V := mga_get_ruint k M in
  forall b c, canon p b -> 0 <= c < Bk k ->
  canon p (mga_exp_ru k M b c) /\ V (mga_exp_ru k M b c) = (V b ^ c) mod p.
Lemma MGA_exp_ruint : MGA_exp_ruint_stmt.
Proof. intros k p HM M V b c Hb Hc. subst M V. apply (mga_exp_ru_ok k p HM b c Hb Hc). Qed.
