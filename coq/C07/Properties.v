From Coq Require Import ZArith.
From C07 Require Import Param Model.
Local Open Scope Z_scope.
