(* C07 property theorems.  Nothing but statements closed by `exact`, each followed by Print Assumptions.
   Part 1: Givaro::Montgomery<int32_t>.  Ring32 p F: F is what the constructor returns for an admissible p
   (odd, 3 <= p <= maxCardinality(), the bound read from the implementation into Param.v); canon p a: 0 <= a < p;
   convert F a is the residue the stored element a stands for.  The statements are the *_stmt definitions of Proofs32.v. *)
From Coq Require Import ZArith.
From C07 Require Import Param Model Redc Proofs32.
Local Open Scope Z_scope.

Theorem C07_m32_constructor_constants_exact : M32_constructor_stmt.      Proof. exact M32_constructor. Qed.
Print Assumptions C07_m32_constructor_constants_exact.
Theorem C07_m32_six_reductions_are_redc : M32_reductions_stmt.            Proof. exact M32_reductions. Qed.
Print Assumptions C07_m32_six_reductions_are_redc.
Theorem C07_m32_ring_ops_are_plain_residues : M32_ring_ops_stmt.          Proof. exact M32_ring_ops. Qed.
Print Assumptions C07_m32_ring_ops_are_plain_residues.
Theorem C07_m32_fused_ops_are_plain_residues : M32_fused_ops_stmt.        Proof. exact M32_fused_ops. Qed.
Print Assumptions C07_m32_fused_ops_are_plain_residues.
Theorem C07_m32_inverse_and_division : M32_inv_div_stmt.                  Proof. exact M32_inv_div. Qed.
Print Assumptions C07_m32_inverse_and_division.
Theorem C07_m32_inverse_and_division_every_input_unit_or_not : M32_inv_div_any_stmt.   Proof. exact M32_inv_div_any. Qed.
Print Assumptions C07_m32_inverse_and_division_every_input_unit_or_not.
Theorem C07_m32_isUnit_is_gcd_test : M32_isUnit_stmt.                     Proof. exact M32_isUnit. Qed.
Print Assumptions C07_m32_isUnit_is_gcd_test.
Theorem C07_m32_init_convert_identity : M32_init_convert_stmt.            Proof. exact M32_init_convert. Qed.
Print Assumptions C07_m32_init_convert_identity.
Theorem C07_m32_constants_and_predicates : M32_constants_predicates_stmt. Proof. exact M32_constants_predicates. Qed.
Print Assumptions C07_m32_constants_and_predicates.

(* Part 2: RecInt rmint<K,MG_ACTIVE>, rmint<K,MG_INACTIVE>, Givaro::Montgomery<ruint<K>>, for every K = k + 6.
   RecMod k p: p odd and 1 < p < Bk k = 2^(2^K).  The statements are the *_stmt definitions of ProofsRec.v. *)
From C07 Require Import ProofsRec.

Theorem C07_recint_arazi_qi_inverse_mod_B : Arazi_qi_stmt.                 Proof. exact arazi_qi_spec. Qed.
Print Assumptions C07_recint_arazi_qi_inverse_mod_B.
Theorem C07_recint_module_constants_exact : Module_constants_stmt.          Proof. exact Module_constants. Qed.
Print Assumptions C07_recint_module_constants_exact.
Theorem C07_recint_reduction_is_redc : Reduction_stmt.                      Proof. exact Reduction. Qed.
Print Assumptions C07_recint_reduction_is_redc.
Theorem C07_recint_inv_mod_units : Inv_mod_stmt.                            Proof. exact Inv_mod. Qed.
Print Assumptions C07_recint_inv_mod_units.
Theorem C07_rmint_mga_ops_are_plain_residues : MGA_ops_stmt.                Proof. exact MGA_ops. Qed.
Print Assumptions C07_rmint_mga_ops_are_plain_residues.
Theorem C07_rmint_mga_inv_div_exp_word : MGA_inv_div_exp_stmt.              Proof. exact MGA_inv_div_exp. Qed.
Print Assumptions C07_rmint_mga_inv_div_exp_word.
Theorem C07_rmint_mga_exp_windowed_ruint_exponent : MGA_exp_ruint_stmt.    Proof. exact MGA_exp_ruint. Qed.
Print Assumptions C07_rmint_mga_exp_windowed_ruint_exponent.
Theorem C07_rmint_mga_construction_reduces : MGA_ctor_stmt.                 Proof. exact MGA_ctor. Qed.
Print Assumptions C07_rmint_mga_construction_reduces.
Theorem C07_rmint_mgi_ops_are_plain_residues : MGI_ops_stmt.                Proof. exact MGI_ops. Qed.
Print Assumptions C07_rmint_mgi_ops_are_plain_residues.
Theorem C07_rmint_mga_mgi_agree : MGA_MGI_agree_stmt.                       Proof. exact MGA_MGI_agree. Qed.
Print Assumptions C07_rmint_mga_mgi_agree.
Theorem C07_montgomery_ruint_ops_are_plain_residues : MR_ops_stmt.          Proof. exact MR_ops. Qed.
Print Assumptions C07_montgomery_ruint_ops_are_plain_residues.
Theorem C07_montgomery_ruint_inv_div_init_constants : MR_inv_div_init_stmt. Proof. exact MR_inv_div_init. Qed.
Print Assumptions C07_montgomery_ruint_inv_div_init_constants.

(* Part 2, statements without side conditions on the operands (ProofsAll.v): non-units, zero, every exponent, every native
   operand, composite moduli.  Example Stored_form_composite_modulus: RecMod 0 315. *)
From C07 Require Import ProofsAll.

Theorem C07_recint_inv_mod_every_input : Inv_mod_any_stmt.                  Proof. exact Inv_mod_any. Qed.
Print Assumptions C07_recint_inv_mod_every_input.
Theorem C07_inv_div_every_input_unit_or_not : Inv_div_any_stmt.             Proof. exact Inv_div_any. Qed.
Print Assumptions C07_inv_div_every_input_unit_or_not.
Theorem C07_rmint_variants_agree_on_every_input : Agree_all_stmt.           Proof. exact Agree_all. Qed.
Print Assumptions C07_rmint_variants_agree_on_every_input.
Theorem C07_stored_form_below_p_every_operation : Stored_form_stmt.         Proof. exact Stored_form. Qed.
Print Assumptions C07_stored_form_below_p_every_operation.
(* the comment of ruinvmod.h "if b is not invertible, a = 0" holds for the body in /repo now (C06-14, 4753202) *)
Theorem C07_recint_inv_mod_zero_for_nonunits : inv_mod_nonunit_is_zero_stmt.     Proof. exact inv_mod_nonunit_is_zero. Qed.
Print Assumptions C07_recint_inv_mod_zero_for_nonunits.
(* HISTORY (bodies that are no longer in /repo): inv_mod before C06-14 returned a Bezout coefficient for non-units (3 mod 9 -> 1);
   rmsub.h sub(a, b, c) before fix-6 run with the destination being b (p = 101, b = 5, c = 7: 188) *)
Theorem C07_inv_mod_before_C06_14_zero_for_nonunits_refuted :
  ~ (forall k c b, 1 < c < Bk k -> 0 <= b < c -> Z.gcd b c <> 1 -> inv_mod_old (Bk k) b c = 0).
Proof. exact inv_mod_old_nonunit_is_zero_refuted. Qed.
Print Assumptions C07_inv_mod_before_C06_14_zero_for_nonunits_refuted.
Theorem C07_rmsub_before_fix6_destination_is_minuend_refuted :
  exists k p b c, RecMod k p /\ canon p b /\ canon p c /\ rm_sub_old_dst_is_b k p b c <> (b - c) mod p /\ ~ canon p (rm_sub_old_dst_is_b k p b c).
Proof. exact rm_sub_old_dst_is_b_refuted. Qed.
Print Assumptions C07_rmsub_before_fix6_destination_is_minuend_refuted.
(* HISTORY (body no longer in /repo once fix-7 is applied): signed native constructors negating in the native type *)
Theorem C07_signed_ctor_before_fix7_most_negative_value_refuted :
  let p := 1000003 in let b := - 2 ^ 63 in
  (p - abs_in_type_old 1 64 b mod p) mod p = 672319 /\ b mod p = 324658 /\ abs_ru 1 b = 2 ^ 63.
Proof. exact signed_ctor_before_fix7_refuted. Qed.
Print Assumptions C07_signed_ctor_before_fix7_most_negative_value_refuted.

(* Part 2 over C06's limb model (coq/C06 imported read-only): the Montgomery functions written as compositions of C06's
   limb-level primitives (LimbModel.v).  wf = every limb in [0,2^64); val = the integer a limb tree denotes.  Every fact
   about add/sub/cmp/mul/lmul/lsquare/laddmul/mod_n/div/neg/arazi_qi/inv_mod used in these proofs is a theorem of
   coq/C06/Properties.v; nothing about the RecInt primitives is assumed. *)
From C07 Require Import LimbModel ProofsLimb.

Theorem C07_limb_functions_compute_the_integer_model : Limb_refinement_stmt.   Proof. exact Limb_refinement. Qed.
Print Assumptions C07_limb_functions_compute_the_integer_model.
Theorem C07_limb_module_constants_exact : Limb_constants_stmt.                 Proof. exact Limb_constants. Qed.
Print Assumptions C07_limb_module_constants_exact.
Theorem C07_limb_mga_ops_are_plain_residues_and_agree_with_mgi : Limb_mga_ops_stmt. Proof. exact Limb_mga_ops. Qed.
Print Assumptions C07_limb_mga_ops_are_plain_residues_and_agree_with_mgi.
Theorem C07_limb_inverses_on_units : Limb_inverses_stmt.                       Proof. exact Limb_inverses. Qed.
Print Assumptions C07_limb_inverses_on_units.
Theorem C07_limb_composite_operations_compute_the_integer_model : Limb_composite_stmt.   Proof. exact Limb_composite. Qed.
Print Assumptions C07_limb_composite_operations_compute_the_integer_model.
