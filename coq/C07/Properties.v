(* C07 property theorems.  Nothing but statements closed by `exact`, each followed by Print Assumptions.
   Part 1: Givaro::Montgomery<int32_t>.  Ring32 p F: F is what the constructor returns for an admissible p
   (odd, 3 <= p <= maxCardinality(), the bound read from the implementation into Param.v); canon p a: 0 <= a < p;
   convert F a is the residue the stored element a stands for.  The statements are the *_stmt definitions of Proofs32.v. *)
From Coq Require Import ZArith.
From C07 Require Import Param Model Redc Proofs32.
Local Open Scope Z_scope.

Theorem C07_m32_constructor_constants_exact : M32_constructor_stmt.      Proof. exact M32_constructor. Qed.
Print Assumptions C07_m32_constructor_constants_exact.
Theorem C07_m32_six_reductions_are_redc : M32_reductions_stmt.            Proof. exact M32_reductions. Qed.
Print Assumptions C07_m32_six_reductions_are_redc.
Theorem C07_m32_ring_ops_are_plain_residues : M32_ring_ops_stmt.          Proof. exact M32_ring_ops. Qed.
Print Assumptions C07_m32_ring_ops_are_plain_residues.
Theorem C07_m32_fused_ops_are_plain_residues : M32_fused_ops_stmt.        Proof. exact M32_fused_ops. Qed.
Print Assumptions C07_m32_fused_ops_are_plain_residues.
Theorem C07_m32_inverse_and_division : M32_inv_div_stmt.                  Proof. exact M32_inv_div. Qed.
Print Assumptions C07_m32_inverse_and_division.
Theorem C07_m32_isUnit_is_gcd_test : M32_isUnit_stmt.                     Proof. exact M32_isUnit. Qed.
Print Assumptions C07_m32_isUnit_is_gcd_test.
Theorem C07_m32_init_convert_identity : M32_init_convert_stmt.            Proof. exact M32_init_convert. Qed.
Print Assumptions C07_m32_init_convert_identity.
Theorem C07_m32_constants_and_predicates : M32_constants_predicates_stmt. Proof. exact M32_constants_predicates. Qed.
Print Assumptions C07_m32_constants_and_predicates.
