(* C07 driver for the extracted model.  Same line protocol as harness/c07_montgomery.C and
   harness/c07_recint.C (model op names); results printed in the same canonical form. *)
let zs = z_of_string
let s = string_of_z
let oz o = s (Model.opt_z o)
let cache : (string, Model.mg32 option) Hashtbl.t = Hashtbl.create 64
let ring ps = match Hashtbl.find_opt cache ps with
  | Some f -> f
  | None -> let f = Model.mk32 (zs ps) in Hashtbl.replace cache ps f; f
let fields (f : Model.mg32) =
  String.concat " " (List.map s [f.Model.m_Bp; f.Model.m_B2p; f.Model.m_B3p; f.Model.m_nim; f.Model.m_one; f.Model.m_mOne;
                                 Model.Z0; f.Model.m_p; f.Model.m_p; f.Model.m_p; f.Model.m_p])
let bs b = if b then "1" else "0"

(* ---- part 1 *)
let part1 op ps args =
  match ring ps with
  | None -> "NO-RING"
  | Some f ->
    let a = Array.of_list (List.map zs args) in
    let elt r = s r ^ " " ^ s (Model.convert f r) in
    let eo = function Some r -> elt r | None -> "NONE" in
    (match op with
     | "ctor.p" | "ctor.copy" | "ctor.assign" -> fields f
     | "assign.use" | "copy.use" ->
       let u = Model.init_uint32 f a.(0) in
       (match Model.inv f u, Model.div32 f u a.(1) with
        | Some i, Some d -> let w = Model.addin f (Model.mulin f i u) u in
          s w ^ " " ^ s (Model.convert f w) ^ " " ^ s d ^ " " ^ s (Model.convert f d)
        | _ -> "NONE")
     | "redc" -> s (Model.redc f a.(0)) | "redcal" -> s (Model.redcal f a.(0))
     | "redcsal" -> s (Model.redcsal f a.(0)) | "redcs" -> s (Model.redcs f a.(0))
     | "redcin" -> s (Model.redcin f a.(0)) | "redcsin" -> s (Model.redcsin f a.(0))
     | "mul" | "mul.rra" | "mul.rar" -> elt (Model.mul32 f a.(0) a.(1)) | "mulin" -> elt (Model.mulin f a.(0) a.(1))
     | "add" | "add.rra" | "add.rar" -> elt (Model.add32 f a.(0) a.(1)) | "addin" -> elt (Model.addin f a.(0) a.(1))
     | "sub" | "sub.rra" | "sub.rar" -> elt (Model.sub32 f a.(0) a.(1)) | "subin" -> elt (Model.subin f a.(0) a.(1))
     | "div" | "div.rra" | "div.rar" -> eo (Model.div32 f a.(0) a.(1)) | "divin" -> eo (Model.divin f a.(0) a.(1))
     | "neg" | "neg.rr" -> elt (Model.neg f a.(0)) | "negin" -> elt (Model.negin f a.(0))
     | "inv" | "inv.rr" -> eo (Model.inv f a.(0)) | "invin" -> eo (Model.invin f a.(0))
     | "axpy" | "axpy.ra" | "axpy.rb" | "axpy.rc" -> elt (Model.axpy f a.(0) a.(1) a.(2)) | "axpyin" -> elt (Model.axpyin f a.(0) a.(1) a.(2))
     | "axmy" | "axmy.ra" | "axmy.rc" -> elt (Model.axmy f a.(0) a.(1) a.(2)) | "axmyin" -> elt (Model.axmyin f a.(0) a.(1) a.(2))
     | "maxpy" | "maxpy.ra" | "maxpy.rc" -> elt (Model.maxpy f a.(0) a.(1) a.(2)) | "maxpyin" -> elt (Model.maxpyin f a.(0) a.(1) a.(2))
     | "init.none" -> elt Model.init0
     | "init.double" | "init.float" -> elt (Model.init_double f a.(0))
     | "init.int64" -> elt (Model.init_int64 f a.(0))
     | "init.uint64" -> elt (Model.init_uint64 f a.(0))
     | "init.integer" | "read" -> elt (Model.init_integer f a.(0))
     | "init.int32" | "init.int16" | "init.int8" -> elt (Model.init_int32 f a.(0))
     | "init.uint32" | "init.uint16" -> elt (Model.init_uint32 f a.(0))
     | "init.longlong" -> elt (Model.init_longlong f a.(0))
     | "init.ulonglong" -> elt (Model.init_ulonglong f a.(0))
     | "convert.u32" | "convert.i32" | "convert.i64" | "convert.u64" | "convert.double" | "convert.integer" | "convert.float" | "convert.u16" ->
       s (Model.convert f a.(0))
     | "write" -> s (Model.write_value f a.(0))
     | _ when String.length op > 6 && String.sub op 0 6 = "vsmod." ->
       (* Montgomery side of the comparison with Modular<int32_t>: init from the residues, the operation, convert (printed twice:
          the plain ring must give the same number) *)
       let g i = if Array.length a > i then Model.init_uint32 f a.(i) else Model.Z0 in
       let x = g 0 and y = g 1 and z = g 2 in
       let cv r = let v = s (Model.convert f r) in v ^ " " ^ v in
       let co = function Some r -> cv r | None -> "NONE" in
       let fl b = bs b ^ " " ^ bs b in
       (match String.sub op 6 (String.length op - 6) with
        | "add" | "addin" -> cv (Model.add32 f x y) | "sub" | "subin" -> cv (Model.sub32 f x y)
        | "mul" -> cv (Model.mul32 f x y) | "mulin" -> cv (Model.mulin f x y)
        | "neg" | "negin" -> cv (Model.neg f x) | "inv" | "invin" -> co (Model.inv f x)
        | "div" -> co (Model.div32 f x y) | "divin" -> co (Model.divin f x y)
        | "axpy" -> cv (Model.axpy f x y z) | "axmy" -> cv (Model.axmy f x y z) | "maxpy" -> cv (Model.maxpy f x y z)
        | "axpyin" -> cv (Model.axpyin f z x y) | "axmyin" -> cv (Model.axmyin f z x y) | "maxpyin" -> cv (Model.maxpyin f z x y)
        | "isZero" -> fl (Model.isZero (Model.mul32 f x y))
        | "areEqual" -> fl (Model.areEqual (Model.add32 f x y) z)
        | "isUnit" -> (match Model.isUnit f x with Some b -> fl b | None -> "NONE")
        | _ -> "UNKNOWN-OP")
     | "isUnit" -> s (Model.opt_b (Model.isUnit f a.(0)))
     | "isZero" -> bs (Model.isZero a.(0)) | "isOne" -> bs (Model.isOne f a.(0)) | "isMOne" -> bs (Model.isMOne f a.(0))
     | "areEqual" -> bs (Model.areEqual a.(0) a.(1))
     | _ -> "UNKNOWN-OP")


(* ---- part 2: ops of harness/c07_recint.C *)
let h = hex_of_z
let zi n = z_of_za (ZA.of_int n)
let mga_cache : (string, Model.mgmod) Hashtbl.t = Hashtbl.create 64
let mr_cache : (string, Model.mgmod) Hashtbl.t = Hashtbl.create 64
let memo tbl key f = match Hashtbl.find_opt tbl key with Some x -> x | None -> let x = f () in Hashtbl.replace tbl key x; x
let part2 op ks ps args =
  let kk = int_of_string ks - 6 in
  let k = nat_of_int kk in
  let p = zs ps in
  let a = Array.of_list (List.map zs args) in
  let nbits = nat_of_int (64 lsl kk) in
  let key = ks ^ ":" ^ ps in
  let pre = String.sub op 0 2 and name = String.sub op 2 (String.length op - 2) in
  if pre = "A." then begin
    let m = memo mga_cache key (fun () -> Model.mga_init_module k p) in
    let elt r = h r ^ " " ^ h (Model.mga_get_ruint k m r) in
    let u64 x = x in
    match name with
    | "module" -> h m.Model.g_p ^ " " ^ h m.Model.g_p1 ^ " " ^ h m.Model.g_r
    | "ctor.mgi" -> elt (Model.mga_of_mgi k m a.(0))
    | "ctor.ruint" | "ctor.mpz" | "assign.ruint" -> elt (Model.mga_of_ruint k m a.(0))
    | "ctor.u64" | "ctor.u32" | "ctor.u16" | "ctor.u8" | "ctor.ull" -> elt (Model.mga_of_unsigned k m a.(0))
    | "ctor.i64" | "ctor.i32" | "ctor.i16" | "ctor.i8" | "ctor.ll" | "ctor.double" -> elt (Model.mga_of_signed k m a.(0))
    | "mul.Ti" | "mul.Tiin" | "mul.opTi" | "mul.opTil" -> elt (Model.mga_mul_Ti k m a.(0) a.(1))
    | "add.Ti" | "add.opTi" -> elt (Model.mga_add k m a.(0) (Model.mga_of_signed k m a.(1)))
    | "sub.Ti" -> elt (Model.mga_sub k m a.(0) (Model.mga_of_signed k m a.(1)))
    | "sub.Timinus" -> elt (Model.mga_neg k m (Model.mga_sub k m a.(0) (Model.mga_of_signed k m a.(1))))
    | "div.Ti" -> elt (Model.mga_div k m a.(0) (Model.mga_of_signed k m a.(1)))
    | "addmul.Ti" -> elt (Model.mga_addmul k m a.(0) a.(1) (Model.mga_of_signed k m a.(2)))
    | "inv.Ti" -> elt (Model.mga_inv_Ti k m a.(0))
    | "ctor.rint" -> elt (Model.mga_of_rint k m a.(0))
    | "ctor.copy" -> elt a.(0)
    | "ctor.default" -> elt Model.Z0
    | "get.ruint" | "get.mpz" | "get.reduction" -> h (Model.mga_get_ruint k m a.(0))
    | "get.u64" -> h (Model.u64 (Model.mga_get_ruint k m a.(0)))
    | "mul.abc" | "mul.ab" | "mul.op" | "mul.opeq" -> elt (Model.mga_mul k m a.(0) a.(1))
    | "mul.alias" -> elt (Model.mga_mul k m a.(0) a.(0))
    | "mul.T" | "mul.Tin" -> elt (Model.mga_mul_T k m a.(0) (u64 a.(1)))
    | "square.ab" | "square.a" -> elt (Model.mga_square k m a.(0))
    | "add.abc" | "add.ab" | "add.op" | "add.opeq" -> elt (Model.mga_add k m a.(0) a.(1))
    | "add.T" -> elt (Model.mga_add_T k m a.(0) a.(1))
    | "add.inc" -> elt (Model.mga_add_T k m a.(0) (zi 1))
    | "sub.abc" | "sub.op" -> elt (Model.mga_sub k m a.(0) a.(1))
    | "sub.ab" | "sub.opeq" -> elt (Model.mga_subin k m a.(0) a.(1))
    | "sub.T" -> elt (Model.mga_sub_T k m a.(0) a.(1))
    | "sub.Tminus" -> elt (Model.mga_T_sub k m a.(1) a.(0))
    | "sub.dec" -> elt (Model.mga_subin k m a.(0) (Model.mga_of_unsigned k m (zi 1)))
    | "neg.ab" | "neg.a" | "neg.op" -> elt (Model.mga_neg k m a.(0))
    | "inv.ab" | "inv.a" -> elt (Model.mga_inv k m a.(0))
    | "inv.T" -> elt (Model.mga_inv_T k m a.(0))
    | "div.abc" | "div.ab" | "div.op" | "div.opeq" -> elt (Model.mga_div k m a.(0) a.(1))
    | "addmul.abc" -> elt (Model.mga_addmul k m a.(0) a.(1) a.(2))
    | "exp.u64" -> elt (Model.mga_exp_u k m a.(0) a.(1))
    | "exp.ruint" -> elt (Model.mga_exp_ru k m a.(0) a.(1))
    | "eq" -> let e = Model.mga_eq a.(0) a.(1) in bs e ^ " " ^ bs (not e)
    | "eq.ruint" -> let e = Model.mga_eq_ruint k m a.(0) a.(1) in bs e ^ " " ^ bs (not e)
    (* phase 3 (harness/c07_recint2.C): destination aliases an operand, wide reduction, native exponents, sequences *)
    | "sub.aab" | "sub.aba" -> elt (Model.mga_sub k m a.(0) a.(1))
    | "sub.aaa" -> elt (Model.mga_sub k m a.(0) a.(0))
    | "sub.aaT" -> elt (Model.mga_sub_T k m a.(0) a.(1))
    | "add.aab" | "add.aba" -> elt (Model.mga_add k m a.(0) a.(1))
    | "add.aaa" -> elt (Model.mga_add k m a.(0) a.(0))
    | "add.aaT" -> elt (Model.mga_add_T k m a.(0) a.(1))
    | "mul.aab" | "mul.aba" -> elt (Model.mga_mul k m a.(0) a.(1))
    | "mul.aaT" -> elt (Model.mga_mul_T k m a.(0) a.(1))
    | "div.aab" | "div.aba" -> elt (Model.mga_div k m a.(0) a.(1))
    | "div.aaa" -> elt (Model.mga_div k m a.(0) a.(0))
    | "neg.aa" -> elt (Model.mga_neg k m a.(0))
    | "inv.aa" -> elt (Model.mga_inv k m a.(0))
    | "square.aa" -> elt (Model.mga_square k m a.(0))
    | "addmul.aab" -> elt (Model.mga_addmul k m a.(0) a.(0) a.(1))
    | "addmul.aba" -> elt (Model.mga_addmul k m a.(0) a.(1) a.(0))
    | "addmul.aaa" -> elt (Model.mga_addmul k m a.(0) a.(0) a.(0))
    | "exp.aa.u64" | "exp.u32" | "exp.u16" | "exp.u8" | "exp.ull" -> elt (Model.mga_exp_u k m a.(0) a.(1))
    | "exp.aa.ruint" -> elt (Model.mga_exp_ru k m a.(0) a.(1))
    | "mul.iszero" -> let r = Model.mga_mul k m a.(0) a.(1) in let e = Model.mga_eq r Model.Z0 in
      h r ^ " " ^ bs e ^ bs (not e) ^ bs e ^ bs (not e) ^ bs e ^ bs e ^ bs (not e) ^ bs e
    | "seq.ring" ->
      let x = a.(0) and y = a.(1) and z = a.(2) in
      let s1 = Model.mga_mul k m x y in let s2 = Model.mga_add k m s1 z in let s3 = Model.mga_subin k m s2 x in
      let s4 = Model.mga_square k m s3 in let s5 = Model.mga_neg k m s4 in let s6 = Model.mga_mul k m s5 y in
      let s7 = Model.mga_sub k m z s6 in let s8 = Model.mga_addmul k m s7 x y in
      let s9 = Model.mga_add k m s8 (Model.mga_of_signed k m (zi 1)) in let s10 = Model.mga_sub k m s9 s9 in
      let s11 = Model.mga_subin k m s10 z in
      String.concat " " (List.map h [s1; s2; s3; s4; s5; s6; s7; s8; s9; s10]) ^ " " ^ elt s11
    | "reduction.wide" -> h (Model.reduction k m.Model.g_p m.Model.g_p1 a.(0))
    | "reduction.narrow" -> let r = Model.reduction k m.Model.g_p m.Model.g_p1 a.(0) in h r ^ " " ^ h r
    | _ -> "UNKNOWN-OP"
  end else if pre = "I." then begin
    let elt r = h r ^ " " ^ h (Model.mgi_get_ruint r) in
    match name with
    | "module" -> h p
    | "ctor.mga" -> let m = memo mga_cache key (fun () -> Model.mga_init_module k p) in elt (Model.mgi_of_mga k m a.(0))
    | "ctor.ruint" | "ctor.mpz" | "assign.ruint" | "ctor.u64" | "ctor.u32" | "ctor.u16" | "ctor.u8" | "ctor.ull" | "ctor.copy" -> elt (Model.mgi_of_ruint p a.(0))
    | "ctor.i64" | "ctor.i32" | "ctor.i16" | "ctor.i8" | "ctor.ll" | "ctor.double" -> elt (Model.mgi_of_signed k p a.(0))
    | "mul.Ti" | "mul.Tiin" | "mul.opTi" | "mul.opTil" -> elt (Model.mgi_mul_Ti k p a.(0) a.(1))
    | "add.Ti" | "add.opTi" -> elt (Model.mgi_add k p a.(0) (Model.mgi_of_signed k p a.(1)))
    | "sub.Ti" -> elt (Model.mgi_sub k p a.(0) (Model.mgi_of_signed k p a.(1)))
    | "sub.Timinus" -> elt (Model.mgi_neg k p (Model.mgi_sub k p a.(0) (Model.mgi_of_signed k p a.(1))))
    | "div.Ti" -> elt (Model.mgi_div k p a.(0) (Model.mgi_of_signed k p a.(1)))
    | "addmul.Ti" -> elt (Model.mgi_addmul p a.(0) a.(1) (Model.mgi_of_signed k p a.(2)))
    | "inv.Ti" -> elt (Model.mgi_inv_Ti k p a.(0))
    | "ctor.rint" -> elt (Model.mgi_of_rint k p a.(0))
    | "ctor.default" -> elt Model.Z0
    | "get.ruint" | "get.mpz" -> h a.(0)
    | "get.reduction" -> h (Model.mgi_of_ruint p a.(0))
    | "get.u64" -> h (Model.u64 a.(0))
    | "mul.abc" | "mul.ab" | "mul.op" | "mul.opeq" -> elt (Model.mgi_mul p a.(0) a.(1))
    | "mul.T" | "mul.Tin" -> elt (Model.mgi_mul_T p a.(0) a.(1))
    | "mul.alias" | "square.ab" | "square.a" -> elt (Model.mgi_mul p a.(0) a.(0))
    | "add.abc" | "add.ab" | "add.op" | "add.opeq" -> elt (Model.mgi_add k p a.(0) a.(1))
    | "add.T" -> elt (Model.mgi_add_T k p a.(0) a.(1))
    | "add.inc" -> elt (Model.mgi_add_T k p a.(0) (zi 1))
    | "sub.abc" | "sub.op" -> elt (Model.mgi_sub k p a.(0) a.(1))
    | "sub.ab" | "sub.opeq" -> elt (Model.mgi_subin k p a.(0) a.(1))
    | "sub.T" -> elt (Model.mgi_sub_T k p a.(0) a.(1))
    | "sub.Tminus" -> elt (Model.mgi_T_sub k p a.(1) a.(0))
    | "sub.dec" -> elt (Model.mgi_subin k p a.(0) (Model.mgi_of_ruint p (zi 1)))
    | "neg.ab" | "neg.a" | "neg.op" -> elt (Model.mgi_neg k p a.(0))
    | "inv.ab" | "inv.a" -> elt (Model.mgi_inv k p a.(0))
    | "inv.T" -> elt (Model.mgi_inv_T k p a.(0))
    | "div.abc" | "div.ab" | "div.op" | "div.opeq" -> elt (Model.mgi_div k p a.(0) a.(1))
    | "addmul.abc" -> elt (Model.mgi_addmul p a.(0) a.(1) a.(2))
    | "exp.u64" -> elt (Model.mgi_exp p (nat_of_int 64) a.(0) a.(1))
    | "exp.ruint" -> elt (Model.mgi_exp p nbits a.(0) a.(1))
    | "eq" -> let e = Model.mga_eq a.(0) a.(1) in bs e ^ " " ^ bs (not e)
    | "eq.ruint" -> let e = Model.mga_eq a.(0) a.(1) in bs e ^ " " ^ bs (not e)
    | "sub.aab" | "sub.aba" -> elt (Model.mgi_sub k p a.(0) a.(1))
    | "sub.aaa" -> elt (Model.mgi_sub k p a.(0) a.(0))
    | "sub.aaT" -> elt (Model.mgi_sub_T k p a.(0) a.(1))
    | "add.aab" | "add.aba" -> elt (Model.mgi_add k p a.(0) a.(1))
    | "add.aaa" -> elt (Model.mgi_add k p a.(0) a.(0))
    | "add.aaT" -> elt (Model.mgi_add_T k p a.(0) a.(1))
    | "mul.aab" | "mul.aba" -> elt (Model.mgi_mul p a.(0) a.(1))
    | "mul.aaT" -> elt (Model.mgi_mul_T p a.(0) a.(1))
    | "div.aab" | "div.aba" -> elt (Model.mgi_div k p a.(0) a.(1))
    | "div.aaa" -> elt (Model.mgi_div k p a.(0) a.(0))
    | "neg.aa" -> elt (Model.mgi_neg k p a.(0))
    | "inv.aa" -> elt (Model.mgi_inv k p a.(0))
    | "square.aa" -> elt (Model.mgi_mul p a.(0) a.(0))
    | "addmul.aab" -> elt (Model.mgi_addmul p a.(0) a.(0) a.(1))
    | "addmul.aba" -> elt (Model.mgi_addmul p a.(0) a.(1) a.(0))
    | "addmul.aaa" -> elt (Model.mgi_addmul p a.(0) a.(0) a.(0))
    | "exp.aa.u64" | "exp.ull" -> elt (Model.mgi_exp p (nat_of_int 64) a.(0) a.(1))
    | "exp.u32" -> elt (Model.mgi_exp p (nat_of_int 32) a.(0) a.(1))
    | "exp.u16" -> elt (Model.mgi_exp p (nat_of_int 16) a.(0) a.(1))
    | "exp.u8" -> elt (Model.mgi_exp p (nat_of_int 8) a.(0) a.(1))
    | "exp.aa.ruint" -> elt (Model.mgi_exp p nbits a.(0) a.(1))
    | "mul.iszero" -> let r = Model.mgi_mul p a.(0) a.(1) in let e = Model.mga_eq r Model.Z0 in
      h r ^ " " ^ bs e ^ bs (not e) ^ bs e ^ bs (not e) ^ bs e ^ bs e ^ bs (not e) ^ bs e
    | "seq.ring" ->
      let x = a.(0) and y = a.(1) and z = a.(2) in
      let s1 = Model.mgi_mul p x y in let s2 = Model.mgi_add k p s1 z in let s3 = Model.mgi_subin k p s2 x in
      let s4 = Model.mgi_mul p s3 s3 in let s5 = Model.mgi_neg k p s4 in let s6 = Model.mgi_mul p s5 y in
      let s7 = Model.mgi_sub k p z s6 in let s8 = Model.mgi_addmul p s7 x y in
      let s9 = Model.mgi_add k p s8 (Model.mgi_of_signed k p (zi 1)) in let s10 = Model.mgi_sub k p s9 s9 in
      let s11 = Model.mgi_subin k p s10 z in
      String.concat " " (List.map h [s1; s2; s3; s4; s5; s6; s7; s8; s9; s10]) ^ " " ^ elt s11
    | _ -> "UNKNOWN-OP"
  end else begin
    let m = memo mr_cache key (fun () -> Model.mr_mk k p) in
    let elt r = h r ^ " " ^ h (Model.mr_convert k m r) in
    let fields () = String.concat " " (List.map h [m.Model.g_p1; m.Model.g_r; m.Model.g_r2; m.Model.g_r3; m.Model.g_one;
                                                   m.Model.g_mOne; Model.Z0; m.Model.g_p; m.Model.g_p; m.Model.g_p; m.Model.g_p]) in
    match name with
    | "ctor.p" | "ctor.copy" | "ctor.assign" -> fields ()
    | "assign.mul" | "mul" | "mulin" -> elt (Model.mr_mul k m a.(0) a.(1))
    | "assign.use" | "copy.use" ->
      let u = Model.mr_init k m a.(0) in
      let w = Model.mr_add k m (Model.mr_mul k m (Model.mr_inv k m u) u) u in
      let r = Model.mr_inv k m a.(1) in
      h w ^ " " ^ h (Model.mr_convert k m w) ^ " " ^ h r ^ " " ^ h (Model.mr_convert k m r)
    | "reduc" -> h (Model.mr_reduc k m a.(0))
    | "to_mg" | "to_mg.in" -> elt (Model.mr_to_mg k m a.(0))
    | "add" | "addin" -> elt (Model.mr_add k m a.(0) a.(1))
    | "sub" -> elt (Model.mr_sub k m a.(0) a.(1))
    | "subin" -> elt (Model.mr_subin k m a.(0) a.(1))
    | "neg" | "negin" -> elt (Model.mr_neg k m a.(0))
    | "inv" | "invin" -> elt (Model.mr_inv k m a.(0))
    | "div" -> elt (Model.mr_div k m a.(0) a.(1))
    | "divin" -> elt (Model.mr_divin k m a.(0) a.(1))
    | "axpy" -> elt (Model.mr_axpy k m a.(0) a.(1) a.(2))
    | "axpyin" -> elt (Model.mr_axpyin k m a.(0) a.(1) a.(2))
    | "axmy" -> elt (Model.mr_axmy k m a.(0) a.(1) a.(2))
    | "axmyin" -> elt (Model.mr_axmyin k m a.(0) a.(1) a.(2))
    | "maxpy" -> elt (Model.mr_maxpy k m a.(0) a.(1) a.(2))
    | "maxpyin" -> elt (Model.mr_maxpyin k m a.(0) a.(1) a.(2))
    | "init.none" -> elt Model.Z0
    | "init.ruint" | "init.u64" | "init.i64" | "init.u32" | "init.i32" | "init.integer" | "read"
    | "init.double" | "init.float" | "init.u16" | "init.i16" | "init.ull" | "init.ll" -> elt (Model.mr_init k m a.(0))
    | "convert.ruint" | "convert.integer" | "write" | "convert.u32" | "convert.i64" | "convert.double" -> h (Model.mr_convert k m a.(0))
    | "convert.u64" -> h (Model.u64 (Model.mr_convert k m a.(0)))
    | "isUnit" -> bs (Model.mr_isUnit m a.(0))
    | "isZero" -> bs (Model.isZero a.(0))
    | "isOne" -> bs (Model.mga_eq a.(0) m.Model.g_one)
    | "isMOne" -> bs (Model.mga_eq a.(0) m.Model.g_mOne)
    | "areEqual" -> bs (Model.mga_eq a.(0) a.(1))
    | _ when String.length name > 6 && String.sub name 0 6 = "vsmod." ->
      let g i = if Array.length a > i then Model.mr_init k m a.(i) else Model.Z0 in
      let x = g 0 and y = g 1 and z = g 2 in
      let cv r = let v = h (Model.mr_convert k m r) in v ^ " " ^ v in
      let fl b = bs b ^ " " ^ bs b in
      (match String.sub name 6 (String.length name - 6) with
       | "add" | "addin" -> cv (Model.mr_add k m x y) | "sub" -> cv (Model.mr_sub k m x y) | "subin" -> cv (Model.mr_subin k m x y)
       | "mul" | "mulin" -> cv (Model.mr_mul k m x y) | "neg" | "negin" -> cv (Model.mr_neg k m x)
       | "inv" | "invin" -> cv (Model.mr_inv k m x) | "div" -> cv (Model.mr_div k m x y) | "divin" -> cv (Model.mr_divin k m x y)
       | "axpy" -> cv (Model.mr_axpy k m x y z) | "axmy" -> cv (Model.mr_axmy k m x y z) | "maxpy" -> cv (Model.mr_maxpy k m x y z)
       | "axpyin" -> cv (Model.mr_axpyin k m z x y) | "axmyin" -> cv (Model.mr_axmyin k m z x y) | "maxpyin" -> cv (Model.mr_maxpyin k m z x y)
       | "isZero" -> fl (Model.isZero (Model.mr_mul k m x y))
       | "areEqual" -> fl (Model.mga_eq (Model.mr_add k m x y) z)
       | "isUnit" -> fl (Model.mr_isUnit m x)
       | _ -> "UNKNOWN-OP")
    | "reduc.wide" -> h (Model.mr_reduc k m a.(0))
    | "mul.rry" | "mul.rxr" -> elt (Model.mr_mul k m a.(0) a.(1))
    | "mul.rrr" | "mulin.rr" -> elt (Model.mr_mul k m a.(0) a.(0))
    | "add.rry" | "add.rxr" -> elt (Model.mr_add k m a.(0) a.(1))
    | "add.rrr" | "addin.rr" -> elt (Model.mr_add k m a.(0) a.(0))
    | "sub.rry" | "sub.rxr" -> elt (Model.mr_sub k m a.(0) a.(1))
    | "sub.rrr" -> elt (Model.mr_sub k m a.(0) a.(0))
    | "subin.rr" -> elt (Model.mr_subin k m a.(0) a.(0))
    | "div.rry" | "div.rxr" -> elt (Model.mr_div k m a.(0) a.(1))
    | "neg.rr" -> elt (Model.mr_neg k m a.(0))
    | "inv.rr" -> elt (Model.mr_inv k m a.(0))
    | "axpy.r1" | "axpy.r2" | "axpy.r3" -> elt (Model.mr_axpy k m a.(0) a.(1) a.(2))
    | "axmy.r1" | "axmy.r2" | "axmy.r3" -> elt (Model.mr_axmy k m a.(0) a.(1) a.(2))
    | "maxpy.r1" | "maxpy.r2" | "maxpy.r3" -> elt (Model.mr_maxpy k m a.(0) a.(1) a.(2))
    | "axpyin.r1" -> elt (Model.mr_axpyin k m a.(0) a.(0) a.(2))
    | "axmyin.r1" -> elt (Model.mr_axmyin k m a.(0) a.(0) a.(2))
    | "maxpyin.r1" -> elt (Model.mr_maxpyin k m a.(0) a.(0) a.(2))
    | "mul.iszero" -> let r = Model.mr_mul k m a.(0) a.(1) in let e = Model.mga_eq r Model.Z0 in h r ^ " " ^ bs e ^ bs e ^ bs e
    | "seq.ring" ->
      let x = a.(0) and y = a.(1) and z = a.(2) in
      let s1 = Model.mr_mul k m x y in let s2 = Model.mr_add k m s1 z in let s3 = Model.mr_subin k m s2 x in
      let s4 = Model.mr_mul k m s3 s3 in let s5 = Model.mr_neg k m s4 in let s6 = Model.mr_axpyin k m s5 x y in
      let s7 = Model.mr_sub k m z s6 in let s8 = Model.mr_maxpyin k m s7 y z in let s9 = Model.mr_axmyin k m s8 x z in
      let s10 = Model.mr_sub k m s9 s9 in let s11 = Model.mr_subin k m s10 z in
      String.concat " " (List.map h [s1; s2; s3; s4; s5; s6; s7; s8; s9; s10]) ^ " " ^ elt s11
    | _ -> "UNKNOWN-OP"
  end

(* "@<how>:" = the way the ring object was obtained in the C++ (copy, assignment over another modulus, default-constructed then
   assigned, module re-initialised, ...): in the model every such object is the record the constructor returns for p *)
let strip_way op = if String.length op > 0 && op.[0] = '@' then (match String.index_opt op ':' with
  | Some i -> String.sub op (i + 1) (String.length op - i - 1) | None -> op) else op
let () = run_lines (fun toks ->
  let toks = match toks with op :: rest -> strip_way op :: rest | [] -> [] in
  match toks with
  | op :: ks :: ps :: args when String.length op > 2 && op.[1] = '.' && (op.[0] = 'A' || op.[0] = 'I' || op.[0] = 'R') -> part2 op ks ps args
  | op :: ps :: args -> part1 op ps args
  | _ -> "BAD-LINE")
