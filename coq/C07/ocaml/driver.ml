(* C07 driver for the extracted model.  Same line protocol as harness/c07_montgomery.C and
   harness/c07_recint.C (model op names); results printed in the same canonical form. *)
let zs = z_of_string
let s = string_of_z
let oz o = s (Model.opt_z o)
let cache : (string, Model.mg32 option) Hashtbl.t = Hashtbl.create 64
let ring ps = match Hashtbl.find_opt cache ps with
  | Some f -> f
  | None -> let f = Model.mk32 (zs ps) in Hashtbl.replace cache ps f; f
let fields (f : Model.mg32) =
  String.concat " " (List.map s [f.Model.m_Bp; f.Model.m_B2p; f.Model.m_B3p; f.Model.m_nim; f.Model.m_one; f.Model.m_mOne;
                                 Model.Z0; f.Model.m_p; f.Model.m_p; f.Model.m_p; f.Model.m_p])
let bs b = if b then "1" else "0"

(* ---- part 1 *)
let part1 op ps args =
  match ring ps with
  | None -> "NO-RING"
  | Some f ->
    let a = Array.of_list (List.map zs args) in
    let elt r = s r ^ " " ^ s (Model.convert f r) in
    let eo = function Some r -> elt r | None -> "NONE" in
    (match op with
     | "ctor.p" | "ctor.copy" | "ctor.assign" -> fields f
     | "redc" -> s (Model.redc f a.(0)) | "redcal" -> s (Model.redcal f a.(0))
     | "redcsal" -> s (Model.redcsal f a.(0)) | "redcs" -> s (Model.redcs f a.(0))
     | "redcin" -> s (Model.redcin f a.(0)) | "redcsin" -> s (Model.redcsin f a.(0))
     | "mul" -> elt (Model.mul32 f a.(0) a.(1)) | "mulin" -> elt (Model.mulin f a.(0) a.(1))
     | "add" -> elt (Model.add32 f a.(0) a.(1)) | "addin" -> elt (Model.addin f a.(0) a.(1))
     | "sub" -> elt (Model.sub32 f a.(0) a.(1)) | "subin" -> elt (Model.subin f a.(0) a.(1))
     | "div" -> eo (Model.div32 f a.(0) a.(1)) | "divin" -> eo (Model.divin f a.(0) a.(1))
     | "neg" -> elt (Model.neg f a.(0)) | "negin" -> elt (Model.negin f a.(0))
     | "inv" -> eo (Model.inv f a.(0)) | "invin" -> eo (Model.invin f a.(0))
     | "axpy" -> elt (Model.axpy f a.(0) a.(1) a.(2)) | "axpyin" -> elt (Model.axpyin f a.(0) a.(1) a.(2))
     | "axmy" -> elt (Model.axmy f a.(0) a.(1) a.(2)) | "axmyin" -> elt (Model.axmyin f a.(0) a.(1) a.(2))
     | "maxpy" -> elt (Model.maxpy f a.(0) a.(1) a.(2)) | "maxpyin" -> elt (Model.maxpyin f a.(0) a.(1) a.(2))
     | "init.none" -> elt Model.init0
     | "init.double" | "init.float" -> elt (Model.init_double f a.(0))
     | "init.int64" -> elt (Model.init_int64 f a.(0))
     | "init.uint64" -> elt (Model.init_uint64 f a.(0))
     | "init.integer" | "read" -> elt (Model.init_integer f a.(0))
     | "init.int32" | "init.int16" | "init.int8" -> elt (Model.init_int32 f a.(0))
     | "init.uint32" | "init.uint16" -> elt (Model.init_uint32 f a.(0))
     | "init.longlong" -> elt (Model.init_longlong f a.(0))
     | "init.ulonglong" -> elt (Model.init_ulonglong f a.(0))
     | "convert.u32" | "convert.i32" | "convert.i64" | "convert.u64" | "convert.double" | "convert.integer" ->
       s (Model.convert f a.(0))
     | "write" -> s (Model.write_value f a.(0))
     | "isUnit" -> s (Model.opt_b (Model.isUnit f a.(0)))
     | "isZero" -> bs (Model.isZero a.(0)) | "isOne" -> bs (Model.isOne f a.(0)) | "isMOne" -> bs (Model.isMOne f a.(0))
     | "areEqual" -> bs (Model.areEqual a.(0) a.(1))
     | _ -> "UNKNOWN-OP")

let () = run_lines (fun toks ->
  match toks with
  | op :: ps :: args -> part1 op ps args
  | _ -> "BAD-LINE")
