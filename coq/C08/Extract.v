(* Extraction of the executable model for the correspondence run (ExtrOcamlBasic only). *)
From Coq Require Import ZArith List.
From Coq Require Extraction.
From Coq Require Import ExtrOcamlBasic.
From C08 Require Import Model Fp.
Extraction Language OCaml.
Cd "ocaml".
Extraction "model.ml" zp_setdegree zp_degree zp_leadcoef zp_isZero zp_areEqual zp_assign zp_monomial zp_eval
  zp_diff zp_reverse zp_add zp_neg zp_sub zp_subin zp_add_s zp_addin_s zp_sub_s zp_subin_s zp_s_sub zp_mul_s
  zp_div_s zp_mul zp_stdmul zp_karamul zp_mulin zp_sqr zp_invmodpowx zp_div zp_divmod zp_divmodin zp_mod zp_modin
  zp_pdivmod zp_pmod zp_gcd zp_gcdext zp_invmod zp_invmodunit zp_lcm zp_pow zp_powmod zp_axpy zp_axpy_s
  zp_axpyin zp_addin zp_isDivisor zp_modpowx zp_div_sp zp_mod_sp zp_mul_trunc zp_power_compose zp_interpolate zp_crt_toring zp_crt_torns zp_maxpy zp_maxpyin zp_maxpyin_s zp_axmy zp_axmy_s zp_axmyin zp_axmyin_s
  zp_shiftin zp_getEntry zp_setEntry zp_val zp_maxpy_s zp_mod_ps zp_midmul zp_stdmidmul zp_karamidmul zp_midmul_raw zp_stdmidmul_raw zp_karamidmul_raw zp_mul_r zp_stdmul_r zp_karamul_r zp_sqr_r zp_stdsqr_r zp_sqrrec_r zp_subin_range zp_subin_grow zp_subin_at.
Cd "..".
