(* C08: the executable coefficient domain of the correspondence run.  The carrier is the SET OF CANONICAL RESIDUES
   Fp q = { z : Z | 0 <= z < q } (a subset type; extraction erases the proof component, so the extracted code computes on
   plain integers exactly as ZpDom did), so that the field laws FieldOK - which ZpDom p, whose carrier is all of Z, cannot
   satisfy - HOLD for it (ProofsFp.FpDom_ok, q prime) and every theorem of Properties.v applies verbatim to the functions
   that are extracted and run.  The zp_* wrappers inject their integer arguments (z mod q) and project the results. *)
From Coq Require Import ZArith List Bool.
From C08 Require Import Model.
Import ListNotations.
Local Open Scope Z_scope.

Definition inr (q : positive) (z : Z) : bool := (0 <=? z) && (z <? Zpos q).
Definition Fp (q : positive) : Type := { z : Z | inr q z = true }.
Lemma mod_inr : forall q z, inr q (z mod Zpos q) = true.
Proof.
  intros q z. unfold inr. pose proof (Z.mod_pos_bound z (Zpos q) eq_refl) as [H1 H2].
  apply andb_true_intro. split. apply Z.leb_le. exact H1. apply Z.ltb_lt. exact H2.
Qed.
Definition mk (q : positive) (z : Z) : Fp q := exist _ (z mod Zpos q) (mod_inr q z).
Definition fv {q : positive} (a : Fp q) : Z := proj1_sig a.
Definition FpDom (q : positive) : Dom (Fp q) :=
  mkDom (Fp q) (mk q 0) (mk q 1)
        (fun a b => mk q (fv a + fv b)) (fun a b => mk q (fv a - fv b)) (fun a b => mk q (fv a * fv b))
        (fun a => mk q (- fv a)) (fun a => mk q (if fv a =? 0 then 0 else zinv (fv a) (Zpos q)))
        (fun a => fv a =? 0).

(* the modulus handed over by the driver (an integer >= 2) as a positive *)
Definition qof (p : Z) : positive := match p with Zpos q => q | _ => 2%positive end.
Definition inl (p : Z) (L : list Z) : list (Fp (qof p)) := map (mk (qof p)) L.
Definition outl {q : positive} (L : list (Fp q)) : list Z := map fv L.
Definition FD (p : Z) := FpDom (qof p).

(* ---------------- Z-level wrappers extracted for the correspondence run ---------------- *)
Definition zp_setdegree (p : Z) (x0 : list Z) := outl (setdegree (FD p) (inl p x0)).
Definition zp_degree (p : Z) (x0 : list Z) := degree (FD p) (inl p x0).
Definition zp_leadcoef (p : Z) (x0 : list Z) := fv (leadcoef (FD p) (inl p x0)).
Definition zp_isZero (p : Z) (x0 : list Z) := isZero (FD p) (inl p x0).
Definition zp_areEqual (p : Z) (x0 : list Z) (x1 : list Z) := areEqual (FD p) (inl p x0) (inl p x1).
Definition zp_assign (p : Z) (x0 : list Z) := outl (assign (FD p) (inl p x0)).
Definition zp_monomial (p : Z) x0 (x1 : Z) := outl (monomial (FD p) x0 (mk (qof p) x1)).
Definition zp_eval (p : Z) (x0 : list Z) (x1 : Z) := fv (eval (FD p) (inl p x0) (mk (qof p) x1)).
Definition zp_diff (p : Z) (x0 : list Z) := outl (diff (FD p) (inl p x0)).
Definition zp_reverse (p : Z) (x0 : list Z) := outl (reverse (FD p) (inl p x0)).
Definition zp_add (p : Z) (x0 : list Z) (x1 : list Z) := outl (add_pub (FD p) (inl p x0) (inl p x1)).
Definition zp_neg (p : Z) (x0 : list Z) := outl (neg (FD p) (inl p x0)).
Definition zp_sub (p : Z) (x0 : list Z) (x1 : list Z) := outl (sub_pub (FD p) (inl p x0) (inl p x1)).
Definition zp_subin (p : Z) (x0 : list Z) (x1 : list Z) := outl (subin (FD p) (inl p x0) (inl p x1)).
Definition zp_add_s (p : Z) (x0 : list Z) (x1 : Z) := outl (add_s (FD p) (inl p x0) (mk (qof p) x1)).
Definition zp_addin_s (p : Z) (x0 : list Z) (x1 : Z) := outl (addin_s (FD p) (inl p x0) (mk (qof p) x1)).
Definition zp_sub_s (p : Z) (x0 : list Z) (x1 : Z) := outl (sub_s (FD p) (inl p x0) (mk (qof p) x1)).
Definition zp_subin_s (p : Z) (x0 : list Z) (x1 : Z) := outl (subin_s (FD p) (inl p x0) (mk (qof p) x1)).
Definition zp_s_sub (p : Z) (x0 : Z) (x1 : list Z) := outl (s_sub (FD p) (mk (qof p) x0) (inl p x1)).
Definition zp_mul_s (p : Z) (x0 : list Z) (x1 : Z) := outl (mul_s (FD p) (inl p x0) (mk (qof p) x1)).
Definition zp_div_s (p : Z) (x0 : list Z) (x1 : Z) := outl (div_s (FD p) (inl p x0) (mk (qof p) x1)).
Definition zp_mul (p : Z) (k : nat) (x0 : list Z) (x1 : list Z) := outl (mul (FD p) k (inl p x0) (inl p x1)).
Definition zp_stdmul (p : Z) (x0 : list Z) (x1 : list Z) := outl (stdmul (FD p) (inl p x0) (inl p x1)).
Definition zp_karamul (p : Z) (k : nat) (x0 : list Z) (x1 : list Z) := outl (karamul (FD p) k (inl p x0) (inl p x1)).
Definition zp_mulin (p : Z) (k : nat) (x0 : list Z) (x1 : list Z) := outl (mulin (FD p) k (inl p x0) (inl p x1)).
Definition zp_sqr (p : Z) (k : nat) (s : nat) (x0 : list Z) := outl (sqr (FD p) k s (inl p x0)).
Definition zp_invmodpowx (p : Z) (k : nat) (s : nat) (x0 : list Z) x1 := outl (invmodpowx (FD p) k s (inl p x0) x1).
Definition zp_div (p : Z) (k : nat) (s : nat) (x0 : list Z) (x1 : list Z) := outl (div (FD p) k s (inl p x0) (inl p x1)).
Definition zp_divmod (p : Z) (k : nat) (s : nat) (x0 : list Z) (x1 : list Z) := let '(a, b) := divmod (FD p) k s (inl p x0) (inl p x1) in (outl a, outl b).
Definition zp_divmodin (p : Z) (k : nat) (s : nat) (x0 : list Z) (x1 : list Z) := let '(a, b) := divmodin (FD p) k s (inl p x0) (inl p x1) in (outl a, outl b).
Definition zp_mod (p : Z) (k : nat) (s : nat) (x0 : list Z) (x1 : list Z) := outl (mod_ (FD p) k s (inl p x0) (inl p x1)).
Definition zp_modin (p : Z) (x0 : list Z) (x1 : list Z) := outl (modin (FD p) (inl p x0) (inl p x1)).
Definition zp_pdivmod (p : Z) (x0 : list Z) (x1 : list Z) := let '(a, b, c) := pdivmod (FD p) (inl p x0) (inl p x1) in (outl a, outl b, fv c).
Definition zp_pmod (p : Z) (x0 : list Z) (x1 : list Z) := let '(a, c) := pmod (FD p) (inl p x0) (inl p x1) in (outl a, fv c).
Definition zp_gcd (p : Z) (k : nat) (s : nat) (x0 : list Z) (x1 : list Z) := outl (gcd (FD p) k s (inl p x0) (inl p x1)).
Definition zp_gcdext (p : Z) (k : nat) (s : nat) (x0 : list Z) (x1 : list Z) := let '(a, b, c) := gcdext (FD p) k s (inl p x0) (inl p x1) in (outl a, outl b, outl c).
Definition zp_invmod (p : Z) (k : nat) (s : nat) (x0 : list Z) (x1 : list Z) := outl (invmod (FD p) k s (inl p x0) (inl p x1)).
Definition zp_invmodunit (p : Z) (k : nat) (s : nat) (x0 : list Z) (x1 : list Z) := outl (invmodunit (FD p) k s (inl p x0) (inl p x1)).
Definition zp_lcm (p : Z) (k : nat) (s : nat) (x0 : list Z) (x1 : list Z) := outl (lcm (FD p) k s (inl p x0) (inl p x1)).
Definition zp_pow (p : Z) (k : nat) (x0 : list Z) x1 := outl (pow (FD p) k (inl p x0) x1).
Definition zp_powmod (p : Z) (k : nat) (s : nat) x0 (x1 : list Z) x2 (x3 : list Z) := outl (powmod (FD p) k s x0 (inl p x1) x2 (inl p x3)).
Definition zp_axpy (p : Z) (k : nat) (x0 : list Z) (x1 : list Z) (x2 : list Z) := outl (axpy (FD p) k (inl p x0) (inl p x1) (inl p x2)).
Definition zp_axpy_s (p : Z) (x0 : Z) (x1 : list Z) (x2 : list Z) := outl (axpy_s (FD p) (mk (qof p) x0) (inl p x1) (inl p x2)).
Definition zp_axpyin (p : Z) (k : nat) (x0 : list Z) (x1 : list Z) (x2 : list Z) := outl (axpyin (FD p) k (inl p x0) (inl p x1) (inl p x2)).
Definition zp_maxpy (p : Z) (k : nat) (x0 : list Z) (x1 : list Z) (x2 : list Z) := outl (maxpy (FD p) k (inl p x0) (inl p x1) (inl p x2)).
Definition zp_maxpyin (p : Z) (k : nat) (x0 : list Z) (x1 : list Z) (x2 : list Z) := outl (maxpyin (FD p) k (inl p x0) (inl p x1) (inl p x2)).
Definition zp_maxpyin_s (p : Z) (x0 : list Z) (x1 : Z) (x2 : list Z) := outl (maxpyin_s (FD p) (inl p x0) (mk (qof p) x1) (inl p x2)).
Definition zp_axmy (p : Z) (k : nat) (x0 : list Z) (x1 : list Z) (x2 : list Z) := outl (axmy (FD p) k (inl p x0) (inl p x1) (inl p x2)).
Definition zp_axmy_s (p : Z) (x0 : Z) (x1 : list Z) (x2 : list Z) := outl (axmy_s (FD p) (mk (qof p) x0) (inl p x1) (inl p x2)).
Definition zp_axmyin (p : Z) (k : nat) (x0 : list Z) (x1 : list Z) (x2 : list Z) := outl (axmyin (FD p) k (inl p x0) (inl p x1) (inl p x2)).
Definition zp_axmyin_s (p : Z) (x0 : list Z) (x1 : Z) (x2 : list Z) := outl (axmyin_s (FD p) (inl p x0) (mk (qof p) x1) (inl p x2)).
Definition zp_addin (p : Z) (x0 : list Z) (x1 : list Z) := outl (addin (FD p) (inl p x0) (inl p x1)).
Definition zp_isDivisor (p : Z) (k : nat) (s : nat) (x0 : list Z) (x1 : list Z) := isDivisor (FD p) k s (inl p x0) (inl p x1).
Definition zp_modpowx (p : Z) (x0 : list Z) x1 := outl (modpowx (FD p) (inl p x0) x1).
Definition zp_div_sp (p : Z) (x0 : Z) (x1 : list Z) := outl (div_sp (FD p) (mk (qof p) x0) (inl p x1)).
Definition zp_mod_sp (p : Z) (x0 : Z) (x1 : list Z) := outl (mod_sp (FD p) (mk (qof p) x0) (inl p x1)).
Definition zp_mul_trunc (p : Z) (x0 : list Z) (x1 : list Z) x2 x3 := outl (mul_trunc (FD p) (inl p x0) (inl p x1) x2 x3).
Definition zp_power_compose (p : Z) (x0 : list Z) x1 := outl (power_compose (FD p) (inl p x0) x1).
Definition zp_interpolate (p : Z) (x0 : list Z) (x1 : list Z) := outl (interpolate (FD p) (inl p x0) (inl p x1)).
Definition zp_crt_toring (p : Z) (k : nat) (x0 : list Z) (x1 : list Z) := outl (crt_toring (FD p) k (inl p x0) (inl p x1)).
Definition zp_crt_torns (p : Z) (x0 : list Z) (x1 : list Z) := outl (crt_torns (FD p) (inl p x0) (inl p x1)).
Definition zp_shiftin (p : Z) (x0 : list Z) x1 := outl (shiftin (FD p) (inl p x0) x1).
Definition zp_getEntry (p : Z) (x0 : list Z) x1 := fv (getEntry (FD p) (inl p x0) x1).
Definition zp_setEntry (p : Z) (x0 : list Z) (x1 : Z) x2 := outl (setEntry (FD p) (inl p x0) (mk (qof p) x1) x2).
Definition zp_val (p : Z) (x0 : list Z) := val (FD p) (inl p x0).
Definition zp_maxpy_s (p : Z) (x0 : Z) (x1 : list Z) (x2 : list Z) := outl (maxpy_s (FD p) (mk (qof p) x0) (inl p x1) (inl p x2)).
Definition zp_mod_ps (p : Z) (x0 : list Z) (x1 : Z) := outl (mod_ps (FD p) (inl p x0) (mk (qof p) x1)).
Definition zp_midmul (p : Z) (k : nat) (x0 : list Z) (x1 : list Z) := outl (midmul (FD p) k (inl p x0) (inl p x1)).
Definition zp_stdmidmul (p : Z) (x0 : list Z) (x1 : list Z) := outl (stdmidmul (FD p) (inl p x0) (inl p x1)).
Definition zp_karamidmul (p : Z) (k : nat) (x0 : list Z) (x1 : list Z) := outl (karamidmul (FD p) k (inl p x0) (inl p x1)).
Definition zp_subin_range (p : Z) (x0 : list Z) (x1 : list Z) := outl (subin_range (FD p) (inl p x0) (inl p x1)).

(* the protected range helpers driven directly (harness: struct Open, variants named r.xxx); a, b = sizes of the pads around the
   ranges inside their containers (only sqrrec looks at the container: its temporary has P.size() entries) *)
Definition zp_midmul_raw p k (P Q : list Z) := outl (midmul_r (FD p) (length P) k (inl p P) (inl p Q)).
Definition zp_stdmidmul_raw p (P Q : list Z) := outl (stdmidmul_r (FD p) (inl p P) (inl p Q)).
Definition zp_karamidmul_raw p k (P Q : list Z) := outl (karamidmul_body (FD p) (midmul_r (FD p) (length P) k) (inl p P) (inl p Q)).
Definition zp_mul_r p k (n : nat) (P Q : list Z) := outl (mul_r (FD p) (length P) k n (inl p P) (inl p Q)).
Definition zp_stdmul_r p (n : nat) (P Q : list Z) := outl (stdmul_r (FD p) n (inl p P) (inl p Q)).
Definition zp_karamul_r p k (n : nat) (P Q : list Z) := outl (karamul_body (FD p) (mul_r (FD p) (length P) k) n (inl p P) (inl p Q)).
Definition zp_sqr_r p k s (P : list Z) (a b : nat) :=
  outl (sqr_r (FD p) (length P) k s (a + length P + b) (2 * length P - 1) (inl p P)).
Definition zp_stdsqr_r p (P : list Z) := outl (stdsqr_r (FD p) (2 * length P - 1) (inl p P)).
Definition zp_sqrrec_r p k s (P : list Z) (a b : nat) :=
  let cP := (a + length P + b)%nat in
  outl (sqrrec_body (FD p) (sqr_r (FD p) (length P) k s cP) (mul_r (FD p) (length P) k) cP (2 * length P - 1) (inl p P)).
Definition zp_subin_grow p (R P : list Z) := outl (setdegree (FD p) (sub (FD p) (inl p R) (inl p P))).
Definition zp_subin_at p (R P : list Z) (off : nat) := outl (subshift (FD p) (inl p R) off (inl p P)).
