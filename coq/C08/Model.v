(* C08 model: dense univariate polynomials of src/library/poly1 (Poly1Dom<Domain,Dense>).
   A polynomial is the std::vector of its coefficients, index = degree: `list T`.
   Every function is written after the C++ body it models (file:function named above it), on the
   *contents* of the iterator ranges the C++ works on.  The coefficient domain is a record of
   operations (`Dom T`); nothing is assumed about it here.  No proofs in this file. *)
From Coq Require Import ZArith List Bool Arith.
Import ListNotations.

Record Dom (T : Type) : Type := mkDom {
  d0 : T; d1 : T;
  dadd : T -> T -> T; dsub : T -> T -> T; dmul : T -> T -> T;
  dneg : T -> T; dinv : T -> T;
  dis0 : T -> bool }.
Arguments d0 {T}. Arguments d1 {T}. Arguments dadd {T}. Arguments dsub {T}. Arguments dmul {T}.
Arguments dneg {T}. Arguments dinv {T}. Arguments dis0 {T}.

Section Model.
Context {T : Type} (D : Dom T).
Local Notation O_ := (d0 D).
Local Notation I_ := (d1 D).
Local Notation add_ := (dadd D).
Local Notation sub_ := (dsub D).
Local Notation mul_ := (dmul D).
Local Notation neg_ := (dneg D).
Local Notation is0 := (dis0 D).
Definition ddiv (a b : T) : T := mul_ a (dinv D b).    (* _domain.div(r,a,b) *)
Definition poly := list T.

Definition zeros (n : nat) : poly := repeat O_ n.
Definition coef (P : poly) (i : nat) : T := nth i P O_.
(* v.resize(n): keep the first n entries, value-initialise (0) the new ones *)
Definition resize (n : nat) (P : poly) : poly := firstn n P ++ zeros (n - length P).

(* ---------------- givpoly1misc.inl ---------------- *)
(* setdegree: strip the zero coefficients at the top *)
Fixpoint setdegree (P : poly) : poly :=
  match P with
  | [] => []
  | a :: P' => match setdegree P' with
               | [] => if is0 a then [] else [a]
               | L => a :: L
               end
  end.
(* degree(d,P): -1 (Degree::deginfty) for the zero polynomial *)
Definition degree (P : poly) : Z := Z.of_nat (length (setdegree P)) - 1.
Definition leadcoef (P : poly) : T := last (setdegree P) O_.
Definition isZero (P : poly) : bool := match setdegree P with [] => true | _ => false end.
Fixpoint eqlist (eqb : T -> T -> bool) (P Q : poly) : bool :=
  match P, Q with [], [] => true | a :: P', b :: Q' => eqb a b && eqlist eqb P' Q' | _, _ => false end.
(* areEqual: normalise both, compare sizes and entries; domain equality is x - y == 0 *)
Definition areEqual (P Q : poly) : bool :=
  eqlist (fun a b => is0 (sub_ a b)) (setdegree P) (setdegree Q).
(* cstor: assign(P,Q) copies up to the degree *)
Definition assign (Q : poly) : poly := setdegree Q.
(* cstor: assign(P, Degree d, lcoeff) *)
Definition monomial (d : nat) (c : T) : poly := if is0 c then [] else zeros d ++ [c].
Definition const (c : T) : poly := monomial 0 c.

(* eval: Horner from the leading coefficient *)
Definition eval (P : poly) (v : T) : T :=
  match rev (setdegree P) with
  | [] => O_
  | c :: L => fold_left (fun acc a => add_ (mul_ acc v) a) L c
  end.
(* diff: P[i] = Q[i+1] * (1+...+1), size deg Q, no setdegree *)
Fixpoint diff_aux (c : T) (L : poly) : poly :=
  match L with [] => [] | a :: L' => let c' := add_ c I_ in mul_ a c' :: diff_aux c' L' end.
Definition diff (Q : poly) : poly :=      (* REPAIRED (frag/C08.fix-11.diff): ends in setdegree *)
  match setdegree Q with [] => [] | _ :: L => setdegree (diff_aux O_ L) end.
Definition reverse (Q : poly) : poly := setdegree (rev Q).

(* ---------------- givpoly1addsub.inl ---------------- *)
(* add(R,P,Q) and addin(R,P): sizes 0 are copies, otherwise entrywise, the longer tail copied; no setdegree *)
Fixpoint add (P Q : poly) : poly :=
  match P, Q with
  | [], _ => Q
  | _, [] => P
  | a :: P', b :: Q' => add_ a b :: add P' Q'
  end.
(* addin(R,P): P empty -> R; R empty -> assign(R,P) (stripped); otherwise entrywise, no setdegree *)
Definition addin (R P : poly) : poly :=      (* REPAIRED (frag/C08.fix-10.diff): the entrywise branch ends in setdegree *)
  match P, R with
  | [], _ => R
  | _, [] => setdegree P
  | _, _ => setdegree (add R P)
  end.
Definition neg (P : poly) : poly := map neg_ P.
(* sub(R,P,Q): no setdegree *)
Fixpoint sub (P Q : poly) : poly :=
  match P, Q with
  | _, [] => P
  | [], _ => neg Q
  | a :: P', b :: Q' => sub_ a b :: sub P' Q'
  end.
(* subin(R,P): returns R if P empty, neg(R,P) (no setdegree) if R empty, else setdegree *)
Definition subin (R P : poly) : poly :=
  match P, R with
  | [], _ => R
  | _, [] => setdegree (neg P)      (* REPAIRED (frag/C08.fix-10.diff): was neg(R,P) without setdegree *)
  | _, _ => setdegree (sub R P)
  end.
(* the public add(R,P,Q) / sub(R,P,Q): REPAIRED (frag/C08.fix-10.diff): the entrywise branch ends in setdegree
   (`add`/`sub` above are the raw entrywise operations, used by the iterator forms and by the specification) *)
Definition add_pub (P Q : poly) : poly :=
  match P, Q with [], _ => Q | _, [] => P | _, _ => setdegree (add P Q) end.
Definition sub_pub (P Q : poly) : poly :=
  match P, Q with _, [] => P | [], _ => neg Q | _, _ => setdegree (sub P Q) end.
(* subin(R, Rbeg, Rend, P, Pbeg, Pend) used with [Rbeg,Rend) = all of R *)
Definition subin_range (R P : poly) : poly :=
  match P with
  | [] => R
  | _ => if length R <? length P then setdegree (sub R P) else sub R P
  end.
(* scalar forms *)
(* add(R,P,Val), add(R,Val,P): REPAIRED behaviour (frag/C08.fix-3.diff): the emptiness test is isZero(P)
   (P stripped first); as written the code tested P.size()==0 and wrote R[0] of an empty vector for P = [0] *)
Definition add_s (P : poly) (v : T) : poly :=
  setdegree (match assign P with
             | [] => [v]
             | p0 :: R' => add_ p0 v :: R'
             end).
Definition addin_s (R : poly) (v : T) : poly :=
  setdegree (match R with [] => [v] | r0 :: R' => add_ r0 v :: R' end).
Definition sub_s (P : poly) (v : T) : poly :=
  setdegree (match assign P with
             | [] => [neg_ v]
             | p0 :: R' => sub_ p0 v :: R'
             end).
Definition subin_s (R : poly) (v : T) : poly :=
  setdegree (match R with [] => [neg_ v] | r0 :: R' => sub_ r0 v :: R' end).
Definition s_sub (v : T) (P : poly) : poly :=
  setdegree (match P with
             | [] => [v]                       (* REPAIRED (fix-9): the code stored -Val *)
             | p0 :: P' => sub_ v p0 :: neg P' (* neg(R,P); R[0] = Val - P[0]: REPAIRED (fix-1; the code added) *)
             end).
(* all scalar forms: REPAIRED (frag/C08.fix-10.diff) to end in setdegree *)

(* ---------------- givpoly1muldiv.inl: scalar products ---------------- *)
Definition mul_s (P : poly) (u : T) : poly := setdegree (map (fun a => mul_ a u) P).     (* mul(R,P,u), mulin(R,u); REPAIRED (fix-11): setdegree *)
Definition div_s (P : poly) (u : T) : poly := setdegree (map (fun a => ddiv a u) P).  (* div(R,P,u), divin(R,u) *)

(* ---------------- givpoly1kara.inl ---------------- *)
(* R[i+j] += L[j] while both exist *)
Fixpoint addshift (R : poly) (i : nat) (L : poly) : poly :=
  match R with
  | [] => []
  | r :: R' => match i with
               | S i' => r :: addshift R' i' L
               | O => match L with [] => R | l :: L' => add_ r l :: addshift R' O L' end
               end
  end.
Fixpoint subshift (R : poly) (i : nat) (L : poly) : poly :=
  match R with
  | [] => []
  | r :: R' => match i with
               | S i' => r :: subshift R' i' L
               | O => match L with [] => R | l :: L' => sub_ r l :: subshift R' O L' end
               end
  end.
(* rows 1.. of stdmul: for ai != 0, R[i+j] += ai*Q[j] *)
Fixpoint stdmul_rows (R : poly) (i : nat) (P Q : poly) : poly :=
  match P with
  | [] => R
  | a :: P' => stdmul_rows (if is0 a then R else addshift R i (map (mul_ a) Q)) (S i) P' Q
  end.
(* stdmul on ranges: result = the n entries of [Rbeg,Rend) *)
Definition stdmul_r (n : nat) (P Q : poly) : poly :=
  match n with
  | O => []
  | _ => match P with
         | [] => zeros n            (* assign(R,zero): only reached with [Rbeg,Rend) = all of R, then setdegree *)
         | a :: P' =>
           let row0 := if is0 a then map (fun _ => O_) Q
                       else map (fun b => if is0 b then O_ else mul_ a b) Q in
           stdmul_rows (resize n row0) 1 P' Q
         end
  end.

(* karamul on ranges; `rec n P Q` is the recursive dynamic choice mul(R,Rbeg,Rend,P,..,Q,..) *)
Definition overwrite (R : poly) (off : nat) (L : poly) : poly :=   (* R[off+j] = L[j] while both exist *)
  firstn off R ++ firstn (length R - off) L ++ skipn (off + length L) R.
Definition karamul_body (rec : nat -> poly -> poly -> poly) (n : nat) (P Q : poly) : poly :=
  match n with
  | O => []
  | _ =>
    let half := Nat.min (Nat.div2 (length P)) (Nat.div2 (length Q)) in
    let halfR := Nat.min (2 * half) n in
    let Pl := firstn half P in let Ph := skipn half P in
    let Ql := firstn half Q in let Qh := skipn half Q in
    let R0 := overwrite (zeros n) 0 (rec halfR Pl Ql) in            (* PlQl *)
    if half <? n then
      let highs := length Ph + length Qh - 1 in
      let rrems := n - halfR in
      let midts := Nat.min highs (n - half) in
      let PHQH := if rrems <? midts then rec midts Ph Qh else [] in
      let R1 := if rrems <? midts then overwrite R0 halfR PHQH
                else overwrite R0 halfR (rec rrems Ph Qh) in
      let PHPL := setdegree (sub Ph Pl) in
      let QHQL := setdegree (sub Qh Ql) in
      let M0 := setdegree (rec midts PHPL QHQL) in
      let M1 := setdegree (subin_range M0 (firstn halfR R1)) in
      let M2 := setdegree (if rrems <? highs then subin M1 PHQH
                           else subin_range M1 (skipn halfR R1)) in
      subshift R1 half M2
    else R0
  end.
(* mul on ranges: dynamic choice on KARA_THRESHOLD; fuel bounds the recursion depth (length P suffices) *)
Fixpoint mul_r (fuel thr n : nat) (P Q : poly) : poly :=
  match fuel with
  | O => stdmul_r n P Q
  | S f => if (thr <? length P) && (thr <? length Q)
           then karamul_body (mul_r f thr) n P Q
           else stdmul_r n P Q
  end.
(* muldiv.inl: mul(R,P,Q), stdmul(R,P,Q), karamul(R,P,Q) *)
Definition mul (thr : nat) (P Q : poly) : poly :=
  match P, Q with
  | [], _ | _, [] => []
  | _, _ => setdegree (mul_r (length P) thr (length P + length Q - 1) P Q)
  end.
Definition stdmul (P Q : poly) : poly :=
  match P, Q with
  | [], _ | _, [] => []
  | _, _ => setdegree (stdmul_r (length P + length Q - 1) P Q)
  end.
Definition karamul (thr : nat) (P Q : poly) : poly :=     (* forces the first level *)
  match P, Q with
  | [], _ | _, [] => []
  | _, _ => setdegree (karamul_body (mul_r (length P) thr) (length P + length Q - 1) P Q)
  end.
Definition mulin (thr : nat) (R P : poly) : poly := assign (mul thr R P).

(* stdsqr: sum_{j<cnt} P[lo-j]*P[hi+j] *)
Fixpoint sumprod (P : poly) (lo hi cnt : nat) : T :=
  match cnt with
  | O => O_
  | S c => add_ (mul_ (coef P lo) (coef P hi)) (sumprod P (lo - 1) (S hi) c)
  end.
Definition two : T := add_ I_ I_.
Fixpoint stdsqr_pairs (P : poly) (k cnt : nat) : poly :=   (* entries 2k-1, 2k for k, k+1, ... (cnt pairs) *)
  match cnt with
  | O => []
  | S c =>
    let sP := length P in
    let odd := mul_ (sumprod P (k - 1) k (Nat.min k (sP - k))) two in
    let even := add_ (mul_ (sumprod P (k - 1) (S k) (Nat.min k (sP - 1 - k))) two) (mul_ (coef P k) (coef P k)) in
    odd :: even :: stdsqr_pairs P (S k) c
  end.
(* PRECONDITION of the code: the range holds exactly 2*sP-1 entries *)
Definition stdsqr_r (n : nat) (P : poly) : poly :=
  mul_ (coef P 0) (coef P 0) :: stdsqr_pairs P 1 (Nat.div2 (n - 1)).
(* sqrrec; cP = P.size() of the whole container (size of the temporary M) *)
Definition sqrrec_body (recs : nat -> poly -> poly) (recm : nat -> poly -> poly -> poly)
           (cP n : nat) (P : poly) : poly :=
  let half := Nat.div2 (length P) in
  let Pl := firstn half P in let Ph := skipn half P in
  let R0 := overwrite (zeros n) 0 (recs (2 * half - 1) Pl) in
  let R1 := overwrite R0 (2 * half) (recs (n - 2 * half) Ph) in
  let M := mul_s (setdegree (recm cP Pl Ph)) two in
  addshift R1 half M.
Fixpoint sqr_r (fuel kthr sthr cP n : nat) (P : poly) : poly :=
  match fuel with
  | O => stdsqr_r n P
  | S f => if sthr <? length P
           then sqrrec_body (sqr_r f kthr sthr cP) (mul_r (length P) kthr) cP n P
           else stdsqr_r n P
  end.
Definition sqr (kthr sthr : nat) (P : poly) : poly :=      (* no setdegree *)
  match P with
  | [] => []
  | _ => sqr_r (length P) kthr sthr (length P) (2 * length P - 1) P
  end.

(* ---------------- givpoly1midmul.inl: middle product MP(P,Q) = the m = |P|-|Q|+1 central coefficients of P*Q ---------------- *)
Definition slice (P : poly) (a n : nat) : poly := firstn n (skipn a P).
Definition zipadd (A B : poly) : poly := map (fun xy => add_ (fst xy) (snd xy)) (combine A B).
Definition zipsub (A B : poly) : poly := map (fun xy => sub_ (fst xy) (snd xy)) (combine A B).
(* rows 1.. of stdmidmul: for bi = Q[n-1-t] != 0, R[j] += P[t+j]*bi *)
Fixpoint mid_rows (R Pt rq : poly) : poly :=
  match rq, Pt with
  | bq :: rq', _ :: Pt' => mid_rows (if is0 bq then R else addshift R 0 (map (fun a => mul_ a bq) Pt)) Pt' rq'
  | _, _ => R
  end.
(* stdmidmul on ranges; PRECONDITION of the code: Q non-empty, the result range has |P|-|Q|+1 entries *)
Definition stdmidmul_r (P Q : poly) : poly :=
  let nR := length P - length Q + 1 in
  match rev Q with
  | [] => zeros nR
  | bl :: rq =>
    let row0 := if is0 bl then map (fun _ => O_) P else map (fun a => if is0 a then O_ else mul_ a bl) P in
    mid_rows (resize nR row0) (tl P) rq
  end.
(* karamidmul on ranges (balanced: |P| = 2|Q|-1); rec = the recursive dynamic choice midmul(R,Rbeg,Rend,P,..,Q,..) *)
Definition karamidmul_body (rec : poly -> poly -> poly) (P Q : poly) : poly :=
  match length Q with
  | O => []
  | S O => [mul_ (coef P 0) (coef Q 0)]
  | n =>
    let n0 := Nat.div2 n in let n1 := n - n0 in
    let Q0 := firstn n0 Q in let Q1 := skipn n0 Q in
    let R0 := rec (zipadd (slice P 0 (2 * n1 - 1)) (slice P n1 (2 * n1 - 1))) Q1 in       (* S0 = MP(P1+ + P0, Q1) *)
    let R1 := rec (zipadd (slice P n1 (2 * n0 - 1)) (skipn (2 * n1) P)) Q0 in             (* S1 = MP(P1- + P2, Q0) *)
    let T3 := if n0 =? n1 then zipsub Q1 Q0
              else match Q1 with [] => [] | q :: Q1' => q :: zipsub Q1' Q0 end in        (* Q1 - X^(n%2) Q0 *)
    let S2 := rec (slice P n1 (2 * n1 - 1)) T3 in                                         (* S2 = MP(P1+, Q1 - X^(n%2) Q0) *)
    subshift R0 0 S2 ++ addshift R1 0 S2
  end.
(* the m > n loop: blocks i = 0, n, 2n, ... while i <= m-n *)
Fixpoint midmul_blocks (kb : poly -> poly -> poly) (P Q : poly) (n i cnt : nat) : poly :=
  match cnt with
  | O => []
  | S c => kb (slice P i (2 * n - 1)) Q ++ midmul_blocks kb P Q n (i + n) c
  end.
(* the m < n loop: Tmp = karamidmul(P[Pe-(2m-1),Pe), Q[Qb,Qb+m)); R += Tmp; Pe -= m; Qb += m *)
Fixpoint midmul_acc (kb : poly -> poly -> poly) (R P Q : poly) (m pe qb cnt : nat) : poly :=
  match cnt with
  | O => R
  | S c => midmul_acc kb (addshift R 0 (kb (slice P (pe - (2 * m - 1)) (2 * m - 1)) (slice Q qb m))) P Q m (pe - m) (qb + m) c
  end.
Fixpoint midmul_r (fuel thr : nat) (P Q : poly) : poly :=
  match fuel with
  | O => stdmidmul_r P Q
  | S f =>
    let n := length Q in let m := length P - n + 1 in
    let kb := karamidmul_body (midmul_r f thr) in
    if Nat.min m n <=? thr then stdmidmul_r P Q
    else if m =? n then kb P Q
    else if n <? m then
      let k := (m - n) / n + 1 in
      midmul_blocks kb P Q n 0 k ++ (if k * n <? m then midmul_r f thr (skipn (k * n) P) Q else [])
    else
      let R0 := kb (slice P (length P - (2 * m - 1)) (2 * m - 1)) (firstn m Q) in
      let k := (n - m) / m in                                          (* iterations with Qb <= Qend-m, Qb = m, 2m, ... *)
      let R1 := midmul_acc kb R0 P Q m (length P - m) m k in
      let qb := m + k * m in let pe := length P - m - k * m in
      if qb <? n then addshift R1 0 (midmul_r f thr (firstn pe P) (skipn qb Q)) else R1
  end.
(* public midmul(R,P,Q), stdmidmul(R,P,Q), karamidmul(R,P,Q) (PRECONDITION: |P| >= |Q| >= 1; |P| = 2|Q|-1 for karamidmul) *)
Definition midmul (thr : nat) (P Q : poly) : poly :=
  match P, Q with
  | [], _ | _, [] => []
  | _, _ => setdegree (midmul_r (length P) thr P Q)
  end.
Definition stdmidmul (P Q : poly) : poly := setdegree (stdmidmul_r P Q).
Definition karamidmul (thr : nat) (P Q : poly) : poly := setdegree (karamidmul_body (midmul_r (length P) thr) P Q).

(* ---------------- givpoly1muldiv.inl: Newton inverse, division ---------------- *)
Section WithThr.
Variables (kthr sthr : nat).
Definition newtoninviter (G A : poly) (i : nat) : poly :=
  let S := sqr kthr sthr G in
  let G2 := addin G G in
  let Ar := firstn (Nat.min i (length A)) A in
  let Am := mul_r (length Ar) kthr i Ar S in
  subin G2 Am.
Fixpoint invmodpowx_loop (fuel : nat) (G A : poly) (i l : nat) : poly :=
  match fuel with
  | O => G
  | S f => if i <? l then invmodpowx_loop f (newtoninviter G A i) A (2 * i) l else G
  end.
Definition invmodpowx (A : poly) (l : nat) : poly :=
  let G0 := [dinv D (coef A 0)] in
  newtoninviter (invmodpowx_loop l G0 A 2 l) A l.

(* degree(degB,B); degree(degA,A) normalise B and A IN PLACE (const_cast in givpoly1misc.inl:degree),
   so everything after them, in div and in its callers, sees the stripped vectors *)
Definition div (A0 B0 : poly) : poly :=
  let A := setdegree A0 in let B := setdegree B0 in
  let degB := degree B in
  let degA := degree A in
  if (degA <? degB)%Z then []
  else if (degB =? 0)%Z then div_s A (coef B 0)
  else
    let degX := Z.to_nat (degA - degB + 1) in
    let Tb := reverse B in
    let S := invmodpowx Tb degX in
    let Ta := reverse A in
    let Q := mul_r (length S) kthr degX S Ta in
    setdegree (rev Q).                                        (* reversein *)
Definition pmulK := mul kthr.
Definition maxpy (a b c : poly) : poly := sub_pub c (pmulK a b).   (* axpy.inl: r = c - a*b *)
Definition divmod (A0 B0 : poly) : poly * poly :=
  let A := setdegree A0 in let B := setdegree B0 in      (* stripped in place by div's degree() calls *)
  let Q := div A B in (Q, maxpy Q B A).
Definition mod_ (A B : poly) : poly := snd (divmod A B).
Definition divmodin (R0 B0 : poly) : poly * poly :=
  let R := setdegree R0 in let B := setdegree B0 in
  let Q := div R B in (Q, subin R (pmulK Q B)).                (* maxpyin *)

(* modin(A,B): in-place long division on the reversed vectors.  State: a = rev A, i. *)
(* first inner loop: skip the leading zeros of the new remainder (each one decrements i) *)
Fixpoint modin_scan (l : T) (a b : poly) (i : Z) : poly * Z :=
  match b, a with
  | bk :: b', ar :: a' =>
    let c := sub_ ar (mul_ l bk) in
    if is0 c then modin_scan l a' b' (i - 1)
    else (c :: (map (fun xy => sub_ (fst xy) (mul_ l (snd xy))) (combine a' b') ++ skipn (length b') a'), i)
  | _, _ => (a, i)                          (* b exhausted: the rest of a is copied *)
  end.
Definition modin_step (a b : poly) (i : Z) : poly * Z :=
  match a, b with
  | a0 :: a', b0 :: b' =>
    let l := ddiv a0 b0 in
    let '(w, i') := modin_scan l a' b' i in
    (* w written from position 0, then one zero, the rest of the vector keeps its old content *)
    (w ++ O_ :: skipn (S (length w)) a, i')
  | _, _ => (a, i)
  end.
Fixpoint modin_loop (fuel : nat) (a b : poly) (i : Z) : poly * Z :=
  match fuel with
  | O => (a, i)
  | S f => if (0 <=? i)%Z then let '(a', i') := modin_step a b i in modin_loop f a' b (i' - 1)
           else (a, i)
  end.
Definition modin (A B : poly) : poly :=
  let i := (Z.of_nat (length A) - Z.of_nat (length B))%Z in
  if (0 <=? i)%Z then
    let '(a, i') := modin_loop (S (length A)) (rev A) (rev B) i in
    let er := (Z.of_nat (length A) - Z.of_nat (length B) - i')%Z in     (* erased from the front of A *)
    setdegree (rev (firstn (length A - Z.to_nat er) a))
  else setdegree A.

(* list update R[i] := v *)
Fixpoint upd (R : poly) (i : nat) (v : T) : poly :=
  match R, i with
  | [], _ => []
  | _ :: R', O => v :: R'
  | r :: R', S i' => r :: upd R' i' v
  end.
(* pdivmod: returns (Q, R, m) *)
Fixpoint pdivmod_inner (R : poly) (B : poly) (lB q : T) (degQuo j cnt : nat) : poly :=
  match cnt with
  | O => R
  | S c => let v := sub_ (mul_ (coef R (j + degQuo)) lB) (mul_ q (coef B j)) in
           pdivmod_inner (upd R (j + degQuo) v) B lB q degQuo (S j) c
  end.
Fixpoint pdivmod_loop (steps : nat) (Q R B : poly) (lB m : T) (degB degQuo degRem : nat) : poly * poly * T :=
  match steps with
  | O => (Q, R, m)
  | S s =>
    let q := coef R degRem in
    (* REPAIRED (frag/C08.fix-5.diff): the quotient terms already computed are multiplied by lB as well *)
    let Q0 := upd Q degQuo q in
    let Q1 := firstn (S degQuo) Q0 ++ map (fun a => mul_ a lB) (skipn (S degQuo) Q0) in
    let R1 := map (fun a => mul_ a lB) (firstn degQuo R) ++ skipn degQuo R in
    let R2 := pdivmod_inner R1 B lB q degQuo 0 degB in
    let R3 := upd R2 degRem O_ in
    pdivmod_loop s Q1 R3 B lB (mul_ m lB) degB (degQuo - 1) (degRem - 1)
  end.
Definition pdivmod (A B : poly) : poly * poly * T :=
  let degB := degree B in let degA := degree A in
  if (degA =? -1)%Z then ([], [], I_)
  else if (degB =? 0)%Z then (assign A, [], coef B 0)
  else if (degA =? 0)%Z then ([], assign A, I_)      (* REPAIRED (frag/C08.fix-4.diff): the code returns R = 0 *)
  else if (degA <? degB)%Z then ([], assign A, I_)
  else
    let dQ := Z.to_nat (degA - degB) in
    let dR := Z.to_nat degA in
    let dB := Z.to_nat degB in
    let '(Q, R, m) := pdivmod_loop (S dQ) (zeros (S dQ)) (assign A) B (coef B dB) I_ dB dQ dR in
    (* R.resize(degRem+1) with degRem = degA - degQuo - 1 = degB - 1 *)
    (setdegree Q, setdegree (resize dB R), m).
(* pmod(R,m,A,B) *)
Fixpoint dom_pow (a : T) (n : nat) : T := match n with O => I_ | S n' => mul_ a (dom_pow a n') end.
Fixpoint pmod_inner (R B : poly) (lB lr : T) (d j cnt : nat) : poly :=
  match cnt with
  | O => R
  | S c => let v := sub_ (mul_ (coef R (j + d)) lB) (mul_ lr (coef B j)) in
           pmod_inner (upd R (j + d) v) B lB lr d (S j) c
  end.
(* REPAIRED (frag/C08.fix-6.diff): m is multiplied by lB once per elimination step, like R; the code set
   m = lB^(degA-degB+1) up front, which is wrong whenever a step lowers the degree by more than one *)
Fixpoint pmod_loop (fuel : nat) (R B : poly) (lB m : T) (dB : nat) (degR : Z) : poly * Z * T :=
  match fuel with
  | O => (R, degR, m)
  | S f =>
    if (Z.of_nat dB <=? degR)%Z then
      let dR := Z.to_nat degR in
      let d := dR - dB in
      let R1 := pmod_inner R B lB (coef R dR) d 0 dB in
      let R2 := map (fun a => mul_ a lB) (firstn d R1) ++ skipn d R1 in
      let R3 := upd R2 dR O_ in
      pmod_loop f (setdegree R3) B lB (mul_ m lB) dB (degree R3)          (* degree(degR,R) normalises R *)
    else (R, degR, m)
  end.
Definition pmod (A B : poly) : poly * T :=
  let degB := degree B in let degA := degree A in
  if (degA =? -1)%Z then ([], I_)
  else if (degB =? 0)%Z then ([], coef B 0)
  else if (degA =? 0)%Z then (assign A, I_)          (* REPAIRED (frag/C08.fix-4.diff) *)
  else if (degA <? degB)%Z then (assign A, I_)
  else
    let dB := Z.to_nat degB in
    let lB := coef B dB in
    let '(R, degR, m) := pmod_loop (S (Z.to_nat degA)) (assign A) B lB I_ dB degA in
    (setdegree (resize (Z.to_nat (degR + 1)) R), m).

(* ---------------- givpoly1gcd.inl ---------------- *)
Fixpoint gcd_loop (fuel : nat) (U G : poly) : poly :=
  match fuel with
  | O => G
  | S f => match setdegree (mod_ U G) with
           | [] => G
           | R => gcd_loop f G R
           end
  end.
Definition gcd (P Q : poly) : poly :=
  let degU := degree P in let degG := degree Q in
  if (degU <? 0)%Z || (degG =? 0)%Z then assign Q
  else if (degG <? 0)%Z || (degU =? 0)%Z then assign P
  else
    let '(U, G) := if (degG <=? degU)%Z then (assign P, assign Q) else (assign Q, assign P) in
    let G' := gcd_loop (S (length G)) U G in
    if (degree G' <=? 0)%Z then const I_ else G'.

Definition lc1 (R1 : poly) : T := let r := leadcoef R1 in if is0 r then I_ else r.
(* extended Euclid loop of gcd(F,S0,T0,A,B), lcm: state (F,G,S0,S1,T0,T1) *)
Fixpoint egcd_loop (fuel : nat) (F G S0 S1 T0 T1 : poly) : poly * poly * poly * poly * poly * poly :=
  match fuel with
  | O => (F, G, S0, S1, T0, T1)
  | S f =>
    if isZero G then (F, G, S0, S1, T0, T1)
    else
      let '(Q, R1) := divmod F G in
      let r1 := lc1 R1 in
      let F' := assign G in
      let G' := div_s R1 r1 in
      let S1' := div_s (sub_pub S0 (pmulK Q S1)) r1 in
      let T1' := div_s (sub_pub T0 (pmulK Q T1)) r1 in
      egcd_loop f F' G' (assign S1) S1' (assign T1) T1'
  end.
(* gcd(F,S0,T0,A,B): returns (F,S0,T0) *)
Definition gcdext (A B : poly) : poly * poly * poly :=
  let degF := degree A in let degG := degree B in
  if (degF <? 0)%Z || (degG =? 0)%Z then
    let tt := dinv D (leadcoef B) in (mul_s (assign B) tt, [], const tt)
  else if (degG <? 0)%Z || (degF =? 0)%Z then
    let tt := dinv D (leadcoef A) in (mul_s (assign A) tt, const tt, [])
  else
    let r0 := leadcoef A in let r1 := leadcoef B in
    let F := div_s (assign A) r0 in let G := div_s (assign B) r1 in
    let '(F', _, S0, _, T0, _) :=
        egcd_loop (S (length G)) F G (const (dinv D r0)) [] [] (const (dinv D r1)) in
    (F', S0, T0).
(* invmod(S0,A,B) *)
Fixpoint invmod_loop (fuel : nat) (F G S0 S1 : poly) : poly :=
  match fuel with
  | O => S0
  | S f =>
    if isZero G then S0
    else
      let '(Q, R1) := divmod F G in
      let r1 := lc1 R1 in
      invmod_loop f (assign G) (div_s R1 r1) (assign S1) (div_s (sub_pub S0 (pmulK Q S1)) r1)
  end.
Definition invmod (A B : poly) : poly :=
  let degF := degree A in let degG := degree B in
  if (degF <=? 0)%Z || (degG <=? 0)%Z then const (dinv D (leadcoef A))
  else
    let r0 := leadcoef A in let r1 := leadcoef B in
    let F := div_s (assign A) r0 in let G := div_s (assign B) r1 in
    invmod_loop (S (length G)) F G (const (dinv D r0)) [].
Fixpoint invmodunit_loop (fuel : nat) (F G S0 S1 : poly) : poly :=
  match fuel with
  | O => S0
  | S f =>
    if isZero G then S0
    else
      let '(Q, R1) := divmod F G in
      invmodunit_loop f (assign G) (assign R1) (assign S1) (assign (sub_pub S0 (pmulK Q S1)))
  end.
Definition invmodunit (A B : poly) : poly :=
  if (degree A <=? 0)%Z || (degree B <=? 0)%Z then const I_
  else invmodunit_loop (S (length B)) (assign A) (assign B) (const I_) [].
(* lcm(F,A,B) as written *)
Definition lcm (A B : poly) : poly :=
  let degA := degree A in let degB := degree B in
  if (degA <? 0)%Z then const O_
  else if (degB <? 0)%Z then const O_
  else if (degB =? 0)%Z then assign A
  else if (degA =? 0)%Z then assign B
  else
    let '(F, G) := if (degB <=? degA)%Z then (assign A, assign B) else (assign B, assign A) in
    let r0 := leadcoef F in let r1 := leadcoef G in
    let '(_, G', _, S1, _, T1) :=
        egcd_loop (S (length G)) (div_s F r0) (div_s G r1) (const (dinv D r0)) [] [] (const (dinv D r1)) in
    if (degree G' <=? 0)%Z then
      (* S1*F0 + T1*G0 = 0 with (F0,G0) = (A,B) or (B,A): REPAIRED (frag/C08.fix-2.diff; the code returns T1*B) *)
      (if (degB <=? degA)%Z then pmulK S1 A else pmulK T1 A)
    else pmulK A B.

(* ---------------- givpoly1misc.inl: pow, powmod ---------------- *)
(* while (p != 0) { if (p&1) W = W*puiss2; if ((p >>= 1) != 0) puiss2 = puiss2^2 (with mul) } *)
Fixpoint pow_pos (W pu : poly) (p : positive) : poly :=
  match p with
  | xH => assign (pmulK W pu)
  | xO p' => pow_pos W (assign (pmulK pu pu)) p'
  | xI p' => pow_pos (assign (pmulK W pu)) (assign (pmulK pu pu)) p'
  end.
Definition pow (P : poly) (n : N) : poly :=
  match n with N0 => assign [I_] | Npos p => pow_pos (assign [I_]) (assign P) p end.
(* while (n>0) { if (n&1) { mulin(W,puiss); modin(W,U); } sqr(tmp,puiss); mod(puiss,tmp,U); n >>= 1; } *)
Fixpoint powmod_pos (W pu U : poly) (p : positive) : poly :=
  match p with
  | xH => modin (mulin kthr W pu) U
  | xO p' => powmod_pos W (mod_ (sqr kthr sthr pu) U) U p'
  | xI p' => powmod_pos (modin (mulin kthr W pu) U) (mod_ (sqr kthr sthr pu) U) U p'
  end.
(* e0red: how the source initialises W (read from givpoly1misc.inl by the check on every run): `assign(W,one)` (false, the code
   as written: 1 also for a non-zero constant modulus) or `mod(W, one, U)` (true, frag/C08.fix-12.diff) *)
Definition powmod (e0red : bool) (P : poly) (n : N) (U0 : poly) : poly :=
  let U := setdegree U0 in                  (* mod(puiss,P,U) strips P and U in place before the loop *)
  match n with
  | N0 => if e0red then setdegree (mod_ [I_] U) else setdegree (assign [I_])
  | Npos p => setdegree (powmod_pos (if e0red then mod_ [I_] U else assign [I_]) (mod_ P U) U p)     (* W starts from mod(W,one,U) *)
  end.

(* isDivisor(P,Q): Q | P *)
Definition isDivisor (P Q : poly) : bool := if isZero Q then isZero P else isZero (mod_ P Q).
(* modpowx / modpowxin: resize(l); setdegree *)
Definition modpowx (A : poly) (l : nat) : poly := setdegree (resize l (assign A)).
(* div(R,u,P), mod(R,u,P): scalar dividend *)
Definition div_sp (u : T) (P : poly) : poly :=
  if is0 u then [] else if 1 <? length P then [] else setdegree [ddiv u (coef P 0)].
Definition mod_sp (u : T) (P : poly) : poly := if 1 <? length P then setdegree [u] else [].
(* mul(R,P,Q,Val,deg): coefficients Val..deg of the product, by the double loop of the code *)
Fixpoint trunc_row (P Q : poly) (j : nat) (k : Z) (cnt : nat) (acc : T) : T :=
  match cnt with
  | O => acc
  | S c => if (j <? length P) && (0 <=? k)%Z
           then trunc_row P Q (S j) (k - 1) c (add_ acc (mul_ (coef P j) (coef Q (Z.to_nat k))))
           else acc
  end.
Definition mul_trunc (P Q : poly) (v d : nat) : poly :=
  match P, Q with
  | [], _ | _, [] => []
  | _, _ =>
    let sQ := length Q in
    setdegree (map (fun i => let k := i + v in
                             if sQ <=? k then trunc_row P Q (k - (sQ - 1)) (Z.of_nat (sQ - 1)) (length P) O_
                             else trunc_row P Q 0 (Z.of_nat k) (length P) O_)
                   (seq 0 (d - v + 1)))
  end.
(* givpoly1cyclo.inl: power_compose(W,P,b) = P(X^b); REPAIRED (frag/C08.fix-7.diff): the zero polynomial gives 0 *)
Definition power_compose (P : poly) (b : nat) : poly :=
  match setdegree P with
  | [] => []
  | N => let dp := length N - 1 in
         setdegree (map (fun i => if (Nat.modulo i b =? 0) && (Nat.div i b <=? dp) then coef N (Nat.div i b) else O_)
                        (seq 0 (b * dp + 1)))
  end.

(* ---------------- givinterp.h: Interpolation::operator()(x,f) and interpolator() ---------------- *)
(* state: inter, Pi, Points (in push order), DD (in push order) *)
Fixpoint dd_update (x : T) (prev : T) (DDr Pr : list T) : list T :=   (* on the reversed vectors, next = DDr *)
  match DDr, Pr with
  | nx :: DDr', pt :: Pr' => let nx' := ddiv (sub_ nx prev) (sub_ pt x) in nx' :: dd_update x nx' DDr' Pr'
  | _, _ => DDr
  end.
Definition interp_step (st : poly * poly * list T * list T) (xf : T * T) : poly * poly * list T * list T :=
  let '(inter, Pi, Pts, DD) := st in
  let '(x, f) := xf in
  let DD1 := DD ++ [f] in
  let '(Pi', DD2) :=
      match DD with
      | [] => (Pi, DD1)
      | _ => let M := mul_s Pi (last Pts O_) in
             (subin (O_ :: Pi) M, rev (f :: dd_update x f (rev DD) (rev Pts)))
      end in
  let M2 := mul_s Pi' (hd O_ DD2) in
  (addin inter M2, Pi', Pts ++ [x], DD2).
Definition interpolate (xs fs : list T) : poly :=
  let '(inter, _, _, _) := fold_left interp_step (combine xs fs) ([], [I_], [], []) in inter.

Fixpoint axpy_s_raw (a : T) (x y : poly) : poly :=                               (* a*x + y entrywise *)
  match x, y with
  | [], _ => y
  | _, [] => map (mul_ a) x
  | xi :: x', yi :: y' => add_ (mul_ a xi) yi :: axpy_s_raw a x' y'
  end.
(* axpy(r,a,x,y), axpyin(r,a,x) with a scalar a: REPAIRED (frag/C08.fix-11.diff) to end in setdegree *)
Definition axpy_s (a : T) (x y : poly) : poly := setdegree (axpy_s_raw a x y).
(* ---------------- givpoly1crt.h: ComputeCk, RingToRns, RnsToRing ---------------- *)
Fixpoint crt_ck (prod : poly) (prev : T) (rest : list T) : list poly :=     (* _ck[1..Size-1] *)
  match rest with
  | [] => []
  | pk :: rest' =>
    let prod' := assign (pmulK prod [neg_ prev; I_]) in                    (* mulin(prod, X - primes[k-1]) *)
    mul_s prod' (dinv D (eval prod' pk)) :: crt_ck prod' pk rest'
  end.
Fixpoint crt_fold (I : poly) (pts : list T) (rns : list T) (cks : list poly) : poly :=
  match pts, rns, cks with
  | pi :: pts', ri :: rns', ck :: cks' =>
    let addon := add_ (neg_ (eval I pi)) ri in
    crt_fold (axpy_s addon ck I) pts' rns' cks'      (* axpyin(I, addon, _ck[i]) *)
  | _, _, _ => I
  end.
Definition crt_toring (pts rns : list T) : poly :=
  match pts, rns with
  | p0 :: pts', r0 :: rns' => crt_fold (monomial 0 r0) pts' rns' (crt_ck [I_] p0 pts')
  | _, _ => []
  end.
Definition crt_torns (pts : list T) (a : poly) : list T := map (eval a) pts.

(* ---------------- givpoly1axpy.inl ---------------- *)
Definition axpy (a x y : poly) : poly := addin (pmulK a x) y.                 (* addin(mul(r,a,x),y) *)
Definition axpyin (r a x : poly) : poly := axpy a x (assign r).
Definition axpyin_s (r : poly) (a : T) (x : poly) : poly := axpy_s a x r.
Definition maxpyin (r a b : poly) : poly := subin r (pmulK a b).
Definition maxpyin_s (r : poly) (a : T) (b : poly) : poly := subin r (mul_s b a).
Definition axmy (a x y : poly) : poly := subin (pmulK a x) y.
Definition axmy_s (a : T) (x y : poly) : poly := subin (mul_s x a) y.
Definition axmyin (r a x : poly) : poly := neg (maxpyin r a x).
Definition axmyin_s (r : poly) (a : T) (x : poly) : poly := neg (maxpyin_s r a x).
End WithThr.
(* shiftin(R,s) / shift(R,a,s): multiply by X^s; the empty vector stays empty *)
Definition shiftin (R : poly) (s : nat) : poly := match R with [] => [] | _ => zeros s ++ R end.
(* getEntry(c,i,P): degree(dP,P) strips P in place first *)
Definition getEntry (P : poly) (i : nat) : T := if (degree P <? Z.of_nat i)%Z then O_ else coef (setdegree P) i.
(* setEntry(P,c,i) on the vector stripped by degree(dP,P) *)
Definition setEntry (P0 : poly) (c : T) (i : nat) : poly :=
  let P := setdegree P0 in let dP := degree P in
  if is0 c then
    if (dP <? Z.of_nat i)%Z then P
    else if (dP =? Z.of_nat i)%Z then setdegree (upd P i c)
    else upd P i c
  else upd (if (dP <? Z.of_nat i)%Z then resize (S i) P else P) i c.
(* val(d,P): index of the first non-zero coefficient; -1 for the empty vector, 0 when no entry is non-zero *)
Fixpoint val_from (P : poly) (i : nat) : Z :=
  match P with [] => 0%Z | a :: P' => if is0 a then val_from P' (S i) else Z.of_nat i end.
Definition val (P : poly) : Z := match P with [] => (-1)%Z | _ => val_from P 0 end.
(* maxpy(r,a,b,c) with a scalar a: r = c - a*b *)
Fixpoint maxpy_s_raw (a : T) (b c : poly) : poly :=
  match b, c with
  | [], _ => c
  | _, [] => map (fun x => neg_ (mul_ a x)) b
  | bi :: b', ci :: c' => sub_ ci (mul_ a bi) :: maxpy_s_raw a b' c'
  end.
Definition maxpy_s (a : T) (b c : poly) : poly :=
  match b, c with
  | [], _ => c
  | _, [] => neg (mul_s b a)
  | _, _ => setdegree (maxpy_s_raw a b c)
  end.
(* mod(R,P,u), modin(R,u) with a scalar divisor: the zero polynomial *)
Definition mod_ps (P : poly) (u : T) : poly := zeros 0.
End Model.

(* ---------------- instance used by the correspondence run: Z/pZ, p prime (Modular<int32_t>) ---------------- *)
Local Open Scope Z_scope.
Fixpoint zpowm (a : Z) (e : positive) (p : Z) : Z :=
  match e with
  | xH => a mod p
  | xO e' => let r := zpowm a e' p in (r * r) mod p
  | xI e' => let r := zpowm a e' p in (a * ((r * r) mod p)) mod p
  end.
(* inverse mod p by the extended Euclidean algorithm (r0,r1,s0,s1): s0*a = r0 (mod p) *)
Fixpoint zinv_loop (fuel : nat) (r0 r1 s0 s1 : Z) : Z :=
  match fuel with
  | O => s0
  | S f => if r1 =? 0 then s0 else let q := r0 / r1 in zinv_loop f r1 (r0 - q * r1) s1 (s0 - q * s1)
  end.
Definition zinv (a p : Z) : Z := (zinv_loop (S (Z.to_nat (Z.log2 p)) * 2) (a mod p) p 1 0) mod p.
Definition ZpDom (p : Z) : Dom Z :=
  mkDom Z 0 (1 mod p) (fun a b => (a + b) mod p) (fun a b => (a - b) mod p) (fun a b => (a * b) mod p)
        (fun a => (- a) mod p) (fun a => if a =? 0 then 0 else zinv a p)
        (fun a => a =? 0).

(* the Z-level wrappers extracted for the correspondence run are in Fp.v (they run over FpDom, the subset-type instance for
   which the field laws are proved; ZpDom above is kept as the plain-integer description of the same arithmetic) *)
