(* C08: coefficient semantics of the building blocks of the model (setdegree, resize, shifts, ranges) and the
   correctness of the schoolbook product on ranges (stdmul_r). *)
From Coq Require Import List Arith Lia Setoid Morphisms Ring Bool.
From C08 Require Import Model Spec.
Import ListNotations.

Section Basic.
Context {T : Type} (D : Dom T) (OK : FieldOK D).
Local Notation O_ := (d0 D).
Local Notation I_ := (d1 D).
Local Notation "a + b" := (dadd D a b).
Local Notation "a * b" := (dmul D a b).
Local Notation "a - b" := (dsub D a b).
Local Notation "- a" := (dneg D a).
Local Notation coef := (coef D).
Local Notation peq := (peq D).
Local Notation pmul := (pmul D).
Add Ring Tring2 : (Trt D OK).

Lemma is0_true : forall a, dis0 D a = true -> a = O_.
Proof. intros a H. apply (f_is0 D OK). assumption. Qed.
Lemma is0_false : forall a, dis0 D a = false -> a <> O_.
Proof. intros a H E. apply (f_is0 D OK) in E. congruence. Qed.
Lemma mul_0_r : forall a, a * O_ = O_.
Proof. intros. ring. Qed.
Lemma mul_0_l : forall a, O_ * a = O_.
Proof. intros. ring. Qed.

(* ---- setdegree *)
Lemma coef_setdegree : forall P i, coef (setdegree D P) i = coef P i.
Proof.
  induction P as [|a P IH]; intros i. reflexivity.
  cbn [setdegree]. destruct (setdegree D P) as [|b L] eqn:E.
  - destruct (dis0 D a) eqn:Ea.
    + destruct i. rewrite coef_nil, coef_cons_0. symmetry. apply is0_true. assumption.
      rewrite coef_cons_S, <- IH, !coef_nil. reflexivity.
    + destruct i. reflexivity. rewrite !coef_cons_S, <- IH, !coef_nil. reflexivity.
  - destruct i. reflexivity. rewrite !coef_cons_S. apply IH.
Qed.
Lemma setdegree_peq : forall P, peq (setdegree D P) P.
Proof. intros P i. apply coef_setdegree. Qed.
Lemma length_setdegree : forall P, length (setdegree D P) <= length P.
Proof.
  induction P as [|a P IH]. auto. cbn [setdegree length].
  destruct (setdegree D P) as [|b L]. destruct (dis0 D a); cbn [length]; lia. cbn [length] in *. lia.
Qed.
(* normal form: no leading zero coefficient *)
Definition normal (L : list T) : Prop := L = [] \/ last L O_ <> O_.
Lemma setdegree_normal : forall P, normal (setdegree D P).
Proof.
  induction P as [|a P IH]. left. reflexivity.
  cbn [setdegree]. destruct (setdegree D P) as [|b L] eqn:E.
  - destruct (dis0 D a) eqn:Ea. left. reflexivity. right. cbn [last]. apply is0_false. assumption.
  - right. destruct IH as [IH|IH]. discriminate. exact IH.
Qed.
Lemma setdegree_zero : forall P, (forall i, coef P i = O_) -> setdegree D P = [].
Proof.
  induction P as [|a P IH]; intros H. reflexivity.
  cbn [setdegree]. rewrite IH.
  - assert (Ha : a = O_) by (apply (H 0)). replace (dis0 D a) with true. reflexivity.
    symmetry. apply (f_is0 D OK). assumption.
  - intros i. apply (H (S i)).
Qed.
Lemma isZero_spec : forall P, isZero D P = true <-> peq P [].
Proof.
  intros P. unfold isZero. split.
  - destruct (setdegree D P) eqn:E; [intros _|discriminate].
    intros i. rewrite <- coef_setdegree, E. reflexivity.
  - intros H. rewrite setdegree_zero. reflexivity. intros i. rewrite (H i). apply coef_nil.
Qed.

(* ---- zeros, resize, firstn, skipn *)
Lemma length_zeros : forall n, length (zeros D n) = n.
Proof. intros. apply repeat_length. Qed.
Lemma coef_zeros : forall n i, coef (zeros D n) i = O_.
Proof.
  induction n; intros i. apply coef_nil. destruct i. reflexivity. cbn [zeros repeat]. rewrite coef_cons_S. apply IHn.
Qed.
Lemma coef_app : forall P Q i, coef (P ++ Q) i = if i <? length P then coef P i else coef Q (i - length P).
Proof.
  intros. unfold Model.coef. destruct (Nat.ltb_spec i (length P)).
  apply app_nth1. assumption. apply app_nth2. assumption.
Qed.
Lemma coef_firstn : forall k P i, coef (firstn k P) i = if i <? k then coef P i else O_.
Proof.
  induction k; intros P i. apply coef_nil.
  destruct P as [|a P]. rewrite firstn_nil, coef_nil. destruct (i <? S k); reflexivity.
  cbn [firstn]. destruct i. reflexivity. rewrite !coef_cons_S, IHk. reflexivity.
Qed.
Lemma coef_skipn : forall k P i, coef (skipn k P) i = coef P (k + i).
Proof.
  induction k; intros P i. reflexivity.
  destruct P as [|a P]. rewrite skipn_nil, !coef_nil. reflexivity.
  cbn [skipn plus]. rewrite coef_cons_S. apply IHk.
Qed.
Lemma length_resize : forall n P, length (resize D n P) = n.
Proof. intros. unfold resize. rewrite app_length, firstn_length, length_zeros. lia. Qed.
Lemma coef_resize : forall n P i, coef (resize D n P) i = if i <? n then coef P i else O_.
Proof.
  intros. unfold resize. rewrite coef_app, firstn_length, coef_firstn, coef_zeros.
  destruct (Nat.ltb_spec i (Nat.min n (length P))); destruct (Nat.ltb_spec i n); try reflexivity; try lia.
  symmetry. apply coef_ge. lia.
Qed.

(* ---- shifts *)
Lemma length_addshift : forall R k L, length (addshift D R k L) = length R.
Proof.
  induction R as [|r R IH]; intros k L. reflexivity.
  destruct k; cbn [addshift].
  - destruct L. reflexivity. cbn [length]. rewrite IH. reflexivity.
  - cbn [length]. rewrite IH. reflexivity.
Qed.
Lemma coef_addshift : forall R k L i,
  coef (addshift D R k L) i = if (k <=? i) && (i <? length R) then coef R i + coef L (i - k) else coef R i.
Proof.
  induction R as [|r R IH]; intros k L i.
  - cbn [addshift length]. rewrite andb_false_r. reflexivity.
  - destruct k; cbn [addshift].
    + destruct L as [|l L].
      * rewrite coef_nil. destruct ((0 <=? i) && (i <? length (r :: R))); [ring|reflexivity].
      * destruct i. reflexivity. rewrite !coef_cons_S, IH. cbn [length]. rewrite Nat.sub_0_r.
        change (S i <? S (length R)) with (i <? length R). cbn [Nat.leb andb]. reflexivity.
    + destruct i. reflexivity. rewrite !coef_cons_S, IH. reflexivity.
Qed.
Lemma length_subshift : forall R k L, length (subshift D R k L) = length R.
Proof.
  induction R as [|r R IH]; intros k L. reflexivity.
  destruct k; cbn [subshift].
  - destruct L. reflexivity. cbn [length]. rewrite IH. reflexivity.
  - cbn [length]. rewrite IH. reflexivity.
Qed.
Lemma coef_subshift : forall R k L i,
  coef (subshift D R k L) i = if (k <=? i) && (i <? length R) then coef R i - coef L (i - k) else coef R i.
Proof.
  induction R as [|r R IH]; intros k L i.
  - cbn [subshift length]. rewrite andb_false_r. reflexivity.
  - destruct k; cbn [subshift].
    + destruct L as [|l L].
      * rewrite coef_nil. destruct ((0 <=? i) && (i <? length (r :: R))); [ring|reflexivity].
      * destruct i. reflexivity. rewrite !coef_cons_S, IH. cbn [length]. rewrite Nat.sub_0_r.
        change (S i <? S (length R)) with (i <? length R). cbn [Nat.leb andb]. reflexivity.
    + destruct i. reflexivity. rewrite !coef_cons_S, IH. reflexivity.
Qed.

(* ---- subtraction forms *)
Lemma coef_subin : forall R P i, coef (subin D R P) i = coef R i - coef P i.
Proof.
  intros R P i. unfold subin. destruct P as [|p P].
  - rewrite coef_nil. ring.
  - destruct R as [|r R].
    + rewrite coef_setdegree, (coef_neg D OK), coef_nil. ring.
    + rewrite coef_setdegree. apply (coef_sub D OK).
Qed.
Lemma coef_subin_range : forall R P i, coef (subin_range D R P) i = coef R i - coef P i.
Proof.
  intros R P i. unfold subin_range. destruct P as [|p P].
  - rewrite coef_nil. ring.
  - destruct (length R <? length (p :: P)); rewrite ?coef_setdegree; apply (coef_sub D OK).
Qed.
Lemma length_sub : forall P Q, length (sub D P Q) = Nat.max (length P) (length Q).
Proof.
  induction P as [|a P IH]; intros Q.
  - destruct Q; cbn [sub]. reflexivity. unfold neg. rewrite map_length. reflexivity.
  - destruct Q as [|b Q]; cbn [sub length]. reflexivity. rewrite IH. reflexivity.
Qed.

(* ---- overwrite *)
Lemma length_overwrite : forall (R : list T) off (L : list T), off <= length R -> length (overwrite R off L) = length R.
Proof.
  intros. unfold overwrite. rewrite !app_length, !firstn_length, skipn_length. lia.
Qed.
Lemma coef_overwrite : forall (R : list T) off (L : list T) i, off <= length R ->
  coef (overwrite R off L) i =
  if i <? off then coef R i else if (i <? off + length L) && (i <? length R) then coef L (i - off) else coef R i.
Proof.
  intros R off L i H. unfold overwrite.
  rewrite coef_app, firstn_length, coef_firstn. replace (Nat.min off (length R)) with off by lia.
  destruct (Nat.ltb_spec i off). reflexivity.
  rewrite coef_app, firstn_length, coef_firstn, coef_skipn.
  destruct (Nat.ltb_spec (i - off) (Nat.min (length R - off) (length L))).
  - destruct (Nat.ltb_spec (i - off) (length R - off)); [|lia].
    destruct (Nat.ltb_spec i (off + length L)); [|lia]. destruct (Nat.ltb_spec i (length R)); [|lia]. reflexivity.
  - destruct (Nat.ltb_spec i (off + length L)); destruct (Nat.ltb_spec i (length R)); cbn [andb]; try lia.
    + rewrite !coef_ge by lia. reflexivity.
    + f_equal. lia.
    + rewrite !coef_ge by lia. reflexivity.
Qed.

(* ---- the schoolbook product on ranges *)
Lemma length_stdmul_rows : forall P R k Q, length (stdmul_rows D R k P Q) = length R.
Proof.
  induction P as [|a P IH]; intros R k Q. reflexivity.
  cbn [stdmul_rows]. rewrite IH. destruct (dis0 D a). reflexivity. apply length_addshift.
Qed.
Lemma coef_stdmul_rows : forall P R k Q i, i < length R ->
  coef (stdmul_rows D R k P Q) i = coef R i + (if k <=? i then coef (pmul P Q) (i - k) else O_).
Proof.
  induction P as [|a P IH]; intros R k Q i Hi.
  - cbn [stdmul_rows Spec.pmul]. rewrite coef_nil. destruct (k <=? i); ring.
  - cbn [stdmul_rows]. rewrite IH.
    2:{ destruct (dis0 D a). assumption. rewrite length_addshift. assumption. }
    assert (E : coef (if dis0 D a then R else addshift D R k (map (dmul D a) Q)) i
                = coef R i + (if k <=? i then a * coef Q (i - k) else O_)).
    { destruct (dis0 D a) eqn:Ea.
      - apply is0_true in Ea. subst a. destruct (k <=? i); ring.
      - rewrite coef_addshift. fold (pscale D a Q). rewrite (coef_pscale D OK).
        destruct (Nat.leb_spec k i); destruct (Nat.ltb_spec i (length R)); cbn [andb]; try lia; ring. }
    rewrite E. rewrite (coef_pmul_cons D OK).
    destruct (Nat.leb_spec k i); destruct (Nat.leb_spec (S k) i); try lia.
    + replace (i - k)%nat with (S (i - S k))%nat by lia. ring.
    + replace (i - k)%nat with 0%nat by lia. ring.
    + ring.
Qed.
Lemma length_stdmul_r : forall n P Q, length (stdmul_r D n P Q) = n.
Proof.
  intros n P Q. unfold stdmul_r. destruct n. reflexivity.
  destruct P as [|a P]. apply length_zeros. rewrite length_stdmul_rows, length_resize. reflexivity.
Qed.
Lemma coef_stdmul_r : forall n P Q i, i < n -> coef (stdmul_r D n P Q) i = coef (pmul P Q) i.
Proof.
  intros n P Q i Hi. unfold stdmul_r. destruct n. lia.
  destruct P as [|a P].
  - rewrite coef_zeros. cbn [Spec.pmul]. rewrite coef_nil. reflexivity.
  - rewrite coef_stdmul_rows by (rewrite length_resize; assumption).
    rewrite coef_resize. destruct (Nat.ltb_spec i (S n)); [|lia].
    rewrite (coef_pmul_cons D OK).
    assert (E : forall j, coef (if dis0 D a then map (fun _ => O_) Q
                                 else map (fun b => if dis0 D b then O_ else a * b) Q) j = a * coef Q j).
    { intros j. revert j. induction Q as [|b Q IHQ]; intros j.
      - destruct (dis0 D a); cbn [map]; rewrite coef_nil; ring.
      - destruct j.
        + destruct (dis0 D a) eqn:Ea; cbn [map]; rewrite !coef_cons_0.
          * apply is0_true in Ea. subst a. ring.
          * destruct (dis0 D b) eqn:Eb. apply is0_true in Eb. subst b. ring. reflexivity.
        + destruct (dis0 D a) eqn:Ea; cbn [map]; rewrite !coef_cons_S; apply IHQ. }
    rewrite E. destruct i.
    + cbn [Nat.leb]. ring.
    + cbn [Nat.leb]. rewrite Nat.sub_succ, Nat.sub_0_r. reflexivity.
Qed.
End Basic.
