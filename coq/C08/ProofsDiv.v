(* C08: division identity A = B*Q + R for divmod (every threshold >= 1), Bezout identity for the extended
   Euclidean loop of gcd(F,S0,T0,A,B) (every fuel, every threshold >= 1), normal forms. *)
From Coq Require Import List Arith Lia Setoid Morphisms Ring Bool ZArith.
From C08 Require Import Model Spec ProofsBasic ProofsKara.
Import ListNotations.

Section Div.
Context {T : Type} (D : Dom T) (OK : FieldOK D).
Local Notation O_ := (d0 D).
Local Notation I_ := (d1 D).
Local Notation coef := (coef D).
Local Notation peq := (peq D).
Local Notation pmul := (pmul D).
Local Notation padd := (add D).
Local Notation psub := (sub D).
Local Notation pneg := (neg D).
Add Ring Tring4 : (Trt D OK).

(* peq sealed in an inductive so that setoid rewriting does not see through it *)
Inductive eqv (P Q : list T) : Prop := eqv_intro : peq P Q -> eqv P Q.
Lemma eqv_peq : forall P Q, eqv P Q -> peq P Q.
Proof. intros P Q [H]. exact H. Qed.
Instance eqv_equiv : Equivalence eqv.
Proof.
  split.
  - intros P. constructor. reflexivity.
  - intros P Q [H]. constructor. symmetry. exact H.
  - intros P Q R [H1] [H2]. constructor. etransitivity; eassumption.
Qed.
Instance eqv_add : Proper (eqv ==> eqv ==> eqv) padd.
Proof. intros P P' [H] Q Q' [H']. constructor. apply (padd_proper D OK); assumption. Qed.
Instance eqv_sub : Proper (eqv ==> eqv ==> eqv) psub.
Proof. intros P P' [H] Q Q' [H']. constructor. apply (psub_proper D OK); assumption. Qed.
Instance eqv_mul : Proper (eqv ==> eqv ==> eqv) pmul.
Proof. intros P P' [H] Q Q' [H']. constructor. apply (pmul_proper D OK); assumption. Qed.
Instance eqv_neg : Proper (eqv ==> eqv) pneg.
Proof. intros P P' [H]. constructor. apply (pneg_proper D OK); assumption. Qed.
Lemma eqv_ring : ring_theory (R := list T) [] [I_] padd pmul psub pneg eqv.
Proof.
  destruct (poly_ring D OK). constructor; intros; constructor; auto.
Qed.
Lemma eqv_ext : ring_eq_ext padd pmul pneg eqv.
Proof. constructor; [exact eqv_add | exact eqv_mul | exact eqv_neg]. Qed.
Add Ring Ering : eqv_ring (setoid eqv_equiv eqv_ext).
(* the same structure under the model's name of the carrier (poly := list T), for goals typed that way *)
Lemma eqv_ring_poly : ring_theory (R := @poly T) [] [I_] padd pmul psub pneg eqv.
Proof. exact eqv_ring. Qed.
Add Ring EringP : eqv_ring_poly (setoid eqv_equiv eqv_ext).

(* ---- facts about the building blocks, as eqv *)
Lemma setdegree_eqv : forall P, eqv (setdegree D P) P.
Proof. intros. constructor. apply setdegree_peq. assumption. Qed.
Lemma mul_eqv : forall thr P Q, 1 <= thr -> eqv (mul D thr P Q) (pmul P Q).
Proof. intros. constructor. apply mul_spec; assumption. Qed.
Lemma coef_mul_s : forall P u i, coef (mul_s D P u) i = dmul D u (coef P i).
Proof.
  intros P u i. unfold mul_s. rewrite (coef_setdegree D OK). revert i.
  induction P as [|a P IH]; intros i.
  - cbn [map]. rewrite coef_nil. ring.
  - destruct i; cbn [map]. rewrite !coef_cons_0. ring. rewrite !coef_cons_S. apply IH.
Qed.
Lemma mul_s_eqv : forall P u, eqv (mul_s D P u) (pmul [u] P).
Proof.
  intros P u. constructor. intros i. rewrite coef_mul_s, (coef_pmul_cons D OK).
  destruct i; cbn [Spec.pmul]; rewrite ?coef_nil; ring.
Qed.
Lemma coef_div_s : forall P u i, coef (div_s D P u) i = dmul D (dinv D u) (coef P i).
Proof.
  intros P u i. unfold div_s. rewrite (coef_setdegree D OK). revert i.
  induction P as [|a P IH]; intros i.
  - cbn [map]. rewrite coef_nil. ring.
  - destruct i; cbn [map]. rewrite !coef_cons_0. unfold ddiv. ring. rewrite !coef_cons_S. apply IH.
Qed.
Lemma div_s_eqv : forall P u, eqv (div_s D P u) (pmul [dinv D u] P).
Proof.
  intros P u. constructor. intros i. rewrite coef_div_s, (coef_pmul_cons D OK).
  destruct i; cbn [Spec.pmul]; rewrite ?coef_nil; ring.
Qed.
Lemma const_eqv : forall c, eqv (const D c) [c].
Proof.
  intros c. constructor. unfold const, monomial. destruct (dis0 D c) eqn:E.
  - apply is0_true in E; [|assumption]. subst c. intros [|i]. reflexivity. rewrite coef_cons_S, !coef_nil. reflexivity.
  - reflexivity.
Qed.
Lemma sub_pub_eqv : forall P Q, eqv (sub_pub D P Q) (psub P Q).
Proof.
  intros P Q. constructor. intros i. unfold sub_pub.
  destruct P as [|a P]; destruct Q as [|b Q]; rewrite ?(coef_setdegree D OK); reflexivity.
Qed.
Lemma subin_eqv : forall R P, eqv (subin D R P) (psub R P).
Proof. intros. constructor. intros i. rewrite (coef_subin D OK), (coef_sub D OK). reflexivity. Qed.

(* ---- division identity: divmod returns (Q,R) with A = B*Q + R, for every A, B, every threshold >= 1.
   (deg R < deg B rests on the Newton inverse and is tied by the correspondence run, not proved here.) *)
Lemma divmod_identity : forall kthr sthr A B, 1 <= kthr ->
  peq A (padd (pmul B (fst (divmod D kthr sthr A B))) (snd (divmod D kthr sthr A B))).
Proof.
  intros kthr sthr A B Hk. apply eqv_peq. unfold divmod. cbn [fst snd]. unfold maxpy, pmulK.
  set (Q := div D kthr sthr (setdegree D A) (setdegree D B)).
  rewrite sub_pub_eqv, (mul_eqv kthr Q (setdegree D B) Hk), (setdegree_eqv A), (setdegree_eqv B). ring.
Qed.
Lemma divmodin_identity : forall kthr sthr A B, 1 <= kthr ->
  peq A (padd (pmul B (fst (divmodin D kthr sthr A B))) (snd (divmodin D kthr sthr A B))).
Proof.
  intros kthr sthr A B Hk. apply eqv_peq. unfold divmodin. cbn [fst snd]. unfold pmulK.
  set (Q := div D kthr sthr (setdegree D A) (setdegree D B)).
  rewrite subin_eqv, (mul_eqv kthr Q (setdegree D B) Hk), (setdegree_eqv A), (setdegree_eqv B). ring.
Qed.

(* ---- Bezout: the invariant of the extended Euclidean loop *)
Definition bez (A B F G S0 S1 T0 T1 : list T) : Prop :=
  eqv F (padd (pmul S0 A) (pmul T0 B)) /\ eqv G (padd (pmul S1 A) (pmul T1 B)).

Lemma egcd_loop_bez : forall kthr sthr A B, 1 <= kthr -> forall fuel F G S0 S1 T0 T1,
  bez A B F G S0 S1 T0 T1 ->
  let '(F', G', S0', S1', T0', T1') := egcd_loop D kthr sthr fuel F G S0 S1 T0 T1 in
  bez A B F' G' S0' S1' T0' T1'.
Proof.
  intros kthr sthr A B Hk. induction fuel as [|f IH]; intros F G S0 S1 T0 T1 [HF HG].
  - cbn [egcd_loop]. split; assumption.
  - cbn [egcd_loop]. destruct (isZero D G). split; assumption.
    pose proof (divmod_identity kthr sthr F G Hk) as Hd.
    destruct (divmod D kthr sthr F G) as [Q R1] eqn:Edm. cbn [fst snd] in Hd.
    apply IH. unfold bez, assign, pmulK. generalize (lc1 D R1). intros r1. split.
    + rewrite setdegree_eqv, setdegree_eqv, setdegree_eqv. exact HG.
    + assert (HR : eqv R1 (psub F (pmul G Q))).
      { assert (HF' : eqv F (padd (pmul G Q) R1)) by (constructor; exact Hd). rewrite HF'. ring. }
      rewrite !div_s_eqv, !sub_pub_eqv, !(mul_eqv kthr _ _ Hk), HR, HF, HG. ring.
Qed.

Lemma leadcoef_unused : True. Proof. exact I. Qed.

(* gcd(F,S0,T0,A,B): F = S0*A + T0*B for all A, B *)
Lemma gcdext_bezout : forall kthr sthr A B, 1 <= kthr ->
  let '(F, S0, T0) := gcdext D kthr sthr A B in
  peq F (padd (pmul S0 A) (pmul T0 B)).
Proof.
  intros kthr sthr A B Hk. unfold gcdext.
  destruct ((degree D A <? 0)%Z || (degree D B =? 0)%Z).
  { apply eqv_peq. unfold assign. rewrite mul_s_eqv, const_eqv, setdegree_eqv. ring. }
  destruct ((degree D B <? 0)%Z || (degree D A =? 0)%Z).
  { apply eqv_peq. unfold assign. rewrite mul_s_eqv, const_eqv, setdegree_eqv. ring. }
  set (r0 := leadcoef D A). set (r1 := leadcoef D B).
  pose proof (egcd_loop_bez kthr sthr A B Hk (S (length (div_s D (assign D B) r1)))
                (div_s D (assign D A) r0) (div_s D (assign D B) r1) (const D (dinv D r0)) [] [] (const D (dinv D r1))) as H.
  destruct (egcd_loop D kthr sthr (S (length (div_s D (assign D B) r1))) (div_s D (assign D A) r0)
              (div_s D (assign D B) r1) (const D (dinv D r0)) [] [] (const D (dinv D r1)))
    as [[[[[F' G'] S0'] S1'] T0'] T1'].
  apply eqv_peq. apply H. unfold bez, assign. split.
  - rewrite div_s_eqv, const_eqv, setdegree_eqv. ring.
  - rewrite div_s_eqv, const_eqv, setdegree_eqv. ring.
Qed.

(* ---- the public add/sub: value = specification, result in normal form for operands in normal form *)
Lemma add_pub_peq : forall P Q, peq (add_pub D P Q) (padd P Q).
Proof.
  intros P Q i. unfold add_pub. destruct P as [|a P]; destruct Q as [|b Q]; rewrite ?(coef_setdegree D OK); reflexivity.
Qed.
Lemma neg_eq_0 : forall a, dneg D a = O_ -> a = O_.
Proof.
  intros a H. assert (E : dadd D a (dneg D a) = O_) by ring. rewrite H in E. rewrite <- E. ring.
Qed.
Lemma last_map_neg : forall Q, last (neg D Q) O_ = dneg D (last Q (dneg D O_)).
Proof.
  induction Q as [|b Q IH]. cbn. ring.
  destruct Q as [|c Q]. reflexivity. change (neg D (b :: c :: Q)) with (dneg D b :: neg D (c :: Q)).
  change (last (dneg D b :: neg D (c :: Q)) O_) with (last (neg D (c :: Q)) O_). rewrite IH. reflexivity.
Qed.
Lemma neg_normal : forall Q, normal D Q -> normal D (neg D Q).
Proof.
  intros Q [H|H]. left. subst. reflexivity.
  destruct Q as [|b Q]. left. reflexivity. right. rewrite last_map_neg. intros E. apply neg_eq_0 in E.
  apply H. rewrite <- E. clear. revert b. induction Q as [|c Q IH]; intros b. reflexivity.
  change (last (b :: c :: Q) O_) with (last (c :: Q) O_). change (last (b :: c :: Q) (dneg D O_)) with (last (c :: Q) (dneg D O_)). apply IH.
Qed.
Lemma add_pub_normal : forall P Q, normal D P -> normal D Q -> normal D (add_pub D P Q).
Proof.
  intros P Q HP HQ. unfold add_pub. destruct P as [|a P]. exact HQ. destruct Q as [|b Q]. exact HP.
  apply setdegree_normal. assumption.
Qed.
Lemma sub_pub_normal : forall P Q, normal D P -> normal D Q -> normal D (sub_pub D P Q).
Proof.
  intros P Q HP HQ. unfold sub_pub. destruct P as [|a P]; destruct Q as [|b Q]; try exact HP.
  apply neg_normal. exact HQ. apply setdegree_normal. assumption.
Qed.

(* ---- results are in normal form; the zero polynomial is recognised *)
Lemma mul_normal : forall thr P Q, normal D (mul D thr P Q).
Proof.
  intros. unfold mul. destruct P. left; reflexivity. destruct Q. left; reflexivity. apply setdegree_normal. assumption.
Qed.
Lemma div_s_normal : forall P u, normal D (div_s D P u).
Proof. intros. apply setdegree_normal. assumption. Qed.
End Div.
