(* C08: deg R < deg B for divmod / divmodin / mod (every threshold pair >= 1): the remainder of the fast division
   (reverse, Newton inverse of rev B mod X^l, truncated product, reverse) has no coefficient from deg B on. *)
From Coq Require Import List Arith Lia Setoid Morphisms Ring Bool ZArith.
From C08 Require Import Model Spec ProofsBasic ProofsKara ProofsDiv ProofsSqr ProofsNewton ProofsRev.
Import ListNotations.

Section DivDeg.
Context {T : Type} (D : Dom T) (OK : FieldOK D).
Local Notation O_ := (d0 D).
Local Notation I_ := (d1 D).
Local Notation "a + b" := (dadd D a b).
Local Notation "a * b" := (dmul D a b).
Local Notation "a - b" := (dsub D a b).
Local Notation coef := (coef D).
Local Notation peq := (peq D).
Local Notation pmul := (pmul D).
Local Notation padd := (add D).
Local Notation psub := (sub D).
Local Notation len := (len D).
Add Ring Tring9 : (Trt D OK).

Section Thr.
Variables (kthr sthr : nat).
Hypothesis Hk : 1 <= kthr.
Hypothesis Hs : 1 <= sthr.

(* the Newton branch: A, B in normal form, 2 <= length B <= length A *)
Lemma div_newton_high : forall A B, normal D A -> normal D B -> 2 <= length B -> length B <= length A ->
  let l := (length A - length B + 1)%nat in
  let S := invmodpowx D kthr sthr (reverse D B) l in
  let Q' := mul_r D (length S) kthr l S (reverse D A) in
  forall k, length B - 1 <= k -> coef A k = coef (pmul B (rev Q')) k.
Proof.
  intros A B NA NB HB HAB l S Q' k Hkb.
  assert (HBne : B <> []) by (intros E; subst B; cbn in HB; lia).
  assert (HAne : A <> []) by (intros E; subst A; cbn in *; lia).
  destruct NB as [NB|NB]; [contradiction|]. destruct NA as [NA|NA]; [contradiction|].
  set (a := (length A - 1)%nat). set (b := (length B - 1)%nat).
  assert (Hl : l = (a - b + 1)%nat) by (unfold l, a, b; lia).
  (* Tb[0] <> 0 *)
  assert (HT0 : coef (reverse D B) 0 <> O_).
  { unfold reverse. rewrite (coef_setdegree D OK), (coef_rev D). destruct (Nat.ltb_spec 0 (length B)); [|lia].
    rewrite Nat.sub_0_r. rewrite <- (last_coef D) by assumption. exact NB. }
  pose proof (invmodpowx_spec D OK kthr sthr Hk Hs (reverse D B) l HT0) as HN. fold S in HN.
  destruct (mul_r_spec D OK (length S) kthr Hk l S (reverse D A)) as [HQl HQc]. fold Q' in HQl, HQc.
  (* rev B * Q' = rev A modulo X^l *)
  assert (H1 : forall t, t < l -> coef (pmul (rev B) Q') t = coef (rev A) t).
  { intros t Ht.
    transitivity (coef (pmul (reverse D B) Q') t).
    { apply (pmul_proper D OK). unfold reverse. symmetry. apply (setdegree_peq D OK). reflexivity. }
    transitivity (coef (pmul (reverse D B) (pmul S (reverse D A))) t).
    { apply (teq_mul_r D OK l); [|assumption]. intros u Hu. apply HQc. assumption. }
    rewrite (pmul_assoc D OK (reverse D B) S (reverse D A) t).
    transitivity (coef (pmul [I_] (reverse D A)) t).
    { apply (teq_mul_l D OK l); [|assumption]. exact HN. }
    rewrite (pmul_1_l D OK (reverse D A) t). unfold reverse. apply (coef_setdegree D OK). }
  destruct (Nat.le_gt_cases k a) as [Hka|Hka].
  - (* b <= k <= a *)
    assert (Ht : a - k < l) by lia.
    specialize (H1 (a - k)%nat Ht).
    rewrite (coef_rev D) in H1. destruct (Nat.ltb_spec (a - k) (length A)); [|lia].
    replace (length A - 1 - (a - k))%nat with k in H1 by lia.
    rewrite <- H1.
    rewrite <- (rev_involutive Q') at 1.
    rewrite (rev_pmul D OK B (rev Q') (a - k)%nat); rewrite ?rev_length; try lia.
    f_equal. lia.
  - (* k > a: both vanish *)
    rewrite (coef_ge D A k) by lia. symmetry. apply (coef_pmul_high D OK). rewrite rev_length. lia.
Qed.

(* for A, B in normal form, B <> 0: A - B * div(A,B) has no coefficient from position (length B - 1) on *)
Lemma div_high_normal : forall A B, normal D A -> normal D B -> 1 <= length B ->
  forall k, length B - 1 <= k -> coef A k = coef (pmul B (div D kthr sthr A B)) k.
Proof.
  intros A B NA NB LB k Hkb.
  unfold div. rewrite !(normal_setdegree_id D OK A NA), !(normal_setdegree_id D OK B NB).
  unfold degree. rewrite !(normal_setdegree_id D OK A NA), !(normal_setdegree_id D OK B NB).
  destruct (Z.ltb_spec (Z.of_nat (length A) - 1) (Z.of_nat (length B) - 1)) as [Hlt|Hge].
  - (* deg A < deg B: Q = 0 *)
    rewrite (pmul_nil_r D OK B k), coef_nil, (coef_ge D A k) by lia. reflexivity.
  - destruct (Z.eqb_spec (Z.of_nat (length B) - 1) 0) as [Hb0|Hb0].
    + (* B a non-zero constant: the division is exact *)
      assert (EB : exists b0, B = [b0]).
      { destruct B as [|b0 [|b1 B']]; cbn [length] in *; try lia. exists b0. reflexivity. }
      destruct EB as [b0 EB]. rewrite EB. rewrite coef_cons_0.
      assert (Nb : b0 <> O_).
      { destruct NB as [NB|NB]. rewrite EB in NB. discriminate. rewrite EB in NB. exact NB. }
      rewrite (coef_pmul_cons D OK). rewrite (coef_div_s D OK).
      assert (Z0 : match k with 0%nat => O_ | S j => coef (pmul [] (div_s D A b0)) j end = O_).
      { destruct k. reflexivity. cbn [Spec.pmul]. apply coef_nil. }
      rewrite Z0. pose proof (f_inv D OK b0 Nb) as HI.
      transitivity ((b0 * dinv D b0) * coef A k). rewrite HI. ring. ring.
    + (* Newton branch *)
      assert (HB2 : 2 <= length B) by lia. assert (HAB : length B <= length A) by lia.
      replace (Z.to_nat (Z.of_nat (length A) - 1 - (Z.of_nat (length B) - 1) + 1)) with (length A - length B + 1)%nat by lia.
      rewrite (pmul_proper D OK B B (reflexivity B) _ _ (setdegree_peq D OK _) k).
      apply (div_newton_high A B NA NB HB2 HAB k Hkb).
Qed.

(* the remainder A - Q*B has no coefficient from position (len B - 1) on *)
Lemma divmod_remainder_high : forall A B, isZero D B = false ->
  forall k, len B - 1 <= k -> coef (snd (divmod D kthr sthr A B)) k = O_.
Proof.
  intros A0 B0 HZ k Hkb. unfold divmod. cbn [snd]. unfold maxpy, pmulK.
  rewrite (eqv_peq D _ _ (sub_pub_eqv D OK _ _) k), (coef_sub D OK).
  rewrite (mul_spec D OK kthr _ _ Hk k), (pmul_comm D OK _ _ k).
  rewrite <- (div_high_normal (setdegree D A0) (setdegree D B0)).
  - ring.
  - apply (setdegree_normal D OK).
  - apply (setdegree_normal D OK).
  - apply (isZero_false_len D). exact HZ.
  - exact Hkb.
Qed.

Lemma degree_lt_of_high : forall R B, 1 <= len B -> (forall k, len B - 1 <= k -> coef R k = O_) ->
  (degree D R < degree D B)%Z.
Proof.
  intros R B HB H. rewrite !(degree_len D). apply (len_le_iff D OK) in H. lia.
Qed.

Lemma divmod_degree : forall A B, isZero D B = false ->
  (degree D (snd (divmod D kthr sthr A B)) < degree D B)%Z.
Proof.
  intros A B HZ. apply degree_lt_of_high. apply (isZero_false_len D). exact HZ.
  apply divmod_remainder_high. exact HZ.
Qed.

(* divmodin computes the same remainder value (R - Q*B through subin instead of sub) *)
Lemma divmodin_remainder_peq : forall A B, peq (snd (divmodin D kthr sthr A B)) (snd (divmod D kthr sthr A B)).
Proof.
  intros A B k. unfold divmodin, divmod. cbn [snd]. unfold maxpy, pmulK.
  rewrite (coef_subin D OK), (eqv_peq D _ _ (sub_pub_eqv D OK _ _) k), (coef_sub D OK). reflexivity.
Qed.
Lemma divmodin_degree : forall A B, isZero D B = false ->
  (degree D (snd (divmodin D kthr sthr A B)) < degree D B)%Z.
Proof.
  intros A B HZ. rewrite !(degree_len D). rewrite (len_peq D OK _ _ (divmodin_remainder_peq A B)).
  pose proof (divmod_degree A B HZ) as H. rewrite !(degree_len D) in H. exact H.
Qed.
End Thr.
End DivDeg.
