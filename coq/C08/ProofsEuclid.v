(* C08: the Euclidean loops terminate within their fuel (the degree of the remainder decreases: ProofsDivDeg), hence
   gcd(F,S0,T0,A,B) divides A and B, lcm is a common multiple, and gcd(G,P,Q) is a greatest common divisor -
   without any hypothesis on the run of the loop. *)
From Coq Require Import List Arith Lia Setoid Morphisms Ring Bool ZArith.
From C08 Require Import Model Spec ProofsBasic ProofsKara ProofsDiv ProofsSqr ProofsNewton ProofsRev ProofsDivDeg ProofsGcd.
Import ListNotations.

Section Euclid.
Context {T : Type} (D : Dom T) (OK : FieldOK D).
Local Notation O_ := (d0 D).
Local Notation I_ := (d1 D).
Local Notation coef := (coef D).
Local Notation peq := (peq D).
Local Notation pmul := (pmul D).
Local Notation padd := (add D).
Local Notation psub := (sub D).
Local Notation pneg := (neg D).
Local Notation eqv := (eqv D).
Local Notation dvd := (dvd D).
Local Notation len := (len D).
Local Notation dvd_zero := (ProofsGcd.dvd_zero D OK).
Local Notation dvd_refl := (ProofsGcd.dvd_refl D OK).
Local Notation isZero_eqv := (ProofsGcd.isZero_eqv D OK).
Local Instance e_equiv : Equivalence eqv := eqv_equiv D.
Local Instance e_add : Proper (eqv ==> eqv ==> eqv) padd := eqv_add D OK.
Local Instance e_sub : Proper (eqv ==> eqv ==> eqv) psub := eqv_sub D OK.
Local Instance e_mul : Proper (eqv ==> eqv ==> eqv) pmul := eqv_mul D OK.
Local Instance e_neg : Proper (eqv ==> eqv) pneg := eqv_neg D OK.
Add Ring Tring10 : (Trt D OK).
Add Ring EringE : (eqv_ring D OK) (setoid (eqv_equiv D) (eqv_ext D OK)).
Add Ring EringEP : (eqv_ring_poly D OK) (setoid (eqv_equiv D) (eqv_ext D OK)).

(* ---- divisibility toolbox *)
Lemma dvd_trans : forall X Y Z, dvd X Y -> dvd Y Z -> dvd X Z.
Proof. intros X Y Z [K HK] [L HL]. exists (pmul L K). rewrite HL, HK. ring. Qed.
Lemma dvd_eqv_l : forall X X' Y, eqv X X' -> dvd X' Y -> dvd X Y.
Proof. intros X X' Y H [K HK]. exists K. rewrite HK, H. reflexivity. Qed.
Lemma dvd_add : forall X Y Z, dvd X Y -> dvd X Z -> dvd X (padd Y Z).
Proof. intros X Y Z [K HK] [L HL]. exists (padd K L). rewrite HK, HL. ring. Qed.
Lemma dvd_sub : forall X Y Z, dvd X Y -> dvd X Z -> dvd X (psub Y Z).
Proof. intros X Y Z [K HK] [L HL]. exists (psub K L). rewrite HK, HL. ring. Qed.
Lemma dvd_mul_r : forall X Y Z, dvd X Y -> dvd X (pmul Y Z).
Proof. intros X Y Z [K HK]. exists (pmul K Z). rewrite HK. ring. Qed.
Lemma dvd_mul_l : forall X Y Z, dvd X Y -> dvd X (pmul Z Y).
Proof. intros X Y Z [K HK]. exists (pmul Z K). rewrite HK. ring. Qed.
Lemma scal_mul : forall x y, eqv (pmul [x] [y]) [dmul D x y].
Proof.
  intros x y. constructor. intros k. rewrite (coef_pmul_cons D OK).
  destruct k as [|k]. rewrite !coef_cons_0. ring.
  rewrite !coef_cons_S, !coef_nil. cbn [Spec.pmul]. rewrite coef_nil. ring.
Qed.
Lemma scal_inv : forall c, c <> O_ -> eqv (pmul [c] [dinv D c]) [I_].
Proof. intros c H. rewrite scal_mul, (f_inv D OK c H). reflexivity. Qed.
(* P = c * (P / c) for c <> 0 *)
Lemma div_s_scale : forall P c, c <> O_ -> eqv P (pmul [c] (div_s D P c)).
Proof.
  intros P c H. rewrite (div_s_eqv D OK).
  transitivity (pmul (pmul [c] [dinv D c]) P). rewrite (scal_inv c H). ring. ring.
Qed.
Lemma mul_s_inv_scale : forall P c, c <> O_ -> eqv P (pmul [c] (mul_s D P (dinv D c))).
Proof.
  intros P c H. rewrite (mul_s_eqv D OK).
  transitivity (pmul (pmul [c] [dinv D c]) P). rewrite (scal_inv c H). ring. ring.
Qed.
Lemma dvd_div_s : forall P c, c <> O_ -> dvd (div_s D P c) P.
Proof. intros P c H. exists [c]. apply div_s_scale. exact H. Qed.
(* scaling the divisor by a unit keeps divisibility *)
Lemma dvd_div_s_l : forall P c Y, c <> O_ -> dvd P Y -> dvd (div_s D P c) Y.
Proof. intros P c Y H HY. eapply dvd_trans. apply dvd_div_s. exact H. exact HY. Qed.
Lemma dvd_mul_s_inv_l : forall P c Y, c <> O_ -> dvd P Y -> dvd (mul_s D P (dinv D c)) Y.
Proof.
  intros P c Y H HY. eapply dvd_trans; [|exact HY]. exists [c]. apply mul_s_inv_scale. exact H.
Qed.
Lemma dvd_setdegree_l : forall P Y, dvd P Y -> dvd (setdegree D P) Y.
Proof. intros P Y H. eapply dvd_eqv_l. apply (setdegree_eqv D OK). exact H. Qed.
Lemma dvd_setdegree_r : forall X P, dvd X P -> dvd X (setdegree D P).
Proof. intros X P H. eapply dvd_eqv. apply (setdegree_eqv D OK). exact H. Qed.

(* ---- degrees *)
Lemma degree_neg_zero : forall P, (degree D P < 0)%Z -> eqv P [].
Proof.
  intros P H. apply isZero_eqv. unfold isZero. rewrite (degree_len D) in H. unfold ProofsRev.len in H.
  destruct (setdegree D P). reflexivity. cbn [length] in H. lia.
Qed.
Lemma degree_nonneg_nonzero : forall P, (0 <= degree D P)%Z -> isZero D P = false.
Proof.
  intros P H. unfold isZero. rewrite (degree_len D) in H. unfold ProofsRev.len in H.
  destruct (setdegree D P). cbn [length] in H. lia. reflexivity.
Qed.
Lemma leadcoef_nonzero : forall P, isZero D P = false -> leadcoef D P <> O_.
Proof.
  intros P H. unfold leadcoef. unfold isZero in H. destruct (setdegree_normal D OK P) as [E|E].
  rewrite E in H. discriminate. exact E.
Qed.
(* a polynomial of degree 0 is a non-zero constant; it divides everything *)
Lemma degree0_const : forall P, degree D P = 0%Z -> exists c, c <> O_ /\ eqv P [c].
Proof.
  intros P H. rewrite (degree_len D) in H. unfold ProofsRev.len in H.
  pose proof (setdegree_normal D OK P) as N. pose proof (setdegree_eqv D OK P) as E.
  destruct (setdegree D P) as [|c [|c' L]]; cbn [length] in H; try lia.
  exists c. split. destruct N as [N|N]. discriminate. exact N. symmetry. exact E.
Qed.
Lemma const_dvd_all : forall P Y, degree D P = 0%Z -> dvd P Y.
Proof.
  intros P Y H. destruct (degree0_const P H) as [c [Hc E]].
  exists (pmul [dinv D c] Y). rewrite E.
  transitivity (pmul (pmul [c] [dinv D c]) Y). rewrite (scal_inv c Hc). ring. ring.
Qed.

Lemma len_div_s_le : forall R u, len (div_s D R u) <= len R.
Proof.
  intros R u. apply (len_le_iff D OK). intros k Hk. rewrite (coef_div_s D OK).
  rewrite (proj1 (len_le_iff D OK R (len R)) (le_n _) k Hk). ring.
Qed.
Lemma length_div_s_le : forall R u, length (div_s D R u) <= length R.
Proof. intros. unfold div_s. etransitivity. apply (length_setdegree D). rewrite map_length. lia. Qed.

Section Thr.
Variables (kthr sthr : nat).
Hypothesis Hk : 1 <= kthr.
Hypothesis Hs : 1 <= sthr.

(* ---- termination: with more fuel than len G the extended loop ends on G = 0 *)
Lemma egcd_loop_reaches_zero : forall fuel F G S0 S1 T0 T1, len G < fuel ->
  let '(_, G', _, _, _, _) := egcd_loop D kthr sthr fuel F G S0 S1 T0 T1 in isZero D G' = true.
Proof.
  induction fuel as [|f IH]; intros F G S0 S1 T0 T1 HL. lia.
  cbn [egcd_loop]. destruct (isZero D G) eqn:EG. exact EG.
  pose proof (divmod_degree D OK kthr sthr Hk Hs F G EG) as HD.
  destruct (divmod D kthr sthr F G) as [Q R1]. cbn [snd] in HD.
  apply IH. rewrite !(degree_len D) in HD. pose proof (len_div_s_le R1 (lc1 D R1)). lia.
Qed.

(* ---- gcd(F,S0,T0,A,B): F divides A and B, for all A, B *)
Lemma gcdext_divides : forall A B,
  let '(F, _, _) := gcdext D kthr sthr A B in dvd F A /\ dvd F B.
Proof.
  intros A B. unfold gcdext.
  destruct ((degree D A <? 0)%Z || (degree D B =? 0)%Z) eqn:C1.
  { (* F = B / lc(B) *)
    destruct (isZero D B) eqn:ZB.
    - (* B = 0, hence A = 0 *)
      assert (EB : eqv B []) by (apply isZero_eqv; assumption).
      assert (EA : eqv A []).
      { apply degree_neg_zero. apply orb_true_iff in C1. destruct C1 as [C|C]. apply Z.ltb_lt. exact C.
        apply Z.eqb_eq in C. rewrite (degree_len D) in C. unfold ProofsRev.len, isZero in *.
        destruct (setdegree D B); [cbn in C; lia | discriminate]. }
      split; apply dvd_zero; assumption.
    - pose proof (leadcoef_nonzero B ZB) as NB.
      assert (DA : dvd B A).
      { apply orb_true_iff in C1. destruct C1 as [C|C].
        apply dvd_zero. apply degree_neg_zero. apply Z.ltb_lt. exact C.
        apply const_dvd_all. apply Z.eqb_eq. exact C. }
      unfold assign. split; apply dvd_mul_s_inv_l; try exact NB; apply dvd_setdegree_l. exact DA. apply dvd_refl. }
  destruct ((degree D B <? 0)%Z || (degree D A =? 0)%Z) eqn:C2.
  { (* F = A / lc(A); A <> 0 because the first test failed *)
    apply orb_false_iff in C1. destruct C1 as [C1a C1b]. apply Z.ltb_ge in C1a.
    pose proof (degree_nonneg_nonzero A C1a) as ZA. pose proof (leadcoef_nonzero A ZA) as NA.
    assert (DB : dvd A B).
    { apply orb_true_iff in C2. destruct C2 as [C|C].
      apply dvd_zero. apply degree_neg_zero. apply Z.ltb_lt. exact C.
      apply const_dvd_all. apply Z.eqb_eq. exact C. }
    unfold assign. split; apply dvd_mul_s_inv_l; try exact NA; apply dvd_setdegree_l. apply dvd_refl. exact DB. }
  (* main branch: both of degree >= 1 *)
  apply orb_false_iff in C1. destruct C1 as [C1a C1b]. apply Z.ltb_ge in C1a.
  apply orb_false_iff in C2. destruct C2 as [C2a C2b]. apply Z.ltb_ge in C2a.
  pose proof (leadcoef_nonzero A (degree_nonneg_nonzero A C1a)) as NA.
  pose proof (leadcoef_nonzero B (degree_nonneg_nonzero B C2a)) as NB.
  set (r0 := leadcoef D A) in *. set (r1 := leadcoef D B) in *.
  set (F0 := div_s D (assign D A) r0). set (G0 := div_s D (assign D B) r1).
  pose proof (egcd_loop_dvd D OK kthr sthr Hk (S (length G0)) F0 G0 (const D (dinv D r0)) [] [] (const D (dinv D r1))) as HD.
  pose proof (egcd_loop_reaches_zero (S (length G0)) F0 G0 (const D (dinv D r0)) [] [] (const D (dinv D r1))) as HZ.
  destruct (egcd_loop D kthr sthr (S (length G0)) F0 G0 (const D (dinv D r0)) [] [] (const D (dinv D r1)))
    as [[[[[F' G'] S0'] S1'] T0'] T1'].
  assert (L : len G0 < S (length G0)) by (pose proof (len_le_length D G0); lia).
  destruct (HD (HZ L)) as [H1 H2]. split.
  - eapply dvd_trans. exact H1. unfold F0, assign. apply dvd_div_s_l. exact NA. apply dvd_setdegree_l. apply dvd_refl.
  - eapply dvd_trans. exact H2. unfold G0, assign. apply dvd_div_s_l. exact NB. apply dvd_setdegree_l. apply dvd_refl.
Qed.

(* ---- lcm: the loop hypothesis of lcm_common_multiple always holds *)
Lemma lcm_loop_ends : forall A B, isZero D (lcm_loop_G D kthr sthr A B) = true.
Proof.
  intros A B. unfold lcm_loop_G, lcm_loop.
  destruct (degree D B <=? degree D A)%Z.
  - pose proof (egcd_loop_reaches_zero (S (length (assign D B))) (div_s D (assign D A) (leadcoef D (assign D A)))
                  (div_s D (assign D B) (leadcoef D (assign D B))) (const D (dinv D (leadcoef D (assign D A)))) [] []
                  (const D (dinv D (leadcoef D (assign D B))))) as H.
    destruct (egcd_loop D kthr sthr (S (length (assign D B))) (div_s D (assign D A) (leadcoef D (assign D A)))
                  (div_s D (assign D B) (leadcoef D (assign D B))) (const D (dinv D (leadcoef D (assign D A)))) [] []
                  (const D (dinv D (leadcoef D (assign D B))))) as [[[[[F' G'] S0'] S1'] T0'] T1'].
    apply H. pose proof (len_le_length D (div_s D (assign D B) (leadcoef D (assign D B)))).
    pose proof (length_div_s_le (assign D B) (leadcoef D (assign D B))). lia.
  - pose proof (egcd_loop_reaches_zero (S (length (assign D A))) (div_s D (assign D B) (leadcoef D (assign D B)))
                  (div_s D (assign D A) (leadcoef D (assign D A))) (const D (dinv D (leadcoef D (assign D B)))) [] []
                  (const D (dinv D (leadcoef D (assign D A))))) as H.
    destruct (egcd_loop D kthr sthr (S (length (assign D A))) (div_s D (assign D B) (leadcoef D (assign D B)))
                  (div_s D (assign D A) (leadcoef D (assign D A))) (const D (dinv D (leadcoef D (assign D B)))) [] []
                  (const D (dinv D (leadcoef D (assign D A))))) as [[[[[F' G'] S0'] S1'] T0'] T1'].
    apply H. pose proof (len_le_length D (div_s D (assign D A) (leadcoef D (assign D A)))).
    pose proof (length_div_s_le (assign D A) (leadcoef D (assign D A))). lia.
Qed.
Lemma lcm_common_multiple_full : forall A B, (1 <= degree D A)%Z -> (1 <= degree D B)%Z ->
  dvd A (lcm D kthr sthr A B) /\ dvd B (lcm D kthr sthr A B).
Proof.
  intros A B HA HB. apply (lcm_common_multiple D OK kthr sthr A B Hk HA HB). apply lcm_loop_ends.
Qed.

(* ---- gcd(G,P,Q): the plain Euclidean loop returns a greatest common divisor *)
Definition is_gcd (G P Q : list T) : Prop :=
  dvd G P /\ dvd G Q /\ forall X, dvd X P -> dvd X Q -> dvd X G.

Lemma gcd_loop_spec : forall fuel U G, len G < fuel -> isZero D G = false ->
  is_gcd (gcd_loop D kthr sthr fuel U G) U G /\ isZero D (gcd_loop D kthr sthr fuel U G) = false.
Proof.
  induction fuel as [|f IH]; intros U G HL HZ. lia.
  cbn [gcd_loop].
  pose proof (divmod_identity D OK kthr sthr U G Hk) as HI.
  pose proof (divmod_degree D OK kthr sthr Hk Hs U G HZ) as HD.
  unfold mod_. destruct (divmod D kthr sthr U G) as [Q R] eqn:EQ. cbn [fst snd] in *.
  assert (HU : eqv U (padd (pmul G Q) R)) by (constructor; exact HI).
  destruct (setdegree D R) as [|r R'] eqn:ER.
  - (* remainder 0 *)
    assert (R0 : eqv R []). { rewrite <- (setdegree_eqv D OK R), ER. reflexivity. }
    split; [|exact HZ]. split; [|split].
    + exists Q. rewrite HU, R0. ring.
    + apply dvd_refl.
    + intros X _ HX. exact HX.
  - assert (ZR : isZero D (r :: R') = false).
    { unfold isZero. rewrite <- ER, (setdegree_idem D OK), ER. reflexivity. }
    assert (LR : len (r :: R') < f).
    { rewrite !(degree_len D) in HD. unfold ProofsRev.len in *. rewrite <- ER, (setdegree_idem D OK). lia. }
    destruct (IH G (r :: R') LR ZR) as [[H1 [H2 H3]] H4]. split; [|exact H4].
    assert (ERR : eqv R (r :: R')). { rewrite <- ER. symmetry. apply (setdegree_eqv D OK). }
    split; [|split].
    + eapply dvd_eqv. exact HU. apply dvd_add. apply dvd_mul_r. exact H1. eapply dvd_eqv. exact ERR. exact H2.
    + exact H1.
    + intros X HXU HXG. apply H3. exact HXG. eapply dvd_eqv. symmetry. exact ERR.
      apply (dvd_eqv D X R (psub U (pmul G Q))). rewrite HU. ring. apply dvd_sub. exact HXU. apply dvd_mul_r. exact HXG.
Qed.

Lemma is_gcd_sym : forall G P Q, is_gcd G P Q -> is_gcd G Q P.
Proof. intros G P Q [H1 [H2 H3]]. split; [|split]; auto. Qed.
Lemma is_gcd_assign : forall G P Q, is_gcd G (assign D P) (assign D Q) -> is_gcd G P Q.
Proof.
  intros G P Q [H1 [H2 H3]]. unfold assign in *. split; [|split].
  - eapply dvd_eqv. symmetry. apply (setdegree_eqv D OK). exact H1.
  - eapply dvd_eqv. symmetry. apply (setdegree_eqv D OK). exact H2.
  - intros X HP HQ. apply H3; apply dvd_setdegree_r; assumption.
Qed.

Lemma gcd_is_gcd : forall P Q, is_gcd (gcd D kthr sthr P Q) P Q.
Proof.
  intros P Q. unfold gcd.
  destruct ((degree D P <? 0)%Z || (degree D Q =? 0)%Z) eqn:C1.
  { unfold assign. split; [|split].
    - apply dvd_setdegree_l. apply orb_true_iff in C1. destruct C1 as [C|C].
      apply dvd_zero. apply degree_neg_zero. apply Z.ltb_lt. exact C.
      apply const_dvd_all. apply Z.eqb_eq. exact C.
    - apply dvd_setdegree_l. apply dvd_refl.
    - intros X _ HX. apply dvd_setdegree_r. exact HX. }
  destruct ((degree D Q <? 0)%Z || (degree D P =? 0)%Z) eqn:C2.
  { unfold assign. split; [|split].
    - apply dvd_setdegree_l. apply dvd_refl.
    - apply dvd_setdegree_l. apply orb_true_iff in C2. destruct C2 as [C|C].
      apply dvd_zero. apply degree_neg_zero. apply Z.ltb_lt. exact C.
      apply const_dvd_all. apply Z.eqb_eq. exact C.
    - intros X HX _. apply dvd_setdegree_r. exact HX. }
  apply orb_false_iff in C1. destruct C1 as [C1a C1b]. apply Z.ltb_ge in C1a.
  apply orb_false_iff in C2. destruct C2 as [C2a C2b]. apply Z.ltb_ge in C2a.
  assert (ZP : isZero D (assign D P) = false).
  { unfold assign, isZero. rewrite (setdegree_idem D OK). apply (degree_nonneg_nonzero P C1a). }
  assert (ZQ : isZero D (assign D Q) = false).
  { unfold assign, isZero. rewrite (setdegree_idem D OK). apply (degree_nonneg_nonzero Q C2a). }
  assert (Main : forall U G, isZero D G = false -> is_gcd
             (if (degree D (gcd_loop D kthr sthr (S (length G)) U G) <=? 0)%Z then const D I_
              else gcd_loop D kthr sthr (S (length G)) U G) U G).
  { intros U G ZG. pose proof (len_le_length D G) as LL.
    destruct (gcd_loop_spec (S (length G)) U G ltac:(lia) ZG) as [[H1 [H2 H3]] H4].
    destruct (Z.leb_spec (degree D (gcd_loop D kthr sthr (S (length G)) U G)) 0) as [Hd|Hd]; [|split; [|split]; assumption].
    (* the loop ended on a non-zero constant c: 1 is a gcd too *)
    assert (Hd0 : degree D (gcd_loop D kthr sthr (S (length G)) U G) = 0%Z).
    { pose proof (isZero_false_len D _ H4). rewrite (degree_len D) in *. lia. }
    destruct (degree0_const _ Hd0) as [c [Hc Ec]].
    assert (E1 : eqv (const D I_) (pmul [dinv D c] (gcd_loop D kthr sthr (S (length G)) U G))).
    { rewrite (const_eqv D OK), Ec. rewrite <- (scal_inv c Hc). ring. }
    split; [|split].
    - eapply dvd_trans; [|exact H1]. exists [c]. rewrite E1, Ec.
      transitivity (pmul (pmul [c] [dinv D c]) [c]). rewrite (scal_inv c Hc). ring. ring.
    - eapply dvd_trans; [|exact H2]. exists [c]. rewrite E1, Ec.
      transitivity (pmul (pmul [c] [dinv D c]) [c]). rewrite (scal_inv c Hc). ring. ring.
    - intros X HXU HXG. eapply dvd_eqv. exact E1. destruct (H3 X HXU HXG) as [K HK]. exists (pmul [dinv D c] K). rewrite HK. ring. }
  destruct (degree D Q <=? degree D P)%Z.
  - apply is_gcd_assign. apply Main. exact ZQ.
  - apply is_gcd_sym. apply is_gcd_assign. apply Main. exact ZP.
Qed.
End Thr.
End Euclid.
