(* C08: the executable instance satisfies the hypotheses of the theorems: FieldOK (FpDom q) for every prime q.
   Leibniz equality on the subset type by uniqueness of boolean equality proofs (no axiom); the inverse is the
   extended-Euclid loop of Model.zinv, whose invariant (s_i * a = r_i mod p, gcd(r0,r1) = gcd(a,p)) and whose fuel
   2 (log2 p + 1) (the remainder at least halves every two steps) are proved here. *)
From Coq Require Import ZArith List Bool Lia Znumtheory Eqdep_dec.
From C08 Require Import Model Spec Fp.
Import ListNotations.
Local Open Scope Z_scope.

Lemma fp_eq : forall q (a b : Fp q), fv a = fv b -> a = b.
Proof.
  intros q [x hx] [y hy] H. cbn [fv proj1_sig] in H. subst y. f_equal. apply UIP_dec. apply bool_dec.
Qed.
Lemma fv_mk : forall q z, fv (mk q z) = z mod Zpos q.
Proof. reflexivity. Qed.
Lemma fv_range : forall q (a : Fp q), 0 <= fv a < Zpos q.
Proof.
  intros q [x hx]. cbn [fv proj1_sig]. unfold inr in hx. apply andb_prop in hx. destruct hx as [h1 h2].
  apply Z.leb_le in h1. apply Z.ltb_lt in h2. lia.
Qed.
Lemma fv_small : forall q (a : Fp q), fv a mod Zpos q = fv a.
Proof. intros. apply Z.mod_small. apply fv_range. Qed.

(* ---- the extended Euclidean loop *)
Section Zinv.
Variables (a p : Z).
Hypothesis Hp : 0 < p.

Lemma zinv_loop_spec : forall k fuel r0 r1 s0 s1, (2 * k <= fuel)%nat -> 0 <= r0 -> 0 <= r1 < 2 ^ Z.of_nat k ->
  (p | s0 * a - r0) -> (p | s1 * a - r1) ->
  (p | zinv_loop fuel r0 r1 s0 s1 * a - Z.gcd r0 r1).
Proof.
  induction k as [|k IH]; intros fuel r0 r1 s0 s1 Hf H0 H1 D0 D1.
  - assert (r1 = 0) by (cbn in H1; lia). subst r1. rewrite Z.gcd_0_r, Z.abs_eq by lia.
    destruct fuel; cbn [zinv_loop]. exact D0. exact D0.
  - destruct fuel as [|[|fuel]]; try lia.
    cbn [zinv_loop]. destruct (Z.eqb_spec r1 0) as [E|E].
    { subst r1. rewrite Z.gcd_0_r, Z.abs_eq by lia. exact D0. }
    set (r2 := r0 - r0 / r1 * r1). set (s2 := s0 - r0 / r1 * s1).
    assert (E2 : r2 = r0 mod r1). { unfold r2. rewrite Z.mod_eq by exact E. lia. }
    assert (B2 : 0 <= r2 < r1). { rewrite E2. apply Z.mod_pos_bound. lia. }
    assert (D2 : (p | s2 * a - r2)).
    { unfold s2, r2. replace ((s0 - r0 / r1 * s1) * a - (r0 - r0 / r1 * r1)) with ((s0 * a - r0) - (r0 / r1) * (s1 * a - r1)) by ring.
      apply Z.divide_sub_r. exact D0. apply Z.divide_mul_r. exact D1. }
    assert (G2 : Z.gcd r1 r2 = Z.gcd r0 r1).
    { rewrite E2. rewrite (Z.gcd_comm r1 (r0 mod r1)), Z.gcd_mod by exact E. apply Z.gcd_comm. }
    rewrite <- G2.
    destruct (Z.eqb_spec r2 0) as [E3|E3].
    { rewrite E3 in *. rewrite Z.gcd_0_r, Z.abs_eq by lia. exact D1. }
    set (r3 := r1 - r1 / r2 * r2). set (s3 := s1 - r1 / r2 * s2).
    assert (E4 : r3 = r1 mod r2). { unfold r3. rewrite Z.mod_eq by exact E3. lia. }
    assert (B3 : 0 <= r3 < r2). { rewrite E4. apply Z.mod_pos_bound. lia. }
    assert (Q1 : 1 <= r1 / r2). { apply Z.div_le_lower_bound; lia. }
    assert (B4 : 2 * r3 < r1). { unfold r3 in *. nia. }
    assert (D3 : (p | s3 * a - r3)).
    { unfold s3, r3. replace ((s1 - r1 / r2 * s2) * a - (r1 - r1 / r2 * r2)) with ((s1 * a - r1) - (r1 / r2) * (s2 * a - r2)) by ring.
      apply Z.divide_sub_r. exact D1. apply Z.divide_mul_r. exact D2. }
    assert (G3 : Z.gcd r2 r3 = Z.gcd r1 r2).
    { rewrite E4. rewrite (Z.gcd_comm r2 (r1 mod r2)), Z.gcd_mod by exact E3. apply Z.gcd_comm. }
    rewrite <- G3. apply IH; try assumption; try lia.
    split. lia. rewrite Nat2Z.inj_succ, Z.pow_succ_r in H1 by lia. lia.
Qed.

Lemma zinv_spec : prime p -> 0 < a < p -> (a * zinv a p) mod p = 1 mod p.
Proof.
  intros PR Ha. unfold zinv. rewrite Zmult_mod_idemp_r.
  assert (L : 0 <= p < 2 ^ Z.of_nat (S (Z.to_nat (Z.log2 p)))).
  { split. lia. rewrite Nat2Z.inj_succ, Z2Nat.id by apply Z.log2_nonneg. apply Z.log2_spec. lia. }
  pose proof (zinv_loop_spec (S (Z.to_nat (Z.log2 p))) (S (Z.to_nat (Z.log2 p)) * 2) (a mod p) p 1 0) as H.
  assert (G : Z.gcd (a mod p) p = 1).
  { rewrite Z.mod_small by lia. apply Zgcd_1_rel_prime. apply rel_prime_le_prime. exact PR. lia. }
  rewrite G in H. destruct H as [c Hc]; try lia.
  - apply Z.mod_pos_bound. lia.
  - exists (a / p). rewrite (Z.mod_eq a p) by lia. ring.
  - exists (-1). ring.
  - set (s := zinv_loop (S (Z.to_nat (Z.log2 p)) * 2) (a mod p) p 1 0) in *.
    replace (a * s) with (1 + c * p) by lia. rewrite Z.mod_add by lia. reflexivity.
Qed.
End Zinv.

(* ---- the field laws *)
Theorem FpDom_ok : forall q, prime (Zpos q) -> FieldOK (FpDom q).
Proof.
  intros q PR. set (p := Zpos q). assert (Hp : 0 < p) by reflexivity.
  constructor; cbn [d0 d1 dadd dsub dmul dneg dinv dis0 FpDom]; intros.
  - apply fp_eq. rewrite !fv_mk. rewrite Z.mod_0_l by lia. cbn [Z.add]. apply fv_small.
  - apply fp_eq. rewrite !fv_mk. f_equal. apply Z.add_comm.
  - apply fp_eq. rewrite !fv_mk. rewrite Zplus_mod_idemp_r, Zplus_mod_idemp_l. f_equal. apply Z.add_assoc.
  - apply fp_eq. rewrite !fv_mk. rewrite Zmult_mod_idemp_l, Z.mul_1_l. apply fv_small.
  - apply fp_eq. rewrite !fv_mk. f_equal. apply Z.mul_comm.
  - apply fp_eq. rewrite !fv_mk. rewrite Zmult_mod_idemp_r, Zmult_mod_idemp_l. f_equal. apply Z.mul_assoc.
  - apply fp_eq. rewrite !fv_mk. rewrite Zmult_mod_idemp_l, <- Zplus_mod. f_equal. ring.
  - apply fp_eq. rewrite !fv_mk. rewrite Zplus_mod_idemp_r. f_equal.
  - apply fp_eq. rewrite !fv_mk. rewrite Zplus_mod_idemp_r. f_equal. lia.
  - split; intros H.
    + apply Z.eqb_eq in H. apply fp_eq. rewrite fv_mk, Z.mod_0_l by lia. exact H.
    + subst a. rewrite fv_mk, Z.mod_0_l by lia. reflexivity.
  - apply fp_eq. rewrite !fv_mk.
    assert (Na : fv a <> 0). { intros E. apply H. apply fp_eq. rewrite fv_mk, Z.mod_0_l by lia. exact E. }
    destruct (Z.eqb_spec (fv a) 0); [contradiction|].
    rewrite Zmult_mod_idemp_r. apply zinv_spec. exact Hp. exact PR. pose proof (fv_range q a). fold p in H0. lia.
Qed.

(* 7 is prime: the instance hypothesis is satisfiable at a modulus of the correspondence run *)
Lemma prime_7 : prime 7.
Proof.
  apply prime_alt. split. lia. intros n Hn [k Hk].
  assert (C : n = 2 \/ n = 3 \/ n = 4 \/ n = 5 \/ n = 6) by lia.
  destruct C as [C|[C|[C|[C|C]]]]; subst n; lia.
Qed.
Example Fp7_ok : FieldOK (FpDom 7). Proof. apply FpDom_ok. exact prime_7. Qed.
