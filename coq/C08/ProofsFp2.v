(* C08: end-to-end corollaries about the EXTRACTED functions (the zp_* wrappers of Fp.v that the correspondence run executes):
   for a prime modulus, the integer lists they print are canonical residues and, read back as polynomials over the field
   Fp q, satisfy the statements of Properties.v - the theorems and the correspondence run meet at the same functions. *)
From Coq Require Import ZArith List Bool Lia Znumtheory.
From C08 Require Import Model Spec Fp ProofsFp ProofsBasic ProofsKara ProofsDiv ProofsDivDeg ProofsEuclid ProofsGcd ProofsProps.
Import ListNotations.

Lemma inl_outl : forall q (L : list (Fp q)), map (mk q) (outl L) = L.
Proof.
  intros q L. unfold outl. rewrite map_map. rewrite <- (map_id L) at 2. apply map_ext. intros a.
  apply fp_eq. rewrite fv_mk. apply fv_small.
Qed.
Lemma outl_canonical : forall q (L : list (Fp q)), Forall (fun z => (0 <= z < Zpos q)%Z) (outl L).
Proof. intros q L. unfold outl. apply Forall_forall. intros z Hz. apply in_map_iff in Hz. destruct Hz as [a [E _]]. subst z. apply fv_range. Qed.

Section EndToEnd.
Variable q : positive.
Hypothesis PR : prime (Zpos q).
Let p := Zpos q.
Let D := FpDom q.
Let OK : FieldOK D := FpDom_ok q PR.
Let I := map (mk q).      (* reading a printed integer list back as a polynomial over Fp q *)

(* the product printed by the extracted zp_mul is canonical and is the schoolbook product of the operands *)
Theorem zp_mul_end_to_end : forall (k : nat) A B, (1 <= k)%nat ->
  Forall (fun z => (0 <= z < p)%Z) (zp_mul p k A B) /\ peq D (I (zp_mul p k A B)) (pmul D (I A) (I B)).
Proof.
  intros k A B Hk. unfold zp_mul, FD, inl. cbn [qof p]. split. apply outl_canonical.
  unfold I. rewrite inl_outl. apply (mul_spec D OK). exact Hk.
Qed.

(* the pair printed by the extracted zp_divmod is canonical, A = B*Q + R and deg R < deg B (B <> 0 modulo q) *)
Theorem zp_divmod_end_to_end : forall (k s : nat) A B, (1 <= k)%nat -> (1 <= s)%nat -> isZero D (I B) = false ->
  let '(Q, R) := zp_divmod p k s A B in
  Forall (fun z => (0 <= z < p)%Z) Q /\ Forall (fun z => (0 <= z < p)%Z) R /\
  peq D (I A) (add D (pmul D (I B) (I Q)) (I R)) /\ (degree D (I R) < degree D (I B))%Z.
Proof.
  intros k s A B Hk Hs HZ. unfold zp_divmod, FD, inl. cbn [qof p]. fold D.
  destruct (Division_ok D OK k s (I A) (I B) Hk Hs HZ) as [H _]. unfold I in *.
  destruct (divmod D k s (map (mk q) A) (map (mk q) B)) as [Q R]. destruct H as [H1 H2].
  split. apply outl_canonical. split. apply outl_canonical. rewrite !inl_outl. split; assumption.
Qed.

(* the triple printed by the extracted zp_gcdext: F is a greatest common divisor and F = U*A + V*B *)
Theorem zp_gcdext_end_to_end : forall (k s : nat) A B, (1 <= k)%nat -> (1 <= s)%nat -> isZero D (I A) = false \/ isZero D (I B) = false ->
  let '(F, U, V) := zp_gcdext p k s A B in
  is_gcd D (I F) (I A) (I B) /\ peq D (I F) (add D (pmul D (I U) (I A)) (pmul D (I V) (I B))).
Proof.
  intros k s A B Hk Hs HN. unfold zp_gcdext, FD, inl. cbn [qof p]. fold D.
  pose proof (GcdExt_ok D OK k s (I A) (I B) Hk Hs HN) as H. unfold I in *.
  destruct (gcdext D k s (map (mk q) A) (map (mk q) B)) as [[F U] V]. rewrite !inl_outl. exact H.
Qed.
End EndToEnd.

(* the statements as they appear in Properties.v *)
Definition EndToEnd_stmt := forall q, prime (Zpos q) -> forall (k s : nat) (A B : list Z), (1 <= k)%nat -> (1 <= s)%nat ->
  let p := Zpos q in let D := FpDom q in let I := map (mk q) in
  (Forall (fun z => (0 <= z < p)%Z) (zp_mul p k A B) /\ peq D (I (zp_mul p k A B)) (pmul D (I A) (I B))) /\
  (isZero D (I B) = false ->
   let '(Q, R) := zp_divmod p k s A B in
   Forall (fun z => (0 <= z < p)%Z) Q /\ Forall (fun z => (0 <= z < p)%Z) R /\
   peq D (I A) (add D (pmul D (I B) (I Q)) (I R)) /\ (degree D (I R) < degree D (I B))%Z) /\
  (isZero D (I A) = false \/ isZero D (I B) = false ->
   let '(F, U, V) := zp_gcdext p k s A B in
   is_gcd D (I F) (I A) (I B) /\ peq D (I F) (add D (pmul D (I U) (I A)) (pmul D (I V) (I B)))).
Lemma EndToEnd_ok : EndToEnd_stmt.
Proof.
  intros q PR k s A B Hk Hs. cbv zeta. split; [|split].
  - apply (zp_mul_end_to_end q PR k A B Hk).
  - intros HZ. apply (zp_divmod_end_to_end q PR k s A B Hk Hs HZ).
  - intros HN. apply (zp_gcdext_end_to_end q PR k s A B Hk Hs HN).
Qed.
Example EndToEnd_instance_7 :    (* a modulus of the correspondence run; the printed lists of a run of the extracted functions *)
  zp_divmod 7 2%nat 2%nat [1; 2; 3; 4; 5]%Z [3; 1]%Z = ([6; 1; 3; 5]%Z, [4]%Z) /\ zp_mul 7 2%nat [1; 2; 3]%Z [4; 5; 6]%Z = [4; 6; 0; 6; 4]%Z.
Proof. split; vm_compute; reflexivity. Qed.
