(* C08: divisibility for the extended Euclidean loop (the value it ends on divides both starting polynomials) and
   "lcm returns a common multiple of A and B", both for runs in which the loop has reached G = 0 (that the fuel
   S (length G) suffices needs deg R < deg B, which is not proved here). *)
From Coq Require Import List Arith Lia Setoid Morphisms Ring Bool ZArith.
From C08 Require Import Model Spec ProofsBasic ProofsKara ProofsDiv.
Import ListNotations.

Section Gcd.
Context {T : Type} (D : Dom T) (OK : FieldOK D).
Local Notation O_ := (d0 D).
Local Notation I_ := (d1 D).
Local Notation coef := (coef D).
Local Notation peq := (peq D).
Local Notation pmul := (pmul D).
Local Notation padd := (add D).
Local Notation psub := (sub D).
Local Notation pneg := (neg D).
Local Notation eqv := (eqv D).
Local Instance g_equiv : Equivalence eqv := eqv_equiv D.
Local Instance g_add : Proper (eqv ==> eqv ==> eqv) padd := eqv_add D OK.
Local Instance g_sub : Proper (eqv ==> eqv ==> eqv) psub := eqv_sub D OK.
Local Instance g_mul : Proper (eqv ==> eqv ==> eqv) pmul := eqv_mul D OK.
Local Instance g_neg : Proper (eqv ==> eqv) pneg := eqv_neg D OK.
Add Ring Tring5 : (Trt D OK).
Add Ring EringG : (eqv_ring D OK) (setoid (eqv_equiv D) (eqv_ext D OK)).
Add Ring EringGP : (eqv_ring_poly D OK) (setoid (eqv_equiv D) (eqv_ext D OK)).

(* X divides Y *)
Definition dvd (X Y : list T) : Prop := exists K, eqv Y (pmul K X).
Lemma dvd_refl : forall X, dvd X X.
Proof. intros X. exists [I_]. ring. Qed.
Lemma dvd_zero : forall X Y, eqv Y [] -> dvd X Y.
Proof. intros X Y H. exists []. rewrite H. ring. Qed.
Lemma dvd_eqv : forall X Y Y', eqv Y Y' -> dvd X Y' -> dvd X Y.
Proof. intros X Y Y' H [K HK]. exists K. rewrite H. exact HK. Qed.

Lemma isZero_eqv : forall P, isZero D P = true -> eqv P [].
Proof. intros P H. constructor. apply (isZero_spec D OK). exact H. Qed.

(* in the trivial ring (1 = 0) all polynomials are equal *)
Lemma trivial_ring : I_ = O_ -> forall P Q, eqv P Q.
Proof.
  intros H P Q. constructor. intros i.
  assert (Z : forall a : T, a = O_) by (intros a; transitivity (dmul D I_ a); [ring | rewrite H; ring]).
  rewrite (Z (coef P i)), (Z (coef Q i)). reflexivity.
Qed.

(* R1 = r1 * (R1 / r1) for the scalar r1 = lc1 R1 *)
Lemma lc1_scale : forall R1, eqv R1 (pmul [lc1 D R1] (div_s D R1 (lc1 D R1))).
Proof.
  intros R1. destruct (dis0 D (lc1 D R1)) eqn:E.
  - (* lc1 R1 = 0 is only possible when 1 = 0 *)
    apply trivial_ring. unfold lc1 in E. destruct (dis0 D (leadcoef D R1)) eqn:E2.
    + apply (is0_true D OK). exact E.
    + rewrite E in E2. discriminate.
  - constructor. intros i. rewrite (coef_pmul_cons D OK), (coef_div_s D OK).
    assert (N : lc1 D R1 <> O_) by (apply (is0_false D OK); exact E).
    pose proof (f_inv D OK _ N) as HI.
    transitivity (dmul D (dmul D (lc1 D R1) (dinv D (lc1 D R1))) (coef R1 i)). rewrite HI. ring.
    destruct i; cbn [Spec.pmul]; rewrite ?coef_nil; ring.
Qed.

(* the value the loop ends on divides both starting polynomials *)
Lemma egcd_loop_dvd : forall kthr sthr, 1 <= kthr -> forall fuel F G S0 S1 T0 T1,
  let '(F', G', _, _, _, _) := egcd_loop D kthr sthr fuel F G S0 S1 T0 T1 in
  isZero D G' = true -> dvd F' F /\ dvd F' G.
Proof.
  intros kthr sthr Hk. induction fuel as [|f IH]; intros F G S0 S1 T0 T1.
  - cbn [egcd_loop]. intros HZ. split. apply dvd_refl. apply dvd_zero. apply isZero_eqv. exact HZ.
  - cbn [egcd_loop]. destruct (isZero D G) eqn:EG.
    + intros _. split. apply dvd_refl. apply dvd_zero. apply isZero_eqv. exact EG.
    + pose proof (divmod_identity D OK kthr sthr F G Hk) as Hd.
      destruct (divmod D kthr sthr F G) as [Q R1] eqn:Edm. cbn [fst snd] in Hd.
      specialize (IH (assign D G) (div_s D R1 (lc1 D R1)) (assign D S1)
                     (div_s D (sub_pub D S0 (pmulK D kthr Q S1)) (lc1 D R1)) (assign D T1)
                     (div_s D (sub_pub D T0 (pmulK D kthr Q T1)) (lc1 D R1))).
      destruct (egcd_loop D kthr sthr f (assign D G) (div_s D R1 (lc1 D R1)) (assign D S1)
                  (div_s D (sub_pub D S0 (pmulK D kthr Q S1)) (lc1 D R1)) (assign D T1)
                  (div_s D (sub_pub D T0 (pmulK D kthr Q T1)) (lc1 D R1))) as [[[[[F' G'] S0'] S1'] T0'] T1'].
      intros HZ. destruct (IH HZ) as [[K1 H1] [K2 H2]].
      assert (HG : eqv G (pmul K1 F')).
      { rewrite <- H1. unfold assign. symmetry. apply (setdegree_eqv D OK). }
      split.
      * exists (padd (pmul K1 Q) (pmul [lc1 D R1] K2)).
        assert (HF : eqv F (padd (pmul G Q) R1)) by (constructor; exact Hd).
        pose proof (lc1_scale R1) as HS.
        transitivity (padd (pmul G Q) R1). exact HF.
        transitivity (padd (pmul (pmul K1 F') Q) (pmul [lc1 D R1] (pmul K2 F'))).
        { apply g_add. apply g_mul. exact HG. reflexivity.
          etransitivity. exact HS. apply g_mul. reflexivity. exact H2. }
        ring.
      * exists K1. exact HG.
Qed.

(* when the loop has ended on G = 0 its last cofactors give a common multiple: S1*A = -(T1*B) *)
Lemma egcd_loop_common_multiple : forall kthr sthr A B, 1 <= kthr -> forall fuel F G S0 S1 T0 T1,
  bez D A B F G S0 S1 T0 T1 ->
  let '(_, G', _, S1', _, T1') := egcd_loop D kthr sthr fuel F G S0 S1 T0 T1 in
  isZero D G' = true -> eqv (pmul S1' A) (pneg (pmul T1' B)).
Proof.
  intros kthr sthr A B Hk fuel F G S0 S1 T0 T1 HB.
  pose proof (egcd_loop_bez D OK kthr sthr A B Hk fuel F G S0 S1 T0 T1 HB) as H.
  destruct (egcd_loop D kthr sthr fuel F G S0 S1 T0 T1) as [[[[[F' G'] S0'] S1'] T0'] T1'].
  destruct H as [_ HG]. intros HZ. apply isZero_eqv in HZ.
  assert (E : eqv (padd (pmul S1' A) (pmul T1' B)) []) by (rewrite <- HG; exact HZ).
  transitivity (psub (padd (pmul S1' A) (pmul T1' B)) (pmul T1' B)). ring. rewrite E. ring.
Qed.

(* ---- lcm(F,A,B): a common multiple of A and B *)
Definition lcm_loop (kthr sthr : nat) (A B : list T) :=
  let '(F, G) := if (degree D B <=? degree D A)%Z then (assign D A, assign D B) else (assign D B, assign D A) in
  egcd_loop D kthr sthr (S (length G)) (div_s D F (leadcoef D F)) (div_s D G (leadcoef D G))
            (const D (dinv D (leadcoef D F))) [] [] (const D (dinv D (leadcoef D G))).
Definition lcm_loop_G (kthr sthr : nat) (A B : list T) : list T :=
  let '(_, G', _, _, _, _) := lcm_loop kthr sthr A B in G'.

Lemma lcm_common_multiple : forall kthr sthr A B, 1 <= kthr ->
  (1 <= degree D A)%Z -> (1 <= degree D B)%Z ->
  isZero D (lcm_loop_G kthr sthr A B) = true ->
  dvd A (lcm D kthr sthr A B) /\ dvd B (lcm D kthr sthr A B).
Proof.
  intros kthr sthr A B Hk HA HB. unfold lcm, lcm_loop_G, lcm_loop.
  destruct (Z.ltb_spec (degree D A) 0); [lia|]. destruct (Z.ltb_spec (degree D B) 0); [lia|].
  destruct (Z.eqb_spec (degree D B) 0); [lia|]. destruct (Z.eqb_spec (degree D A) 0); [lia|].
  destruct (degree D B <=? degree D A)%Z.
  - (* base (A, B) *)
    pose proof (egcd_loop_common_multiple kthr sthr A B Hk (S (length (assign D B)))
                  (div_s D (assign D A) (leadcoef D (assign D A))) (div_s D (assign D B) (leadcoef D (assign D B)))
                  (const D (dinv D (leadcoef D (assign D A)))) [] [] (const D (dinv D (leadcoef D (assign D B))))) as HCM.
    destruct (egcd_loop D kthr sthr (S (length (assign D B)))
                (div_s D (assign D A) (leadcoef D (assign D A))) (div_s D (assign D B) (leadcoef D (assign D B)))
                (const D (dinv D (leadcoef D (assign D A)))) [] [] (const D (dinv D (leadcoef D (assign D B)))))
      as [[[[[F' G'] S0'] S1'] T0'] T1'].
    intros HZ.
    assert (HM : eqv (pmul S1' A) (pneg (pmul T1' B))).
    { apply HCM; [|exact HZ]. generalize (leadcoef D (assign D A)) (leadcoef D (assign D B)). intros ra rb. unfold bez, assign. split.
      - rewrite (div_s_eqv D OK), (const_eqv D OK), (setdegree_eqv D OK). ring.
      - rewrite (div_s_eqv D OK), (const_eqv D OK), (setdegree_eqv D OK). ring. }
    destruct (degree D G' <=? 0)%Z.
    + unfold pmulK. split.
      * exists S1'. apply (mul_eqv D OK). exact Hk.
      * exists (pneg T1'). rewrite (mul_eqv D OK kthr _ _ Hk), HM. ring.
    + unfold pmulK. split.
      * exists B. rewrite (mul_eqv D OK kthr _ _ Hk). ring.
      * exists A. rewrite (mul_eqv D OK kthr _ _ Hk). ring.
  - (* base (B, A) *)
    pose proof (egcd_loop_common_multiple kthr sthr B A Hk (S (length (assign D A)))
                  (div_s D (assign D B) (leadcoef D (assign D B))) (div_s D (assign D A) (leadcoef D (assign D A)))
                  (const D (dinv D (leadcoef D (assign D B)))) [] [] (const D (dinv D (leadcoef D (assign D A))))) as HCM.
    destruct (egcd_loop D kthr sthr (S (length (assign D A)))
                (div_s D (assign D B) (leadcoef D (assign D B))) (div_s D (assign D A) (leadcoef D (assign D A)))
                (const D (dinv D (leadcoef D (assign D B)))) [] [] (const D (dinv D (leadcoef D (assign D A)))))
      as [[[[[F' G'] S0'] S1'] T0'] T1'].
    intros HZ.
    assert (HM : eqv (pmul S1' B) (pneg (pmul T1' A))).
    { apply HCM; [|exact HZ]. generalize (leadcoef D (assign D A)) (leadcoef D (assign D B)). intros ra rb. unfold bez, assign. split.
      - rewrite (div_s_eqv D OK), (const_eqv D OK), (setdegree_eqv D OK). ring.
      - rewrite (div_s_eqv D OK), (const_eqv D OK), (setdegree_eqv D OK). ring. }
    destruct (degree D G' <=? 0)%Z.
    + unfold pmulK. split.
      * exists T1'. apply (mul_eqv D OK). exact Hk.
      * exists (pneg S1'). rewrite (mul_eqv D OK kthr _ _ Hk).
        transitivity (pneg (pneg (pmul T1' A))). ring. rewrite <- HM. ring.
    + unfold pmulK. split.
      * exists B. rewrite (mul_eqv D OK kthr _ _ Hk). ring.
      * exists A. rewrite (mul_eqv D OK kthr _ _ Hk). ring.
Qed.
End Gcd.
