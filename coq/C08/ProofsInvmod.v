(* C08: invmod(S0,A,B): for coprime A, B of degree >= 1 the result U satisfies U*A = 1 mod B.
   Ingredients: invmod's loop is the S-column of the extended loop; the loop keeps F monic; a monic divisor of 1 is 1
   (leading coefficient of a product). *)
From Coq Require Import List Arith Lia Setoid Morphisms Ring Bool ZArith.
From C08 Require Import Model Spec ProofsBasic ProofsSum ProofsKara ProofsDiv ProofsSqr ProofsNewton ProofsRev ProofsDivDeg ProofsGcd ProofsEuclid ProofsPow.
Import ListNotations.

Section Invmod.
Context {T : Type} (D : Dom T) (OK : FieldOK D).
Local Notation O_ := (d0 D).
Local Notation I_ := (d1 D).
Local Notation "a * b" := (dmul D a b).
Local Notation coef := (coef D).
Local Notation peq := (peq D).
Local Notation pmul := (pmul D).
Local Notation padd := (add D).
Local Notation psub := (sub D).
Local Notation pneg := (neg D).
Local Notation eqv := (eqv D).
Local Notation dvd := (dvd D).
Local Notation len := (len D).
Local Notation bigsum := (bigsum D).
Local Instance v_equiv : Equivalence eqv := eqv_equiv D.
Local Instance v_add : Proper (eqv ==> eqv ==> eqv) padd := eqv_add D OK.
Local Instance v_sub : Proper (eqv ==> eqv ==> eqv) psub := eqv_sub D OK.
Local Instance v_mul : Proper (eqv ==> eqv ==> eqv) pmul := eqv_mul D OK.
Local Instance v_neg : Proper (eqv ==> eqv) pneg := eqv_neg D OK.
Add Ring Tring11 : (Trt D OK).
Add Ring EringV : (eqv_ring D OK) (setoid (eqv_equiv D) (eqv_ext D OK)).
Add Ring EringVP : (eqv_ring_poly D OK) (setoid (eqv_equiv D) (eqv_ext D OK)).

(* ---- leading coefficient of a product *)
Lemma bigsum_single : forall n (f : nat -> T) j, j < n -> (forall i, i < n -> i <> j -> f i = O_) -> bigsum f n = f j.
Proof.
  induction n as [|n IH]; intros f j Hj H. lia.
  cbn [ProofsSum.bigsum]. destruct (Nat.eq_dec j n) as [E|E].
  - subst j. rewrite (bigsum_zero D OK). ring. intros i Hi. apply H; lia.
  - rewrite (IH f j) by (try lia; intros; apply H; lia). rewrite (H n) by lia. ring.
Qed.
Lemma coef_high_zero : forall P k, len P <= k -> coef P k = O_.
Proof. intros P k H. apply (proj1 (len_le_iff D OK P (len P)) (le_n _)). exact H. Qed.
Lemma top_coef_pmul : forall P Q, 1 <= len P -> 1 <= len Q ->
  coef (pmul P Q) (len P + len Q - 2) = coef P (len P - 1) * coef Q (len Q - 1).
Proof.
  intros P Q HP HQ. rewrite (coef_pmul_conv D OK).
  rewrite (bigsum_single _ _ (len P - 1)%nat).
  - f_equal. f_equal. lia.
  - lia.
  - intros i Hi Hne. destruct (Nat.lt_ge_cases i (len P - 1)).
    + rewrite (coef_high_zero Q) by lia. ring.
    + rewrite (coef_high_zero P) by lia. ring.
Qed.
Lemma leadcoef_coef : forall P, 1 <= len P -> leadcoef D P = coef P (len P - 1).
Proof.
  intros P H. unfold leadcoef. unfold ProofsRev.len in *.
  rewrite (last_coef D). apply (coef_setdegree D OK). intros E. rewrite E in H. cbn in H. lia.
Qed.
Lemma one_neq_zero : forall c : T, c <> O_ -> I_ <> O_.
Proof. intros c Hc E. apply Hc. transitivity (I_ * c). ring. rewrite E. ring. Qed.

Definition monic (P : list T) : Prop := leadcoef D P = I_.
(* a monic polynomial that divides 1 is 1 (I_ <> O_) *)
Lemma monic_dvd_one : forall F, I_ <> O_ -> monic F -> dvd F [I_] -> eqv F [I_].
Proof.
  intros F H10 HM [K HK].
  assert (LF : 1 <= len F).
  { destruct (Nat.lt_ge_cases (len F) 1); [|assumption]. exfalso. unfold monic, leadcoef in HM.
    unfold ProofsRev.len in *. destruct (setdegree D F). cbn in HM. congruence. cbn in H; lia. }
  assert (LK : 1 <= len K).
  { destruct (Nat.lt_ge_cases (len K) 1); [|assumption]. exfalso.
    pose proof (eqv_peq D _ _ HK 0%nat) as E. rewrite coef_cons_0, (coef_pmul_conv D OK) in E. cbn [ProofsSum.bigsum Nat.sub] in E.
    rewrite (coef_high_zero K 0) in E by lia. apply H10. rewrite E. ring. }
  pose proof (top_coef_pmul K F LK LF) as HT. rewrite <- (leadcoef_coef F LF), HM in HT.
  assert (L1 : len F = 1%nat).
  { destruct (Nat.eq_dec (len F) 1); [assumption|]. exfalso.
    rewrite <- (eqv_peq D _ _ HK (len K + len F - 2)%nat) in HT.
    replace (len K + len F - 2)%nat with (S (len K + len F - 3)) in HT by lia. rewrite coef_cons_S, coef_nil in HT.
    apply (top_coef_nonzero D OK K LK). rewrite (coef_setdegree D OK). transitivity (coef K (len K - 1) * I_). ring. rewrite <- HT. reflexivity. }
  constructor. intros k. destruct k as [|k].
  - rewrite coef_cons_0. rewrite <- HM. rewrite (leadcoef_coef F LF), L1. reflexivity.
  - rewrite coef_cons_S, coef_nil. apply coef_high_zero. lia.
Qed.

(* ---- the loop keeps F monic *)
Lemma leadcoef_setdegree : forall P, leadcoef D (setdegree D P) = leadcoef D P.
Proof. intros. unfold leadcoef. rewrite (setdegree_idem D OK). reflexivity. Qed.
Lemma isZero_div_s : forall R c, isZero D R = true -> isZero D (div_s D R c) = true.
Proof.
  intros R c H. apply (isZero_spec D OK). intros k. rewrite (coef_div_s D OK), coef_nil.
  rewrite (proj1 (isZero_spec D OK R) H k), coef_nil. ring.
Qed.
Lemma div_s_lc_monic : forall R, isZero D R = false -> monic (div_s D R (leadcoef D R)).
Proof.
  intros R HZ. pose proof (isZero_false_len D R HZ) as LR. pose proof (leadcoef_nonzero D OK R HZ) as NC.
  set (c := leadcoef D R) in *.
  assert (TOP : coef (div_s D R c) (len R - 1) = I_).
  { rewrite (coef_div_s D OK), <- (leadcoef_coef R LR). fold c. rewrite <- (f_inv D OK c NC). ring. }
  assert (LE : len (div_s D R c) = len R).
  { apply Nat.le_antisymm. apply (len_div_s_le D OK).
    destruct (Nat.lt_ge_cases (len (div_s D R c)) (len R)); [|assumption]. exfalso.
    rewrite (coef_high_zero (div_s D R c)) in TOP by lia. apply (one_neq_zero c NC). symmetry. exact TOP. }
  unfold monic. rewrite (leadcoef_coef (div_s D R c)) by lia. rewrite LE. exact TOP.
Qed.

Section Thr.
Variables (kthr sthr : nat).
Hypothesis Hk : 1 <= kthr.
Hypothesis Hs : 1 <= sthr.

Lemma egcd_loop_monic : forall fuel F G S0 S1 T0 T1, monic F -> (isZero D G = true \/ monic G) ->
  let '(F', _, _, _, _, _) := egcd_loop D kthr sthr fuel F G S0 S1 T0 T1 in monic F'.
Proof.
  induction fuel as [|f IH]; intros F G S0 S1 T0 T1 HF HG. exact HF.
  cbn [egcd_loop]. destruct (isZero D G) eqn:EG. exact HF.
  destruct HG as [HG|HG]. discriminate.
  destruct (divmod D kthr sthr F G) as [Q R1].
  apply IH.
  - unfold monic, assign. rewrite leadcoef_setdegree. exact HG.
  - destruct (isZero D R1) eqn:ER. left. apply isZero_div_s. exact ER.
    right. unfold lc1. pose proof (leadcoef_nonzero D OK R1 ER) as N.
    destruct (dis0 D (leadcoef D R1)) eqn:E0. apply (is0_true D OK) in E0. contradiction.
    apply div_s_lc_monic. exact ER.
Qed.

(* invmod's loop is the S-column of the extended loop *)
Lemma invmod_loop_sim : forall fuel F G S0 S1 T0 T1,
  invmod_loop D kthr sthr fuel F G S0 S1 =
  (let '(_, _, S0', _, _, _) := egcd_loop D kthr sthr fuel F G S0 S1 T0 T1 in S0').
Proof.
  induction fuel as [|f IH]; intros F G S0 S1 T0 T1. reflexivity.
  cbn [invmod_loop egcd_loop]. destruct (isZero D G). reflexivity.
  destruct (divmod D kthr sthr F G) as [Q R1]. apply IH.
Qed.

(* invmod: U*A = 1 mod B for coprime A, B of degree >= 1 *)
Lemma invmod_spec : forall A B, (1 <= degree D A)%Z -> (1 <= degree D B)%Z ->
  (forall X, dvd X A -> dvd X B -> dvd X [I_]) ->
  cong D B (pmul (invmod D kthr sthr A B) A) [I_].
Proof.
  intros A B HA HB HC. unfold invmod.
  destruct (Z.leb_spec (degree D A) 0); [lia|]. destruct (Z.leb_spec (degree D B) 0); [lia|]. cbn [orb].
  pose proof (leadcoef_nonzero D OK A (degree_nonneg_nonzero D A ltac:(lia))) as NA.
  pose proof (leadcoef_nonzero D OK B (degree_nonneg_nonzero D B ltac:(lia))) as NB.
  set (r0 := leadcoef D A) in *. set (r1 := leadcoef D B) in *.
  set (F0 := div_s D (assign D A) r0). set (G0 := div_s D (assign D B) r1).
  rewrite (invmod_loop_sim (S (length G0)) F0 G0 (const D (dinv D r0)) [] [] (const D (dinv D r1))).
  pose proof (egcd_loop_dvd D OK kthr sthr Hk (S (length G0)) F0 G0 (const D (dinv D r0)) [] [] (const D (dinv D r1))) as HD.
  pose proof (egcd_loop_reaches_zero D OK kthr sthr Hk Hs (S (length G0)) F0 G0 (const D (dinv D r0)) [] [] (const D (dinv D r1))) as HZ.
  pose proof (egcd_loop_bez D OK kthr sthr A B Hk (S (length G0)) F0 G0 (const D (dinv D r0)) [] [] (const D (dinv D r1))) as HBz.
  pose proof (egcd_loop_monic (S (length G0)) F0 G0 (const D (dinv D r0)) [] [] (const D (dinv D r1))) as HM.
  destruct (egcd_loop D kthr sthr (S (length G0)) F0 G0 (const D (dinv D r0)) [] [] (const D (dinv D r1)))
    as [[[[[F' G'] S0'] S1'] T0'] T1'].
  assert (L : len G0 < S (length G0)) by (pose proof (len_le_length D G0); lia).
  destruct (HD (HZ L)) as [H1 H2].
  assert (ZA : isZero D (assign D A) = false).
  { unfold assign, isZero. rewrite (setdegree_idem D OK). apply (degree_nonneg_nonzero D A). lia. }
  assert (ZB : isZero D (assign D B) = false).
  { unfold assign, isZero. rewrite (setdegree_idem D OK). apply (degree_nonneg_nonzero D B). lia. }
  assert (MF : monic F').
  { apply HM.
    - unfold F0, r0. rewrite <- (leadcoef_setdegree A). apply div_s_lc_monic. exact ZA.
    - right. unfold G0, r1. rewrite <- (leadcoef_setdegree B). apply div_s_lc_monic. exact ZB. }
  assert (DA : dvd F' A).
  { eapply (dvd_trans D OK). exact H1. unfold F0, assign. apply (dvd_div_s_l D OK). exact NA. apply (dvd_setdegree_l D OK). apply (dvd_refl D OK). }
  assert (DB : dvd F' B).
  { eapply (dvd_trans D OK). exact H2. unfold G0, assign. apply (dvd_div_s_l D OK). exact NB. apply (dvd_setdegree_l D OK). apply (dvd_refl D OK). }
  pose proof (monic_dvd_one F' (one_neq_zero r0 NA) MF (HC F' DA DB)) as E1.
  destruct HBz as [HBF _].
  { unfold bez, F0, G0, assign. split.
    - rewrite (div_s_eqv D OK), (const_eqv D OK), (setdegree_eqv D OK). ring.
    - rewrite (div_s_eqv D OK), (const_eqv D OK), (setdegree_eqv D OK). ring. }
  exists (pneg T0'). rewrite <- E1, HBF. ring.
Qed.
End Thr.
End Invmod.
