(* C08: the recursive product on ranges (mul_r: dynamic choice schoolbook / Karatsuba, truncated results,
   the PHQH temporary) computes the coefficients of the schoolbook product, for every threshold >= 1,
   every requested length n and every recursion depth. *)
From Coq Require Import List Arith Lia Setoid Morphisms Ring Bool.
From C08 Require Import Model Spec ProofsBasic.
Import ListNotations.

Section Kara.
Context {T : Type} (D : Dom T) (OK : FieldOK D).
Local Notation O_ := (d0 D).
Local Notation I_ := (d1 D).
Local Notation "a + b" := (dadd D a b).
Local Notation "a * b" := (dmul D a b).
Local Notation "a - b" := (dsub D a b).
Local Notation coef := (coef D).
Local Notation peq := (peq D).
Local Notation pmul := (pmul D).
Local Notation padd := (add D).
Local Notation psub := (sub D).
Add Ring Tring3 : (Trt D OK).
Add Ring Pring : (poly_ring D OK) (setoid (peq_equiv D) (poly_ext D OK)).

(* ---- multiplication by X^h *)
Definition shiftn (h : nat) (A : list T) : list T := zeros D h ++ A.
Lemma coef_shiftn : forall h A i, coef (shiftn h A) i = if i <? h then O_ else coef A (i - h)%nat.
Proof.
  intros. unfold shiftn. rewrite (coef_app D), length_zeros, coef_zeros. reflexivity.
Qed.
Lemma pmul_shiftn : forall h A B, peq (pmul (shiftn h A) B) (shiftn h (pmul A B)).
Proof.
  induction h as [|h IH]; intros A B i. reflexivity.
  change (shiftn (S h) A) with (O_ :: shiftn h A). rewrite (pmul_shift_l D OK).
  change (shiftn (S h) (pmul A B)) with (O_ :: shiftn h (pmul A B)).
  destruct i. reflexivity. rewrite coef_cons_S. apply IH.
Qed.
Lemma shiftn_as_mul : forall h A, peq (shiftn h A) (pmul (shiftn h [I_]) A).
Proof.
  intros h A. rewrite pmul_shiftn. intros i. rewrite !coef_shiftn.
  destruct (i <? h). reflexivity. symmetry. apply (pmul_1_l D OK).
Qed.
Lemma split_at : forall h P, peq P (padd (firstn h P) (shiftn h (skipn h P))).
Proof.
  intros h P i. rewrite (coef_add D OK), (coef_firstn D), coef_shiftn, (coef_skipn D).
  destruct (Nat.ltb_spec i h). ring. replace (h + (i - h))%nat with i by lia. ring.
Qed.

(* Karatsuba's identity on the specification, coefficientwise *)
Lemma kara_identity : forall h Pl Ph Ql Qh i,
  coef (pmul (padd Pl (shiftn h Ph)) (padd Ql (shiftn h Qh))) i =
  coef (pmul Pl Ql) i
  + (if h <=? i then coef (pmul Pl Ql) (i - h)%nat + coef (pmul Ph Qh) (i - h)%nat
                     - coef (pmul (psub Ph Pl) (psub Qh Ql)) (i - h)%nat else O_)
  + (if 2 * h <=? i then coef (pmul Ph Qh) (i - 2 * h)%nat else O_).
Proof.
  intros h Pl Ph Ql Qh i.
  set (X := shiftn h [I_]).
  assert (E : peq (pmul (padd Pl (shiftn h Ph)) (padd Ql (shiftn h Qh)))
                  (padd (padd (pmul Pl Ql)
                              (pmul X (psub (padd (pmul Pl Ql) (pmul Ph Qh)) (pmul (psub Ph Pl) (psub Qh Ql)))))
                        (pmul X (pmul X (pmul Ph Qh))))).
  { transitivity (pmul (padd Pl (pmul X Ph)) (padd Ql (pmul X Qh))).
    - apply (pmul_proper D OK); apply (padd_proper D OK); try reflexivity; apply shiftn_as_mul.
    - ring. }
  rewrite (E i). unfold X.
  rewrite !(coef_add D OK).
  rewrite (pmul_shiftn h [I_] _ i), coef_shiftn.
  rewrite (pmul_shiftn h [I_] _ i), coef_shiftn.
  destruct (Nat.ltb_spec i h); destruct (Nat.leb_spec h i); try lia.
  - destruct (Nat.leb_spec (2 * h) i); try lia. ring.
  - rewrite (pmul_1_l D OK _ (i - h)%nat), (coef_sub D OK), (coef_add D OK).
    rewrite (pmul_1_l D OK _ (i - h)%nat), (pmul_shiftn h [I_] _ (i - h)%nat), coef_shiftn.
    destruct (Nat.ltb_spec (i - h) h); destruct (Nat.leb_spec (2 * h) i); try lia.
    + ring.
    + rewrite (pmul_1_l D OK _ (i - h - h)%nat). replace (i - h - h)%nat with (i - 2 * h)%nat by lia. ring.
Qed.

(* ---- the arithmetic of one Karatsuba level, on abstract coefficient functions *)
Ltac zap :=
  repeat match goal with
         | H : forall j : nat, _ -> ?c j = O_ |- context[?c ?j] => rewrite (H j) by lia
         end.
Ltac split_ifs :=
  repeat match goal with
         | |- context[?a <? ?b] => destruct (Nat.ltb_spec a b)
         | |- context[?a <=? ?b] => destruct (Nat.leb_spec a b)
         end.

Lemma kara_combine : forall (c0 c2 cd x0 x1 ph d' : nat -> T) (n half highs halfR rrems midts : nat),
  halfR = Nat.min (2 * half) n -> rrems = (n - halfR)%nat -> midts = Nat.min highs (n - half) ->
  1 <= half -> half < n ->
  (forall j, x0 j = if j <? halfR then c0 j else O_) ->
  (forall j, 2 * half <= S j -> c0 j = O_) ->
  (forall j, highs <= j -> c2 j = O_) ->
  (forall j, highs <= j -> cd j = O_) ->
  (forall j, d' j = if j <? midts then cd j else O_) ->
  (forall j, ph j = if rrems <? midts then (if j <? midts then c2 j else O_) else O_) ->
  (forall j, x1 j = if rrems <? midts then ph j else (if j <? rrems then c2 j else O_)) ->
  forall i, i < n ->
  (if i <? halfR then x0 i else x1 (i - halfR)%nat)
  - (if half <=? i
     then d' (i - half)%nat
          - (if (i - half)%nat <? halfR then x0 (i - half)%nat else O_)
          - (if rrems <? highs then ph (i - half)%nat
             else (if (halfR + (i - half))%nat <? n then x1 (i - half)%nat else O_))
     else O_)
  = c0 i
    + (if half <=? i then c0 (i - half)%nat + c2 (i - half)%nat - cd (i - half)%nat else O_)
    + (if 2 * half <=? i then c2 (i - 2 * half)%nat else O_).
Proof.
  intros c0 c2 cd x0 x1 ph d' n half highs halfR rrems midts EhR Err Emid Hh Hn Hx0 Z0 Z2 ZD Hd Hph Hx1 i Hi.
  rewrite !Hx1, !Hph, !Hd, !Hx0.
  destruct (Nat.min_spec (2 * half) n) as [[L1 E1]|[L1 E1]]; rewrite E1 in EhR;
  destruct (Nat.min_spec highs (n - half)) as [[L2 E2]|[L2 E2]]; rewrite E2 in Emid; subst halfR rrems midts.
  - split_ifs; try lia; zap; try ring.
    all: try (replace (i - 2 * half - 0)%nat with (i - 2 * half)%nat by lia; zap; ring).
  - split_ifs; try lia; zap; try ring.
  - split_ifs; try lia; zap; try ring.
  - split_ifs; try lia; zap; try ring.
Qed.

Lemma div2_le : forall n, 2 * Nat.div2 n <= n.
Proof. intros n. pose proof (Nat.div2_odd n) as H. destruct (Nat.odd n); cbn [Nat.b2n] in H; lia. Qed.
Lemma div2_ge : forall n, n <= 2 * Nat.div2 n + 1.
Proof. intros n. pose proof (Nat.div2_odd n) as H. destruct (Nat.odd n); cbn [Nat.b2n] in H; lia. Qed.

Definition rec_ok (rec : nat -> list T -> list T -> list T) : Prop :=
  forall n P Q, length (rec n P Q) = n /\ forall i, i < n -> coef (rec n P Q) i = coef (pmul P Q) i.

Lemma rec_ok_coef : forall rec, rec_ok rec ->
  forall n P Q j, coef (rec n P Q) j = if j <? n then coef (pmul P Q) j else O_.
Proof.
  intros rec H n P Q j. destruct (H n P Q) as [L C]. destruct (Nat.ltb_spec j n).
  apply C. assumption. apply (coef_ge D). lia.
Qed.

Lemma karamul_body_spec : forall rec n P Q, rec_ok rec -> 2 <= length P -> 2 <= length Q ->
  length (karamul_body D rec n P Q) = n /\
  forall i, i < n -> coef (karamul_body D rec n P Q) i = coef (pmul P Q) i.
Proof.
  intros rec n P Q Hrec HP HQ. unfold karamul_body. destruct n as [|n']. { split. reflexivity. intros; lia. }
  cbv zeta. set (n := S n').
  set (half := Nat.min (Nat.div2 (length P)) (Nat.div2 (length Q))).
  set (halfR := Nat.min (2 * half) n).
  set (Pl := firstn half P). set (Ph := skipn half P). set (Ql := firstn half Q). set (Qh := skipn half Q).
  set (X0 := rec halfR Pl Ql).
  set (R0 := overwrite (zeros D n) 0 X0).
  pose proof (div2_le (length P)) as dP. pose proof (div2_le (length Q)) as dQ.
  pose proof (div2_ge (length P)) as eP. pose proof (div2_ge (length Q)) as eQ.
  assert (Hh : 1 <= half) by (unfold half; lia).
  assert (LPl : length Pl = half) by (unfold Pl; rewrite firstn_length; unfold half; lia).
  assert (LQl : length Ql = half) by (unfold Ql; rewrite firstn_length; unfold half; lia).
  assert (LPh : length Ph = (length P - half)%nat) by (unfold Ph; apply skipn_length).
  assert (LQh : length Qh = (length Q - half)%nat) by (unfold Qh; apply skipn_length).
  assert (LhR : halfR <= n) by (unfold halfR; lia).
  assert (LX0 : length X0 = halfR) by (apply Hrec).
  assert (LR0 : length R0 = n) by (unfold R0; rewrite length_overwrite; rewrite length_zeros; lia).
  (* the specification side *)
  set (c0 := coef (pmul Pl Ql)). set (c2 := coef (pmul Ph Qh)). set (cd := coef (pmul (psub Ph Pl) (psub Qh Ql))).
  assert (Hspec : forall i, coef (pmul P Q) i =
            c0 i + (if half <=? i then c0 (i - half)%nat + c2 (i - half)%nat - cd (i - half)%nat else O_)
            + (if 2 * half <=? i then c2 (i - 2 * half)%nat else O_)).
  { intros i. unfold c0, c2, cd. rewrite <- kara_identity.
    apply (pmul_proper D OK); apply split_at. }
  assert (Z0 : forall j, 2 * half <= S j -> c0 j = O_).
  { intros j Hj. unfold c0. apply (coef_pmul_high D OK). lia. }
  assert (HX0 : forall j, coef X0 j = if j <? halfR then c0 j else O_).
  { intros j. unfold X0, c0. apply rec_ok_coef. assumption. }
  assert (CR0 : forall i, i < halfR -> coef R0 i = coef X0 i).
  { intros i Hi. unfold R0. rewrite coef_overwrite by lia. rewrite LX0, length_zeros.
    destruct (Nat.ltb_spec i 0); [lia|]. destruct (Nat.ltb_spec i (0 + halfR)); [|lia].
    destruct (Nat.ltb_spec i n); [|lia]. cbn [andb]. f_equal. lia. }
  destruct (Nat.ltb_spec half n) as [Hn|Hn]; cbv iota.
  2:{ (* the whole result lies inside PlQl *)
    split. assumption. intros i Hi. assert (halfR = n) by (unfold halfR; lia).
    rewrite CR0 by lia. rewrite HX0, Hspec.
    destruct (Nat.ltb_spec i halfR); [|lia]. destruct (Nat.leb_spec half i); [lia|].
    destruct (Nat.leb_spec (2 * half) i); [lia|]. ring. }
  set (highs := (length Ph + length Qh - 1)%nat).
  set (rrems := (n - halfR)%nat).
  set (midts := Nat.min highs (n - half)).
  set (PHQH := if rrems <? midts then rec midts Ph Qh else []).
  set (X1 := if rrems <? midts then PHQH else rec rrems Ph Qh).
  set (R1 := if rrems <? midts then overwrite R0 halfR PHQH else overwrite R0 halfR (rec rrems Ph Qh)).
  assert (ER1 : R1 = overwrite R0 halfR X1) by (unfold R1, X1; destruct (rrems <? midts); reflexivity).
  set (PHPL := setdegree D (psub Ph Pl)). set (QHQL := setdegree D (psub Qh Ql)).
  set (D' := rec midts PHPL QHQL).
  assert (Z2 : forall j, highs <= j -> c2 j = O_).
  { intros j Hj. unfold c2. apply (coef_pmul_high D OK). unfold highs in Hj. lia. }
  assert (ZD : forall j, highs <= j -> cd j = O_).
  { intros j Hj. unfold cd. apply (coef_pmul_high D OK). rewrite !length_sub. unfold highs in Hj. lia. }
  assert (HD' : forall j, coef D' j = if j <? midts then cd j else O_).
  { intros j. unfold D'. rewrite (rec_ok_coef rec Hrec). destruct (j <? midts); [|reflexivity].
    unfold cd. apply (pmul_proper D OK); apply setdegree_peq; assumption. }
  assert (Hph : forall j, coef PHQH j = if rrems <? midts then (if j <? midts then c2 j else O_) else O_).
  { intros j. unfold PHQH. destruct (rrems <? midts). apply rec_ok_coef; assumption. apply coef_nil. }
  assert (HX1 : forall j, coef X1 j = if rrems <? midts then coef PHQH j else (if j <? rrems then c2 j else O_)).
  { intros j. unfold X1. destruct (rrems <? midts). reflexivity. apply rec_ok_coef; assumption. }
  assert (LX1 : rrems <= length X1).
  { unfold X1, PHQH. destruct (Nat.ltb_spec rrems midts).
    - destruct (Hrec midts Ph Qh) as [L _]. rewrite L. lia.
    - destruct (Hrec rrems Ph Qh) as [L _]. rewrite L. lia. }
  assert (LR1 : length R1 = n) by (rewrite ER1, length_overwrite; lia).
  assert (CR1 : forall i, i < n -> coef R1 i = if i <? halfR then coef X0 i else coef X1 (i - halfR)%nat).
  { intros i Hi. rewrite ER1, coef_overwrite by lia. rewrite LR0.
    destruct (Nat.ltb_spec i halfR). apply CR0; assumption.
    destruct (Nat.ltb_spec i (halfR + length X1)); [|unfold rrems in LX1; lia].
    destruct (Nat.ltb_spec i n); [|lia]. reflexivity. }
  split.
  { rewrite length_subshift. assumption. }
  intros i Hi.
  rewrite Hspec.
  rewrite <- (kara_combine c0 c2 cd (coef X0) (coef X1) (coef PHQH) (coef D') n half highs halfR rrems midts
                eq_refl eq_refl eq_refl Hh Hn HX0 Z0 Z2 ZD HD' Hph HX1 i Hi).
  match goal with |- _ = ?rhs =>
    change (coef (subshift D R1 half
                   (setdegree D (if rrems <? highs
                                 then subin D (setdegree D (subin_range D (setdegree D D') (firstn halfR R1))) PHQH
                                 else subin_range D (setdegree D (subin_range D (setdegree D D') (firstn halfR R1)))
                                                  (skipn halfR R1)))) i = rhs)
  end.
  rewrite coef_subshift, LR1, (CR1 i Hi).
  destruct (Nat.leb_spec half i) as [Hhi|Hhi]; destruct (Nat.ltb_spec i n); try lia; cbn [andb]; [|ring].
  f_equal.
  rewrite (coef_setdegree D OK).
  assert (EM1 : forall j, coef (setdegree D (subin_range D (setdegree D D') (firstn halfR R1))) j
                = coef D' j - (if j <? halfR then coef X0 j else O_)).
  { intros j. rewrite (coef_setdegree D OK), (coef_subin_range D OK), (coef_setdegree D OK), (coef_firstn D).
    destruct (Nat.ltb_spec j halfR); [|reflexivity]. rewrite CR1 by lia.
    destruct (Nat.ltb_spec j halfR); [|lia]. reflexivity. }
  destruct (rrems <? highs).
  - rewrite (coef_subin D OK), EM1. reflexivity.
  - rewrite (coef_subin_range D OK), EM1, (coef_skipn D). f_equal.
    destruct (Nat.ltb_spec (halfR + (i - half)) n).
    + rewrite CR1 by assumption. destruct (Nat.ltb_spec (halfR + (i - half)) halfR); [lia|].
      f_equal. lia.
    + apply (coef_ge D). lia.
  - exact OK.
Qed.

(* the recursive dynamic choice: every threshold >= 1, every fuel (recursion depth), every requested length *)
Lemma mul_r_spec : forall fuel thr, 1 <= thr -> rec_ok (mul_r D fuel thr).
Proof.
  induction fuel as [|f IH]; intros thr Hthr n P Q.
  - cbn [mul_r]. split. apply length_stdmul_r. intros. apply (coef_stdmul_r D OK). assumption.
  - cbn [mul_r]. destruct (Nat.ltb_spec thr (length P)); destruct (Nat.ltb_spec thr (length Q)); cbn [andb].
    + apply karamul_body_spec. apply IH. assumption. lia. lia.
    + split. apply length_stdmul_r. intros. apply (coef_stdmul_r D OK). assumption.
    + split. apply length_stdmul_r. intros. apply (coef_stdmul_r D OK). assumption.
    + split. apply length_stdmul_r. intros. apply (coef_stdmul_r D OK). assumption.
Qed.

(* the public products *)
Lemma peq_of_prefix : forall (R S : list T) n, length R = n -> (forall i, n <= i -> coef S i = O_) ->
  (forall i, i < n -> coef R i = coef S i) -> peq R S.
Proof.
  intros R S n L Z C i. destruct (Nat.lt_ge_cases i n). apply C; assumption.
  rewrite Z by assumption. apply (coef_ge D). lia.
Qed.
Lemma mul_spec : forall thr P Q, 1 <= thr -> peq (mul D thr P Q) (pmul P Q).
Proof.
  intros thr P Q Hthr. unfold mul. destruct P as [|a P]. reflexivity.
  destruct Q as [|b Q]. { symmetry. apply (pmul_nil_r D OK). }
  etransitivity. apply setdegree_peq; assumption.
  destruct (mul_r_spec (length (a :: P)) thr Hthr (length (a :: P) + length (b :: Q) - 1)%nat (a :: P) (b :: Q)) as [L C].
  eapply peq_of_prefix. exact L. 2: exact C.
  intros i Hi. apply (coef_pmul_high D OK). lia.
Qed.
Lemma stdmul_spec : forall P Q, peq (stdmul D P Q) (pmul P Q).
Proof.
  intros P Q. unfold stdmul. destruct P as [|a P]. reflexivity.
  destruct Q as [|b Q]. { symmetry. apply (pmul_nil_r D OK). }
  etransitivity. apply setdegree_peq; assumption.
  eapply peq_of_prefix. apply length_stdmul_r. 2: intros; apply (coef_stdmul_r D OK); assumption.
  intros i Hi. apply (coef_pmul_high D OK). lia.
Qed.
Lemma karamul_spec : forall thr P Q, 1 <= thr -> 2 <= length P -> 2 <= length Q ->
  peq (karamul D thr P Q) (pmul P Q).
Proof.
  intros thr P Q Hthr HP HQ. unfold karamul. destruct P as [|a P]. reflexivity.
  destruct Q as [|b Q]. { symmetry. apply (pmul_nil_r D OK). }
  etransitivity. apply setdegree_peq; assumption.
  destruct (karamul_body_spec (mul_r D (length (a :: P)) thr) (length (a :: P) + length (b :: Q) - 1)%nat
              (a :: P) (b :: Q) (mul_r_spec _ thr Hthr) HP HQ) as [L C].
  eapply peq_of_prefix. exact L. 2: exact C.
  intros i Hi. apply (coef_pmul_high D OK). lia.
Qed.
End Kara.
