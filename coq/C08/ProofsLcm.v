(* C08: lcm(F,A,B) for deg A, deg B >= 1 is a LEAST common multiple: non-zero, a multiple of A and of B (ProofsEuclid), and a
   divisor of every common multiple.  New loop invariant: the cofactor determinant S0*T1 - S1*T0 stays a non-zero constant;
   with the Bezout invariant it gives u*F0 = T1*g and u*G0 = -S1*g for the last cofactors (g = the gcd the loop ends on). *)
From Coq Require Import List Arith Lia Setoid Morphisms Ring Bool ZArith.
From C08 Require Import Model Spec ProofsBasic ProofsSum ProofsKara ProofsDiv ProofsSqr ProofsNewton ProofsRev ProofsDivDeg ProofsGcd ProofsEuclid ProofsPow ProofsInvmod ProofsMisc2.
Import ListNotations.

Section Lcm.
Context {T : Type} (D : Dom T) (OK : FieldOK D).
Local Notation O_ := (d0 D).
Local Notation I_ := (d1 D).
Local Notation "a * b" := (dmul D a b).
Local Notation coef := (coef D).
Local Notation pmul := (pmul D).
Local Notation padd := (add D).
Local Notation psub := (sub D).
Local Notation pneg := (neg D).
Local Notation eqv := (eqv D).
Local Notation dvd := (dvd D).
Local Notation len := (len D).
Local Instance l_equiv : Equivalence eqv := eqv_equiv D.
Local Instance l_add : Proper (eqv ==> eqv ==> eqv) padd := eqv_add D OK.
Local Instance l_sub : Proper (eqv ==> eqv ==> eqv) psub := eqv_sub D OK.
Local Instance l_mul : Proper (eqv ==> eqv ==> eqv) pmul := eqv_mul D OK.
Local Instance l_neg : Proper (eqv ==> eqv) pneg := eqv_neg D OK.
Add Ring Tring18 : (Trt D OK).
Add Ring EringL : (eqv_ring D OK) (setoid (eqv_equiv D) (eqv_ext D OK)).
Add Ring EringLP : (eqv_ring_poly D OK) (setoid (eqv_equiv D) (eqv_ext D OK)).

(* ---- polynomials over a field have no zero divisors *)
Lemma eqv_nil_len : forall P, eqv P [] <-> len P = 0%nat.
Proof.
  intros P. split; intros H.
  - rewrite (len_peq D OK P [] (eqv_peq D _ _ H)). reflexivity.
  - constructor. intros i. rewrite (coef_high_zero D OK P i) by lia. rewrite coef_nil. reflexivity.
Qed.
Lemma pmul_eq_nil : forall P Q, eqv (pmul P Q) [] -> eqv P [] \/ eqv Q [].
Proof.
  intros P Q H. destruct (Nat.eq_dec (len P) 0) as [EP|EP]. left. apply eqv_nil_len. exact EP.
  destruct (Nat.eq_dec (len Q) 0) as [EQ|EQ]. right. apply eqv_nil_len. exact EQ.
  exfalso. apply eqv_nil_len in H. rewrite (len_pmul D OK) in H by lia. lia.
Qed.
Lemma pmul_cancel_r : forall X Y Z, eqv (pmul X Z) (pmul Y Z) -> ~ eqv Z [] -> eqv X Y.
Proof.
  intros X Y Z H NZ. assert (E : eqv (pmul (psub X Y) Z) []).
  { transitivity (psub (pmul X Z) (pmul Y Z)). ring. rewrite H. ring. }
  destruct (pmul_eq_nil _ _ E) as [E1|E1]; [|contradiction].
  transitivity (padd (psub X Y) Y). ring. rewrite E1. ring.
Qed.
Lemma const_nonzero : forall u, u <> O_ -> ~ eqv [u] [].
Proof. intros u Hu [H]. apply Hu. apply (H 0%nat). Qed.
Lemma scal_cancel : forall u X, u <> O_ -> eqv (pmul [u] X) [] -> eqv X [].
Proof. intros u X Hu H. destruct (pmul_eq_nil _ _ H) as [E|E]. exfalso. apply (const_nonzero u Hu E). exact E. Qed.

Section Thr.
Variables (kthr sthr : nat).
Hypothesis Hk : 1 <= kthr.
Hypothesis Hs : 1 <= sthr.

(* the determinant of the cofactors stays a non-zero constant *)
Lemma egcd_loop_det : forall fuel F G S0 S1 T0 T1 u, u <> O_ -> eqv (psub (pmul S0 T1) (pmul S1 T0)) [u] ->
  let '(_, _, S0', S1', T0', T1') := egcd_loop D kthr sthr fuel F G S0 S1 T0 T1 in
  exists u', u' <> O_ /\ eqv (psub (pmul S0' T1') (pmul S1' T0')) [u'].
Proof.
  induction fuel as [|f IH]; intros F G S0 S1 T0 T1 u Hu HD.
  - exists u. split; assumption.
  - cbn [egcd_loop]. destruct (isZero D G). exists u. split; assumption.
    destruct (divmod D kthr sthr F G) as [Q R1].
    pose proof (one_neq_zero D OK u Hu) as H10.
    assert (Nr : lc1 D R1 <> O_).
    { unfold lc1. destruct (dis0 D (leadcoef D R1)) eqn:E. exact H10. apply (is0_false D OK). exact E. }
    set (r := lc1 D R1) in *.
    assert (Ni : dinv D r <> O_).
    { intros E. apply H10. rewrite <- (f_inv D OK r Nr), E. ring. }
    apply (IH _ _ _ _ _ _ (dneg D (dinv D r * u))).
    + intros E. assert (E2 : dinv D r * u = O_). { transitivity (dneg D (dneg D (dinv D r * u))). ring. rewrite E. ring. }
      destruct (mul_eq_0 D OK _ _ E2); contradiction.
    + unfold assign, pmulK. rewrite !(div_s_eqv D OK), !(sub_pub_eqv D OK), !(mul_eqv D OK kthr _ _ Hk), !(setdegree_eqv D OK).
      transitivity (pmul [dneg D (dinv D r)] (psub (pmul S0 T1) (pmul S1 T0))).
      * transitivity (pmul (pneg [dinv D r]) (psub (pmul S0 T1) (pmul S1 T0))). ring.
        apply l_mul; [|reflexivity]. constructor. intros [|i]; reflexivity.
      * rewrite HD, (scal_mul D OK). constructor. intros [|i]; [rewrite !coef_cons_0; ring|reflexivity].
Qed.

(* the end state of the loop started on (F0, G0) = (c0*Fb, c1*Gb), c0, c1 <> 0, Fb, Gb <> 0 *)
Lemma egcd_end_lcm : forall Fb Gb c0 c1 fuel, c0 <> O_ -> c1 <> O_ -> ~ eqv Fb [] -> ~ eqv Gb [] ->
  len (mul_s D (setdegree D Gb) c1) < fuel ->
  let '(_, _, _, S1, _, T1) := egcd_loop D kthr sthr fuel (mul_s D (setdegree D Fb) c0) (mul_s D (setdegree D Gb) c1) (const D c0) [] [] (const D c1) in
  eqv (pmul T1 Gb) (pneg (pmul S1 Fb)) /\ ~ eqv (pmul S1 Fb) [] /\
  forall M, dvd Fb M -> dvd Gb M -> dvd (pmul S1 Fb) M.
Proof.
  intros Fb Gb c0 c1 fuel N0 N1 NF NG HL.
  set (F0 := mul_s D (setdegree D Fb) c0). set (G0 := mul_s D (setdegree D Gb) c1).
  assert (HB : bez D Fb Gb F0 G0 (const D c0) [] [] (const D c1)).
  { unfold bez, F0, G0. split; rewrite (mul_s_eqv D OK), (const_eqv D OK), (setdegree_eqv D OK); ring. }
  assert (HDet : eqv (psub (pmul (const D c0) (const D c1)) (pmul [] [])) [c0 * c1]).
  { rewrite !(const_eqv D OK), (scal_mul D OK). ring. }
  assert (Nu0 : c0 * c1 <> O_). { intros E. destruct (mul_eq_0 D OK _ _ E); contradiction. }
  pose proof (egcd_loop_bez D OK kthr sthr Fb Gb Hk fuel F0 G0 (const D c0) [] [] (const D c1) HB) as HBz.
  pose proof (egcd_loop_det fuel F0 G0 (const D c0) [] [] (const D c1) (c0 * c1) Nu0 HDet) as HDt.
  pose proof (egcd_loop_reaches_zero D OK kthr sthr Hk Hs fuel F0 G0 (const D c0) [] [] (const D c1) HL) as HZ.
  destruct (egcd_loop D kthr sthr fuel F0 G0 (const D c0) [] [] (const D c1)) as [[[[[F' G'] S0] S1] T0] T1].
  destruct HBz as [HF HG]. destruct HDt as [u [Nu HU]]. apply (isZero_eqv D OK) in HZ.
  assert (E0 : eqv (padd (pmul S1 Fb) (pmul T1 Gb)) []). { rewrite <- HG. exact HZ. }
  assert (ET : eqv (pmul T1 Gb) (pneg (pmul S1 Fb))).
  { transitivity (psub (padd (pmul S1 Fb) (pmul T1 Gb)) (pmul S1 Fb)). ring. rewrite E0. ring. }
  (* u*Fb = T1*F', u*Gb = -(S1*F') *)
  assert (L1 : eqv (pmul [u] Fb) (pmul T1 F')).
  { rewrite <- HU, HF. transitivity (padd (pmul (psub (pmul S0 T1) (pmul S1 T0)) Fb) (pmul T0 (padd (pmul S1 Fb) (pmul T1 Gb)))).
    rewrite E0. ring. ring. }
  assert (L2 : eqv (pmul [u] Gb) (pneg (pmul S1 F'))).
  { rewrite <- HU, HF. transitivity (psub (pmul (psub (pmul S0 T1) (pmul S1 T0)) Gb) (pmul S0 (padd (pmul S1 Fb) (pmul T1 Gb)))).
    rewrite E0. ring. ring. }
  assert (NF' : ~ eqv F' []).
  { intros E. apply NF. apply (scal_cancel u Fb Nu). rewrite L1, E. ring. }
  assert (NS : ~ eqv (pmul S1 Fb) []).
  { intros E. destruct (pmul_eq_nil _ _ E) as [E1|E1]; [|contradiction].
    apply NG. apply (scal_cancel u Gb Nu). rewrite L2, E1. ring. }
  split; [exact ET|split; [exact NS|]].
  intros M [a Ha] [b Hb].
  (* u * M * F' = -(S0 b + T0 a) * (S1 Fb) * F' *)
  assert (EM : eqv (pmul (pmul [u] M) F') (pmul (pmul (pneg (padd (pmul S0 b) (pmul T0 a))) (pmul S1 Fb)) F')).
  { transitivity (pmul (padd (pmul S0 b) (pmul T0 a)) (pmul Fb (pmul [u] Gb))).
    - transitivity (pmul [u] (padd (pmul (pmul S0 Fb) M) (pmul (pmul T0 Gb) M))). rewrite HF. ring.
      rewrite Hb at 1. rewrite Ha. ring.
    - rewrite L2. ring. }
  apply pmul_cancel_r in EM; [|exact NF'].
  exists (pmul [dinv D u] (pneg (padd (pmul S0 b) (pmul T0 a)))).
  transitivity (pmul (pmul [dinv D u] [u]) M).
  - rewrite (scal_mul D OK). assert (E1 : dinv D u * u = I_). { rewrite <- (f_inv D OK u Nu). ring. } rewrite E1. ring.
  - transitivity (pmul [dinv D u] (pmul [u] M)). ring. rewrite EM. ring.
Qed.

Lemma dinv_nonzero : forall r, r <> O_ -> dinv D r <> O_.
Proof. intros r Nr E. apply (one_neq_zero D OK r Nr). rewrite <- (f_inv D OK r Nr), E. ring. Qed.
Lemma nonzero_of_degree : forall P, (1 <= degree D P)%Z -> ~ eqv P [] /\ leadcoef D (assign D P) <> O_.
Proof.
  intros P H. assert (Z0 : isZero D P = false) by (apply (degree_nonneg_nonzero D); lia). split.
  - intros E. apply eqv_nil_len in E. rewrite (degree_len D) in H. lia.
  - unfold assign. rewrite (leadcoef_setdegree D OK). apply (leadcoef_nonzero D OK). exact Z0.
Qed.

(* lcm(F,A,B), deg A, deg B >= 1: non-zero and a divisor of every common multiple *)
Lemma lcm_least : forall A B, (1 <= degree D A)%Z -> (1 <= degree D B)%Z ->
  ~ eqv (lcm D kthr sthr A B) [] /\ forall M, dvd A M -> dvd B M -> dvd (lcm D kthr sthr A B) M.
Proof.
  intros A B HA HB. destruct (nonzero_of_degree A HA) as [NA LA]. destruct (nonzero_of_degree B HB) as [NB LB].
  unfold lcm.
  destruct (Z.ltb_spec (degree D A) 0); [lia|]. destruct (Z.ltb_spec (degree D B) 0); [lia|].
  destruct (Z.eqb_spec (degree D B) 0); [lia|]. destruct (Z.eqb_spec (degree D A) 0); [lia|].
  destruct (degree D B <=? degree D A)%Z.
  - pose proof (egcd_end_lcm A B (dinv D (leadcoef D (assign D A))) (dinv D (leadcoef D (assign D B))) (S (length (assign D B)))
                  (dinv_nonzero _ LA) (dinv_nonzero _ LB) NA NB) as HE.
    pose proof (egcd_loop_reaches_zero D OK kthr sthr Hk Hs (S (length (assign D B))) (div_s D (assign D A) (leadcoef D (assign D A)))
                  (div_s D (assign D B) (leadcoef D (assign D B))) (const D (dinv D (leadcoef D (assign D A)))) [] []
                  (const D (dinv D (leadcoef D (assign D B))))) as HZ.
    change (mul_s D (setdegree D A) (dinv D (leadcoef D (assign D A)))) with (div_s D (assign D A) (leadcoef D (assign D A))) in HE.
    change (mul_s D (setdegree D B) (dinv D (leadcoef D (assign D B)))) with (div_s D (assign D B) (leadcoef D (assign D B))) in HE.
    assert (LL : len (div_s D (assign D B) (leadcoef D (assign D B))) < S (length (assign D B))).
    { pose proof (len_le_length D (div_s D (assign D B) (leadcoef D (assign D B)))). pose proof (length_div_s_le D (assign D B) (leadcoef D (assign D B))). lia. }
    specialize (HE LL). specialize (HZ LL).
    destruct (egcd_loop D kthr sthr (S (length (assign D B))) (div_s D (assign D A) (leadcoef D (assign D A)))
                (div_s D (assign D B) (leadcoef D (assign D B))) (const D (dinv D (leadcoef D (assign D A)))) [] []
                (const D (dinv D (leadcoef D (assign D B))))) as [[[[[F' G'] S0'] S1'] T0'] T1'].
    destruct HE as [_ [NS HM]].
    assert (DG : (degree D G' <=? 0)%Z = true).
    { apply Z.leb_le. rewrite (degree_len D). apply (isZero_eqv D OK) in HZ. apply eqv_nil_len in HZ. lia. }
    rewrite DG. unfold pmulK. split.
    + rewrite (mul_eqv D OK kthr _ _ Hk). exact NS.
    + intros M H1 H2. eapply (dvd_eqv_l D OK). apply (mul_eqv D OK kthr _ _ Hk). apply HM; assumption.
  - pose proof (egcd_end_lcm B A (dinv D (leadcoef D (assign D B))) (dinv D (leadcoef D (assign D A))) (S (length (assign D A)))
                  (dinv_nonzero _ LB) (dinv_nonzero _ LA) NB NA) as HE.
    pose proof (egcd_loop_reaches_zero D OK kthr sthr Hk Hs (S (length (assign D A))) (div_s D (assign D B) (leadcoef D (assign D B)))
                  (div_s D (assign D A) (leadcoef D (assign D A))) (const D (dinv D (leadcoef D (assign D B)))) [] []
                  (const D (dinv D (leadcoef D (assign D A))))) as HZ.
    change (mul_s D (setdegree D A) (dinv D (leadcoef D (assign D A)))) with (div_s D (assign D A) (leadcoef D (assign D A))) in HE.
    change (mul_s D (setdegree D B) (dinv D (leadcoef D (assign D B)))) with (div_s D (assign D B) (leadcoef D (assign D B))) in HE.
    assert (LL : len (div_s D (assign D A) (leadcoef D (assign D A))) < S (length (assign D A))).
    { pose proof (len_le_length D (div_s D (assign D A) (leadcoef D (assign D A)))). pose proof (length_div_s_le D (assign D A) (leadcoef D (assign D A))). lia. }
    specialize (HE LL). specialize (HZ LL).
    destruct (egcd_loop D kthr sthr (S (length (assign D A))) (div_s D (assign D B) (leadcoef D (assign D B)))
                (div_s D (assign D A) (leadcoef D (assign D A))) (const D (dinv D (leadcoef D (assign D B)))) [] []
                (const D (dinv D (leadcoef D (assign D A))))) as [[[[[F' G'] S0'] S1'] T0'] T1'].
    destruct HE as [ET [NS HM]].
    assert (DG : (degree D G' <=? 0)%Z = true).
    { apply Z.leb_le. rewrite (degree_len D). apply (isZero_eqv D OK) in HZ. apply eqv_nil_len in HZ. lia. }
    rewrite DG. unfold pmulK. split.
    + rewrite (mul_eqv D OK kthr _ _ Hk), ET. intros E. apply NS. transitivity (pneg (pneg (pmul S1' B))). ring. rewrite E. ring.
    + intros M H1 H2. destruct (HM M H2 H1) as [K HK]. exists (pneg K).
      rewrite (mul_eqv D OK kthr _ _ Hk), ET, HK. ring.
Qed.
End Thr.
End Lcm.
