(* C08: the middle product (givpoly1midmul.inl).  MP(P,Q) = coefficients n-1 .. n-1+m-1 of P*Q for |Q| = n, |P| = m+n-1.
   stdmidmul on ranges, the Karatsuba balanced middle product (three recursive middle products on sums of slices of P
   and on Q1 - X^(n mod 2) Q0) and the dispatching midmul (blocks of balanced products for m > n and m < n) all return it,
   for every threshold and every recursion depth. *)
From Coq Require Import List Arith Lia Setoid Morphisms Ring Bool.
From C08 Require Import Model Spec ProofsBasic ProofsSum ProofsRev.
Import ListNotations.

Section Mid.
Context {T : Type} (D : Dom T) (OK : FieldOK D).
Local Notation O_ := (d0 D).
Local Notation I_ := (d1 D).
Local Notation "a + b" := (dadd D a b).
Local Notation "a * b" := (dmul D a b).
Local Notation "a - b" := (dsub D a b).
Local Notation coef := (coef D).
Local Notation peq := (peq D).
Local Notation pmul := (pmul D).
Local Notation bigsum := (bigsum D).
Add Ring Tring13 : (Trt D OK).

Lemma div2_le : forall n, 2 * Nat.div2 n <= n.
Proof. intros n. pose proof (Nat.div2_odd n) as H. destruct (Nat.odd n); cbn [Nat.b2n] in H; lia. Qed.
Lemma div2_ge : forall n, n <= 2 * Nat.div2 n + 1.
Proof. intros n. pose proof (Nat.div2_odd n) as H. destruct (Nat.odd n); cbn [Nat.b2n] in H; lia. Qed.

(* the j-th middle coefficient as a sum over the n coefficients of Q *)
Definition mpf (f g : nat -> T) (n j : nat) : T := bigsum (fun t => f (j + t)%nat * g (n - 1 - t)%nat) n.

Lemma mpf_ext : forall f f' g g' n j, (forall t, t < n -> f (j + t)%nat = f' (j + t)%nat) -> (forall s, s < n -> g s = g' s) ->
  mpf f g n j = mpf f' g' n j.
Proof.
  intros f f' g g' n j Hf Hg. unfold mpf. apply bigsum_ext. intros t Ht. rewrite (Hf t Ht), (Hg (n - 1 - t)%nat) by lia. reflexivity.
Qed.
Lemma mpf_add_l : forall f f' g n j, mpf (fun i => f i + f' i) g n j = mpf f g n j + mpf f' g n j.
Proof.
  intros. unfold mpf. rewrite <- (bigsum_add D OK). apply bigsum_ext. intros t _. ring.
Qed.

Lemma coef_pmul_mid : forall P Q j, 1 <= length Q ->
  coef (pmul P Q) (length Q - 1 + j) = mpf (coef P) (coef Q) (length Q) j.
Proof.
  intros P Q j HQ. rewrite (pmul_comm D OK P Q _), (coef_pmul_conv D OK).
  rewrite (bigsum_trunc D OK (length Q) (S (length Q - 1 + j))).
  - rewrite (bigsum_rev D OK). unfold mpf. apply bigsum_ext. intros t Ht.
    replace (length Q - 1 + j - (length Q - 1 - t))%nat with (j + t)%nat by lia. ring.
  - lia.
  - intros t Ht _. rewrite (coef_ge D Q t) by lia. ring.
Qed.

(* what a middle-product routine on ranges must deliver (precondition of the code: 1 <= |Q| <= |P|) *)
Definition mp_ok (rec : list T -> list T -> list T) : Prop :=
  forall P Q, 1 <= length Q -> length Q <= length P ->
  length (rec P Q) = (length P - length Q + 1)%nat /\
  forall j, j < length P - length Q + 1 -> coef (rec P Q) j = mpf (coef P) (coef Q) (length Q) j.

(* ---- stdmidmul *)
Lemma coef_map_mulr : forall (L : list T) b j, coef (map (fun a0 => a0 * b) L) j = coef L j * b.
Proof.
  induction L as [|x L IHL]; intros b j. cbn [map]. rewrite coef_nil. ring.
  destruct j; cbn [map]. reflexivity. rewrite !coef_cons_S. apply IHL.
Qed.
Lemma coef_mid_row0 : forall (P : list T) bl j,
  coef (if dis0 D bl then map (fun _ => O_) P else map (fun a => if dis0 D a then O_ else a * bl) P) j = coef P j * bl.
Proof.
  induction P as [|a P IHP]; intros bl j.
  - destruct (dis0 D bl); cbn [map]; rewrite coef_nil; ring.
  - destruct j.
    + destruct (dis0 D bl) eqn:Eb; cbn [map]; rewrite !coef_cons_0.
      * apply (is0_true D OK) in Eb. subst bl. ring.
      * destruct (dis0 D a) eqn:Ea. apply (is0_true D OK) in Ea. subst a. ring. reflexivity.
    + specialize (IHP bl j). destruct (dis0 D bl) eqn:Eb; cbn [map]; rewrite !coef_cons_S; apply IHP.
Qed.
Lemma mid_rows_nil : forall R Pt, mid_rows D R Pt [] = R.
Proof. intros R [|a Pt]; reflexivity. Qed.
Lemma length_mid_rows : forall rq R Pt, length (mid_rows D R Pt rq) = length R.
Proof.
  induction rq as [|bq rq IH]; intros R Pt. rewrite mid_rows_nil. reflexivity.
  destruct Pt as [|a Pt]. reflexivity. cbn [mid_rows]. rewrite IH.
  destruct (dis0 D bq). reflexivity. apply length_addshift.
Qed.
Lemma coef_mid_rows : forall rq R Pt j, j < length R ->
  coef (mid_rows D R Pt rq) j = coef R j + bigsum (fun t => coef Pt (t + j)%nat * coef rq t) (length rq).
Proof.
  induction rq as [|bq rq IH]; intros R Pt j Hj.
  - rewrite mid_rows_nil. cbn [length ProofsSum.bigsum]. ring.
  - destruct Pt as [|a Pt].
    + cbn [mid_rows]. rewrite (bigsum_zero D OK). ring. intros t _. rewrite coef_nil. ring.
    + cbn [mid_rows]. rewrite IH by (destruct (dis0 D bq); [assumption | rewrite length_addshift; assumption]).
      cbn [length]. rewrite (bigsum_shift D OK). cbn [plus]. rewrite coef_cons_0.
      assert (E : coef (if dis0 D bq then R else addshift D R 0 (map (fun a0 => a0 * bq) (a :: Pt))) j = coef R j + coef (a :: Pt) j * bq).
      { destruct (dis0 D bq) eqn:Eb.
        - apply (is0_true D OK) in Eb. subst bq. ring.
        - rewrite (coef_addshift D OK). destruct (Nat.ltb_spec j (length R)); [|lia]. cbn [Nat.leb andb]. rewrite Nat.sub_0_r.
          f_equal. apply coef_map_mulr. }
      rewrite E.
      rewrite (bigsum_ext D (length rq) (fun i => coef (a :: Pt) (S (i + j)) * coef (bq :: rq) (S i)) (fun t => coef Pt (t + j) * coef rq t)).
      ring. intros t _. reflexivity.
Qed.

Lemma stdmidmul_ok : mp_ok (stdmidmul_r D).
Proof.
  intros P Q HQ HP. unfold stdmidmul_r.
  destruct (rev Q) as [|bl rq] eqn:ER. { apply (f_equal (@length T)) in ER. rewrite rev_length in ER. cbn in ER. lia. }
  assert (Lrq : length rq = (length Q - 1)%nat). { apply (f_equal (@length T)) in ER. rewrite rev_length in ER. cbn [length] in ER. lia. }
  assert (Crq : forall t, coef (bl :: rq) t = coef (rev Q) t) by (intros; rewrite ER; reflexivity).
  split. rewrite length_mid_rows, length_resize. reflexivity.
  intros j Hj. rewrite coef_mid_rows by (rewrite length_resize; assumption).
  rewrite coef_resize. destruct (Nat.ltb_spec j (length P - length Q + 1)); [|lia].
  rewrite coef_mid_row0. unfold mpf.
  replace (length Q) with (S (length rq)) at 1 by lia. rewrite (bigsum_shift D OK).
  assert (Cq : forall t, t < length Q -> coef (bl :: rq) t = coef Q (length Q - 1 - t)).
  { intros t Ht. rewrite Crq, (coef_rev D). destruct (Nat.ltb_spec t (length Q)); [reflexivity|lia]. }
  f_equal.
  - rewrite Nat.add_0_r. rewrite <- (Cq 0%nat) by lia. reflexivity.
  - apply bigsum_ext. intros t Ht. rewrite <- (Cq (S t)) by lia. rewrite coef_cons_S. f_equal.
    destruct P as [|a P']. cbn [length] in HP; lia. cbn [tl]. replace (j + S t)%nat with (S (t + j)) by lia. reflexivity.
Qed.

(* ---- algebra of mpf *)
Lemma mpf_split : forall f q n1 n0 j,
  mpf f q (n1 + n0) j = mpf f (fun s => q (n0 + s)%nat) n1 j + mpf (fun i => f (n1 + i)%nat) q n0 j.
Proof.
  intros. unfold mpf. rewrite (bigsum_split D OK). f_equal.
  - apply bigsum_ext. intros t Ht. f_equal. f_equal. lia.
  - apply bigsum_ext. intros u Hu. f_equal. f_equal. lia. f_equal. lia.
Qed.
Lemma mpf_shift : forall f q n a j, mpf f q n (a + j) = mpf (fun i => f (a + i)%nat) q n j.
Proof. intros. unfold mpf. apply bigsum_ext. intros t _. f_equal. f_equal. lia. Qed.
Lemma mpf_sub_r : forall f g h n j, mpf f (fun s => g s - h s) n j + mpf f h n j = mpf f g n j.
Proof.
  intros. unfold mpf. rewrite <- (bigsum_add D OK). apply bigsum_ext. intros t _. ring.
Qed.

(* the Karatsuba middle product identity on coefficient functions: n = n1 + n0, n1 = n0 + dl, dl in {0,1};
   q = (q0 | q1), t3 = q1 - X^dl q0 *)
Section KaraId.
Variables (f q0 q1 : nat -> T) (n0 n1 dl : nat).
Hypothesis Hn : n1 = (n0 + dl)%nat.
Hypothesis Hd : dl <= 1.
Let q := fun s => if (s <? n0)%nat then q0 s else q1 (s - n0)%nat.
Let qs := fun s => if (s <? dl)%nat then O_ else q0 (s - dl)%nat.
Let t3 := fun s => q1 s - qs s.
Let fp := fun i => f (n1 + i)%nat.

Lemma kara_mid_Z : forall j, mpf fp qs n1 j = mpf fp q0 n0 j.
Proof.
  intros j. destruct dl as [|[|d]]; [| |lia].
  - rewrite Nat.add_0_r in Hn. subst n1. apply mpf_ext. reflexivity. intros s _. unfold qs. cbn. f_equal. lia.
  - replace n1 with (S n0) by lia. unfold mpf at 1. cbn [ProofsSum.bigsum].
    replace (S n0 - 1 - n0)%nat with 0%nat by lia. unfold qs at 2. cbn [Nat.ltb Nat.leb].
    transitivity (bigsum (fun t => fp (j + t) * qs (S n0 - 1 - t)) n0). ring.
    unfold mpf. apply bigsum_ext. intros t Ht. f_equal. unfold qs.
    destruct (Nat.ltb_spec (S n0 - 1 - t) 1); [lia|]. f_equal. lia.
Qed.
Lemma kara_mid_target : forall j, mpf f q (n1 + n0) j = mpf f q1 n1 j + mpf fp q0 n0 j.
Proof.
  intros j. rewrite mpf_split. f_equal.
  - apply mpf_ext. reflexivity. intros s _. unfold q. destruct (Nat.ltb_spec (n0 + s) n0); [lia|]. f_equal. lia.
  - apply mpf_ext. reflexivity. intros s Hs. unfold q. destruct (Nat.ltb_spec s n0); [reflexivity|lia].
Qed.
Lemma kara_mid_S : forall j, mpf fp t3 n1 j + mpf fp q0 n0 j = mpf fp q1 n1 j.
Proof. intros j. rewrite <- kara_mid_Z. apply mpf_sub_r. Qed.
(* low part: MP_j = MP(P0 + P1+, Q1)_j - S2_j *)
Lemma kara_mid_low : forall j,
  mpf f q (n1 + n0) j = mpf (fun i => f i + f (n1 + i)%nat) q1 n1 j - mpf fp t3 n1 j.
Proof.
  intros j. rewrite kara_mid_target, mpf_add_l. fold fp. rewrite <- (kara_mid_S j). ring.
Qed.
(* high part: MP_(n1+j) = MP(P1- + P2, Q0)_j + S2_j *)
Lemma kara_mid_high : forall j,
  mpf f q (n1 + n0) (n1 + j) = mpf (fun i => f (n1 + i)%nat + f (2 * n1 + i)%nat) q0 n0 j + mpf fp t3 n1 j.
Proof.
  intros j. rewrite mpf_shift. fold fp.
  transitivity (mpf fp q1 n1 j + mpf (fun i => fp (n1 + i)%nat) q0 n0 j).
  - rewrite mpf_split. f_equal.
    + apply mpf_ext. reflexivity. intros s _. unfold q. destruct (Nat.ltb_spec (n0 + s) n0); [lia|]. f_equal. lia.
    + apply mpf_ext. reflexivity. intros s Hs. unfold q. destruct (Nat.ltb_spec s n0); [reflexivity|lia].
  - rewrite mpf_add_l. fold fp. rewrite <- (kara_mid_S j).
    rewrite (mpf_ext (fun i => f (2 * n1 + i)%nat) (fun i => fp (n1 + i)%nat) q0 q0 n0 j).
    ring. intros t _. unfold fp. f_equal. lia. reflexivity.
Qed.
End KaraId.

(* ---- slices and entrywise sums *)
Lemma length_slice : forall (P : list T) a k, length (slice P a k) = Nat.min k (length P - a).
Proof. intros. unfold slice. rewrite firstn_length, skipn_length. reflexivity. Qed.
Lemma coef_slice : forall (P : list T) a k i, coef (slice P a k) i = if (i <? k)%nat then coef P (a + i) else O_.
Proof. intros. unfold slice. rewrite (coef_firstn D), (coef_skipn D). reflexivity. Qed.
Lemma length_zipadd : forall A B, length (zipadd D A B) = Nat.min (length A) (length B).
Proof. intros. unfold zipadd. rewrite map_length, combine_length. reflexivity. Qed.
Lemma length_zipsub : forall A B, length (zipsub D A B) = Nat.min (length A) (length B).
Proof. intros. unfold zipsub. rewrite map_length, combine_length. reflexivity. Qed.
Lemma coef_zipadd : forall A B i, i < length A -> i < length B -> coef (zipadd D A B) i = coef A i + coef B i.
Proof.
  induction A as [|a A IH]; intros B i HA HB. cbn in HA; lia.
  destruct B as [|b B]. cbn in HB; lia.
  destruct i. reflexivity. unfold zipadd. cbn [combine map]. rewrite !coef_cons_S. apply IH; cbn [length] in *; lia.
Qed.
Lemma coef_zipsub : forall A B i, i < length A -> i < length B -> coef (zipsub D A B) i = coef A i - coef B i.
Proof.
  induction A as [|a A IH]; intros B i HA HB. cbn in HA; lia.
  destruct B as [|b B]. cbn in HB; lia.
  destruct i. reflexivity. unfold zipsub. cbn [combine map]. rewrite !coef_cons_S. apply IH; cbn [length] in *; lia.
Qed.

(* ---- karamidmul (balanced) *)
Lemma karamidmul_body_ok : forall rec, mp_ok rec -> forall P Q, 1 <= length Q -> length P = (2 * length Q - 1)%nat ->
  length (karamidmul_body D rec P Q) = length Q /\
  forall j, j < length Q -> coef (karamidmul_body D rec P Q) j = mpf (coef P) (coef Q) (length Q) j.
Proof.
  intros rec Hrec P Q HQ HP. unfold karamidmul_body.
  destruct (length Q) as [|[|n']] eqn:EQ. lia.
  - (* n = 1 *)
    split. reflexivity. intros j Hj. assert (j = 0%nat) by lia. subst j.
    unfold mpf. cbn [ProofsSum.bigsum Nat.sub plus]. rewrite coef_cons_0. ring.
  - set (n := S (S n')) in *. set (n0 := Nat.div2 n). set (n1 := (n - n0)%nat).
    assert (H0 : 1 <= n0). { unfold n0, n. cbn [Nat.div2]. lia. }
    assert (Hd2 : 2 * n0 <= n /\ n <= 2 * n0 + 1). { unfold n0. split. apply div2_le. apply div2_ge. }
    assert (H1 : n1 = (n0 + (n1 - n0))%nat /\ n1 - n0 <= 1) by (unfold n1; lia).
    set (Q0 := firstn n0 Q). set (Q1 := skipn n0 Q).
    assert (LQ0 : length Q0 = n0) by (unfold Q0; rewrite firstn_length; lia).
    assert (LQ1 : length Q1 = n1) by (unfold Q1, n1; rewrite skipn_length; lia).
    set (T1 := zipadd D (slice P 0 (2 * n1 - 1)) (slice P n1 (2 * n1 - 1))).
    set (T2 := zipadd D (slice P n1 (2 * n0 - 1)) (skipn (2 * n1) P)).
    set (T3 := if (n0 =? n1)%nat then zipsub D Q1 Q0 else match Q1 with [] => [] | q :: Q1' => q :: zipsub D Q1' Q0 end).
    set (P1p := slice P n1 (2 * n1 - 1)).
    assert (LT1 : length T1 = (2 * n1 - 1)%nat). { unfold T1. rewrite length_zipadd, !length_slice. lia. }
    assert (LT2 : length T2 = (2 * n0 - 1)%nat). { unfold T2. rewrite length_zipadd, length_slice, skipn_length. lia. }
    assert (LP1 : length P1p = (2 * n1 - 1)%nat). { unfold P1p. rewrite length_slice. lia. }
    assert (LT3 : length T3 = n1).
    { unfold T3. destruct (Nat.eqb_spec n0 n1). rewrite length_zipsub. lia.
      destruct Q1 as [|q Q1']. cbn [length] in LQ1. lia. cbn [length] in *. rewrite length_zipsub. lia. }
    assert (CT3 : forall s, s < n1 -> coef T3 s = coef Q1 s - (if (s <? n1 - n0)%nat then O_ else coef Q0 (s - (n1 - n0)))).
    { intros s Hs. unfold T3. destruct (Nat.eqb_spec n0 n1) as [E|E].
      - rewrite coef_zipsub by lia. replace (n1 - n0)%nat with 0%nat by lia. cbn [Nat.ltb Nat.leb]. rewrite Nat.sub_0_r. reflexivity.
      - replace (n1 - n0)%nat with 1%nat by lia. destruct Q1 as [|q Q1']. cbn [length] in LQ1. lia.
        destruct s as [|s]. cbn [Nat.ltb Nat.leb]. rewrite !coef_cons_0. ring.
        cbn [Nat.ltb Nat.leb]. rewrite !coef_cons_S. cbn [length] in LQ1. rewrite coef_zipsub by lia.
        replace (S s - 1)%nat with s by lia. reflexivity. }
    destruct (Hrec T1 Q1) as [L0 C0]; [lia | lia |].
    destruct (Hrec T2 Q0) as [L1 C1]; [lia | lia |].
    destruct (Hrec P1p T3) as [L2 C2]; [lia | lia |].
    rewrite LT1, LQ1 in *. rewrite LT2, LQ0 in *. rewrite LP1, LT3 in *.
    replace (2 * n1 - 1 - n1 + 1)%nat with n1 in * by lia. replace (2 * n0 - 1 - n0 + 1)%nat with n0 in * by lia.
    fold Q0 Q1 T1 T2 T3 P1p.
    set (R0 := rec T1 Q1) in *. set (R1 := rec T2 Q0) in *. set (S2 := rec P1p T3) in *.
    split. { rewrite app_length, length_subshift, length_addshift. lia. }
    intros j Hj.
    (* the coefficient functions *)
    assert (EQn : n = (n1 + n0)%nat) by (unfold n1; lia).
    assert (Target : forall i, mpf (coef P) (coef Q) n i =
              mpf (coef P) (fun s => if (s <? n0)%nat then coef Q0 s else coef Q1 (s - n0)) (n1 + n0) i).
    { intros i. rewrite <- EQn. apply mpf_ext. reflexivity. intros s Hs. unfold Q0, Q1. rewrite (coef_firstn D), (coef_skipn D).
      destruct (Nat.ltb_spec s n0). reflexivity. f_equal. lia. }
    assert (ES2 : forall i, i < n1 -> coef S2 i = mpf (fun u => coef P (n1 + u)) (fun s => coef Q1 s - (if (s <? n1 - n0)%nat then O_ else coef Q0 (s - (n1 - n0)))) n1 i).
    { intros i Hi. rewrite C2 by assumption. apply mpf_ext.
      - intros t Ht. unfold P1p. rewrite coef_slice. destruct (Nat.ltb_spec (i + t) (2 * n1 - 1)); [reflexivity|lia].
      - intros s Hs. apply CT3. assumption. }
    rewrite coef_app, length_subshift, L0.
    destruct (Nat.ltb_spec j n1) as [Hj1|Hj1].
    + rewrite (coef_subshift D OK), L0. destruct (Nat.ltb_spec j n1); [|lia]. cbn [Nat.leb andb]. rewrite Nat.sub_0_r.
      rewrite Target, (kara_mid_low (coef P) (coef Q0) (coef Q1) n0 n1 (n1 - n0) (proj1 H1) (proj2 H1) j).
      rewrite ES2 by assumption. f_equal.
      rewrite C0 by assumption. apply mpf_ext; [|reflexivity].
      intros t Ht. unfold T1. rewrite coef_zipadd by (rewrite length_slice; lia). rewrite !coef_slice.
      destruct (Nat.ltb_spec (j + t) (2 * n1 - 1)); [reflexivity|lia].
    + rewrite (coef_addshift D OK), L1. destruct (Nat.ltb_spec (j - n1) n0); [|lia]. cbn [Nat.leb andb]. rewrite Nat.sub_0_r.
      replace j with (n1 + (j - n1))%nat at 3 by lia.
      rewrite Target, (kara_mid_high (coef P) (coef Q0) (coef Q1) n0 n1 (n1 - n0) (proj1 H1) (proj2 H1) (j - n1)).
      rewrite ES2 by lia. f_equal.
      rewrite C1 by assumption. apply mpf_ext; [|reflexivity].
      intros t Ht. unfold T2. rewrite coef_zipadd by (rewrite ?length_slice, ?skipn_length; lia). rewrite coef_slice, (coef_skipn D).
      destruct (Nat.ltb_spec (j - n1 + t) (2 * n0 - 1)); [reflexivity|lia].
Qed.

(* ---- the dispatching midmul: blocks of balanced products *)
(* m > n: blocks of n result coefficients *)
Lemma midmul_blocks_ok : forall kb (P Q : list T), 1 <= length Q ->
  (forall P' Q', 1 <= length Q' -> length P' = (2 * length Q' - 1)%nat ->
     length (kb P' Q') = length Q' /\ forall j, j < length Q' -> coef (kb P' Q') j = mpf (coef P') (coef Q') (length Q') j) ->
  forall cnt i, i + cnt * length Q + length Q - 1 <= length P ->
  length (midmul_blocks kb P Q (length Q) i cnt) = (cnt * length Q)%nat /\
  forall j, j < cnt * length Q -> coef (midmul_blocks kb P Q (length Q) i cnt) j = mpf (coef P) (coef Q) (length Q) (i + j).
Proof.
  intros kb P Q HQ Hkb. induction cnt as [|c IH]; intros i Hfit.
  - split. reflexivity. intros j Hj. cbn in Hj. lia.
  - cbn [midmul_blocks].
    assert (LS : length (slice P i (2 * length Q - 1)) = (2 * length Q - 1)%nat). { rewrite length_slice. cbn [Nat.mul] in Hfit. lia. }
    destruct (Hkb (slice P i (2 * length Q - 1)) Q HQ LS) as [L0 C0].
    destruct (IH (i + length Q)%nat) as [L1 C1]. { cbn [Nat.mul] in Hfit. lia. }
    split. rewrite app_length, L0, L1. cbn [Nat.mul]. lia.
    intros j Hj. rewrite coef_app, L0. destruct (Nat.ltb_spec j (length Q)).
    + rewrite C0 by assumption. rewrite mpf_shift. apply mpf_ext; [|reflexivity]. intros t Ht. rewrite coef_slice.
      destruct (Nat.ltb_spec (j + t) (2 * length Q - 1)); [reflexivity|lia].
    + rewrite C1 by (cbn [Nat.mul] in Hj; lia). f_equal. lia.
Qed.

(* m < n: the sum over Q is accumulated block by block; PS a j = the part of MP_j that uses Q[0..a) *)
Definition psum (P Q : list T) (n a j : nat) : T := bigsum (fun s => coef P (j + n - 1 - s) * coef Q s) a.
Lemma mpf_psum : forall (P Q : list T) n j, mpf (coef P) (coef Q) n j = psum P Q n n j.
Proof.
  intros. unfold mpf, psum. rewrite (bigsum_rev D OK). apply bigsum_ext. intros t Ht. f_equal; f_equal; lia.
Qed.
Lemma psum_split : forall (P Q : list T) n a b j,
  psum P Q n (a + b) j = psum P Q n a j + bigsum (fun s' => coef P (j + n - 1 - (a + s')) * coef Q (a + s')) b.
Proof. intros. unfold psum. apply (bigsum_split D OK). Qed.
(* a balanced product of the slices P[pe-(2m-1),pe), Q[qb,qb+m) with pe = |P| - qb adds the terms s = qb .. qb+m-1 *)
Lemma psum_block : forall (P Q : list T) m qb j, 1 <= m -> j < m -> qb + m <= length Q -> length P = (m + length Q - 1)%nat ->
  mpf (coef (slice P (length P - qb - (2 * m - 1)) (2 * m - 1))) (coef (slice Q qb m)) m j =
  bigsum (fun s' => coef P (j + length Q - 1 - (qb + s')) * coef Q (qb + s')) m.
Proof.
  intros P Q m qb j Hm Hj Hq HP. unfold mpf. rewrite (bigsum_rev D OK). apply bigsum_ext. intros t Ht.
  rewrite !coef_slice. destruct (Nat.ltb_spec (j + (m - 1 - t)) (2 * m - 1)); [|lia].
  destruct (Nat.ltb_spec (m - 1 - (m - 1 - t)) m); [|lia]. f_equal; f_equal; lia.
Qed.
Lemma midmul_acc_ok : forall kb (P Q : list T) m, 1 <= m -> length P = (m + length Q - 1)%nat ->
  (forall P' Q', 1 <= length Q' -> length P' = (2 * length Q' - 1)%nat ->
     length (kb P' Q') = length Q' /\ forall j, j < length Q' -> coef (kb P' Q') j = mpf (coef P') (coef Q') (length Q') j) ->
  forall cnt R qb, length R = m -> (forall j, j < m -> coef R j = psum P Q (length Q) qb j) -> qb + cnt * m <= length Q ->
  length (midmul_acc D kb R P Q m (length P - qb) qb cnt) = m /\
  forall j, j < m -> coef (midmul_acc D kb R P Q m (length P - qb) qb cnt) j = psum P Q (length Q) (qb + cnt * m) j.
Proof.
  intros kb P Q m Hm HP Hkb. induction cnt as [|c IH]; intros R qb LR CR Hq.
  - cbn [midmul_acc]. split. exact LR. intros j Hj. rewrite CR by assumption. f_equal. lia.
  - cbn [midmul_acc]. cbn [Nat.mul] in Hq.
    assert (LQs : length (slice Q qb m) = m) by (rewrite length_slice; lia).
    assert (LPs : length (slice P (length P - qb - (2 * m - 1)) (2 * m - 1)) = (2 * length (slice Q qb m) - 1)%nat).
    { rewrite LQs, length_slice. lia. }
    assert (LQ1 : 1 <= length (slice Q qb m)) by lia.
    destruct (Hkb _ _ LQ1 LPs) as [L0 C0]. rewrite LQs in L0, C0.
    replace (length P - qb - m)%nat with (length P - (qb + m))%nat by lia.
    destruct (IH (addshift D R 0 (kb (slice P (length P - qb - (2 * m - 1)) (2 * m - 1)) (slice Q qb m))) (qb + m)%nat) as [L1 C1].
    + rewrite length_addshift. exact LR.
    + intros j Hj. rewrite (coef_addshift D OK), LR. destruct (Nat.ltb_spec j m); [|lia]. cbn [Nat.leb andb]. rewrite Nat.sub_0_r.
      rewrite CR, C0 by assumption. rewrite psum_block by (try assumption; lia).
      rewrite psum_split. reflexivity.
    + lia.
    + split. exact L1. intros j Hj. rewrite C1 by assumption. f_equal. cbn [Nat.mul]. lia.
Qed.

Lemma midmul_r_ok : forall fuel thr, mp_ok (midmul_r D fuel thr).
Proof.
  induction fuel as [|f IH]; intros thr. exact stdmidmul_ok.
  intros P Q HQ HP. cbn [midmul_r].
  set (n := length Q) in *. set (m := (length P - n + 1)%nat).
  assert (LP : length P = (m + n - 1)%nat) by (unfold m; lia).
  pose proof (karamidmul_body_ok (midmul_r D f thr) (IH thr)) as Hkb.
  destruct (Nat.min m n <=? thr). { apply stdmidmul_ok; assumption. }
  destruct (Nat.eqb_spec m n) as [Emn|Emn].
  { destruct (Hkb P Q HQ ltac:(fold n; lia)) as [L C]. fold n in L, C. split. lia. intros j Hj. apply C. lia. }
  destruct (Nat.ltb_spec n m) as [Hnm|Hnm].
  - (* m > n *)
    set (k := ((m - n) / n + 1)%nat).
    assert (Hk1 : k * n <= m).
    { unfold k. pose proof (Nat.mul_div_le (m - n) n ltac:(lia)). lia. }
    destruct (midmul_blocks_ok (karamidmul_body D (midmul_r D f thr)) P Q HQ Hkb k 0%nat) as [L0 C0]. { fold n. lia. }
    fold n in L0, C0.
    destruct (Nat.ltb_spec (k * n) m) as [Hkm|Hkm].
    + destruct (IH thr (skipn (k * n) P) Q HQ) as [L1 C1]. { rewrite skipn_length. fold n. lia. }
      rewrite skipn_length in L1, C1. fold n in L1, C1.
      split. rewrite app_length, L0, L1. lia.
      intros j Hj. rewrite coef_app, L0. destruct (Nat.ltb_spec j (k * n)).
      * rewrite C0 by assumption. reflexivity.
      * rewrite C1 by lia. replace j with (k * n + (j - k * n))%nat at 2 by lia. rewrite mpf_shift.
        apply mpf_ext; [|reflexivity]. intros t _. rewrite (coef_skipn D). reflexivity.
    + rewrite app_nil_r. split. lia. intros j Hj. rewrite C0 by lia. reflexivity.
  - (* m < n *)
    assert (Hmn : m < n) by lia. assert (Hm1 : 1 <= m) by (unfold m; lia).
    set (kb := karamidmul_body D (midmul_r D f thr)) in *.
    assert (LF : length (firstn m Q) = m) by (rewrite firstn_length; lia).
    assert (LS0 : length (slice P (length P - (2 * m - 1)) (2 * m - 1)) = (2 * length (firstn m Q) - 1)%nat).
    { rewrite LF, length_slice. lia. }
    assert (LF1 : 1 <= length (firstn m Q)) by lia.
    destruct (Hkb _ _ LF1 LS0) as [L0 C0]. rewrite LF in L0, C0.
    set (R0 := kb (slice P (length P - (2 * m - 1)) (2 * m - 1)) (firstn m Q)) in *.
    set (k := ((n - m) / m)%nat).
    assert (Hk1 : m + k * m <= n). { unfold k. pose proof (Nat.mul_div_le (n - m) m ltac:(lia)). lia. }
    assert (Hk2 : n < m + k * m + m). { unfold k. pose proof (Nat.mul_succ_div_gt (n - m) m ltac:(lia)). lia. }
    assert (CR0 : forall j, j < m -> coef R0 j = psum P Q n m j).
    { intros j Hj. rewrite C0 by assumption.
      transitivity (mpf (coef (slice P (length P - 0 - (2 * m - 1)) (2 * m - 1))) (coef (slice Q 0 m)) m j).
      { apply mpf_ext. intros t _. rewrite Nat.sub_0_r. reflexivity. intros s _. unfold slice. reflexivity. }
      rewrite psum_block by (try assumption; fold n; lia). unfold psum. apply bigsum_ext. intros s _. reflexivity. }
    replace (length P - m)%nat with (length P - m)%nat by reflexivity.
    destruct (midmul_acc_ok kb P Q m Hm1 LP Hkb k R0 m L0 CR0 Hk1) as [L1 C1].
    fold n in C1. set (R1 := midmul_acc D kb R0 P Q m (length P - m) m k) in *.
    destruct (Nat.ltb_spec (m + k * m) n) as [Hq|Hq].
    + (* a last unbalanced part *)
      assert (LQ' : length (skipn (m + k * m) Q) = (n - (m + k * m))%nat) by (rewrite skipn_length; reflexivity).
      assert (LP' : length (firstn (length P - m - k * m) P) = (length P - m - k * m)%nat) by (rewrite firstn_length; lia).
      destruct (IH thr (firstn (length P - m - k * m) P) (skipn (m + k * m) Q)) as [L2 C2]; [lia | lia |].
      rewrite LP', LQ' in L2, C2. replace (length P - m - k * m - (n - (m + k * m)) + 1)%nat with m in L2, C2 by lia.
      split. rewrite length_addshift. exact L1.
      intros j Hj. rewrite (coef_addshift D OK), L1. destruct (Nat.ltb_spec j m); [|lia]. cbn [Nat.leb andb]. rewrite Nat.sub_0_r.
      rewrite C1, C2 by assumption. rewrite (mpf_psum P Q n j).
      replace (psum P Q n n j) with (psum P Q n ((m + k * m) + (n - (m + k * m))) j) by (f_equal; lia).
      rewrite (psum_split P Q n (m + k * m) (n - (m + k * m)) j). f_equal. unfold mpf. rewrite (bigsum_rev D OK). apply bigsum_ext. intros t Ht.
      rewrite (coef_firstn D), (coef_skipn D).
      destruct (Nat.ltb_spec (j + (n - (m + k * m) - 1 - t)) (length P - m - k * m)); [|lia].
      f_equal; f_equal; lia.
    + split. exact L1. intros j Hj. rewrite C1 by assumption. rewrite mpf_psum. f_equal. lia.
Qed.

(* ---- the public forms *)
Lemma peq_prefix_setdegree : forall (R : list T) (g : nat -> T), (forall j, j < length R -> coef R j = g j) ->
  forall j, coef (setdegree D R) j = if (j <? length R)%nat then g j else O_.
Proof.
  intros R g H j. rewrite (coef_setdegree D OK). destruct (Nat.ltb_spec j (length R)). apply H. assumption. apply (coef_ge D). assumption.
Qed.
Lemma midmul_spec : forall thr P Q, 1 <= length Q -> length Q <= length P ->
  forall j, coef (midmul D thr P Q) j = if (j <? length P - length Q + 1)%nat then coef (pmul P Q) (length Q - 1 + j) else O_.
Proof.
  intros thr P Q HQ HP j. unfold midmul. destruct P as [|a P]. cbn in *; lia. destruct Q as [|b Q]. cbn in HQ; lia.
  destruct (midmul_r_ok (length (a :: P)) thr (a :: P) (b :: Q) HQ HP) as [L C].
  rewrite <- L in C. rewrite (peq_prefix_setdegree _ _ C j), L. destruct (Nat.ltb_spec j (length (a :: P) - length (b :: Q) + 1)); [|reflexivity].
  symmetry. apply coef_pmul_mid. assumption.
Qed.
Lemma stdmidmul_spec : forall P Q, 1 <= length Q -> length Q <= length P ->
  forall j, coef (stdmidmul D P Q) j = if (j <? length P - length Q + 1)%nat then coef (pmul P Q) (length Q - 1 + j) else O_.
Proof.
  intros P Q HQ HP j. unfold stdmidmul. destruct (stdmidmul_ok P Q HQ HP) as [L C].
  rewrite <- L in C. rewrite (peq_prefix_setdegree _ _ C j), L. destruct (Nat.ltb_spec j (length P - length Q + 1)); [|reflexivity].
  symmetry. apply coef_pmul_mid. assumption.
Qed.
Lemma karamidmul_spec : forall thr P Q, 1 <= length Q -> length P = (2 * length Q - 1)%nat ->
  forall j, coef (karamidmul D thr P Q) j = if (j <? length Q)%nat then coef (pmul P Q) (length Q - 1 + j) else O_.
Proof.
  intros thr P Q HQ HP j. unfold karamidmul.
  destruct (karamidmul_body_ok (midmul_r D (length P) thr) (midmul_r_ok (length P) thr) P Q HQ HP) as [L C].
  rewrite <- L in C. rewrite (peq_prefix_setdegree _ _ C j), L. destruct (Nat.ltb_spec j (length Q)); [|reflexivity].
  symmetry. apply coef_pmul_mid. assumption.
Qed.
End Mid.
