(* C08: the remaining value statements: pow, the fused forms, the scalar forms, reversal, derivative, evaluation (Horner),
   the truncated product and the composition with X^b - each agrees with its definition, for all operands. *)
From Coq Require Import List Arith Lia Setoid Morphisms Ring Bool ZArith PArith.
From C08 Require Import Model Spec ProofsBasic ProofsSum ProofsKara ProofsDiv ProofsSqr ProofsRev ProofsPow.
Import ListNotations.

Section Misc.
Context {T : Type} (D : Dom T) (OK : FieldOK D).
Local Notation O_ := (d0 D).
Local Notation I_ := (d1 D).
Local Notation "a + b" := (dadd D a b).
Local Notation "a * b" := (dmul D a b).
Local Notation "a - b" := (dsub D a b).
Local Notation coef := (coef D).
Local Notation peq := (peq D).
Local Notation pmul := (pmul D).
Local Notation padd := (add D).
Local Notation psub := (sub D).
Local Notation pneg := (neg D).
Local Notation eqv := (eqv D).
Local Notation bigsum := (bigsum D).
Local Instance ms_equiv : Equivalence eqv := eqv_equiv D.
Local Instance ms_add : Proper (eqv ==> eqv ==> eqv) padd := eqv_add D OK.
Local Instance ms_sub : Proper (eqv ==> eqv ==> eqv) psub := eqv_sub D OK.
Local Instance ms_mul : Proper (eqv ==> eqv ==> eqv) pmul := eqv_mul D OK.
Local Instance ms_neg : Proper (eqv ==> eqv) pneg := eqv_neg D OK.
Add Ring Tring14 : (Trt D OK).
Add Ring EringS : (eqv_ring D OK) (setoid (eqv_equiv D) (eqv_ext D OK)).
Add Ring EringSP : (eqv_ring_poly D OK) (setoid (eqv_equiv D) (eqv_ext D OK)).

Lemma eqv_of_coef : forall P Q, (forall i, coef P i = coef Q i) -> eqv P Q.
Proof. intros. constructor. assumption. Qed.
Lemma coef_scal : forall u P i, coef (pmul [u] P) i = u * coef P i.
Proof.
  intros. rewrite (coef_pmul_cons D OK). destruct i; cbn [Spec.pmul]; rewrite ?coef_nil; ring.
Qed.

(* ---- pow *)
Lemma ppw_eqv : forall p X Y, eqv X Y -> eqv (ppw D X p) (ppw D Y p).
Proof.
  induction p as [q IH|q IH|]; intros X Y H; cbn [ppw].
  - rewrite H at 1. apply ms_mul. reflexivity. apply IH. rewrite H. reflexivity.
  - apply IH. rewrite H. reflexivity.
  - exact H.
Qed.
Lemma pow_pos_eqv : forall kthr, 1 <= kthr -> forall p W pu, eqv (pow_pos D kthr W pu p) (pmul W (ppw D pu p)).
Proof.
  intros kthr Hk. induction p as [q IH|q IH|]; intros W pu; cbn [pow_pos ppw]; unfold assign, pmulK.
  - rewrite IH. rewrite (ppw_eqv q _ (pmul pu pu)) by (rewrite (setdegree_eqv D OK), (mul_eqv D OK kthr _ _ Hk); reflexivity).
    rewrite (setdegree_eqv D OK), (mul_eqv D OK kthr _ _ Hk). ring.
  - rewrite IH. rewrite (ppw_eqv q _ (pmul pu pu)) by (rewrite (setdegree_eqv D OK), (mul_eqv D OK kthr _ _ Hk); reflexivity).
    reflexivity.
  - rewrite (setdegree_eqv D OK), (mul_eqv D OK kthr _ _ Hk). reflexivity.
Qed.
Lemma pow_spec : forall kthr P (n : N), 1 <= kthr -> eqv (pow D kthr P n) (pun D P (N.to_nat n)) /\ normal D (pow D kthr P n).
Proof.
  intros kthr P n Hk. split.
  - destruct n as [|p]; unfold pow.
    + unfold assign. rewrite (setdegree_eqv D OK). reflexivity.
    + rewrite (pow_pos_eqv kthr Hk), (ppw_eqv p _ P) by (unfold assign; apply (setdegree_eqv D OK)).
      rewrite (ppw_pun D OK), positive_N_nat. unfold assign. rewrite (setdegree_eqv D OK). ring.
  - destruct n as [|p]; unfold pow. apply (setdegree_normal D OK).
    generalize (assign D [I_]) (assign D P). induction p as [q IH|q IH|]; intros W pu; cbn [pow_pos]; try apply IH.
    apply (setdegree_normal D OK).
Qed.

(* ---- the fused forms *)
Lemma addin_eqv : forall R P, eqv (addin D R P) (padd R P).
Proof.
  intros R P. apply eqv_of_coef. intros i. unfold addin. destruct P as [|p P]. rewrite (coef_add D OK), coef_nil. ring.
  destruct R as [|r R]. rewrite (coef_setdegree D OK), (coef_add D OK), coef_nil. ring.
  rewrite (coef_setdegree D OK). reflexivity.
Qed.
Lemma neg_eqv : forall P, eqv (neg D P) (pneg P).
Proof. reflexivity. Qed.
Lemma coef_axpy_s_raw : forall a x y i, coef (axpy_s_raw D a x y) i = a * coef x i + coef y i.
Proof.
  intros a. induction x as [|xi x IH]; intros y i.
  - destruct y; cbn [axpy_s_raw]; rewrite coef_nil; ring.
  - destruct y as [|yi y]; cbn [axpy_s_raw].
    + rewrite coef_nil. fold (pscale D a (xi :: x)). rewrite (coef_pscale D OK). ring.
    + destruct i. reflexivity. rewrite !coef_cons_S. apply IH.
Qed.
Lemma axpy_s_eqv : forall a x y, eqv (axpy_s D a x y) (padd (pmul [a] x) y).
Proof.
  intros. apply eqv_of_coef. intros i. unfold axpy_s. rewrite (coef_setdegree D OK), coef_axpy_s_raw, (coef_add D OK), coef_scal. reflexivity.
Qed.
Lemma fused_spec : forall kthr, 1 <= kthr -> forall (a x y r : list T) (s : T),
  eqv (axpy D kthr a x y) (padd (pmul a x) y) /\ eqv (axpyin D kthr r a x) (padd (pmul a x) r) /\
  eqv (maxpy D kthr a x y) (psub y (pmul a x)) /\ eqv (maxpyin D kthr r a x) (psub r (pmul a x)) /\
  eqv (axmy D kthr a x y) (psub (pmul a x) y) /\ eqv (axmyin D kthr r a x) (psub (pmul a x) r) /\
  eqv (axpy_s D s x y) (padd (pmul [s] x) y) /\ eqv (axpyin_s D r s x) (padd (pmul [s] x) r) /\
  eqv (maxpyin_s D r s x) (psub r (pmul [s] x)) /\
  eqv (axmy_s D s x y) (psub (pmul [s] x) y) /\ eqv (axmyin_s D r s x) (psub (pmul [s] x) r).
Proof.
  intros kthr Hk a x y r s.
  unfold axpy, axpyin, axpy, maxpy, maxpyin, axmy, axmyin, maxpyin, axpyin_s, maxpyin_s, axmy_s, axmyin_s, maxpyin_s, pmulK, assign.
  repeat match goal with |- _ /\ _ => split end;
    rewrite ?neg_eqv, ?addin_eqv, ?(subin_eqv D OK), ?(sub_pub_eqv D OK), ?axpy_s_eqv, ?(mul_s_eqv D OK), ?(mul_eqv D OK kthr _ _ Hk), ?(setdegree_eqv D OK);
    try ring.
Qed.

(* ---- the scalar forms *)
Lemma scalar_spec : forall (P : list T) (v : T),
  eqv (add_s D P v) (padd P [v]) /\ eqv (addin_s D P v) (padd P [v]) /\
  eqv (sub_s D P v) (psub P [v]) /\ eqv (subin_s D P v) (psub P [v]) /\ eqv (s_sub D v P) (psub [v] P) /\
  eqv (mul_s D P v) (pmul [v] P) /\ eqv (div_s D P v) (pmul [dinv D v] P).
Proof.
  intros P v. repeat match goal with |- _ /\ _ => split end; try apply (mul_s_eqv D OK); try apply (div_s_eqv D OK); apply eqv_of_coef; intros i.
  - unfold add_s, assign. rewrite (coef_setdegree D OK), (coef_add D OK), <- (coef_setdegree D OK P).
    destruct (setdegree D P) as [|p0 R]. rewrite coef_nil. ring.
    destruct i. rewrite !coef_cons_0. ring. rewrite !coef_cons_S, coef_nil. ring.
  - unfold addin_s. rewrite (coef_setdegree D OK), (coef_add D OK).
    destruct P as [|p0 R]. rewrite coef_nil. ring.
    destruct i. rewrite !coef_cons_0. ring. rewrite !coef_cons_S, coef_nil. ring.
  - unfold sub_s, assign. rewrite (coef_setdegree D OK), (coef_sub D OK), <- (coef_setdegree D OK P).
    destruct (setdegree D P) as [|p0 R]. destruct i. rewrite !coef_cons_0, coef_nil. ring. rewrite !coef_cons_S, !coef_nil. ring.
    destruct i. rewrite !coef_cons_0. ring. rewrite !coef_cons_S, coef_nil. ring.
  - unfold subin_s. rewrite (coef_setdegree D OK), (coef_sub D OK).
    destruct P as [|p0 R]. destruct i. rewrite !coef_cons_0, coef_nil. ring. rewrite !coef_cons_S, !coef_nil. ring.
    destruct i. rewrite !coef_cons_0. ring. rewrite !coef_cons_S, coef_nil. ring.
  - unfold s_sub. rewrite (coef_setdegree D OK), (coef_sub D OK).
    destruct P as [|p0 R]. rewrite coef_nil. ring.
    destruct i. rewrite !coef_cons_0. ring. rewrite !coef_cons_S, coef_nil, (coef_neg D OK). ring.
Qed.

(* ---- reversal *)
Lemma reverse_spec : forall Q i, coef (reverse D Q) i = if (i <? length Q)%nat then coef Q (length Q - 1 - i) else O_.
Proof. intros. unfold reverse. rewrite (coef_setdegree D OK). apply (coef_rev D). Qed.

(* ---- derivative: coefficient i of P' is (i+1) * P[i+1], (i+1) = 1 + ... + 1 in the domain *)
Fixpoint natT (n : nat) : T := match n with O => O_ | S m => natT m + I_ end.
Lemma coef_diff_aux : forall L c i, coef (diff_aux D c L) i = coef L i * (c + natT (S i)).
Proof.
  induction L as [|a L IH]; intros c i.
  - cbn [diff_aux]. rewrite coef_nil. ring.
  - cbn [diff_aux]. destruct i. rewrite !coef_cons_0. cbn [natT]. ring.
    rewrite !coef_cons_S, IH. cbn [natT]. ring.
Qed.
Lemma diff_spec : forall Q i, coef (diff D Q) i = coef Q (S i) * natT (S i).
Proof.
  intros Q i. unfold diff. rewrite <- (coef_setdegree D OK Q (S i)).
  destruct (setdegree D Q) as [|q L]. rewrite !coef_nil. ring.
  rewrite (coef_setdegree D OK), coef_diff_aux, coef_cons_S. ring.
Qed.

(* ---- evaluation: Horner from the leading coefficient = sum of P[i] * v^i *)
Fixpoint peval (P : list T) (v : T) : T := match P with [] => O_ | a :: P' => a + v * peval P' v end.
Lemma peval_setdegree : forall P v, peval (setdegree D P) v = peval P v.
Proof.
  induction P as [|a P IH]; intros v. reflexivity.
  cbn [setdegree peval]. rewrite <- IH. destruct (setdegree D P) as [|b L].
  - destruct (dis0 D a) eqn:E; cbn [peval]. apply (is0_true D OK) in E. subst a. ring. reflexivity.
  - reflexivity.
Qed.
Lemma horner_fold : forall M c v,
  fold_left (fun acc a => acc * v + a) (rev M) c = peval (M ++ [c]) v.
Proof.
  induction M as [|a M IH]; intros c v.
  - cbn. ring.
  - cbn [rev app peval]. rewrite fold_left_app. cbn [fold_left]. rewrite IH. ring.
Qed.
Lemma eval_spec : forall P v, eval D P v = peval P v.
Proof.
  intros P v. unfold eval. rewrite <- (peval_setdegree P v).
  destruct (rev (setdegree D P)) as [|c L] eqn:E.
  - assert (E2 : setdegree D P = []). { rewrite <- (rev_involutive (setdegree D P)), E. reflexivity. } rewrite E2. reflexivity.
  - assert (E2 : setdegree D P = rev L ++ [c]). { rewrite <- (rev_involutive (setdegree D P)), E. reflexivity. }
    rewrite E2. rewrite <- (horner_fold (rev L) c v), rev_involutive. reflexivity.
Qed.

(* ---- composition with X^b *)
Lemma coef_map_seq : forall (g : nat -> T) n i, coef (map g (seq 0 n)) i = if (i <? n)%nat then g i else O_.
Proof.
  intros g n i. destruct (Nat.ltb_spec i n).
  - unfold Model.coef. rewrite (nth_indep _ O_ (g 0%nat)) by (rewrite map_length, seq_length; assumption).
    rewrite (map_nth g (seq 0 n) 0%nat i), seq_nth by assumption. reflexivity.
  - apply (coef_ge D). rewrite map_length, seq_length. assumption.
Qed.
Lemma power_compose_spec : forall P b i, 1 <= b ->
  coef (power_compose D P b) i = if (Nat.modulo i b =? 0)%nat then coef P (Nat.div i b) else O_.
Proof.
  intros P b i Hb. unfold power_compose.
  assert (HP : forall k, coef P k = coef (setdegree D P) k) by (intros; symmetry; apply (coef_setdegree D OK)).
  rewrite HP. destruct (setdegree D P) as [|a N] eqn:E.
  - rewrite !coef_nil. destruct (i mod b =? 0)%nat; reflexivity.
  - rewrite (coef_setdegree D OK), coef_map_seq.
    destruct (Nat.eqb_spec (i mod b) 0) as [Em|Em]; cbn [andb].
    + destruct (Nat.ltb_spec i (b * (length (a :: N) - 1) + 1)) as [Hi|Hi].
      * destruct (Nat.leb_spec (i / b) (length (a :: N) - 1)); [reflexivity|].
        exfalso. pose proof (Nat.mul_div_le i b ltac:(lia)). nia.
      * symmetry. apply (coef_ge D).
        pose proof (Nat.div_mod i b ltac:(lia)). rewrite Em in H. nia.
    + destruct (i <? b * (length (a :: N) - 1) + 1)%nat; reflexivity.
Qed.

(* ---- truncated product mul(R,P,Q,Val,deg): coefficients Val..deg of P*Q *)
Lemma trunc_row_spec : forall P Q cnt j k acc, (-1 <= k)%Z ->
  length P <= j + cnt ->
  trunc_row D P Q j k cnt acc =
  acc + bigsum (fun t => coef P (j + t) * coef Q (Z.to_nat k - t)) (Nat.min (length P - j) (Z.to_nat (k + 1))).
Proof.
  intros P Q. induction cnt as [|c IH]; intros j k acc Hk Hc.
  - cbn [trunc_row]. replace (length P - j)%nat with 0%nat by lia. cbn [Nat.min ProofsSum.bigsum]. ring.
  - cbn [trunc_row]. destruct (Nat.ltb_spec j (length P)) as [Hj|Hj]; destruct (Z.leb_spec 0 k) as [Hk0|Hk0]; cbn [andb].
    + rewrite IH by lia.
      replace (Nat.min (length P - j) (Z.to_nat (k + 1))) with (S (Nat.min (length P - S j) (Z.to_nat (k - 1 + 1)))) by lia.
      rewrite (bigsum_shift D OK). rewrite Nat.add_0_r, Nat.sub_0_r.
      rewrite (bigsum_ext D _ (fun i => coef P (j + S i) * coef Q (Z.to_nat k - S i)) (fun t => coef P (S j + t) * coef Q (Z.to_nat (k - 1) - t))).
      ring. intros t _. f_equal; f_equal; lia.
    + replace (Z.to_nat (k + 1)) with 0%nat by lia. rewrite Nat.min_0_r. cbn [ProofsSum.bigsum]. ring.
    + replace (length P - j)%nat with 0%nat by lia. cbn [Nat.min ProofsSum.bigsum]. ring.
    + replace (length P - j)%nat with 0%nat by lia. cbn [Nat.min ProofsSum.bigsum]. ring.
Qed.
Lemma mul_trunc_spec : forall P Q v d i,
  coef (mul_trunc D P Q v d) i = if (i <? d - v + 1)%nat then coef (pmul P Q) (i + v) else O_.
Proof.
  intros P Q v d i. unfold mul_trunc.
  destruct P as [|a P]. { rewrite coef_nil. cbn [Spec.pmul]. rewrite coef_nil. destruct (i <? d - v + 1)%nat; reflexivity. }
  destruct Q as [|b Q]. { rewrite coef_nil, (pmul_nil_r D OK (a :: P) (i + v)%nat), coef_nil. destruct (i <? d - v + 1)%nat; reflexivity. }
  set (PP := a :: P). set (QQ := b :: Q).
  rewrite (coef_setdegree D OK), coef_map_seq. destruct (Nat.ltb_spec i (d - v + 1)); [|reflexivity].
  rewrite (coef_pmul_conv D OK).
  assert (LQ : 1 <= length QQ) by (cbn; lia).
  destruct (Nat.leb_spec (length QQ) (i + v)) as [Hq|Hq].
  - (* start at j = k - (sQ-1) *)
    rewrite trunc_row_spec by lia.
    replace (Z.to_nat (Z.of_nat (length QQ - 1) + 1)) with (length QQ) by lia.
    replace (Z.to_nat (Z.of_nat (length QQ - 1))) with (length QQ - 1)%nat by lia.
    set (j0 := (i + v - (length QQ - 1))%nat).
    replace (S (i + v)) with (j0 + length QQ)%nat by (unfold j0; lia).
    rewrite (bigsum_split D OK), (bigsum_zero D OK j0).
    2:{ intros t Ht. rewrite (coef_ge D QQ) by (unfold j0 in *; lia). ring. }
    transitivity (bigsum (fun t => coef PP (j0 + t) * coef QQ (length QQ - 1 - t)) (length QQ)).
    + destruct (Nat.le_gt_cases (length PP - j0) (length QQ)) as [Hm|Hm].
      * replace (Nat.min (length PP - j0) (length QQ)) with (length PP - j0)%nat by lia.
        rewrite (bigsum_trunc D OK (length PP - j0) (length QQ)). ring. lia.
        intros t Ht _. rewrite (coef_ge D PP) by lia. ring.
      * replace (Nat.min (length PP - j0) (length QQ)) with (length QQ) by lia. ring.
    + transitivity (O_ + bigsum (fun t => coef PP (j0 + t) * coef QQ (j0 + length QQ - 1 - (j0 + t))) (length QQ)).
      * rewrite (bigsum_ext D (length QQ) (fun t => coef PP (j0 + t) * coef QQ (length QQ - 1 - t))
                  (fun t => coef PP (j0 + t) * coef QQ (j0 + length QQ - 1 - (j0 + t)))). ring.
        intros t _. f_equal. f_equal. lia.
      * f_equal. apply bigsum_ext. intros t _. f_equal. f_equal. unfold j0. lia.
  - (* start at j = 0 *)
    rewrite trunc_row_spec by lia.
    replace (Z.to_nat (Z.of_nat (i + v) + 1)) with (S (i + v)) by lia.
    replace (Z.to_nat (Z.of_nat (i + v))) with (i + v)%nat by lia. rewrite Nat.sub_0_r. cbn [plus].
    destruct (Nat.le_gt_cases (length PP) (S (i + v))) as [Hm|Hm].
    + replace (Nat.min (length PP) (S (i + v))) with (length PP) by lia.
      rewrite (bigsum_trunc D OK (length PP) (S (i + v))). ring. lia.
      intros t Ht _. rewrite (coef_ge D PP) by lia. ring.
    + replace (Nat.min (length PP) (S (i + v))) with (S (i + v)) by lia. ring.
Qed.
End Misc.
