(* C08: decision procedures and uniqueness: areEqual decides coefficientwise equality, isDivisor decides divisibility,
   and the (Q,R) returned by divmod is THE quotient and remainder (uniqueness of Euclidean division over a field). *)
From Coq Require Import List Arith Lia Setoid Morphisms Ring Bool ZArith.
From C08 Require Import Model Spec ProofsBasic ProofsSum ProofsKara ProofsDiv ProofsSqr ProofsNewton ProofsRev ProofsDivDeg ProofsGcd ProofsEuclid ProofsPow ProofsInvmod.
Import ListNotations.

Section Misc2.
Context {T : Type} (D : Dom T) (OK : FieldOK D).
Local Notation O_ := (d0 D).
Local Notation I_ := (d1 D).
Local Notation "a * b" := (dmul D a b).
Local Notation coef := (coef D).
Local Notation peq := (peq D).
Local Notation pmul := (pmul D).
Local Notation padd := (add D).
Local Notation psub := (sub D).
Local Notation pneg := (neg D).
Local Notation eqv := (eqv D).
Local Notation dvd := (dvd D).
Local Notation len := (len D).
Local Instance n_equiv : Equivalence eqv := eqv_equiv D.
Local Instance n_add : Proper (eqv ==> eqv ==> eqv) padd := eqv_add D OK.
Local Instance n_sub : Proper (eqv ==> eqv ==> eqv) psub := eqv_sub D OK.
Local Instance n_mul : Proper (eqv ==> eqv ==> eqv) pmul := eqv_mul D OK.
Local Instance n_neg : Proper (eqv ==> eqv) pneg := eqv_neg D OK.
Add Ring Tring15 : (Trt D OK).
Add Ring EringN : (eqv_ring D OK) (setoid (eqv_equiv D) (eqv_ext D OK)).
Add Ring EringNP : (eqv_ring_poly D OK) (setoid (eqv_equiv D) (eqv_ext D OK)).

(* ---- areEqual *)
Lemma sub_is0 : forall a b, dis0 D (dsub D a b) = true <-> a = b.
Proof.
  intros a b. rewrite (f_is0 D OK). split; intros H.
  - transitivity (dadd D (dsub D a b) b). ring. rewrite H. ring.
  - subst. ring.
Qed.
Lemma eqlist_spec : forall P Q, eqlist (fun a b => dis0 D (dsub D a b)) P Q = true <-> P = Q.
Proof.
  induction P as [|a P IH]; intros [|b Q]; cbn [eqlist]; split; intros H; try discriminate; try reflexivity.
  - apply andb_true_iff in H. destruct H as [H1 H2]. apply sub_is0 in H1. apply IH in H2. subst. reflexivity.
  - inversion H; subst. apply andb_true_iff. split. apply sub_is0. reflexivity. apply IH. reflexivity.
Qed.
Lemma normal_peq_eq : forall P Q, normal D P -> normal D Q -> peq P Q -> P = Q.
Proof.
  intros P Q NP NQ H. rewrite <- (normal_setdegree_id D OK P NP), <- (normal_setdegree_id D OK Q NQ).
  revert Q NP NQ H. induction P as [|a P IH]; intros Q NP NQ H.
  - rewrite (setdegree_zero D OK Q). reflexivity. intros i. rewrite <- (H i). apply coef_nil.
  - destruct Q as [|b Q].
    + rewrite (setdegree_zero D OK (a :: P)). reflexivity. intros i. rewrite (H i). apply coef_nil.
    + assert (E : a = b) by apply (H 0%nat). subst b.
      assert (HT : peq P Q) by (intros i; apply (H (S i))).
      assert (E2 : setdegree D P = setdegree D Q).
      { clear IH NP NQ H. revert Q HT. induction P as [|x P IHP]; intros Q HT.
        - rewrite (setdegree_zero D OK Q). reflexivity. intros i. rewrite <- (HT i). apply coef_nil.
        - destruct Q as [|y Q]. rewrite (setdegree_zero D OK (x :: P)). reflexivity. intros i. rewrite (HT i). apply coef_nil.
          assert (x = y) by apply (HT 0%nat). subst y. cbn [setdegree]. rewrite (IHP Q). reflexivity. intros i. apply (HT (S i)). }
      cbn [setdegree]. rewrite E2. reflexivity.
Qed.
Lemma areEqual_spec : forall P Q, areEqual D P Q = true <-> peq P Q.
Proof.
  intros P Q. unfold areEqual. rewrite eqlist_spec. split; intros H.
  - intros i. rewrite <- (coef_setdegree D OK P), <- (coef_setdegree D OK Q), H. reflexivity.
  - apply normal_peq_eq; try apply (setdegree_normal D OK). intros i. rewrite !(coef_setdegree D OK). apply H.
Qed.

(* ---- no zero divisors; the degree of a product *)
Lemma mul_eq_0 : forall a b : T, a * b = O_ -> a = O_ \/ b = O_.
Proof.
  intros a b H. destruct (dis0 D a) eqn:E. left. apply (is0_true D OK). exact E.
  right. pose proof (is0_false D OK a E) as N. transitivity ((a * dinv D a) * b). rewrite (f_inv D OK a N). ring.
  transitivity (dinv D a * (a * b)). ring. rewrite H. ring.
Qed.
Lemma len_pmul : forall P Q, 1 <= len P -> 1 <= len Q -> len (pmul P Q) = (len P + len Q - 1)%nat.
Proof.
  intros P Q HP HQ. apply Nat.le_antisymm.
  - apply (len_le_iff D OK). intros k Hk. rewrite (coef_pmul_conv D OK). apply (bigsum_zero D OK). intros i Hi.
    destruct (Nat.lt_ge_cases i (len P)).
    + rewrite (coef_high_zero D OK Q) by lia. ring.
    + rewrite (coef_high_zero D OK P) by lia. ring.
  - destruct (Nat.lt_ge_cases (len (pmul P Q)) (len P + len Q - 1)); [|lia]. exfalso.
    pose proof (top_coef_pmul D OK P Q HP HQ) as HT. rewrite (coef_high_zero D OK (pmul P Q)) in HT by lia.
    symmetry in HT. apply mul_eq_0 in HT. destruct HT as [HT|HT].
    + apply (top_coef_nonzero D OK P HP). rewrite (coef_setdegree D OK). exact HT.
    + apply (top_coef_nonzero D OK Q HQ). rewrite (coef_setdegree D OK). exact HT.
Qed.
(* a multiple of B of smaller degree is zero *)
Lemma small_multiple_zero : forall K B R, eqv R (pmul K B) -> len R < len B -> eqv R [].
Proof.
  intros K B R H HL. destruct (Nat.lt_ge_cases (len K) 1) as [HK|HK].
  - rewrite H. assert (EK : eqv K []). { constructor. intros i. rewrite (coef_high_zero D OK K) by lia. rewrite coef_nil. reflexivity. }
    rewrite EK. ring.
  - exfalso. assert (HB : 1 <= len B) by lia. pose proof (len_pmul K B HK HB) as E.
    rewrite <- (len_peq D OK R (pmul K B) (eqv_peq D _ _ H)) in E. lia.
Qed.

(* ---- value statements of the remaining small forms *)
Lemma coef_maxpy_s_raw : forall a b c i, coef (maxpy_s_raw D a b c) i = dsub D (coef c i) (a * coef b i).
Proof.
  intros a. induction b as [|bi b IH]; intros c i.
  - destruct c; cbn [maxpy_s_raw]; rewrite coef_nil; ring.
  - destruct c as [|ci c]; cbn [maxpy_s_raw].
    + rewrite coef_nil. revert i. induction (bi :: b) as [|x L IHL]; intros i. cbn [map]. rewrite coef_nil. ring.
      destruct i; cbn [map]. rewrite !coef_cons_0. ring. rewrite !coef_cons_S. apply IHL.
    + destruct i. reflexivity. rewrite !coef_cons_S. apply IH.
Qed.
(* maxpy(r,a,b,c) with a scalar a: c - a*b *)
Lemma maxpy_s_spec : forall a b c i, coef (maxpy_s D a b c) i = dsub D (coef c i) (a * coef b i).
Proof.
  intros a b c i. unfold maxpy_s. destruct b as [|bi b]. rewrite coef_nil. ring.
  destruct c as [|ci c].
  - rewrite (coef_neg D OK), (coef_mul_s D OK), coef_nil. ring.
  - rewrite (coef_setdegree D OK). apply coef_maxpy_s_raw.
Qed.
Lemma modpowx_spec : forall A l i, coef (modpowx D A l) i = if (i <? l)%nat then coef A i else O_.
Proof.
  intros. unfold modpowx, assign. rewrite (coef_setdegree D OK), (coef_resize D), (coef_setdegree D OK). reflexivity.
Qed.
(* div(R,u,P), mod(R,u,P) with a scalar dividend u and P <> 0 in normal form: u = P * div + mod, deg mod < deg P *)
Lemma div_mod_sp_spec : forall u P, normal D P -> P <> [] ->
  eqv [u] (padd (pmul P (div_sp D u P)) (mod_sp D u P)) /\ (degree D (mod_sp D u P) < degree D P)%Z.
Proof.
  intros u P NP HP. assert (LP : len P = length P). { unfold ProofsRev.len. rewrite (normal_setdegree_id D OK P NP). reflexivity. }
  unfold div_sp, mod_sp. destruct (Nat.ltb_spec 1 (length P)) as [H1|H1].
  - split.
    + destruct (dis0 D u); rewrite (setdegree_eqv D OK); ring.
    + rewrite !(degree_len D), LP. pose proof (len_le_length D (setdegree D [u])). pose proof (length_setdegree D [u]). cbn [length] in *. lia.
  - destruct P as [|c [|c' P']]; [contradiction| |cbn [length] in H1; lia].
    assert (Nc : c <> O_). { destruct NP as [NP|NP]. discriminate. exact NP. }
    split.
    + destruct (dis0 D u) eqn:Eu.
      * apply (is0_true D OK) in Eu. subst u. transitivity (@nil T).
        { constructor. intros [|i]; [rewrite coef_cons_0 | rewrite coef_cons_S]; rewrite !coef_nil; reflexivity. }
        ring.
      * rewrite (setdegree_eqv D OK). rewrite coef_cons_0. unfold ddiv. rewrite (scal_mul D OK).
        transitivity [u * (c * dinv D c)]. rewrite (f_inv D OK c Nc).
        { constructor. intros [|i]; [rewrite !coef_cons_0; ring | reflexivity]. }
        transitivity (padd [c * (u * dinv D c)] []). 2: reflexivity.
        constructor. intros [|i]; [rewrite (coef_add D OK), !coef_cons_0, coef_nil; ring | rewrite (coef_add D OK), !coef_cons_S, !coef_nil; ring].
    + rewrite !(degree_len D), LP. unfold ProofsRev.len. cbn [setdegree length]. lia.
Qed.

Section Thr.
Variables (kthr sthr : nat).
Hypothesis Hk : 1 <= kthr.
Hypothesis Hs : 1 <= sthr.

(* uniqueness: any (Q',R') with A = B*Q' + R' and deg R' < deg B equals the pair returned by divmod *)
Lemma divmod_unique : forall A B Q' R', isZero D B = false ->
  eqv A (padd (pmul B Q') R') -> (degree D R' < degree D B)%Z ->
  eqv (fst (divmod D kthr sthr A B)) Q' /\ eqv (snd (divmod D kthr sthr A B)) R'.
Proof.
  intros A B Q' R' HZ HA HD.
  pose proof (divmod_identity D OK kthr sthr A B Hk) as HI. pose proof (divmod_degree D OK kthr sthr Hk Hs A B HZ) as HG.
  destruct (divmod D kthr sthr A B) as [Q R]. cbn [fst snd] in *.
  assert (HI' : eqv A (padd (pmul B Q) R)) by (constructor; exact HI).
  assert (HR : eqv (psub R R') (pmul (psub Q' Q) B)).
  { transitivity (psub (psub A (pmul B Q)) (psub A (pmul B Q'))). rewrite HI' at 1. rewrite HA. ring. ring. }
  assert (HL : len (psub R R') < len B).
  { rewrite !(degree_len D) in *. assert (LE : len (psub R R') <= Nat.max (len R) (len R')).
    { apply (len_le_iff D OK). intros k Hkk. rewrite (coef_sub D OK), (coef_high_zero D OK R), (coef_high_zero D OK R') by lia. ring. }
    lia. }
  pose proof (small_multiple_zero _ _ _ HR HL) as Z0.
  assert (ER : eqv R R'). { transitivity (padd (psub R R') R'). ring. rewrite Z0. ring. }
  split; [|exact ER].
  (* B*(Q'-Q) = 0 and B <> 0 give Q' = Q *)
  assert (HQ : eqv (pmul (psub Q' Q) B) []). { rewrite <- HR. exact Z0. }
  destruct (Nat.lt_ge_cases (len (psub Q' Q)) 1) as [HK|HK].
  - assert (E0 : eqv (psub Q' Q) []). { constructor. intros i. rewrite (coef_high_zero D OK (psub Q' Q)) by lia. rewrite coef_nil. reflexivity. }
    transitivity (psub Q' (psub Q' Q)). ring. rewrite E0. ring.
  - exfalso. pose proof (isZero_false_len D B HZ) as HB. pose proof (len_pmul _ _ HK HB) as E.
    rewrite (len_peq D OK _ _ (eqv_peq D _ _ HQ)) in E. unfold ProofsRev.len in E at 1. cbn in E. lia.
Qed.

(* isDivisor(P,Q) decides Q | P *)
Lemma isDivisor_spec : forall P Q, isDivisor D kthr sthr P Q = true <-> dvd Q P.
Proof.
  intros P Q. unfold isDivisor. destruct (isZero D Q) eqn:ZQ.
  - pose proof (isZero_eqv D OK Q ZQ) as EQ. split; intros H.
    + apply (dvd_zero D OK). apply (isZero_eqv D OK). exact H.
    + destruct H as [K HK]. apply (isZero_spec D OK). apply eqv_peq. rewrite HK, EQ. ring.
  - pose proof (divmod_identity D OK kthr sthr P Q Hk) as HI. pose proof (divmod_degree D OK kthr sthr Hk Hs P Q ZQ) as HG.
    unfold mod_. destruct (divmod D kthr sthr P Q) as [Qu R]. cbn [fst snd] in *.
    assert (HI' : eqv P (padd (pmul Q Qu) R)) by (constructor; exact HI).
    split; intros H.
    + exists Qu. rewrite HI'. rewrite (isZero_eqv D OK R H). ring.
    + destruct H as [K HK]. apply (isZero_spec D OK). apply eqv_peq.
      apply (small_multiple_zero (psub K Qu) Q R).
      * transitivity (psub P (pmul Q Qu)). rewrite HI' at 1. ring. rewrite HK. ring.
      * rewrite !(degree_len D) in HG. lia.
Qed.
End Thr.
End Misc2.
