(* C08: modin(A,B), the in-place long division on the reversed vectors (state: vector a, index i; the zero-skipping
   inner loop decrements i).  For B in normal form, B <> 0:  modin(A,B) = A + K*B for some K, and deg modin(A,B) < deg B.
   With it powmod is unconditional: powmod(P,e,U) is congruent to P^e modulo U for EVERY e >= 0, and of degree < deg U. *)
From Coq Require Import List Arith Lia Setoid Morphisms Ring Bool ZArith.
From C08 Require Import Model Spec ProofsBasic ProofsKara ProofsDiv ProofsSqr ProofsNewton ProofsRev ProofsDivDeg ProofsGcd ProofsPow.
Import ListNotations.

Section Modin.
Context {T : Type} (D : Dom T) (OK : FieldOK D).
Local Notation O_ := (d0 D).
Local Notation I_ := (d1 D).
Local Notation "a + b" := (dadd D a b).
Local Notation "a * b" := (dmul D a b).
Local Notation "a - b" := (dsub D a b).
Local Notation coef := (coef D).
Local Notation peq := (peq D).
Local Notation pmul := (pmul D).
Local Notation padd := (add D).
Local Notation psub := (sub D).
Local Notation pneg := (neg D).
Local Notation eqv := (eqv D).
Local Notation len := (len D).
Local Instance m_equiv : Equivalence eqv := eqv_equiv D.
Local Instance m_add : Proper (eqv ==> eqv ==> eqv) padd := eqv_add D OK.
Local Instance m_sub : Proper (eqv ==> eqv ==> eqv) psub := eqv_sub D OK.
Local Instance m_mul : Proper (eqv ==> eqv ==> eqv) pmul := eqv_mul D OK.
Local Instance m_neg : Proper (eqv ==> eqv) pneg := eqv_neg D OK.
Add Ring Tring12 : (Trt D OK).
Add Ring EringM : (eqv_ring D OK) (setoid (eqv_equiv D) (eqv_ext D OK)).
Add Ring EringMP : (eqv_ring_poly D OK) (setoid (eqv_equiv D) (eqv_ext D OK)).

(* ---- the elimination row *)
Lemma coef_elim_tail : forall l b a s, length b <= length a ->
  coef (map (fun xy => fst xy - l * snd xy) (combine a b) ++ skipn (length b) a) s = coef a s - l * coef b s.
Proof.
  intros l. induction b as [|bk b IH]; intros a s H.
  - destruct a; cbn [combine map app skipn length]; rewrite coef_nil; ring.
  - destruct a as [|ar a]. cbn [length] in H; lia.
    cbn [combine map app skipn length fst snd]. destruct s as [|s]. reflexivity.
    rewrite !coef_cons_S. apply IH. cbn [length] in H. lia.
Qed.

(* the zero-skipping scan: z leading entries of the row vanish and are dropped, i goes down by z *)
Lemma modin_scan_spec : forall l b a i, length b <= length a ->
  exists z : nat, snd (modin_scan D l a b i) = (i - Z.of_nat z)%Z /\ z <= length b /\
    length (fst (modin_scan D l a b i)) = (length a - z)%nat /\
    (forall t, t < z -> coef a t - l * coef b t = O_) /\
    (forall s, coef (fst (modin_scan D l a b i)) s = coef a (z + s) - l * coef b (z + s)).
Proof.
  intros l. induction b as [|bk b IH]; intros a i H.
  - exists 0%nat. destruct a; cbn [modin_scan fst snd length]; (split; [lia|]); (split; [lia|]); (split; [lia|]);
      (split; [intros; lia|]); intros s; rewrite ?coef_nil; cbn [plus]; ring.
  - destruct a as [|ar a]. cbn [length] in H; lia.
    cbn [modin_scan]. destruct (dis0 D (ar - l * bk)) eqn:E.
    + cbn [length] in H. destruct (IH a (i - 1)%Z ltac:(lia)) as [z [H1 [H2 [H3 [H4 H5]]]]].
      exists (S z). split; [|split; [|split; [|split]]].
      * rewrite H1. lia.
      * cbn [length]. lia.
      * rewrite H3. cbn [length]. lia.
      * intros t Ht. destruct t as [|t]. rewrite !coef_cons_0. apply (is0_true D OK). exact E.
        rewrite !coef_cons_S. apply H4. lia.
      * intros s. rewrite H5. cbn [plus]. rewrite !coef_cons_S. reflexivity.
    + exists 0%nat. cbn [fst snd]. split; [lia|]. split; [lia|]. split; [|split].
      * cbn [length] in *. rewrite app_length, map_length, combine_length, skipn_length. lia.
      * intros; lia.
      * intros s. cbn [plus]. destruct s as [|s]. reflexivity.
        rewrite !coef_cons_S. apply coef_elim_tail. cbn [length] in H. lia.
Qed.

(* ---- the live part of the state and its value *)
Section B.
Variable b : list T.                      (* rev B, leading coefficient first *)
Definition nlive (i : Z) : nat := Z.to_nat (Z.of_nat (length b) + i).
Definition V (a : list T) (i : Z) : list T := rev (firstn (nlive i) a).

Lemma coef_V : forall a i k, nlive i <= length a ->
  coef (V a i) k = if (k <? nlive i)%nat then coef a (nlive i - 1 - k) else O_.
Proof.
  intros a i k H. unfold V. rewrite (coef_rev D), firstn_length. replace (Nat.min (nlive i) (length a)) with (nlive i) by lia.
  destruct (Nat.ltb_spec k (nlive i)); [|reflexivity]. rewrite (coef_firstn D).
  destruct (Nat.ltb_spec (nlive i - 1 - k) (nlive i)); [reflexivity|lia].
Qed.

Lemma coef_shift_scalar : forall I l k,
  coef (pmul (shiftn D I [l]) (rev b)) k =
  if (k <? I)%nat then O_ else l * (if (k - I <? length b)%nat then coef b (length b - 1 - (k - I)) else O_).
Proof.
  intros I l k. rewrite (pmul_shiftn D OK I [l] (rev b) k), (coef_shiftn D).
  destruct (Nat.ltb_spec k I). reflexivity.
  rewrite (coef_pmul_cons D OK), (coef_rev D).
  assert (Z0 : match (k - I)%nat with 0%nat => O_ | S j => coef (pmul [] (rev b)) j end = O_).
  { destruct (k - I)%nat. reflexivity. cbn [Spec.pmul]. apply coef_nil. }
  rewrite Z0. ring.
Qed.

Hypothesis Hb : exists b0 b', b = b0 :: b' /\ b0 <> O_.

(* one elimination step *)
Lemma modin_step_spec : forall a i, (0 <= i)%Z -> nlive i <= length a ->
  length (fst (modin_step D a b i)) = length a /\
  (snd (modin_step D a b i) <= i)%Z /\ (i - Z.of_nat (length b) + 1 <= snd (modin_step D a b i))%Z /\
  exists l, eqv (V a i) (padd (V (fst (modin_step D a b i)) (snd (modin_step D a b i) - 1)) (pmul (shiftn D (Z.to_nat i) [l]) (rev b))).
Proof.
  intros a i Hi Hn. destruct Hb as [b0 [b' [Eb Nb]]].
  assert (Ln : nlive i = (length b + Z.to_nat i)%nat) by (unfold nlive; lia).
  destruct a as [|a0 a']. { rewrite Eb in Ln. cbn [length] in *. lia. }
  unfold modin_step. rewrite Eb. set (l := ddiv D a0 b0).
  assert (La : length b' <= length a'). { rewrite Eb in Ln. cbn [length] in *. lia. }
  destruct (modin_scan_spec l b' a' i La) as [z [H1 [H2 [H3 [H4 H5]]]]].
  destruct (modin_scan D l a' b' i) as [w i2]. cbn [fst snd] in *.
  assert (Lw : length (w ++ O_ :: skipn (S (length w)) (a0 :: a')) = length (a0 :: a')).
  { rewrite app_length. cbn [length]. rewrite skipn_length. cbn [length]. lia. }
  split. exact Lw. split. lia. split. { cbn [length]. lia. }
  exists l. constructor. intros k.
  rewrite (coef_add D OK), <- Eb, coef_shift_scalar.
  rewrite coef_V by exact Hn. rewrite coef_V by (rewrite Lw; unfold nlive in *; lia).
  assert (Ln2 : nlive (i2 - 1) = (nlive i - 1 - z)%nat). { unfold nlive. rewrite Eb in *. cbn [length] in *. lia. }
  rewrite Ln2.
  assert (Hl : l * b0 = a0). { unfold l, ddiv. transitivity (a0 * (b0 * dinv D b0)). ring. rewrite (f_inv D OK b0 Nb). ring. }
  destruct (Nat.ltb_spec k (nlive i)) as [Hk|Hk].
  - (* k < n *)
    assert (M : (if (k <? Z.to_nat i)%nat then O_
                 else l * (if (k - Z.to_nat i <? length b)%nat then coef b (length b - 1 - (k - Z.to_nat i)) else O_))
                = l * coef b (nlive i - 1 - k)).
    { destruct (Nat.ltb_spec k (Z.to_nat i)).
      - rewrite (coef_ge D b) by lia. ring.
      - destruct (Nat.ltb_spec (k - Z.to_nat i) (length b)); [|lia]. f_equal. f_equal. lia. }
    rewrite M. destruct (Nat.ltb_spec k (nlive i - 1 - z)) as [Hk2|Hk2].
    + (* live in the new state *)
      rewrite coef_app. destruct (Nat.ltb_spec (nlive i - 1 - z - 1 - k) (length w)); [|rewrite H3 in *; cbn [length] in *; lia].
      rewrite H5. remember (nlive i - 1 - k - 1)%nat as u.
      replace (z + (nlive i - 1 - z - 1 - k))%nat with u by lia.
      replace (nlive i - 1 - k)%nat with (S u) by lia.
      rewrite Eb, !coef_cons_S. ring.
    + (* cancelled: position t = n-1-k in 0..z *)
      remember (nlive i - 1 - k)%nat as t. destruct t as [|t].
      * rewrite Eb, !coef_cons_0. rewrite Hl. ring.
      * rewrite Eb, !coef_cons_S. pose proof (H4 t ltac:(lia)) as Hz.
        transitivity ((coef a' t - l * coef b' t) + l * coef b' t). ring. rewrite Hz. ring.
  - destruct (Nat.ltb_spec k (nlive i - 1 - z)); [lia|].
    destruct (Nat.ltb_spec k (Z.to_nat i)); [lia|].
    destruct (Nat.ltb_spec (k - Z.to_nat i) (length b)); [lia|]. ring.
Qed.

(* the loop: ends on i < 0 within its fuel, the value changes by a multiple of B, the length is kept *)
Lemma modin_loop_spec : forall fuel a i, (i < Z.of_nat fuel)%Z -> nlive i <= length a ->
  length (fst (modin_loop D fuel a b i)) = length a /\
  (snd (modin_loop D fuel a b i) < 0)%Z /\
  exists K, eqv (V a i) (padd (V (fst (modin_loop D fuel a b i)) (snd (modin_loop D fuel a b i))) (pmul K (rev b))).
Proof.
  induction fuel as [|f IH]; intros a i Hf Hn.
  - cbn [modin_loop fst snd]. split. reflexivity. split. lia. exists []. ring.
  - cbn [modin_loop]. destruct (Z.leb_spec 0 i) as [Hi|Hi].
    + destruct (modin_step_spec a i Hi Hn) as [S1 [S2 [S3 [l S4]]]].
      destruct (modin_step D a b i) as [a2 i2]. cbn [fst snd] in *.
      destruct (IH a2 (i2 - 1)%Z ltac:(lia)) as [L1 [L2 [K L3]]].
      { rewrite S1. unfold nlive in *. lia. }
      split. rewrite L1. exact S1. split. exact L2.
      exists (padd K (shiftn D (Z.to_nat i) [l])). rewrite S4, L3. ring.
    + cbn [fst snd]. split. reflexivity. split. lia. exists []. ring.
Qed.
End B.

(* ---- modin(A,B) *)
Lemma modin_spec : forall A B, normal D B -> B <> [] ->
  cong D B (modin D A B) A /\ (degree D (modin D A B) < degree D B)%Z.
Proof.
  intros A B NB HB.
  assert (LB : len B = length B). { unfold ProofsRev.len. rewrite (normal_setdegree_id D OK B NB). reflexivity. }
  assert (L1 : 1 <= length B). { destruct B. contradiction. cbn; lia. }
  unfold modin. destruct (Z.leb_spec 0 (Z.of_nat (length A) - Z.of_nat (length B))) as [Hi|Hi].
  - assert (Hb : exists b0 b', rev B = b0 :: b' /\ b0 <> O_).
    { destruct NB as [NB|NB]. contradiction.
      destruct (rev B) as [|b0 b'] eqn:E. { apply (f_equal (@length T)) in E. rewrite rev_length in E. cbn in E. lia. }
      exists b0, b'. split. reflexivity.
      assert (E2 : B = rev b' ++ [b0]). { rewrite <- (rev_involutive B), E. reflexivity. }
      rewrite E2, last_last in NB. exact NB. }
    destruct (modin_loop_spec (rev B) Hb (S (length A)) (rev A) (Z.of_nat (length A) - Z.of_nat (length B))%Z) as [M1 [M2 [K M3]]].
    { lia. } { unfold nlive. rewrite !rev_length. lia. }
    destruct (modin_loop D (S (length A)) (rev A) (rev B) (Z.of_nat (length A) - Z.of_nat (length B))) as [a i'].
    cbn [fst snd] in *. rewrite rev_involutive in M3. rewrite rev_length in M1.
    assert (EN : (length A - Z.to_nat (Z.of_nat (length A) - Z.of_nat (length B) - i'))%nat = nlive (rev B) i').
    { unfold nlive. rewrite rev_length. lia. }
    rewrite EN. fold (V (rev B) a i').
    assert (EV : V (rev B) (rev A) (Z.of_nat (length A) - Z.of_nat (length B)) = A).
    { unfold V, nlive. rewrite rev_length. replace (Z.to_nat (Z.of_nat (length B) + (Z.of_nat (length A) - Z.of_nat (length B)))) with (length (rev A)) by (rewrite rev_length; lia).
      rewrite firstn_all. apply rev_involutive. }
    rewrite EV in M3. split.
    + exists (pneg K). rewrite (setdegree_eqv D OK), M3. ring.
    + rewrite !(degree_len D), LB.
      assert (LL : len (setdegree D (V (rev B) a i')) <= nlive (rev B) i').
      { etransitivity. apply (len_le_length D). etransitivity. apply (length_setdegree D). unfold V. rewrite rev_length, firstn_length. lia. }
      unfold nlive in LL. rewrite rev_length in LL. lia.
  - split. apply cong_of_eqv. assumption. apply (setdegree_eqv D OK).
    rewrite !(degree_len D), LB. pose proof (len_le_length D (setdegree D A)). pose proof (length_setdegree D A). lia.
Qed.

(* ---- powmod without hypotheses: every exponent, congruence and degree bound *)
Lemma powmod_pos_deg : forall kthr sthr U, normal D U -> U <> [] -> forall p W pu,
  (degree D (powmod_pos D kthr sthr W pu U p) < degree D U)%Z.
Proof.
  intros kthr sthr U NU HU. induction p as [q IH|q IH|]; intros W pu; cbn [powmod_pos].
  - apply IH. - apply IH. - apply modin_spec; assumption.
Qed.

(* mod(W,one,U): congruent to 1, of degree < deg U *)
Lemma mod_one_spec : forall kthr sthr U, 1 <= kthr -> 1 <= sthr -> isZero D U = false ->
  cong D U (mod_ D kthr sthr [I_] U) [I_] /\ (degree D (mod_ D kthr sthr [I_] U) < degree D U)%Z.
Proof.
  intros kthr sthr U Hk Hs HZ. split. apply (mod_cong D OK kthr sthr U Hk). apply (divmod_degree D OK kthr sthr Hk Hs [I_] U HZ).
Qed.
Lemma powmod_full : forall kthr sthr e0 P U0 (e : N), 1 <= kthr -> 1 <= sthr -> isZero D U0 = false ->
  cong D (setdegree D U0) (powmod D kthr sthr e0 P e U0) (pun D P (N.to_nat e)) /\
  (e0 = true \/ e <> 0%N \/ (1 <= degree D U0)%Z -> (degree D (powmod D kthr sthr e0 P e U0) < degree D U0)%Z).
Proof.
  intros kthr sthr e0 P U0 e Hk Hs HZ.
  assert (NU : normal D (setdegree D U0)) by apply (setdegree_normal D OK).
  assert (HU : setdegree D U0 <> []). { unfold isZero in HZ. destruct (setdegree D U0). discriminate. discriminate. }
  assert (HZ' : isZero D (setdegree D U0) = false). { unfold isZero in *. rewrite (setdegree_idem D OK). exact HZ. }
  assert (ED : degree D (setdegree D U0) = degree D U0). { rewrite !(degree_len D). unfold ProofsRev.len. rewrite (setdegree_idem D OK). reflexivity. }
  destruct e as [|p].
  - unfold powmod. cbn [N.to_nat pun]. destruct e0.
    + destruct (mod_one_spec kthr sthr (setdegree D U0) Hk Hs HZ') as [M1 M2]. split.
      * eapply (cong_trans D OK). apply (cong_of_eqv D OK). apply (setdegree_eqv D OK). exact M1.
      * intros _. rewrite <- ED. rewrite !(degree_len D) in *. unfold ProofsRev.len in *. rewrite !(setdegree_idem D OK) in *. exact M2.
    + split.
      * apply cong_of_eqv. assumption. unfold assign. rewrite !(setdegree_eqv D OK). reflexivity.
      * intros [C|[C|C]]. discriminate. contradiction. unfold assign. rewrite !(degree_len D) in *.
        pose proof (len_le_length D (setdegree D (setdegree D [I_]))) as L1.
        pose proof (length_setdegree D (setdegree D [I_])) as L2. pose proof (length_setdegree D [I_]) as L3.
        cbn [length] in L3. lia.
  - split.
    + rewrite positive_N_nat. apply (powmod_cong_sqr D OK); try assumption.
      intros A. apply modin_spec; assumption.
    + intros _. unfold powmod. rewrite !(degree_len D).
      pose proof (powmod_pos_deg kthr sthr (setdegree D U0) NU HU p (if e0 then mod_ D kthr sthr [I_] (setdegree D U0) else assign D [I_])
                    (mod_ D kthr sthr P (setdegree D U0))) as H.
      rewrite !(degree_len D) in H. unfold ProofsRev.len in *. rewrite !(setdegree_idem D OK) in *. exact H.
Qed.
End Modin.
