(* C08: Newton inversion modulo X^l.  For every A with A[0] <> 0 and every l: A * invmodpowx(A,l) = 1 mod X^l
   (thresholds >= 1).  Uses the proved products (mul_r, sqr). *)
From Coq Require Import List Arith Lia Setoid Morphisms Ring Bool.
From C08 Require Import Model Spec ProofsBasic ProofsSum ProofsKara ProofsDiv ProofsSqr.
Import ListNotations.

Section Newton.
Context {T : Type} (D : Dom T) (OK : FieldOK D).
Local Notation O_ := (d0 D).
Local Notation I_ := (d1 D).
Local Notation "a + b" := (dadd D a b).
Local Notation "a * b" := (dmul D a b).
Local Notation "a - b" := (dsub D a b).
Local Notation coef := (coef D).
Local Notation peq := (peq D).
Local Notation pmul := (pmul D).
Local Notation padd := (add D).
Local Notation psub := (sub D).
Add Ring Tring7 : (Trt D OK).
Add Ring Pring7 : (poly_ring D OK) (setoid (peq_equiv D) (poly_ext D OK)).

(* equality modulo X^l *)
Definition teq (l : nat) (P Q : list T) : Prop := forall k, k < l -> coef P k = coef Q k.

Lemma teq_mul_l : forall l P P' Q, teq l P P' -> teq l (pmul P Q) (pmul P' Q).
Proof.
  intros l P P' Q H k Hk. rewrite !(coef_pmul_conv D OK). apply bigsum_ext. intros i Hi. rewrite (H i) by lia. reflexivity.
Qed.
Lemma teq_mul_r : forall l P Q Q', teq l Q Q' -> teq l (pmul P Q) (pmul P Q').
Proof.
  intros l P Q Q' H k Hk. rewrite (pmul_comm D OK P Q k), (pmul_comm D OK P Q' k). apply (teq_mul_l l Q Q' P H k Hk).
Qed.
Lemma low_sq_zero : forall j E, (forall k, k < j -> coef E k = O_) -> forall k, k < 2 * j -> coef (pmul E E) k = O_.
Proof.
  intros j E H k Hk. rewrite (coef_pmul_conv D OK). apply (bigsum_zero D OK). intros i Hi.
  destruct (Nat.lt_ge_cases i j). rewrite (H i) by assumption. ring.
  rewrite (H (k - i)%nat) by lia. ring.
Qed.

Lemma coef_addin_self : forall G k, coef (addin D G G) k = coef G k + coef G k.
Proof.
  intros G k. unfold addin. destruct G as [|g G]. rewrite coef_nil. ring.
  rewrite (coef_setdegree D OK), (coef_add D OK). reflexivity.
Qed.

Section Thr.
Variables (kthr sthr : nat).
Hypothesis Hk : 1 <= kthr.
Hypothesis Hs : 1 <= sthr.

Lemma newton_step : forall G A i j, teq j (pmul A G) [I_] -> i <= 2 * j ->
  teq i (pmul A (newtoninviter D kthr sthr G A i)) [I_].
Proof.
  intros G A i j Hj Hi.
  set (N := newtoninviter D kthr sthr G A i).
  assert (S1 : teq i N (psub (padd G G) (pmul A (pmul G G)))).
  { intros k Hkk. unfold N, newtoninviter. rewrite (coef_subin D OK), coef_addin_self, (coef_sub D OK), (coef_add D OK).
    f_equal.
    rewrite (rec_ok_coef D _ (mul_r_spec D OK _ kthr Hk)). destruct (Nat.ltb_spec k i); [|lia].
    transitivity (coef (pmul A (sqr D kthr sthr G)) k).
    - apply (teq_mul_l i); [|assumption]. intros t Ht. rewrite (coef_firstn D).
      destruct (Nat.ltb_spec t (Nat.min i (length A))). reflexivity. symmetry. apply (coef_ge D). lia.
    - apply (pmul_proper D OK). reflexivity. apply (sqr_spec D OK); assumption. }
  intros k Hkk.
  rewrite (teq_mul_r i A _ _ S1 k Hkk).
  set (E := psub [I_] (pmul A G)).
  assert (E2 : peq (pmul A (psub (padd G G) (pmul A (pmul G G)))) (psub [I_] (pmul E E))) by (unfold E; ring).
  rewrite (E2 k), (coef_sub D OK), (low_sq_zero j E). ring.
  - intros t Ht. unfold E. rewrite (coef_sub D OK), (Hj t Ht). ring.
  - lia.
Qed.

Lemma newton_loop : forall A l fuel G i j, i = (2 * j)%nat -> 1 <= j -> teq j (pmul A G) [I_] -> l < fuel + i ->
  exists j', teq j' (pmul A (invmodpowx_loop D kthr sthr fuel G A i l)) [I_] /\ l <= 2 * j'.
Proof.
  intros A l. induction fuel as [|f IH]; intros G i j Hi Hj HG Hf.
  - cbn [invmodpowx_loop]. exists j. split. assumption. lia.
  - cbn [invmodpowx_loop]. destruct (Nat.ltb_spec i l).
    + apply (IH (newtoninviter D kthr sthr G A i) (2 * i)%nat i); try lia.
      apply (newton_step G A i j); [assumption | lia].
    + exists j. split. assumption. lia.
Qed.

Lemma invmodpowx_spec : forall A l, coef A 0 <> O_ -> teq l (pmul A (invmodpowx D kthr sthr A l)) [I_].
Proof.
  intros A l HA. unfold invmodpowx.
  destruct (newton_loop A l l [dinv D (coef A 0)] 2 1) as [j' [HJ HL]]; try lia.
  - intros k Hkk. assert (k = 0%nat) by lia. subst k. rewrite (coef_pmul_conv D OK). cbn [bigsum Nat.sub].
    rewrite !coef_cons_0. rewrite (f_inv D OK _ HA). ring.
  - apply (newton_step _ A l j'); assumption.
Qed.
End Thr.
End Newton.
