(* C08: "results are normalised": every polynomial returned by a public operation of the model is in normal form (no
   leading zero coefficient), for operands in normal form where the operation copies an operand through. *)
From Coq Require Import List Arith Lia Setoid Morphisms Ring Bool ZArith.
From C08 Require Import Model Spec ProofsBasic ProofsKara ProofsDiv.
Import ListNotations.

Section Normal.
Context {T : Type} (D : Dom T) (OK : FieldOK D).
Local Notation O_ := (d0 D).
Local Notation I_ := (d1 D).
Local Notation normal := (normal D).

Lemma nil_normal : normal []. Proof. left. reflexivity. Qed.
Lemma sd_normal : forall P, normal (setdegree D P). Proof. apply (setdegree_normal D OK). Qed.
Lemma const_normal : forall c, normal (const D c).
Proof. intros c. unfold const, monomial. destruct (dis0 D c) eqn:E. apply nil_normal. right. cbn. apply (is0_false D OK). exact E. Qed.
Lemma monomial_normal : forall d c, normal (monomial D d c).
Proof.
  intros d c. unfold monomial. destruct (dis0 D c) eqn:E. apply nil_normal. right. rewrite last_last. apply (is0_false D OK). exact E.
Qed.
Lemma addin_normal : forall R P, normal R -> normal (addin D R P).
Proof. intros R P H. unfold addin. destruct P. exact H. destruct R; apply sd_normal. Qed.
Lemma subin_normal : forall R P, normal R -> normal (subin D R P).
Proof. intros R P H. unfold subin. destruct P. exact H. destruct R; apply sd_normal. Qed.
Lemma mul_n : forall k P Q, normal (mul D k P Q).
Proof. intros. apply (mul_normal D OK). Qed.
Lemma stdmul_n : forall P Q, normal (stdmul D P Q).
Proof. intros. unfold stdmul. destruct P. apply nil_normal. destruct Q. apply nil_normal. apply sd_normal. Qed.
Lemma karamul_n : forall k P Q, normal (karamul D k P Q).
Proof. intros. unfold karamul. destruct P. apply nil_normal. destruct Q. apply nil_normal. apply sd_normal. Qed.
Lemma midmul_n : forall k P Q, normal (midmul D k P Q).
Proof. intros. unfold midmul. destruct P. apply nil_normal. destruct Q. apply nil_normal. apply sd_normal. Qed.
Lemma mul_trunc_n : forall P Q v d, normal (mul_trunc D P Q v d).
Proof. intros. unfold mul_trunc. destruct P. apply nil_normal. destruct Q. apply nil_normal. apply sd_normal. Qed.
Lemma div_n : forall k s A B, normal (div D k s A B).
Proof.
  intros. unfold div. destruct (degree D (setdegree D A) <? degree D (setdegree D B))%Z. apply nil_normal.
  destruct (degree D (setdegree D B) =? 0)%Z; apply sd_normal.
Qed.
Lemma divmod_n : forall k s A B, normal (fst (divmod D k s A B)) /\ normal (snd (divmod D k s A B)).
Proof.
  intros. unfold divmod. cbn [fst snd]. split. apply div_n. unfold maxpy. apply (sub_pub_normal D OK). apply sd_normal. apply mul_n.
Qed.
Lemma divmodin_n : forall k s A B, normal (fst (divmodin D k s A B)) /\ normal (snd (divmodin D k s A B)).
Proof. intros. unfold divmodin. cbn [fst snd]. split. apply div_n. apply subin_normal. apply sd_normal. Qed.
Lemma modin_n : forall A B, normal (modin D A B).
Proof.
  intros. unfold modin. destruct (0 <=? Z.of_nat (length A) - Z.of_nat (length B))%Z; [|apply sd_normal].
  destruct (modin_loop D (S (length A)) (rev A) (rev B) (Z.of_nat (length A) - Z.of_nat (length B))). apply sd_normal.
Qed.
Lemma gcd_loop_n : forall k s fuel U G, normal G -> normal (gcd_loop D k s fuel U G).
Proof.
  induction fuel as [|f IH]; intros U G H. exact H. cbn [gcd_loop].
  pose proof (sd_normal (mod_ D k s U G)) as HN. destruct (setdegree D (mod_ D k s U G)). exact H. apply IH. exact HN.
Qed.
Lemma gcd_n : forall k s P Q, normal (gcd D k s P Q).
Proof.
  intros. unfold gcd. destruct ((degree D P <? 0)%Z || (degree D Q =? 0)%Z). apply sd_normal.
  destruct ((degree D Q <? 0)%Z || (degree D P =? 0)%Z). apply sd_normal.
  destruct (degree D Q <=? degree D P)%Z.
  - destruct (degree D (gcd_loop D k s (S (length (assign D Q))) (assign D P) (assign D Q)) <=? 0)%Z. apply const_normal. apply gcd_loop_n. apply sd_normal.
  - destruct (degree D (gcd_loop D k s (S (length (assign D P))) (assign D Q) (assign D P)) <=? 0)%Z. apply const_normal. apply gcd_loop_n. apply sd_normal.
Qed.
Definition normal6 (st : list T * list T * list T * list T * list T * list T) : Prop :=
  let '(F, G, S0, S1, T0, T1) := st in normal F /\ normal G /\ normal S0 /\ normal S1 /\ normal T0 /\ normal T1.
Lemma egcd_loop_n : forall k s fuel F G S0 S1 T0 T1, normal6 (F, G, S0, S1, T0, T1) -> normal6 (egcd_loop D k s fuel F G S0 S1 T0 T1).
Proof.
  induction fuel as [|f IH]; intros F G S0 S1 T0 T1 H. exact H. cbn [egcd_loop]. destruct (isZero D G). exact H.
  destruct (divmod D k s F G) as [Q R1]. apply IH. unfold normal6, assign, div_s. repeat split; apply sd_normal.
Qed.
Lemma gcdext_n : forall k s A B, let '(F, S0, T0) := gcdext D k s A B in normal F /\ normal S0 /\ normal T0.
Proof.
  intros. unfold gcdext. destruct ((degree D A <? 0)%Z || (degree D B =? 0)%Z).
  { split. apply sd_normal. split. apply nil_normal. apply const_normal. }
  destruct ((degree D B <? 0)%Z || (degree D A =? 0)%Z).
  { split. apply sd_normal. split. apply const_normal. apply nil_normal. }
  pose proof (egcd_loop_n k s (S (length (div_s D (assign D B) (leadcoef D B)))) (div_s D (assign D A) (leadcoef D A))
                (div_s D (assign D B) (leadcoef D B)) (const D (dinv D (leadcoef D A))) [] [] (const D (dinv D (leadcoef D B)))) as H.
  destruct (egcd_loop D k s (S (length (div_s D (assign D B) (leadcoef D B)))) (div_s D (assign D A) (leadcoef D A))
                (div_s D (assign D B) (leadcoef D B)) (const D (dinv D (leadcoef D A))) [] [] (const D (dinv D (leadcoef D B))))
    as [[[[[F' G'] S0'] S1'] T0'] T1'].
  destruct H as [H1 [_ [H3 [_ [H5 _]]]]].
  { unfold normal6, div_s. repeat split; try apply sd_normal; try apply nil_normal; apply const_normal. }
  repeat split; assumption.
Qed.
Lemma invmod_loop_n : forall k s fuel F G S0 S1, normal S0 -> normal (invmod_loop D k s fuel F G S0 S1).
Proof.
  induction fuel as [|f IH]; intros F G S0 S1 H. exact H. cbn [invmod_loop]. destruct (isZero D G). exact H.
  destruct (divmod D k s F G) as [Q R1]. apply IH. apply sd_normal.
Qed.
Lemma invmod_n : forall k s A B, normal (invmod D k s A B).
Proof.
  intros. unfold invmod. destruct ((degree D A <=? 0)%Z || (degree D B <=? 0)%Z). apply const_normal. apply invmod_loop_n. apply const_normal.
Qed.
Lemma lcm_n : forall k s A B, normal (lcm D k s A B).
Proof.
  intros. unfold lcm. destruct (degree D A <? 0)%Z. apply const_normal. destruct (degree D B <? 0)%Z. apply const_normal.
  destruct (degree D B =? 0)%Z. apply sd_normal. destruct (degree D A =? 0)%Z. apply sd_normal.
  destruct (degree D B <=? degree D A)%Z.
  - destruct (egcd_loop D k s (S (length (assign D B))) (div_s D (assign D A) (leadcoef D (assign D A)))
                (div_s D (assign D B) (leadcoef D (assign D B))) (const D (dinv D (leadcoef D (assign D A)))) [] []
                (const D (dinv D (leadcoef D (assign D B))))) as [[[[[F' G'] S0'] S1'] T0'] T1'].
    destruct (degree D G' <=? 0)%Z; apply mul_n.
  - destruct (egcd_loop D k s (S (length (assign D A))) (div_s D (assign D B) (leadcoef D (assign D B)))
                (div_s D (assign D A) (leadcoef D (assign D A))) (const D (dinv D (leadcoef D (assign D B)))) [] []
                (const D (dinv D (leadcoef D (assign D A))))) as [[[[[F' G'] S0'] S1'] T0'] T1'].
    destruct (degree D G' <=? 0)%Z; apply mul_n.
Qed.
Lemma powmod_n : forall k s e0 P n U, normal (powmod D k s e0 P n U).
Proof. intros. unfold powmod. destruct n. destruct e0; apply sd_normal. apply sd_normal. Qed.
Lemma pdivmod_n : forall A B, let '(Q, R, m) := pdivmod D A B in normal Q /\ normal R.
Proof.
  intros. unfold pdivmod. destruct (degree D A =? -1)%Z. split; apply nil_normal.
  destruct (degree D B =? 0)%Z. split. apply sd_normal. apply nil_normal.
  destruct (degree D A =? 0)%Z. split. apply nil_normal. apply sd_normal.
  destruct (degree D A <? degree D B)%Z. split. apply nil_normal. apply sd_normal.
  destruct (pdivmod_loop D _ _ _ _ _ _ _ _ _) as [[Q R] m]. split; apply sd_normal.
Qed.
Lemma pmod_n : forall A B, normal (fst (pmod D A B)).
Proof.
  intros. unfold pmod. destruct (degree D A =? -1)%Z. apply nil_normal.
  destruct (degree D B =? 0)%Z. apply nil_normal.
  destruct (degree D A =? 0)%Z. apply sd_normal.
  destruct (degree D A <? degree D B)%Z. apply sd_normal.
  destruct (pmod_loop D _ _ _ _ _ _ _) as [[R dR] m]. apply sd_normal.
Qed.
Lemma fused_n : forall k (a x y r : list T) (s : T),
  normal (axpy D k a x y) /\ normal (axpyin D k r a x) /\ normal (axmy D k a x y) /\ normal (axpy_s D s x y) /\ normal (axmy_s D s x y) /\
  (normal y -> normal (maxpy D k a x y)) /\
  (normal r -> normal (maxpyin D k r a x) /\ normal (axmyin D k r a x) /\ normal (maxpyin_s D r s x) /\ normal (axmyin_s D r s x)).
Proof.
  intros. unfold axpy, axpyin, axpy, axmy, axpy_s, axmy_s, maxpy, maxpyin, axmyin, maxpyin, maxpyin_s, axmyin_s, maxpyin_s, pmulK.
  split. apply addin_normal, mul_n. split. apply addin_normal, mul_n. split. apply subin_normal, mul_n.
  split. apply sd_normal. split. apply subin_normal, sd_normal.
  split. intros H. apply (sub_pub_normal D OK). exact H. apply mul_n.
  intros H. split. apply subin_normal, H. split. apply (neg_normal D OK), subin_normal, H.
  split. apply subin_normal, H. apply (neg_normal D OK), subin_normal, H.
Qed.
Lemma misc_n : forall (P : list T) (v : T) (n b l : nat),
  normal (add_s D P v) /\ normal (addin_s D P v) /\ normal (sub_s D P v) /\ normal (subin_s D P v) /\ normal (s_sub D v P) /\
  normal (mul_s D P v) /\ normal (div_s D P v) /\ normal (diff D P) /\ normal (reverse D P) /\ normal (power_compose D P b) /\
  normal (modpowx D P l) /\ normal (assign D P) /\ normal (monomial D n v).
Proof.
  intros. unfold add_s, addin_s, sub_s, subin_s, s_sub, mul_s, div_s, reverse, modpowx, assign.
  repeat split; try apply sd_normal; try apply monomial_normal.
  - unfold diff. destruct (setdegree D P). apply nil_normal. apply sd_normal.
  - unfold power_compose. destruct (setdegree D P). apply nil_normal. apply sd_normal.
Qed.
End Normal.
