(* C08: pseudo-division pdivmod(Q,R,m,A,B) (as repaired by fix-4/fix-5): m*A = B*Q + R, deg R < deg B, m = lc(B)^k.
   The in-place loop (quotient terms already computed are scaled by lc(B) at every step, the remainder is updated by
   R <- lc(B)*R - R[degRem]*X^degQuo*B) is followed on the vectors. *)
From Coq Require Import List Arith Lia Setoid Morphisms Ring Bool ZArith.
From C08 Require Import Model Spec ProofsBasic ProofsKara ProofsDiv ProofsSqr ProofsRev ProofsGcd ProofsEuclid ProofsPow ProofsInvmod ProofsMisc.
Import ListNotations.

Section Pdiv.
Context {T : Type} (D : Dom T) (OK : FieldOK D).
Local Notation O_ := (d0 D).
Local Notation I_ := (d1 D).
Local Notation "a + b" := (dadd D a b).
Local Notation "a * b" := (dmul D a b).
Local Notation "a - b" := (dsub D a b).
Local Notation coef := (coef D).
Local Notation peq := (peq D).
Local Notation pmul := (pmul D).
Local Notation padd := (add D).
Local Notation psub := (sub D).
Local Notation pneg := (neg D).
Local Notation eqv := (eqv D).
Local Notation len := (len D).
Local Instance p_equiv : Equivalence eqv := eqv_equiv D.
Local Instance p_add : Proper (eqv ==> eqv ==> eqv) padd := eqv_add D OK.
Local Instance p_sub : Proper (eqv ==> eqv ==> eqv) psub := eqv_sub D OK.
Local Instance p_mul : Proper (eqv ==> eqv ==> eqv) pmul := eqv_mul D OK.
Local Instance p_neg : Proper (eqv ==> eqv) pneg := eqv_neg D OK.
Add Ring Tring16 : (Trt D OK).
Add Ring EringP16 : (eqv_ring D OK) (setoid (eqv_equiv D) (eqv_ext D OK)).
Add Ring EringPP16 : (eqv_ring_poly D OK) (setoid (eqv_equiv D) (eqv_ext D OK)).

Lemma length_upd : forall (R : list T) i v, length (upd R i v) = length R.
Proof. induction R as [|r R IH]; intros i v. reflexivity. destruct i; cbn [upd length]. reflexivity. rewrite IH. reflexivity. Qed.
Lemma coef_upd : forall (R : list T) i v k, coef (upd R i v) k = if (k =? i)%nat && (i <? length R)%nat then v else coef R k.
Proof.
  induction R as [|r R IH]; intros i v k.
  - cbn [upd length]. rewrite andb_false_r. reflexivity.
  - destruct i; cbn [upd].
    + destruct k. reflexivity. reflexivity.
    + destruct k. reflexivity. rewrite !coef_cons_S, IH. cbn [length]. reflexivity.
Qed.
Lemma length_inner : forall cnt (R B : list T) lB q dq j, length (pdivmod_inner D R B lB q dq j cnt) = length R.
Proof. induction cnt as [|c IH]; intros. reflexivity. cbn [pdivmod_inner]. rewrite IH. apply length_upd. Qed.
Lemma coef_inner : forall cnt (R B : list T) lB q dq j k, j + cnt + dq <= length R ->
  coef (pdivmod_inner D R B lB q dq j cnt) k =
  if (j + dq <=? k)%nat && (k <? j + cnt + dq)%nat then coef R k * lB - q * coef B (k - dq) else coef R k.
Proof.
  induction cnt as [|c IH]; intros R B lB q dq j k H.
  - cbn [pdivmod_inner]. destruct (Nat.leb_spec (j + dq) k); destruct (Nat.ltb_spec k (j + 0 + dq)); cbn [andb]; try reflexivity; lia.
  - cbn [pdivmod_inner]. rewrite IH by (rewrite length_upd; lia). rewrite coef_upd.
    destruct (Nat.eqb_spec k (j + dq)) as [E|E].
    + subst k. destruct (Nat.ltb_spec (j + dq) (length R)); [|lia]. cbn [andb].
      destruct (Nat.leb_spec (S j + dq) (j + dq)); [lia|]. cbn [andb].
      destruct (Nat.leb_spec (j + dq) (j + dq)); [|lia]. destruct (Nat.ltb_spec (j + dq) (j + S c + dq)); [|lia]. cbn [andb].
      replace (j + dq - dq)%nat with j by lia. reflexivity.
    + cbn [andb].
      destruct (Nat.leb_spec (S j + dq) k); destruct (Nat.ltb_spec k (S j + c + dq)); destruct (Nat.leb_spec (j + dq) k);
        destruct (Nat.ltb_spec k (j + S c + dq)); cbn [andb]; try reflexivity; lia.
Qed.
Lemma coef_shift_scal_mul : forall dq q (B : list T) i,
  coef (pmul (shiftn D dq [q]) B) i = if (i <? dq)%nat then O_ else q * coef B (i - dq).
Proof.
  intros. rewrite (pmul_shiftn D OK dq [q] B i), (coef_shiftn D). destruct (i <? dq)%nat. reflexivity. apply (coef_scal D OK).
Qed.
Lemma coef_map_mul_r : forall (L : list T) c i, coef (map (fun a => a * c) L) i = coef L i * c.
Proof.
  induction L as [|x L IH]; intros c i. cbn [map]. rewrite coef_nil. ring.
  destruct i; cbn [map]. reflexivity. rewrite !coef_cons_S. apply IH.
Qed.

Lemma pdivmod_loop_S : forall s (Q R B : list T) lB m dB dq dr,
  pdivmod_loop D (S s) Q R B lB m dB dq dr =
  pdivmod_loop D s (firstn (S dq) (upd Q dq (coef R dr)) ++ map (fun a => a * lB) (skipn (S dq) (upd Q dq (coef R dr))))
    (upd (pdivmod_inner D (map (fun a => a * lB) (firstn dq R) ++ skipn dq R) B lB (coef R dr) dq 0 dB) dr O_)
    B lB (m * lB) dB (dq - 1) (dr - 1).
Proof. reflexivity. Qed.

Section Loop.
Variables (A B : list T) (dB : nat).
Let lB := coef B dB.
Hypothesis HBhigh : forall i, dB < i -> coef B i = O_.

(* one step, as polynomial identities *)
Lemma pdivmod_step_Q : forall (Q : list T) dq q, dq < length Q -> (forall i, i <= dq -> coef Q i = O_) ->
  let Q0 := upd Q dq q in
  eqv (firstn (S dq) Q0 ++ map (fun a => a * lB) (skipn (S dq) Q0)) (padd (pmul [lB] Q) (shiftn D dq [q])).
Proof.
  intros Q dq q HL HZ. cbv zeta. set (Q0 := upd Q dq q). assert (LQ0 : length Q0 = length Q) by apply length_upd. apply (eqv_of_coef D). intros i.
  rewrite (coef_add D OK), (coef_scal D OK), (coef_shiftn D), (coef_app D), firstn_length, LQ0.
  replace (Nat.min (S dq) (length Q)) with (S dq) by lia.
  destruct (Nat.ltb_spec i (S dq)) as [Hi|Hi].
  - rewrite (coef_firstn D). destruct (Nat.ltb_spec i (S dq)); [|lia]. unfold Q0. rewrite coef_upd.
    destruct (Nat.eqb_spec i dq) as [E|E].
    + subst i. destruct (Nat.ltb_spec dq (length Q)); [|lia]. cbn [andb]. destruct (Nat.ltb_spec dq dq); [lia|].
      rewrite Nat.sub_diag, coef_cons_0, (HZ dq) by lia. ring.
    + cbn [andb]. destruct (Nat.ltb_spec i dq); [|lia]. rewrite (HZ i) by lia. ring.
  - rewrite coef_map_mul_r, (coef_skipn D). unfold Q0. rewrite coef_upd.
    destruct (Nat.eqb_spec (S dq + (i - S dq)) dq); [lia|]. cbn [andb]. destruct (Nat.ltb_spec i dq); [lia|].
    replace (S dq + (i - S dq))%nat with i by lia.
    replace (i - dq)%nat with (S (i - dq - 1)) by lia. rewrite coef_cons_S, coef_nil. ring.
Qed.
Lemma pdivmod_step_R : forall (R : list T) dq, dq + dB < length R -> (forall i, dq + dB < i -> coef R i = O_) ->
  let q := coef R (dq + dB) in
  let R1 := map (fun a => a * lB) (firstn dq R) ++ skipn dq R in
  eqv (upd (pdivmod_inner D R1 B lB q dq 0 dB) (dq + dB) O_) (psub (pmul [lB] R) (pmul (shiftn D dq [q]) B)).
Proof.
  intros R dq HL HZ. cbv zeta. set (q := coef R (dq + dB)). set (R1 := map (fun a => a * lB) (firstn dq R) ++ skipn dq R). apply (eqv_of_coef D). intros i.
  assert (L1 : length R1 = length R).
  { unfold R1. rewrite app_length, map_length, firstn_length, skipn_length. lia. }
  assert (C1 : forall k, coef R1 k = if (k <? dq)%nat then coef R k * lB else coef R k).
  { intros k. unfold R1. rewrite (coef_app D), map_length, firstn_length. replace (Nat.min dq (length R)) with dq by lia.
    destruct (Nat.ltb_spec k dq). rewrite coef_map_mul_r, (coef_firstn D). destruct (Nat.ltb_spec k dq); [reflexivity|lia].
    rewrite (coef_skipn D). f_equal. lia. }
  rewrite (coef_sub D OK), (coef_scal D OK), coef_shift_scal_mul, coef_upd, length_inner, L1.
  destruct (Nat.eqb_spec i (dq + dB)) as [E|E].
  - subst i. destruct (Nat.ltb_spec (dq + dB) (length R)); [|lia]. cbn [andb]. destruct (Nat.ltb_spec (dq + dB) dq); [lia|].
    replace (dq + dB - dq)%nat with dB by lia. fold lB. unfold q. ring.
  - cbn [andb]. rewrite coef_inner by (rewrite L1; lia). rewrite C1.
    repeat match goal with
           | |- context[Nat.ltb ?a ?b] => destruct (Nat.ltb_spec a b)
           | |- context[Nat.leb ?a ?b] => destruct (Nat.leb_spec a b)
           end; cbn [andb]; try lia; try ring.
    rewrite (HZ i) by lia. rewrite (HBhigh (i - dq)) by lia. ring.
Qed.

(* the loop: s+1 steps remain, degQuo = s, degRem = s + dB *)
Lemma pdivmod_loop_spec : forall s (Q R : list T) m,
  length Q = length Q -> s < length Q -> s + dB < length R ->
  (forall i, i <= s -> coef Q i = O_) -> (forall i, s + dB < i -> coef R i = O_) ->
  eqv (pmul [m] A) (padd (pmul B Q) R) ->
  let '(Q', R', m') := pdivmod_loop D (S s) Q R B lB m dB s (s + dB) in
  eqv (pmul [m'] A) (padd (pmul B Q') R') /\ (forall i, dB <= i -> coef R' i = O_) /\ m' = m * dom_pow D lB (S s).
Proof.
  induction s as [|s IH]; intros Q R m _ HLQ HLR HQ HR HI; rewrite pdivmod_loop_S.
  - (* last step *)
    cbn [pdivmod_loop]. cbn [plus] in *. set (q := coef R dB).
    pose proof (pdivmod_step_Q Q 0 q HLQ HQ) as EQ. pose proof (pdivmod_step_R R 0 HLR HR) as ER. cbn [plus] in EQ, ER. fold q in ER.
    split; [|split].
    + rewrite EQ, ER. transitivity (pmul [lB] (pmul [m] A)). rewrite <- (scal_mul D OK). ring. rewrite HI. ring.
    + intros i Hi. rewrite coef_upd, length_inner.
      destruct (Nat.eqb_spec i dB); destruct (Nat.ltb_spec dB (length (map (fun a => a * lB) (firstn 0 R) ++ skipn 0 R))); cbn [andb]; try reflexivity.
      * cbn [firstn map app skipn] in *. lia.
      * rewrite coef_inner by (cbn [firstn map app skipn]; lia). cbn [plus firstn map app skipn].
        destruct (Nat.leb_spec 0 i); destruct (Nat.ltb_spec i (dB + 0)); cbn [andb]; try lia. apply HR. lia.
      * cbn [firstn map app skipn] in *. lia.
    + cbn [dom_pow]. ring.
  - set (q := coef R (S s + dB)).
    pose proof (pdivmod_step_Q Q (S s) q HLQ HQ) as EQ. pose proof (pdivmod_step_R R (S s) HLR HR) as ER. cbv zeta in EQ, ER. fold q in ER.
    replace (S s - 1)%nat with s by lia. replace (S s + dB - 1)%nat with (s + dB)%nat by lia.
    set (Q1 := firstn (S (S s)) (upd Q (S s) q) ++ map (fun a => a * lB) (skipn (S (S s)) (upd Q (S s) q))) in *.
    set (R3 := upd (pdivmod_inner D (map (fun a => a * lB) (firstn (S s) R) ++ skipn (S s) R) B lB q (S s) 0 dB) (S s + dB) O_) in *.
    assert (LQ1 : length Q1 = length Q).
    { unfold Q1. rewrite app_length, map_length, firstn_length, skipn_length, length_upd. lia. }
    assert (LR3 : length R3 = length R).
    { unfold R3. rewrite length_upd, length_inner, app_length, map_length, firstn_length, skipn_length. lia. }
    assert (P1 : forall i, i <= s -> coef Q1 i = O_).
    { intros i Hi. rewrite (eqv_peq D _ _ EQ i), (coef_add D OK), (coef_scal D OK), (coef_shiftn D).
      destruct (Nat.ltb_spec i (S s)); [|lia]. rewrite (HQ i) by lia. ring. }
    assert (P2 : forall i, s + dB < i -> coef R3 i = O_).
    { intros i Hi. rewrite (eqv_peq D _ _ ER i), (coef_sub D OK), (coef_scal D OK), coef_shift_scal_mul.
      destruct (Nat.eq_dec i (S s + dB)) as [E|E].
      * subst i. destruct (Nat.ltb_spec (S s + dB) (S s)); [lia|]. replace (S s + dB - S s)%nat with dB by lia. fold lB. unfold q. ring.
      * rewrite (HR i) by lia. destruct (Nat.ltb_spec i (S s)); [lia|]. rewrite (HBhigh (i - S s)) by lia. ring. }
    assert (P3 : eqv (pmul [m * lB] A) (padd (pmul B Q1) R3)).
    { rewrite EQ, ER. transitivity (pmul [lB] (pmul [m] A)). rewrite <- (scal_mul D OK). ring. rewrite HI. ring. }
    specialize (IH Q1 R3 (m * lB) eq_refl ltac:(lia) ltac:(lia) P1 P2 P3).
    destruct (pdivmod_loop D (S s) Q1 R3 B lB (m * lB) dB s (s + dB)) as [[Q' R'] m'].
    destruct IH as [I1 [I2 I3]].
    split; [exact I1|split; [exact I2|]]. rewrite I3. cbn [dom_pow]. ring.
Qed.
End Loop.

(* pdivmod(Q,R,m,A,B) for B <> 0 *)
Lemma pdivmod_spec : forall A B, isZero D B = false ->
  let '(Q, R, m) := pdivmod D A B in
  eqv (pmul [m] A) (padd (pmul B Q) R) /\ (degree D R < degree D B)%Z /\ exists k, m = dom_pow D (leadcoef D B) k.
Proof.
  intros A B HZ. unfold pdivmod.
  pose proof (isZero_false_len D B HZ) as LB. pose proof (leadcoef_coef D OK B LB) as ELC.
  destruct (Z.eqb_spec (degree D A) (-1)) as [Ea|Ea].
  { split; [|split].
    - assert (EA : eqv A []). { apply (degree_neg_zero D OK). lia. } rewrite EA. ring.
    - rewrite !(degree_len D). unfold ProofsRev.len at 1. cbn. lia.
    - exists 0%nat. reflexivity. }
  destruct (Z.eqb_spec (degree D B) 0) as [Eb|Eb].
  { split; [|split].
    - destruct (degree0_const D OK B Eb) as [c [Hc EB]]. unfold assign. rewrite (setdegree_eqv D OK).
      assert (E0 : coef B 0 = c). { rewrite (eqv_peq D _ _ EB 0%nat). reflexivity. }
      rewrite E0, EB. ring.
    - rewrite !(degree_len D). unfold ProofsRev.len at 1. cbn. lia.
    - exists 1%nat. cbn [dom_pow]. rewrite ELC. rewrite (degree_len D) in Eb. replace (len B - 1)%nat with 0%nat by lia. ring. }
  assert (Triv : eqv (pmul [I_] A) (padd (pmul B []) (assign D A)) /\ exists k : nat, I_ = dom_pow D (leadcoef D B) k).
  { split. unfold assign. rewrite (setdegree_eqv D OK). ring. exists 0%nat. reflexivity. }
  destruct (Z.eqb_spec (degree D A) 0) as [Ea0|Ea0].
  { destruct Triv as [T1 T2]. split; [exact T1|split; [|exact T2]].
    unfold assign. rewrite !(degree_len D) in *. unfold ProofsRev.len at 1. rewrite (setdegree_idem D OK). fold (len A). lia. }
  destruct (Z.ltb_spec (degree D A) (degree D B)) as [Hlt|Hge].
  { destruct Triv as [T1 T2]. split; [exact T1|split; [|exact T2]].
    unfold assign. rewrite !(degree_len D) in *. unfold ProofsRev.len at 1. rewrite (setdegree_idem D OK). fold (len A). lia. }
  (* main branch *)
  rewrite !(degree_len D) in *.
  set (dB := Z.to_nat (Z.of_nat (len B) - 1)). set (dQ := Z.to_nat (Z.of_nat (len A) - 1 - (Z.of_nat (len B) - 1))).
  set (dR := Z.to_nat (Z.of_nat (len A) - 1)).
  assert (EdB : dB = (len B - 1)%nat) by (unfold dB; lia). assert (EdR : dR = (dQ + dB)%nat) by (unfold dR, dQ, dB; lia).
  assert (HBhigh : forall i, dB < i -> coef B i = O_). { intros i Hi. apply (coef_high_zero D OK). lia. }
  pose proof (pdivmod_loop_spec A B dB HBhigh dQ (zeros D (S dQ)) (assign D A) I_ eq_refl) as HL.
  rewrite EdR. unfold assign in *.
  destruct (pdivmod_loop D (S dQ) (zeros D (S dQ)) (setdegree D A) B (coef B dB) I_ dB dQ (dQ + dB)) as [[Q R] m].
  destruct HL as [H1 [H2 H3]].
  - rewrite length_zeros. lia.
  - fold (len A). unfold dQ, dB. lia.
  - intros i _. apply (coef_zeros D).
  - intros i Hi. apply (coef_ge D). fold (len A). unfold dQ, dB in Hi. lia.
  - rewrite (setdegree_eqv D OK). rewrite (eqv_of_coef D (zeros D (S dQ)) []) by (intros i; rewrite (coef_zeros D), coef_nil; reflexivity). ring.
  - split; [|split].
    + rewrite H1, !(setdegree_eqv D OK). apply p_add. reflexivity.
      apply (eqv_of_coef D). intros i. rewrite (coef_resize D). destruct (Nat.ltb_spec i dB). reflexivity. apply H2. assumption.
    + assert (LE : len (setdegree D (resize D dB R)) <= dB).
      { etransitivity. apply (len_le_length D). etransitivity. apply (length_setdegree D). rewrite (length_resize D). lia. }
      rewrite (degree_len D). lia.
    + exists (S dQ). rewrite H3, ELC, <- EdB. ring.
Qed.
End Pdiv.

(* ---- pmod(R,m,A,B) (as repaired by fix-4/fix-6): m*A = B*K + R for some K, deg R < deg B, m = lc(B)^k *)
Section Pmod.
Context {T : Type} (D : Dom T) (OK : FieldOK D).
Local Notation O_ := (d0 D).
Local Notation I_ := (d1 D).
Local Notation "a * b" := (dmul D a b).
Local Notation coef := (coef D).
Local Notation pmul := (pmul D).
Local Notation padd := (add D).
Local Notation psub := (sub D).
Local Notation pneg := (neg D).
Local Notation eqv := (eqv D).
Local Notation len := (len D).
Local Instance q_equiv : Equivalence eqv := eqv_equiv D.
Local Instance q_add : Proper (eqv ==> eqv ==> eqv) padd := eqv_add D OK.
Local Instance q_sub : Proper (eqv ==> eqv ==> eqv) psub := eqv_sub D OK.
Local Instance q_mul : Proper (eqv ==> eqv ==> eqv) pmul := eqv_mul D OK.
Local Instance q_neg : Proper (eqv ==> eqv) pneg := eqv_neg D OK.
Add Ring Tring17 : (Trt D OK).
Add Ring EringP17 : (eqv_ring D OK) (setoid (eqv_equiv D) (eqv_ext D OK)).
Add Ring EringPP17 : (eqv_ring_poly D OK) (setoid (eqv_equiv D) (eqv_ext D OK)).

Lemma pmod_inner_eq : forall cnt (R B : list T) lB lr d j, pmod_inner D R B lB lr d j cnt = pdivmod_inner D R B lB lr d j cnt.
Proof. induction cnt as [|c IH]; intros. reflexivity. cbn [pmod_inner pdivmod_inner]. apply IH. Qed.

Section Loop.
Variables (A B : list T) (dB : nat).
Let lB := coef B dB.
Hypothesis HBhigh : forall i, dB < i -> coef B i = O_.

(* one elimination step on a vector R of exactly dR+1 entries, dB <= dR *)
Lemma pmod_step : forall (R : list T) dR, length R = S dR -> dB <= dR ->
  let d := (dR - dB)%nat in
  let R1 := pmod_inner D R B lB (coef R dR) d 0 dB in
  let R3 := upd (map (fun a => a * lB) (firstn d R1) ++ skipn d R1) dR O_ in
  eqv R3 (psub (pmul [lB] R) (pmul (shiftn D d [coef R dR]) B)) /\ len R3 <= dR.
Proof.
  intros R dR HL Hd. cbv zeta. set (d := (dR - dB)%nat). set (lr := coef R dR).
  rewrite pmod_inner_eq. set (R1 := pdivmod_inner D R B lB lr d 0 dB).
  assert (L1 : length R1 = S dR) by (unfold R1; rewrite (length_inner D); exact HL).
  assert (L2 : length (map (fun a => a * lB) (firstn d R1) ++ skipn d R1) = S dR).
  { rewrite app_length, map_length, firstn_length, skipn_length. lia. }
  assert (C : forall i, coef (upd (map (fun a => a * lB) (firstn d R1) ++ skipn d R1) dR O_) i =
                        dsub D (lB * coef R i) (if (i <? d)%nat then O_ else lr * coef B (i - d))).
  { intros i. rewrite (coef_upd D), L2. destruct (Nat.eqb_spec i dR) as [E|E].
    - subst i. destruct (Nat.ltb_spec dR (S dR)); [|lia]. cbn [andb]. destruct (Nat.ltb_spec dR d); [unfold d in *; lia|].
      replace (dR - d)%nat with dB by (unfold d; lia). fold lB. unfold lr. ring.
    - cbn [andb]. rewrite (coef_app D), map_length, firstn_length. replace (Nat.min d (length R1)) with d by (unfold d; lia).
      destruct (Nat.ltb_spec i d) as [Hi|Hi].
      + rewrite (coef_map_mul_r D OK), (coef_firstn D). destruct (Nat.ltb_spec i d); [|lia].
        unfold R1. rewrite (coef_inner D) by (rewrite HL; unfold d; lia).
        destruct (Nat.leb_spec (0 + d) i); [lia|]. cbn [andb]. ring.
      + rewrite (coef_skipn D). replace (d + (i - d))%nat with i by lia.
        unfold R1. rewrite (coef_inner D) by (rewrite HL; unfold d; lia).
        destruct (Nat.leb_spec (0 + d) i); [|lia]. destruct (Nat.ltb_spec i (0 + dB + d)); cbn [andb].
        * ring.
        * rewrite (coef_ge D R i) by (unfold d in *; lia). rewrite (HBhigh (i - d)) by (unfold d in *; lia). ring. }
  split.
  - apply (eqv_of_coef D). intros i. rewrite C, (coef_sub D OK), (coef_scal D OK), (coef_shift_scal_mul D OK). reflexivity.
  - apply (len_le_iff D OK). intros k Hk. rewrite C. destruct (Nat.eq_dec k dR) as [E|E].
    + subst k. destruct (Nat.ltb_spec dR d); [unfold d in *; lia|]. replace (dR - d)%nat with dB by (unfold d; lia). fold lB. unfold lr. ring.
    + rewrite (coef_ge D R k) by lia. destruct (Nat.ltb_spec k d); [unfold d in *; lia|]. rewrite (HBhigh (k - d)) by (unfold d in *; lia). ring.
Qed.

Lemma pmod_loop_spec : forall fuel (R : list T) m K, normal D R -> (degree D R < Z.of_nat fuel)%Z ->
  eqv (pmul [m] A) (padd (pmul B K) R) ->
  let '(R', degR', m') := pmod_loop D fuel R B lB m dB (degree D R) in
  (exists K', eqv (pmul [m'] A) (padd (pmul B K') R')) /\ degR' = degree D R' /\ normal D R' /\ (degR' < Z.of_nat dB)%Z /\
  exists k, m' = m * dom_pow D lB k.
Proof.
  induction fuel as [|f IH]; intros R m K NR Hf HI.
  - cbn [pmod_loop]. split. exists K. exact HI. split. reflexivity. split. exact NR. split. lia. exists 0%nat. cbn [dom_pow]. ring.
  - cbn [pmod_loop]. destruct (Z.leb_spec (Z.of_nat dB) (degree D R)) as [Hd|Hd].
    + assert (LR : length R = S (Z.to_nat (degree D R))).
      { rewrite (degree_len D) in *. unfold ProofsRev.len in *. rewrite (normal_setdegree_id D OK R NR) in *. lia. }
      destruct (pmod_step R (Z.to_nat (degree D R)) LR ltac:(lia)) as [E3 L3]. cbv zeta in E3, L3.
      set (R3 := upd (map (fun a => a * lB) (firstn (Z.to_nat (degree D R) - dB) (pmod_inner D R B lB (coef R (Z.to_nat (degree D R))) (Z.to_nat (degree D R) - dB) 0 dB)) ++
                      skipn (Z.to_nat (degree D R) - dB) (pmod_inner D R B lB (coef R (Z.to_nat (degree D R))) (Z.to_nat (degree D R) - dB) 0 dB)) (Z.to_nat (degree D R)) O_) in *.
      assert (Ed : degree D R3 = degree D (setdegree D R3)).
      { rewrite !(degree_len D). unfold ProofsRev.len. rewrite (setdegree_idem D OK). reflexivity. }
      rewrite Ed.
      specialize (IH (setdegree D R3) (m * lB) (padd (pmul [lB] K) (shiftn D (Z.to_nat (degree D R) - dB) [coef R (Z.to_nat (degree D R))]))).
      destruct (pmod_loop D f (setdegree D R3) B lB (m * lB) dB (degree D (setdegree D R3))) as [[R' degR'] m'].
      destruct IH as [I1 [I2 [I3 [I4 [k I5]]]]].
      * apply (setdegree_normal D OK).
      * rewrite <- Ed. rewrite !(degree_len D) in *. lia.
      * rewrite (setdegree_eqv D OK), E3. transitivity (pmul [lB] (pmul [m] A)). rewrite <- (scal_mul D OK). ring. rewrite HI. ring.
      * split; [exact I1|split; [exact I2|split; [exact I3|split; [exact I4|]]]]. exists (S k). rewrite I5. cbn [dom_pow]. ring.
    + split. exists K. exact HI. split. reflexivity. split. exact NR. split. exact Hd. exists 0%nat. cbn [dom_pow]. ring.
Qed.
End Loop.

Lemma pmod_spec : forall A B, isZero D B = false ->
  let '(R, m) := pmod D A B in
  (exists K, eqv (pmul [m] A) (padd (pmul B K) R)) /\ (degree D R < degree D B)%Z /\ exists k, m = dom_pow D (leadcoef D B) k.
Proof.
  intros A B HZ. unfold pmod.
  pose proof (isZero_false_len D B HZ) as LB. pose proof (leadcoef_coef D OK B LB) as ELC.
  destruct (Z.eqb_spec (degree D A) (-1)) as [Ea|Ea].
  { split; [|split].
    - exists []. assert (EA : eqv A []). { apply (degree_neg_zero D OK). lia. } rewrite EA. ring.
    - rewrite !(degree_len D). unfold ProofsRev.len at 1. cbn. lia.
    - exists 0%nat. reflexivity. }
  destruct (Z.eqb_spec (degree D B) 0) as [Eb|Eb].
  { split; [|split].
    - destruct (degree0_const D OK B Eb) as [c [Hc EB]]. exists A.
      assert (E0 : coef B 0 = c). { rewrite (eqv_peq D _ _ EB 0%nat). reflexivity. }
      rewrite E0, EB. ring.
    - rewrite !(degree_len D). unfold ProofsRev.len at 1. cbn. lia.
    - exists 1%nat. cbn [dom_pow]. rewrite ELC. rewrite (degree_len D) in Eb. replace (len B - 1)%nat with 0%nat by lia. ring. }
  assert (Triv : (exists K, eqv (pmul [I_] A) (padd (pmul B K) (assign D A))) /\ exists k : nat, I_ = dom_pow D (leadcoef D B) k).
  { split. exists []. unfold assign. rewrite (setdegree_eqv D OK). ring. exists 0%nat. reflexivity. }
  destruct (Z.eqb_spec (degree D A) 0) as [Ea0|Ea0].
  { destruct Triv as [T1 T2]. split; [exact T1|split; [|exact T2]].
    unfold assign. rewrite !(degree_len D) in *. unfold ProofsRev.len at 1. rewrite (setdegree_idem D OK). fold (len A). lia. }
  destruct (Z.ltb_spec (degree D A) (degree D B)) as [Hlt|Hge].
  { destruct Triv as [T1 T2]. split; [exact T1|split; [|exact T2]].
    unfold assign. rewrite !(degree_len D) in *. unfold ProofsRev.len at 1. rewrite (setdegree_idem D OK). fold (len A). lia. }
  set (dB := Z.to_nat (degree D B)).
  assert (EdB : dB = (len B - 1)%nat) by (unfold dB; rewrite (degree_len D); lia).
  assert (HBhigh : forall i, dB < i -> coef B i = O_). { intros i Hi. apply (coef_high_zero D OK). lia. }
  assert (EdA : degree D A = degree D (assign D A)).
  { unfold assign. rewrite !(degree_len D). unfold ProofsRev.len. rewrite (setdegree_idem D OK). reflexivity. }
  rewrite EdA.
  assert (P1 : normal D (assign D A)) by apply (setdegree_normal D OK).
  assert (P2 : (degree D (assign D A) < Z.of_nat (S (Z.to_nat (degree D (assign D A)))))%Z) by (rewrite (degree_len D) in *; lia).
  assert (P3 : eqv (pmul [I_] A) (padd (pmul B []) (assign D A))). { unfold assign. rewrite (setdegree_eqv D OK). ring. }
  pose proof (pmod_loop_spec A B dB HBhigh (S (Z.to_nat (degree D (assign D A)))) (assign D A) I_ [] P1 P2 P3) as HL.
  destruct (pmod_loop D (S (Z.to_nat (degree D (assign D A)))) (assign D A) B (coef B dB) I_ dB (degree D (assign D A))) as [[R degR] m].
  destruct HL as [[K H1] [H2 [H3 [H4 [k H5]]]]].
  - assert (ER : eqv (resize D (Z.to_nat (degR + 1)) R) R).
    { apply (eqv_of_coef D). intros i. rewrite (coef_resize D). destruct (Nat.ltb_spec i (Z.to_nat (degR + 1))). reflexivity.
      symmetry. apply (coef_high_zero D OK). rewrite H2, (degree_len D) in H. lia. }
    split; [|split].
    + exists K. rewrite (setdegree_eqv D OK), ER. exact H1.
    + rewrite (degree_len D). rewrite (len_peq D OK _ R) by (apply eqv_peq; rewrite (setdegree_eqv D OK); exact ER).
      rewrite H2, (degree_len D) in H4. rewrite (degree_len D). lia.
    + exists k. rewrite H5, ELC, <- EdB. ring.
Qed.
End Pmod.
